// gotrans: translate a white-listed set of pure Go leaf functions, constants and tables of
// /repo into Gallina (coq/Gen/FromGo.v).  Run on every check, so the theorems that consume
// these definitions are re-checked against what the source says now.
//
// Accepted subset (anything else makes gotrans fail loudly for that item => broken tie):
//   constants:  integer constant expressions over literals, + - * / << and other constants
//   tables:     package-level []struct{...} composite literals of integer fields
//   functions:  params/results int, int64, uint64, bool, string; `*[]string` out-parameter
//               statements: := / = on locals, if/else-if/else, tagless switch, return,
//               `for _, row := range <table>` with early return, `*out = append(*out, e...)`
//               expressions: literals, + - * / %, comparisons, && || !, len, int conversions,
//               string slicing s[a:b], row.field, table[len(table)-1].field
// Translation is by continuation duplication: if c {B1} else {B2}; rest  =>
//   if c then tr(B1++rest) else tr(B2++rest); assignments become shadowing lets.
// Signed 64-bit arithmetic becomes wrap64 (a + b) etc. (overflow is in the term); string slicing
// becomes `substr` returning None when Go would panic.
package main

import (
	"crypto/sha256"
	"encoding/json"
	"flag"
	"fmt"
	"go/ast"
	"go/parser"
	"go/printer"
	"go/token"
	"os"
	"path/filepath"
	"strconv"
	"strings"
)

type item struct {
	File string // relative to repo
	Kind string // const | func | table
	Name string
	Coq  string // Coq name
	Typ  string // for const: N or Z
}

var items = []item{
	{"codec/dagcbor/common.go", "const", "linkTag", "go_linkTag", "N"},
	{"codec/dagcbor/unmarshal.go", "const", "mapEntryCost", "go_mapEntryCost", "Z"},
	{"codec/dagcbor/unmarshal.go", "const", "listEntryCost", "go_listEntryCost", "Z"},
	{"codec/dagcbor/unmarshal.go", "const", "defaultAllocationBudget", "go_defaultAllocationBudget", "Z"},
	{"codec/dagcbor/unmarshal.go", "const", "defaultMaxCollectionPrealloc", "go_defaultMaxCollectionPrealloc", "Z"},
	{"codec/dagcbor/unmarshal.go", "const", "defaultMaxDepth", "go_defaultMaxDepth", "Z"},
	{"codec/dagjson/unmarshal.go", "const", "defaultMaxDepth", "go_json_defaultMaxDepth", "Z"},
	{"codec/dagcbor/marshal.go", "func", "uintLength", "go_uintLength", ""},
	{"traversal/selector/matcher.go", "func", "sliceBounds", "go_sliceBounds", ""},
	// the comparison closures handed to sort.Slice under `case codec.MapSortMode_X:` (Name = enclosing func / case label)
	{"codec/dagcbor/marshal.go", "sortless", "marshalMap/codec.MapSortMode_RFC7049", "go_cbor_less_rfc7049", ""},
	{"codec/dagcbor/marshal.go", "sortless", "marshalMap/codec.MapSortMode_Lexical", "go_cbor_less_lexical", ""},
	{"codec/dagjson/marshal.go", "sortless", "Marshal/codec.MapSortMode_RFC7049", "go_json_less_rfc7049", ""},
	{"codec/dagjson/marshal.go", "sortless", "Marshal/codec.MapSortMode_Lexical", "go_json_less_lexical", ""},
	{"storage/sharding/sharding.go", "func", "Shard_r133", "go_Shard_r133", ""},
	{"storage/sharding/sharding.go", "func", "Shard_r122", "go_Shard_r122", ""},
	{"storage/sharding/sharding.go", "func", "Shard_r12", "go_Shard_r12", ""},
}

type manifestEntry struct {
	Item   item   `json:"item"`
	Pos    string `json:"pos"`
	SHA256 string `json:"sha256_of_source"`
}

type tr struct {
	fset   *token.FileSet
	file   *ast.File
	consts map[string]int64            // evaluated constants of the file
	tables map[string][]map[string]string // table name -> rows -> field -> literal
	tfield map[string][]string          // table name -> field order
	env    map[string]map[string]string // range variable -> field -> literal (current row)
	strs   map[string]bool              // string-typed identifiers in scope
	outp   string                       // name of the *[]string out-parameter, if any
	subst  map[string]string            // printed source of an expression -> Coq variable of type string (closures)
}

type transErr struct{ msg string }

func (t *tr) die(pos token.Pos, f string, a ...interface{}) {
	panic(transErr{fmt.Sprintf("%s: %s", t.fset.Position(pos), fmt.Sprintf(f, a...))})
}

// ---- constants

func (t *tr) constVal(e ast.Expr) (int64, bool) {
	switch e := e.(type) {
	case *ast.BasicLit:
		if e.Kind == token.INT {
			v, err := strconv.ParseInt(strings.ReplaceAll(e.Value, "_", ""), 0, 64)
			if err != nil {
				return 0, false
			}
			return v, true
		}
	case *ast.ParenExpr:
		return t.constVal(e.X)
	case *ast.Ident:
		v, ok := t.consts[e.Name]
		return v, ok
	case *ast.CallExpr: // int64(x) conversions, len(table)
		if id, ok := e.Fun.(*ast.Ident); ok && len(e.Args) == 1 {
			switch id.Name {
			case "int64", "int", "uint64":
				return t.constVal(e.Args[0])
			case "len":
				if tid, ok := e.Args[0].(*ast.Ident); ok {
					if rows, ok := t.tables[tid.Name]; ok {
						return int64(len(rows)), true
					}
				}
			}
		}
	case *ast.UnaryExpr:
		if e.Op == token.SUB {
			v, ok := t.constVal(e.X)
			return -v, ok
		}
	case *ast.BinaryExpr:
		a, ok1 := t.constVal(e.X)
		b, ok2 := t.constVal(e.Y)
		if !ok1 || !ok2 {
			return 0, false
		}
		switch e.Op {
		case token.ADD:
			return a + b, true
		case token.SUB:
			return a - b, true
		case token.MUL:
			return a * b, true
		case token.QUO:
			if b == 0 {
				return 0, false
			}
			return a / b, true
		case token.SHL:
			return a << uint(b), true
		}
	}
	return 0, false
}

func (t *tr) collect() {
	t.consts = map[string]int64{}
	t.tables = map[string][]map[string]string{}
	t.tfield = map[string][]string{}
	structs := map[string][]string{}
	for _, d := range t.file.Decls {
		gd, ok := d.(*ast.GenDecl)
		if !ok {
			continue
		}
		if gd.Tok == token.TYPE {
			for _, sp := range gd.Specs {
				ts := sp.(*ast.TypeSpec)
				if st, ok := ts.Type.(*ast.StructType); ok {
					var fs []string
					for _, f := range st.Fields.List {
						for _, n := range f.Names {
							fs = append(fs, n.Name)
						}
					}
					structs[ts.Name.Name] = fs
				}
			}
		}
	}
	for _, d := range t.file.Decls {
		gd, ok := d.(*ast.GenDecl)
		if !ok {
			continue
		}
		switch gd.Tok {
		case token.CONST:
			for _, sp := range gd.Specs {
				vs := sp.(*ast.ValueSpec)
				for i, n := range vs.Names {
					if i < len(vs.Values) {
						if v, ok := t.constVal(vs.Values[i]); ok {
							t.consts[n.Name] = v
						}
					}
				}
			}
		case token.VAR:
			for _, sp := range gd.Specs {
				vs := sp.(*ast.ValueSpec)
				for i, n := range vs.Names {
					if i >= len(vs.Values) {
						continue
					}
					cl, ok := vs.Values[i].(*ast.CompositeLit)
					if !ok {
						continue
					}
					at, ok := cl.Type.(*ast.ArrayType)
					if !ok {
						continue
					}
					eid, ok := at.Elt.(*ast.Ident)
					if !ok {
						continue
					}
					fields, ok := structs[eid.Name]
					if !ok {
						continue
					}
					var rows []map[string]string
					good := true
					for _, el := range cl.Elts {
						rl, ok := el.(*ast.CompositeLit)
						if !ok || len(rl.Elts) != len(fields) {
							good = false
							break
						}
						row := map[string]string{}
						for j, fe := range rl.Elts {
							v, ok := t.constVal(fe)
							if !ok {
								good = false
								break
							}
							row[fields[j]] = fmt.Sprintf("(%d)%%Z", v)
						}
						rows = append(rows, row)
					}
					if good {
						t.tables[n.Name] = rows
						t.tfield[n.Name] = fields
					}
				}
			}
		}
	}
}

// ---- expressions

var binop = map[token.Token]string{token.ADD: "add64", token.SUB: "sub64", token.MUL: "mul64", token.QUO: "div64", token.REM: "rem64"}
var cmpop = map[token.Token]string{token.LSS: "Z.ltb", token.LEQ: "Z.leb", token.GTR: "Z.gtb", token.GEQ: "Z.geb", token.EQL: "Z.eqb"}

func strLit(s string) string {
	var parts []string
	for i := 0; i < len(s); i++ {
		parts = append(parts, strconv.Itoa(int(s[i])))
	}
	return "([" + strings.Join(parts, "; ") + "]%N : list N)"
}

func (t *tr) isStr(e ast.Expr) bool {
	if t.subst != nil {
		if _, ok := t.subst[srcOf(t.fset, e)]; ok {
			return true
		}
	}
	if id, ok := e.(*ast.Ident); ok && t.strs[id.Name] {
		return true
	}
	if p, ok := e.(*ast.ParenExpr); ok {
		return t.isStr(p.X)
	}
	return false
}

func (t *tr) expr(e ast.Expr) string {
	if t.subst != nil {
		if v, ok := t.subst[srcOf(t.fset, e)]; ok {
			return v
		}
	}
	switch e := e.(type) {
	case *ast.ParenExpr:
		return t.expr(e.X)
	case *ast.Ident:
		switch e.Name {
		case "true", "false":
			return e.Name
		}
		if v, ok := t.consts[e.Name]; ok {
			return fmt.Sprintf("(%d)%%Z", v)
		}
		return "v_" + e.Name
	case *ast.BasicLit:
		if e.Kind == token.INT {
			v, err := strconv.ParseInt(strings.ReplaceAll(e.Value, "_", ""), 0, 64)
			if err != nil {
				t.die(e.Pos(), "integer literal out of range")
			}
			return fmt.Sprintf("(%d)%%Z", v)
		}
	case *ast.UnaryExpr:
		switch e.Op {
		case token.SUB:
			return "(neg64 " + t.expr(e.X) + ")"
		case token.NOT:
			return "(negb " + t.expr(e.X) + ")"
		}
	case *ast.BinaryExpr:
		if t.isStr(e.X) && t.isStr(e.Y) { // Go compares strings bytewise (GoSem.str_ltb / str_eqb)
			x, y := t.expr(e.X), t.expr(e.Y)
			switch e.Op {
			case token.LSS:
				return fmt.Sprintf("(str_ltb %s %s)", x, y)
			case token.GTR:
				return fmt.Sprintf("(str_ltb %s %s)", y, x)
			case token.LEQ:
				return fmt.Sprintf("(negb (str_ltb %s %s))", y, x)
			case token.GEQ:
				return fmt.Sprintf("(negb (str_ltb %s %s))", x, y)
			case token.EQL:
				return fmt.Sprintf("(str_eqb %s %s)", x, y)
			case token.NEQ:
				return fmt.Sprintf("(negb (str_eqb %s %s))", x, y)
			}
			t.die(e.Pos(), "unsupported string operator")
		}
		if t.isStr(e.X) != t.isStr(e.Y) {
			t.die(e.Pos(), "comparison of a string with a non-string")
		}
		if f, ok := binop[e.Op]; ok {
			return fmt.Sprintf("(%s %s %s)", f, t.expr(e.X), t.expr(e.Y))
		}
		if f, ok := cmpop[e.Op]; ok {
			return fmt.Sprintf("(%s %s %s)", f, t.expr(e.X), t.expr(e.Y))
		}
		switch e.Op {
		case token.NEQ:
			return fmt.Sprintf("(negb (Z.eqb %s %s))", t.expr(e.X), t.expr(e.Y))
		case token.LAND:
			return fmt.Sprintf("(andb %s %s)", t.expr(e.X), t.expr(e.Y))
		case token.LOR:
			return fmt.Sprintf("(orb %s %s)", t.expr(e.X), t.expr(e.Y))
		}
	case *ast.SelectorExpr:
		if x, ok := e.X.(*ast.Ident); ok {
			if row, ok := t.env[x.Name]; ok {
				if v, ok := row[e.Sel.Name]; ok {
					return v
				}
			}
			if x.Name == "math" {
				switch e.Sel.Name {
				case "MaxInt64":
					return "(9223372036854775807)%Z"
				case "MinInt64":
					return "(-9223372036854775808)%Z"
				}
			}
		}
		// table[const].field
		if ix, ok := e.X.(*ast.IndexExpr); ok {
			if tid, ok := ix.X.(*ast.Ident); ok {
				if rows, ok := t.tables[tid.Name]; ok {
					if i, ok := t.constVal(ix.Index); ok && i >= 0 && int(i) < len(rows) {
						if v, ok := rows[i][e.Sel.Name]; ok {
							return v
						}
					}
				}
			}
		}
	case *ast.CallExpr:
		if id, ok := e.Fun.(*ast.Ident); ok && len(e.Args) == 1 {
			switch id.Name {
			case "len":
				return "(len64 " + t.expr(e.Args[0]) + ")"
			case "int64", "int":
				return "(conv_int64 " + t.expr(e.Args[0]) + ")"
			case "uint64":
				return "(conv_uint64 " + t.expr(e.Args[0]) + ")"
			}
		}
	}
	t.die(e.Pos(), "unsupported expression %T", e)
	return ""
}

// string-valued expression as `option (list N)` (None = Go would panic on the slice bounds)
func (t *tr) strExpr(e ast.Expr) string {
	switch e := e.(type) {
	case *ast.BasicLit:
		if e.Kind == token.STRING {
			s, err := strconv.Unquote(e.Value)
			if err != nil {
				t.die(e.Pos(), "bad string literal")
			}
			return "(Some " + strLit(s) + ")"
		}
	case *ast.Ident:
		if t.strs[e.Name] {
			return "(Some v_" + e.Name + ")"
		}
	case *ast.SliceExpr:
		x, ok := e.X.(*ast.Ident)
		if !ok || !t.strs[x.Name] || e.Slice3 {
			break
		}
		lo, hi := "(0)%Z", "(len64 v_"+x.Name+")"
		if e.Low != nil {
			lo = t.expr(e.Low)
		}
		if e.High != nil {
			hi = t.expr(e.High)
		}
		return fmt.Sprintf("(substr v_%s %s %s)", x.Name, lo, hi)
	}
	t.die(e.Pos(), "unsupported string expression %T", e)
	return ""
}

// ---- statements, continuation style; every path must end in return (or in the out-param append)

func (t *tr) stmts(ss []ast.Stmt, ind string) string {
	if len(ss) == 0 {
		if t.outp != "" {
			return "v_" + t.outp
		}
		panic(transErr{"control reaches the end of a function without return"})
	}
	s, rest := ss[0], ss[1:]
	switch s := s.(type) {
	case *ast.ReturnStmt:
		if t.outp != "" && len(s.Results) == 0 {
			return "v_" + t.outp
		}
		var parts []string
		for _, r := range s.Results {
			parts = append(parts, t.expr(r))
		}
		if len(parts) == 1 {
			return parts[0]
		}
		return "(" + strings.Join(parts, ", ") + ")"
	case *ast.AssignStmt:
		// *out = append(*out, e1, e2, ...)
		if len(s.Lhs) == 1 && len(s.Rhs) == 1 {
			if st, ok := s.Lhs[0].(*ast.StarExpr); ok {
				if id, ok := st.X.(*ast.Ident); ok && id.Name == t.outp {
					call, ok := s.Rhs[0].(*ast.CallExpr)
					if ok {
						if fid, ok := call.Fun.(*ast.Ident); ok && fid.Name == "append" && len(call.Args) >= 1 {
							if a0, ok := call.Args[0].(*ast.StarExpr); ok {
								if aid, ok := a0.X.(*ast.Ident); ok && aid.Name == t.outp {
									var parts []string
									for _, a := range call.Args[1:] {
										parts = append(parts, t.strExpr(a))
									}
									return fmt.Sprintf("let v_%s := append_strs v_%s [%s] in\n%s%s", t.outp, t.outp, strings.Join(parts, "; "), ind, t.stmts(rest, ind))
								}
							}
						}
					}
					t.die(s.Pos(), "unsupported write through the out-parameter")
				}
			}
			if id, ok := s.Lhs[0].(*ast.Ident); ok {
				return fmt.Sprintf("let v_%s := %s in\n%s%s", id.Name, t.expr(s.Rhs[0]), ind, t.stmts(rest, ind))
			}
		}
		if len(s.Lhs) == len(s.Rhs) {
			var ls, rs []string
			for i := range s.Lhs {
				id, ok := s.Lhs[i].(*ast.Ident)
				if !ok {
					t.die(s.Pos(), "unsupported assignment")
				}
				ls = append(ls, "v_"+id.Name)
				rs = append(rs, t.expr(s.Rhs[i]))
			}
			return fmt.Sprintf("let '(%s) := (%s) in\n%s%s", strings.Join(ls, ", "), strings.Join(rs, ", "), ind, t.stmts(rest, ind))
		}
	case *ast.IfStmt:
		if s.Init != nil {
			t.die(s.Pos(), "if-init unsupported")
		}
		thenB := append(append([]ast.Stmt{}, s.Body.List...), rest...)
		var elseB []ast.Stmt
		switch e := s.Else.(type) {
		case nil:
			elseB = rest
		case *ast.BlockStmt:
			elseB = append(append([]ast.Stmt{}, e.List...), rest...)
		case *ast.IfStmt:
			elseB = append([]ast.Stmt{e}, rest...)
		}
		return fmt.Sprintf("if %s\n%sthen (%s)\n%selse (%s)", t.expr(s.Cond), ind, t.stmts(thenB, ind+"  "), ind, t.stmts(elseB, ind+"  "))
	case *ast.SwitchStmt:
		if s.Init != nil || s.Tag != nil {
			t.die(s.Pos(), "only tagless switch is supported")
		}
		// build an if-chain; default last
		var def []ast.Stmt
		hasDef := false
		type arm struct {
			cond ast.Expr
			body []ast.Stmt
		}
		var arms []arm
		for _, c := range s.Body.List {
			cc := c.(*ast.CaseClause)
			for _, b := range cc.Body {
				if _, ok := b.(*ast.BranchStmt); ok {
					t.die(b.Pos(), "break/fallthrough unsupported")
				}
			}
			if cc.List == nil {
				def, hasDef = cc.Body, true
				continue
			}
			if len(cc.List) != 1 {
				t.die(cc.Pos(), "multi-expression case unsupported")
			}
			arms = append(arms, arm{cc.List[0], cc.Body})
		}
		_ = hasDef
		var build func(i int, ind string) string
		build = func(i int, ind string) string {
			if i == len(arms) {
				return t.stmts(append(append([]ast.Stmt{}, def...), rest...), ind)
			}
			return fmt.Sprintf("if %s\n%sthen (%s)\n%selse (%s)", t.expr(arms[i].cond), ind,
				t.stmts(append(append([]ast.Stmt{}, arms[i].body...), rest...), ind+"  "), ind, build(i+1, ind+"  "))
		}
		return build(0, ind)
	case *ast.RangeStmt:
		tid, ok := s.X.(*ast.Ident)
		if !ok {
			t.die(s.Pos(), "range over a non-table")
		}
		rows, ok := t.tables[tid.Name]
		if !ok {
			t.die(s.Pos(), "range over unknown table %s", tid.Name)
		}
		if k, ok := s.Key.(*ast.Ident); !ok || k.Name != "_" {
			t.die(s.Pos(), "range key must be _")
		}
		vid, ok := s.Value.(*ast.Ident)
		if !ok {
			t.die(s.Pos(), "range value must be an identifier")
		}
		// unroll: body(row0); body(row1); ...; rest.  The body may only `return` early (checked:
		// it contains no assignment to outer variables).
		for _, b := range s.Body.List {
			if _, ok := b.(*ast.IfStmt); !ok {
				t.die(b.Pos(), "range body may only contain if-return statements")
			}
		}
		if len(rows) == 0 {
			return t.stmts(rest, ind)
		}
		return t.rangeBody(s.Body.List, vid.Name, rows, 0, rest, ind)
	case *ast.BlockStmt:
		return t.stmts(append(append([]ast.Stmt{}, s.List...), rest...), ind)
	case *ast.DeclStmt:
		gd := s.Decl.(*ast.GenDecl)
		outp := ""
		for _, sp := range gd.Specs {
			vs := sp.(*ast.ValueSpec)
			for i, n := range vs.Names {
				val := "(0)%Z"
				if id, ok := vs.Type.(*ast.Ident); ok && id.Name == "bool" {
					val = "false"
				}
				if i < len(vs.Values) {
					val = t.expr(vs.Values[i])
				}
				outp += fmt.Sprintf("let v_%s := %s in\n%s", n.Name, val, ind)
			}
		}
		return outp + t.stmts(rest, ind)
	}
	t.die(s.Pos(), "unsupported statement %T", s)
	return ""
}

// rangeBody translates iteration i of an unrolled range loop: each if-return of the body, then
// the next iteration (or the statements after the loop).
func (t *tr) rangeBody(body []ast.Stmt, v string, rows []map[string]string, i int, rest []ast.Stmt, ind string) string {
	t.env[v] = rows[i]
	var conds []string
	var rets []string
	for _, b := range body {
		is := b.(*ast.IfStmt)
		if is.Else != nil || is.Init != nil || len(is.Body.List) != 1 {
			t.die(is.Pos(), "range body if must be `if c { return e }`")
		}
		r, ok := is.Body.List[0].(*ast.ReturnStmt)
		if !ok {
			t.die(is.Pos(), "range body if must return")
		}
		conds = append(conds, t.expr(is.Cond))
		rets = append(rets, t.stmts([]ast.Stmt{r}, ind))
	}
	var next string
	if i+1 < len(rows) {
		next = t.rangeBody(body, v, rows, i+1, rest, ind+"  ")
	} else {
		delete(t.env, v)
		next = t.stmts(rest, ind+"  ")
	}
	out := next
	for j := len(conds) - 1; j >= 0; j-- {
		out = fmt.Sprintf("if %s\n%sthen (%s)\n%selse (%s)", conds[j], ind, rets[j], ind, out)
	}
	return out
}

func (t *tr) typ(e ast.Expr) string {
	if id, ok := e.(*ast.Ident); ok {
		switch id.Name {
		case "int64", "int", "uint64":
			return "Z"
		case "bool":
			return "bool"
		case "string":
			return "list N"
		}
	}
	t.die(e.Pos(), "unsupported parameter type")
	return ""
}

func (t *tr) fn(fd *ast.FuncDecl, coq string) string {
	t.env = map[string]map[string]string{}
	t.strs = map[string]bool{}
	t.outp = ""
	var params []string
	for _, f := range fd.Type.Params.List {
		// *[]string out-parameter
		if st, ok := f.Type.(*ast.StarExpr); ok {
			if at, ok := st.X.(*ast.ArrayType); ok && at.Len == nil {
				if id, ok := at.Elt.(*ast.Ident); ok && id.Name == "string" && len(f.Names) == 1 && t.outp == "" {
					t.outp = f.Names[0].Name
					continue
				}
			}
			t.die(f.Pos(), "unsupported pointer parameter")
		}
		for _, n := range f.Names {
			ty := t.typ(f.Type)
			if ty == "list N" {
				t.strs[n.Name] = true
			}
			params = append(params, fmt.Sprintf("(v_%s : %s)", n.Name, ty))
		}
	}
	body := ""
	if t.outp != "" {
		body = fmt.Sprintf("let v_%s : option (list (list N)) := Some [] in\n  %s", t.outp, t.stmts(fd.Body.List, "  "))
	} else {
		body = t.stmts(fd.Body.List, "  ")
	}
	return fmt.Sprintf("Definition %s %s :=\n  %s.\n", coq, strings.Join(params, " "), body)
}

// sortLess translates the closure `func(i, j int) bool {...}` handed to sort.Slice(<s>, ...) directly under
// `case <label>:` inside function fname: <s>[i].key and <s>[j].key become the two string parameters.
func (t *tr) sortLess(fname, label, coq string) (string, ast.Node) {
	var fd *ast.FuncDecl
	for _, d := range t.file.Decls {
		if f, ok := d.(*ast.FuncDecl); ok && f.Name.Name == fname && f.Recv == nil {
			fd = f
		}
	}
	if fd == nil {
		panic(transErr{"function " + fname + " not found"})
	}
	var lits []*ast.FuncLit
	var slices []string
	ast.Inspect(fd.Body, func(n ast.Node) bool {
		cc, ok := n.(*ast.CaseClause)
		if !ok {
			return true
		}
		match := false
		for _, l := range cc.List {
			if srcOf(t.fset, l) == label {
				match = true
			}
		}
		if !match {
			return true
		}
		if len(cc.List) != 1 {
			panic(transErr{"case " + label + " shares its clause with other labels"})
		}
		for _, st := range cc.Body {
			es, ok := st.(*ast.ExprStmt)
			if !ok {
				continue
			}
			call, ok := es.X.(*ast.CallExpr)
			if !ok || srcOf(t.fset, call.Fun) != "sort.Slice" || len(call.Args) != 2 {
				continue
			}
			if fl, ok := call.Args[1].(*ast.FuncLit); ok {
				lits = append(lits, fl)
				slices = append(slices, srcOf(t.fset, call.Args[0]))
			}
		}
		return true
	})
	if len(lits) != 1 {
		panic(transErr{fmt.Sprintf("expected exactly one sort.Slice closure under case %s in %s, found %d", label, fname, len(lits))})
	}
	fl := lits[0]
	var ps []string
	for _, f := range fl.Type.Params.List {
		for _, n := range f.Names {
			ps = append(ps, n.Name)
		}
	}
	if len(ps) != 2 {
		panic(transErr{"closure does not take two indices"})
	}
	t.env = map[string]map[string]string{}
	t.strs = map[string]bool{}
	t.outp = ""
	t.subst = map[string]string{
		fmt.Sprintf("%s[%s].key", slices[0], ps[0]): "v_ki",
		fmt.Sprintf("%s[%s].key", slices[0], ps[1]): "v_kj",
	}
	defer func() { t.subst = nil }()
	body := t.stmts(fl.Body.List, "  ")
	return fmt.Sprintf("Definition %s (v_ki v_kj : list N) : bool :=\n  %s.\n", coq, body), fl
}

func srcOf(fset *token.FileSet, n ast.Node) string {
	var sb strings.Builder
	printer.Fprint(&sb, fset, n)
	return sb.String()
}

func main() {
	repo := flag.String("repo", "/repo", "repository root")
	out := flag.String("out", "", "output .v file")
	man := flag.String("manifest", "", "output manifest json")
	flag.Parse()
	var sb strings.Builder
	sb.WriteString("(* GENERATED by gotrans from the Go sources of /repo on every check run. DO NOT EDIT. *)\n")
	sb.WriteString("Require Import IP.Base.GoSem.\nOpen Scope Z_scope.\n\n")
	var entries []manifestEntry
	files := map[string]*tr{}
	failed := false
	for _, it := range items {
		t, ok := files[it.File]
		if !ok {
			t = &tr{fset: token.NewFileSet()}
			f, err := parser.ParseFile(t.fset, filepath.Join(*repo, it.File), nil, 0)
			if err != nil {
				fmt.Fprintf(os.Stderr, "gotrans: %s: %v\n", it.File, err)
				failed = true
				continue
			}
			t.file = f
			t.collect()
			files[it.File] = t
		}
		func() {
			defer func() {
				if r := recover(); r != nil {
					if te, ok := r.(transErr); ok {
						fmt.Fprintf(os.Stderr, "gotrans: %s %s: %s\n", it.Kind, it.Name, te.msg)
						failed = true
						return
					}
					panic(r)
				}
			}()
			switch it.Kind {
			case "const":
				v, ok := t.consts[it.Name]
				if !ok {
					panic(transErr{"constant not found or not a translatable integer constant expression"})
				}
				fmt.Fprintf(&sb, "(* %s: const %s *)\nDefinition %s : %s := (%d)%%%s.\n\n", it.File, it.Name, it.Coq, it.Typ, v, it.Typ)
				entries = append(entries, manifestEntry{it, it.File, fmt.Sprintf("%x", sha256.Sum256([]byte(fmt.Sprint(v))))})
			case "sortless":
				parts := strings.SplitN(it.Name, "/", 2)
				def, node := t.sortLess(parts[0], parts[1], it.Coq)
				fmt.Fprintf(&sb, "(* %s: sort.Slice closure under case %s in func %s *)\n%s\n", it.File, parts[1], parts[0], def)
				entries = append(entries, manifestEntry{it, t.fset.Position(node.Pos()).String(), fmt.Sprintf("%x", sha256.Sum256([]byte(srcOf(t.fset, node))))})
			case "func":
				var fd *ast.FuncDecl
				for _, d := range t.file.Decls {
					if f, ok := d.(*ast.FuncDecl); ok && f.Name.Name == it.Name && f.Recv == nil {
						fd = f
					}
				}
				if fd == nil {
					panic(transErr{"function not found"})
				}
				src := srcOf(t.fset, fd)
				fmt.Fprintf(&sb, "(* %s: func %s *)\n%s\n", it.File, it.Name, t.fn(fd, it.Coq))
				entries = append(entries, manifestEntry{it, t.fset.Position(fd.Pos()).String(), fmt.Sprintf("%x", sha256.Sum256([]byte(src)))})
			}
		}()
	}
	if failed {
		os.Exit(1)
	}
	if *out == "" {
		fmt.Print(sb.String())
	} else if err := os.WriteFile(*out, []byte(sb.String()), 0o644); err != nil {
		panic(err)
	}
	if *man != "" {
		b, _ := json.MarshalIndent(entries, "", " ")
		os.WriteFile(*man, b, 0o644)
	}
}
