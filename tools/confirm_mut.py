#!/usr/bin/env python3
# tools/confirm_mut.py <mutation dir> [--suite] — confirm a seeded mutation in a scratch worktree:
# patch applies to /repo HEAD, library builds, the demonstration passes without and fails with the
# patch, and (--suite) the repository's own test suite still passes with it (apart from the three
# always-failing tests).  Prints a JSON summary.
import json, os, re, subprocess, sys
d = os.path.abspath(sys.argv[1])
suite = "--suite" in sys.argv
BASE = os.environ.get("MCONFIRM", "/tmp/mconfirm")
WT = BASE + "/wt"
env = dict(os.environ, GOFLAGS="-mod=mod", GOPROXY="off", TMPDIR=BASE + "/tmp")
os.makedirs(BASE + "/tmp", exist_ok=True)
def sh(cmd, cwd=None, t=2400):
    p = subprocess.run(cmd, shell=True, cwd=cwd, env=env, stdout=subprocess.PIPE, stderr=subprocess.STDOUT, text=True, timeout=t)
    return p.returncode, p.stdout
if not os.path.isdir(WT):
    sh("git -C /repo worktree add --detach %s HEAD" % WT)
sh("git checkout -q --detach $(git -C /repo rev-parse HEAD); git checkout -q -- .; git clean -qfd", cwd=WT)
demo = None
for n in ("demo_test.go",):
    if os.path.exists(os.path.join(d, n)): demo = os.path.join(d, n)
res = {"dir": d, "head": sh("git -C /repo rev-parse --short HEAD")[1].strip()}
if demo is None:
    res["error"] = "no demo_test.go"; print(json.dumps(res)); sys.exit(1)
src = open(demo).read()
hdr = src.split("\npackage ")[0]
m = (re.search(r"copy this file to\s+(\S+\.go)", hdr) or re.search(r"copy this\s+file there as\s+(\S+\.go)", hdr)
     or re.search(r"cp demo_test\.go\s+(\S+\.go)", hdr) or re.search(r"(?:as|to)\s+(\S+_test\.go)", hdr))
r = re.search(r"go test[^\n]*?-run\s+(\S+)\s+(\./\S+)", hdr)
class _M:
    def __init__(self, s): self.s = s
    def group(self, i): return self.s
if m:
    dest0 = re.sub(r"^<[a-z]+>/", "", m.group(1))
    m = _M(dest0)
if not m or not r:
    res["error"] = "cannot parse placement/run from demo header"; print(json.dumps(res)); sys.exit(1)
dest, runpat, pkg = m.group(1), r.group(1), r.group(2)
race = "-race" if re.search(r"go test[^\n]*-race", src) else ""
cmd = "go test %s -count=1 -run '%s' %s" % (race, runpat, pkg)
import shutil
os.makedirs(os.path.dirname(os.path.join(WT, dest)), exist_ok=True)
shutil.copy(demo, os.path.join(WT, dest))
rc0, out0 = sh(cmd, cwd=WT)
res["demo_without_patch"] = "pass" if rc0 == 0 else "FAIL"
rc, out = sh("git apply %s" % os.path.join(d, "patch.diff"), cwd=WT)
res["patch_applies"] = rc == 0
if rc != 0:
    res["error"] = out[-500:]; print(json.dumps(res)); sys.exit(1)
rc, out = sh("go build ./...", cwd=WT)
res["builds"] = rc == 0
rc1, out1 = sh(cmd, cwd=WT)
res["demo_with_patch"] = "fail" if rc1 != 0 else "PASS"
res["demo_cmd"] = cmd
if suite:
    os.remove(os.path.join(WT, dest))
    rc, out = sh("go test -count=1 -timeout 60m ./... 2>&1", cwd=WT, t=4000)
    bad = [l for l in out.split("\n") if re.match(r"^(--- FAIL|FAIL|panic:)", l) and not re.search(r"TestRoundtripSchemaSchema|TestParseSchemaSchema|TestParse |schema/(dmt|dsl)|^FAIL$", l)]
    res["suite_unexpected_failures"] = bad[:10]
sh("git checkout -q -- .; git clean -qfd", cwd=WT)
res["confirmed"] = bool(res["demo_without_patch"] == "pass" and res["builds"] and res["demo_with_patch"] == "fail" and (not suite or not res["suite_unexpected_failures"]))
print(json.dumps(res))
