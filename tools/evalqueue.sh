#!/bin/bash
# tools/evalqueue.sh <slot> <queuefile> — worker: take lines "<PROP> <k> <check ids...>" off the queue file one at a
# time (flock) and evaluate each with tools/evalmut.sh in scratch slot <slot>.  MUTBASE / MUTTAG as for evalmut.sh.
slot=$1; q=$2
while true; do
  line=$(flock "$q.lock" sh -c "head -n 1 '$q'; sed -i 1d '$q'")
  [ -z "$line" ] && { [ -e "$q.stop" ] && break; sleep 20; continue; }
  set -- $line; P=$1; k=$2; shift 2
  /verif/tools/evalmut.sh $slot $P $k "$*" >> "$q.log" 2>&1
done
