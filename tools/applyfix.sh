#!/bin/bash
# tools/applyfix.sh <fixes/name.diff> <go test packages...> — apply one proposed fix to /repo as one "fix:" commit
set -e
f=$(readlink -f $1); shift
cd /repo
test -z "$(git status --short)" || { echo "/repo not clean"; exit 1; }
sed -n '/^diff --git/,$p' $f | git apply -
go build ./...
export TMPDIR=/tmp/applyfix-tmp; mkdir -p $TMPDIR
go test -count=1 "$@" > /tmp/applyfix.log 2>&1 || true
bad=$(grep -E "^--- FAIL|^FAIL|panic:" /tmp/applyfix.log | grep -v -E "TestRoundtripSchemaSchema|TestParseSchemaSchema|TestParse |FAIL\s+github.com/ipld/go-ipld-prime/schema/(dmt|dsl)|^FAIL$" || true)
if [ -n "$bad" ]; then echo "$bad" | head; echo "TESTS FAILED - reverting"; git checkout -- .; git clean -qfd; exit 1; fi
msg=$(sed -n '1,/^diff --git/p' $f | sed '$d' | sed '/^Found by \/verif/d' | sed '/^---$/d')
git add -A
git commit -q -m "$msg"
git log --oneline | head -1
