#!/bin/bash
# tools/soak.sh "<ids>" "<seeds>" — run quick checks under several seeds; print only failures and a summary
ids=${1:-"C01 C02 C03 C05 C06 C10 C12"}; seeds=${2:-"2 3 4 5 6 7 8 9"}
cd "$(dirname "$0")/.."
./check --setup > /dev/null 2>&1
fail=0
for s in $seeds; do for id in $ids; do
  out=$(VERIF_SEED=$s ./check $id 2>&1); rc=$?
  line=$(echo "$out" | grep -v KNOWN-FINDING | tail -1)
  if [ $rc -ne 0 ]; then fail=$((fail+1)); echo "FAIL seed=$s $id rc=$rc"; echo "$out" | grep -v KNOWN-FINDING | tail -5; f=$(ls -t replays/$id-*.json | head -1); head -c 1500 $f; echo; fi
  echo "seed=$s $line"
done; done
echo "soak done: $fail failures"
