#!/usr/bin/env python3
"""tools/mechmut.py — mechanical mutation run: single-site mutants (harness/cmd/mechmut) of the files the properties
are anchored in; for each sampled mutant: does it build, does the repository's own test suite (the packages that can
see the change) still pass, and if so do the checks of the properties anchored in that file report it.

  tools/mechmut.py plan  --per-file N --seed S   > plan.tsv       (file, k, line, op, detail, ids)
  tools/mechmut.py run   --plan plan.tsv --slots 4 --out results.tsv [--base /tmp/mech]
  tools/mechmut.py table --results results.tsv                    (markdown summary)

Nothing touches /repo or /verif: every slot has its own git worktree of /repo HEAD and its own copy of /verif
(tools/runmut.sh).  A surviving mutant that no check reports is either equivalent (no observable change), outside
every listed property, or a miss; those are triaged by hand (seeded/MECH.md)."""
import argparse, os, random, subprocess, sys, json, time, threading, queue

MECH = "/verif/build/bin/mechmut"
ENV = dict(os.environ, GOFLAGS="-mod=mod", GOPROXY="off")

# file -> (properties whose checks to run, packages whose tests stand for "the suite")
ALLPKG = "ALL"
TARGETS = {
    "codec/dagcbor/marshal.go": ("C02", "codec"),
    "codec/dagcbor/encodedLength.go": ("C02", "codec"),
    "codec/dagcbor/unmarshal.go": ("C03 C10 C02", "codec"),
    "codec/dagcbor/common.go": ("C02 C03", "codec"),
    "codec/dagjson/marshal.go": ("C04", "codec"),
    "codec/dagjson/unmarshal.go": ("C04 C10", "codec"),
    "node/basicnode/map.go": ("C01 C12 C11", ALLPKG),
    "node/basicnode/list.go": ("C01 C12 C11", ALLPKG),
    "node/basicnode/any.go": ("C01 C12", ALLPKG),
    "node/basicnode/int.go": ("C01 C02", ALLPKG),
    "node/basicnode/bytes.go": ("C01 C11", ALLPKG),
    "datamodel/equal.go": ("C01", ALLPKG),
    "datamodel/copy.go": ("C01", ALLPKG),
    "datamodel/path.go": ("C14 C10", ALLPKG),
    "datamodel/pathSegment.go": ("C14 C01", ALLPKG),
    "linking/functions.go": ("C05 C06", "link"),
    "linking/setup.go": ("C05 C17", "link"),
    "linking/cid/cidLink.go": ("C05 C06", "link"),
    "linking/cid/linksystem.go": ("C05 C06", "link"),
    "linking/cid/memorystorage.go": ("C17 C05", "link"),
    "multicodec/registry.go": ("C05", "link"),
    "storage/memstore/memstore.go": ("C17", "link"),
    "storage/fsstore/fsstore.go": ("C17 C18", "link"),
    "storage/funcs.go": ("C17", "link"),
    "traversal/walk.go": ("C07 C15 C14", "trav"),
    "traversal/focus.go": ("C14 C16", "trav"),
    "traversal/common.go": ("C15 C20", "trav"),
    "traversal/selector/exploreAll.go": ("C07", "trav"),
    "traversal/selector/exploreFields.go": ("C07", "trav"),
    "traversal/selector/exploreIndex.go": ("C07", "trav"),
    "traversal/selector/exploreRange.go": ("C07 C10", "trav"),
    "traversal/selector/exploreRecursive.go": ("C07 C10", "trav"),
    "traversal/selector/exploreRecursiveEdge.go": ("C07 C10", "trav"),
    "traversal/selector/exploreUnion.go": ("C07 C10", "trav"),
    "traversal/selector/selector.go": ("C07 C10", "trav"),
    "traversal/selector/matcher.go": ("C07", "trav"),
    "node/bindnode/node.go": ("C08 C09 C19 C12", "schema"),
    "node/bindnode/repr.go": ("C08 C09", "schema"),
    "node/bindnode/infer.go": ("C19 C08", "schema"),
    "schema/tmpBuilders.go": ("C08 C20", "schema"),
    "schema/typesystem.go": ("C20 C08", "schema"),
}
PKGSETS = {
    "codec": "./codec/... ./linking/... ./traversal/... ./node/bindnode/... ./multicodec/...",
    "link": "./linking/... ./storage/... ./traversal/... ./multicodec/... ./codec/...",
    "trav": "./traversal/... ./linking/... ./node/bindnode/...",
    "schema": "./node/bindnode/... ./schema ./schema/dmt/... ./schema/dsl/... ./node/tests/... ./traversal/... ./codec/...",
}
KNOWN_FAIL = ("TestRoundtripSchemaSchema", "TestParse", "TestParseSchemaSchema")


def sh(cmd, cwd=None, env=None, timeout=3600):
    p = subprocess.run(cmd, shell=True, cwd=cwd, env=env or ENV, stdout=subprocess.PIPE, stderr=subprocess.STDOUT, timeout=timeout)
    return p.returncode, p.stdout.decode(errors="replace")


def plan(a):
    rnd = random.Random(a.seed)
    for f, (ids, _) in TARGETS.items():
        if not os.path.exists("/repo/" + f):
            continue
        rc, out = sh(f"{MECH} -file /repo/{f} -list")
        sites = [l.split("\t") for l in out.strip().split("\n") if l]
        # keep the sample varied: at most 40 % of a file's sample from one operator
        rnd.shuffle(sites)
        cnt, take = {}, []
        for s in sites:
            if len(take) >= a.per_file:
                break
            if cnt.get(s[2], 0) >= max(1, int(0.4 * a.per_file)):
                continue
            cnt[s[2]] = cnt.get(s[2], 0) + 1
            take.append(s)
        for s in take:
            print("\t".join([f, s[0], s[1], s[2], s[3] if len(s) > 3 else "", ids]))


def failing_tests(out):
    bad = []
    for l in out.split("\n"):
        if l.startswith("--- FAIL") or l.startswith("    --- FAIL"):
            name = l.split()[2].split("/")[0]
            if name not in KNOWN_FAIL:
                bad.append(name)
        if l.startswith("panic:") or "[build failed]" in l or "[setup failed]" in l:
            bad.append(l[:60])
        if l.startswith("FAIL\t") and "[" not in l:
            pass
    return bad


def worker(slot, base, q, outf, lock):
    sd = f"{base}/s{slot}"
    wt = f"{sd}/wt"
    os.makedirs(sd + "/tmp", exist_ok=True)
    env = dict(ENV, TMPDIR=sd + "/tmp")
    if not os.path.isdir(wt):
        sh(f"git -C /repo worktree add --detach {wt} HEAD")
    while True:
        try:
            f, k, line, op, detail, ids = q.get_nowait()
        except queue.Empty:
            return
        t0 = time.time()
        sh(f"git -C {wt} checkout -q -- . && git -C {wt} clean -qfd")
        rc, _ = sh(f"{MECH} -file /repo/{f} -k {k} -o {wt}/{f}")
        res = {"file": f, "k": k, "line": line, "op": op, "detail": detail, "ids": ids}
        rc, out = sh("go build ./... && go vet ./" + os.path.dirname(f), cwd=wt, env=env)
        if rc != 0:
            res["stage"] = "nocompile"
        else:
            pk = TARGETS[f][1]
            pkgs = PKGSETS.get(pk) or "$(go list ./... | grep -v schema/gen/go)"
            rc, out = sh(f"go test -count=1 -timeout 20m {pkgs} 2>&1", cwd=wt, env=env, timeout=3000)
            bad = failing_tests(out)
            if "panic: test timed out" in out:
                bad.append("timeout")
            if bad:
                res["stage"] = "killed-by-suite"
                res["tests"] = bad[:3]
            else:
                sh(f"git -C {wt} diff > {sd}/patch.diff")
                rc, out = sh(f"MUT_SCRATCH={sd}/mv /verif/tools/runmut.sh {sd}/patch.diff {ids} 2>&1", env=env, timeout=7200)
                verdicts = {}
                cur = None
                for l in out.split("\n"):
                    if l.startswith("=== "):
                        cur = l.split()[1]
                        verdicts[cur] = "pass"
                    elif l.startswith("VIOLATION") and cur:
                        verdicts[cur] = "VIOLATION" + (" nfi" if "no-failing-input-found" in l else "")
                    elif "replay:" in l and cur and verdicts.get(cur, "").startswith("VIOLATION"):
                        verdicts[cur] += " " + l.strip()[:160]
                res["stage"] = "survivor"
                res["checks"] = verdicts
                res["caught"] = any(v.startswith("VIOLATION") for v in verdicts.values())
                if not res["caught"]:
                    os.makedirs(f"{base}/uncaught", exist_ok=True)
                    sh(f"cp {sd}/patch.diff {base}/uncaught/{f.replace('/', '_')}.{k}.diff")
        res["secs"] = int(time.time() - t0)
        with lock:
            outf.write(json.dumps(res) + "\n")
            outf.flush()
    sh(f"git -C {wt} checkout -q -- . && git -C {wt} clean -qfd")


def run(a):
    q = queue.Queue()
    done = set()
    if os.path.exists(a.out):
        for l in open(a.out):
            try:
                o = json.loads(l); done.add((o["file"], str(o["k"])))
            except Exception:
                pass
    for l in open(a.plan):
        p = l.rstrip("\n").split("\t")
        if len(p) >= 6 and (p[0], p[1]) not in done:
            q.put(p[:6])
    outf = open(a.out, "a")
    lock = threading.Lock()
    ths = [threading.Thread(target=worker, args=(i, a.base, q, outf, lock)) for i in range(a.slots)]
    [t.start() for t in ths]
    [t.join() for t in ths]


def table(a):
    rows = [json.loads(l) for l in open(a.results) if l.strip()]
    tri = {}
    tp = os.path.join(os.path.dirname(os.path.abspath(__file__)), "..", "seeded", "mech_triage.json")
    if os.path.exists(tp):
        tri = json.load(open(tp))
    n = len(rows)
    st = {}
    for r in rows:
        st[r["stage"]] = st.get(r["stage"], 0) + 1
    surv = [r for r in rows if r["stage"] == "survivor"]
    caught = [r for r in surv if r.get("caught")]
    unc = [r for r in surv if not r.get("caught")]
    kinds = {}
    for r in unc:
        t = tri.get("%s.%s" % (r["file"], r["k"]), {"verdict": "untriaged"})
        kinds[t["verdict"]] = kinds.get(t["verdict"], 0) + 1
    print("# Mechanical single-site mutants\n")
    print("Generated by `tools/mechmut.py table` from the run's result file and `seeded/mech_triage.json` (hand triage of the\n"
          "survivors no check reported). Operators and procedure: DESIGN.md §8.\n")
    print(f"Mutants sampled: {n}. Do not compile: {st.get('nocompile', 0)}. Killed by the repository's own tests: {st.get('killed-by-suite', 0)}. "
          f"Survive the repository's tests: {len(surv)} — of those reported by at least one check: {len(caught)}; not reported: {len(unc)} "
          f"({', '.join('%s: %d' % kv for kv in sorted(kinds.items()))}).\n")
    print("## Survivors of the repository's tests\n")
    print("| file:line | operator | checks run | result | triage |\n|---|---|---|---|---|")
    for r in surv:
        ch = "; ".join(f"{k}: {v.split(' ')[0]}{' (no failing input)' if ' nfi' in v else ''}" for k, v in r.get("checks", {}).items())
        t = tri.get("%s.%s" % (r["file"], r["k"]), {})
        res = "reported" if r.get("caught") else "not reported"
        print(f"| {r['file']}:{r['line']} | {r['op']} {r['detail']} | {ch} | {res} | {t.get('verdict', '') if not r.get('caught') else ''} {t.get('note', '') if not r.get('caught') else ''} |")


if __name__ == "__main__":
    ap = argparse.ArgumentParser()
    sub = ap.add_subparsers(dest="cmd")
    p = sub.add_parser("plan"); p.add_argument("--per-file", type=int, default=5); p.add_argument("--seed", type=int, default=1)
    p = sub.add_parser("run"); p.add_argument("--plan"); p.add_argument("--slots", type=int, default=4); p.add_argument("--out"); p.add_argument("--base", default="/tmp/mech")
    p = sub.add_parser("table"); p.add_argument("--results")
    a = ap.parse_args()
    {"plan": plan, "run": run, "table": table}[a.cmd](a)
