#!/usr/bin/env python3
"""tools/mut_prompts.py <base> [ids...] — write the prompt each outside mutation agent gets to <base>/prompt_<id>.txt.
The agent sees only the property text, its own scratch worktree, and one-line summaries of the mutations already
tried for that property (so that a new wave aims elsewhere).  Nothing from /verif is given to it."""
import json, sys, os, glob

args = [a for a in sys.argv[1:] if not a.startswith("--")]
style = "small" if "--small" in sys.argv else "coop"
base = args[0]
ids = args[1:]
STYLE_COOP = "At least ONE of the two must consist of two cooperating edits at different sites that each look harmless alone, or depend on state carried across several calls."
STYLE_SMALL = "This time keep them SMALL: each mutation is a slip of one to three lines at a single site (a boundary comparison, a wrong variable or field, a swapped argument, a missing or extra condition, a wrong constant, an early return, a wrong error class, a forgotten reset) of the kind that survives review; still NOT something ordinary use would expose at once. Pick sites in DIFFERENT files or functions for the two, and prefer clauses of the statement and entry points / options / node implementations the quantifier names that the earlier ideas below did not touch."
props = {}
for line in open('/verif/properties.jsonl'):
    p = json.loads(line); props[p['id']] = p
ids = ids or sorted(props)
os.makedirs(base, exist_ok=True)
for pid in ids:
    p = props[pid]
    tried = []
    for d in sorted(glob.glob(f'/verif/seeded/{pid}-*/meta.json')):
        try:
            tried.append(json.load(open(d)).get('summary', '')[:300])
        except Exception:
            pass
    d = f'{base}/{pid}'
    anchors = ', '.join(p.get('anchors', {}).get('files', []))
    q = p.get('quantifier', {})
    txt = f"""You are testing a verification effort from the outside. You get ONLY the text of one semantic property of the Go library ipld/go-ipld-prime, and your own scratch git worktree of the library. Do NOT read or use anything under /verif (off limits; it would invalidate the experiment). Do NOT modify /repo itself.

Setup: run `git -C /repo worktree add --detach {d}/wt HEAD` (if it already exists, remove it first with `git -C /repo worktree remove --force {d}/wt`). Work only inside {d}/. Go environment: `export GOFLAGS=-mod=mod GOPROXY=off TMPDIR={d}/tmp` and `mkdir -p {d}/tmp` (a private TMPDIR matters: the schema/gen/go tests build into $TMPDIR and collide with other people's runs otherwise; no network; do not set GOSUMDB or GOTOOLCHAIN). The machine is shared and busy: run the FULL suite at most once per mutation (`cd {d}/wt && nice -n 5 go test -count=1 -timeout 120m ./... 2>&1 | tail -40`), and use package-level runs (`go test -count=1 ./<pkg>/...`) while you are developing. Three tests fail on the pristine tree for lack of a git submodule: schema/dmt TestRoundtripSchemaSchema, schema/dsl TestParse and TestParseSchemaSchema; ignore exactly those.

The property ({pid}): "{p['title']}"
Statement: {p['statement']}
Quantified over: {q.get('text', '')}
Code it is anchored in: {anchors}

Task: produce TWO independent source changes (mutations) to the library, each of which BREAKS this property while (a) the library still compiles and (b) the library's existing test suite still passes (apart from the three always-failing tests mentioned). Make them realistic, subtle bugs of the kind a maintainer could introduce by accident: each must need something specific to manifest — an unusual input or boundary value, a multi-step sequence of operations, a particular option/configuration, a particular interleaving, a crash or fault at a particular point — NOT something that ordinary use would expose at once. """ + (STYLE_SMALL if style == "small" else STYLE_COOP) + """ Aim at mechanisms, clauses of the statement and files DIFFERENT from the ideas already tried by others for this property, which were:
""" + ''.join(f'- {t}\n' for t in tried) + f"""(Do not repeat those; look for other clauses of the statement, other code paths, other files among the anchors and what they call, other node implementations / options / entry points the quantifier mentions.)

For each mutation k in 1..2 create the directory {d}/m<k>/ containing:
- patch.diff : `git diff` of the worktree for this mutation alone (applies with `git apply` to a pristine checkout of HEAD);
- demo_test.go : a small Go test, using only the library's public API, that FAILS with the mutation and PASSES without it; its header comment must contain exactly these two lines: `// Placement: copy this file to <path relative to the checkout>/<name>_test.go` and `// Run: go test -count=1 -run <TestName> ./<pkg>` (add -race on the Run line if the demo needs the race detector);
- meta.json : {{"property": "{pid}", "summary": "<one line: what was changed>", "needs": "<what it needs in order to manifest>", "files": ["<changed files>"], "verified": "<the exact commands you ran and what you observed>"}}
Verify all of that yourself: apply each patch alone on the pristine worktree, run the full suite once, run the demo with and without the patch. Reset the worktree between mutations (`git -C {d}/wt checkout -- . && git -C {d}/wt clean -fd`). NEVER use `git stash` (the stash is shared by every worktree of /repo and other people are working in theirs: entries cross over); keep work in progress as diff files in your own directory instead. When finished, remove the worktree (`git -C /repo worktree remove --force {d}/wt`). Final message: for each mutation one line with what it changes and what it needs to manifest."""
    if "--one" in sys.argv:   # a short wave: one mutation per agent
        txt = (txt.replace("produce TWO independent source changes (mutations) to the library, each of which BREAKS", "produce ONE source change (mutation) to the library which BREAKS")
                  .replace("Make them realistic, subtle bugs of the kind a maintainer could introduce by accident: each must need", "Make it a realistic, subtle bug of the kind a maintainer could introduce by accident: it must need")
                  .replace("At least ONE of the two must consist", "Prefer a mutation that consists")
                  .replace("For each mutation k in 1..2 create the directory", "Create the directory").replace("/m<k>/", "/m1/")
                  .replace("Pick sites in DIFFERENT files or functions for the two, and prefer", "Prefer"))
    open(f'{base}/prompt_{pid}.txt', 'w').write(txt)
    print(pid, len(tried), 'tried;', len(txt), 'chars')
