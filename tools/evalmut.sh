#!/bin/bash
# tools/evalmut.sh <slot> <PROP> <k> "<check ids>" — confirm mutation /tmp/mut/<PROP>/m<k> (suite included), store it
# under /verif/seeded/<PROP>-m<k>/ when confirmed, run the listed checks against it in scratch slot <slot>.
slot=$1; P=$2; k=$3; ids=$4
src=${MUTBASE:-/tmp/mut}/$P/m$k
out=/verif/seeded/$P-${MUTTAG:-m}$k
mkdir -p $out
if ! grep -q '"confirmed": true' $out/confirm.json 2>/dev/null; then MCONFIRM=/tmp/mconfirm$slot /verif/tools/confirm_mut.py $src --suite > $out/confirm.json 2>/dev/null; fi
cp $src/patch.diff $out/ 2>/dev/null; cp $src/demo_test.go $out/ 2>/dev/null; cp $src/meta.json $out/meta.agent.json 2>/dev/null
if grep -q '"confirmed": true' $out/confirm.json; then
  MUT_SCRATCH=/tmp/mverif$slot /verif/tools/runmut.sh $src/patch.diff $ids > $out/checks.txt 2>&1
else
  echo "not confirmed" > $out/checks.txt
fi
echo "done $P-${MUTTAG:-m}$k: $(grep -o '"confirmed": [a-z]*' $out/confirm.json) | $(grep -c VIOLATION $out/checks.txt) violation lines"
