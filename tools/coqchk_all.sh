#!/bin/bash
# tools/coqchk_all.sh — run the independent checker on every property file (and everything each depends on)
# and write the summaries to docs/coqchk.txt.  Needs the .vo files (./check --setup).  ~1 min per property, 6 at a time.
cd /verif/coq || exit 1
mkdir -p /verif/build/coqchk
ls Props/C*.v | sed 's|Props/||; s|\.v$||' | xargs -P 6 -I{} sh -c '( /usr/bin/time -f "%e s" timeout 9000 coqchk -silent -o -R . IP IP.Props.{} ) > /verif/build/coqchk/{}.txt 2>&1'
{
  echo "coqchk -silent -o -R . IP IP.Props.Cxx   (Coq 8.16.1; run $(date -u +%Y-%m-%dT%H:%MZ) at /verif commit $(git -C /verif rev-parse --short HEAD))"
  echo "Each run re-checks the property file and every file it depends on (models, proofs, the standard library modules used)."
  echo
  for f in /verif/build/coqchk/C*.txt; do
    id=$(basename $f .txt)
    ax=$(grep -A1 "^\* Axioms" $f | tr -d '\n' | sed 's/  */ /g')
    tt=$(grep "type-in-type" $f | sed 's/.*: //'); uf=$(grep "unsafe (co)fixpoints" $f | sed 's/.*: //'); po=$(grep "positivity is assumed" $f | sed 's/.*: //')
    echo "$id: $ax | type-in-type: $tt | unsafe fixpoints: $uf | assumed positivity: $po | $(tail -n 1 $f)"
  done
} > /verif/docs/coqchk.txt
cat /verif/docs/coqchk.txt
