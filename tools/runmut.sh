#!/bin/bash
# tools/runmut.sh <patch.diff> <ID> [<ID>...] — run checks against a mutated copy of /repo without
# touching /repo or /verif: a scratch worktree of /repo HEAD + an rsync'ed copy of /verif with its own
# build directory (kept between runs so Coq is not rebuilt every time).
set -u
PATCH=$(readlink -f "$1"); shift
SCR=${MUT_SCRATCH:-/tmp/mverif}
WT=$SCR/wt
mkdir -p $SCR
if [ ! -d $WT ]; then git -C /repo worktree add --detach $WT HEAD >/dev/null 2>&1; fi
git -C $WT checkout -q --detach $(git -C /repo rev-parse HEAD) 2>/dev/null
git -C $WT checkout -q -- . ; git -C $WT clean -qfd
rsync -a --delete --exclude build --exclude .git --exclude replays --exclude evidence /verif/ $SCR/verif/
mkdir -p $SCR/verif/evidence
rm -rf $SCR/verif/replays
if ! git -C $WT apply "$PATCH"; then echo "PATCH DOES NOT APPLY"; exit 2; fi
cd $SCR/verif
for id in "$@"; do
  echo "=== $id against $(basename $(dirname $PATCH))/$(basename $PATCH)"
  VERIF_REPO=$WT timeout 1500 ./check $id 2>&1 | grep -v "^KNOWN-FINDING" | tail -4
  f=$(ls -t replays/$id-*.json 2>/dev/null | head -1)
  if [ -n "$f" ]; then python3 - "$f" <<'PY'
import json,sys
o=json.load(open(sys.argv[1]))
print("  replay:", o.get("kind"), o.get("classes"), str(o.get("case"))[:300], "| broken:", str(o.get("broken_obligations"))[:300])
PY
  fi
done
git -C $WT checkout -q -- . ; git -C $WT clean -qfd
