// Package schgen: the generated-code pipeline shared by the c08, c09 and c13 harnesses.
// The code generator is the one compiled into the harness binary from the working tree
// (schema/gen/go); for every batch of schemas a fresh package is emitted into
// build/gen/<run>/b<k>/gen/, built with `go build` together with a small driver main, and run on the
// cases handed in.  The status of every batch is written to build/gen/status-<run>.json, which the
// "generated package compiles" obligation of the prop modules reads.
package schgen

import (
	"bufio"
	"bytes"
	"encoding/json"
	"fmt"
	"os"
	"os/exec"
	"path/filepath"
	"reflect"
	"sort"
	"strings"
	"time"
	"unsafe"

	"verifharness/lib"

	"github.com/ipld/go-ipld-prime/schema"
	gengo "github.com/ipld/go-ipld-prime/schema/gen/go"
)

// Case is one input for the generated code: Op "build" (one build at Level over Route) or "val"
// (the C08 observation of a typed value given by its type-level tree).
type Case struct {
	ID    string
	SI    int // index into the schemas
	Op    string
	Level byte
	Route string
	V     *lib.Val
	Obs   string // filled in: the generated code's observation, or nobuild
}

type BatchStatus struct {
	Dir       string  `json:"dir"`
	Schemas   int     `json:"schemas"`
	Cases     int     `json:"cases"`
	Generated bool    `json:"generated"`
	Compiled  bool    `json:"compiled"`
	Lines     int     `json:"lines"`
	GenSec    float64 `json:"gen_s"`
	BuildSec  float64 `json:"build_s"`
	Log       string  `json:"log"`
	NodeRuns  int     `json:"node_runs"`
	Adj       string  `json:"adj"` // the AdjunctCfg the batch was generated with ("" = union memory layouts only)
}

type NodeDiff struct {
	Case   []string `json:"case"`
	Direct string   `json:"direct"`
	Node   string   `json:"node"`
	Safe   bool     `json:"safe"` // schema free of the shapes the known AssignNode defect needs
	Map    bool     `json:"map"`  // schema has a typed map
}

const driverSrc = `package main

import (
	"bufio"
	"fmt"
	"os"
	"strings"

	"verifharness/lib"
	"zzgen/gen"

	"github.com/ipld/go-ipld-prime/datamodel"
)

func main() {
	sc := bufio.NewScanner(os.Stdin)
	sc.Buffer(make([]byte, 1<<20), 1<<28)
	w := bufio.NewWriterSize(os.Stdout, 1<<20)
	defer w.Flush()
	for sc.Scan() {
		f := strings.Split(sc.Text(), "\t") // id, op, type name, level, route, tree
		if len(f) < 6 {
			continue
		}
		v, err := lib.ParseVal(f[5])
		if err != nil {
			panic(err)
		}
		tp, rp := gen.ZzProto(f[2], false), gen.ZzProto(f[2], true)
		obs := "noproto"
		if tp != nil && rp != nil {
			p := lib.SchProto{T: func() datamodel.NodeBuilder { return tp.NewBuilder() }, R: func() datamodel.NodeBuilder { return rp.NewBuilder() }}
			if f[1] == "val" {
				obs = lib.SchObserveValP(p, v)
			} else if f[1] == "bytes" {
				obs = lib.SchBuildBytes(p.R, []byte(v.S))
			} else if f[3] == "r" {
				obs, _ = lib.SchBuildWith(p.R, f[4], v)
			} else {
				obs, _ = lib.SchBuildWith(p.T, f[4], v)
			}
		}
		fmt.Fprintf(w, "%s\t%s\n", f[0], obs)
	}
}
`

func repoDir() string {
	if r := os.Getenv("VERIF_REPO"); r != "" {
		return r
	}
	return "/repo"
}

// setUnexported stores val into an unexported field of the AdjunctCfg (the generator's own tests set these
// fields from inside the package; there is no exported way, so the harness goes through reflect/unsafe).
func setUnexported(adj *gengo.AdjunctCfg, field string, val interface{}) {
	f := reflect.ValueOf(adj).Elem().FieldByName(field)
	if !f.IsValid() {
		panic("AdjunctCfg has no field " + field)
	}
	reflect.NewAt(f.Type(), unsafe.Pointer(f.UnsafeAddr())).Elem().Set(reflect.ValueOf(val))
}

var schPreludeNames = map[string]bool{"Bool": true, "Int": true, "Float": true, "String": true, "Bytes": true, "Link": true}

// fullAdjunct fills every override the generator's AdjunctCfg has: a Go symbol for every struct field
// (lower and upper), type symbols for about half of the declared types, MaybeUsesPtr forced either way
// for about two thirds of the types, union memory layouts.  Overrides rename Go symbols and move values
// between embedded and pointer Maybes; none of them may change what the package does.
func fullAdjunct(adj *gengo.AdjunctCfg, types map[string]schema.Type, names []string, rng *lib.Rng) (map[string]string, string) {
	adj.FieldSymbolLowerOverrides = map[gengo.FieldTuple]string{}
	upper := map[gengo.FieldTuple]string{}
	tsym := map[schema.TypeName]string{}
	ptr := map[schema.TypeName]bool{}
	sym := map[string]string{}
	for _, name := range names {
		sym[name] = name
		if !schPreludeNames[name] && rng.Chance(50) {
			tsym[name] = "Zt" + name
			sym[name] = "Zt" + name
		}
		switch rng.Intn(3) {
		case 0:
			ptr[name] = true
		case 1:
			ptr[name] = false
		}
		if st, ok := types[name].(*schema.TypeStruct); ok {
			for _, f := range st.Fields() {
				adj.FieldSymbolLowerOverrides[gengo.FieldTuple{TypeName: name, FieldName: f.Name()}] = "fz_" + f.Name()
				// FieldSymbolUpper looks its table up by the FIELD's type name; both spellings get the same
				// symbol so that the package is well formed whichever key is consulted
				up := "Fz" + strings.Title(f.Name())
				upper[gengo.FieldTuple{TypeName: name, FieldName: f.Name()}] = up
				upper[gengo.FieldTuple{TypeName: f.Type().Name(), FieldName: f.Name()}] = up
			}
		}
	}
	setUnexported(adj, "typeSymbolOverrides", tsym)
	setUnexported(adj, "fieldSymbolUpperOverrides", upper)
	setUnexported(adj, "maybeUsesPtr", ptr)
	return sym, fmt.Sprintf("field symbols lower+upper: %d, type symbols: %d, maybeUsesPtr forced: %d, union layouts: %d",
		len(adj.FieldSymbolLowerOverrides), len(tsym), len(ptr), len(adj.CfgUnionMemlayout))
}

// generate + build one batch; returns the path of the built driver ("" on failure)
func buildBatch(dir string, schemas []*lib.SchTy, rng *lib.Rng, st *BatchStatus, full bool) string {
	os.RemoveAll(dir)
	if err := os.MkdirAll(filepath.Join(dir, "gen"), 0o755); err != nil {
		st.Log = err.Error()
		return ""
	}
	t0 := time.Now()
	var names []string
	sym := map[string]string{}
	err := lib.Safely(func() error {
		tsp, err := lib.SchTypeSystem(schemas, false)
		if err != nil {
			return err
		}
		ts := *tsp
		adj := &gengo.AdjunctCfg{CfgUnionMemlayout: map[schema.TypeName]string{}}
		types := ts.GetTypes()
		for name := range types {
			names = append(names, name)
		}
		sort.Strings(names) // map order must not leak into the generated code or the PRNG stream
		for _, name := range names {
			if types[name].TypeKind() == schema.TypeKind_Union && rng.Chance(40) {
				adj.CfgUnionMemlayout[name] = "interface"
			}
		}
		for _, name := range names {
			sym[name] = name
		}
		if full {
			sym, st.Adj = fullAdjunct(adj, types, names, rng)
		}
		gengo.Generate(filepath.Join(dir, "gen"), "gen", ts, adj)
		return nil
	})
	st.GenSec = time.Since(t0).Seconds()
	if err != nil {
		st.Log = "generate: " + err.Error()
		return ""
	}
	st.Generated = true
	var g strings.Builder
	g.WriteString("package gen\n\nimport \"github.com/ipld/go-ipld-prime/datamodel\"\n\nfunc ZzProto(name string, repr bool) datamodel.NodePrototype {\n\tswitch name {\n")
	for _, n := range names {
		fmt.Fprintf(&g, "\tcase %q:\n\t\tif repr {\n\t\t\treturn _%s__ReprPrototype{}\n\t\t}\n\t\treturn _%s__Prototype{}\n", n, sym[n], sym[n])
	}
	g.WriteString("\t}\n\treturn nil\n}\n")
	os.WriteFile(filepath.Join(dir, "gen", "zz_getter.go"), []byte(g.String()), 0o644)
	os.WriteFile(filepath.Join(dir, "zz_main.go"), []byte(driverSrc), 0o644)
	harnessDir, _ := filepath.Abs("harness")
	repo, _ := filepath.Abs(repoDir())
	gomod := fmt.Sprintf("module zzgen\n\ngo 1.25.7\n\nrequire (\n\tgithub.com/ipld/go-ipld-prime v0.0.0\n\tverifharness v0.0.0\n)\n\nreplace github.com/ipld/go-ipld-prime => %s\n\nreplace verifharness => %s\n", repo, harnessDir)
	os.WriteFile(filepath.Join(dir, "go.mod"), []byte(gomod), 0o644)
	if sum, err := os.ReadFile(filepath.Join(repo, "go.sum")); err == nil {
		os.WriteFile(filepath.Join(dir, "go.sum"), sum, 0o644)
	}
	files, _ := filepath.Glob(filepath.Join(dir, "gen", "ipldsch_*.go"))
	for _, f := range files {
		b, _ := os.ReadFile(f)
		st.Lines += bytes.Count(b, []byte("\n"))
	}
	t1 := time.Now()
	cmd := exec.Command("go", "build", "-o", "zzdrv", ".")
	cmd.Dir = dir
	env := []string{}
	for _, e := range os.Environ() {
		if strings.HasPrefix(e, "GOSUMDB=") || strings.HasPrefix(e, "GOTOOLCHAIN=") || strings.HasPrefix(e, "GOFLAGS=") || strings.HasPrefix(e, "GOPROXY=") {
			continue
		}
		env = append(env, e)
	}
	cmd.Env = append(env, "GOFLAGS=-mod=mod", "GOPROXY=off")
	outp, err := cmd.CombinedOutput()
	st.BuildSec = time.Since(t1).Seconds()
	if err != nil {
		lg := string(outp)
		if len(lg) > 3000 {
			lg = lg[:3000]
		}
		st.Log = "go build: " + err.Error() + "\n" + lg
		return ""
	}
	st.Compiled = true
	return filepath.Join(dir, "zzdrv")
}

func runDriver(drv string, schemas []*lib.SchTy, cases []*Case) error {
	var in bytes.Buffer
	for _, c := range cases {
		fmt.Fprintf(&in, "%s\t%s\t%s\t%c\t%s\t%s\n", c.ID, c.Op, schemas[c.SI].Name, c.Level, c.Route, c.V.Text())
	}
	cmd := exec.Command(drv)
	cmd.Stdin = &in
	var out, errb bytes.Buffer
	cmd.Stdout = &out
	cmd.Stderr = &errb
	if err := cmd.Run(); err != nil {
		return fmt.Errorf("%v: %s", err, errb.String())
	}
	res := map[string]string{}
	sc := bufio.NewScanner(&out)
	sc.Buffer(make([]byte, 1<<20), 1<<28)
	for sc.Scan() {
		f := strings.SplitN(sc.Text(), "\t", 2)
		if len(f) == 2 {
			res[f[0]] = f[1]
		}
	}
	for _, c := range cases {
		if o, ok := res[c.ID]; ok && o != "noproto" {
			c.Obs = o
		} else {
			c.Obs = "nobuild"
		}
	}
	return nil
}

// Run generates, builds and runs the cases (schemas in batches of at most perBatch), fills in
// Case.Obs, writes build/gen/status-<run>.json and, when nodeDiff is set, the AssignNode comparison
// build/gen/nodediff-<run>.json.
func Run(run string, schemas []*lib.SchTy, cases []*Case, rng *lib.Rng, nodeDiff bool) []BatchStatus {
	return runAll(run, schemas, cases, rng, nodeDiff, false)
}

// RunAdj is Run with an AdjunctCfg that exercises every override the generator offers (fullAdjunct); the
// packages go to build/gen/<run>-adj/ and their batch statuses are appended to build/gen/status-<run>.json,
// so that the "generated package compiles" obligation covers them.  Same schemas, same cases, same
// predictions: overrides must not change behaviour.
func RunAdj(run string, schemas []*lib.SchTy, cases []*Case, rng *lib.Rng) []BatchStatus {
	return runAll(run, schemas, cases, rng, false, true)
}

func runAll(run string, schemas []*lib.SchTy, cases []*Case, rng *lib.Rng, nodeDiff bool, full bool) []BatchStatus {
	const perBatch = 90
	var status []BatchStatus
	var diffs []NodeDiff
	root := filepath.Join("build", "gen", run)
	if full {
		root += "-adj"
		if old, err := os.ReadFile(filepath.Join("build", "gen", "status-"+run+".json")); err == nil {
			json.Unmarshal(old, &status)
		}
	}
	os.RemoveAll(root)
	for b := 0; b*perBatch < len(schemas); b++ {
		lo, hi := b*perBatch, (b+1)*perBatch
		if hi > len(schemas) {
			hi = len(schemas)
		}
		var bc []*Case
		for _, c := range cases {
			if c.SI >= lo && c.SI < hi {
				bc = append(bc, c)
			}
		}
		st := BatchStatus{Dir: filepath.Join(root, fmt.Sprintf("b%d", b)), Schemas: hi - lo, Cases: len(bc)}
		drv := buildBatch(st.Dir, schemas[lo:hi], rng, &st, full)
		if drv == "" {
			for _, c := range bc {
				c.Obs = "nobuild"
			}
		} else if err := runDriver(drv, schemas, bc); err != nil {
			st.Log = "run: " + err.Error()
			for _, c := range bc {
				c.Obs = "nobuild"
			}
		} else if nodeDiff {
			// AssignNode of a foreign (basicnode) tree must behave like the plain call sequence
			var nc []*Case
			for _, c := range bc {
				if c.Op == "build" && c.Route == "direct" && !c.V.HasDupKeys() {
					nc = append(nc, &Case{ID: c.ID, SI: c.SI, Op: "build", Level: c.Level, Route: "node", V: c.V})
				}
			}
			direct := map[string]string{}
			for _, c := range bc {
				if c.Route == "direct" {
					direct[c.ID] = c.Obs
				}
			}
			if err := runDriver(drv, schemas, nc); err == nil {
				for _, c := range nc {
					st.NodeRuns++
					if c.Obs != direct[c.ID] {
						diffs = append(diffs, NodeDiff{Case: []string{c.ID, "gennode", schemas[c.SI].Text(), string(c.Level), "node", c.V.Text(), direct[c.ID] + "#" + c.Obs}, Direct: direct[c.ID], Node: c.Obs, Safe: schemas[c.SI].AssignNodeSafe(), Map: schemas[c.SI].HasTypedMap()})
					}
				}
			}
		}
		status = append(status, st)
	}
	os.MkdirAll(filepath.Join("build", "gen"), 0o755)
	if nodeDiff {
		if len(diffs) > 400 {
			diffs = diffs[:400]
		}
		nd, _ := json.Marshal(diffs)
		os.WriteFile(filepath.Join("build", "gen", "nodediff-"+run+".json"), nd, 0o644)
	}
	js, _ := json.MarshalIndent(status, "", " ")
	os.WriteFile(filepath.Join("build", "gen", "status-"+run+".json"), js, 0o644)
	return status
}
