module verifharness

go 1.25.7

require (
	github.com/ipfs/go-cid v0.6.2
	github.com/ipld/go-ipld-prime v0.0.0
	github.com/multiformats/go-multihash v0.2.3
	github.com/polydawn/refmt v0.90.0
)

require (
	github.com/klauspost/cpuid/v2 v2.0.9 // indirect
	github.com/mr-tron/base58 v1.3.0 // indirect
	github.com/multiformats/go-base32 v0.1.0 // indirect
	github.com/multiformats/go-base36 v0.2.0 // indirect
	github.com/multiformats/go-multibase v0.3.0 // indirect
	github.com/multiformats/go-varint v0.1.0 // indirect
	github.com/spaolacci/murmur3 v1.1.0 // indirect
	golang.org/x/crypto v0.53.0 // indirect
	golang.org/x/sys v0.46.0 // indirect
	lukechampine.com/blake3 v1.1.6 // indirect
)

replace github.com/ipld/go-ipld-prime => /repo
