// c16: transforms are pure functional updates, also across links.
//
// Records (tab separated):
//   probe  quirks  <obs: ldn=1,apn=1,mdn=1,neg=1,app=1,nul=1,sep=0,sxu=0,snd=0>
//        which of the confirmed FocusedTransform defects the tree under test shows on their witnesses, and
//        which of three since-changed selector behaviours (edge panics, exhausted recursion unwrapped,
//        union interests not de-duplicated) it has
//   <id>  ft  <blocks>  <root>  <steps>  <links>  <obs>
//        blocks: "cidhex=val;..." initial store (block contents as loaded), "-" if empty
//        root:   value text (links are l<cidhex>)
//        steps:  "path,fn,cp|..."  path = "." or "/hex/hex", fn = id|del|wrap|c:<val>, cp = 0|1
//        links:  "cidhex=val;..." every block of the final store = the graph of the link function the
//                model needs (it treats the link of a block as an arbitrary function)
//        obs:    per step "ok:<raw dump>#cb:<seen,...>" | "err:<class>" | "panic", joined by "|",
//                then "||exp:<expanded dump of the last tree>||pure:<0|1>||new:<cidhex=val;...>"
//   <id>  wt  <blocks>  <root>  <selector>  <fn>  <obs>
//        selector: M | E | A(s) | F(khex:s,...) | I(n,s) | G(start,end,s) | U(s,...) | R(limit|-,s)
//        obs: "ok:<raw dump>#cb:<path=seen,...>" | "err:<class>" | "panic" then "||pure:<0|1>||new:<n>"
package main

import (
	"errors"
	"fmt"
	"io"
	"sort"
	"strconv"
	"strings"

	"verifharness/lib"

	"github.com/ipfs/go-cid"
	_ "github.com/ipld/go-ipld-prime/codec/dagcbor"
	"github.com/ipld/go-ipld-prime/datamodel"
	"github.com/ipld/go-ipld-prime/linking"
	cidlink "github.com/ipld/go-ipld-prime/linking/cid"
	"github.com/ipld/go-ipld-prime/node/basicnode"
	"github.com/ipld/go-ipld-prime/storage"
	"github.com/ipld/go-ipld-prime/storage/memstore"
	"github.com/ipld/go-ipld-prime/traversal"
	"github.com/ipld/go-ipld-prime/traversal/selector"
	"github.com/ipld/go-ipld-prime/traversal/selector/builder"
)

var linkProto = cidlink.LinkPrototype{Prefix: cid.Prefix{Version: 1, Codec: 0x71, MhType: 0x12, MhLength: 32}}

// ---------------------------------------------------------------- graph = memstore link system + root

type graph struct {
	store *memstore.Store
	ls    linking.LinkSystem
	fault string // armed storage fault: the next block write stream fails in this way ("" = none)
	// armed read fault: while set, every block load is refused — "rk" with traversal.SkipMe{} (the answer a
	// walk-style loader gives for a block it chooses not to have), "re" with a plain error.  A transform whose
	// path crosses a link cannot reach its target then and must fail as a whole, whatever the error's type.
	rfault string
}

// arm sets the write or the read fault of one transform, according to the first letter of f.
func (g *graph) arm(f string) {
	g.fault, g.rfault = "", ""
	if strings.HasPrefix(f, "r") {
		g.rfault = f
	} else {
		g.fault = f
	}
}

// Storage faults: "o" the write opener fails; "c" the commit fails; "w<k>" the k-th Write of the stream
// returns an error; "s<k>" the k-th Write is short (n-1, nil).  When the stream ends before its k-th
// Write the commit fails instead, so that an armed fault always makes that one Store fail.
type faultWriter struct {
	w     io.Writer
	mode  byte
	k     int
	fired bool
}

func (f *faultWriter) Write(p []byte) (int, error) {
	if !f.fired {
		f.k--
		if f.k <= 0 && (f.mode == 'w' || len(p) > 0) { // an empty Write cannot be short: wait for the next one
			f.fired = true
			if f.mode == 'w' {
				return 0, errors.New("injected write fault")
			}
			n, _ := f.w.Write(p[:len(p)-1])
			return n, nil
		}
	}
	return f.w.Write(p)
}

func newGraph() *graph {
	g := &graph{store: &memstore.Store{}}
	g.ls = cidlink.DefaultLinkSystem()
	g.ls.SetReadStorage(g.store)
	read := g.ls.StorageReadOpener
	g.ls.StorageReadOpener = func(lctx linking.LinkContext, l datamodel.Link) (io.Reader, error) {
		switch g.rfault {
		case "rk":
			return nil, traversal.SkipMe{}
		case "re":
			return nil, errors.New("injected read fault")
		}
		return read(lctx, l)
	}
	g.ls.StorageWriteOpener = func(lctx linking.LinkContext) (io.Writer, linking.BlockWriteCommitter, error) {
		fault := g.fault
		g.fault = ""
		if fault == "o" {
			return nil, nil, errors.New("injected opener fault")
		}
		w, commit, err := storage.PutStream(lctx.Ctx, g.store)
		if err != nil {
			return nil, nil, err
		}
		if fault == "" {
			return w, func(l datamodel.Link) error { return commit(l.Binary()) }, nil
		}
		fw := &faultWriter{w: w, mode: fault[0], k: 1 << 30}
		if fault[0] == 'w' || fault[0] == 's' {
			fw.k, _ = strconv.Atoi(fault[1:])
		}
		return fw, func(l datamodel.Link) error {
			if !fw.fired {
				return errors.New("injected commit fault")
			}
			return commit(l.Binary())
		}, nil
	}
	return g
}

// fakeLink is a link that is not a CID: the dag-cbor encoder refuses it.  Its binary form starts with
// a zero byte (no CID does), which is how the model recognises a link the block codec cannot encode.
type fakeLink struct{ bin string }

func (l fakeLink) Prototype() datamodel.LinkPrototype { return linkProto }
func (l fakeLink) String() string                     { return "notacid:" + lib.Hex(l.bin) }
func (l fakeLink) Binary() string                     { return l.bin }

const refusedBin = "\x00nc"

// buildConst is lib.BuildBasic for callback values, which may hold refused links.
func buildConst(v *lib.Val) (datamodel.Node, error) {
	nb := basicnode.Prototype.Any.NewBuilder()
	if err := assembleConst(nb, v); err != nil {
		return nil, err
	}
	return nb.Build(), nil
}

func assembleConst(na datamodel.NodeAssembler, v *lib.Val) error {
	switch v.Kind {
	case lib.KLink:
		if strings.HasPrefix(v.S, "\x00") {
			return na.AssignLink(fakeLink{v.S})
		}
	case lib.KList:
		la, err := na.BeginList(int64(len(v.L)))
		if err != nil {
			return err
		}
		for _, x := range v.L {
			if err := assembleConst(la.AssembleValue(), x); err != nil {
				return err
			}
		}
		return la.Finish()
	case lib.KMap:
		ma, err := na.BeginMap(int64(len(v.M)))
		if err != nil {
			return err
		}
		for _, e := range v.M {
			va, err := ma.AssembleEntry(e.K)
			if err != nil {
				return err
			}
			if err := assembleConst(va, e.V); err != nil {
				return err
			}
		}
		return ma.Finish()
	}
	return lib.Assemble(na, v)
}

func (g *graph) prog() traversal.Progress {
	return traversal.Progress{Cfg: &traversal.Config{LinkSystem: g.ls, LinkTargetNodePrototypeChooser: basicnode.Chooser}}
}

// put stores v as a block and returns the binary CID.
func (g *graph) put(v *lib.Val) (string, error) {
	n, err := lib.BuildBasic(v)
	if err != nil {
		return "", err
	}
	l, err := g.ls.Store(linking.LinkContext{}, linkProto, n)
	if err != nil {
		return "", err
	}
	return l.Binary(), nil
}

func (g *graph) load(bin string) (datamodel.Node, error) {
	c, err := cid.Cast([]byte(bin))
	if err != nil {
		return nil, err
	}
	return g.ls.Load(linking.LinkContext{}, cidlink.Link{Cid: c}, basicnode.Prototype.Any)
}

// listing renders the store as "cidhex=val;..." sorted by key; block contents as Load returns them.
func (g *graph) listing(skip map[string]bool) string {
	var keys []string
	for k := range g.store.Bag {
		if !skip[k] {
			keys = append(keys, k)
		}
	}
	sort.Strings(keys)
	var parts []string
	for _, k := range keys {
		n, err := g.load(k)
		if err != nil {
			parts = append(parts, lib.Hex(k)+"=!load")
			continue
		}
		parts = append(parts, lib.Hex(k)+"="+lib.Dump(n))
	}
	if len(parts) == 0 {
		return "-"
	}
	return strings.Join(parts, ";")
}

func (g *graph) keys() map[string]bool {
	m := map[string]bool{}
	for k := range g.store.Bag {
		m[k] = true
	}
	return m
}

// expand replaces every link the store can load by the loaded block, recursively.
func (g *graph) expand(v *lib.Val, depth int) *lib.Val {
	switch v.Kind {
	case lib.KLink:
		if depth > 40 {
			return v
		}
		n, err := g.load(v.S)
		if err != nil {
			return v
		}
		w, err := lib.ParseVal(lib.Dump(n))
		if err != nil {
			return v
		}
		return g.expand(w, depth+1)
	case lib.KList:
		c := &lib.Val{Kind: lib.KList}
		for _, x := range v.L {
			c.L = append(c.L, g.expand(x, depth))
		}
		return c
	case lib.KMap:
		c := &lib.Val{Kind: lib.KMap}
		for _, e := range v.M {
			c.M = append(c.M, lib.Entry{K: e.K, V: g.expand(e.V, depth)})
		}
		return c
	}
	return v
}

func valOf(n datamodel.Node) *lib.Val {
	v, err := lib.ParseVal(lib.Dump(n))
	if err != nil {
		return nil
	}
	return v
}

// ---------------------------------------------------------------- steps

// pseg is a path segment with its storage form: string-stored (ParsePath, PathSegmentOfString) or
// int-stored (PathSegmentOfInt).  Text: "/<hex>" resp. "/#<decimal>".
type pseg struct {
	s     string
	isInt bool
	n     int64
}

func ss(s string) pseg { return pseg{s: s} }
func si(n int64) pseg  { return pseg{isInt: true, n: n} }

func strs(p ...string) []pseg {
	out := make([]pseg, len(p))
	for i, s := range p {
		out[i] = ss(s)
	}
	return out
}

type step struct {
	path  []pseg
	fn    string // id | del | wrap | c:<val>
	cp    bool
	fault string // storage fault armed for this transform ("" = none), see faultWriter
}

func pathText(p []pseg) string {
	if len(p) == 0 {
		return "."
	}
	var sb strings.Builder
	for _, s := range p {
		sb.WriteByte('/')
		if s.isInt {
			sb.WriteByte('#')
			sb.WriteString(strconv.FormatInt(s.n, 10))
		} else {
			sb.WriteString(lib.Hex(s.s))
		}
	}
	return sb.String()
}

func parsePath(t string) []pseg {
	if t == "." {
		return nil
	}
	var out []pseg
	for _, h := range strings.Split(t[1:], "/") {
		if strings.HasPrefix(h, "#") {
			n, err := strconv.ParseInt(h[1:], 10, 64)
			if err != nil {
				panic(err)
			}
			out = append(out, si(n))
		} else {
			out = append(out, ss(lib.UnHex(h)))
		}
	}
	return out
}

func (s step) text() string {
	cp := "0"
	if s.cp {
		cp = "1"
	}
	if s.fault != "" {
		cp += "!" + s.fault
	}
	return pathText(s.path) + "," + s.fn + "," + cp
}

func parseStep(t string) step {
	f := strings.SplitN(t, ",", 3)
	st := step{path: parsePath(f[0]), fn: f[1], cp: strings.HasPrefix(f[2], "1")}
	if i := strings.IndexByte(f[2], '!'); i >= 0 {
		st.fault = f[2][i+1:]
	}
	return st
}

func mkPath(p []pseg) datamodel.Path {
	segs := make([]datamodel.PathSegment, len(p))
	for i, s := range p {
		if s.isInt {
			segs[i] = datamodel.PathSegmentOfInt(s.n)
		} else {
			segs[i] = datamodel.PathSegmentOfString(s.s)
		}
	}
	return datamodel.NewPath(segs)
}

// typed gives some of the canonical non-negative decimal segments the int-stored form.
func typed(r *lib.Rng, p []string) []pseg {
	out := make([]pseg, len(p))
	for i, s := range p {
		out[i] = ss(s)
		if n, err := strconv.ParseInt(s, 10, 64); err == nil && n >= 0 && n < 1<<40 && strconv.FormatInt(n, 10) == s && r.Bool() {
			out[i] = si(n)
		}
	}
	return out
}

func seenText(n datamodel.Node) string {
	if n == nil {
		return "-"
	}
	return lib.Dump(n)
}

// transformFn builds the TransformFn named by fn; every node it is shown is appended to log.
func transformFn(fn string, log *[]string) (traversal.TransformFn, error) {
	var cnode datamodel.Node
	if strings.HasPrefix(fn, "c:") {
		v, err := lib.ParseVal(fn[2:])
		if err != nil {
			return nil, err
		}
		cnode, err = buildConst(v)
		if err != nil {
			return nil, err
		}
	}
	return func(_ traversal.Progress, n datamodel.Node) (datamodel.Node, error) {
		*log = append(*log, seenText(n))
		switch {
		case fn == "id":
			return n, nil
		case fn == "del":
			return nil, nil
		case fn == "wrap":
			nb := basicnode.Prototype.Any.NewBuilder()
			la, _ := nb.BeginList(1)
			if n != nil {
				if err := la.AssembleValue().AssignNode(n); err != nil {
					return nil, err
				}
			}
			if err := la.Finish(); err != nil {
				return nil, err
			}
			return nb.Build(), nil
		default:
			return cnode, nil
		}
	}, nil
}

func errClass(err error) string {
	if lib.IsPanic(err) {
		return "panic"
	}
	var wk datamodel.ErrWrongKind
	if errors.As(err, &wk) {
		return "err:wrong_kind"
	}
	m := err.Error()
	switch {
	case strings.Contains(m, "was a scalar, cannot go deeper"):
		return "err:scalar"
	case strings.Contains(m, "because a list is here"):
		return "err:listseg"
	case strings.Contains(m, "beyond the list bounds"):
		return "err:bounds"
	case strings.Contains(m, "did not exist (and createParents was false)"):
		return "err:noparent"
	case strings.Contains(m, "error storing transformed node"):
		return "err:store"
	case strings.Contains(m, "could not load link"):
		return "err:load"
	}
	return "err:other"
}

// runFT runs the steps one after another; returns the observation.
func runFT(g *graph, root *lib.Val, steps []step) string {
	rootNode, err := lib.BuildBasic(root)
	if err != nil {
		return "builderr"
	}
	before := g.keys()
	type kept struct {
		n    datamodel.Node
		dump string
	}
	keep := []kept{{rootNode, lib.Dump(rootNode)}}
	storeBefore := g.listing(nil)
	cur := rootNode
	var outs []string
	for _, st := range steps {
		var log []string
		fn, err := transformFn(st.fn, &log)
		if err != nil {
			return "builderr"
		}
		var res datamodel.Node
		g.arm(st.fault)
		err = lib.Safely(func() error {
			var e error
			res, e = g.prog().FocusedTransform(cur, mkPath(st.path), fn, st.cp)
			return e
		})
		g.arm("")
		cb := "#cb:" + strings.Join(log, ",")
		if err != nil {
			outs = append(outs, errClass(err)) // what the callback saw is reported for completed transforms only
			if lib.IsPanic(err) {
				break
			}
			continue // a failed transform must leave everything as it was: the run goes on from the same tree
		}
		d := lib.Dump(res)
		outs = append(outs, "ok:"+d+cb)
		if strings.Contains(d, "!") {
			break // a nil node (or unreadable node) sits in the tree: nothing sensible can follow
		}
		keep = append(keep, kept{res, d})
		cur = res
	}
	// the last good tree, expanded through the real link system
	last := keep[len(keep)-1]
	exp := g.expand(valOf(last.n), 0).Text()
	// purity: the input root and every intermediate tree re-read the same; the old blocks load the same
	pure := "1"
	for _, k := range keep {
		if lib.Dump(k.n) != k.dump {
			pure = "0"
		}
	}
	newKeys := map[string]bool{}
	for k := range g.store.Bag {
		if !before[k] {
			newKeys[k] = true
		}
	}
	if g.listing(newKeys) != storeBefore {
		pure = "0"
	}
	return strings.Join(outs, "|") + "||exp:" + exp + "||pure:" + pure + "||new:" + g.listing(before)
}

// ---------------------------------------------------------------- selectors (small fragment)

type sel struct {
	op   byte // M A F I G U R E
	kids []*sel
	keys []string // F
	n    int64    // I index, R limit (-1 = none), G start
	m    int64    // G end
}

func (s *sel) text() string {
	switch s.op {
	case 'M':
		return "M"
	case 'E':
		return "E"
	case 'A':
		return "A(" + s.kids[0].text() + ")"
	case 'I':
		return "I(" + strconv.FormatInt(s.n, 10) + "," + s.kids[0].text() + ")"
	case 'G':
		return "G(" + strconv.FormatInt(s.n, 10) + "," + strconv.FormatInt(s.m, 10) + "," + s.kids[0].text() + ")"
	case 'R':
		l := "-"
		if s.n >= 0 {
			l = strconv.FormatInt(s.n, 10)
		}
		return "R(" + l + "," + s.kids[0].text() + ")"
	case 'U':
		var p []string
		for _, k := range s.kids {
			p = append(p, k.text())
		}
		return "U(" + strings.Join(p, ",") + ")"
	case 'F':
		var p []string
		for i, k := range s.kids {
			p = append(p, lib.Hex(s.keys[i])+":"+k.text())
		}
		return "F(" + strings.Join(p, ",") + ")"
	}
	return "?"
}

func parseSel(t string) (*sel, string) {
	switch t[0] {
	case 'M':
		return &sel{op: 'M'}, t[1:]
	case 'E':
		return &sel{op: 'E'}, t[1:]
	case 'A':
		k, rest := parseSel(t[2:])
		return &sel{op: 'A', kids: []*sel{k}}, rest[1:]
	case 'G':
		i := strings.IndexByte(t, ',')
		j := i + 1 + strings.IndexByte(t[i+1:], ',')
		a, _ := strconv.ParseInt(t[2:i], 10, 64)
		b, _ := strconv.ParseInt(t[i+1:j], 10, 64)
		k, rest := parseSel(t[j+1:])
		return &sel{op: 'G', n: a, m: b, kids: []*sel{k}}, rest[1:]
	case 'I', 'R':
		i := strings.IndexByte(t, ',')
		var n int64 = -1
		if t[2:i] != "-" {
			n, _ = strconv.ParseInt(t[2:i], 10, 64)
		}
		k, rest := parseSel(t[i+1:])
		return &sel{op: t[0], n: n, kids: []*sel{k}}, rest[1:]
	case 'U':
		s := &sel{op: 'U'}
		rest := t[2:]
		for rest[0] != ')' {
			if rest[0] == ',' {
				rest = rest[1:]
			}
			var k *sel
			k, rest = parseSel(rest)
			s.kids = append(s.kids, k)
		}
		return s, rest[1:]
	case 'F':
		s := &sel{op: 'F'}
		rest := t[2:]
		for rest[0] != ')' {
			if rest[0] == ',' {
				rest = rest[1:]
			}
			i := strings.IndexByte(rest, ':')
			s.keys = append(s.keys, lib.UnHex(rest[:i]))
			var k *sel
			k, rest = parseSel(rest[i+1:])
			s.kids = append(s.kids, k)
		}
		return s, rest[1:]
	}
	panic("bad selector text " + t)
}

func (s *sel) spec(ssb builder.SelectorSpecBuilder) builder.SelectorSpec {
	switch s.op {
	case 'M':
		return ssb.Matcher()
	case 'E':
		return ssb.ExploreRecursiveEdge()
	case 'A':
		return ssb.ExploreAll(s.kids[0].spec(ssb))
	case 'I':
		return ssb.ExploreIndex(s.n, s.kids[0].spec(ssb))
	case 'G':
		return ssb.ExploreRange(s.n, s.m, s.kids[0].spec(ssb))
	case 'R':
		lim := selector.RecursionLimitNone()
		if s.n >= 0 {
			lim = selector.RecursionLimitDepth(s.n)
		}
		return ssb.ExploreRecursive(lim, s.kids[0].spec(ssb))
	case 'U':
		var m []builder.SelectorSpec
		for _, k := range s.kids {
			m = append(m, k.spec(ssb))
		}
		return ssb.ExploreUnion(m...)
	default:
		return ssb.ExploreFields(func(b builder.ExploreFieldsSpecBuilder) {
			for i, k := range s.kids {
				b.Insert(s.keys[i], k.spec(ssb))
			}
		})
	}
}

// bareEdgeOK: the tree under test survives an edge that is a direct union member (set from the probe)
var bareEdgeOK bool

// genSel: inRec = an edge may be used here (wrapped; a bare union member only if bareEdgeOK)
func genSel(r *lib.Rng, depth int, inRec bool, keys []string) *sel {
	if depth <= 0 {
		return &sel{op: 'M'}
	}
	switch r.Intn(12) {
	case 0:
		return &sel{op: 'M'}
	case 1, 2:
		if inRec && r.Bool() {
			return &sel{op: 'A', kids: []*sel{{op: 'E'}}}
		}
		return &sel{op: 'A', kids: []*sel{genSel(r, depth-1, inRec, keys)}}
	case 3, 4: // fields: a subset of the keys that occur (in any order), sometimes keys that do not
		n := 1 + r.Intn(3)
		s := &sel{op: 'F'}
		seen := map[string]bool{}
		for i := 0; i < n; i++ {
			k := keys[r.Intn(len(keys))]
			if seen[k] {
				continue
			}
			seen[k] = true
			s.keys = append(s.keys, k)
			s.kids = append(s.kids, genSel(r, depth-1, inRec, keys))
		}
		return s
	case 5:
		return &sel{op: 'I', n: int64(r.Intn(4)), kids: []*sel{genSel(r, depth-1, inRec, keys)}}
	case 6, 7: // range: inside, overlapping the end of, or beyond typical lists (0-5 elements)
		a := int64(r.Intn(5))
		b := a + 1 + int64(r.Intn(4))
		if r.Intn(6) == 0 {
			a, b = a+5, b+7
		}
		return &sel{op: 'G', n: a, m: b, kids: []*sel{genSel(r, depth-1, inRec, keys)}}
	case 8:
		n := 2 + r.Intn(2)
		s := &sel{op: 'U'}
		for i := 0; i < n; i++ {
			k := genSel(r, depth-1, inRec, keys)
			if inRec && bareEdgeOK && r.Intn(4) == 0 {
				k = &sel{op: 'E'} // an edge as a direct union member (panicked before b8b93dd)
			}
			s.kids = append(s.kids, k)
		}
		return s
	default:
		if inRec {
			return &sel{op: 'U', kids: []*sel{{op: 'M'}, {op: 'A', kids: []*sel{{op: 'E'}}}}}
		}
		lim := int64(-1)
		if r.Intn(3) > 0 {
			lim = int64(1 + r.Intn(3))
		}
		// the sequence must contain an edge
		switch r.Intn(4) {
		case 0: // all -> edge alone: nothing is matched, every level is rebuilt
			return &sel{op: 'R', n: lim, kids: []*sel{{op: 'A', kids: []*sel{{op: 'E'}}}}}
		case 1: // fields / range -> edge next to a generated member
			var via *sel
			if r.Bool() {
				via = &sel{op: 'F', keys: []string{keys[r.Intn(len(keys))]}, kids: []*sel{{op: 'E'}}}
			} else {
				via = &sel{op: 'G', n: 0, m: int64(1 + r.Intn(3)), kids: []*sel{{op: 'E'}}}
			}
			return &sel{op: 'R', n: lim, kids: []*sel{{op: 'U', kids: []*sel{genSel(r, depth-1, true, keys), via}}}}
		}
		return &sel{op: 'R', n: lim, kids: []*sel{{op: 'U', kids: []*sel{genSel(r, depth-1, true, keys), {op: 'A', kids: []*sel{{op: 'E'}}}}}}}
	}
}

// progPath renders Progress.Path the way paths are written in the records
func progPath(p datamodel.Path) string {
	segs := p.Segments()
	if len(segs) == 0 {
		return "."
	}
	var sb strings.Builder
	for _, s := range segs {
		sb.WriteByte('/')
		sb.WriteString(lib.Hex(s.String()))
	}
	return sb.String()
}

func walkFn(fn string, log *[]string) (traversal.TransformFn, error) {
	var cnode datamodel.Node
	if strings.HasPrefix(fn, "c:") {
		v, err := lib.ParseVal(fn[2:])
		if err != nil {
			return nil, err
		}
		cnode, err = lib.BuildBasic(v)
		if err != nil {
			return nil, err
		}
	}
	return func(prog traversal.Progress, n datamodel.Node) (datamodel.Node, error) {
		*log = append(*log, progPath(prog.Path)+"="+seenText(n))
		switch fn {
		case "id":
			return n, nil
		case "i2s": // every int becomes the string "i"
			if n.Kind() == datamodel.Kind_Int {
				return basicnode.NewString("i"), nil
			}
			return n, nil
		case "l2n": // every list becomes null
			if n.Kind() == datamodel.Kind_List {
				return datamodel.Null, nil
			}
			return n, nil
		case "m2l": // every map becomes the empty list
			if n.Kind() == datamodel.Kind_Map {
				nb := basicnode.Prototype.Any.NewBuilder()
				la, _ := nb.BeginList(0)
				la.Finish()
				return nb.Build(), nil
			}
			return n, nil
		}
		return cnode, nil
	}, nil
}

func runWT(g *graph, root *lib.Val, s *sel, fn string) string {
	rootNode, err := lib.BuildBasic(root)
	if err != nil {
		return "builderr"
	}
	ssb := builder.NewSelectorSpecBuilder(basicnode.Prototype.Any)
	var compiled selector.Selector
	if err := lib.Safely(func() error {
		var e error
		compiled, e = selector.CompileSelector(s.spec(ssb).Node())
		return e
	}); err != nil {
		return "selerr"
	}
	before := g.keys()
	storeBefore := g.listing(nil)
	rootDump := lib.Dump(rootNode)
	var log []string
	f, err := walkFn(fn, &log)
	if err != nil {
		return "builderr"
	}
	var res datamodel.Node
	err = lib.Safely(func() error {
		var e error
		res, e = g.prog().WalkTransforming(rootNode, compiled, f)
		return e
	})
	var out string
	if err != nil {
		out = errClass(err)
	} else {
		out = "ok:" + lib.Dump(res) + "#cb:" + strings.Join(log, ",")
	}
	pure := "1"
	if lib.Dump(rootNode) != rootDump || g.listing(nil) != storeBefore {
		pure = "0"
	}
	nnew := 0
	for k := range g.store.Bag {
		if !before[k] {
			nnew++
		}
	}
	return out + "||pure:" + pure + "||new:" + strconv.Itoa(nnew)
}

// ---------------------------------------------------------------- generation

var genCfg = &lib.GenCfg{MaxDepth: 3, MaxWidth: 4, Links: true, UintBeyond: true, BadUTF8: true}
var smallCfg = &lib.GenCfg{MaxDepth: 1, MaxWidth: 2, Links: false, UintBeyond: true, BadUTF8: true}

// split turns some subtrees of v into blocks (bottom-up), at most *budget of them.
func split(g *graph, r *lib.Rng, v *lib.Val, budget *int, isRoot bool) *lib.Val {
	switch v.Kind {
	case lib.KList:
		for i, x := range v.L {
			v.L[i] = split(g, r, x, budget, false)
		}
	case lib.KMap:
		for i, e := range v.M {
			v.M[i].V = split(g, r, e.V, budget, false)
		}
	}
	if *budget <= 0 {
		return v
	}
	pct := 12
	if v.Kind == lib.KList || v.Kind == lib.KMap {
		pct = 60
	}
	if isRoot {
		pct = 4
	}
	if v.Kind == lib.KNull && isRoot {
		return v
	}
	if r.Chance(pct) {
		c, err := g.put(v)
		if err != nil {
			return v
		}
		*budget--
		return lib.Link(indirect(g, r, c))
	}
	return v
}

// indirect sometimes hides the block c behind a chain of 1-3 blocks that are nothing but a link.
func indirect(g *graph, r *lib.Rng, c string) string {
	if r.Intn(4) != 0 {
		return c
	}
	for k := 1 + r.Intn(3); k > 0; k-- {
		c2, err := g.put(lib.Link(c))
		if err != nil {
			return c
		}
		c = c2
	}
	return c
}

// descend walks the expanded tree at random and returns the path to a node of the wanted kind
// (0 = any), the node reached and whether the wish was met.
func descend(r *lib.Rng, v *lib.Val, want lib.Kind, any bool) ([]string, *lib.Val, bool) {
	var best []string
	bestV := v
	ok := any || v.Kind == want
	var p []string
	cur := v
	for depth := 0; depth < 6; depth++ {
		stopHere := r.Intn(3) == 0
		if depth == 0 {
			stopHere = r.Intn(15) == 0
		}
		if (any || cur.Kind == want) && (stopHere || (cur.Kind != lib.KList && cur.Kind != lib.KMap)) {
			return p, cur, true
		}
		if any || cur.Kind == want {
			best, bestV, ok = append([]string(nil), p...), cur, true
		}
		switch cur.Kind {
		case lib.KList:
			if len(cur.L) == 0 {
				return best, bestV, ok
			}
			i := r.Intn(len(cur.L))
			p = append(p, strconv.Itoa(i))
			cur = cur.L[i]
		case lib.KMap:
			if len(cur.M) == 0 {
				return best, bestV, ok
			}
			e := cur.M[r.Intn(len(cur.M))]
			p = append(p, e.K)
			cur = e.V
		default:
			return best, bestV, ok
		}
	}
	return best, bestV, ok
}

func freshKey(r *lib.Rng, m *lib.Val) string {
	for i := 0; i < 20; i++ {
		k := lib.StrPool[r.Intn(len(lib.StrPool))]
		used := false
		for _, e := range m.M {
			if e.K == k {
				used = true
			}
		}
		if !used {
			return k
		}
	}
	return "fresh#" + strconv.Itoa(r.Intn(1000))
}

var numKeys = []string{"0", "1", "2", "01", "-1", "+1", "10", "7"}

// addNumericKeys gives some maps of v numeric-looking keys (the ones an int-stored segment can name).
func addNumericKeys(r *lib.Rng, v *lib.Val) {
	for _, x := range v.L {
		addNumericKeys(r, x)
	}
	for _, e := range v.M {
		addNumericKeys(r, e.V)
	}
	if v.Kind == lib.KMap && r.Intn(10) < 4 {
		for j := 0; j <= r.Intn(3); j++ {
			k := numKeys[r.Intn(len(numKeys))]
			dup := false
			for _, e := range v.M {
				if e.K == k {
					dup = true
				}
			}
			if !dup {
				v.M = append(v.M, lib.Entry{K: k, V: r.GenVal(smallCfg, 0)})
			}
		}
	}
}

var oddIdx = []string{"01", "+1", "-0", "-1", "-5", "00", "+0", "1", "0", "9223372036854775807", "9223372036854775808", "-9223372036854775808", " 1", "1 ", "0x1", "1e0", ""}

// linkPaths lists the paths (in the expanded graph) at which a loadable link sits.
func linkPaths(g *graph, v *lib.Val, prefix []string, depth int, out *[][]string) {
	switch v.Kind {
	case lib.KLink:
		if depth > 6 {
			return
		}
		n, err := g.load(v.S)
		if err != nil {
			return
		}
		if len(prefix) > 0 {
			*out = append(*out, append([]string(nil), prefix...))
		}
		if w := valOf(n); w != nil {
			linkPaths(g, w, prefix, depth+1, out)
		}
	case lib.KList:
		for i, x := range v.L {
			linkPaths(g, x, append(prefix, strconv.Itoa(i)), depth, out)
		}
	case lib.KMap:
		for _, e := range v.M {
			linkPaths(g, e.V, append(prefix, e.K), depth, out)
		}
	}
}

func at(v *lib.Val, p []string) *lib.Val {
	for _, s := range p {
		switch v.Kind {
		case lib.KList:
			i, err := strconv.Atoi(s)
			if err != nil || i < 0 || i >= len(v.L) {
				return v
			}
			v = v.L[i]
		case lib.KMap:
			found := false
			for _, e := range v.M {
				if e.K == s {
					v, found = e.V, true
					break
				}
			}
			if !found {
				return v
			}
		default:
			return v
		}
	}
	return v
}

func genStep(g *graph, r *lib.Rng, cur *lib.Val) step {
	st := genStep0(g, r, cur)
	return st
}

func genStep0(g *graph, r *lib.Rng, cur *lib.Val) step {
	ex := g.expand(cur, 0)
	var base []string
	var lps [][]string
	linkPaths(g, cur, nil, 0, &lps)
	if len(lps) > 0 && r.Intn(100) < 45 { // aim below a link
		base = lps[r.Intn(len(lps))]
		ex = at(ex, base)
	}
	p, fn, cp := genStepIn(g, r, ex)
	st := step{path: typed(r, append(append([]string(nil), base...), p...)), fn: fn, cp: cp}
	if r.Intn(14) == 0 { // the storage fails during this transform
		st.fault = []string{"o", "c", "w1", "w2", "w3", "w7", "s1", "s2", "s5"}[r.Intn(9)]
	} else if len(base) > 0 && r.Intn(8) == 0 { // the storage refuses every load during this transform
		st.fault = []string{"rk", "re"}[r.Intn(2)]
	}
	return st
}

func genStepIn(g *graph, r *lib.Rng, ex *lib.Val) ([]string, string, bool) {
	var p []string
	switch r.Intn(16) {
	case 14, 15: // numeric-looking key on a map (present or not), sometimes something below it
		q, _, ok := descend(r, ex, lib.KMap, false)
		p = q
		if ok {
			p = append(p, numKeys[r.Intn(len(numKeys))])
			if r.Intn(4) == 0 {
				p = append(p, numKeys[r.Intn(len(numKeys))])
			}
		}
	case 0, 1, 2: // existing position
		p, _, _ = descend(r, ex, 0, true)
	case 3, 4: // new map key
		q, m, ok := descend(r, ex, lib.KMap, false)
		p = q
		if ok {
			p = append(p, freshKey(r, m))
		}
	case 5: // append
		q, _, ok := descend(r, ex, lib.KList, false)
		p = q
		if ok {
			p = append(p, "-")
		}
	case 6: // missing parents
		q, m, ok := descend(r, ex, lib.KMap, false)
		p = q
		if ok {
			p = append(p, freshKey(r, m))
			for i := 0; i <= r.Intn(2); i++ {
				p = append(p, lib.StrPool[r.Intn(len(lib.StrPool))])
			}
		}
	case 7: // beyond bounds
		q, l, ok := descend(r, ex, lib.KList, false)
		p = q
		if ok {
			p = append(p, strconv.Itoa(len(l.L)+r.Intn(3)))
		}
	case 8: // a scalar reached early
		q, _, _ := descend(r, ex, 0, true)
		p = append(q, lib.StrPool[r.Intn(len(lib.StrPool))])
		if r.Bool() {
			p = append(p, "x")
		}
	case 9: // odd index spellings and non-numeric segments on a list
		q, _, ok := descend(r, ex, lib.KList, false)
		p = q
		if ok {
			if r.Intn(4) == 0 {
				p = append(p, lib.StrPool[r.Intn(len(lib.StrPool))])
			} else {
				p = append(p, oddIdx[r.Intn(len(oddIdx))])
			}
		}
	case 10: // append and go deeper
		q, _, ok := descend(r, ex, lib.KList, false)
		p = q
		if ok {
			p = append(p, "-")
			for i := 0; i <= r.Intn(2); i++ {
				p = append(p, lib.StrPool[r.Intn(len(lib.StrPool))])
			}
		}
	case 11: // existing list element, then something below it
		q, l, ok := descend(r, ex, lib.KList, false)
		p = q
		if ok && len(l.L) > 0 {
			p = append(p, strconv.Itoa(r.Intn(len(l.L))))
			if r.Bool() {
				p = append(p, lib.StrPool[r.Intn(len(lib.StrPool))])
			}
		}
	default: // existing position, one more random segment
		q, _, _ := descend(r, ex, 0, true)
		p = append(q, lib.StrPool[r.Intn(len(lib.StrPool))])
	}
	if len(p) == 0 && r.Intn(8) != 0 { // the root itself is rarely the interesting target
		p, _, _ = descend(r, ex, 0, true)
		if len(p) == 0 && (ex.Kind == lib.KMap || ex.Kind == lib.KList) {
			if ex.Kind == lib.KMap {
				p = []string{freshKey(r, ex)}
			} else {
				p = []string{"-"}
			}
		}
	}
	var fn string
	switch x := r.Intn(22); {
	case x >= 20: // a value the block codec refuses (a link that is not a CID), alone or inside a container
		ref := lib.Link(refusedBin)
		switch r.Intn(3) {
		case 0:
			fn = "c:" + ref.Text()
		case 1:
			fn = "c:" + lib.Map(lib.Entry{K: "a", V: r.GenVal(smallCfg, 0)}, lib.Entry{K: "zz", V: ref}).Text()
		default:
			fn = "c:" + lib.List(r.GenVal(smallCfg, 0), ref, lib.Int(1)).Text()
		}
	case x < 9:
		fn = "c:" + r.GenVal(smallCfg, 0).Text()
	case x < 10: // a link to an existing block as the new value
		fn = "c:" + r.GenVal(smallCfg, 0).Text()
		var ks []string
		for k := range g.store.Bag {
			ks = append(ks, k)
		}
		sort.Strings(ks)
		if len(ks) > 0 {
			fn = "c:" + lib.Link(ks[r.Intn(len(ks))]).Text()
		}
	case x < 13:
		fn = "id"
	case x < 17:
		fn = "del"
	default:
		fn = "wrap"
	}
	return p, fn, r.Bool()
}

// ---------------------------------------------------------------- records

func loadBlocks(g *graph, blocks string) error {
	if blocks == "-" || blocks == "" {
		return nil
	}
	// blocks may reference each other: store in any order, the store is content addressed
	for _, b := range strings.Split(blocks, ";") {
		i := strings.IndexByte(b, '=')
		v, err := lib.ParseVal(b[i+1:])
		if err != nil {
			return err
		}
		c, err := g.put(v)
		if err != nil {
			return err
		}
		if lib.Hex(c) != b[:i] {
			return fmt.Errorf("block %s stores as %s", b[:i], lib.Hex(c))
		}
	}
	return nil
}

func emitFT(out *lib.Out, id string, g *graph, blocks string, root *lib.Val, steps []step) {
	var st []string
	for _, s := range steps {
		st = append(st, s.text())
	}
	obs := runFT(g, root, steps)
	out.Case(id, "ft", blocks, root.Text(), strings.Join(st, "|"), g.listing(nil), obs)
}

func emitWT(out *lib.Out, id string, g *graph, blocks string, root *lib.Val, s *sel, fn string) {
	obs := runWT(g, root, s, fn)
	out.Case(id, "wt", blocks, root.Text(), s.text(), fn, obs)
}

// probe: which of the confirmed defects does the tree under test show?
func probe() string {
	run := func(root *lib.Val, path []string, fn string, cp bool) string {
		g := newGraph()
		o := strings.SplitN(runFT(g, root, []step{{strs(path...), fn, cp, ""}}), "||", 2)[0]
		return strings.SplitN(o, "#", 2)[0]
	}
	bit := func(b bool) string {
		if b {
			return "1"
		}
		return "0"
	}
	l12 := lib.List(lib.Int(1), lib.Int(2))
	ldn := strings.Contains(run(l12, []string{"0"}, "del", false), "!nil")
	apn := strings.Contains(run(l12, []string{"-"}, "del", false), "!nil")
	mdn := strings.Contains(run(lib.Map(lib.Entry{K: "a", V: lib.Int(1)}), []string{"zz"}, "del", false), "!nil")
	neg := strings.HasPrefix(run(l12, []string{"-5"}, "c:i7", false), "ok:")
	app := strings.HasPrefix(run(l12, []string{"-", "a"}, "c:i7", false), "ok:")
	nul := run(lib.Null(), nil, "id", false) == "panic"
	// selector package behaviours the WalkTransforming model depends on (changed by b8b93dd, 873f3b3, 87fc183)
	ssb := builder.NewSelectorSpecBuilder(basicnode.Prototype.Any)
	compile := func(t string) selector.Selector {
		s, _ := parseSel(t)
		c, err := selector.CompileSelector(s.spec(ssb).Node())
		if err != nil {
			panic(err)
		}
		return c
	}
	lnode, _ := lib.BuildBasic(lib.List(lib.List(lib.Int(1))))
	// sep: ExploreRecursiveEdge.Explore panics
	sep := lib.IsPanic(lib.Safely(func() error {
		_, err := selector.ExploreRecursiveEdge{}.Explore(lnode, datamodel.PathSegmentOfInt(0))
		return err
	}))
	// sxu: an exhausted recursion hands out the remainder without the ExploreRecursive wrapper
	sxu := false
	if nx, err := compile("R(1,U(A(U(M,A(E))),A(E)))").Explore(lnode, datamodel.PathSegmentOfInt(0)); err == nil && nx != nil {
		_, wrapped := nx.(selector.ExploreRecursive)
		sxu = !wrapped
	}
	// snd: ExploreUnion.Interests lists a segment once per member
	snd := len(compile("U(I(1,M),F(31:M))").Interests()) == 2
	return "ldn=" + bit(ldn) + ",apn=" + bit(apn) + ",mdn=" + bit(mdn) + ",neg=" + bit(neg) + ",app=" + bit(app) + ",nul=" + bit(nul) +
		",sep=" + bit(sep) + ",sxu=" + bit(sxu) + ",snd=" + bit(snd)
}

func corpus(out *lib.Out) {
	n := 0
	ft := func(root *lib.Val, blocks []*lib.Val, steps ...step) {
		n++
		g := newGraph()
		for _, b := range blocks {
			if _, err := g.put(b); err != nil {
				panic(err)
			}
		}
		emitFT(out, fmt.Sprintf("k%d", n), g, g.listing(nil), root, steps)
	}
	e := func(k string, v *lib.Val) lib.Entry { return lib.Entry{K: k, V: v} }
	c7 := "c:i7"
	l3 := lib.List(lib.Int(10), lib.Int(11), lib.Int(12))
	m3 := lib.Map(e("x", lib.Int(1)), e("l", lib.List(lib.Int(5))), e("a", lib.Str("s")))
	// witnesses of the findings
	ft(l3, nil, step{strs("1"), "del", false, ""})
	ft(l3, nil, step{strs("-"), "del", false, ""})
	ft(m3, nil, step{strs("zz"), "del", false, ""})
	ft(m3, nil, step{strs("p", "q", "r"), "del", true, ""})
	ft(l3, nil, step{strs("-5"), c7, false, ""})
	ft(l3, nil, step{strs("-", "a", "b"), c7, false, ""})
	ft(lib.Null(), nil, step{nil, "id", false, ""})
	// conforming behaviour
	for _, s := range []string{"1", "01", "+1", "-0", "3", "x", "", "9223372036854775808", "-"} {
		ft(l3, nil, step{strs(s), c7, false, ""})
	}
	ft(m3, nil, step{strs("x"), "del", false, ""})
	ft(m3, nil, step{strs("zz"), c7, false, ""})
	ft(m3, nil, step{strs("p", "q"), c7, false, ""})
	ft(m3, nil, step{strs("p", "q"), c7, true, ""})
	ft(m3, nil, step{strs("x", "y"), c7, true, ""})
	ft(m3, nil, step{strs("l", "0"), "wrap", false, ""}, step{strs("l", "0", "0"), "id", false, ""}, step{strs("l", "-"), c7, false, ""})
	ft(m3, nil, step{nil, c7, false, ""})
	ft(m3, nil, step{nil, "id", false, ""})
	ft(m3, nil, step{nil, "del", false, ""})
	ft(lib.Int(3), nil, step{nil, "c:i8000000000000000", false, ""})
	// through links
	inner := lib.Map(e("b", lib.Int(1)), e("a", lib.List(lib.Int(5), lib.Bytes("q"))))
	g0 := newGraph()
	ic, _ := g0.put(inner)
	mid := lib.Map(e("in", lib.Link(ic)), e("z", lib.Int(0)))
	mc, _ := g0.put(mid)
	outer := lib.Map(e("k", lib.Link(mc)), e("n", lib.Int(3)), e("direct", lib.Link(ic)))
	bl := []*lib.Val{inner, mid}
	ft(outer, bl, step{strs("k", "in", "a", "0"), c7, false, ""})
	ft(outer, bl, step{strs("k", "in", "0new"), c7, false, ""})
	ft(outer, bl, step{strs("k", "in"), c7, false, ""})
	ft(outer, bl, step{strs("k", "in", "a", "0"), "id", false, ""})
	ft(outer, bl, step{strs("k", "in", "a", "0"), "del", false, ""})
	ft(outer, bl, step{strs("k", "in", "zz"), "del", false, ""})
	ft(outer, bl, step{strs("k", "in", "a", "-"), c7, false, ""}, step{strs("direct", "b"), "wrap", false, ""}, step{strs("k", "z"), "del", false, ""})
	ft(lib.Link(mc), bl, step{strs("in", "b"), c7, false, ""})
	ft(lib.Link(mc), bl, step{nil, "id", false, ""})
	ft(lib.Map(e("d", lib.Link("\x01\x71\x12\x20"+strings.Repeat("x", 32)))), nil, step{strs("d", "a"), c7, true, ""})
	// int-stored path segments against numeric-looking map keys and list positions
	mnum := lib.Map(e("1", lib.Int(10)), e("01", lib.Int(11)), e("x", lib.Int(12)), e("", lib.Int(13)), e("-1", lib.Int(14)))
	for _, fn := range []string{"del", c7, "id", "wrap"} {
		ft(mnum, nil, step{[]pseg{si(1)}, fn, false, ""})
		ft(mnum, nil, step{[]pseg{ss("1")}, fn, false, ""})
		ft(mnum, nil, step{[]pseg{ss("01")}, fn, false, ""})
		ft(mnum, nil, step{[]pseg{si(7)}, fn, false, ""})
		ft(mnum, nil, step{[]pseg{si(-1)}, fn, false, ""}) // a negative int is the string-stored ""
		ft(l3, nil, step{[]pseg{si(1)}, fn, false, ""})
		ft(l3, nil, step{[]pseg{si(3)}, fn, false, ""})
	}
	ft(lib.Map(e("m", mnum)), nil, step{[]pseg{ss("m"), si(1)}, "del", false, ""}, step{[]pseg{ss("m"), si(1)}, c7, false, ""}, step{[]pseg{ss("m"), si(1), si(0)}, c7, true, ""})
	ft(lib.List(mnum, l3), nil, step{[]pseg{si(0), si(1)}, "del", false, ""}, step{[]pseg{si(1), si(2)}, "wrap", false, ""})
	// indirection blocks: a block that is nothing but a link (chains of them)
	g1 := newGraph()
	i1, _ := g1.put(lib.Link(ic))
	i2, _ := g1.put(lib.Link(i1))
	i3, _ := g1.put(lib.Link(i2))
	ind := []*lib.Val{inner, lib.Link(ic), lib.Link(i1), lib.Link(i2)}
	for _, top := range []string{i1, i2, i3} {
		o := lib.Map(e("k", lib.Link(top)), e("n", lib.Int(3)))
		ft(o, ind, step{strs("k", "a", "0"), c7, false, ""})
		ft(o, ind, step{strs("k", "zz"), c7, false, ""})
		ft(o, ind, step{strs("k", "b"), "del", false, ""})
		ft(o, ind, step{strs("k", "a", "0"), "id", false, ""})
		ft(o, ind, step{strs("k"), "id", false, ""})
		ft(o, ind, step{strs("k", "a", "-"), c7, false, ""}, step{strs("k", "a", "2"), "wrap", false, ""})
		ft(lib.Link(top), ind, step{strs("b"), c7, false, ""})
	}
	// a failed transform (the codec or the storage refuses a block) followed by valid ones
	refused := "c:" + lib.Map(e("a", lib.Int(1)), e("zz", lib.Link(refusedBin))).Text()
	good := step{strs("k", "in", "a", "0"), c7, false, ""}
	ft(outer, bl, step{strs("k", "in", "zz"), refused, false, ""}, good, step{strs("direct", "b"), "wrap", false, ""})
	ft(outer, bl, step{strs("k", "in", "a", "1"), "c:" + lib.Link(refusedBin).Text(), false, ""}, good)
	ft(outer, bl, step{strs("n"), refused, false, ""}, good, step{strs("n", "zz", "x"), c7, false, ""}, step{strs("k", "z"), "c:" + lib.Link(refusedBin).Text(), false, ""}, good)
	for _, f := range []string{"o", "c", "w1", "w2", "w5", "w99", "s1", "s3"} {
		ft(outer, bl, step{strs("k", "in", "a", "0"), "c:i8", false, f}, good, step{strs("k", "z"), "del", false, ""})
		ft(outer, bl, good, step{strs("k", "in", "b"), "id", false, f}, step{strs("k", "in", "b"), "wrap", false, ""})
	}
	ft(m3, nil, step{strs("x"), c7, false, "w1"}, step{strs("l", "-"), c7, false, "c"}) // no store is attempted: the fault is not hit
	// the loader refuses every block during a transform (SkipMe or a plain error): below a link the transform
	// fails as a whole and the next ones go on from the same tree; above every link nothing is loaded
	for _, f := range []string{"rk", "re"} {
		ft(outer, bl, step{strs("k", "in", "a", "0"), "c:i8", false, f}, good, step{strs("k", "z"), "del", false, ""})
		ft(outer, bl, good, step{strs("k", "in", "b"), "id", false, f}, step{strs("k", "in", "b"), "wrap", false, f}, step{strs("k", "in", "b"), "wrap", false, ""})
		ft(outer, bl, step{strs("k", "in", "nope", "x"), c7, true, f}, step{strs("n"), c7, false, f}, good)
		ft(m3, nil, step{strs("x"), c7, false, f}, step{strs("l", "-"), c7, false, f})
	}
	// walking transforms
	wn := 0
	wt := func(root *lib.Val, blocks []*lib.Val, st string, fn string) {
		wn++
		g := newGraph()
		for _, b := range blocks {
			g.put(b)
		}
		s, _ := parseSel(st)
		emitWT(out, fmt.Sprintf("kw%d", wn), g, g.listing(nil), root, s, fn)
	}
	all := "R(-,U(M,A(E)))"
	for _, fn := range []string{"id", "i2s", "l2n", "m2l", "c:s78"} {
		wt(m3, nil, all, fn)
		wt(outer, bl, all, fn)
		wt(l3, nil, "A(M)", fn)
		wt(m3, nil, "F(6c:A(M),78:M)", fn)
		wt(l3, nil, "I(1,M)", fn)
		wt(outer, bl, "R(2,U(M,A(E)))", fn)
		wt(outer, bl, "F(6b:F(696e:M))", fn)
	}
	wt(lib.List(lib.Int(1), lib.List(lib.Int(2))), nil, "U(A(M),F(30:M))", "i2s")
	wt(lib.Map(e("k", lib.Link(i2))), ind, all, "i2s")
	wt(lib.Map(e("k", lib.Link(i2))), ind, all, "id")
	// interests over maps and lists that have entries outside them; keys absent / in another order
	l5 := lib.List(lib.Int(0), lib.List(lib.Int(1), lib.Int(2)), lib.Int(2), lib.Map(e("x", lib.Int(3))), lib.Int(4))
	m5 := lib.Map(e("x", lib.Int(1)), e("l", l5), e("a", lib.Str("s")), e("m", m3), e("0", lib.Int(9)))
	for _, fn := range []string{"id", "i2s", "c:n"} {
		for _, st := range []string{"F(61:M)", "F(6d:M,78:M)", "F(7a7a:M,78:M)", "F(6c:G(1,3,M))", "F(6c:G(3,9,M),6d:F(6c:A(M)))",
			"G(0,2,M)", "G(1,4,A(M))", "G(4,9,M)", "G(7,9,M)", "I(3,F(78:M))", "U(G(0,2,M),I(3,A(M)))", "U(F(78:M),G(0,1,M))",
			"A(G(0,1,M))", "A(F(78:M))", "R(2,U(M,G(1,3,E)))", "R(-,U(F(6c:E,6d:E),M))", "R(1,A(E))", "R(2,A(E))", "R(-,U(G(1,4,M),A(E)))"} {
			wt(m5, nil, st, fn)
			wt(l5, nil, st, fn)
		}
	}
	wt(lib.Int(4), nil, "M", "i2s")
	wt(lib.Null(), nil, "M", "id")
}

func replay(out *lib.Out, path string) {
	for _, line := range lib.ReadLines(path) {
		f := strings.Split(line, "\t")
		if len(f) < 6 {
			continue
		}
		g := newGraph()
		switch f[1] {
		case "ft":
			if err := loadBlocks(g, f[2]); err != nil {
				panic(err)
			}
			root, err := lib.ParseVal(f[3])
			if err != nil {
				panic(err)
			}
			var steps []step
			for _, s := range strings.Split(f[4], "|") {
				steps = append(steps, parseStep(s))
			}
			emitFT(out, f[0], g, f[2], root, steps)
		case "wt":
			if err := loadBlocks(g, f[2]); err != nil {
				panic(err)
			}
			root, err := lib.ParseVal(f[3])
			if err != nil {
				panic(err)
			}
			s, _ := parseSel(f[4])
			emitWT(out, f[0], g, f[2], root, s, f[5])
		}
	}
}

func main() {
	fl := lib.ParseFlags()
	out := lib.OpenOut(fl.Out)
	defer out.Close()
	pr := probe()
	bareEdgeOK = strings.Contains(pr, "sep=0")
	out.Case("probe", "quirks", pr)
	if fl.Replay != "" {
		replay(out, fl.Replay)
		return
	}
	n := fl.N
	if n == 0 {
		n = 1500
		if fl.Tier == "thorough" {
			n = 60000
		}
	}
	corpus(out)
	// NewRng(seed) walks one splitmix sequence from an offset linear in the seed, so seeds s and s+k give the
	// same stream shifted by k draws; one Fork() first puts every seed on an unrelated offset.
	rng := lib.NewRng(fl.Seed).Fork()
	for i := 0; i < n; i++ {
		r := rng.Fork()
		g := newGraph()
		v := r.GenVal(genCfg, 0)
		if r.Intn(10) < 8 { // mostly containers at the root
			for j := 0; j < 5 && v.Kind != lib.KMap && v.Kind != lib.KList; j++ {
				v = r.GenVal(genCfg, 0)
			}
		}
		if v.Kind == lib.KBytes {
			v = lib.Str("r" + lib.Hex(v.S)) // a bytes root runs into the streamBytes defect of C11; not this property's business
		}
		addNumericKeys(r, v)
		budget := []int{0, 1, 1, 2, 2, 3, 3, 4}[r.Intn(8)]
		root := split(g, r, v, &budget, true)
		if len(g.store.Bag) == 0 && budget > 0 && r.Intn(10) < 6 { // make sure most graphs have a link to cross
			switch {
			case root.Kind == lib.KList && len(root.L) > 0:
				i := r.Intn(len(root.L))
				if c, err := g.put(root.L[i]); err == nil {
					root.L[i] = lib.Link(indirect(g, r, c))
				}
			case root.Kind == lib.KMap && len(root.M) > 0:
				i := r.Intn(len(root.M))
				if c, err := g.put(root.M[i].V); err == nil {
					root.M[i].V = lib.Link(indirect(g, r, c))
				}
			}
		}
		blocks := g.listing(nil)
		if i%3 == 2 {
			keys := keysOf(g.expand(root, 0))
			s := genSel(r, 3, false, keys)
			fns := []string{"id", "id", "i2s", "l2n", "m2l", "c:" + r.GenVal(smallCfg, 0).Text()}
			emitWT(out, fmt.Sprintf("w%d", i), g, blocks, root, s, fns[r.Intn(len(fns))])
			continue
		}
		// plan the steps against a scratch copy of the graph so that the recorded run starts clean
		ns := 1 + r.Intn(4)
		if r.Intn(4) == 0 {
			ns = 4 + r.Intn(2)
		}
		var steps []step
		scratch := newGraph()
		if err := loadBlocks(scratch, blocks); err != nil {
			// the blocks just stored do not read back (or re-store under another link): report the graph
			// as it is, the oracle flags the unreadable block
			emitFT(out, fmt.Sprintf("g%d", i), g, blocks, root, []step{{nil, "id", false, ""}})
			continue
		}
		curNode, err := lib.BuildBasic(root)
		if err != nil {
			continue
		}
		cur := root
		for j, tries := 0, 0; j < ns && tries < 12; tries++ {
			st := genStep(scratch, r, cur)
			var log []string
			fn, err := transformFn(st.fn, &log)
			if err != nil {
				break
			}
			var res datamodel.Node
			scratch.arm(st.fault)
			err = lib.Safely(func() error {
				var e error
				res, e = scratch.prog().FocusedTransform(curNode, mkPath(st.path), fn, st.cp)
				return e
			})
			scratch.arm("")
			if err != nil && !lib.IsPanic(err) {
				// a failed transform leaves everything as it was and the run goes on; store failures are
				// always kept (the transforms after them are what matters), other errors half of the time
				if errClass(err) == "err:store" || st.fault != "" || r.Bool() {
					steps = append(steps, st)
					j++
				}
				continue
			}
			if err != nil || strings.Contains(lib.Dump(res), "!") {
				// a panic or a nil node ends the run: keep it only sometimes
				if r.Intn(5) < 2 || tries == 11 {
					steps = append(steps, st)
					break
				}
				continue
			}
			steps = append(steps, st)
			j++
			curNode, cur = res, valOf(res)
		}
		if len(steps) == 0 {
			steps = append(steps, genStep(scratch, r, cur))
		}
		emitFT(out, fmt.Sprintf("g%d", i), g, blocks, root, steps)
	}
}

func keysOf(v *lib.Val) []string {
	seen := map[string]bool{}
	var out []string
	var walk func(v *lib.Val)
	walk = func(v *lib.Val) {
		for _, x := range v.L {
			walk(x)
		}
		for _, e := range v.M {
			if !seen[e.K] {
				seen[e.K] = true
				out = append(out, e.K)
			}
			walk(e.V)
		}
	}
	walk(v)
	out = append(out, "0", "1", "zz")
	return out
}
