// c06: no load returns data that does not hash to its link, whatever the storage does.
//
// Records:
//
//	cfg0, "cfg", "probe", store_latch=<0|1>,json_werr_ignored=<0|1>
//	    witness probes: does dagjson.Encode report a failed Write (refmt's JSON encoder drops it:
//	    the model's c_werr_ignored flag for dag-json/json), and does Store notice the failure
//	    nevertheless (the write-error latch of fix 4c486a6: the model's [latch] flag)
//	id, "load", form (l=Load r=LoadRaw p=LoadPlusRaw f=Fill), trusted, link (binary hex),
//	    stream (chunks "+"-joined, hex), tail (eof | eofl = EOF returned with the last chunk |
//	    err = sticky read error after the data | open = the opener fails), tables, observation
//	    observation = <status>/<node dump | ->/<x raw hex | ->
//	id, "bload", ... as "load", for LARGE blocks (1 / 2 / 4 MiB ± 1): byte strings travel under
//	    names (lib/link_big.go), and dag-cbor is modelled through D tables like the JSON codecs
//	id, "store", proto, holder, value, wopen (0|1), cap (-1 | writer fails once more than cap bytes
//	    would have been written, and keeps failing), sched ("-" | per-Write actions of the storage
//	    writer, ","-separated: o = accept, f = fail this call only, s<n> = short write of n bytes),
//	    commiterr (0|1), tables, observation
//	    observation = <status>/<link hex | ->/commit=<0|1 committer invoked>/<x committed bytes | ->/
//	                  cl:<status of ComputeLink on the same input>:<its link | ->
//
//	id, "reify", form (l|p|f), trusted, rmode (id = the NodeReifier returns the node | fail = it
//	    returns an error), parent link, parent stream, parent tail, children, tables, observation
//	    A NodeReifier is configured.  It records the *LinkSystem it is handed, loads the child links
//	    through it at once ("now" form) and the harness loads them again through the same handle
//	    after the outer call returned ("later" form).
//	    children = ";"-separated <child link>~<stream the storage serves>~<tail>~<now form|->~<later form|->
//	    observation = <outer status/node/raw>;inv=<0|1 reifier invoked>,ht=<TrustedStorage of the
//	    handle it got | ->;<child 1 now>;<child 1 later>;... (each status/node/raw, or - if not made);
//	    K:ok | K:node|raw,... — every node / byte slice those loads returned is retained and read
//	    again after all of them: changed ones are named
//
// tables: as in c05 (K<mhtype>=0|1 hasher registered, H<mhtype>.<data>=<digest>, E.., D..).
package main

import (
	"fmt"
	"io"
	"os"
	"strings"

	"verifharness/lib"

	"github.com/ipld/go-ipld-prime/datamodel"
	"github.com/ipld/go-ipld-prime/linking"
	cidlink "github.com/ipld/go-ipld-prime/linking/cid"
	"github.com/ipld/go-ipld-prime/node/basicnode"
)

func b2s(b bool) string {
	if b {
		return "1"
	}
	return "0"
}

// ---- load cases

// bigMode: the cases being emitted are large-block cases ("bload" records)
var bigMode bool
var bigTables = map[string]string{}

func loadCase(out *lib.Out, id string, form byte, trusted bool, linkBin string, chunks [][]byte, tail string) {
	l, err := lib.LkLinkFromBinary(linkBin)
	stream := lib.LkChunksText(chunks)
	if err != nil {
		out.Case(id, "load", string(form), b2s(trusted), lib.LkHex(linkBin), stream, tail, "", "badlink")
		return
	}
	pfx := l.(cidlink.Link).Prefix()
	var data []byte
	for _, c := range chunks {
		data = append(data, c...)
	}
	if !bigMode {
		lib.LkRegisterConcat(chunks)
	}
	kind := "load"
	var tabText string
	if bigMode {
		kind = "bload"
		key := linkBin + "|" + stream
		if t, ok := bigTables[key]; ok {
			tabText = t // hashed and decoded once per block variant, not once per load function
		} else {
			tab := lib.NewLkTables()
			tab.Hasher(pfx.MhType)
			tab.Hash(pfx.MhType, data)
			if pfx.Codec == lib.LkDagCbor {
				tab.Decode(lib.LkDagCborT, data)
			}
			tabText = tab.Text()
			bigTables[key] = tabText
		}
	} else {
		tab := lib.NewLkTables()
		tab.Hasher(pfx.MhType)
		tab.Hash(pfx.MhType, data)
		if impl, ok := lib.LkGlobalReg().Dec[pfx.Codec]; ok {
			tab.Decode(impl, data)
		}
		tabText = tab.Text()
	}

	lsys := cidlink.DefaultLinkSystem()
	lsys.TrustedStorage = trusted
	lsys.StorageReadOpener = func(linking.LinkContext, datamodel.Link) (io.Reader, error) {
		if tail == "open" {
			return nil, lib.LkErrOpen
		}
		// fresh copies: nothing the callee does to the chunks can leak into the next case
		cp := make([][]byte, len(chunks))
		for i, c := range chunks {
			if bigMode {
				cp[i] = c // (large blocks: not copied, checked against their name afterwards instead)
			} else {
				cp[i] = append([]byte(nil), c...)
			}
		}
		return &lib.LkReader{Chunks: cp, Fail: tail == "err", EOFWithLast: tail == "eofl"}, nil
	}
	var n datamodel.Node
	var raw []byte
	rawReturned := false
	err = lib.Safely(func() error {
		var e error
		switch form {
		case 'l':
			n, e = lsys.Load(linking.LinkContext{}, l, basicnode.Prototype.Any)
		case 'f':
			nb := basicnode.Prototype.Any.NewBuilder()
			e = lsys.Fill(linking.LinkContext{}, l, nb)
			if e == nil {
				n = nb.Build()
			}
		case 'r':
			raw, e = lsys.LoadRaw(linking.LinkContext{}, l)
			rawReturned = e == nil || len(raw) > 0
		case 'p':
			n, raw, e = lsys.LoadPlusRaw(linking.LinkContext{}, l, basicnode.Prototype.Any)
			rawReturned = e == nil || len(raw) > 0
		}
		return e
	})
	if lib.IsPanic(err) {
		n, raw, rawReturned = nil, nil, false
	}
	ns, rs := "-", "-"
	if n != nil {
		ns = lib.LkDump(n)
	}
	if rawReturned {
		rs = "x" + lib.LkHexBytes(raw)
	}
	obs := lib.LkErrClass(err, "decode") + "/" + ns + "/" + rs
	if bigMode && lib.LkChunksText(chunks) != stream {
		obs += "/!stream-modified"
	}
	out.Case(id, kind, string(form), b2s(trusted), lib.LkHex(linkBin), stream, tail, tabText, obs)
}

// ---- large blocks

// bigCases: raw and dag-cbor (a bytes node) blocks whose size sits at the powers of two people use as
// block-size caps, -1 / exact / +1: intact, one byte appended, truncated by one byte, a bit flipped
// in the last byte and 4 KiB before the end; through the four load functions.
func bigCases(out *lib.Out, thorough bool) {
	bigMode = true
	defer func() { bigMode = false; bigTables = map[string]string{} }()
	const fill = 0xAB
	mib := []int{1, 2, 4}
	if thorough {
		mib = append(mib, 8, 16)
	}
	id := 0
	for _, m := range mib {
		for _, d := range []int{-1, 0, 1} {
			size := m<<20 + d
			for _, codec := range []uint64{lib.LkRaw, lib.LkDagCbor} {
				if codec == lib.LkDagCbor && m > 4 {
					continue // beyond the dag-cbor decoder's default allocation budget
				}
				// names of the block and of its damaged variants; for dag-cbor the block is
				// 5a <len:4> <payload>, and the payload variants get names too (decode results)
				head := ""
				body := size
				if codec == lib.LkDagCbor {
					body = size - 5
					head = "\x5a" + string([]byte{byte(body >> 24), byte(body >> 16), byte(body >> 8), byte(body)})
				}
				off := size - 1 - 4096 - len(head) // offset of the second flip, within the body
				bodies := map[string]string{
					"clean":    lib.LkRun(fill, body),
					"trunc":    lib.LkRun(fill, body-1),
					"fliplast": lib.LkRun(fill, body-1) + string([]byte{fill ^ 1}),
					"flipmid":  lib.LkRun(fill, off) + string([]byte{fill ^ 0x10}) + lib.LkRun(fill, body-off-1),
				}
				for _, b := range bodies {
					lib.LkRegisterBytes(b)
				}
				real := lib.LkRegisterBytes(head + bodies["clean"])
				p := lib.LkProto{Version: 1, Codec: codec, MhType: 0x12, MhLen: -1}
				c, err := p.LP().Prefix.Sum(real)
				if err != nil {
					continue
				}
				link := c.KeyString()
				variants := []struct {
					name   string
					chunks []string
					tail   string
				}{
					{"clean", []string{head + bodies["clean"]}, "eof"},
					{"ext", []string{head + bodies["clean"], "\x01"}, "eof"},
					{"trunc", []string{head + bodies["trunc"]}, "eof"},
					{"fliplast", []string{head + bodies["fliplast"]}, "eof"},
					{"flipmid", []string{head + bodies["flipmid"]}, "eof"},
				}
				for _, v := range variants {
					var chunks [][]byte
					for _, nm := range v.chunks {
						chunks = append(chunks, lib.LkRegisterBytes(nm))
					}
					lib.LkRegisterConcat(chunks)
					fs := forms
					if d != 0 && !thorough {
						// quick tier: all four functions and all damages at the exact sizes; at -1 / +1
						// Fill on the intact, extended and truncated block
						if strings.HasPrefix(v.name, "flip") {
							continue
						}
						fs = []byte("f")
					}
					for _, f := range fs {
						id++
						loadCase(out, fmt.Sprintf("big%d.%s.%dMiB%+d.%x.%c", id, v.name, m, d, codec, f), f, false, link, chunks, v.tail)
					}
				}
			}
		}
	}
}

// ---- NodeReifier scenarios

type kid struct {
	link       string
	chunks     [][]byte
	tail       string
	now, later byte // load form, or '-'
}

// retained: what the loads of a reify scenario handed out, with its dump at that moment
type retained struct {
	node    datamodel.Node
	raw     []byte
	hasRaw  bool
	nodeWas string
	rawWas  string
}

var keep []*retained

func loadVia(lsys *linking.LinkSystem, form byte, l datamodel.Link) string {
	var n datamodel.Node
	var raw []byte
	rawReturned := false
	err := lib.Safely(func() error {
		var e error
		switch form {
		case 'l':
			n, e = lsys.Load(linking.LinkContext{}, l, basicnode.Prototype.Any)
		case 'f':
			nb := basicnode.Prototype.Any.NewBuilder()
			e = lsys.Fill(linking.LinkContext{}, l, nb)
			if e == nil {
				n = nb.Build()
			}
		case 'r':
			raw, e = lsys.LoadRaw(linking.LinkContext{}, l)
			rawReturned = e == nil || len(raw) > 0
		case 'p':
			n, raw, e = lsys.LoadPlusRaw(linking.LinkContext{}, l, basicnode.Prototype.Any)
			rawReturned = e == nil || len(raw) > 0
		}
		return e
	})
	if lib.IsPanic(err) {
		n, raw, rawReturned = nil, nil, false
	}
	ns, rs := "-", "-"
	if n != nil {
		ns = lib.LkDump(n)
	}
	if rawReturned {
		rs = "x" + lib.LkHex(string(raw))
	}
	if n != nil || rawReturned {
		keep = append(keep, &retained{n, raw, rawReturned, ns, string(raw)})
	}
	return lib.LkErrClass(err, "decode") + "/" + ns + "/" + rs
}

func reifyCase(out *lib.Out, id string, form byte, trusted bool, rmode string, plink string, pchunks [][]byte, ptail string, kids []kid) {
	pl, err := lib.LkLinkFromBinary(plink)
	if err != nil {
		return
	}
	tab := lib.NewLkTables()
	type served struct {
		chunks [][]byte
		tail   string
	}
	store := map[string]served{plink: {pchunks, ptail}}
	for _, k := range kids {
		store[k.link] = served{k.chunks, k.tail}
	}
	for lb, sv := range store {
		l, err := lib.LkLinkFromBinary(lb)
		if err != nil {
			return
		}
		pfx := l.(cidlink.Link).Prefix()
		var data []byte
		for _, c := range sv.chunks {
			data = append(data, c...)
		}
		tab.Hasher(pfx.MhType)
		tab.Hash(pfx.MhType, data)
		if impl, ok := lib.LkGlobalReg().Dec[pfx.Codec]; ok {
			tab.Decode(impl, data)
		}
	}
	lsys := cidlink.DefaultLinkSystem()
	lsys.TrustedStorage = trusted
	lsys.StorageReadOpener = func(_ linking.LinkContext, l datamodel.Link) (io.Reader, error) {
		sv, ok := store[l.Binary()]
		if !ok || sv.tail == "open" {
			return nil, lib.LkErrOpen
		}
		cp := make([][]byte, len(sv.chunks))
		for i, c := range sv.chunks {
			cp[i] = append([]byte(nil), c...)
		}
		return &lib.LkReader{Chunks: cp, Fail: sv.tail == "err", EOFWithLast: sv.tail == "eofl"}, nil
	}
	var got *linking.LinkSystem // the handle the library handed to the reifier (outermost invocation)
	depth := 0
	nowObs := make([]string, len(kids))
	for i := range nowObs {
		nowObs[i] = "-"
	}
	lsys.NodeReifier = func(_ linking.LinkContext, n datamodel.Node, ls *linking.LinkSystem) (datamodel.Node, error) {
		if depth > 0 { // a load made by the reifier itself: leave the node alone
			return n, nil
		}
		depth++
		defer func() { depth-- }()
		got = ls
		for i, k := range kids {
			if k.now != '-' {
				cl, _ := lib.LkLinkFromBinary(k.link)
				nowObs[i] = loadVia(ls, k.now, cl)
			}
		}
		if rmode == "fail" {
			return nil, lib.LkErrReify
		}
		return n, nil
	}
	keep = nil
	outer := loadVia(&lsys, form, pl)
	meta := "inv=0,ht=-"
	if got != nil {
		meta = "inv=1,ht=" + b2s(got.TrustedStorage)
	}
	obs := []string{outer, meta}
	for i, k := range kids {
		later := "-"
		if got != nil && k.later != '-' {
			cl, _ := lib.LkLinkFromBinary(k.link)
			depth = 1 // loads after the outer call: the handle's own reifier stays out of the way
			later = loadVia(got, k.later, cl)
			depth = 0
		}
		obs = append(obs, nowObs[i], later)
	}
	var chg []string
	for _, k := range keep {
		if k.node != nil && lib.LkDump(k.node) != k.nodeWas {
			chg = append(chg, "node")
		}
		if k.hasRaw && string(k.raw) != k.rawWas {
			chg = append(chg, "raw")
		}
	}
	keep = nil
	if len(chg) == 0 {
		obs = append(obs, "K:ok")
	} else {
		obs = append(obs, "K:"+strings.Join(chg, ","))
	}
	var ks []string
	for _, k := range kids {
		ks = append(ks, fmt.Sprintf("%s~%s~%s~%c~%c", lib.LkHex(k.link), lib.LkChunksText(k.chunks), k.tail, k.now, k.later))
	}
	out.Case(id, "reify", string(form), b2s(trusted), rmode, lib.LkHex(plink), lib.LkChunksText(pchunks), ptail,
		strings.Join(ks, ";"), tab.Text(), strings.Join(obs, ";"))
}

// reifyCases: an intact (or damaged) dag-cbor parent holding links to children whose blocks the
// storage serves clean, bit-flipped, truncated, extended, substituted, missing or behind a read error.
func reifyCases(out *lib.Out, r *lib.Rng, gi int, children []*block, thorough bool) {
	k := 0
	id := func(kind string) string { k++; return fmt.Sprintf("g%d.%s%d", gi, kind, k) }
	var links []*lib.Val
	for _, c := range children {
		links = append(links, lib.Link(c.link))
	}
	pv := lib.Map(lib.Entry{K: "kids", V: lib.List(links...)}, lib.Entry{K: "n", V: lib.Int(int64(gi))})
	pb := mkBlock(lib.LkProto{Version: 1, Codec: lib.LkDagCbor, MhType: 0x12, MhLen: -1}, pv)
	if pb == nil {
		return
	}
	one := func(d []byte) [][]byte { return lib.LkSplit(d) }
	damage := func(c *block, how int) ([][]byte, string) {
		d := append([]byte(nil), c.data...)
		switch how {
		case 0:
			return one(d), "eof"
		case 1:
			if len(d) > 0 {
				d[r.Intn(len(d))] ^= 1 << uint(r.Intn(8))
			}
			return one(d), "eof"
		case 2:
			return one(d[:len(d)/2]), "eof"
		case 3:
			return one(append(d, 0x00)), "eof"
		case 4:
			o := children[r.Intn(len(children))]
			return one(o.data), "eof" // another child's block
		case 5:
			return one(d[:len(d)/2]), "err"
		case 6:
			return nil, "open"
		}
		return lib.LkSplit(d, len(d)/2), "eofl"
	}
	forms := []byte("lrpf")
	// every outer form x trust x reifier mode, children damaged every way, loaded now and later
	// through every load function
	for _, of := range []byte("lpf") {
		for _, trusted := range []bool{false, true} {
			for _, rmode := range []string{"id", "fail"} {
				for how := 0; how < 8; how++ {
					var ks []kid
					for i, c := range children {
						ch, tl := damage(c, (how+i)%8)
						ks = append(ks, kid{c.link, ch, tl, forms[(i+how)%4], forms[(i+how+1+int(of))%4]})
					}
					reifyCase(out, id("re"), of, trusted, rmode, pb.link, one(pb.data), "eof", ks)
				}
			}
		}
		// the parent itself damaged: the reifier must not even be invoked
		bad := append([]byte(nil), pb.data...)
		bad[len(bad)-1] ^= 4
		var ks []kid
		for _, c := range children {
			ks = append(ks, kid{c.link, one(c.data), "eof", 'l', 'f'})
		}
		reifyCase(out, id("rebad"), of, false, "id", pb.link, one(bad), "eof", ks)
		reifyCase(out, id("reerr"), of, false, "id", pb.link, one(pb.data[:3]), "err", ks)
	}
	// every child form, now and later, for each single kind of damage
	for how := 1; how < 7; how++ {
		for _, cf := range forms {
			c := children[r.Intn(len(children))]
			ch, tl := damage(c, how)
			reifyCase(out, id("re1"), 'p', false, "id", pb.link, one(pb.data), "eof", []kid{{c.link, ch, tl, cf, cf}})
			reifyCase(out, id("re1"), 'l', false, "id", pb.link, one(pb.data), "eof", []kid{{c.link, ch, tl, '-', cf}})
		}
	}
}

// ---- store cases

func storeCase(out *lib.Out, id string, p lib.LkProto, holder string, v *lib.Val, wopen bool, capacity int, sched string, commitErr bool) {
	n, err := lib.BuildHolder(holder, v)
	if err != nil {
		return
	}
	tab := lib.NewLkTables()
	tab.Hasher(p.MhType)
	if impl, ok := lib.LkGlobalReg().Enc[p.Codec]; ok {
		tab.EncodeChunks(impl, v, n) // every codec: the write schedule counts the real Write calls
		if chunks, eerr := lib.LkEncode(impl, n); eerr == nil {
			var acc []byte
			for _, c := range chunks {
				acc = append(acc, c...)
			}
			tab.Hash(p.MhType, acc)
		}
	}
	var schedL []string
	if sched != "-" && sched != "" {
		schedL = strings.Split(sched, ",")
	}
	lsys := cidlink.DefaultLinkSystem()
	invoked := false
	var committed []byte
	var wr *lib.LkWriter
	lsys.StorageWriteOpener = func(linking.LinkContext) (io.Writer, linking.BlockWriteCommitter, error) {
		if wopen {
			return nil, nil, lib.LkErrWOpen
		}
		wr = &lib.LkWriter{Cap: capacity, Sched: schedL}
		return wr, func(datamodel.Link) error {
			invoked = true
			committed = append([]byte(nil), wr.Buf.Bytes()...)
			if commitErr {
				return lib.LkErrCommit
			}
			return nil
		}, nil
	}
	var l datamodel.Link
	err = lib.Safely(func() error {
		var e error
		l, e = lsys.Store(linking.LinkContext{}, p.LP(), n)
		return e
	})
	ls, bs := "-", "-"
	if !lib.IsPanic(err) && l != nil {
		ls = lib.LkHex(l.Binary())
	}
	if err == nil && invoked {
		bs = "x" + lib.LkHex(string(committed))
	}
	// digests of whatever reached the writer (a damaged block that was committed must be checkable)
	if wr != nil {
		tab.Hash(p.MhType, wr.Buf.Bytes())
	}
	var cl datamodel.Link
	cerr := lib.Safely(func() error { var e error; cl, e = lsys.ComputeLink(p.LP(), n); return e })
	cls := "-"
	if !lib.IsPanic(cerr) && cl != nil {
		cls = lib.LkHex(cl.Binary())
	}
	obs := lib.LkErrClass(err, "encode") + "/" + ls + "/commit=" + b2s(invoked) + "/" + bs + "/cl:" + lib.LkErrClass(cerr, "encode") + ":" + cls
	out.Case(id, "store", p.Spec(), holder, v.Text(), b2s(wopen), fmt.Sprint(capacity), sched, b2s(commitErr), tab.Text(), obs)
}

// probeStoreLatch: does a Store through the dag-json codec notice that the storage writer failed?
func probeStoreLatch() bool {
	n, _ := lib.BuildBasic(lib.Map(lib.Entry{K: "a", V: lib.Int(1)}))
	lsys := cidlink.DefaultLinkSystem()
	lsys.StorageWriteOpener = func(linking.LinkContext) (io.Writer, linking.BlockWriteCommitter, error) {
		return &lib.LkWriter{Cap: 0}, func(datamodel.Link) error { return nil }, nil
	}
	p := lib.LkProto{Version: 1, Codec: lib.LkDagJson, MhType: 0x12, MhLen: -1}
	err := lib.Safely(func() error { _, e := lsys.Store(linking.LinkContext{}, p.LP(), n); return e })
	return err != nil
}

// probeJSONWriteErrors: does the dag-json encoder itself drop the error of a failed Write?
func probeJSONWriteErrors() bool {
	n, _ := lib.BuildBasic(lib.Map(lib.Entry{K: "a", V: lib.Int(1)}))
	err := lib.Safely(func() error { return lib.LkCodecs[lib.LkDagJson].Enc(n, &lib.LkWriter{Cap: 0}) })
	return err == nil
}

// ---- corpus

type block struct {
	proto lib.LkProto
	val   *lib.Val
	data  []byte
	link  string
}

func mkBlock(p lib.LkProto, v *lib.Val) *block {
	n, err := lib.BuildBasic(v)
	if err != nil {
		return nil
	}
	chunks, err := lib.LkEncode(lib.LkGlobalReg().Enc[p.Codec], n)
	if err != nil {
		return nil
	}
	var data []byte
	for _, c := range chunks {
		data = append(data, c...)
	}
	lsys := cidlink.DefaultLinkSystem()
	var l datamodel.Link
	if err := lib.Safely(func() error { var e error; l, e = lsys.ComputeLink(p.LP(), n); return e }); err != nil {
		return nil
	}
	return &block{p, v, data, l.Binary()}
}

var forms = []byte("lrpf")

func faultCases(out *lib.Out, r *lib.Rng, bi int, b *block, others []*block, thorough bool) {
	data := b.data
	k := 0
	id := func(kind string, f byte) string { k++; return fmt.Sprintf("b%d.%s%d.%c", bi, kind, k, f) }
	one := func(d []byte) [][]byte { return lib.LkSplit(d) }
	// the block as stored: all forms, both EOF styles, trusted too
	for _, f := range forms {
		loadCase(out, id("clean", f), f, false, b.link, one(data), "eof")
		loadCase(out, id("clean", f), f, false, b.link, one(data), "eofl")
		loadCase(out, id("cleant", f), f, true, b.link, one(data), "eof")
		loadCase(out, id("open", f), f, false, b.link, nil, "open")
		loadCase(out, id("opent", f), f, true, b.link, nil, "open")
	}
	// every single-bit flip at every offset
	for i := range data {
		for bit := 0; bit < 8; bit++ {
			m := append([]byte(nil), data...)
			m[i] ^= 1 << bit
			for _, f := range forms {
				loadCase(out, id("flip", f), f, false, b.link, one(m), "eof")
			}
			if (i*8+bit)%13 == 0 { // a sample with TrustedStorage: Fill/Load skip the check, the raw forms do not
				for _, f := range forms {
					loadCase(out, id("flipt", f), f, true, b.link, one(m), "eof")
				}
			}
		}
	}
	// every truncation length
	for n := 0; n < len(data); n++ {
		for _, f := range forms {
			loadCase(out, id("trunc", f), f, false, b.link, one(data[:n]), "eof")
		}
	}
	// appended bytes
	exts := [][]byte{{0x00}, {0x20}, {0x0a}, {0xff}, {0xf6}, []byte("x"), []byte("  "), {0x00, 0x00}}
	if len(data) > 0 {
		exts = append(exts, data[:1], data)
	}
	for _, e := range exts {
		m := append(append([]byte(nil), data...), e...)
		for _, f := range forms {
			loadCase(out, id("ext", f), f, false, b.link, one(m), "eof")
			loadCase(out, id("ext2", f), f, false, b.link, lib.LkSplit(m, len(data)), "eofl")
		}
	}
	// substituted blocks: valid encodings of other values (same and other codecs), empty block
	subs := [][]byte{{}}
	for i := 0; i < 4 && len(others) > 0; i++ {
		subs = append(subs, others[r.Intn(len(others))].data)
	}
	for _, s := range subs {
		for _, f := range forms {
			loadCase(out, id("subst", f), f, false, b.link, one(s), "eof")
		}
	}
	// a read error injected at every offset (the data up to there is delivered first)
	for n := 0; n <= len(data); n++ {
		for _, f := range forms {
			loadCase(out, id("rerr", f), f, false, b.link, one(data[:n]), "err")
		}
		if n%5 == 0 {
			loadCase(out, id("rerrt", 'r'), 'r', true, b.link, one(data[:n]), "err")
			loadCase(out, id("rerrt", 'p'), 'p', true, b.link, one(data[:n]), "err")
		}
	}
	// every 2-way chunking (all forms), every 3-way chunking (small blocks; sampled otherwise)
	for c := 1; c < len(data); c++ {
		for _, f := range forms {
			loadCase(out, id("ch2", f), f, false, b.link, lib.LkSplit(data, c), "eof")
		}
		loadCase(out, id("ch2l", 'f'), 'f', false, b.link, lib.LkSplit(data, c), "eofl")
	}
	all3 := len(data) <= 24 || (thorough && len(data) <= 64)
	for c1 := 1; c1 < len(data); c1++ {
		for c2 := c1 + 1; c2 < len(data); c2++ {
			if !all3 && r.Intn(len(data)*len(data)/80+1) != 0 {
				continue
			}
			f := forms[(c1+c2)%4]
			loadCase(out, id("ch3", f), f, false, b.link, lib.LkSplit(data, c1, c2), "eof")
			loadCase(out, id("ch3", 'f'), 'f', false, b.link, lib.LkSplit(data, c1, c2), "eof")
		}
	}
	// damaged bytes under THEIR OWN link (the hash check passes): the decoder's verdict must come
	// through — a decode error after the hash check, or the other value
	relink := func(m []byte) {
		c, err := b.proto.LP().Prefix.Sum(m)
		if err != nil {
			return
		}
		for _, f := range forms {
			loadCase(out, id("relink", f), f, false, c.KeyString(), one(m), "eof")
		}
		loadCase(out, id("relinkc", 'f'), 'f', false, c.KeyString(), lib.LkSplit(m, len(m)/2), "eofl")
		if len(m) > 0 {
			loadCase(out, id("relinke", 'f'), 'f', false, c.KeyString(), one(m[:len(m)-1]), "err")
		}
	}
	for i := 0; i < len(data); i += 1 + len(data)/12 {
		m := append([]byte(nil), data...)
		m[i] ^= 1 << uint(i%8)
		relink(m)
		relink(data[:i])
	}
	for _, e := range exts {
		relink(append(append([]byte(nil), data...), e...))
	}
	// the link of a PREFIX of the stream (what a decoder that stops early would have pulled): the
	// item plus one byte of a longer tail
	for _, e := range exts {
		if len(e) < 2 {
			continue
		}
		m := append(append([]byte(nil), data...), e...)
		if c, err := b.proto.LP().Prefix.Sum(m[:len(data)+1]); err == nil {
			for _, f := range forms {
				loadCase(out, id("prelink", f), f, false, c.KeyString(), one(m), "eof")
			}
		}
	}
	// EMPTY reads — Read returning (0, nil), legal for an io.Reader ("nothing yet, retry"):
	// (a) one before every byte position of the clean block and at true EOF, all four forms
	//     (mid-block positions where refmt's byte reader is about to read a single byte fabricate a
	//     zero byte on the pinned tree: known finding empty_read_mid_block, forms l/f only);
	for i := 0; i <= len(data); i++ {
		ch := lib.LkWithEmpty(lib.LkSplit(data, i), 0)
		if i > 0 && i < len(data) {
			ch = lib.LkWithEmpty(lib.LkSplit(data, i), 1)
		} else if i == len(data) {
			ch = lib.LkWithEmpty(one(data), 1)
		}
		for _, f := range forms {
			loadCase(out, id("emp", f), f, false, b.link, ch, "eof")
		}
	}
	// (b) right after the last genuine byte, before appended bytes (a decoder that takes "nothing
	//     yet" for the end of the stream would stop there and the hash would cover only the genuine
	//     prefix), and again at the true EOF; also with EOF delivered with the last chunk
	for _, e := range exts {
		m := append(append([]byte(nil), data...), e...)
		for _, f := range forms {
			loadCase(out, id("empext", f), f, false, b.link, lib.LkWithEmpty(lib.LkSplit(m, len(data)), 1), "eof")
			loadCase(out, id("empext", f), f, false, b.link, lib.LkWithEmpty(lib.LkSplit(m, len(data)), 1, 1, 2), "eof")
			loadCase(out, id("empextl", f), f, false, b.link, lib.LkWithEmpty(lib.LkSplit(m, len(data)), 1), "eofl")
			if len(e) > 1 {
				loadCase(out, id("empext3", f), f, false, b.link, lib.LkWithEmpty(lib.LkSplit(m, len(data), len(data)+1), 1, 2, 3), "eof")
			}
		}
	}
	// (c) empty reads at every boundary of a chunked, damaged block; before a read error; under
	//     TrustedStorage at the end of the block
	if len(data) > 2 {
		m := append([]byte(nil), data...)
		m[len(m)/2] ^= 0x10
		for _, f := range forms {
			loadCase(out, id("empflip", f), f, false, b.link, lib.LkWithEmpty(lib.LkSplit(m, 1, len(m)/2, len(m)-1), 0, 1, 2, 3, 4), "eof")
			loadCase(out, id("emptrunc", f), f, false, b.link, lib.LkWithEmpty(one(data[:len(data)-1]), 1), "eof")
			loadCase(out, id("emperr", f), f, false, b.link, lib.LkWithEmpty(one(data), 1), "err")
			loadCase(out, id("emperr", f), f, false, b.link, lib.LkWithEmpty(one(data[:len(data)/2]), 1), "err")
			loadCase(out, id("empt", f), f, true, b.link, lib.LkWithEmpty(one(data), 1), "eof")
		}
	}
	// byte-at-a-time delivery, and a corrupted block delivered in chunks
	var cuts []int
	for c := 1; c < len(data); c++ {
		cuts = append(cuts, c)
	}
	for _, f := range forms {
		loadCase(out, id("ch1", f), f, false, b.link, lib.LkSplit(data, cuts...), "eof")
		if len(data) > 2 {
			m := append([]byte(nil), data...)
			m[len(m)-1] ^= 0x40
			loadCase(out, id("chflip", f), f, false, b.link, lib.LkSplit(m, 1, len(m)-1), "eof")
		}
	}
}

func storeCases(out *lib.Out, bi int, b *block) {
	k := 0
	id := func(kind string) string { k++; return fmt.Sprintf("b%d.%s%d", bi, kind, k) }
	st := func(kind string, wopen bool, capacity int, sched string, cerr bool) {
		storeCase(out, id(kind), b.proto, "basic", b.val, wopen, capacity, sched, cerr)
	}
	st("st", false, -1, "-", false)
	st("stopen", true, -1, "-", false)
	st("stcommit", false, -1, "-", true)
	// sticky: the writer fails at every byte offset (hence at every write of the encoder) and stays failed
	for c := 0; c <= len(b.data)+1; c++ {
		st("stcap", false, c, "-", false)
	}
	st("stcapc", false, len(b.data)/2, "-", true)
	// transient: exactly write #i fails and later writes succeed; writes #i..#i+j fail; write #i is
	// short (n < len(p), nil error) by 0, 1 and half of the chunk — for every write of the encoder
	nb, _ := lib.BuildBasic(b.val)
	chunks, err := lib.LkEncode(lib.LkGlobalReg().Enc[b.proto.Codec], nb)
	if err != nil {
		return
	}
	oks := func(n int) []string {
		l := make([]string, n)
		for i := range l {
			l[i] = "o"
		}
		return l
	}
	for i := 0; i <= len(chunks); i++ { // i == len(chunks): a failure scheduled after the last write never happens
		pre := oks(i)
		st("stf", false, -1, strings.Join(append(pre, "f"), ","), false)
		st("stff", false, -1, strings.Join(append(pre, "f", "f"), ","), false)
		if i%3 == 0 {
			st("stfff", false, -1, strings.Join(append(pre, "f", "f", "f"), ","), false)
			st("stfc", false, -1, strings.Join(append(pre, "f"), ","), true)
		}
		ln := 0
		if i < len(chunks) {
			ln = len(chunks[i])
		}
		for _, n := range []int{0, 1, ln / 2, ln - 1, ln} {
			if n < 0 || (n > 1 && n == ln/2 && n == ln-1) {
				continue
			}
			st("sts", false, -1, strings.Join(append(pre, fmt.Sprintf("s%d", n)), ","), false)
		}
		if i%4 == 1 {
			st("stsf", false, -1, strings.Join(append(pre, "s0", "o", "f"), ","), false)
		}
	}
}

func main() {
	lib.LkInit()
	fl := lib.ParseFlags()
	out := lib.OpenOut(fl.Out)
	defer out.Close()
	out.Case("cfg0", "cfg", "probe", "store_latch="+b2s(probeStoreLatch())+",json_werr_ignored="+b2s(probeJSONWriteErrors()))
	if fl.Replay != "" {
		for _, line := range lib.ReadLines(fl.Replay) {
			f := strings.Split(line, "\t")
			switch {
			case len(f) >= 8 && (f[1] == "load" || f[1] == "bload"):
				bigMode = f[1] == "bload"
				loadCase(out, f[0], f[2][0], f[3] == "1", lib.UnHex(f[4]), lib.LkParseChunks(f[5]), f[6])
			case len(f) >= 10 && f[1] == "reify":
				var ks []kid
				if f[8] != "" {
					for _, c := range strings.Split(f[8], ";") {
						g := strings.Split(c, "~")
						if len(g) != 5 {
							panic("bad child " + c)
						}
						ks = append(ks, kid{lib.UnHex(g[0]), lib.LkParseChunks(g[1]), g[2], g[3][0], g[4][0]})
					}
				}
				reifyCase(out, f[0], f[2][0], f[3] == "1", f[4], lib.UnHex(f[5]), lib.LkParseChunks(f[6]), f[7], ks)
			case len(f) >= 10 && f[1] == "store":
				p, err := lib.LkParseProto(f[2])
				if err != nil {
					panic(err)
				}
				v, err := lib.ParseVal(f[4])
				if err != nil {
					panic(err)
				}
				c := 0
				fmt.Sscan(f[6], &c)
				storeCase(out, f[0], p, f[3], v, f[5] == "1", c, f[7], f[8] == "1")
			}
		}
		return
	}
	thorough := fl.Tier == "thorough"
	n := fl.N
	if n == 0 {
		n = 20
		if thorough {
			n = 150
		}
	}
	maxLen := 64
	if thorough {
		maxLen = 1024
	}
	r := lib.NewRng(fl.Seed)

	// ---- corpus: fixed blocks for every codec x hash, then generated ones
	protos := func(codec uint64) []lib.LkProto {
		if codec == lib.LkDagPb {
			return []lib.LkProto{{Version: 0, Codec: codec, MhType: 0x12, MhLen: 32}}
		}
		return []lib.LkProto{
			{Version: 1, Codec: codec, MhType: 0x12, MhLen: -1},
			{Version: 1, Codec: codec, MhType: 0x13, MhLen: -1},
			{Version: 1, Codec: codec, MhType: 0x16, MhLen: 32},
			{Version: 1, Codec: codec, MhType: 0x12, MhLen: 20},
			{Version: 1, Codec: codec, MhType: 0x12, MhLen: 1},
			{Version: 1, Codec: codec, MhType: 0x00, MhLen: -1},
		}
	}
	fixed := map[uint64][]*lib.Val{
		lib.LkDagCbor: {lib.Int(1), lib.Str("hello"), lib.Map(lib.Entry{K: "a", V: lib.Int(1)}, lib.Entry{K: "bb", V: lib.List(lib.Null(), lib.Bool(true), lib.Bytes("xy"))}),
			lib.List(lib.Link("\x01\x71\x12\x04abcd"), lib.Float(1.5), lib.Int(-300))},
		lib.LkCbor:    {lib.List(lib.Int(24), lib.Str("é"), lib.Map()), lib.Uint(1 << 63)},
		lib.LkDagJson: {lib.Int(123), lib.Str("a\"b"), lib.Map(lib.Entry{K: "k", V: lib.List(lib.Int(-1), lib.Null())}, lib.Entry{K: "b", V: lib.Bytes("\x00\xff")}), lib.Link("\x01\x71\x12\x04abcd"), lib.Bool(false)},
		lib.LkJson:    {lib.Map(lib.Entry{K: "x", V: lib.Int(5)}, lib.Entry{K: "y", V: lib.Str("z")}), lib.List(), lib.Null()},
		lib.LkRaw:     {lib.Bytes(""), lib.Bytes("a"), lib.Bytes("raw block \x00\x01\xfe")},
		lib.LkDagPb:   {lib.Map(lib.Entry{K: "v0", V: lib.Int(0)})},
	}
	var blocks []*block
	order := []uint64{lib.LkDagCbor, lib.LkCbor, lib.LkDagJson, lib.LkJson, lib.LkRaw, lib.LkDagPb}
	for _, c := range order {
		ps := protos(c)
		for i, v := range fixed[c] {
			if b := mkBlock(ps[i%len(ps)], v); b != nil {
				blocks = append(blocks, b)
			}
		}
	}
	for i := 0; i < n; i++ {
		c := order[i%5]
		ps := protos(c)
		for try := 0; try < 100; try++ {
			v := r.LkGenVal(c)
			b := mkBlock(ps[r.Intn(len(ps))], v)
			if b != nil && len(b.data) <= maxLen && (len(b.data) >= 3 || try > 50) {
				blocks = append(blocks, b)
				break
			}
		}
	}
	// values the encoder refuses: nothing may be committed
	refused := []struct {
		p lib.LkProto
		v *lib.Val
	}{
		{lib.LkProto{Version: 1, Codec: lib.LkRaw, MhType: 0x12, MhLen: -1}, lib.Int(1)},
		{lib.LkProto{Version: 1, Codec: lib.LkCbor, MhType: 0x12, MhLen: -1}, lib.List(lib.Int(1), lib.Str("written before the link"), lib.Link("\x01\x71\x12\x04abcd"))},
		{lib.LkProto{Version: 1, Codec: lib.LkJson, MhType: 0x12, MhLen: -1}, lib.Map(lib.Entry{K: "a", V: lib.Int(1)}, lib.Entry{K: "l", V: lib.Link("\x01\x71\x12\x04abcd")})},
		{lib.LkProto{Version: 1, Codec: lib.LkJson, MhType: 0x12, MhLen: -1}, lib.List(lib.Bytes("zz"))},
		{lib.LkProto{Version: 1, Codec: 0x99, MhType: 0x12, MhLen: -1}, lib.Int(1)},
		{lib.LkProto{Version: 1, Codec: lib.LkDagCbor, MhType: 0x99, MhLen: -1}, lib.Int(1)},
	}
	for i, x := range refused {
		storeCase(out, fmt.Sprintf("refused%d", i), x.p, "basic", x.v, false, -1, "-", false)
	}
	// loads under a link whose codec / hasher nobody registered
	for i, lb := range []string{"\x01\x99\x01\x12\x04abcd", "\x01\x71\x99\x01\x04abcd"} {
		for _, f := range forms {
			loadCase(out, fmt.Sprintf("nosetup%d.%c", i, f), f, false, lb, lib.LkSplit([]byte("abcd")), "eof")
		}
	}
	// a link whose digest is longer than the hash output: BuildLink panics (outside the property: skip)
	long := "\x01\x71\x12\x28" + strings.Repeat("d", 40)
	for _, f := range forms {
		loadCase(out, fmt.Sprintf("longdigest.%c", f), f, false, long, lib.LkSplit([]byte{0x01}), "eof")
	}
	if os.Getenv("LKBIG") != "0" { // (timing aid: LKBIG=0 leaves the large blocks out)
		bigCases(out, thorough)
	}
	// NodeReifier scenarios: parents linking to groups of corpus blocks
	for gi := 0; gi+3 <= len(blocks) && gi < 3*12; gi += 3 {
		reifyCases(out, r.Fork(), gi/3, blocks[gi:gi+3], thorough)
	}
	for bi, b := range blocks {
		faultCases(out, r.Fork(), bi, b, blocks, thorough)
		storeCases(out, bi, b)
	}
}
