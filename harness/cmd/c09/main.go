// c09: typed builders accept exactly conforming data.
// Record: id, "build", schema (prefix text), level (t|r), route (direct|node|cbor|json), tree, observation
// observation = ok|T=<type view>|R=<repr view>  |  err  |  panic
package main

import (
	"fmt"
	"strings"

	"verifharness/lib"
	"verifharness/schgen"

	"github.com/ipld/go-ipld-prime/datamodel"
	"github.com/ipld/go-ipld-prime/schema"
)

// the same builds on freshly generated code (op "buildg"): schemas within the generator's feature
// set, one generated package per run (harness/schgen)
func runGenBuilds(out *lib.Out, run string, schemas []*lib.SchTy, gc []*schgen.Case, rng *lib.Rng) {
	if len(gc) == 0 {
		return
	}
	schgen.Run(run, schemas, gc, rng, false)
	for _, c := range gc {
		op := "buildg"
		if c.Op == "bytes" {
			op = "bytesg"
		}
		out.Case(c.ID, op, schemas[c.SI].Text(), string(c.Level), c.Route, c.V.Text(), c.Obs)
	}
}

type loaded struct {
	t     *lib.SchTy
	proto schema.TypedPrototype
	bad   string
}

func load(t *lib.SchTy) *loaded {
	typ, _, err := lib.SchLoad(t)
	if err != nil {
		return &loaded{t: t, bad: "schemaerr"}
	}
	proto, err := lib.SchBindProto(t, typ)
	if err != nil {
		return &loaded{t: t, bad: "protoerr"}
	}
	return &loaded{t: t, proto: proto}
}

func runBuild(out *lib.Out, id string, l *loaded, level byte, route string, v *lib.Val) {
	obs := l.bad
	if obs == "" {
		obs, _ = lib.SchBuild(l.proto, string(level), route, v)
	}
	out.Case(id, "build", l.t.Text(), string(level), route, v.Text(), obs)
}

// a tree in which one struct / union position is filled by AssignNode of a bindnode node built
// under a sibling schema type (same inferred Go type, different schema)
func runSib(out *lib.Out, id string, l *loaded, level byte, v *lib.Val, inj *lib.SchInjection, route string) {
	obs := l.bad
	if obs == "" {
		obs = lib.SchBuildInj(l.proto, string(level), v, inj)
	}
	out.Case(id, "build", l.t.Text(), string(level), route, v.Text(), obs)
}

// dag-cbor BYTES decoded by the registered strict decoder straight into the representation builder
func runBytes(out *lib.Out, id string, l *loaded, enc string, bs []byte) {
	obs := l.bad
	if obs == "" {
		obs = lib.SchBuildBytes(func() datamodel.NodeBuilder { return l.proto.Representation().NewBuilder() }, bs)
	}
	out.Case(id, "bytes", l.t.Text(), "r", enc, lib.Bytes(string(bs)).Text(), obs)
}

var encOrder = []string{"enc", "raw", "mut", "flip"}

func main() {
	fl := lib.ParseFlags()
	out := lib.OpenOut(fl.Out)
	defer out.Close()
	if fl.Replay != "" {
		var gs []*lib.SchTy
		var gc []*schgen.Case
		for i, line := range lib.ReadLines(fl.Replay) {
			f := strings.Split(line, "\t")
			if len(f) >= 6 && f[1] == "buildg" {
				t, err := lib.SchParse(f[2])
				if err != nil {
					panic(err)
				}
				lib.SchAssignNames(t, fmt.Sprintf("Rg%d", i))
				v, err := lib.ParseVal(f[5])
				if err != nil {
					panic(err)
				}
				gs = append(gs, t)
				gc = append(gc, &schgen.Case{ID: f[0], SI: len(gs) - 1, Op: "build", Level: f[3][0], Route: f[4], V: v})
				continue
			}
			if len(f) >= 6 && (f[1] == "bytes" || f[1] == "bytesg") {
				t, err := lib.SchParse(f[2])
				if err != nil {
					panic(err)
				}
				lib.SchAssignNames(t, fmt.Sprintf("Rb%d", i))
				v, err := lib.ParseVal(f[5])
				if err != nil {
					panic(err)
				}
				if f[1] == "bytes" {
					runBytes(out, f[0], load(t), f[4], []byte(v.S))
				} else {
					gs = append(gs, t)
					gc = append(gc, &schgen.Case{ID: f[0], SI: len(gs) - 1, Op: "bytes", Level: 'r', Route: f[4], V: v})
				}
				continue
			}
			if len(f) < 6 || f[1] != "build" {
				continue
			}
			t, err := lib.SchParse(f[2])
			if err != nil {
				panic(err)
			}
			lib.SchAssignNames(t, fmt.Sprintf("Rp%d", i))
			v, err := lib.ParseVal(f[5])
			if err != nil {
				panic(err)
			}
			if strings.HasPrefix(f[4], "sib|") {
				inj, err := lib.SchParseSibRoute(f[4], v, fmt.Sprintf("Rq%d", i))
				if err != nil {
					panic(err)
				}
				runSib(out, f[0], load(t), f[3][0], v, inj, f[4])
				continue
			}
			runBuild(out, f[0], load(t), f[3][0], f[4], v)
		}
		runGenBuilds(out, "c09-replay", gs, gc, lib.NewRng(fl.Seed))
		return
	}
	n := fl.N
	if n == 0 {
		n = 300
		if fl.Tier == "thorough" {
			n = 8000
		}
	}
	rng := lib.NewRng(fl.Seed)
	for i, c := range lib.SchCorpus() {
		lib.SchAssignNames(c.T, fmt.Sprintf("C%d", i))
		lib.SchPatchMemberKeys(c.T, c.Level, c.V)
		l := load(c.T)
		for _, route := range lib.SchRoutes(c.V) {
			runBuild(out, fmt.Sprintf("c%d.%s", i, route), l, c.Level, route, c.V)
		}
		if c.Level == 'r' {
			encs := rng.SchEncodings(c.V)
			for _, e := range encOrder {
				if bs, ok := encs[e]; ok {
					runBytes(out, fmt.Sprintf("c%d.bytes.%s", i, e), l, e, bs)
				}
			}
		}
	}
	// fixed sibling witnesses: same inferred Go type, different schema
	{
		S, I := lib.SchScalar('S'), lib.SchScalar('I')
		type sibCase struct {
			t, sib *lib.SchTy
			tree   *lib.Val
		}
		un := func() *lib.SchTy {
			return lib.SchUnion('k', lib.SchMember{Name: "Aa", Disc: "a", Kind: 'm', T: lib.SchScalar('S')},
				lib.SchMember{Name: "Bb", Disc: "b", Kind: 'm', T: lib.SchScalar('I')})
		}
		st := func() *lib.SchTy { return lib.SchStruct('m', lib.SchFOpt("aa", S), lib.SchFOpt("bb", I)) }
		sibs := []sibCase{
			{lib.SchStruct('m', lib.SchFNul("a", S)), lib.SchStruct('m', lib.SchFOpt("a", S)), lib.Map()},
			{lib.SchStruct('m', lib.SchFOpt("a", S)), lib.SchStruct('m', lib.SchFNul("a", S)), lib.Map(lib.Entry{K: "a", V: lib.Null()})},
			{un(), st(), lib.Map()},
			{un(), st(), lib.Map(lib.Entry{K: "aa", V: lib.Str("x")}, lib.Entry{K: "bb", V: lib.Int(1)})},
			{st(), un(), lib.Map(lib.Entry{K: "Aa", V: lib.Str("x")})},
			{lib.SchStruct('m', lib.SchFRen("a", "x", S)), lib.SchStruct('m', lib.SchF("a", S)), lib.Map(lib.Entry{K: "a", V: lib.Str("q")})},
		}
		for i, c := range sibs {
			lib.SchAssignNames(c.t, fmt.Sprintf("X%d", i))
			lib.SchAssignNames(c.sib, fmt.Sprintf("X%dS", i))
			l := load(c.t)
			for _, level := range []byte{'t', 'r'} {
				for _, view := range []byte{'t', 'r'} {
					inj, err := lib.SchBuildInjection(c.sib, c.tree, view)
					if err != nil {
						continue
					}
					runSib(out, fmt.Sprintf("x%d.%c%c.sib", i, level, view), l, level, inj.Content, inj, lib.SchSibRoute(inj.Content, inj))
				}
			}
		}
	}
	cfg := &lib.SchGenCfg{MaxDepth: 4}
	for i := 0; i < n; i++ {
		t := rng.SchGen(cfg)
		lib.SchAssignNames(t, fmt.Sprintf("G%d", i))
		l := load(t)
		for _, level := range []byte{'t', 'r'} {
			for j := 0; j < 12; j++ {
				var mut *lib.SchMut
				if j >= 2 {
					mut = &lib.SchMut{R: rng, Budget: 1 + rng.Intn(2), Rate: 25}
				}
				v := rng.SchValue(t, level, mut)
				routes := lib.SchRoutes(v)
				base := fmt.Sprintf("g%d.%c%d", i, level, j)
				runBuild(out, base+".direct", l, level, "direct", v)
				r := routes[1+rng.Intn(len(routes)-1)]
				runBuild(out, base+"."+r, l, level, r, v)
			}
			if level == 'r' {
				for j := 0; j < 8; j++ {
					var mut *lib.SchMut
					if j >= 2 {
						mut = &lib.SchMut{R: rng, Budget: 1 + rng.Intn(2), Rate: 25}
					}
					encs := rng.SchEncodings(rng.SchValue(t, 'r', mut))
					e := encOrder[rng.Intn(len(encOrder))]
					if j < 2 {
						e = encOrder[j] // conforming: the encoder's bytes and the tree's own order
					}
					bs, ok := encs[e]
					if !ok {
						e, bs = "raw", encs["raw"]
					}
					runBytes(out, fmt.Sprintf("g%d.b%d.%s", i, j, e), l, e, bs)
				}
			}
			// a twin schema under the SAME type names (other discriminants / renames), in alternation
			if tw := lib.SchTwin(t, fmt.Sprintf("G%d", i)); tw != nil && level == 'r' {
				ltw := load(tw)
				for j := 0; j < 2; j++ {
					runBuild(out, fmt.Sprintf("g%d.w%d.direct", i, j), ltw, level, "direct", rng.SchValue(tw, level, nil))
					runBuild(out, fmt.Sprintf("g%d.v%d.direct", i, j), l, level, "direct", rng.SchValue(t, level, nil))
				}
			}
			for j := 0; j < 6; j++ {
				v, inj := rng.SchValueWithSibling(t, level, fmt.Sprintf("G%dx%c%d", i, level, j))
				if inj == nil {
					continue
				}
				runSib(out, fmt.Sprintf("g%d.%cs%d.sib", i, level, j), l, level, v, inj, lib.SchSibRoute(v, inj))
			}
		}
	}
	// generated code: the corpus in the generator's feature set + dedicated schemas
	var gs []*lib.SchTy
	var gc []*schgen.Case
	for i, c := range lib.SchCorpus() {
		if !c.T.GenSupported() {
			continue
		}
		lib.SchAssignNames(c.T, fmt.Sprintf("K%d", i))
		lib.SchPatchMemberKeys(c.T, c.Level, c.V)
		gs = append(gs, c.T)
		for _, route := range lib.SchRoutes(c.V) {
			if route == "node" && !c.T.AssignNodeSafe() {
				continue // the known AssignNode defect of generated maps / Maybe targets: C13's separate obligation
			}
			gc = append(gc, &schgen.Case{ID: fmt.Sprintf("c%d.%s.gen", i, route), SI: len(gs) - 1, Op: "build", Level: c.Level, Route: route, V: c.V})
		}
		if c.Level == 'r' {
			encs := rng.SchEncodings(c.V)
			for _, e := range encOrder {
				if bs, ok := encs[e]; ok {
					gc = append(gc, &schgen.Case{ID: fmt.Sprintf("c%d.bytes.%s.gen", i, e), SI: len(gs) - 1, Op: "bytes", Level: 'r', Route: e, V: lib.Bytes(string(bs))})
				}
			}
		}
	}
	ng := 12
	if fl.Tier == "thorough" {
		ng = 240
	}
	gcfg := &lib.SchGenCfg{MaxDepth: 4, ForGen: true}
	for i := 0; i < ng; i++ {
		t := rng.SchGen(gcfg)
		lib.SchAssignNames(t, fmt.Sprintf("H%d", i))
		gs = append(gs, t)
		for _, level := range []byte{'t', 'r'} {
			for j := 0; j < 14; j++ {
				var mut *lib.SchMut
				if j >= 3 {
					mut = &lib.SchMut{R: rng, Budget: 1 + rng.Intn(2), Rate: 25}
				}
				v := rng.SchValue(t, level, mut)
				var routes []string
				for _, r := range lib.SchRoutes(v) {
					if r != "node" || t.AssignNodeSafe() {
						routes = append(routes, r)
					}
				}
				base := fmt.Sprintf("h%d.%c%d", i, level, j)
				gc = append(gc, &schgen.Case{ID: base + ".direct.gen", SI: len(gs) - 1, Op: "build", Level: level, Route: "direct", V: v})
				r := routes[1+rng.Intn(len(routes)-1)]
				gc = append(gc, &schgen.Case{ID: base + "." + r + ".gen", SI: len(gs) - 1, Op: "build", Level: level, Route: r, V: v})
				if level == 'r' && j < 8 {
					encs := rng.SchEncodings(v)
					e := encOrder[rng.Intn(len(encOrder))]
					bs, ok := encs[e]
					if !ok {
						e, bs = "raw", encs["raw"]
					}
					gc = append(gc, &schgen.Case{ID: fmt.Sprintf("%s.bytes.%s.gen", base, e), SI: len(gs) - 1, Op: "bytes", Level: 'r', Route: e, V: lib.Bytes(string(bs))})
				}
			}
		}
	}
	runGenBuilds(out, fmt.Sprintf("c09-%s-s%d", fl.Tier, fl.Seed), gs, gc, rng)
}
