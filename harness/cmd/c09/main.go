// c09: typed builders accept exactly conforming data.
// Record: id, "build", schema (prefix text), level (t|r), route (direct|node|cbor|json), tree, observation
// observation = ok|T=<type view>|R=<repr view>  |  err  |  panic
package main

import (
	"fmt"
	"strings"

	"verifharness/lib"

	"github.com/ipld/go-ipld-prime/schema"
)

type loaded struct {
	t     *lib.SchTy
	proto schema.TypedPrototype
	bad   string
}

func load(t *lib.SchTy) *loaded {
	typ, _, err := lib.SchLoad(t)
	if err != nil {
		return &loaded{t: t, bad: "schemaerr"}
	}
	proto, err := lib.SchBindProto(t, typ)
	if err != nil {
		return &loaded{t: t, bad: "protoerr"}
	}
	return &loaded{t: t, proto: proto}
}

func runBuild(out *lib.Out, id string, l *loaded, level byte, route string, v *lib.Val) {
	obs := l.bad
	if obs == "" {
		obs, _ = lib.SchBuild(l.proto, string(level), route, v)
	}
	out.Case(id, "build", l.t.Text(), string(level), route, v.Text(), obs)
}

func main() {
	fl := lib.ParseFlags()
	out := lib.OpenOut(fl.Out)
	defer out.Close()
	if fl.Replay != "" {
		for i, line := range lib.ReadLines(fl.Replay) {
			f := strings.Split(line, "\t")
			if len(f) < 6 || f[1] != "build" {
				continue
			}
			t, err := lib.SchParse(f[2])
			if err != nil {
				panic(err)
			}
			lib.SchAssignNames(t, fmt.Sprintf("Rp%d", i))
			v, err := lib.ParseVal(f[5])
			if err != nil {
				panic(err)
			}
			runBuild(out, f[0], load(t), f[3][0], f[4], v)
		}
		return
	}
	n := fl.N
	if n == 0 {
		n = 300
		if fl.Tier == "thorough" {
			n = 8000
		}
	}
	rng := lib.NewRng(fl.Seed)
	for i, c := range lib.SchCorpus() {
		lib.SchAssignNames(c.T, fmt.Sprintf("C%d", i))
		lib.SchPatchMemberKeys(c.T, c.Level, c.V)
		l := load(c.T)
		for _, route := range lib.SchRoutes(c.V) {
			runBuild(out, fmt.Sprintf("c%d.%s", i, route), l, c.Level, route, c.V)
		}
	}
	cfg := &lib.SchGenCfg{MaxDepth: 4}
	for i := 0; i < n; i++ {
		t := rng.SchGen(cfg)
		lib.SchAssignNames(t, fmt.Sprintf("G%d", i))
		l := load(t)
		for _, level := range []byte{'t', 'r'} {
			for j := 0; j < 12; j++ {
				var mut *lib.SchMut
				if j >= 2 {
					mut = &lib.SchMut{R: rng, Budget: 1 + rng.Intn(2), Rate: 25}
				}
				v := rng.SchValue(t, level, mut)
				routes := lib.SchRoutes(v)
				base := fmt.Sprintf("g%d.%c%d", i, level, j)
				runBuild(out, base+".direct", l, level, "direct", v)
				r := routes[1+rng.Intn(len(routes)-1)]
				runBuild(out, base+"."+r, l, level, r, v)
			}
		}
	}
}
