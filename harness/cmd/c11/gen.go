package main

// History generator: a random walk over the API that tracks, in a shadow of each register, what the
// builder contract allows next, so that most histories are Legal and long; about one in six contains
// one deliberate misuse (a call the contract forbids) or a caller write into a shared byte slice.
// The ops are executed against the real library while generating, so that nodes can be inspected
// (kinds, keys, lengths) when choosing lookups, subset ranges and transform paths.

import (
	"fmt"
	"strings"

	"verifharness/lib"

	"github.com/ipld/go-ipld-prime/datamodel"
)

// fixed corpus: witnesses of the known finding, of each misuse the contract excludes, and of the
// sharing patterns the ownership invariant is about
var corpus = []string{
	// streamBytes through Prototype.Bytes + AssignNode(NewBytes): the second read is empty
	"sl:616263 nby:0 nb:bytes an:2:1 bu:2",
	// … and through a subset matcher over a bytes node
	"sl:6162636465 nby:0 mt:1:1:4",
	// subset of a stream node shares (and rewinds) its reader
	"sl:6162636465 nst:0 mt:1:1:4 mt:1:0:2 en:1",
	// a stream node inside a list: encode / copy / walk read it
	"sl:616263 nby:0 nb:bytes an:2:1 bu:2 nb:list bl:5:2 av:6 an:7:4 fi:6 bu:5 en:10 cp:10:any wk:10",
	// the AssignNode shortcut shares the backing array; the source builder is reset and reused, the copy's builder too
	"nb:list bl:0:4 av:1 as:2:i1 av:1 as:4:i2 fi:1 bu:0 nb:list an:8:7 bu:8 rs:0 bl:0:4 av:12 as:13:i9 fi:12 bu:0 rs:8 an:8:16 bu:8",
	"nb:map bm:0:4 ae:1:61 as:2:i1 ak:1 as:4:s62 av:1 as:6:t fi:1 bu:0 nb:map an:10:9 bu:10 rs:0 bm:0:1 ae:14:7a as:15:n fi:14 bu:0 lk:9:61 lk:12:62",
	// nested assemblers, child finish inserts into the parent
	"nb:any bm:0:0 ae:1:6b bl:2:1 av:3 bm:4:0 ae:5:78 as:6:s79 fi:5 fi:3 ae:1:6c as:10:d3ff0000000000000 fi:1 bu:0 tf:13:s6b/i0/s78:13 cp:13:map",
	// readers handed out by AsLargeBytes: several alive at once, partial reads, seeks, interleaved with
	// AsBytes (every re-dump), subset matches and seeks to the end by other readers of the same node
	"sl:6162636465666768 nst:0 lb:1 rr:2:3 lb:1 sk:4:0:e rr:2:a sk:4:-2:e rr:4:a",
	"sl:6162636465666768 nst:0 lb:1! rr:2:3! lb:1! sk:4:0:e! rr:2:a sk:4:-2:e! rr:4:a",
	"sl:6162636465666768 nst:0 lb:1! rr:2:2! mt:1:1:5! rr:2:2! sk:2:0:e! sk:2:3:s! rr:2:a",
	"sl:61626364 nby:0 nb:bytes an:2:1 bu:2 lb:4! lb:4! rr:5:1! sk:6:0:e! rr:5:a! sk:6:1:s! rr:6:2! rr:5:a",
	"sl:6162636465666768 nst:0 lb:1 rr:2:2 mt:1:1:5 rr:2:2 lb:4 rr:6:1 rr:2:a rr:6:a sk:2:1:s rr:2:2 sk:2:1:c rr:2:a",
	"sl:61626364 nby:0 nb:bytes an:2:1 bu:2 lb:4 lb:4 rr:5:1 rr:6:2 sk:5:0:e sk:5:0:s rr:6:a rr:5:a sk:6:-9:c",
	"sl:616263 nby:0 lb:1 lb:1 rr:2:1 rr:3:a rr:2:a sk:3:1:s rr:3:1 fo:b6162 lb:9 ns:i1 lb:11",
	// Props/C11.v C11_two_interleaved_readers: reader A read 3 bytes; reader B of the same node reads, the node is
	// read through AsBytes / a subset match / the match result, B seeks to the end and reads; A goes on at "d"
	"sl:6162636465666768 nst:0 lb:1! rr:2:3! lb:1! rr:4:2! mt:1:1:5 en:6 sk:4:0:e! rr:4:a! rr:2:2",
	// misuse: BeginMap on a finished builder overwrites the built node's tables
	"nb:map bm:0:1 ae:1:6b as:2:i1 fi:1 bu:0 bm:0:0",
	// misuse: second Assign on a scalar builder writes through the built node
	"nb:string as:0:s61 bu:0 as:0:s62",
	// misuse: Build before Assign hands out the live cell
	"nb:int bu:0 as:0:i5",
	// the caller writes into a slice it passed in
	"sl:616263 nby:0 nb:any ab:2:0 bu:2 cw:0:1:120",
	// generic copy path of plainMap AssignNode never calls BeginMap: nil-map write panics
	"fo:m1,k61,i1 nb:map an:1:0",
	"fo:a2,i1,s61 nb:list an:1:0 bu:1 nb:any an:4:0 bu:4",
	// producers
	"mk:cbor:m2,k61,a2,i1,b6162,k6262,s78 mk:json:a2,m1,k61,n,t lk:0:61 li:2:0 tf:0:s61/i1:3 en:4",
	// encoding a link right after a bytes value long enough to hold tag bytes + CID: the encoder must not build the
	// link's bytes in a buffer that still aliases the bytes node it emitted before (list order, map key order)
	"mk:cbor:a2,b4142434445464748494a4b4c4d4e4f505152535455565758595a5b5c5d5e5f606162636465666768,l0171122000070e151c232a31383f464d545b626970777e858c939aa1a8afb6bdc4cbd2d9 en:0 en:0 cp:0:any en:0",
	"mk:cbor:m3,k61,b4142434445464748494a4b4c4d4e4f505152535455565758595a5b5c5d5e5f606162636465666768,k62,i1,k63,l0171122000070e151c232a31383f464d545b626970777e858c939aa1a8afb6bdc4cbd2d9 en:0 cp:0:map en:0",
	"mk:json:a3,b4142434445464748494a4b4c4d4e4f505152535455565758595a5b5c5d5e5f606162636465666768,l0171122000070e151c232a31383f464d545b626970777e858c939aa1a8afb6bdc4cbd2d9,b4142434445464748494a4b4c4d4e4f505152535455565758595a5b5c5d5e5f606162636465666768 en:0 en:0",
	// stale handles
	"nb:any bm:0:2 ae:1:61 bm:2:0 as:2:i1 fi:3",
	"nb:list bl:0:0 av:1 bl:2:0 rs:0 bl:0:0 av:5 fi:3 fi:5 bu:0",
}

type shadow struct {
	kind  rkind
	proto string
	phase int // builder: 0 fresh, 1 open, 2 done
	state int // map asm: 0 initial 1 midKey 2 expectValue 3 midValue 4 finished; list asm: 0 initial 3 midValue 4 finished
	keys  []string
	count int
	top   int // builder register a top-level assembler belongs to, else -1
	owner int // key/value assembler: its map/list assembler; child assembler: the value assembler's owner
	live  bool
	depth int
	isMap bool
	built bool
}

type gen struct {
	r       *lib.Rng
	m       *machine
	sh      []shadow
	ops     []string
	target  int
	misuse  bool // this case may contain one misuse
	misused bool
	lastOut string
}

// reader-level ops are mostly run without the dumper's AsBytes calls in between
func (g *gen) quiet() string {
	if g.r.Chance(70) {
		return "!"
	}
	return ""
}

func (g *gen) emit(op string) (string, int) {
	out, nr := g.m.exec(strings.TrimSuffix(op, "!"))
	g.lastOut = out
	g.m.regs = append(g.m.regs, nr)
	g.ops = append(g.ops, op)
	g.sh = append(g.sh, shadow{kind: nr.k, top: -1, owner: -1})
	return out, len(g.sh) - 1
}

var keyPool = []string{"a", "b", "c", "k", "", "0", "1", "ab", "key"}
var scalarPool = []string{"n", "t", "f", "i0", "i1", "i-1", "i7b", "i-80", "i7fffffffffffffff", "d3ff0000000000000", "d0", "dc008000000000000",
	"s", "s61", "s6162", "s303132", "s6b6579", "sc3a9"}
var protoPool = []string{"any", "any", "any", "map", "map", "list", "list", "bytes", "bytes", "string", "int", "bool", "float"}

func (g *gen) pick(l []string) string { return l[g.r.Intn(len(l))] }

func (g *gen) scalarFor(proto string) string {
	switch proto {
	case "string":
		return g.pick([]string{"s", "s61", "s6162", "s6b6579"})
	case "int":
		return g.pick([]string{"i0", "i1", "i-1", "i7b"})
	case "bool":
		return g.pick([]string{"t", "f"})
	case "float":
		return g.pick([]string{"d3ff0000000000000", "d0"})
	}
	return g.pick(scalarPool)
}

func (g *gen) regsOf(k rkind) []int {
	var out []int
	for i, s := range g.sh {
		if s.kind == k {
			out = append(out, i)
		}
	}
	return out
}

func (g *gen) nodesOfKind(kinds ...datamodel.Kind) []int {
	var out []int
	for i, s := range g.sh {
		if s.kind == rNode && g.m.regs[i].n != nil {
			for _, k := range kinds {
				if g.m.regs[i].n.Kind() == k {
					out = append(out, i)
				}
			}
		}
	}
	return out
}

func (g *gen) anyOf(l []int) int { return l[g.r.Intn(len(l))] }

func (g *gen) smallVal(depth int, noFloat bool) *lib.Val {
	for {
		switch k := g.r.Intn(11); {
		case k == 0:
			return lib.Null()
		case k == 1:
			return lib.Bool(g.r.Bool())
		case k == 2 || k == 3:
			return lib.Int(int64(g.r.Intn(300)) - 40)
		case k == 4:
			if noFloat {
				continue
			}
			return lib.Float([]float64{0, 1, -2.5, 1e20}[g.r.Intn(4)])
		case k == 5:
			return lib.Str(g.pick([]string{"", "a", "xy", "key", "é"}))
		case k == 6:
			return lib.Bytes(g.r.BytesN(g.r.Intn(5)))
		case k <= 8:
			if depth >= 2 {
				continue
			}
			v := &lib.Val{Kind: lib.KList}
			for i, n := 0, g.r.Intn(4); i < n; i++ {
				v.L = append(v.L, g.smallVal(depth+1, noFloat))
			}
			return v
		default:
			if depth >= 2 {
				continue
			}
			v := &lib.Val{Kind: lib.KMap}
			seen := map[string]bool{}
			for i, n := 0, g.r.Intn(4); i < n; i++ {
				k := g.pick(keyPool)
				if seen[k] {
					continue
				}
				seen[k] = true
				v.M = append(v.M, lib.Entry{K: k, V: g.smallVal(depth+1, noFloat)})
			}
			return v
		}
	}
}

type move struct {
	w  int
	fn func()
}

// finishing an assembler updates its owner (builder phase, parent state)
func (g *gen) finished(a int) {
	s := &g.sh[a]
	s.state = 4
	if s.top >= 0 {
		g.sh[s.top].phase = 2
	} else if s.owner >= 0 {
		g.sh[s.owner].state = 0
		g.sh[s.owner].count++
	}
}

func (g *gen) valueAssigned(va int) {
	g.sh[va].live = false
	o := g.sh[va].owner
	if o >= 0 {
		g.sh[o].state = 0
		g.sh[o].count++
	}
}

func (g *gen) beginOn(h int, isMap bool) {
	hint := g.r.Intn(5)
	if g.r.Chance(15) {
		hint = 0
	}
	op := "bl"
	if isMap {
		op = "bm"
	}
	out, nr := g.emit(fmt.Sprintf("%s:%d:%d", op, h, hint))
	if out != "ok" {
		return
	}
	s := &g.sh[nr]
	s.isMap = isMap
	switch g.sh[h].kind {
	case rBuilder:
		s.top = h
		g.sh[h].phase = 1
	case rValAsm:
		s.owner = g.sh[h].owner
		s.depth = g.sh[h].depth + 1
		g.sh[h].live = false // the value assembler is now represented by the child
	}
}

func (g *gen) moves() []move {
	var ms []move
	add := func(w int, fn func()) {
		if w > 0 {
			ms = append(ms, move{w, fn})
		}
	}
	closing := len(g.ops) > g.target-10
	open := 1
	if closing {
		open = 0
	}
	boost := 1
	if closing {
		boost = 4
	}
	builders := g.regsOf(rBuilder)
	nodes := g.regsOf(rNode)
	slices := g.regsOf(rSlice)
	nOpen := 0
	for _, b := range builders {
		if g.sh[b].phase != 2 {
			nOpen++
		}
	}
	if nOpen < 3 {
		add(6*open, func() {
			p := g.pick(protoPool)
			_, nr := g.emit("nb:" + p)
			g.sh[nr].proto = p
		})
	}
	for _, b := range builders {
		b := b
		s := g.sh[b]
		switch s.phase {
		case 0:
			switch s.proto {
			case "any":
				add(3, func() {
					if out, _ := g.emit(fmt.Sprintf("as:%d:%s", b, g.pick(scalarPool))); out == "ok" {
						g.sh[b].phase = 2
					}
				})
				add(6*open, func() { g.beginOn(b, true) })
				add(6*open, func() { g.beginOn(b, false) })
			case "map":
				add(8*open, func() { g.beginOn(b, true) })
			case "list":
				add(8*open, func() { g.beginOn(b, false) })
			case "bytes":
			default:
				add(4, func() {
					if out, _ := g.emit(fmt.Sprintf("as:%d:%s", b, g.scalarFor(s.proto))); out == "ok" {
						g.sh[b].phase = 2
					}
				})
				add(1, func() { g.emit(fmt.Sprintf("as:%d:%s", b, g.pick(scalarPool))); g.fixPhase(b) })
			}
			if len(slices) > 0 && (s.proto == "any" || s.proto == "bytes") {
				add(3, func() {
					if out, _ := g.emit(fmt.Sprintf("ab:%d:%d", b, g.anyOf(slices))); out == "ok" {
						g.sh[b].phase = 2
					}
				})
			}
			if len(nodes) > 0 {
				w := 2
				var cands []int
				switch s.proto {
				case "map":
					cands = g.nodesOfKind(datamodel.Kind_Map)
					w = 4
				case "list":
					cands = g.nodesOfKind(datamodel.Kind_List)
					w = 4
				case "bytes":
					cands = g.nodesOfKind(datamodel.Kind_Bytes)
					w = 5
				case "string":
					cands = g.nodesOfKind(datamodel.Kind_String)
				case "int":
					cands = g.nodesOfKind(datamodel.Kind_Int)
				case "bool":
					cands = g.nodesOfKind(datamodel.Kind_Bool)
				case "float":
					cands = g.nodesOfKind(datamodel.Kind_Float)
				}
				if len(cands) == 0 && s.proto != "any" {
					w = 0
					if g.r.Chance(10) {
						w = 1
					}
				}
				if len(cands) == 0 || g.r.Chance(12) {
					cands = nodes
				}
				add(w, func() {
					g.emit(fmt.Sprintf("an:%d:%d", b, g.anyOf(cands)))
					g.fixPhase(b)
				})
			}
		case 2:
			if !s.built {
				add(8*boost, func() { g.emit(fmt.Sprintf("bu:%d", b)); g.sh[b].built = true })
			} else {
				add(1, func() { g.emit(fmt.Sprintf("bu:%d", b)) })
				add(3*open, func() { g.emit(fmt.Sprintf("rs:%d", b)); g.resetShadow(b) })
			}
		}
		if s.phase == 1 {
			add(1*open, func() { g.emit(fmt.Sprintf("rs:%d", b)); g.resetShadow(b) })
		}
	}
	for i := range g.sh {
		i := i
		s := g.sh[i]
		switch s.kind {
		case rMapAsm:
			switch s.state {
			case 0:
				add(10*open+1, func() {
					k := g.pick(keyPool)
					out, nr := g.emit(fmt.Sprintf("ae:%d:%s", i, lib.Hex(k)))
					if out == "ok" {
						g.sh[i].state = 3
						g.sh[i].keys = append(g.sh[i].keys, k)
						g.sh[nr].owner, g.sh[nr].live, g.sh[nr].isMap, g.sh[nr].depth = i, true, true, s.depth
					}
				})
				add(5*open, func() {
					if out, nr := g.emit(fmt.Sprintf("ak:%d", i)); out == "ok" {
						g.sh[i].state = 1
						g.sh[nr].owner, g.sh[nr].live = i, true
					}
				})
				add((2+s.count)*boost, func() {
					if out, _ := g.emit(fmt.Sprintf("fi:%d", i)); out == "ok" {
						g.finished(i)
					}
				})
			case 2:
				add(8*boost, func() {
					if out, nr := g.emit(fmt.Sprintf("av:%d", i)); out == "ok" {
						g.sh[i].state = 3
						g.sh[nr].owner, g.sh[nr].live, g.sh[nr].isMap, g.sh[nr].depth = i, true, true, s.depth
					}
				})
			}
		case rListAsm:
			if s.state == 0 {
				add(12*open+1, func() {
					if out, nr := g.emit(fmt.Sprintf("av:%d", i)); out == "ok" {
						g.sh[i].state = 3
						g.sh[nr].owner, g.sh[nr].live, g.sh[nr].depth = i, true, s.depth
					}
				})
				add((2+s.count)*boost, func() {
					if out, _ := g.emit(fmt.Sprintf("fi:%d", i)); out == "ok" {
						g.finished(i)
					}
				})
			}
		case rKeyAsm:
			if s.live {
				add(8*boost, func() {
					k := g.pick(keyPool)
					out, _ := g.emit(fmt.Sprintf("as:%d:s%s", i, lib.Hex(k)))
					switch out {
					case "ok":
						g.sh[i].live = false
						g.sh[s.owner].state = 2
						g.sh[s.owner].keys = append(g.sh[s.owner].keys, k)
					case "e:repeated_key":
						g.sh[i].live = false
						g.sh[s.owner].state = 0
					}
				})
				add(1, func() { g.emit(fmt.Sprintf("as:%d:i1", i)) })
				if ss := g.nodesOfKind(datamodel.Kind_String); len(ss) > 0 {
					add(2, func() {
						out, _ := g.emit(fmt.Sprintf("an:%d:%d", i, g.anyOf(ss)))
						switch out {
						case "ok":
							g.sh[i].live = false
							g.sh[s.owner].state = 2
						case "e:repeated_key":
							g.sh[i].live = false
							g.sh[s.owner].state = 0
						}
					})
				}
			}
		case rValAsm:
			if s.live {
				add(8*boost, func() {
					if out, _ := g.emit(fmt.Sprintf("as:%d:%s", i, g.pick(scalarPool))); out == "ok" {
						g.valueAssigned(i)
					}
				})
				if len(slices) > 0 {
					add(2, func() {
						if out, _ := g.emit(fmt.Sprintf("ab:%d:%d", i, g.anyOf(slices))); out == "ok" {
							g.valueAssigned(i)
						}
					})
				}
				if len(nodes) > 0 {
					add(5, func() {
						if out, _ := g.emit(fmt.Sprintf("an:%d:%d", i, g.anyOf(nodes))); out == "ok" {
							g.valueAssigned(i)
						}
					})
				}
				if s.depth < 3 {
					add(3*open, func() { g.beginOn(i, true) })
					add(3*open, func() { g.beginOn(i, false) })
				}
			}
		}
	}
	// producers of nodes and slices
	add(2*open, func() { g.emit("sl:" + lib.Hex(g.r.BytesN(g.r.Intn(6)))) })
	if len(slices) > 0 {
		add(2*open, func() { g.emit(fmt.Sprintf("nby:%d", g.anyOf(slices))) })
		add(1*open, func() { g.emit(fmt.Sprintf("nst:%d", g.anyOf(slices))) })
	}
	add(1*open, func() { g.emit("ns:" + g.pick(scalarPool)) })
	add(1*open, func() { g.emit("fo:" + valText(g.smallVal(0, false))) })
	add(2*open, func() {
		producer := g.pick([]string{"asm", "cbor", "json"})
		v := g.smallVal(0, producer == "json")
		if producer != "asm" { // what the decoder will hand back (key order, …) is what the script states
			n, err := produce(producer, v)
			if err != nil {
				producer = "asm"
			} else if c, perr := lib.ParseVal(lib.Dump(n)); perr != nil {
				producer = "asm"
			} else {
				v = c
			}
		}
		g.emit("mk:" + producer + ":" + valText(v))
	})
	// operations on finished nodes
	if len(nodes) > 0 {
		add(2, func() {
			n := g.anyOf(nodes)
			p := "any"
			if g.r.Chance(50) && g.m.regs[n].n != nil {
				switch g.m.regs[n].n.Kind() {
				case datamodel.Kind_Map:
					p = "map"
				case datamodel.Kind_List:
					p = "list"
				case datamodel.Kind_Bytes:
					p = "bytes"
				case datamodel.Kind_String:
					p = "string"
				case datamodel.Kind_Int:
					p = "int"
				}
			} else if g.r.Chance(15) {
				p = g.pick(protoPool)
			}
			g.emit(fmt.Sprintf("cp:%d:%s", n, p))
		})
		if ml := g.nodesOfKind(datamodel.Kind_Map, datamodel.Kind_List); len(ml) > 0 {
			add(2, func() { g.lookup(g.anyOf(ml)) })
		} else {
			add(1, func() { g.lookup(g.anyOf(nodes)) })
		}
		if sb := g.nodesOfKind(datamodel.Kind_String, datamodel.Kind_Bytes); len(sb) > 0 {
			add(3, func() { g.subset(g.anyOf(sb)) })
		}
		add(1, func() { g.subset(g.anyOf(nodes)) })
		if ml := g.nodesOfKind(datamodel.Kind_Map, datamodel.Kind_List); len(ml) > 0 {
			add(3, func() { g.transform(g.anyOf(ml), g.anyOf(nodes)) })
		}
		add(1, func() { g.transform(g.anyOf(nodes), g.anyOf(nodes)) })
		add(2, func() { g.emit(fmt.Sprintf("en:%d", g.anyOf(nodes))) })
		add(1, func() { g.emit(fmt.Sprintf("wk:%d", g.anyOf(nodes))) })
	}
	// readers: hand out, read in pieces, seek; several per node, interleaved with everything else
	if bs := g.nodesOfKind(datamodel.Kind_Bytes); len(bs) > 0 {
		add(4, func() { g.emit(fmt.Sprintf("lb:%d%s", g.anyOf(bs), g.quiet())) })
	}
	if bs := g.nodesOfKind(datamodel.Kind_Bytes); len(bs) > 0 && len(g.ops) < g.target-6 {
		add(5, func() { g.readerEpisode(bs) })
	}
	if rds := g.regsOf(rReader); len(rds) > 0 {
		add(6, func() {
			k := g.pick([]string{"1", "1", "2", "3", "a"})
			g.emit(fmt.Sprintf("rr:%d:%s%s", g.anyOf(rds), k, g.quiet()))
		})
		add(4, func() {
			switch g.r.Intn(4) {
			case 0:
				g.emit(fmt.Sprintf("sk:%d:%d:s%s", g.anyOf(rds), g.r.Intn(5), g.quiet()))
			case 1:
				g.emit(fmt.Sprintf("sk:%d:%d:c%s", g.anyOf(rds), g.r.Intn(5)-2, g.quiet()))
			case 2:
				g.emit(fmt.Sprintf("sk:%d:%d:e%s", g.anyOf(rds), -g.r.Intn(4), g.quiet()))
			default:
				g.emit(fmt.Sprintf("sk:%d:0:e%s", g.anyOf(rds), g.quiet()))
			}
		})
	}
	if g.misuse && !g.misused && len(g.ops) > 3 {
		add(3, g.doMisuse)
	}
	return ms
}

// after an Assign* / AssignNode on a builder: done if it succeeded
func (g *gen) fixPhase(b int) {
	if g.lastOut == "ok" {
		g.sh[b].phase = 2
	}
}

func (g *gen) resetShadow(b int) {
	g.sh[b].phase = 0
	g.sh[b].built = false
	for i := range g.sh {
		if g.sh[i].top == b {
			g.sh[i].top = -1
			g.sh[i].state = 4 // the old top-level assembler handle now aliases the fresh builder; leave it alone
		}
	}
}

func (g *gen) lookup(n int) {
	node := g.m.regs[n].n
	if node == nil {
		return
	}
	switch node.Kind() {
	case datamodel.Kind_Map:
		var keys []string
		for it := node.MapIterator(); it != nil && !it.Done(); {
			k, _, err := it.Next()
			if err != nil {
				break
			}
			ks, _ := k.AsString()
			keys = append(keys, ks)
		}
		k := g.pick(keyPool)
		if len(keys) > 0 && !g.r.Chance(15) {
			k = keys[g.r.Intn(len(keys))]
		}
		g.emit(fmt.Sprintf("lk:%d:%s", n, lib.Hex(k)))
	case datamodel.Kind_List:
		l := int(node.Length())
		i := g.r.Intn(l+2) - 1
		if l > 0 && !g.r.Chance(15) {
			i = g.r.Intn(l)
		}
		g.emit(fmt.Sprintf("li:%d:%d", n, i))
	default:
		if g.r.Bool() {
			g.emit(fmt.Sprintf("lk:%d:%s", n, lib.Hex(g.pick(keyPool))))
		} else {
			g.emit(fmt.Sprintf("li:%d:%d", n, g.r.Intn(3)))
		}
	}
}

// a burst of reader-level calls on one bytes node (stream-backed ones preferred) with no dump in
// between: a reader part-way through, then other readers / seeks to the end / subset matches on the
// same node, then the first reader goes on
func (g *gen) readerEpisode(bs []int) {
	n := g.anyOf(bs)
	for _, c := range bs {
		if fmt.Sprintf("%T", g.m.regs[c].n) == "basicnode.streamBytes" && g.r.Chance(70) {
			n = c
			break
		}
	}
	_, r1 := g.emit(fmt.Sprintf("lb:%d!", n))
	if g.sh[r1].kind != rReader {
		return
	}
	g.emit(fmt.Sprintf("rr:%d:%d!", r1, 1+g.r.Intn(3)))
	for i, k := 0, 1+g.r.Intn(3); i < k; i++ {
		switch g.r.Intn(5) {
		case 0:
			if _, r2 := g.emit(fmt.Sprintf("lb:%d!", n)); g.sh[r2].kind == rReader {
				g.emit(fmt.Sprintf("sk:%d:%d:e!", r2, -g.r.Intn(3)))
				if g.r.Bool() {
					g.emit(fmt.Sprintf("rr:%d:%d!", r2, 1+g.r.Intn(2)))
				}
			}
		case 1:
			g.emit(fmt.Sprintf("mt:%d:%d:%d!", n, g.r.Intn(2), 2+g.r.Intn(4)))
		case 2:
			g.emit(fmt.Sprintf("sk:%d:0:e!", r1))
			g.emit(fmt.Sprintf("sk:%d:%d:s!", r1, g.r.Intn(4)))
		case 3:
			g.emit(fmt.Sprintf("rr:%d:1!", r1))
		default:
			g.emit(fmt.Sprintf("sk:%d:%d:c!", r1, g.r.Intn(3)-1))
		}
	}
	g.emit(fmt.Sprintf("rr:%d:a", r1))
}

func (g *gen) subset(n int) {
	l := 4
	node := g.m.regs[n].n
	if node != nil && node.Kind() == datamodel.Kind_String {
		s, _ := node.AsString()
		l = len(s)
	}
	from := g.r.Intn(2*l+3) - l - 1
	to := g.r.Intn(2*l+3) - l - 1
	if g.r.Chance(40) {
		from, to = g.r.Intn(l+1), g.r.Intn(l+2)
	}
	if to >= 0 && from > to {
		from, to = to, from
	}
	q := ""
	if len(g.regsOf(rReader)) > 0 {
		q = g.quiet()
	}
	g.emit(fmt.Sprintf("mt:%d:%d:%d%s", n, from, to, q))
}

func (g *gen) transform(n, repl int) {
	node := g.m.regs[n].n
	var segs []string
	depth := g.r.Intn(4)
	for d := 0; d < depth && node != nil; d++ {
		switch node.Kind() {
		case datamodel.Kind_Map:
			var keys []string
			for it := node.MapIterator(); it != nil && !it.Done(); {
				k, _, err := it.Next()
				if err != nil {
					break
				}
				ks, _ := k.AsString()
				keys = append(keys, ks)
			}
			if len(keys) == 0 || g.r.Chance(15) {
				segs = append(segs, "s"+lib.Hex(g.pick([]string{"zz", "new", "a"})))
				node = nil
			} else {
				k := keys[g.r.Intn(len(keys))]
				segs = append(segs, "s"+lib.Hex(k))
				node, _ = node.LookupByString(k)
			}
		case datamodel.Kind_List:
			l := int(node.Length())
			if l == 0 || g.r.Chance(15) {
				segs = append(segs, fmt.Sprintf("i%d", l+g.r.Intn(2)))
				node = nil
			} else {
				i := g.r.Intn(l)
				segs = append(segs, fmt.Sprintf("i%d", i))
				node, _ = node.LookupByIndex(int64(i))
			}
		default:
			if g.r.Chance(10) {
				segs = append(segs, "s"+lib.Hex("a"))
			}
			node = nil
		}
	}
	p := "-"
	if len(segs) > 0 {
		p = strings.Join(segs, "/")
	}
	g.emit(fmt.Sprintf("tf:%d:%s:%d", n, p, repl))
}

func (g *gen) doMisuse() {
	g.misused = true
	builders := g.regsOf(rBuilder)
	var done, notDone []int
	for _, b := range builders {
		if g.sh[b].phase == 2 {
			done = append(done, b)
		} else {
			notDone = append(notDone, b)
		}
	}
	slices := g.regsOf(rSlice)
	nodes := g.regsOf(rNode)
	for try := 0; try < 20; try++ {
		switch g.r.Intn(10) {
		case 0, 1:
			if len(done) > 0 {
				b := g.anyOf(done)
				if g.r.Bool() {
					g.emit(fmt.Sprintf("bm:%d:%d", b, g.r.Intn(3)))
				} else {
					g.emit(fmt.Sprintf("bl:%d:%d", b, g.r.Intn(3)))
				}
				return
			}
		case 2, 3:
			if len(done) > 0 {
				b := g.anyOf(done)
				g.emit(fmt.Sprintf("as:%d:%s", b, g.scalarFor(g.sh[b].proto)))
				return
			}
		case 4:
			if len(done) > 0 && len(nodes) > 0 {
				g.emit(fmt.Sprintf("an:%d:%d", g.anyOf(done), g.anyOf(nodes)))
				return
			}
		case 5:
			if len(notDone) > 0 {
				g.emit(fmt.Sprintf("bu:%d", g.anyOf(notDone)))
				return
			}
		case 6, 7:
			if len(slices) > 0 {
				s := g.anyOf(slices)
				if l := len(g.m.regs[s].s); l > 0 {
					g.emit(fmt.Sprintf("cw:%d:%d:%d", s, g.r.Intn(l), g.r.Intn(256)))
					return
				}
			}
			if bs := g.nodesOfKind(datamodel.Kind_Bytes); len(bs) > 0 {
				g.emit(fmt.Sprintf("cw:%d:0:%d", g.anyOf(bs), g.r.Intn(256)))
				return
			}
		case 8:
			// a stale or out-of-order assembler call
			var asms []int
			for i, s := range g.sh {
				if s.kind == rMapAsm || s.kind == rListAsm || s.kind == rKeyAsm || s.kind == rValAsm {
					asms = append(asms, i)
				}
			}
			if len(asms) > 0 {
				a := g.anyOf(asms)
				switch g.sh[a].kind {
				case rMapAsm:
					g.emit(g.pick([]string{fmt.Sprintf("fi:%d", a), fmt.Sprintf("av:%d", a), fmt.Sprintf("ak:%d", a), fmt.Sprintf("ae:%d:%s", a, lib.Hex("q"))}))
				case rListAsm:
					g.emit(g.pick([]string{fmt.Sprintf("fi:%d", a), fmt.Sprintf("av:%d", a)}))
				default:
					g.emit(g.pick([]string{fmt.Sprintf("as:%d:s71", a), fmt.Sprintf("as:%d:i3", a), fmt.Sprintf("bm:%d:0", a), fmt.Sprintf("bl:%d:1", a)}))
				}
				return
			}
		case 9:
			// an ill-typed call: the register is not what the call needs
			if len(g.sh) > 0 {
				a := g.r.Intn(len(g.sh))
				g.emit(g.pick([]string{fmt.Sprintf("fi:%d", a), fmt.Sprintf("bu:%d", a), fmt.Sprintf("as:%d:t", a), fmt.Sprintf("lk:%d:61", a), fmt.Sprintf("ab:%d:%d", a, a)}))
				return
			}
		}
	}
	g.misused = false
}

func genScript(r *lib.Rng) string {
	g := &gen{r: r, m: &machine{firsts: map[int]string{}}}
	g.target = 10 + r.Intn(31)
	g.misuse = r.Chance(17)
	for len(g.ops) < g.target {
		ms := g.moves()
		total := 0
		for _, m := range ms {
			total += m.w
		}
		if total == 0 {
			break
		}
		x := r.Intn(total)
		for _, m := range ms {
			if x < m.w {
				m.fn()
				break
			}
			x -= m.w
		}
	}
	return strings.Join(g.ops, " ")
}
