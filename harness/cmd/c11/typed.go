package main

// The typed engines (bindnode with inferred and declared schemas, type-level and representation
// views; gendemo generated code) have no heap model: for them C11 is checked at the oracle level only.
// A case builds one node with 0-100 elements, then HOLDS every child node that iterators and lookups
// hand out (dumped at that moment), goes on iterating / looking up / copying / encoding, and re-dumps
// everything it holds in between and at the end.  Observation: "stable", or "changed:<how many>@<step>".
//
// script: typed:<engine>:<shape>:<n>:<plan>     engine = bindinf | binddecl | binddeclrepr | gendemo | basic
//   shape  = strs ints recs map nested holder (gendemo: msgmap; basic: map list nested anymap)
//   (engine basic = node/basicnode through this same hold-everything route: the nodes its iterators
//   yield — keys and values — are retained across further Next() calls and everything else the plan does)
//   plan   = letters: I iterate holding every child (checking every 16 steps)  L look every child up
//            J two iterators interleaved  C datamodel.Copy into a basicnode builder  E dag-cbor encode
//            R re-read the first child, run a fresh iterator to its end, re-read
//            K collect the key nodes of a map from one iterator, then look every retained key up (LookupByNode)
//              and compare with the lookup by the string it had when it was handed out

import (
	"bytes"
	"fmt"
	"strconv"
	"strings"

	"verifharness/lib"

	ipld "github.com/ipld/go-ipld-prime"
	"github.com/ipld/go-ipld-prime/codec/dagcbor"
	"github.com/ipld/go-ipld-prime/datamodel"
	"github.com/ipld/go-ipld-prime/node/basicnode"
	"github.com/ipld/go-ipld-prime/node/bindnode"
	"github.com/ipld/go-ipld-prime/node/gendemo"
	"github.com/ipld/go-ipld-prime/schema"
)

type tRec struct {
	Name string
	Age  int64
}
type tMap struct {
	Keys   []string
	Values map[string]int64
}
type tHolder struct {
	Recs  []tRec
	Names []string
	Nums  []int64
}
type tStrs struct{ Items []string }
type tInts struct{ Items []int64 }
type tRecs struct{ Items []tRec }
type tNested struct{ Items [][]string }

var typedTS *schema.TypeSystem

func typedSchema() *schema.TypeSystem {
	if typedTS == nil {
		ts, err := ipld.LoadSchemaBytes([]byte(`
type LStr [String]
type LInt [Int]
type Rec struct {
  Name String
  Age Int
} representation tuple
type LRec [Rec]
type MSI {String:Int}
type LL [LStr]
type Holder struct {
  Recs LRec
  Names LStr
  Nums LInt
}
`))
		if err != nil {
			panic(err)
		}
		typedTS = ts
	}
	return typedTS
}

func typedNode(engine, shape string, n int) datamodel.Node {
	strs := make([]string, n)
	ints := make([]int64, n)
	recs := make([]tRec, n)
	nested := make([][]string, n)
	m := tMap{Values: map[string]int64{}}
	for i := 0; i < n; i++ {
		strs[i] = "s" + strconv.Itoa(i)
		ints[i] = int64(i * 7)
		recs[i] = tRec{Name: "n" + strconv.Itoa(i), Age: int64(i)}
		nested[i] = []string{"a" + strconv.Itoa(i), "b" + strconv.Itoa(i)}
		m.Keys = append(m.Keys, "k"+strconv.Itoa(i))
		m.Values["k"+strconv.Itoa(i)] = int64(i)
	}
	var tn schema.TypedNode
	switch engine {
	case "bindinf":
		switch shape {
		case "strs":
			tn = bindnode.Wrap(&tStrs{strs}, nil)
		case "ints":
			tn = bindnode.Wrap(&tInts{ints}, nil)
		case "recs":
			tn = bindnode.Wrap(&tRecs{recs}, nil)
		case "nested":
			tn = bindnode.Wrap(&tNested{nested}, nil)
		default:
			tn = bindnode.Wrap(&tHolder{recs, strs, ints}, nil)
		}
		return tn
	case "binddecl", "binddeclrepr":
		ts := typedSchema()
		switch shape {
		case "strs":
			tn = bindnode.Wrap(&strs, ts.TypeByName("LStr"))
		case "ints":
			tn = bindnode.Wrap(&ints, ts.TypeByName("LInt"))
		case "recs":
			tn = bindnode.Wrap(&recs, ts.TypeByName("LRec"))
		case "map":
			tn = bindnode.Wrap(&m, ts.TypeByName("MSI"))
		case "nested":
			tn = bindnode.Wrap(&nested, ts.TypeByName("LL"))
		default:
			tn = bindnode.Wrap(&tHolder{recs, strs, ints}, ts.TypeByName("Holder"))
		}
		if engine == "binddeclrepr" {
			return tn.Representation()
		}
		return tn
	case "basic":
		proto := basicnode.Prototype.Map
		if shape == "anymap" {
			return basicAny(n)
		}
		switch shape {
		case "list":
			nb := basicnode.Prototype.List.NewBuilder()
			la, _ := nb.BeginList(int64(n))
			for i := 0; i < n; i++ {
				la.AssembleValue().AssignString("s" + strconv.Itoa(i))
			}
			la.Finish()
			return nb.Build()
		case "nested":
			nb := proto.NewBuilder()
			ma, _ := nb.BeginMap(int64(n))
			for i := 0; i < n; i++ {
				va, _ := ma.AssembleEntry("k" + strconv.Itoa(i))
				if i%2 == 0 {
					ea, _ := va.BeginMap(2)
					fa, _ := ea.AssembleEntry("a" + strconv.Itoa(i))
					fa.AssignInt(int64(i))
					fa, _ = ea.AssembleEntry("b" + strconv.Itoa(i))
					fa.AssignString("v" + strconv.Itoa(i))
					ea.Finish()
				} else {
					ea, _ := va.BeginList(2)
					ea.AssembleValue().AssignInt(int64(i))
					ea.AssembleValue().AssignString("w" + strconv.Itoa(i))
					ea.Finish()
				}
			}
			ma.Finish()
			return nb.Build()
		default:
			nb := proto.NewBuilder()
			ma, _ := nb.BeginMap(int64(n))
			for i := 0; i < n; i++ {
				// key assembler route for every other entry
				if i%2 == 0 {
					va, _ := ma.AssembleEntry("k" + strconv.Itoa(i))
					va.AssignInt(int64(i))
				} else {
					ma.AssembleKey().AssignString("k" + strconv.Itoa(i))
					ma.AssembleValue().AssignInt(int64(i))
				}
			}
			ma.Finish()
			return nb.Build()
		}
	case "gendemo":
		nb := gendemo.Type.Map__String__Msg3.NewBuilder()
		ma, _ := nb.BeginMap(int64(n))
		for i := 0; i < n; i++ {
			va, _ := ma.AssembleEntry("k" + strconv.Itoa(i))
			ea, _ := va.BeginMap(3)
			for j, f := range []string{"whee", "woot", "waga"} {
				fa, _ := ea.AssembleEntry(f)
				fa.AssignInt(int64(i*3 + j))
			}
			ea.Finish()
		}
		ma.Finish()
		return nb.Build()
	}
	panic("engine " + engine)
}

// a map built through Prototype.Any (decoded from dag-cbor), maps nested in it
func basicAny(n int) datamodel.Node {
	src := basicnode.Prototype.Map.NewBuilder()
	ma, _ := src.BeginMap(int64(n))
	for i := 0; i < n; i++ {
		va, _ := ma.AssembleEntry("k" + strconv.Itoa(i))
		ea, _ := va.BeginMap(1)
		fa, _ := ea.AssembleEntry("in" + strconv.Itoa(i))
		fa.AssignInt(int64(i))
		ea.Finish()
	}
	ma.Finish()
	var buf bytes.Buffer
	if err := dagcbor.Encode(src.Build(), &buf); err != nil {
		panic(err)
	}
	nb := basicnode.Prototype.Any.NewBuilder()
	if err := dagcbor.Decode(nb, &buf); err != nil {
		panic(err)
	}
	return nb.Build()
}

type heldNode struct {
	n     datamodel.Node
	first string
}

type typedRun struct {
	held    []heldNode
	changed int
	where   string
}

func (t *typedRun) hold(n datamodel.Node) {
	if n == nil {
		return
	}
	t.held = append(t.held, heldNode{n, lib.Dump(n)})
}

func (t *typedRun) check(step string) {
	c := 0
	for _, h := range t.held {
		if lib.Dump(h.n) != h.first {
			c++
		}
	}
	if c > 0 && t.changed == 0 {
		t.changed, t.where = c, step
	}
}

// the containers below n (n itself, and the children that are containers, one level)
func containers(n datamodel.Node) []datamodel.Node {
	out := []datamodel.Node{n}
	if n.Kind() == datamodel.Kind_Map {
		for it := n.MapIterator(); it != nil && !it.Done(); {
			_, v, err := it.Next()
			if err != nil {
				break
			}
			if v != nil && (v.Kind() == datamodel.Kind_List || v.Kind() == datamodel.Kind_Map) && len(out) < 4 {
				out = append(out, v)
			}
		}
	}
	return out
}

func (t *typedRun) iterate(c datamodel.Node, step string) {
	i := 0
	switch c.Kind() {
	case datamodel.Kind_List:
		for it := c.ListIterator(); it != nil && !it.Done(); i++ {
			_, v, err := it.Next()
			if err != nil {
				break
			}
			t.hold(v)
			if i%16 == 15 {
				t.check(step)
			}
		}
	case datamodel.Kind_Map:
		for it := c.MapIterator(); it != nil && !it.Done(); i++ {
			k, v, err := it.Next()
			if err != nil {
				break
			}
			t.hold(k)
			t.hold(v)
			if i%16 == 15 {
				t.check(step)
			}
		}
	}
	t.check(step)
}

func runTyped(script string) (obs string) {
	defer func() {
		if r := recover(); r != nil {
			obs = "panic"
		}
	}()
	f := strings.Split(script, ":")
	n, _ := strconv.Atoi(f[3])
	root := typedNode(f[1], f[2], n)
	t := &typedRun{}
	t.hold(root)
	cs := containers(root)
	for si, a := range f[4] {
		step := fmt.Sprintf("%c%d", a, si)
		for _, c := range cs {
			switch a {
			case 'I':
				t.iterate(c, step)
			case 'L':
				switch c.Kind() {
				case datamodel.Kind_List:
					for i := int64(0); i < c.Length(); i++ {
						v, err := c.LookupByIndex(i)
						if err == nil {
							t.hold(v)
						}
					}
				case datamodel.Kind_Map:
					for it := c.MapIterator(); it != nil && !it.Done(); {
						k, _, err := it.Next()
						if err != nil {
							break
						}
						if ks, e := k.AsString(); e == nil {
							if v, e := c.LookupByString(ks); e == nil {
								t.hold(v)
							}
						}
					}
				}
				t.check(step)
			case 'J':
				if c.Kind() == datamodel.Kind_List {
					a1, a2 := c.ListIterator(), c.ListIterator()
					for !a1.Done() {
						_, v, _ := a1.Next()
						t.hold(v)
						if !a2.Done() {
							a2.Next()
						}
						if !a2.Done() {
							_, v2, _ := a2.Next()
							t.hold(v2)
						}
					}
				}
				t.check(step)
			case 'C':
				nb := basicnode.Prototype.Any.NewBuilder()
				if err := datamodel.Copy(c, nb); err == nil {
					t.hold(nb.Build())
				}
				t.check(step)
			case 'E':
				var buf bytes.Buffer
				dagcbor.Encode(c, &buf)
				t.check(step)
			case 'K':
				if c.Kind() == datamodel.Kind_Map {
					var ks []datamodel.Node
					var strs []string
					for it := c.MapIterator(); it != nil && !it.Done(); {
						k, _, err := it.Next()
						if err != nil {
							break
						}
						str, _ := k.AsString()
						ks, strs = append(ks, k), append(strs, str)
						t.hold(k)
					}
					bad := 0
					for i, k := range ks {
						v1, e1 := c.LookupByNode(k)
						v2, e2 := c.LookupByString(strs[i])
						if (e1 == nil) != (e2 == nil) || (e1 == nil && lib.Dump(v1) != lib.Dump(v2)) {
							bad++
						}
						if e1 == nil {
							t.hold(v1)
						}
					}
					if bad > 0 && t.changed == 0 {
						t.changed, t.where = bad, step
					}
				}
				t.check(step)
			case 'R':
				if c.Kind() == datamodel.Kind_List && c.Length() > 0 {
					it := c.ListIterator()
					_, first, _ := it.Next()
					t.hold(first)
					for !it.Done() {
						it.Next()
					}
				}
				t.check(step)
			}
		}
	}
	t.check("end")
	if t.changed > 0 {
		return fmt.Sprintf("changed:%d@%s", t.changed, t.where)
	}
	return "stable"
}

var typedCorpus = []string{
	"typed:binddecl:strs:40:RIL", "typed:binddecl:recs:70:ICI", "typed:bindinf:strs:33:IJ", "typed:binddeclrepr:recs:65:CIE",
	"typed:gendemo:msgmap:50:ILC", "typed:binddecl:map:100:IL", "typed:bindinf:holder:34:IRC", "typed:binddecl:nested:36:IJL",
	"typed:basic:map:5:IKC", "typed:basic:nested:40:KIL", "typed:basic:anymap:17:IK", "typed:basic:list:33:IJR", "typed:basic:map:2:K",
	"typed:binddecl:map:9:KI", "typed:gendemo:msgmap:7:KIE",
}

var typedEngines = []string{"bindinf", "binddecl", "binddeclrepr", "gendemo", "basic", "basic"}
var typedShapes = map[string][]string{
	"bindinf":      {"strs", "ints", "recs", "nested", "holder"},
	"binddecl":     {"strs", "ints", "recs", "map", "nested", "holder"},
	"binddeclrepr": {"strs", "ints", "recs", "map", "nested", "holder"},
	"gendemo":      {"msgmap"},
	"basic":        {"map", "list", "nested", "anymap"},
}

func genTyped(r *lib.Rng) string {
	e := typedEngines[r.Intn(len(typedEngines))]
	sh := typedShapes[e][r.Intn(len(typedShapes[e]))]
	n := []int{0, 1, 2, 31, 32, 33, 34, 64, 65, 100}[r.Intn(10)]
	if r.Chance(40) {
		n = r.Intn(101)
	}
	plan := ""
	for i, k := 0, 2+r.Intn(4); i < k; i++ {
		plan += string("IILJCERK"[r.Intn(8)])
	}
	return fmt.Sprintf("typed:%s:%s:%d:%s", e, sh, n, plan)
}
