// c11: a finished node never changes; reads are repeatable.
//
// A case is a history ("script") of at most 40 API calls over several builders, assemblers, nodes
// and caller-held byte slices.  Every step appends one register (the handle the call returned, or
// none).  After EVERY step every node register is dumped twice through the public node API (every
// accessor of every node below it) and compared with its first dump.
//
// record: id \t script \t observation          (first record: id \t probe \t full|empty)
// script: ops separated by ' ', fields by ':'
//
//	nb:<proto>            proto.NewBuilder()          proto = any map list bool int float string link bytes
//	bm:<h>:<hint>  bl:…   BeginMap / BeginList on a builder or value assembler
//	ae:<h>:<keyhex>  ak:<h>  av:<h>   AssembleEntry / AssembleKey / AssembleValue
//	as:<h>:<tok>          Assign{Null,Bool,Int,Float,String,Link}   tok = n t f i<hex> d<hex> s<hex> l<hex>
//	ab:<h>:<s>            AssignBytes(slice register s)      an:<h>:<n>  AssignNode(node register n)
//	fi:<h>  bu:<h>  rs:<h>   Finish / Build / Reset
//	sl:<hex>              the caller makes a []byte          nby:<s> basicnode.NewBytes(s)
//	nst:<s>               basicnode.NewBytesFromReader(bytes.NewReader(s))
//	ns:<tok>              basicnode.NewX(value) / datamodel.Null      fo:<val> a node of another implementation
//	mk:<producer>:<val>   a whole value from a producer: asm (builder calls), cbor, json (decoders)
//	cp:<n>:<proto>        datamodel.Copy(n, proto.NewBuilder()); Build
//	lk:<n>:<keyhex>  li:<n>:<idx>     LookupByString / LookupByIndex (the child becomes a register)
//	mt:<n>:<from>:<to>    walk n with the selector Matcher{subset[from,to)}; the matched node
//	tf:<n>:<path>:<r>     traversal.FocusedTransform(n, path, replace-by r)    path = s<hex>|i<idx> joined by '/', or -
//	en:<n>                dagcbor.Encode(n)            wk:<n>  walk n visiting every node
//	cw:<s>:<i>:<byte>     the caller writes s[i] (excluded by the property; vacuous afterwards)
//	lb:<n>                n.(LargeBytesNode).AsLargeBytes(): the reader becomes a register and stays alive
//	rr:<r>:<k|a>          read up to k bytes (a: io.ReadAll) from reader register r   → outcome d:<hex>
//	sk:<r>:<off>:<s|c|e>  r.Seek(off, io.SeekStart|SeekCurrent|SeekEnd)              → outcome p:<pos>
//	<op>!                 any op with a trailing '!': the re-dump of all nodes after this step is skipped
//
// observation: steps separated by '|'; step = outcome{;item}; outcome = ok e:<class> panic nonode cnt<n> badreg;
// items: <i>=<dump> first dump of register i (<i>~<dump> if it contains a streamBytes), c<i>=<dump> register i
// dumps differently now, r<i> the two dumps taken at this step differ.
package main

import (
	"bytes"
	"errors"
	"fmt"
	"io"
	"math"
	"math/big"
	"strconv"
	"strings"

	"verifharness/lib"

	cid "github.com/ipfs/go-cid"
	"github.com/ipld/go-ipld-prime/codec/dagcbor"
	"github.com/ipld/go-ipld-prime/codec/dagjson"
	"github.com/ipld/go-ipld-prime/datamodel"
	cidlink "github.com/ipld/go-ipld-prime/linking/cid"
	"github.com/ipld/go-ipld-prime/node/basicnode"
	"github.com/ipld/go-ipld-prime/traversal"
	"github.com/ipld/go-ipld-prime/traversal/selector"
	"github.com/ipld/go-ipld-prime/traversal/selector/builder"
)

type rkind int

const (
	rNone rkind = iota
	rBuilder
	rMapAsm
	rListAsm
	rKeyAsm
	rValAsm
	rNode
	rSlice
	rReader
)

type reg struct {
	k  rkind
	nb datamodel.NodeBuilder
	ma datamodel.MapAssembler
	la datamodel.ListAssembler
	na datamodel.NodeAssembler
	n  datamodel.Node
	s  []byte
	rd io.ReadSeeker
}

type machine struct {
	regs   []reg
	firsts map[int]string
	held   map[int][]keptNode // per node register: the nodes iterators yielded during its first dump
}

func errClass(err error) string {
	if err == nil {
		return "ok"
	}
	if lib.IsPanic(err) {
		return "panic"
	}
	var wk datamodel.ErrWrongKind
	if errors.As(err, &wk) {
		return "e:wrong_kind"
	}
	var rk datamodel.ErrRepeatedMapKey
	if errors.As(err, &rk) {
		return "e:repeated_key"
	}
	var ne datamodel.ErrNotExists
	if errors.As(err, &ne) {
		return "e:not_exists"
	}
	return "e:other"
}

// ---------------------------------------------------------------- dumping

func kindLetter(n datamodel.Node, err error) byte {
	if err != nil || n == nil {
		return 'x'
	}
	switch n.Kind() {
	case datamodel.Kind_Null:
		return 'n'
	case datamodel.Kind_Bool:
		return 'b'
	case datamodel.Kind_Int:
		return 'i'
	case datamodel.Kind_Float:
		return 'd'
	case datamodel.Kind_String:
		return 's'
	case datamodel.Kind_Bytes:
		return 'y'
	case datamodel.Kind_Link:
		return 'l'
	case datamodel.Kind_List:
		return 'a'
	case datamodel.Kind_Map:
		return 'm'
	}
	return 'x'
}

// looked up in every map on every dump, present or not (the model's probe_keys)
var probeKeys = []string{"a", "b", "c", "k", "", "0", "1", "ab", "key", "z", "q", "new"}

// Nodes handed out by iterators are handed-out nodes: the dumper RETAINS every key and value an
// iterator yields, reads what it needs at that moment (as before), and after the iteration re-reads
// the retained nodes and looks the retained keys up again (LookupByNode).  [col] collects the
// retained nodes of a register's first dump (re-read after every later step) and any fault seen.
type keptNode struct {
	n    datamodel.Node
	text string
}
type collector struct {
	on    bool // keep the retained nodes (first dump of a register)
	held  []keptNode
	fault bool // a retained node read differently after further Next() calls
}

var col *collector

// shallow: what a node says about itself without descending (and without reading byte streams)
func shallow(n datamodel.Node) (out string) {
	defer func() {
		if r := recover(); r != nil {
			out = "!panic"
		}
	}()
	if n == nil {
		return "!nil"
	}
	switch n.Kind() {
	case datamodel.Kind_Null:
		return "n"
	case datamodel.Kind_Bool:
		b, err := n.AsBool()
		return fmt.Sprint("b", b, err != nil)
	case datamodel.Kind_Int:
		i, err := n.AsInt()
		return fmt.Sprint("i", i, err != nil)
	case datamodel.Kind_Float:
		f, err := n.AsFloat()
		return fmt.Sprint("d", math.Float64bits(f), err != nil)
	case datamodel.Kind_String:
		s, err := n.AsString()
		return fmt.Sprint("s", lib.Hex(s), err != nil)
	case datamodel.Kind_Link:
		l, err := n.AsLink()
		if err != nil || l == nil {
			return "l!"
		}
		return "l" + lib.Hex(l.Binary())
	case datamodel.Kind_Bytes:
		return "y"
	case datamodel.Kind_List:
		return fmt.Sprint("a", n.Length())
	case datamodel.Kind_Map:
		return fmt.Sprint("m", n.Length())
	}
	return "x"
}

func retain(n datamodel.Node, text string) {
	if col != nil && col.on {
		col.held = append(col.held, keptNode{n, text})
	}
}

func fault() {
	if col != nil {
		col.fault = true
	}
}

func tok(sb *strings.Builder, s string) {
	if sb.Len() > 0 {
		sb.WriteByte(',')
	}
	sb.WriteString(s)
}

// dump reads every accessor of every node below n, in the order the model's [dump] does.
func dump(sb *strings.Builder, n datamodel.Node, depth int) {
	if depth > 40 {
		tok(sb, "!0")
		return
	}
	if n == nil {
		tok(sb, "!1")
		return
	}
	switch n.Kind() {
	case datamodel.Kind_Null:
		tok(sb, "n")
	case datamodel.Kind_Bool:
		b, err := n.AsBool()
		if err != nil {
			tok(sb, "!5")
		} else if b {
			tok(sb, "t")
		} else {
			tok(sb, "f")
		}
	case datamodel.Kind_Int:
		i, err := n.AsInt()
		if err != nil {
			tok(sb, "!5")
		} else {
			tok(sb, "i"+big.NewInt(i).Text(16))
		}
	case datamodel.Kind_Float:
		f, err := n.AsFloat()
		if err != nil {
			tok(sb, "!5")
		} else {
			tok(sb, "d"+strconv.FormatUint(math.Float64bits(f), 16))
		}
	case datamodel.Kind_String:
		s, err := n.AsString()
		if err != nil {
			tok(sb, "!5")
		} else {
			tok(sb, "s"+lib.Hex(s))
		}
	case datamodel.Kind_Link:
		l, err := n.AsLink()
		if err != nil || l == nil {
			tok(sb, "!5")
		} else {
			tok(sb, "l"+lib.Hex(l.Binary()))
		}
	case datamodel.Kind_Bytes:
		b, err := n.AsBytes()
		large := ""
		if lbn, ok := n.(datamodel.LargeBytesNode); ok {
			if rd, lerr := lbn.AsLargeBytes(); lerr == nil {
				all, _ := io.ReadAll(rd)
				large = "/" + lib.Hex(string(all))
			}
		}
		if err != nil {
			tok(sb, "!2")
		} else {
			tok(sb, "b"+lib.Hex(string(b))+large)
		}
	case datamodel.Kind_List:
		tok(sb, fmt.Sprintf("a%d", n.Length()))
		it := n.ListIterator()
		cnt := 0
		var vals []keptNode
		for it != nil && !it.Done() {
			_, v, err := it.Next()
			if err != nil {
				break
			}
			vals = append(vals, keptNode{v, shallow(v)})
			dump(sb, v, depth+1)
			cnt++
		}
		for _, h := range vals { // the retained values after the iterator has run to its end
			if shallow(h.n) != h.text {
				fault()
			}
			retain(h.n, h.text)
		}
		ks := make([]byte, cnt)
		for i := 0; i < cnt; i++ {
			ks[i] = kindLetter(n.LookupByIndex(int64(i)))
		}
		tok(sb, "?"+string(ks))
	case datamodel.Kind_Map:
		tok(sb, fmt.Sprintf("m%d", n.Length()))
		it := n.MapIterator()
		var keys []string
		var knodes, vals []keptNode
		for it != nil && !it.Done() {
			k, v, err := it.Next()
			if err != nil {
				break
			}
			ks, _ := k.AsString()
			keys = append(keys, ks)
			knodes = append(knodes, keptNode{k, shallow(k)})
			vals = append(vals, keptNode{v, shallow(v)})
			tok(sb, "k"+lib.Hex(ks))
			dump(sb, v, depth+1)
		}
		ks := make([]byte, len(keys))
		for i, k := range keys {
			ks[i] = kindLetter(n.LookupByString(k))
			// the retained key and value nodes after the iterator has run to its end: they read as they
			// did when they were handed out, and the retained key still finds its own entry
			if shallow(knodes[i].n) != knodes[i].text || shallow(vals[i].n) != vals[i].text {
				fault()
			}
			if kindLetter(n.LookupByNode(knodes[i].n)) != ks[i] {
				fault()
			} else if v2, err := n.LookupByNode(knodes[i].n); err == nil && shallow(v2) != vals[i].text {
				fault()
			}
			retain(knodes[i].n, knodes[i].text)
			retain(vals[i].n, vals[i].text)
		}
		ps := make([]byte, len(probeKeys))
		for i, k := range probeKeys {
			ps[i] = kindLetter(n.LookupByString(k))
		}
		tok(sb, "?"+string(ks)+"/"+string(ps))
	default:
		tok(sb, "!1")
	}
}

func dumpText(n datamodel.Node) (s string) {
	defer func() {
		if r := recover(); r != nil {
			s = "!panic"
		}
	}()
	var sb strings.Builder
	dump(&sb, n, 0)
	return sb.String()
}

// hasStream: does the node contain a basicnode.streamBytes (by type name; reads no bytes)
func hasStream(n datamodel.Node, depth int) bool {
	if n == nil || depth > 40 {
		return false
	}
	switch n.Kind() {
	case datamodel.Kind_Bytes:
		return fmt.Sprintf("%T", n) == "basicnode.streamBytes"
	case datamodel.Kind_List:
		for it := n.ListIterator(); it != nil && !it.Done(); {
			_, v, err := it.Next()
			if err != nil {
				return false
			}
			if hasStream(v, depth+1) {
				return true
			}
		}
	case datamodel.Kind_Map:
		for it := n.MapIterator(); it != nil && !it.Done(); {
			_, v, err := it.Next()
			if err != nil {
				return false
			}
			if hasStream(v, depth+1) {
				return true
			}
		}
	}
	return false
}

// ---------------------------------------------------------------- executing one op

func protoBuilder(p string) datamodel.NodeBuilder {
	switch p {
	case "any":
		return basicnode.Prototype.Any.NewBuilder()
	case "map":
		return basicnode.Prototype.Map.NewBuilder()
	case "list":
		return basicnode.Prototype.List.NewBuilder()
	case "bool":
		return basicnode.Prototype.Bool.NewBuilder()
	case "int":
		return basicnode.Prototype.Int.NewBuilder()
	case "float":
		return basicnode.Prototype.Float.NewBuilder()
	case "string":
		return basicnode.Prototype.String.NewBuilder()
	case "link":
		return basicnode.Prototype.Link.NewBuilder()
	case "bytes":
		return basicnode.Prototype.Bytes.NewBuilder()
	}
	panic("proto " + p)
}

func mkLink(bin string) datamodel.Link {
	c, err := cid.Cast([]byte(bin))
	if err != nil {
		panic(err)
	}
	return cidlink.Link{Cid: c}
}

func assignTok(na datamodel.NodeAssembler, t string) error {
	body := t[1:]
	switch t[0] {
	case 'n':
		return na.AssignNull()
	case 't':
		return na.AssignBool(true)
	case 'f':
		return na.AssignBool(false)
	case 'i':
		i, _ := new(big.Int).SetString(body, 16)
		return na.AssignInt(i.Int64())
	case 'd':
		b, _ := strconv.ParseUint(body, 16, 64)
		return na.AssignFloat(math.Float64frombits(b))
	case 's':
		return na.AssignString(lib.UnHex(body))
	case 'l':
		return na.AssignLink(mkLink(lib.UnHex(body)))
	}
	panic("tok " + t)
}

func scalarNode(t string) datamodel.Node {
	body := t[1:]
	switch t[0] {
	case 'n':
		return datamodel.Null
	case 't':
		return basicnode.NewBool(true)
	case 'f':
		return basicnode.NewBool(false)
	case 'i':
		i, _ := new(big.Int).SetString(body, 16)
		return basicnode.NewInt(i.Int64())
	case 'd':
		b, _ := strconv.ParseUint(body, 16, 64)
		return basicnode.NewFloat(math.Float64frombits(b))
	case 's':
		return basicnode.NewString(lib.UnHex(body))
	case 'l':
		return basicnode.NewLink(mkLink(lib.UnHex(body)))
	}
	panic("tok " + t)
}

func valOf(s string) *lib.Val {
	v, err := lib.ParseVal(strings.ReplaceAll(s, ",", " "))
	if err != nil {
		panic(err)
	}
	return v
}

func valText(v *lib.Val) string { return strings.ReplaceAll(v.Text(), " ", ",") }

func produce(producer string, v *lib.Val) (datamodel.Node, error) {
	switch producer {
	case "asm":
		return lib.BuildBasic(v)
	case "cbor":
		n, err := lib.BuildBasic(v)
		if err != nil {
			return nil, err
		}
		var buf bytes.Buffer
		if err := dagcbor.Encode(n, &buf); err != nil {
			return nil, err
		}
		nb := basicnode.Prototype.Any.NewBuilder()
		if err := dagcbor.Decode(nb, &buf); err != nil {
			return nil, err
		}
		return nb.Build(), nil
	case "json":
		n, err := lib.BuildBasic(v)
		if err != nil {
			return nil, err
		}
		var buf bytes.Buffer
		if err := dagjson.Encode(n, &buf); err != nil {
			return nil, err
		}
		nb := basicnode.Prototype.Any.NewBuilder()
		if err := dagjson.Decode(nb, &buf); err != nil {
			return nil, err
		}
		return nb.Build(), nil
	}
	panic("producer " + producer)
}

func pathOf(s string) datamodel.Path {
	if s == "-" {
		return datamodel.NewPath(nil)
	}
	var segs []datamodel.PathSegment
	for _, t := range strings.Split(s, "/") {
		if t[0] == 's' {
			segs = append(segs, datamodel.PathSegmentOfString(lib.UnHex(t[1:])))
		} else {
			i, _ := strconv.Atoi(t[1:])
			segs = append(segs, datamodel.PathSegmentOfInt(int64(i)))
		}
	}
	return datamodel.NewPath(segs)
}

var ssb = builder.NewSelectorSpecBuilder(basicnode.Prototype.Any)
var selAll = func() selector.Selector {
	s, err := selector.CompileSelector(ssb.ExploreRecursive(selector.RecursionLimitNone(),
		ssb.ExploreUnion(ssb.Matcher(), ssb.ExploreAll(ssb.ExploreRecursiveEdge()))).Node())
	if err != nil {
		panic(err)
	}
	return s
}()

func atoi(s string) int {
	i, err := strconv.Atoi(s)
	if err != nil {
		panic(err)
	}
	return i
}

func (m *machine) get(i int) reg {
	if i < 0 || i >= len(m.regs) {
		return reg{}
	}
	return m.regs[i]
}

// asm returns the NodeAssembler view of a register (builder, key or value assembler)
func asm(r reg) datamodel.NodeAssembler {
	switch r.k {
	case rBuilder:
		return r.nb
	case rKeyAsm, rValAsm:
		return r.na
	}
	return nil
}

// exec runs one op against the real library; returns the outcome and the new register
func (m *machine) exec(op string) (out string, nr reg) {
	f := strings.Split(op, ":")
	misuse := func() (string, reg) { return "panic", reg{} } // the call cannot even be made: the model panics too
	var err error
	switch f[0] {
	case "nb":
		return "ok", reg{k: rBuilder, nb: protoBuilder(f[1])}
	case "bm":
		na := asm(m.get(atoi(f[1])))
		if na == nil {
			return misuse()
		}
		var ma datamodel.MapAssembler
		err = lib.Safely(func() error { var e error; ma, e = na.BeginMap(int64(atoi(f[2]))); return e })
		if err == nil {
			nr = reg{k: rMapAsm, ma: ma}
		}
	case "bl":
		na := asm(m.get(atoi(f[1])))
		if na == nil {
			return misuse()
		}
		var la datamodel.ListAssembler
		err = lib.Safely(func() error { var e error; la, e = na.BeginList(int64(atoi(f[2]))); return e })
		if err == nil {
			nr = reg{k: rListAsm, la: la}
		}
	case "ae":
		r := m.get(atoi(f[1]))
		if r.k != rMapAsm {
			return misuse()
		}
		var va datamodel.NodeAssembler
		err = lib.Safely(func() error { var e error; va, e = r.ma.AssembleEntry(lib.UnHex(f[2])); return e })
		if err == nil {
			nr = reg{k: rValAsm, na: va}
		}
	case "ak":
		r := m.get(atoi(f[1]))
		if r.k != rMapAsm {
			return misuse()
		}
		var ka datamodel.NodeAssembler
		err = lib.Safely(func() error { ka = r.ma.AssembleKey(); return nil })
		if err == nil {
			nr = reg{k: rKeyAsm, na: ka}
		}
	case "av":
		r := m.get(atoi(f[1]))
		var va datamodel.NodeAssembler
		switch r.k {
		case rMapAsm:
			err = lib.Safely(func() error { va = r.ma.AssembleValue(); return nil })
		case rListAsm:
			err = lib.Safely(func() error { va = r.la.AssembleValue(); return nil })
		default:
			return misuse()
		}
		if err == nil {
			nr = reg{k: rValAsm, na: va}
		}
	case "as":
		na := asm(m.get(atoi(f[1])))
		if na == nil {
			return misuse()
		}
		err = lib.Safely(func() error { return assignTok(na, f[2]) })
	case "ab":
		s := m.get(atoi(f[2]))
		var sl []byte
		switch {
		case s.k == rSlice:
			sl = s.s
		case s.k == rNode && s.n != nil && fmt.Sprintf("%T", s.n) == "*basicnode.plainBytes" || s.k == rNode && s.n != nil && fmt.Sprintf("%T", s.n) == "basicnode.plainBytes":
			sl, _ = s.n.AsBytes() // the slice the node hands back
		default:
			return misuse()
		}
		na := asm(m.get(atoi(f[1])))
		if na == nil {
			return misuse()
		}
		err = lib.Safely(func() error { return na.AssignBytes(sl) })
	case "an":
		n := m.get(atoi(f[2]))
		if n.k != rNode {
			return misuse()
		}
		na := asm(m.get(atoi(f[1])))
		if na == nil {
			return misuse()
		}
		err = lib.Safely(func() error { return na.AssignNode(n.n) })
	case "fi":
		r := m.get(atoi(f[1]))
		switch r.k {
		case rMapAsm:
			err = lib.Safely(func() error { return r.ma.Finish() })
		case rListAsm:
			err = lib.Safely(func() error { return r.la.Finish() })
		default:
			return misuse()
		}
	case "bu":
		r := m.get(atoi(f[1]))
		if r.k != rBuilder {
			return misuse()
		}
		var n datamodel.Node
		err = lib.Safely(func() error { n = r.nb.Build(); return nil })
		if err == nil {
			nr = reg{k: rNode, n: n}
		}
	case "rs":
		r := m.get(atoi(f[1]))
		if r.k != rBuilder {
			return misuse()
		}
		err = lib.Safely(func() error { r.nb.Reset(); return nil })
	case "sl":
		return "ok", reg{k: rSlice, s: []byte(lib.UnHex(f[1]))}
	case "nby", "nst":
		s := m.get(atoi(f[1]))
		var sl []byte
		switch {
		case s.k == rSlice:
			sl = s.s
		case s.k == rNode && s.n != nil && (fmt.Sprintf("%T", s.n) == "*basicnode.plainBytes" || fmt.Sprintf("%T", s.n) == "basicnode.plainBytes"):
			sl, _ = s.n.AsBytes()
		default:
			return misuse()
		}
		if f[0] == "nby" {
			return "ok", reg{k: rNode, n: basicnode.NewBytes(sl)}
		}
		return "ok", reg{k: rNode, n: basicnode.NewBytesFromReader(bytes.NewReader(sl))}
	case "ns":
		return "ok", reg{k: rNode, n: scalarNode(f[1])}
	case "fo":
		return "ok", reg{k: rNode, n: lib.Foreign(valOf(f[1]))}
	case "mk":
		var n datamodel.Node
		err = lib.Safely(func() error { var e error; n, e = produce(f[1], valOf(f[2])); return e })
		if err == nil {
			nr = reg{k: rNode, n: n}
		}
	case "cp":
		r := m.get(atoi(f[1]))
		if r.k != rNode {
			return "badreg", reg{}
		}
		var n datamodel.Node
		err = lib.Safely(func() error {
			nb := protoBuilder(f[2])
			if e := datamodel.Copy(r.n, nb); e != nil {
				return e
			}
			n = nb.Build()
			return nil
		})
		if err == nil {
			nr = reg{k: rNode, n: n}
		}
	case "lk", "li":
		r := m.get(atoi(f[1]))
		if r.k != rNode {
			return "badreg", reg{}
		}
		var n datamodel.Node
		err = lib.Safely(func() error {
			var e error
			if f[0] == "lk" {
				n, e = r.n.LookupByString(lib.UnHex(f[2]))
			} else {
				n, e = r.n.LookupByIndex(int64(atoi(f[2])))
			}
			return e
		})
		if err == nil {
			nr = reg{k: rNode, n: n}
		}
	case "mt":
		r := m.get(atoi(f[1]))
		if r.k != rNode {
			return "badreg", reg{}
		}
		var got datamodel.Node
		err = lib.Safely(func() error {
			sel, e := selector.CompileSelector(ssb.MatcherSubset(int64(atoi(f[2])), int64(atoi(f[3]))).Node())
			if e != nil {
				return e
			}
			return traversal.WalkAdv(r.n, sel, func(_ traversal.Progress, n datamodel.Node, why traversal.VisitReason) error {
				if why == traversal.VisitReason_SelectionMatch {
					got = n
				}
				return nil
			})
		})
		if err == nil {
			if got == nil {
				return "nonode", reg{}
			}
			nr = reg{k: rNode, n: got}
		}
	case "tf":
		r, x := m.get(atoi(f[1])), m.get(atoi(f[3]))
		if r.k != rNode || x.k != rNode {
			return "badreg", reg{}
		}
		var n datamodel.Node
		err = lib.Safely(func() error {
			var e error
			n, e = traversal.FocusedTransform(r.n, pathOf(f[2]), func(traversal.Progress, datamodel.Node) (datamodel.Node, error) {
				return x.n, nil
			}, false)
			return e
		})
		if err == nil {
			nr = reg{k: rNode, n: n}
		}
	case "en":
		r := m.get(atoi(f[1]))
		if r.k != rNode {
			return "badreg", reg{}
		}
		err = lib.Safely(func() error { var buf bytes.Buffer; return dagcbor.Encode(r.n, &buf) })
		if err != nil && !lib.IsPanic(err) {
			return "e:other", reg{}
		}
	case "wk":
		r := m.get(atoi(f[1]))
		if r.k != rNode {
			return "badreg", reg{}
		}
		cnt := 0
		err = lib.Safely(func() error {
			return traversal.WalkMatching(r.n, selAll, func(traversal.Progress, datamodel.Node) error { cnt++; return nil })
		})
		if err == nil {
			return fmt.Sprintf("cnt%d", cnt), reg{}
		}
	case "lb":
		r := m.get(atoi(f[1]))
		if r.k != rNode || r.n == nil {
			return misuse()
		}
		lbn, ok := r.n.(datamodel.LargeBytesNode)
		if !ok {
			return "e:wrong_kind", reg{}
		}
		var rd io.ReadSeeker
		err = lib.Safely(func() error { var e error; rd, e = lbn.AsLargeBytes(); return e })
		if err == nil {
			nr = reg{k: rReader, rd: rd}
		}
	case "rr":
		r := m.get(atoi(f[1]))
		if r.k != rReader {
			return misuse()
		}
		var data []byte
		err = lib.Safely(func() error {
			if f[2] == "a" {
				var e error
				data, e = io.ReadAll(r.rd)
				return e
			}
			buf := make([]byte, atoi(f[2]))
			k, e := io.ReadFull(r.rd, buf)
			data = buf[:k]
			if e == io.EOF || e == io.ErrUnexpectedEOF {
				e = nil
			}
			return e
		})
		if err == nil {
			return "d:" + lib.Hex(string(data)), reg{}
		}
	case "sk":
		r := m.get(atoi(f[1]))
		if r.k != rReader {
			return misuse()
		}
		wh := map[string]int{"s": io.SeekStart, "c": io.SeekCurrent, "e": io.SeekEnd}[f[3]]
		var pos int64
		err = lib.Safely(func() error { var e error; pos, e = r.rd.Seek(int64(atoi(f[2])), wh); return e })
		if err == nil {
			return fmt.Sprintf("p:%d", pos), reg{}
		}
	case "cw":
		s := m.get(atoi(f[1]))
		var sl []byte
		switch {
		case s.k == rSlice:
			sl = s.s
		case s.k == rNode && s.n != nil && (fmt.Sprintf("%T", s.n) == "*basicnode.plainBytes" || fmt.Sprintf("%T", s.n) == "basicnode.plainBytes"):
			sl, _ = s.n.AsBytes()
		default:
			return misuse()
		}
		i := atoi(f[2])
		if i >= len(sl) {
			return "panic", reg{}
		}
		sl[i] = byte(atoi(f[3]))
	default:
		panic("bad op " + op)
	}
	if err != nil {
		return errClass(err), reg{}
	}
	return "ok", nr
}

func (m *machine) step(op string) string {
	// an op ending in '!' is not followed by the re-dump of all nodes (so that reader-level calls can
	// be interleaved with nothing — no AsBytes of the dumper — in between)
	quiet := strings.HasSuffix(op, "!")
	op = strings.TrimSuffix(op, "!")
	out, nr := m.exec(op)
	m.regs = append(m.regs, nr)
	var sb strings.Builder
	sb.WriteString(out)
	if quiet {
		return sb.String()
	}
	var tail strings.Builder // retention faults, after everything the model predicts
	for i, r := range m.regs {
		if r.k != rNode {
			continue
		}
		_, seen := m.firsts[i]
		col = &collector{on: !seen}
		d1 := dumpText(r.n)
		c1 := col
		col = &collector{}
		d2 := dumpText(r.n)
		kfault := c1.fault || col.fault
		col = nil
		if first, ok := m.firsts[i]; !ok {
			m.firsts[i] = d1
			m.held[i] = c1.held
			c := '='
			if hasStream(r.n, 0) {
				c = '~'
			}
			fmt.Fprintf(&sb, ";%d%c%s", i, c, d1)
		} else if first != d1 {
			fmt.Fprintf(&sb, ";c%d=%s", i, d1)
		} else {
			// the register reads as it did; so must every node its iterators handed out back then
			// (when the register itself changed, that is reported above and these are its parts)
			for _, h := range m.held[i] {
				if shallow(h.n) != h.text {
					fmt.Fprintf(&tail, ";h%d", i)
					break
				}
			}
		}
		if d1 != d2 {
			fmt.Fprintf(&sb, ";r%d", i)
		}
		if kfault {
			fmt.Fprintf(&tail, ";k%d", i)
		}
	}
	sb.WriteString(tail.String())
	return sb.String()
}

func runScript(script string) string {
	if strings.HasPrefix(script, "typed:") {
		return runTyped(script)
	}
	m := &machine{firsts: map[int]string{}, held: map[int][]keptNode{}}
	var obs []string
	for _, op := range strings.Fields(script) {
		obs = append(obs, m.step(op))
	}
	return strings.Join(obs, "|")
}

// probe: what does a second AsBytes of a streamBytes node return on this tree?
func probeStream() string {
	nb := basicnode.Prototype.Bytes.NewBuilder()
	if err := nb.AssignNode(basicnode.NewBytes([]byte("abc"))); err != nil {
		return "error"
	}
	n := nb.Build()
	a, _ := n.AsBytes()
	b, _ := n.AsBytes()
	switch {
	case string(a) == "abc" && string(b) == "abc":
		return "full"
	case string(a) == "abc" && string(b) == "":
		return "empty"
	}
	return "other"
}

// probe: does the generic copy path of Prototype.Map AssignNode work on a fresh builder (fix e205164)?
func probeMapCopy() string {
	v := lib.Map(lib.Entry{K: "a", V: lib.Int(1)})
	err := lib.Safely(func() error { return basicnode.Prototype.Map.NewBuilder().AssignNode(lib.Foreign(v)) })
	switch {
	case err == nil:
		return "ok"
	case lib.IsPanic(err):
		return "panic"
	}
	return "other"
}

func main() {
	fl := lib.ParseFlags()
	out := lib.OpenOut(fl.Out)
	defer out.Close()
	out.Case("probe0", "probe", "stream="+probeStream()+";mapcopy="+probeMapCopy())
	if fl.Replay != "" {
		for _, line := range lib.ReadLines(fl.Replay) {
			f := strings.Split(line, "\t")
			if len(f) < 2 || f[1] == "probe" {
				continue
			}
			out.Case(f[0], f[1], runScript(f[1]))
		}
		return
	}
	n := fl.N
	if n == 0 {
		n = 1500
		if fl.Tier == "thorough" {
			n = 60000
		}
	}
	for i, s := range corpus {
		out.Case(fmt.Sprintf("c%d", i+1), s, runScript(s))
	}
	rng := lib.NewRng(fl.Seed)
	for i := 0; i < n; i++ {
		s := genScript(rng.Fork())
		out.Case(fmt.Sprintf("g%d", i+1), s, runScript(s))
	}
	// the typed engines (no heap model): oracle-level cases
	for i, s := range typedCorpus {
		out.Case(fmt.Sprintf("tc%d", i+1), s, runScript(s))
	}
	for i := 0; i < n/10; i++ {
		s := genTyped(rng.Fork())
		out.Case(fmt.Sprintf("t%d", i+1), s, runScript(s))
	}
}
