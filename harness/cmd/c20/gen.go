package main

import (
	"fmt"
	"strings"

	"verifharness/lib"
)

var keyPool = []string{"a", "b", "c", "k", "0", "ab"}

func smallVal(r *lib.Rng, depth int) *lib.Val {
	for {
		switch k := r.Intn(10); {
		case k == 0:
			return lib.Null()
		case k == 1:
			return lib.Bool(r.Bool())
		case k == 2 || k == 3:
			return lib.Int(int64(r.Intn(300)) - 40)
		case k == 4:
			return lib.Str([]string{"", "a", "xy", "key"}[r.Intn(4)])
		case k == 5:
			return lib.Bytes(r.BytesN(r.Intn(5)))
		case k <= 7:
			if depth >= 2 {
				continue
			}
			v := &lib.Val{Kind: lib.KList}
			for i, n := 0, 1+r.Intn(4); i < n; i++ {
				v.L = append(v.L, smallVal(r, depth+1))
			}
			return v
		default:
			if depth >= 2 {
				continue
			}
			v := &lib.Val{Kind: lib.KMap}
			seen := map[string]bool{}
			for i, n := 0, 1+r.Intn(4); i < n; i++ {
				k := keyPool[r.Intn(len(keyPool))]
				if seen[k] {
					continue
				}
				seen[k] = true
				v.M = append(v.M, lib.Entry{K: k, V: smallVal(r, depth+1)})
			}
			return v
		}
	}
}

func valText(v *lib.Val) string { return strings.ReplaceAll(v.Text(), " ", ",") }

// a path into v (existing positions mostly), '.'-separated
func pathIn(r *lib.Rng, v *lib.Val) string {
	var segs []string
	for d, depth := 0, r.Intn(3); d < depth; d++ {
		switch v.Kind {
		case lib.KMap:
			if len(v.M) == 0 {
				return joinPath(segs)
			}
			e := v.M[r.Intn(len(v.M))]
			segs = append(segs, "s"+lib.Hex(e.K))
			v = e.V
		case lib.KList:
			if len(v.L) == 0 {
				return joinPath(segs)
			}
			i := r.Intn(len(v.L))
			segs = append(segs, fmt.Sprintf("i%d", i))
			v = v.L[i]
		default:
			return joinPath(segs)
		}
	}
	return joinPath(segs)
}

func joinPath(segs []string) string {
	if len(segs) == 0 {
		return "-"
	}
	return strings.Join(segs, ".")
}

func genBasic(r *lib.Rng) string {
	nShared := 1 + r.Intn(3)
	var vals []*lib.Val
	var texts []string
	for i := 0; i < nShared; i++ {
		v := smallVal(r, 0)
		if i == 0 { // at least one container
			for v.Kind != lib.KMap && v.Kind != lib.KList {
				v = smallVal(r, 0)
			}
		}
		vals = append(vals, v)
		texts = append(texts, valText(v))
	}
	nThreads := 2 + r.Intn(5)
	var threads []string
	for t := 0; t < nThreads; t++ {
		var ops []string
		for i, n := 0, 3+r.Intn(6); i < n; i++ {
			a, b := r.Intn(nShared), r.Intn(nShared)
			switch r.Intn(11) {
			case 0, 1:
				ops = append(ops, fmt.Sprintf("du:%d", a))
			case 2:
				v := vals[a]
				if v.Kind == lib.KMap && len(v.M) > 0 {
					ops = append(ops, fmt.Sprintf("lk:%d:%s", a, lib.Hex(v.M[r.Intn(len(v.M))].K)))
				} else if v.Kind == lib.KList {
					ops = append(ops, fmt.Sprintf("li:%d:%d", a, r.Intn(len(v.L)+1)))
				} else {
					ops = append(ops, fmt.Sprintf("lk:%d:%s", a, lib.Hex("a")))
				}
			case 3:
				ops = append(ops, fmt.Sprintf("eq:%d:%d", a, b))
			case 4:
				ops = append(ops, fmt.Sprintf("cp:%d:any", a))
			case 5:
				ops = append(ops, fmt.Sprintf("en:%d", a))
			case 6:
				ops = append(ops, fmt.Sprintf("ej:%d", a))
			case 7:
				ops = append(ops, fmt.Sprintf("wk:%d", a))
			case 8:
				ops = append(ops, fmt.Sprintf("tf:%d:%s:%d", a, pathIn(r, vals[a]), b))
			case 9:
				ops = append(ops, "nb:"+valText(smallVal(r, 1)))
			default:
				ops = append(ops, fmt.Sprintf("an:%d", a))
			}
		}
		threads = append(threads, strings.Join(ops, " "))
	}
	return strings.Join(texts, ";") + "|" + strings.Join(threads, "/")
}
