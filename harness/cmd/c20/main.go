// c20: shared immutable objects are safe to use from many goroutines at once.  Built with -race.
//
// Every scenario runs in a CHILD process (this binary re-executed with -child) under
// GORACE="halt_on_error=0 log_path=…", so that a race report is captured, classified by its frames and
// attributed to that scenario only.  In the child: N goroutines × op lists from the read-only
// vocabulary over shared objects, released together, with runtime.Gosched() sprinkled between ops;
// each goroutine's results are compared with a sequential run over an identical fresh setup.
//
// record: id \t kind \t gomaxprocs \t nthreads \t spec \t observation
//
//	kind: basic  shared basicnode nodes; spec = shared values ';'-separated, '|', then per-thread op lists '/'-separated:
//	             du:<i> dump  lk:<i>:<keyhex> li:<i>:<idx>  eq:<i>:<j> DeepEqual  cp:<i>:<proto> Copy+Build
//	             en:<i> dag-cbor  ej:<i> dag-json  wk:<i> walk (shared selector+Config)  tf:<i>:<path>:<j> FocusedTransform
//	             nb:<val> build a fresh node from the shared prototype   an:<i> AssignNode into a fresh builder of its kind
//	      stream     shared streamBytes node, concurrent AsBytes                       (known race)
//	      bindviews  shared bindnode node (explicit schema): type and representation views, gendemo node
//	      walkcfg    shared compiled selector + Config with Ctx and chooser set
//	      walklazy   shared Config{} with nil Ctx: Config.init() fills it in            (known race)
//	      walknoctx / walknochooser   shared Config with exactly ONE of Ctx / chooser nil
//	      (all four walk kinds: WalkMatching, WalkAdv, Focus, Get, WalkTransforming, FocusedTransform; after every call the
//	      shared Config must describe itself field by field as it did when it was made)
//	      load       shared LinkSystem over a read-only store: Load, ComputeLink
//	      proto      fresh nodes from shared prototypes / type system (basicnode, bindnode, gendemo)
//	      wrapschema bindnode.Wrap with an explicit schema type
//	      wrapinfer  bindnode.Wrap with a nil schema type: inferSchema → defaultTypeSystem  (known race)
//	      clonets    goroutines clone / merge types OUT OF a shared type system (schema.Clone, MergeTypeSystem) while
//	                 others read it (Fields, Field(name).Type(), Parent, lookups, bindnode over it); afterwards the
//	                 source type system must be what it was (parents, field types resolve in the source universe)
//	      stopat     one compiled ExploreRecursive with a stopAt link condition, walked by every goroutine over a DAG
//	                 that contains the stop link and other links, through one Config / LinkSystem
//	observation: norace;same | norace;differ | norace;changed (a shared object was modified) | race:<class>[,<class>] | childfail:<what>
package main

import (
	"bytes"
	"context"
	"flag"
	"fmt"
	"io"
	"os"
	"os/exec"
	"path/filepath"
	"reflect"
	"runtime"
	"sort"
	"strconv"
	"strings"
	"sync"

	"verifharness/lib"

	cid "github.com/ipfs/go-cid"
	ipld "github.com/ipld/go-ipld-prime"
	"github.com/ipld/go-ipld-prime/codec/dagcbor"
	"github.com/ipld/go-ipld-prime/codec/dagjson"
	"github.com/ipld/go-ipld-prime/datamodel"
	"github.com/ipld/go-ipld-prime/fluent"
	"github.com/ipld/go-ipld-prime/linking"
	cidlink "github.com/ipld/go-ipld-prime/linking/cid"
	"github.com/ipld/go-ipld-prime/node/basicnode"
	"github.com/ipld/go-ipld-prime/node/bindnode"
	"github.com/ipld/go-ipld-prime/node/gendemo"
	"github.com/ipld/go-ipld-prime/schema"
	"github.com/ipld/go-ipld-prime/storage/memstore"
	"github.com/ipld/go-ipld-prime/traversal"
	"github.com/ipld/go-ipld-prime/traversal/selector"
	"github.com/ipld/go-ipld-prime/traversal/selector/builder"
)

// ---------------------------------------------------------------- shared objects

type bmap struct {
	Keys   []string
	Values map[string]int64
}

type rec struct {
	Name string
	Age  int64
	Tags []string
}

// Go types for the schema of the clonets scenario
type point struct {
	X int64
	Y int64
}
type shape struct {
	Name string
	At   point
	Tags []string
	More *point
}

// Distinct named types for the inferred-schema scenario: the first Wrap of a type infers its schema
// and registers it in bindnode's package-level type system.  Family W and X are wrapped by the
// goroutines (one slot each), family R and S by the sequential reference run, P by the probe.
type (
	W0 struct{ A int64 }
	W1 struct{ A int64 }
	W2 struct{ A int64 }
	W3 struct{ A int64 }
	W4 struct{ A int64 }
	W5 struct{ A int64 }
	W6 struct{ A int64 }
	W7 struct{ A int64 }
	X0 struct{ A int64 }
	X1 struct{ A int64 }
	X2 struct{ A int64 }
	X3 struct{ A int64 }
	X4 struct{ A int64 }
	X5 struct{ A int64 }
	X6 struct{ A int64 }
	X7 struct{ A int64 }
	R0 struct{ A int64 }
	R1 struct{ A int64 }
	R2 struct{ A int64 }
	R3 struct{ A int64 }
	R4 struct{ A int64 }
	R5 struct{ A int64 }
	R6 struct{ A int64 }
	R7 struct{ A int64 }
	S0 struct{ A int64 }
	S1 struct{ A int64 }
	S2 struct{ A int64 }
	S3 struct{ A int64 }
	S4 struct{ A int64 }
	S5 struct{ A int64 }
	S6 struct{ A int64 }
	S7 struct{ A int64 }
	P0 struct{ A int64 }
)

type wrapFn func() datamodel.Node

var famW = []wrapFn{
	func() datamodel.Node { return bindnode.Wrap(&W0{A: 1}, nil) }, func() datamodel.Node { return bindnode.Wrap(&W1{A: 1}, nil) },
	func() datamodel.Node { return bindnode.Wrap(&W2{A: 1}, nil) }, func() datamodel.Node { return bindnode.Wrap(&W3{A: 1}, nil) },
	func() datamodel.Node { return bindnode.Wrap(&W4{A: 1}, nil) }, func() datamodel.Node { return bindnode.Wrap(&W5{A: 1}, nil) },
	func() datamodel.Node { return bindnode.Wrap(&W6{A: 1}, nil) }, func() datamodel.Node { return bindnode.Wrap(&W7{A: 1}, nil) },
}
var famX = []wrapFn{
	func() datamodel.Node { return bindnode.Wrap(&X0{A: 2}, nil) }, func() datamodel.Node { return bindnode.Wrap(&X1{A: 2}, nil) },
	func() datamodel.Node { return bindnode.Wrap(&X2{A: 2}, nil) }, func() datamodel.Node { return bindnode.Wrap(&X3{A: 2}, nil) },
	func() datamodel.Node { return bindnode.Wrap(&X4{A: 2}, nil) }, func() datamodel.Node { return bindnode.Wrap(&X5{A: 2}, nil) },
	func() datamodel.Node { return bindnode.Wrap(&X6{A: 2}, nil) }, func() datamodel.Node { return bindnode.Wrap(&X7{A: 2}, nil) },
}
var famR = []wrapFn{
	func() datamodel.Node { return bindnode.Wrap(&R0{A: 1}, nil) }, func() datamodel.Node { return bindnode.Wrap(&R1{A: 1}, nil) },
	func() datamodel.Node { return bindnode.Wrap(&R2{A: 1}, nil) }, func() datamodel.Node { return bindnode.Wrap(&R3{A: 1}, nil) },
	func() datamodel.Node { return bindnode.Wrap(&R4{A: 1}, nil) }, func() datamodel.Node { return bindnode.Wrap(&R5{A: 1}, nil) },
	func() datamodel.Node { return bindnode.Wrap(&R6{A: 1}, nil) }, func() datamodel.Node { return bindnode.Wrap(&R7{A: 1}, nil) },
}
var famS = []wrapFn{
	func() datamodel.Node { return bindnode.Wrap(&S0{A: 2}, nil) }, func() datamodel.Node { return bindnode.Wrap(&S1{A: 2}, nil) },
	func() datamodel.Node { return bindnode.Wrap(&S2{A: 2}, nil) }, func() datamodel.Node { return bindnode.Wrap(&S3{A: 2}, nil) },
	func() datamodel.Node { return bindnode.Wrap(&S4{A: 2}, nil) }, func() datamodel.Node { return bindnode.Wrap(&S5{A: 2}, nil) },
	func() datamodel.Node { return bindnode.Wrap(&S6{A: 2}, nil) }, func() datamodel.Node { return bindnode.Wrap(&S7{A: 2}, nil) },
}

// slowReader is an io.ReadSeeker that hands out at most 3 bytes per Read and yields the processor
// before and after every operation.
type slowReader struct {
	data []byte
	pos  int64
}

func (r *slowReader) Read(p []byte) (int, error) {
	runtime.Gosched()
	if r.pos >= int64(len(r.data)) {
		return 0, io.EOF
	}
	n := copy(p, r.data[r.pos:min64(r.pos+3, int64(len(r.data)))])
	r.pos += int64(n)
	runtime.Gosched()
	return n, nil
}

func (r *slowReader) Seek(off int64, whence int) (int64, error) {
	runtime.Gosched()
	switch whence {
	case io.SeekCurrent:
		off += r.pos
	case io.SeekEnd:
		off += int64(len(r.data))
	}
	if off < 0 {
		return 0, fmt.Errorf("negative position")
	}
	r.pos = off
	runtime.Gosched()
	return off, nil
}

func min64(a, b int64) int64 {
	if a < b {
		return a
	}
	return b
}

type world struct {
	nodes     []datamodel.Node // shared nodes
	sel       selector.Selector
	sels      []selector.Selector // more shared compiled selectors (unions with a fields clause first)
	cfg       *traversal.Config
	lsys      linking.LinkSystem
	links     []datamodel.Link
	ts        *schema.TypeSystem
	recType   schema.Type
	recProt   schema.TypedPrototype
	stream    datamodel.Node
	cfgDesc   string             // walk kinds: the shared Config as described when it was made
	ts2       *schema.TypeSystem // clonets: the shared type system others clone out of
	ts2Desc   string             // … as described when it was made
	stopSel   selector.Selector  // stopat: the one compiled selector
	stopRoot  datamodel.Node
	reference bool // the sequential reference world
	finalsMu  sync.Mutex
	finals    []func() string // re-verifications to run after every goroutine has finished
}

var ssb = builder.NewSelectorSpecBuilder(basicnode.Prototype.Any)

func cidPrefix() cid.Prefix { return cid.Prefix{Version: 1, Codec: 0x71, MhType: 0x12, MhLength: 32} }

// a union whose FIRST member is a fields clause with nf fields and whose later members add further
// segments (an index, two more fields), under a recursion: Interests() of such a union is computed on
// every step of every walk from the compiled (shared) selector
func unionSelector(nf int) selector.Selector {
	spec := ssb.ExploreRecursive(selector.RecursionLimitDepth(4), ssb.ExploreUnion(
		ssb.ExploreFields(func(b builder.ExploreFieldsSpecBuilder) {
			for i := 0; i < nf; i++ {
				b.Insert("f"+strconv.Itoa(i), ssb.ExploreRecursiveEdge())
			}
		}),
		ssb.ExploreIndex(0, ssb.ExploreRecursiveEdge()),
		ssb.ExploreFields(func(b builder.ExploreFieldsSpecBuilder) {
			b.Insert("x", ssb.Matcher())
			b.Insert("y", ssb.ExploreRecursiveEdge())
		}),
		ssb.Matcher(),
	))
	s, err := selector.CompileSelector(spec.Node())
	if err != nil {
		panic(err)
	}
	return s
}

// a node those selectors have something to do on: maps with fields f0..f8, x, y over lists and maps
func unionNode() datamodel.Node {
	leaf := lib.Map(lib.Entry{K: "x", V: lib.Int(1)}, lib.Entry{K: "y", V: lib.List(lib.Str("a"), lib.Int(2))})
	inner := &lib.Val{Kind: lib.KMap}
	for i := 0; i < 9; i++ {
		var v *lib.Val
		switch i % 3 {
		case 0:
			v = lib.List(leaf, lib.Int(int64(i)))
		case 1:
			v = leaf
		default:
			v = lib.Str("s" + strconv.Itoa(i))
		}
		inner.M = append(inner.M, lib.Entry{K: "f" + strconv.Itoa(i), V: v})
	}
	inner.M = append(inner.M, lib.Entry{K: "x", V: lib.Bool(true)}, lib.Entry{K: "y", V: lib.List(leaf)})
	root := &lib.Val{Kind: lib.KMap}
	for i := 0; i < 9; i++ {
		root.M = append(root.M, lib.Entry{K: "f" + strconv.Itoa(i), V: inner})
	}
	root.M = append(root.M, lib.Entry{K: "y", V: lib.List(inner, leaf)})
	n, err := lib.BuildBasic(root)
	if err != nil {
		panic(err)
	}
	return n
}

func allSelector() selector.Selector {
	s, err := selector.CompileSelector(ssb.ExploreRecursive(selector.RecursionLimitNone(),
		ssb.ExploreUnion(ssb.Matcher(), ssb.ExploreAll(ssb.ExploreRecursiveEdge()))).Node())
	if err != nil {
		panic(err)
	}
	return s
}

// describeValue: a value field by field — nil-ness and identity of pointers, funcs, interfaces, maps and
// slices, the value of everything else — so that two descriptions are equal iff nobody stored to it
func describeValue(v reflect.Value) string {
	switch v.Kind() {
	case reflect.Struct:
		var sb strings.Builder
		sb.WriteString("{")
		for i := 0; i < v.NumField(); i++ {
			sb.WriteString(v.Type().Field(i).Name + "=" + describeValue(v.Field(i)) + " ")
		}
		sb.WriteString("}")
		return sb.String()
	case reflect.Func, reflect.Ptr, reflect.Map, reflect.Chan, reflect.UnsafePointer:
		if v.IsNil() {
			return "nil"
		}
		return fmt.Sprintf("%s@%x", v.Kind(), v.Pointer())
	case reflect.Slice:
		if v.IsNil() {
			return "nil"
		}
		return fmt.Sprintf("slice@%x/%d", v.Pointer(), v.Len())
	case reflect.Interface:
		if v.IsNil() {
			return "nil"
		}
		return v.Elem().Type().String() + ":" + describeValue(v.Elem())
	case reflect.Bool:
		return strconv.FormatBool(v.Bool())
	case reflect.Int, reflect.Int8, reflect.Int16, reflect.Int32, reflect.Int64:
		return strconv.FormatInt(v.Int(), 10)
	case reflect.Uint, reflect.Uint8, reflect.Uint16, reflect.Uint32, reflect.Uint64:
		return strconv.FormatUint(v.Uint(), 10)
	case reflect.String:
		return strconv.Quote(v.String())
	}
	return v.Kind().String()
}

func describeCfg(c *traversal.Config) string { return describeValue(reflect.ValueOf(c).Elem()) }

// describeTS: everything a reader can learn from a type system by its accessors, with the identities
// that tie its parts together: a type belongs to this type system, a struct field belongs to its
// struct (through Fields() and through Field(name)), and field / member / value types resolve to the
// types of THIS type system.
func describeTS(ts *schema.TypeSystem) (out string) {
	defer func() {
		if r := recover(); r != nil {
			out += "!panic"
		}
	}()
	var sb strings.Builder
	same := func(t schema.Type) string {
		if t == nil {
			return "nil"
		}
		return t.Name() + "/" + strconv.FormatBool(t == ts.TypeByName(t.Name()))
	}
	for _, name := range ts.Names() {
		t := ts.TypeByName(name)
		fmt.Fprintf(&sb, "%s:%s:%v", name, t.TypeKind(), t.TypeSystem() == ts)
		switch tt := t.(type) {
		case *schema.TypeStruct:
			for _, f := range tt.Fields() {
				out = sb.String()
				fmt.Fprintf(&sb, "{%s p=%v", f.Name(), f.Parent() == tt)
				fmt.Fprintf(&sb, " t=%s %v %v", same(f.Type()), f.IsOptional(), f.IsNullable())
				g := tt.Field(f.Name())
				fmt.Fprintf(&sb, " byname p=%v t=%s}", g != nil && g.Parent() == tt, same(g.Type()))
			}
			fmt.Fprintf(&sb, "%T", tt.RepresentationStrategy())
		case *schema.TypeUnion:
			for _, m := range tt.Members() {
				fmt.Fprintf(&sb, "{%s}", same(m))
			}
		case *schema.TypeList:
			fmt.Fprintf(&sb, "{%s %v}", same(tt.ValueType()), tt.ValueIsNullable())
		case *schema.TypeMap:
			fmt.Fprintf(&sb, "{%s %s %v}", same(tt.KeyType()), same(tt.ValueType()), tt.ValueIsNullable())
		case *schema.TypeEnum:
			fmt.Fprintf(&sb, "{%s}", strings.Join(tt.Members(), ","))
		}
		sb.WriteByte(';')
		out = sb.String()
	}
	return sb.String()
}

// the selector of the stopat scenario: match everything recursively, do not enter the stop link
func stopAtSelector(stop datamodel.Link) selector.Selector {
	np := basicnode.Prototype.Map
	empty := func(fluent.MapAssembler) {}
	spec := fluent.MustBuildMap(np, 1, func(na fluent.MapAssembler) {
		na.AssembleEntry(selector.SelectorKey_ExploreRecursive).CreateMap(3, func(na fluent.MapAssembler) {
			na.AssembleEntry(selector.SelectorKey_Limit).CreateMap(1, func(na fluent.MapAssembler) {
				na.AssembleEntry(selector.SelectorKey_LimitNone).CreateMap(0, empty)
			})
			na.AssembleEntry(selector.SelectorKey_Sequence).CreateMap(1, func(na fluent.MapAssembler) {
				na.AssembleEntry(selector.SelectorKey_ExploreUnion).CreateList(2, func(la fluent.ListAssembler) {
					la.AssembleValue().CreateMap(1, func(na fluent.MapAssembler) {
						na.AssembleEntry(selector.SelectorKey_Matcher).CreateMap(0, empty)
					})
					la.AssembleValue().CreateMap(1, func(na fluent.MapAssembler) {
						na.AssembleEntry(selector.SelectorKey_ExploreAll).CreateMap(1, func(na fluent.MapAssembler) {
							na.AssembleEntry(selector.SelectorKey_Next).CreateMap(1, func(na fluent.MapAssembler) {
								na.AssembleEntry(selector.SelectorKey_ExploreRecursiveEdge).CreateMap(0, empty)
							})
						})
					})
				})
			})
			na.AssembleEntry(selector.SelectorKey_StopAt).CreateMap(1, func(na fluent.MapAssembler) {
				na.AssembleEntry(string(selector.ConditionMode_Link)).AssignLink(stop)
			})
		})
	})
	s, err := selector.CompileSelector(spec)
	if err != nil {
		panic(err)
	}
	return s
}

func valOf(s string) *lib.Val {
	v, err := lib.ParseVal(strings.ReplaceAll(s, ",", " "))
	if err != nil {
		panic(err)
	}
	return v
}

func setup(kind, shared string) *world {
	w := &world{}
	w.sel = allSelector()
	ts, err := ipld.LoadSchemaBytes([]byte(`
type Rec struct {
  Name String
  Age Int
  Tags [String]
} representation tuple
type BMap {String:Int}
`))
	if err != nil {
		panic(err)
	}
	w.ts = ts
	w.recType = ts.TypeByName("Rec")
	w.recProt = bindnode.Prototype((*rec)(nil), w.recType)
	chooser := func(datamodel.Link, linking.LinkContext) (datamodel.NodePrototype, error) {
		return basicnode.Prototype.Any, nil
	}
	switch kind {
	case "basic":
		for _, s := range strings.Split(shared, ";") {
			if s == "" {
				continue
			}
			n, err := lib.BuildBasic(valOf(s))
			if err != nil {
				panic(err)
			}
			w.nodes = append(w.nodes, n)
		}
		w.cfg = &traversal.Config{Ctx: context.Background(), LinkTargetNodePrototypeChooser: chooser}
	case "stream":
		// a slow source: short reads, and it yields inside Read and Seek, so that whatever the node does
		// between positioning the source and reading it is interleaved with the other goroutines
		data := make([]byte, 64)
		for i := range data {
			data[i] = byte('a' + i%26)
		}
		w.stream = basicnode.NewBytesFromReader(&slowReader{data: data})
	case "bindviews":
		r := &rec{Name: "ann", Age: 41, Tags: []string{"x", "y", "z"}}
		tn := bindnode.Wrap(r, w.recType)
		m := &bmap{Keys: []string{"a", "b"}, Values: map[string]int64{"a": 1, "b": 2}}
		tm := bindnode.Wrap(m, ts.TypeByName("BMap"))
		gb := gendemo.Type.Msg3.NewBuilder()
		ma, _ := gb.BeginMap(3)
		for _, k := range []string{"whee", "woot", "waga"} {
			va, _ := ma.AssembleEntry(k)
			va.AssignInt(7)
		}
		ma.Finish()
		w.nodes = []datamodel.Node{tn, tn.(schema.TypedNode).Representation(), tm, tm.(schema.TypedNode).Representation(), gb.Build()}
	case "walkcfg", "walklazy", "walknoctx", "walknochooser":
		n, _ := lib.BuildBasic(valOf("m2,k61,a3,i1,i2,s78,k62,m1,k63,t"))
		w.nodes = []datamodel.Node{n, unionNode()}
		for _, nf := range []int{3, 5, 6, 7, 9} {
			w.sels = append(w.sels, unionSelector(nf))
		}
		// {Ctx nil / set} x {chooser nil / set}; the LinkSystem (never defaulted) is set in two of them
		switch kind {
		case "walkcfg":
			w.cfg = &traversal.Config{Ctx: context.Background(), LinkTargetNodePrototypeChooser: chooser, LinkSystem: cidlink.DefaultLinkSystem()}
		case "walklazy":
			w.cfg = &traversal.Config{}
		case "walknoctx":
			w.cfg = &traversal.Config{LinkTargetNodePrototypeChooser: chooser, LinkSystem: cidlink.DefaultLinkSystem()}
		default:
			w.cfg = &traversal.Config{Ctx: context.Background()}
		}
		w.cfgDesc = describeCfg(w.cfg)
	case "clonets":
		ts2, err := ipld.LoadSchemaBytes([]byte(`
type Point struct {
  x Int
  y Int
} representation tuple
type Shape struct {
  name String
  at Point
  tags [String]
  more optional Point
}
type U union {
  | Point "p"
  | String "s"
} representation keyed
type E enum {
  | A
  | B
}
type LP [Point]
type MSP {String:nullable Point}
`))
		if err != nil {
			panic(err)
		}
		w.ts2 = ts2
		w.ts2Desc = describeTS(ts2)
	case "stopat":
		store := &memstore.Store{Bag: map[string][]byte{}}
		ls := cidlink.DefaultLinkSystem()
		ls.SetReadStorage(store)
		ls.SetWriteStorage(store)
		lp := cidlink.LinkPrototype{Prefix: cidPrefix()}
		leaf := func(s string) datamodel.Link {
			l, err := ls.Store(linking.LinkContext{}, lp, basicnode.NewString(s))
			if err != nil {
				panic(err)
			}
			return l
		}
		stop := leaf("do not enter")
		others := []datamodel.Link{leaf("a"), leaf("b"), leaf("c"), leaf("d"), leaf("e")}
		// an inner block that itself links to the stop block and to others
		inner, err := ls.Store(linking.LinkContext{}, lp, fluent.MustBuildList(basicnode.Prototype.List, 4, func(la fluent.ListAssembler) {
			la.AssembleValue().AssignLink(others[0])
			la.AssembleValue().AssignLink(stop)
			la.AssembleValue().AssignLink(others[1])
			la.AssembleValue().AssignLink(stop)
		}))
		if err != nil {
			panic(err)
		}
		w.stopRoot = fluent.MustBuildList(basicnode.Prototype.List, 40, func(la fluent.ListAssembler) {
			for i := 0; i < 40; i++ {
				switch {
				case i%3 == 1:
					la.AssembleValue().AssignLink(stop)
				case i%7 == 0:
					la.AssembleValue().AssignLink(inner)
				default:
					la.AssembleValue().AssignLink(others[i%len(others)])
				}
			}
		})
		w.stopSel = stopAtSelector(stop)
		ro := cidlink.DefaultLinkSystem()
		ro.SetReadStorage(store)
		w.cfg = &traversal.Config{Ctx: context.Background(), LinkSystem: ro, LinkTargetNodePrototypeChooser: chooser}
	case "load":
		store := &memstore.Store{Bag: map[string][]byte{}}
		ls := cidlink.DefaultLinkSystem()
		ls.SetReadStorage(store)
		ls.SetWriteStorage(store)
		lp := cidlink.LinkPrototype{Prefix: cidPrefix()}
		for _, s := range []string{"m1,k61,i1", "a2,s78,s79", "s68656c6c6f"} {
			n, _ := lib.BuildBasic(valOf(s))
			l, err := ls.Store(linking.LinkContext{}, lp, n)
			if err != nil {
				panic(err)
			}
			w.links = append(w.links, l)
			w.nodes = append(w.nodes, n)
		}
		// from here on the store is only read
		ro := cidlink.DefaultLinkSystem()
		ro.SetReadStorage(store)
		w.lsys = ro
	}
	return w
}

// ---------------------------------------------------------------- ops

func dumpStr(n datamodel.Node) string { return lib.Dump(n) }

func protoBuilder(p string) datamodel.NodeBuilder {
	switch p {
	case "map":
		return basicnode.Prototype.Map.NewBuilder()
	case "list":
		return basicnode.Prototype.List.NewBuilder()
	}
	return basicnode.Prototype.Any.NewBuilder()
}

func pathOf(s string) datamodel.Path {
	if s == "-" {
		return datamodel.NewPath(nil)
	}
	var segs []datamodel.PathSegment
	for _, t := range strings.Split(s, ".") {
		if t[0] == 's' {
			segs = append(segs, datamodel.PathSegmentOfString(lib.UnHex(t[1:])))
		} else {
			i, _ := strconv.Atoi(t[1:])
			segs = append(segs, datamodel.PathSegmentOfInt(int64(i)))
		}
	}
	return datamodel.NewPath(segs)
}

func errStr(err error) string {
	if err == nil {
		return "ok"
	}
	if lib.IsPanic(err) {
		return "panic"
	}
	return "err"
}

// one op of the "basic" vocabulary
func (w *world) basicOp(op string) (res string) {
	f := strings.Split(op, ":")
	idx := func(s string) datamodel.Node { i, _ := strconv.Atoi(s); return w.nodes[i%len(w.nodes)] }
	err := lib.Safely(func() error {
		switch f[0] {
		case "du":
			res = dumpStr(idx(f[1]))
		case "lk":
			n, e := idx(f[1]).LookupByString(lib.UnHex(f[2]))
			if e != nil {
				res = "nf"
			} else {
				res = dumpStr(n)
			}
		case "li":
			i, _ := strconv.Atoi(f[2])
			n, e := idx(f[1]).LookupByIndex(int64(i))
			if e != nil {
				res = "nf"
			} else {
				res = dumpStr(n)
			}
		case "eq":
			res = fmt.Sprint(datamodel.DeepEqual(idx(f[1]), idx(f[2])))
		case "cp":
			nb := protoBuilder(f[2])
			if e := datamodel.Copy(idx(f[1]), nb); e != nil {
				res = "err"
			} else {
				res = dumpStr(nb.Build())
			}
		case "en":
			var buf bytes.Buffer
			e := dagcbor.Encode(idx(f[1]), &buf)
			res = errStr(e) + lib.Hex(buf.String())
		case "ej":
			var buf bytes.Buffer
			e := dagjson.Encode(idx(f[1]), &buf)
			res = errStr(e) + lib.Hex(buf.String())
		case "wk":
			cnt := 0
			e := traversal.Progress{Cfg: w.cfg}.WalkMatching(idx(f[1]), w.sel, func(traversal.Progress, datamodel.Node) error { cnt++; return nil })
			res = errStr(e) + strconv.Itoa(cnt)
		case "tf":
			repl := idx(f[3])
			n, e := traversal.Progress{Cfg: w.cfg}.FocusedTransform(idx(f[1]), pathOf(f[2]), func(traversal.Progress, datamodel.Node) (datamodel.Node, error) {
				return repl, nil
			}, false)
			if e != nil {
				res = "err"
			} else {
				res = dumpStr(n)
			}
		case "nb":
			n, e := lib.BuildBasic(valOf(f[1]))
			res = errStr(e)
			if e == nil {
				res = dumpStr(n)
			}
		case "an":
			n := idx(f[1])
			var nb datamodel.NodeBuilder
			switch n.Kind() {
			case datamodel.Kind_Map:
				nb = basicnode.Prototype.Map.NewBuilder()
			case datamodel.Kind_List:
				nb = basicnode.Prototype.List.NewBuilder()
			default:
				nb = basicnode.Prototype.Any.NewBuilder()
			}
			if e := nb.AssignNode(n); e != nil {
				res = "err"
			} else {
				res = dumpStr(nb.Build())
			}
		default:
			panic("bad op " + op)
		}
		return nil
	})
	if err != nil {
		return "panic"
	}
	return res
}

// the fixed op list of one goroutine of the other scenario kinds
func (w *world) kindOps(kind string, k int) []string {
	var out []string
	add := func(s string) { out = append(out, s) }
	err := lib.Safely(func() error {
		switch kind {
		case "stream":
			// every way of reading a stream-backed node, readers of one's own kept alive across the others' calls
			b, e := w.stream.AsBytes()
			add(errStr(e) + lib.Hex(string(b)))
			rd, e := w.stream.(datamodel.LargeBytesNode).AsLargeBytes()
			add(errStr(e))
			buf := make([]byte, 3)
			k, _ := io.ReadFull(rd, buf)
			add(lib.Hex(string(buf[:k])))
			pos, e := rd.Seek(0, io.SeekEnd)
			add(errStr(e) + strconv.FormatInt(pos, 10))
			pos, e = rd.Seek(2, io.SeekStart)
			add(errStr(e) + strconv.FormatInt(pos, 10))
			rest, e := io.ReadAll(rd)
			add(errStr(e) + lib.Hex(string(rest)))
			sel, e := selector.CompileSelector(ssb.MatcherSubset(1, 5).Node())
			add(errStr(e))
			e = traversal.WalkAdv(w.stream, sel, func(_ traversal.Progress, n datamodel.Node, why traversal.VisitReason) error {
				if why == traversal.VisitReason_SelectionMatch {
					sb, se := n.AsBytes()
					add(errStr(se) + lib.Hex(string(sb)))
				}
				return nil
			})
			add(errStr(e))
			b, e = w.stream.AsBytes()
			add(errStr(e) + lib.Hex(string(b)))
		case "bindviews":
			for i, n := range w.nodes {
				add(dumpStr(n))
				var buf bytes.Buffer
				add(errStr(dagcbor.Encode(n, &buf)) + lib.Hex(buf.String()))
				nb := basicnode.Prototype.Any.NewBuilder()
				add(errStr(datamodel.Copy(n, nb)))
				add(fmt.Sprint(datamodel.DeepEqual(n, w.nodes[(i+k)%len(w.nodes)])))
			}
		case "walkcfg", "walklazy", "walknoctx", "walknochooser":
			cnt := 0
			e := traversal.Progress{Cfg: w.cfg}.WalkMatching(w.nodes[0], w.sel, func(traversal.Progress, datamodel.Node) error { cnt++; return nil })
			add(errStr(e) + strconv.Itoa(cnt))
			for i := range w.sels {
				sel := w.sels[(i+k)%len(w.sels)]
				var visited []string
				e := traversal.Progress{Cfg: w.cfg}.WalkAdv(w.nodes[1], sel, func(p traversal.Progress, _ datamodel.Node, why traversal.VisitReason) error {
					visited = append(visited, p.Path.String()+"#"+strconv.Itoa(int(why)))
					return nil
				})
				add(errStr(e) + strconv.Itoa(len(visited)) + ":" + strings.Join(visited, ","))
			}
			cfgSame := func() string { return "cfg:" + strconv.FormatBool(describeCfg(w.cfg) == w.cfgDesc) }
			add(cfgSame())
			n, e := traversal.Progress{Cfg: w.cfg}.Get(w.nodes[0], datamodel.ParsePath("a/1"))
			add(errStr(e))
			if e == nil {
				add(dumpStr(n))
			}
			add(cfgSame())
			// the other entry points, each followed by a look at the shared Config
			e = traversal.Progress{Cfg: w.cfg}.Focus(w.nodes[0], datamodel.ParsePath("b/c"), func(_ traversal.Progress, fn datamodel.Node) error {
				add(dumpStr(fn))
				return nil
			})
			add(errStr(e) + cfgSame())
			adv := 0
			e = traversal.Progress{Cfg: w.cfg}.WalkAdv(w.nodes[0], w.sel, func(traversal.Progress, datamodel.Node, traversal.VisitReason) error { adv++; return nil })
			add(errStr(e) + strconv.Itoa(adv) + cfgSame())
			if k%2 == 0 {
				runtime.Gosched()
			}
			tn, e := traversal.Progress{Cfg: w.cfg}.WalkTransforming(w.nodes[0], w.sel, func(_ traversal.Progress, x datamodel.Node) (datamodel.Node, error) {
				if x.Kind() == datamodel.Kind_Int {
					return basicnode.NewInt(int64(k)), nil
				}
				return x, nil
			})
			add(errStr(e) + cfgSame())
			if e == nil {
				add(dumpStr(tn))
			}
			fn2, e := traversal.Progress{Cfg: w.cfg}.FocusedTransform(w.nodes[0], datamodel.ParsePath("a/0"), func(traversal.Progress, datamodel.Node) (datamodel.Node, error) {
				return basicnode.NewString("t" + strconv.Itoa(k)), nil
			}, false)
			add(errStr(e) + cfgSame())
			if e == nil {
				add(dumpStr(fn2))
			}
			add(dumpStr(w.nodes[0])) // the shared node itself is what it was
			w.finalsMu.Lock()
			w.finals = append(w.finals, cfgSame)
			w.finalsMu.Unlock()
		case "load":
			// Load, ComputeLink, and the raw paths: the blocks LoadRaw / LoadPlusRaw hand back are KEPT and
			// re-verified against their links while this and the other goroutines go on loading other blocks
			type held struct {
				l   datamodel.Link
				raw []byte
			}
			var keep []held
			verify := func() string {
				ok := true
				for _, hb := range keep {
					c, e := hb.l.(cidlink.Link).Cid.Prefix().Sum(hb.raw)
					if e != nil || !c.Equals(hb.l.(cidlink.Link).Cid) {
						ok = false
					}
				}
				return fmt.Sprintf("held%d:%v", len(keep), ok)
			}
			for round := 0; round < 3; round++ {
				for i := range w.links {
					l := w.links[(i+k+round)%len(w.links)]
					n, e := w.lsys.Load(linking.LinkContext{Ctx: context.Background()}, l, basicnode.Prototype.Any)
					add(errStr(e))
					if e == nil {
						add(dumpStr(n))
					}
					raw, e := w.lsys.LoadRaw(linking.LinkContext{Ctx: context.Background()}, l)
					add(errStr(e) + lib.Hex(string(raw)))
					keep = append(keep, held{l, raw})
					runtime.Gosched()
					add(verify())
					n2, raw2, e := w.lsys.LoadPlusRaw(linking.LinkContext{Ctx: context.Background()}, w.links[(i+k+round+1)%len(w.links)], basicnode.Prototype.Any)
					add(errStr(e) + lib.Hex(string(raw2)))
					if e == nil {
						add(dumpStr(n2))
						keep = append(keep, held{w.links[(i+k+round+1)%len(w.links)], raw2})
					}
					add(verify())
					l2, e := w.lsys.ComputeLink(l.Prototype(), w.nodes[(i+k)%len(w.nodes)])
					add(errStr(e))
					if e == nil {
						add(l2.String())
					}
				}
			}
			w.finalsMu.Lock()
			w.finals = append(w.finals, verify)
			w.finalsMu.Unlock()
		case "proto":
			nb := w.recProt.NewBuilder()
			la, _ := nb.BeginMap(3)
			va, _ := la.AssembleEntry("Name")
			va.AssignString("bob" + strconv.Itoa(k))
			va, _ = la.AssembleEntry("Age")
			va.AssignInt(int64(k))
			va, _ = la.AssembleEntry("Tags")
			ta, _ := va.BeginList(1)
			ta.AssembleValue().AssignString("t")
			ta.Finish()
			add(errStr(la.Finish()))
			add(dumpStr(nb.Build()))
			add(dumpStr(nb.Build().(schema.TypedNode).Representation()))
			gb := gendemo.Type.Msg3.NewBuilder()
			ma, _ := gb.BeginMap(3)
			for _, key := range []string{"whee", "woot", "waga"} {
				va, _ := ma.AssembleEntry(key)
				va.AssignInt(int64(k))
			}
			add(errStr(ma.Finish()))
			add(dumpStr(gb.Build()))
			n, e := lib.BuildBasic(valOf("m1,k61,a2,i1,i2"))
			add(errStr(e) + dumpStr(n))
			add(w.ts.TypeByName("Rec").Name())
		case "wrapschema":
			r := &rec{Name: "n" + strconv.Itoa(k), Age: int64(k), Tags: []string{"a"}}
			n := bindnode.Wrap(r, w.recType)
			add(dumpStr(n))
			add(dumpStr(n.Representation()))
		case "wrapinfer":
			// bind a value of a type nobody has bound yet (first inference), use the node for a while,
			// bind a second new type: somebody's inference always runs while somebody uses a node
			f1, f2 := famW, famX
			if w.reference {
				f1, f2 = famR, famS
			}
			n := f1[k%8]()
			for i := 0; i < 12; i++ {
				if i%4 == 0 {
					runtime.Gosched()
				}
				add(dumpStr(n))
			}
			n2 := f2[k%8]()
			add(dumpStr(n2))
			add(dumpStr(n))
		case "clonets":
			add(describeTS(w.ts2))
			if k%2 == 0 {
				// build a private type system out of the shared one; clone single types
				priv := &schema.TypeSystem{}
				priv.Init()
				schema.MergeTypeSystem(priv, w.ts2, false)
				add(describeTS(priv))
				runtime.Gosched()
				schema.MergeTypeSystem(priv, w.ts2, true) // every type is a duplicate now: cloned, then dropped
				add(strconv.Itoa(len(priv.Names())))
				for _, name := range []string{"Shape", "Point", "U", "E", "LP", "MSP"} {
					c := schema.Clone(w.ts2.TypeByName(name))
					add(c.Name() + ":" + c.TypeKind().String() + ":" + strconv.FormatBool(c.TypeSystem() == nil))
				}
				p := bindnode.Wrap(&point{X: int64(k), Y: 2}, priv.TypeByName("Point"))
				add(dumpStr(p))
			} else {
				// use the shared type system: typed nodes over it, both views, encode, copy
				more := &point{X: 5, Y: 6}
				if k%4 == 1 {
					more = nil
				}
				sh := &shape{Name: "s" + strconv.Itoa(k), At: point{X: 1, Y: int64(k)}, Tags: []string{"a", "b"}, More: more}
				n := bindnode.Wrap(sh, w.ts2.TypeByName("Shape"))
				add(dumpStr(n))
				runtime.Gosched()
				add(dumpStr(n.Representation()))
				var buf bytes.Buffer
				add(errStr(dagcbor.Encode(n.Representation(), &buf)) + lib.Hex(buf.String()))
				nb := bindnode.Prototype((*shape)(nil), w.ts2.TypeByName("Shape")).Representation().NewBuilder()
				add(errStr(dagcbor.Decode(nb, bytes.NewReader(buf.Bytes()))))
				add(dumpStr(nb.Build()))
				st := w.ts2.TypeByName("Shape").(*schema.TypeStruct)
				for _, f := range st.Fields() {
					add(f.Name() + ":" + f.Type().Name() + ":" + strconv.FormatBool(f.Parent() == st))
				}
				add(st.Field("at").Type().(*schema.TypeStruct).Field("y").Type().Name())
			}
			runtime.Gosched()
			add(describeTS(w.ts2))
			unchanged := func() string { return "ts:" + strconv.FormatBool(describeTS(w.ts2) == w.ts2Desc) }
			add(unchanged())
			w.finalsMu.Lock()
			w.finals = append(w.finals, unchanged)
			w.finalsMu.Unlock()
		case "stopat":
			for round := 0; round < 6; round++ {
				var sb strings.Builder
				cnt := 0
				e := traversal.Progress{Cfg: w.cfg}.WalkMatching(w.stopRoot, w.stopSel, func(p traversal.Progress, n datamodel.Node) error {
					cnt++
					if n.Kind() == datamodel.Kind_String {
						s, _ := n.AsString()
						sb.WriteString(p.Path.String() + "=" + s + ";")
					}
					return nil
				})
				add(errStr(e) + strconv.Itoa(cnt) + ":" + sb.String())
				if round%2 == 0 {
					runtime.Gosched()
				}
			}
		default:
			panic("kind " + kind)
		}
		return nil
	})
	if err != nil {
		add("panic")
	}
	return out
}

func runThread(w *world, kind string, k int, ops []string, yield *lib.Rng) []string {
	if kind != "basic" {
		if yield != nil && yield.Bool() {
			runtime.Gosched()
		}
		return w.kindOps(kind, k)
	}
	var out []string
	for _, op := range ops {
		if yield != nil && yield.Chance(30) {
			runtime.Gosched()
		}
		out = append(out, w.basicOp(op))
	}
	return out
}

// child: run one scenario; print results=same|differ
func child(kind string, procs, n int, spec string, seed uint64) {
	runtime.GOMAXPROCS(procs)
	shared, threads := "", []string{}
	if kind == "basic" {
		parts := strings.SplitN(spec, "|", 2)
		shared = parts[0]
		threads = strings.Split(parts[1], "/")
		n = len(threads)
	}
	opsOf := func(k int) []string {
		if kind != "basic" {
			return nil
		}
		return strings.Split(threads[k], " ")
	}
	// sequential reference on a fresh, identical world
	ref := setup(kind, shared)
	ref.reference = true
	want := make([][]string, n)
	for k := 0; k < n; k++ {
		if kind == "stream" && k > 0 { // a fresh stream per sequential reader: "what it gets running alone"
			ref = setup(kind, shared)
			ref.reference = true
		}
		want[k] = runThread(ref, kind, k, opsOf(k), nil)
	}
	if os.Getenv("C20_DEBUG") != "" { // what the sequential reference saw
		for k := 0; k < n; k++ {
			fmt.Fprintf(os.Stderr, "want[%d] = %q\n", k, want[k])
		}
	}
	w := setup(kind, shared)
	got := make([][]string, n)
	var wg sync.WaitGroup
	start := make(chan struct{})
	rng := lib.NewRng(seed)
	for k := 0; k < n; k++ {
		wg.Add(1)
		y := rng.Fork()
		go func(k int) {
			defer wg.Done()
			<-start
			got[k] = runThread(w, kind, k, opsOf(k), y)
		}(k)
	}
	close(start)
	wg.Wait()
	same := true
	changed := false
	for _, f := range w.finals { // what the goroutines kept must still be what they were given
		if r := f(); !strings.HasSuffix(r, ":true") {
			same = false
			if strings.HasPrefix(r, "ts:") || strings.HasPrefix(r, "cfg:") {
				changed = true
			}
		}
	}
	for _, f := range ref.finals { // … and a shared object must be what it was after the sequential run as well
		if r := f(); (strings.HasPrefix(r, "ts:") || strings.HasPrefix(r, "cfg:")) && !strings.HasSuffix(r, ":true") {
			changed = true
		}
	}
	for k := 0; k < n; k++ {
		if strings.Join(got[k], "\x00") != strings.Join(want[k], "\x00") {
			same = false
		}
	}
	if changed {
		fmt.Println("results=changed")
	} else if same {
		fmt.Println("results=same")
	} else {
		fmt.Println("results=differ")
	}
}

// ---------------------------------------------------------------- parent

// classify a race report by the functions in its stacks
func classify(report string) string {
	has := func(s string) bool { return strings.Contains(report, s) }
	switch {
	case has("bindnode.inferSchema") || has("bindnode.inferGoType") || (has("TypeSystem).Accumulate") && has("bindnode")):
		// two inferences against each other, or an inference against a type lookup of a bound node?
		stacks := strings.SplitN(report, "Previous ", 2)
		if len(stacks) == 2 {
			inf := func(s string) bool { return strings.Contains(s, "bindnode.inferSchema") }
			if inf(stacks[0]) != inf(stacks[1]) {
				return "race_typesystem_lookup_during_infer"
			}
		}
		return "race_bindnode_default_typesystem"
	case has("traversal.(*Config).init"):
		return "race_traversal_config_init"
	case has("basicnode.(*streamCursor)") || has("basicnode.streamBytes.AsBytes") || has("basicnode.streamBytes.Read") || (has("bytes.(*Reader).Read") && has("basicnode")):
		return "race_streambytes_reader"
	}
	// an unknown race: name it after the first library frame so that it is reported as a new class
	for _, line := range strings.Split(report, "\n") {
		line = strings.TrimSpace(line)
		if strings.HasPrefix(line, "github.com/ipld/go-ipld-prime/") {
			fn := strings.TrimPrefix(line, "github.com/ipld/go-ipld-prime/")
			if i := strings.Index(fn, "("); i > 0 {
				fn = fn[:i]
			}
			return "race_other:" + fn
		}
	}
	return "race_other"
}

func runChild(self, dir, id, kind string, procs, n int, spec string, seed uint64) string {
	logBase := filepath.Join(dir, "race_"+id)
	old, _ := filepath.Glob(logBase + ".*")
	for _, f := range old {
		os.Remove(f)
	}
	cmd := exec.Command(self, "-child", kind, "-procs", strconv.Itoa(procs), "-threads", strconv.Itoa(n), "-spec", spec, "-cseed", strconv.FormatUint(seed, 10))
	cmd.Env = append(os.Environ(), "GORACE=halt_on_error=0 atexit_sleep_ms=0 log_path="+logBase)
	var stdout, stderr bytes.Buffer
	cmd.Stdout, cmd.Stderr = &stdout, &stderr
	err := cmd.Run()
	logs, _ := filepath.Glob(logBase + ".*")
	var report strings.Builder
	for _, f := range logs {
		b, _ := os.ReadFile(f)
		report.Write(b)
	}
	res := "?"
	for _, line := range strings.Split(stdout.String(), "\n") {
		if strings.HasPrefix(line, "results=") {
			res = strings.TrimPrefix(line, "results=")
		}
	}
	if strings.Contains(report.String(), "DATA RACE") {
		classes := map[string]bool{}
		for _, blk := range strings.Split(report.String(), "==================") {
			if strings.Contains(blk, "DATA RACE") {
				classes[classify(blk)] = true
			}
		}
		var cs []string
		for c := range classes {
			cs = append(cs, c)
		}
		sort.Strings(cs)
		// keep the head of the report next to the case for the record
		os.WriteFile(filepath.Join(dir, "report_"+id+".txt"), []byte(firstLines(report.String(), 40)), 0o644)
		return "race:" + strings.Join(cs, ",") + "@" + topFrames(report.String(), 3)
	}
	if res == "?" {
		what := "noresult"
		if err != nil {
			what = "exit"
		}
		if strings.Contains(stderr.String(), "panic:") || strings.Contains(stderr.String(), "fatal error:") {
			what = "crash"
		}
		return "childfail:" + what
	}
	return "norace;" + res
}

// the first library frames of the first report, innermost first (no addresses, no line numbers)
func topFrames(report string, n int) string {
	var fs []string
	for _, line := range strings.Split(report, "\n") {
		t := strings.TrimSpace(line)
		if strings.HasPrefix(t, "github.com/ipld/go-ipld-prime/") && strings.HasSuffix(t, "()") {
			fn := strings.TrimSuffix(strings.TrimPrefix(t, "github.com/ipld/go-ipld-prime/"), "()")
			if len(fs) == 0 || fs[len(fs)-1] != fn {
				fs = append(fs, fn)
			}
			if len(fs) == n {
				break
			}
		}
	}
	return strings.Join(fs, "<")
}

// probe: does bindnode remember the schema it inferred for a Go type (79791b2: memo + mutex), or does
// a second Wrap of the same type register the same name again and panic?
func probeRewrap() string {
	err := lib.Safely(func() error {
		bindnode.Wrap(&P0{A: 1}, nil)
		bindnode.Wrap(&P0{A: 2}, nil)
		return nil
	})
	if err != nil {
		return "panic"
	}
	return "ok"
}

// probe: does a schema.TypeSystem carry a lock for its registry?
func probeTsSync() string {
	t := reflect.TypeOf(schema.TypeSystem{})
	for i := 0; i < t.NumField(); i++ {
		if strings.Contains(t.Field(i).Type.String(), "sync.") {
			return "lock"
		}
	}
	return "none"
}

// probe: does a traversal write its defaults into the caller's Config?
func probeCfgInit() string {
	cfg := &traversal.Config{}
	n, _ := lib.BuildBasic(valOf("a1,i1"))
	err := traversal.Progress{Cfg: cfg}.WalkMatching(n, allSelector(), func(traversal.Progress, datamodel.Node) error { return nil })
	switch {
	case err != nil:
		return "error"
	case cfg.Ctx != nil || cfg.LinkTargetNodePrototypeChooser != nil:
		return "writes"
	}
	return "pure"
}

// probe: what does a second AsBytes of a streamBytes node return on this tree?
func probeStream() string {
	n := basicnode.NewBytesFromReader(bytes.NewReader([]byte("abc")))
	a, _ := n.AsBytes()
	b, _ := n.AsBytes()
	switch {
	case string(a) == "abc" && string(b) == "abc":
		return "full"
	case string(a) == "abc" && string(b) == "":
		return "empty"
	}
	return "other"
}

func firstLines(s string, n int) string {
	l := strings.Split(s, "\n")
	if len(l) > n {
		l = l[:n]
	}
	return strings.Join(l, "\n")
}

func main() {
	childKind := flag.String("child", "", "run one scenario (internal)")
	procs := flag.Int("procs", 2, "")
	nthreads := flag.Int("threads", 4, "")
	spec := flag.String("spec", "", "")
	cseed := flag.Uint64("cseed", 1, "")
	fl := lib.ParseFlags()
	if *childKind != "" {
		child(*childKind, *procs, *nthreads, *spec, *cseed)
		return
	}
	self, err := os.Executable()
	if err != nil {
		panic(err)
	}
	out := lib.OpenOut(fl.Out)
	defer out.Close()
	out.Case("probe0", "probe", "stream="+probeStream()+";cfginit="+probeCfgInit()+";rewrap="+probeRewrap()+";tssync="+probeTsSync())
	dir := filepath.Join(filepath.Dir(fl.Out), "c20_children")
	if fl.Out == "" {
		dir = filepath.Join(os.TempDir(), "c20_children")
	}
	os.MkdirAll(dir, 0o755)
	run := func(id, kind string, procs, n int, spec string) {
		obs := runChild(self, dir, id, kind, procs, n, spec, fl.Seed+uint64(len(id)))
		out.Case(id, kind, strconv.Itoa(procs), strconv.Itoa(n), spec, obs)
	}
	if fl.Replay != "" {
		for _, line := range lib.ReadLines(fl.Replay) {
			f := strings.Split(line, "\t")
			if len(f) < 5 || f[1] == "probe" {
				continue
			}
			p, _ := strconv.Atoi(f[2])
			n, _ := strconv.Atoi(f[3])
			run(f[0], f[1], p, n, f[4])
		}
		return
	}
	n := fl.N
	if n == 0 {
		n = 36
		if fl.Tier == "thorough" {
			n = 1500
		}
	}
	rng := lib.NewRng(fl.Seed)
	id := 0
	next := func() string { id++; return fmt.Sprintf("s%d", id) }
	// the fixed scenario kinds under every GOMAXPROCS
	for _, p := range []int{1, 2, 16} {
		for _, kind := range []string{"bindviews", "walkcfg", "load", "proto", "wrapschema", "stream", "walklazy", "wrapinfer", "clonets", "stopat", "walknoctx", "walknochooser"} {
			run(next(), kind, p, 2+rng.Intn(6), "-")
		}
	}
	// generated "basic" scenarios
	for i := 0; i < n; i++ {
		run(next(), "basic", []int{1, 2, 16}[i%3], 0, genBasic(rng.Fork()))
	}
}
