// c02: DAG-CBOR encoding is canonical, order-independent, round-trips; EncodedLength agrees.
// Record: id, "enc", sortmode, allowlinks, holder, value-as-inserted, observation
// observation = <ok:hex | err:class> "|" <len:n | lenerr> "|" <dec:dump | decerr:class | ->
package main

import (
	"bytes"
	"fmt"
	"strings"

	"verifharness/lib"

	"github.com/ipld/go-ipld-prime/codec"
	"github.com/ipld/go-ipld-prime/codec/cbor"
	"github.com/ipld/go-ipld-prime/codec/dagcbor"
	"github.com/ipld/go-ipld-prime/multicodec"
	"github.com/ipld/go-ipld-prime/datamodel"
	"github.com/ipld/go-ipld-prime/node/basicnode"
)

var sortNames = map[string]codec.MapSortMode{"none": codec.MapSortMode_None, "lex": codec.MapSortMode_Lexical, "rfc": codec.MapSortMode_RFC7049}

func observe(n datamodel.Node, sortmode string, links bool) string {
	var sb strings.Builder
	var buf bytes.Buffer
	before := lib.Dump(n)
	err := lib.Safely(func() error {
		switch entryKind {
		case 1: // the package-level functions registered as the codecs: dag-cbor (rfc order, links) and cbor (no sorting, no links)
			if links {
				return dagcbor.Encode(n, &buf)
			}
			return cbor.Encode(n, &buf)
		case 2: // whatever the default multicodec registry hands out for 0x71 / 0x51
			code := uint64(0x71)
			if !links {
				code = 0x51
			}
			enc, err := multicodec.LookupEncoder(code)
			if err != nil {
				return err
			}
			return enc(n, &buf)
		}
		return dagcbor.EncodeOptions{AllowLinks: links, MapSortMode: sortNames[sortmode]}.Encode(n, &buf)
	})
	if err != nil {
		if lib.IsPanic(err) {
			sb.WriteString("err:panic")
		} else if strings.Contains(err.Error(), "links") {
			sb.WriteString("err:link")
		} else {
			sb.WriteString("err:other")
		}
	} else {
		sb.WriteString("ok:" + lib.Hex(buf.String()))
	}
	sb.WriteByte('|')
	var l int64
	lerr := lib.Safely(func() error { var e error; l, e = dagcbor.EncodedLength(n); return e })
	if lerr != nil {
		sb.WriteString("lenerr")
	} else {
		fmt.Fprintf(&sb, "len:%d", l)
	}
	sb.WriteByte('|')
	if err == nil {
		nb := basicnode.Prototype.Any.NewBuilder()
		derr := lib.Safely(func() error {
			return dagcbor.DecodeOptions{AllowLinks: links}.Decode(nb, bytes.NewReader(buf.Bytes()))
		})
		if derr != nil {
			sb.WriteString("decerr:" + lib.CborErrClass(derr))
		} else {
			sb.WriteString("dec:" + lib.Dump(nb.Build()))
		}
	} else {
		sb.WriteString("-")
	}
	// encoding must not change the node it encodes (a finished node is immutable)
	after := ""
	if lib.Safely(func() error { after = lib.Dump(n); return nil }) != nil || after != before {
		sb.WriteString("|src:changed")
	} else {
		sb.WriteString("|src:same")
	}
	return sb.String()
}

// failWriter accepts `left` bytes and then fails every write
type failWriter struct{ left int }

func (w *failWriter) Write(p []byte) (int, error) {
	if len(p) <= w.left {
		w.left -= len(p)
		return len(p), nil
	}
	n := w.left
	w.left = 0
	return n, fmt.Errorf("injected write failure")
}

// entryKind: 0 = EncodeOptions{...}.Encode; 1 = dagcbor.Encode / cbor.Encode; 2 = the encoder registered under 0x71 / 0x51.
// 1 and 2 are used only with the settings those entry points stand for ("rfc"+links = dag-cbor, "none"+no links = cbor);
// the record's id then ends in .e1 / .e2, which is all a replay needs.
var entryKind int

func runCase(out *lib.Out, id string, sortmode string, links bool, holder string, v *lib.Val) {
	entryKind = 0
	if strings.HasSuffix(id, ".e1") || strings.HasSuffix(id, ".e2") {
		entryKind = int(id[len(id)-1] - '0')
	}
	defer func() { entryKind = 0 }()
	var n datamodel.Node
	err := lib.Safely(func() error {
		var e error
		n, e = lib.BuildHolder(holder, v)
		return e
	})
	l := "0"
	if links {
		l = "1"
	}
	if err != nil {
		out.Case(id, "enc", sortmode, l, holder, v.Text(), "builderr")
		return
	}
	out.Case(id, "enc", sortmode, l, holder, v.Text(), observe(n, sortmode, links))
}

func main() {
	fl := lib.ParseFlags()
	out := lib.OpenOut(fl.Out)
	defer out.Close()
	if fl.Replay != "" {
		for _, line := range lib.ReadLines(fl.Replay) {
			f := strings.Split(line, "\t")
			if len(f) < 6 || f[1] != "enc" {
				continue
			}
			v, err := lib.ParseVal(f[5])
			if err != nil {
				panic(err)
			}
			runCase(out, f[0], f[2], f[3] == "1", f[4], v)
		}
		return
	}
	n := fl.N
	if n == 0 {
		n = 3000
		if fl.Tier == "thorough" {
			n = 150000
		}
	}
	rng := lib.NewRng(fl.Seed)
	cfg := &lib.GenCfg{MaxDepth: 4, MaxWidth: 5, Links: true, UintBeyond: true, BadUTF8: true, BigStrings: true}
	// corpus first: boundary scalars, each alone
	id := 0
	next := func() string { id++; return fmt.Sprintf("c%d", id) }
	for _, i := range lib.IntPool {
		runCase(out, next(), "rfc", true, "basic", &lib.Val{Kind: lib.KInt, I: i})
	}
	for _, i := range lib.IntPool {
		if i.Sign() >= 0 {
			runCase(out, next(), "rfc", true, "basicuint", &lib.Val{Kind: lib.KInt, I: i})
		}
	}
	for _, f := range lib.FloatPool {
		runCase(out, next(), "rfc", true, "basic", lib.FloatBits(f))
	}
	for _, ln := range []int{0, 23, 24, 255, 256, 65535, 65536} {
		runCase(out, next(), "rfc", true, "basic", lib.Str(strings.Repeat("x", ln)))
		runCase(out, next(), "rfc", true, "basic", lib.Bytes(strings.Repeat("y", ln)))
	}
	// wide containers: more entries than sort.Slice's insertion-sort threshold with many equal-length keys, the
	// count-head boundaries, and more entries than the decoder's default depth limit with containers at late
	// positions (per-position bookkeeping must not leak between siblings)
	wides := []int{13, 14, 20, 25, 33, 64, 257, 1023, 1024, 1025, 1100}
	nw := 2
	if fl.Tier == "thorough" {
		nw = 8
	}
	for _, w := range wides {
		for rep := 0; rep < nw; rep++ {
			if w > 300 && rep >= (nw+1)/2 {
				continue
			}
			for shape := 0; shape < 2; shape++ {
				v := rng.GenWide(cfg, shape, w)
				base := next()
				runCase(out, base+".0", "rfc", true, "basic", v)
				runCase(out, base+".1", "rfc", true, "basic", rng.Permuted(v))
				if rep == 0 && w < 100 {
					runCase(out, base+".lex", "lex", true, "basic", rng.Permuted(v))
					runCase(out, base+".none", "none", true, "basic", rng.Permuted(v))
				}
			}
		}
	}
	for i := 0; i < n; i++ {
		v := rng.GenVal(cfg, 0)
		if i%7 == 0 { // force a map at the root fairly often: key order is the heart of C02
			v = &lib.Val{Kind: lib.KMap}
			cnt := rng.Intn(8)
			seen := map[string]bool{}
			for j := 0; j < cnt; j++ {
				k := rng.GenStr(cfg)
				if seen[k] {
					continue
				}
				seen[k] = true
				v.M = append(v.M, lib.Entry{K: k, V: rng.GenVal(cfg, 2)})
			}
		}
		base := next()
		holders := lib.HoldersFor(v)
		for p := 0; p < 3; p++ {
			pv := v
			if p > 0 {
				pv = rng.Permuted(v)
			}
			h := holders[rng.Intn(len(holders))]
			runCase(out, fmt.Sprintf("%s.%d", base, p), "rfc", true, h, pv)
		}
		if i%5 == 0 {
			runCase(out, base+".u", "rfc", true, "basicuint", v)
		}
		if i%4 == 0 { // the registered entry points, as dag-cbor and as plain cbor
			pv := rng.Permuted(v)
			runCase(out, base+".d.e1", "rfc", true, "basic", pv)
			runCase(out, base+".d.e2", "rfc", true, "basic", pv)
			runCase(out, base+".c.e1", "none", false, "basic", pv)
			runCase(out, base+".c.e2", "none", false, "basic", pv)
		}
		if i%11 == 0 {
			// state carried across calls: an Encode into a writer that fails part-way must not
			// influence any later Encode (the next cases are the witnesses)
			if n, err := lib.BuildBasic(v); err == nil {
				var full bytes.Buffer
				if dagcbor.Encode(n, &full) == nil && full.Len() > 0 {
					fw := &failWriter{left: rng.Intn(full.Len())}
					_ = lib.Safely(func() error { return dagcbor.Encode(n, fw) })
				}
			}
		}
		switch rng.Intn(6) {
		case 0:
			runCase(out, base+".lex", "lex", true, "basic", rng.Permuted(v))
		case 1:
			runCase(out, base+".none", "none", true, "basic", rng.Permuted(v))
		case 2:
			runCase(out, base+".nolink", "rfc", false, "basic", v)
		}
	}
}
