package main

// The operations a C19 record describes, run against the real bindnode / codecHelpers code.

import (
	"bytes"
	"errors"
	"reflect"
	"strings"

	ipld "github.com/ipld/go-ipld-prime"
	"github.com/ipld/go-ipld-prime/codec"
	"github.com/ipld/go-ipld-prime/codec/dagcbor"
	"github.com/ipld/go-ipld-prime/codec/dagjson"
	"github.com/ipld/go-ipld-prime/datamodel"
	"github.com/ipld/go-ipld-prime/node/basicnode"
	"github.com/ipld/go-ipld-prime/node/bindnode"
	"github.com/ipld/go-ipld-prime/schema"

	"verifharness/lib"
)

// errClass maps an error or panic onto the model's small enum.
func errClass(err error) string {
	if err == nil {
		return "ok"
	}
	msg := err.Error()
	if lib.IsPanic(err) {
		switch {
		case strings.Contains(msg, "duplicate type name"):
			return "panic:dup"
		case strings.Contains(msg, "unable to infer"), strings.Contains(msg, "anonymous composite"), strings.Contains(msg, "cyclic"):
			return "panic:infer"
		case strings.Contains(msg, "is not compatible with Go type"):
			return "panic:compat"
		}
		return "panic:other"
	}
	var wk datamodel.ErrWrongKind
	var mr schema.ErrMissingRequiredField
	var nu schema.ErrNotUnionStructure
	switch {
	case errors.As(err, &wk):
		return "err:wrongkind"
	case errors.As(err, &mr):
		return "err:missing"
	case errors.As(err, &nu):
		return "err:union"
	case strings.Contains(msg, "invalid key"):
		return "err:invalidkey"
	case strings.Contains(msg, "cannot assign negative"):
		return "err:neguint"
	case strings.Contains(msg, "integer overflow"):
		return "err:overflow"
	case strings.Contains(msg, "does not fit"), strings.Contains(msg, "out of range"):
		return "err:range"
	}
	return "err:other"
}

// safeDump renders a node; any API error inside the walk gives "viewerr", a panic "panic:other".
func safeDump(n datamodel.Node) string {
	var s string
	err := lib.Safely(func() error { s = dumpTyped(n); return nil })
	if err != nil {
		return "panic:other"
	}
	if strings.Contains(s, "!") {
		return "viewerr"
	}
	return s
}

func schemaFor(e *typeEntry, mode string) schema.Type {
	if mode == "i" {
		return nil
	}
	return e.schemaType()
}

func encoderFor(c string) codec.Encoder {
	if c == "json" {
		return dagjson.Encode
	}
	return dagcbor.Encode
}
func decoderFor(c string) codec.Decoder {
	if c == "json" {
		return dagjson.Decode
	}
	return dagcbor.Decode
}

// opWrap: Wrap(&v, t) -> [inferred schema |] type-level dump | representation dump | unwrap check
func opWrap(e *typeEntry, mode, gvtext string) string {
	v := parseGv(gvtext, e.goType())
	ptr := v.Addr().Interface()
	var node schema.TypedNode
	err := lib.Safely(func() error { node = bindnode.Wrap(ptr, schemaFor(e, mode)); return nil })
	if err != nil {
		return errClass(err)
	}
	var sb strings.Builder
	sb.WriteString("ok:")
	if mode == "i" {
		sb.WriteString(styText(node.Type()))
		sb.WriteByte('|')
	}
	sb.WriteString(safeDump(node))
	sb.WriteByte('|')
	var rn datamodel.Node
	if err := lib.Safely(func() error { rn = node.Representation(); return nil }); err != nil {
		sb.WriteString("panic:other")
	} else {
		sb.WriteString(safeDump(rn))
	}
	sb.WriteByte('|')
	un := bindnode.Unwrap(node)
	if un == ptr && gvText(reflect.ValueOf(un).Elem()) == gvtext {
		sb.WriteString("same")
	} else {
		sb.WriteString("diff")
	}
	return sb.String()
}

func assembleInto(nb datamodel.NodeBuilder, d *lib.Val) (datamodel.Node, error) {
	var n datamodel.Node
	err := lib.Safely(func() error {
		if err := lib.Assemble(nb, d); err != nil {
			return err
		}
		n = nb.Build()
		return nil
	})
	return n, err
}

// opBuild: Prototype((*T)(nil), t), build d at the given level, Unwrap
func opBuild(e *typeEntry, mode, level, dmtext string) string {
	d, perr := lib.ParseVal(dmtext)
	if perr != nil {
		panic(perr)
	}
	var proto schema.TypedPrototype
	err := lib.Safely(func() error { proto = bindnode.Prototype(e.ptr, schemaFor(e, mode)); return nil })
	if err != nil {
		return errClass(err)
	}
	var nb datamodel.NodeBuilder
	if level == "R" {
		nb = proto.Representation().NewBuilder()
	} else {
		nb = proto.NewBuilder()
	}
	n, err := assembleInto(nb, d)
	if err != nil {
		return errClass(err)
	}
	g := bindnode.Unwrap(n)
	view := n
	if level == "R" {
		if err := lib.Safely(func() error { view = n.(schema.TypedNode).Representation(); return nil }); err != nil {
			return "ok:" + gvText(reflect.ValueOf(g).Elem()) + "|panic:other"
		}
	}
	return "ok:" + gvText(reflect.ValueOf(g).Elem()) + "|" + safeDump(view)
}

// opBuildGo: Prototype(nil, t): the Go type is inferred from the schema.  level T = type-level
// builder, R = representation builder, C = dag-cbor bytes decoded through the prototype.
func opBuildGo(st schema.Type, level, dmtext string) string {
	d, perr := lib.ParseVal(dmtext)
	if perr != nil {
		panic(perr)
	}
	var proto schema.TypedPrototype
	err := lib.Safely(func() error { proto = bindnode.Prototype(nil, st); return nil })
	if err != nil {
		return errClass(err)
	}
	var n datamodel.Node
	switch level {
	case "C":
		b, eerr := encodeDm("cbor", d)
		if eerr != nil {
			return "unencodable"
		}
		err = lib.Safely(func() error {
			var derr error
			n, derr = ipld.DecodeUsingPrototype(b, dagcbor.Decode, proto)
			return derr
		})
	case "R":
		n, err = assembleInto(proto.Representation().NewBuilder(), d)
	default:
		n, err = assembleInto(proto.NewBuilder(), d)
	}
	if err != nil {
		return errClass(err)
	}
	g := reflect.ValueOf(bindnode.Unwrap(n)).Elem()
	view := n
	if level != "T" {
		if err := lib.Safely(func() error { view = n.(schema.TypedNode).Representation(); return nil }); err != nil {
			return "ok:" + shapeText(g.Type()) + "|" + gvText(g) + "|panic:other"
		}
	}
	return "ok:" + shapeText(g.Type()) + "|" + gvText(g) + "|" + safeDump(view)
}

// opMarshal: ipld.Marshal, observed as the data model content of the produced bytes
func opMarshal(e *typeEntry, mode, cdc, gvtext string) string {
	v := parseGv(gvtext, e.goType())
	var b []byte
	err := lib.Safely(func() error {
		var err error
		b, err = ipld.Marshal(encoderFor(cdc), v.Addr().Interface(), schemaFor(e, mode))
		return err
	})
	if err != nil {
		if lib.IsPanic(err) {
			return errClass(err)
		}
		return "encerr"
	}
	nb := basicnode.Prototype.Any.NewBuilder()
	if err := lib.Safely(func() error { return decoderFor(cdc)(nb, bytes.NewReader(b)) }); err != nil {
		return "undecodable"
	}
	return "ok:" + lib.Dump(nb.Build())
}

func encodeDm(cdc string, d *lib.Val) ([]byte, error) {
	n, err := lib.BuildBasic(d)
	if err != nil {
		return nil, err
	}
	var buf bytes.Buffer
	if err := encoderFor(cdc)(n, &buf); err != nil {
		return nil, err
	}
	return buf.Bytes(), nil
}

// opUnmarshal: ipld.Unmarshal of the encoding of d into a fresh value
func opUnmarshal(e *typeEntry, mode, cdc, dmtext string) string {
	d, perr := lib.ParseVal(dmtext)
	if perr != nil {
		panic(perr)
	}
	b, err := encodeDm(cdc, d)
	if err != nil {
		return "unencodable"
	}
	return unmarshalBytes(e, mode, cdc, b)
}

func unmarshalBytes(e *typeEntry, mode, cdc string, b []byte) string {
	fresh := reflect.New(e.goType())
	err := lib.Safely(func() error {
		_, err := ipld.Unmarshal(b, decoderFor(cdc), fresh.Interface(), schemaFor(e, mode))
		return err
	})
	if err != nil {
		return errClass(err)
	}
	return "ok:" + gvText(fresh.Elem())
}

// opRt: Marshal then Unmarshal into a fresh value of the same type
func opRt(e *typeEntry, cdc, gvtext string) string {
	v := parseGv(gvtext, e.goType())
	var b []byte
	err := lib.Safely(func() error {
		var err error
		b, err = ipld.Marshal(encoderFor(cdc), v.Addr().Interface(), e.schemaType())
		return err
	})
	if err != nil {
		if lib.IsPanic(err) {
			return "enc:" + errClass(err)
		}
		return "encerr"
	}
	return unmarshalBytes(e, "x", cdc, b)
}

// opCompat: does Prototype accept the pair?
func opCompat(goEntry *typeEntry, st schema.Type) string {
	err := lib.Safely(func() error { bindnode.Prototype(goEntry.ptr, st); return nil })
	return errClass(err)
}

// viewOf: the type-level or representation-level content of a well-formed value, as a Val
func viewOf(e *typeEntry, v reflect.Value, level string) (*lib.Val, bool) {
	var s string
	err := lib.Safely(func() error {
		n := bindnode.Wrap(v.Addr().Interface(), e.schemaType())
		var dn datamodel.Node = n
		if level == "R" {
			dn = n.Representation()
		}
		s = dumpTyped(dn)
		return nil
	})
	if err != nil || strings.Contains(s, "!") {
		return nil, false
	}
	val, perr := lib.ParseVal(s)
	if perr != nil {
		return nil, false
	}
	return val, true
}

func safeDumpLive(n datamodel.Node, typed bool) string {
	var s string
	err := lib.Safely(func() error { s = dumpLive(n, typed); return nil })
	if err != nil {
		return "panic:other"
	}
	if strings.Contains(s, "!") {
		if strings.Contains(s, "!len") || strings.Contains(s, "!lookup") {
			return "inconsistent"
		}
		return "viewerr"
	}
	return s
}

func encodeNode(cdc string, n datamodel.Node) string {
	var b []byte
	err := lib.Safely(func() error {
		var err error
		b, err = ipld.Encode(n, encoderFor(cdc))
		return err
	})
	if err != nil {
		if lib.IsPanic(err) {
			return "panic:other"
		}
		return "encerr"
	}
	nb := basicnode.Prototype.Any.NewBuilder()
	if err := lib.Safely(func() error { return decoderFor(cdc)(nb, bytes.NewReader(b)) }); err != nil {
		return "undecodable"
	}
	return lib.Dump(nb.Build())
}

// opLive: one node from Wrap(&v, t) is read (both levels, lengths, lookups, encoding of its
// representation), the Go value behind the pointer is replaced by another value of the same type,
// and the SAME node and the same representation node are read again, plus a representation node
// obtained afresh from the old node.
func opLive(e *typeEntry, cdc, gv1, gv2 string) string {
	v := parseGv(gv1, e.goType())
	ptr := v.Addr().Interface()
	var node schema.TypedNode
	err := lib.Safely(func() error { node = bindnode.Wrap(ptr, e.schemaType()); return nil })
	if err != nil {
		return errClass(err)
	}
	var rn datamodel.Node
	if err := lib.Safely(func() error { rn = node.Representation(); return nil }); err != nil {
		return "panic:other"
	}
	read := func(withFresh bool) string {
		parts := []string{safeDumpLive(node, true), safeDumpLive(rn, false)}
		if withFresh {
			var rn2 datamodel.Node
			if err := lib.Safely(func() error { rn2 = node.Representation(); return nil }); err != nil {
				parts = append(parts, "panic:other")
			} else {
				parts = append(parts, safeDumpLive(rn2, false))
			}
		}
		parts = append(parts, encodeNode(cdc, rn))
		return strings.Join(parts, "|")
	}
	first := read(false)
	v.Set(parseGv(gv2, e.goType()))
	second := read(true)
	return "ok:" + first + ";" + second
}
