package main

// Random well-formed Go values for a (Go type, schema type) pair: width extremes for integers,
// nil/non-nil pointers where the schema allows, ordered-map structs with consistent Keys/Values,
// union structs with exactly one member, enum fields holding members.

import (
	"math"
	"reflect"

	cid "github.com/ipfs/go-cid"
	"github.com/ipld/go-ipld-prime/datamodel"
	cidlink "github.com/ipld/go-ipld-prime/linking/cid"
	"github.com/ipld/go-ipld-prime/schema"

	"verifharness/lib"
)

type genCfg struct {
	rng      *lib.Rng
	jsonSafe bool // no ints >= 2^63, no integral floats (dag-json encodes those as ints: C04)
	maxLen   int
}

func (g *genCfg) intFor(k reflect.Kind) int64 {
	r := g.rng
	bits := map[reflect.Kind]uint{reflect.Int8: 8, reflect.Int16: 16, reflect.Int32: 32, reflect.Int64: 64, reflect.Int: 64}[k]
	lo := -(int64(1) << (bits - 1))
	hi := int64(1)<<(bits-1) - 1
	switch r.Intn(8) {
	case 0:
		return lo
	case 1:
		return hi
	case 2:
		return 0
	case 3:
		return -1
	case 4:
		return lo + int64(r.Intn(3))
	case 5:
		return hi - int64(r.Intn(3))
	default:
		v := int64(r.U64())
		if bits < 64 {
			v >>= (64 - bits)
		}
		if r.Bool() {
			v = int64(r.Intn(2000)) - 1000
			if v < lo {
				v = lo
			}
			if v > hi {
				v = hi
			}
		}
		return v
	}
}

func (g *genCfg) uintFor(k reflect.Kind) uint64 {
	r := g.rng
	bits := map[reflect.Kind]uint{reflect.Uint8: 8, reflect.Uint16: 16, reflect.Uint32: 32, reflect.Uint64: 64, reflect.Uint: 64}[k]
	var hi uint64 = math.MaxUint64
	if bits < 64 {
		hi = uint64(1)<<bits - 1
	}
	var v uint64
	switch r.Intn(8) {
	case 0:
		v = 0
	case 1:
		v = hi
	case 2:
		v = hi - uint64(r.Intn(3))
	case 3:
		v = hi/2 + uint64(r.Intn(3)) // around the sign bit
	case 4:
		v = uint64(r.Intn(300))
	default:
		v = r.U64() & hi
	}
	if g.jsonSafe && v > math.MaxInt64 {
		v &= math.MaxInt64
	}
	return v
}

func (g *genCfg) float(single bool) float64 {
	for {
		v := g.rng.GenFloat(&lib.GenCfg{})
		f := math.Float64frombits(v.F)
		if single {
			f = float64(float32(f))
			if math.IsInf(f, 0) {
				continue
			}
		}
		if g.jsonSafe && f == math.Trunc(f) {
			continue
		}
		return f
	}
}

var strCfg = &lib.GenCfg{}

func (g *genCfg) link() cidlink.Link {
	c, err := cid.Cast([]byte(g.rng.GenCid()))
	if err != nil {
		panic(err)
	}
	return cidlink.Link{Cid: c}
}

func (g *genCfg) anyNode() datamodel.Node {
	cfg := &lib.GenCfg{MaxDepth: 2, MaxWidth: 3, Links: true, UintBeyond: !g.jsonSafe, NoNull: true, NoFloat: g.jsonSafe}
	for {
		v := g.rng.GenVal(cfg, 0)
		if v.Kind == lib.KNull || hasNull(v) || (g.jsonSafe && hasSlashKey(v)) {
			continue
		}
		n, err := lib.BuildBasic(v)
		if err != nil {
			panic(err)
		}
		return n
	}
}

func hasNull(v *lib.Val) bool { return v.KindMask()&(1<<lib.KNull) != 0 }

func hasSlashKey(v *lib.Val) bool {
	for _, x := range v.L {
		if hasSlashKey(x) {
			return true
		}
	}
	for _, e := range v.M {
		if e.K == "/" || hasSlashKey(e.V) {
			return true
		}
	}
	return false
}

// gen fills v (settable, zero) with a random value that is well formed for schema type st.
// st == nil: the type is used with an inferred schema (no unions, maps or enums there).
func (g *genCfg) gen(v reflect.Value, st schema.Type, depth int) {
	t := v.Type()
	r := g.rng
	switch {
	case t == tLink:
		v.Set(reflect.ValueOf(g.link()))
		return
	case t == tNode:
		v.Set(reflect.ValueOf(g.anyNode()))
		return
	case t == tCidLink:
		v.Set(reflect.ValueOf(g.link()))
		return
	case t == tCid:
		v.Set(reflect.ValueOf(g.link().Cid))
		return
	}
	switch t.Kind() {
	case reflect.Bool:
		v.SetBool(r.Bool())
	case reflect.Int8, reflect.Int16, reflect.Int32, reflect.Int64, reflect.Int:
		if en, ok := st.(*schema.TypeEnum); ok {
			stg := en.RepresentationStrategy().(schema.EnumRepresentation_Int)
			ms := en.Members()
			v.SetInt(int64(stg[ms[r.Intn(len(ms))]]))
			return
		}
		v.SetInt(g.intFor(t.Kind()))
	case reflect.Uint8, reflect.Uint16, reflect.Uint32, reflect.Uint64, reflect.Uint:
		v.SetUint(g.uintFor(t.Kind()))
	case reflect.Float32:
		v.SetFloat(g.float(true))
	case reflect.Float64:
		v.SetFloat(g.float(false))
	case reflect.String:
		if en, ok := st.(*schema.TypeEnum); ok {
			ms := en.Members()
			v.SetString(ms[r.Intn(len(ms))])
			return
		}
		str := r.GenStr(strCfg)
		if g.jsonSafe && str == "/" {
			// {"/": ...} is DAG-JSON's reserved form for links and bytes (C04's business)
			str = "/x"
		}
		v.SetString(str)
	case reflect.Ptr:
		// a pointer for a required position: always set
		nv := reflect.New(t.Elem())
		g.gen(nv.Elem(), st, depth)
		v.Set(nv)
	case reflect.Slice:
		if t.Elem().Kind() == reflect.Uint8 {
			c := lib.GenCfg{BadUTF8: true}
			v.SetBytes([]byte(r.GenStr(&c)))
			return
		}
		var et schema.Type
		nullable := false
		if lt, ok := st.(*schema.TypeList); ok {
			et = lt.ValueType()
			nullable = lt.ValueIsNullable()
		}
		n := r.Intn(g.maxLen + 1)
		if depth > 3 {
			n = r.Intn(2)
		}
		if n == 0 {
			return // the empty list is the nil slice
		}
		s := reflect.MakeSlice(t, n, n)
		for i := 0; i < n; i++ {
			g.genMaybe(s.Index(i), et, false, nullable, depth+1)
		}
		v.Set(s)
	case reflect.Struct:
		switch st := st.(type) {
		case *schema.TypeMap:
			n := r.Intn(g.maxLen + 1)
			keys := reflect.MakeSlice(t.Field(0).Type, 0, n)
			vals := reflect.MakeMap(t.Field(1).Type)
			seen := map[string]bool{}
			for i := 0; i < n; i++ {
				k := r.GenStr(strCfg)
				if g.jsonSafe && k == "/" {
					k = "/x"
				}
				if seen[k] {
					continue
				}
				seen[k] = true
				kv := reflect.New(t.Field(0).Type.Elem()).Elem()
				kv.SetString(k)
				ev := reflect.New(t.Field(1).Type.Elem()).Elem()
				g.genMaybe(ev, st.ValueType(), false, st.ValueIsNullable(), depth+1)
				keys = reflect.Append(keys, kv)
				vals.SetMapIndex(kv, ev)
			}
			if keys.Len() > 0 {
				v.Field(0).Set(keys)
			}
			v.Field(1).Set(vals)
		case *schema.TypeUnion:
			ms := st.Members()
			i := r.Intn(len(ms))
			nv := reflect.New(t.Field(i).Type.Elem())
			g.gen(nv.Elem(), ms[i], depth+1)
			v.Field(i).Set(nv)
		case *schema.TypeStruct:
			fs := st.Fields()
			for i := 0; i < t.NumField(); i++ {
				g.genMaybe(v.Field(i), fs[i].Type(), fs[i].IsOptional(), fs[i].IsNullable(), depth+1)
			}
		default: // inferred schema: plain struct
			for i := 0; i < t.NumField(); i++ {
				g.gen(v.Field(i), nil, depth+1)
			}
		}
	default:
		panic("gen: unsupported kind " + t.Kind().String())
	}
}

// genMaybe fills a position that may be optional and/or nullable.
func (g *genCfg) genMaybe(v reflect.Value, st schema.Type, opt, nul bool, depth int) {
	r := g.rng
	t := v.Type()
	switch {
	case opt && nul:
		switch r.Intn(3) {
		case 0: // absent
		case 1: // null
			v.Set(reflect.New(t.Elem()))
		default:
			inner := reflect.New(t.Elem().Elem())
			g.gen(inner.Elem(), st, depth)
			outer := reflect.New(t.Elem())
			outer.Elem().Set(inner)
			v.Set(outer)
		}
	case opt || nul:
		if r.Intn(3) == 0 {
			return // absent / null: the zero value (nil)
		}
		if t.Kind() == reflect.Ptr {
			nv := reflect.New(t.Elem())
			g.gen(nv.Elem(), st, depth)
			v.Set(nv)
		} else {
			g.gen(v, st, depth)
			if t.Kind() == reflect.Slice && v.IsNil() && t.Elem().Kind() != reflect.Uint8 {
				// optional non-pointer slice: a present empty list is the empty non-nil slice
				v.Set(reflect.MakeSlice(t, 0, 0))
			}
		}
	default:
		g.gen(v, st, depth)
	}
}
