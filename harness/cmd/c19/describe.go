package main

// Text descriptors of Go types ("shapes") and schema types, derived from the real reflect.Type /
// schema.Type objects; the OCaml driver parses them into the model's [shape] / [sty].

import (
	"fmt"
	"reflect"
	"sort"
	"strings"

	cid "github.com/ipfs/go-cid"
	"github.com/ipld/go-ipld-prime/datamodel"
	cidlink "github.com/ipld/go-ipld-prime/linking/cid"
	"github.com/ipld/go-ipld-prime/schema"

	"verifharness/lib"
)

var (
	tLink    = reflect.TypeOf((*datamodel.Link)(nil)).Elem()
	tNode    = reflect.TypeOf((*datamodel.Node)(nil)).Elem()
	tCidLink = reflect.TypeOf(cidlink.Link{})
	tCid     = reflect.TypeOf(cid.Cid{})
)

func shapeText(t reflect.Type) string {
	var sb strings.Builder
	shapeTo(&sb, t)
	return sb.String()
}

func tok(sb *strings.Builder, s string) {
	if sb.Len() > 0 {
		sb.WriteByte(' ')
	}
	sb.WriteString(s)
}

func shapeTo(sb *strings.Builder, t reflect.Type) {
	switch {
	case t == tLink:
		tok(sb, "lk")
		return
	case t == tNode:
		tok(sb, "n")
		return
	case t == tCidLink:
		tok(sb, "lcl")
		return
	case t == tCid:
		tok(sb, "lc")
		return
	}
	switch t.Kind() {
	case reflect.Bool:
		tok(sb, "b")
	case reflect.Int8:
		tok(sb, "i8")
	case reflect.Int16:
		tok(sb, "i16")
	case reflect.Int32:
		tok(sb, "i32")
	case reflect.Int64:
		tok(sb, "i64")
	case reflect.Int:
		tok(sb, "i")
	case reflect.Uint8:
		tok(sb, "u8")
	case reflect.Uint16:
		tok(sb, "u16")
	case reflect.Uint32:
		tok(sb, "u32")
	case reflect.Uint64:
		tok(sb, "u64")
	case reflect.Uint:
		tok(sb, "u")
	case reflect.Float32:
		tok(sb, "f32")
	case reflect.Float64:
		tok(sb, "f64")
	case reflect.String:
		tok(sb, "s")
	case reflect.Ptr:
		tok(sb, "P")
		shapeTo(sb, t.Elem())
	case reflect.Slice:
		if t.Elem().Kind() == reflect.Uint8 {
			tok(sb, "y")
			return
		}
		tok(sb, "L"+lib.Hex(t.Name()))
		shapeTo(sb, t.Elem())
	case reflect.Struct:
		tok(sb, fmt.Sprintf("S%s:%d", lib.Hex(t.Name()), t.NumField()))
		for i := 0; i < t.NumField(); i++ {
			tok(sb, "."+lib.Hex(t.Field(i).Name))
			shapeTo(sb, t.Field(i).Type)
		}
	case reflect.Map:
		tok(sb, "M")
		shapeTo(sb, t.Key())
		shapeTo(sb, t.Elem())
	default:
		tok(sb, "?"+t.Kind().String())
	}
}

func styText(t schema.Type) string {
	var sb strings.Builder
	styTo(&sb, t)
	return sb.String()
}

func b01(b bool) string {
	if b {
		return "1"
	}
	return "0"
}

var kindNames = map[datamodel.Kind]string{
	datamodel.Kind_Map: "map", datamodel.Kind_List: "list", datamodel.Kind_Null: "null", datamodel.Kind_Bool: "bool",
	datamodel.Kind_Int: "int", datamodel.Kind_Float: "float", datamodel.Kind_String: "string",
	datamodel.Kind_Bytes: "bytes", datamodel.Kind_Link: "link",
}

func styTo(sb *strings.Builder, t schema.Type) {
	switch t := t.(type) {
	case *schema.TypeBool:
		tok(sb, "Tb")
	case *schema.TypeInt:
		tok(sb, "Ti")
	case *schema.TypeFloat:
		tok(sb, "Tf")
	case *schema.TypeString:
		tok(sb, "Ts")
	case *schema.TypeBytes:
		tok(sb, "Ty")
	case *schema.TypeLink:
		tok(sb, "Tl")
	case *schema.TypeAny:
		tok(sb, "Ta")
	case *schema.TypeList:
		tok(sb, "TL"+lib.Hex(t.Name())+":"+b01(t.ValueIsNullable()))
		styTo(sb, t.ValueType())
	case *schema.TypeMap:
		tok(sb, "TM"+lib.Hex(t.Name())+":"+b01(t.ValueIsNullable()))
		styTo(sb, t.KeyType())
		styTo(sb, t.ValueType())
	case *schema.TypeStruct:
		repr := "?"
		var stgMap *schema.StructRepresentation_Map
		switch stg := t.RepresentationStrategy().(type) {
		case schema.StructRepresentation_Map:
			repr = "m"
			stgMap = &stg
		case schema.StructRepresentation_Tuple:
			repr = "t"
		}
		fields := t.Fields()
		tok(sb, fmt.Sprintf("TS%s:%d:%s", lib.Hex(t.Name()), len(fields), repr))
		for _, f := range fields {
			rkey := f.Name()
			if stgMap != nil {
				rkey = stgMap.GetFieldKey(f)
			}
			tok(sb, fmt.Sprintf(".%s:%s:%s%s", lib.Hex(f.Name()), lib.Hex(rkey), b01(f.IsOptional()), b01(f.IsNullable())))
			styTo(sb, f.Type())
		}
	case *schema.TypeUnion:
		members := t.Members()
		switch stg := t.RepresentationStrategy().(type) {
		case schema.UnionRepresentation_Keyed:
			tok(sb, fmt.Sprintf("TU%s:%d:k", lib.Hex(t.Name()), len(members)))
			for _, m := range members {
				tok(sb, "."+lib.Hex(stg.GetDiscriminant(m)))
				styTo(sb, m)
			}
		case schema.UnionRepresentation_Kinded:
			tok(sb, fmt.Sprintf("TU%s:%d:d", lib.Hex(t.Name()), len(members)))
			for _, m := range members {
				kn := ""
				for k, name := range kindNames {
					if stg.GetMember(k) == m.Name() {
						kn = name
					}
				}
				tok(sb, "."+lib.Hex(kn))
				styTo(sb, m)
			}
		case schema.UnionRepresentation_Stringprefix:
			if stg.GetDelim() != "" {
				tok(sb, "?union-delim")
				return
			}
			tok(sb, fmt.Sprintf("TU%s:%d:p", lib.Hex(t.Name()), len(members)))
			for _, m := range members {
				tok(sb, "."+lib.Hex(stg.GetDiscriminant(m)))
				styTo(sb, m)
			}
		default:
			tok(sb, "?union")
		}
	case *schema.TypeEnum:
		members := t.Members()
		switch stg := t.RepresentationStrategy().(type) {
		case schema.EnumRepresentation_String:
			tok(sb, fmt.Sprintf("TE%s:%d:s", lib.Hex(t.Name()), len(members)))
			for _, m := range members {
				sr := m
				if v := stg[m]; v != "" {
					sr = v
				}
				tok(sb, fmt.Sprintf(".%s:%s:0", lib.Hex(m), lib.Hex(sr)))
			}
		case schema.EnumRepresentation_Int:
			tok(sb, fmt.Sprintf("TE%s:%d:i", lib.Hex(t.Name()), len(members)))
			for _, m := range members {
				tok(sb, fmt.Sprintf(".%s:%s:%d", lib.Hex(m), lib.Hex(m), stg[m]))
			}
		default:
			tok(sb, "?enum")
		}
	default:
		tok(sb, fmt.Sprintf("?%T", t))
	}
}

// sortedKeys renders and sorts the keys of a Go map value canonically.
func sortedKeys(keys []string) []string {
	sort.Strings(keys)
	return keys
}
