package main

// The declared Go types the C19 harness binds, their schema, and the table that maps a type id to
// (pointer type, schema type).  Field names follow bindnode's convention (schema field name ==
// Go field name), because the assembler finds Go fields by strings.Title(schema name).

import (
	"reflect"

	cid "github.com/ipfs/go-cid"
	ipld "github.com/ipld/go-ipld-prime"
	"github.com/ipld/go-ipld-prime/datamodel"
	cidlink "github.com/ipld/go-ipld-prime/linking/cid"
	"github.com/ipld/go-ipld-prime/schema"
)

type Ints struct {
	A int8
	B int16
	C int32
	D int64
	E int
	F uint8
	G uint16
	H uint32
	I uint64
	J uint
}
type Prims struct {
	B bool
	I int64
	F float64
	S string
	Y []byte
}
type Floats struct {
	F32 float32
	F64 float64
}
type Links struct {
	L  datamodel.Link
	C  cid.Cid
	CL cidlink.Link
}
type AnyBox struct{ A datamodel.Node }
type Opt struct {
	A *int64
	B *string
	C *bool
}
type Nul struct {
	A *int64
	B *string
}
type OptNul struct {
	A **int64
	B **string
}
type OptAny struct {
	A datamodel.Node
	L datamodel.Link
}
type NulAny struct{ A datamodel.Node }
type Inner struct {
	X int64
	Y string
}
type Outer struct {
	In   Inner
	P    *Inner
	Name string
}
type OuterInf struct {
	In   Inner
	Name string
	Tags []string
}
type ListS struct{ L []string }
type Names []string
type ListNul struct{ L []*int64 }
type ListStruct struct{ L []Inner }
type ListList struct{ L [][]string }
type MapSI struct {
	Keys   []string
	Values map[string]int64
}
type MapSS struct {
	Keys   []string
	Values map[string]Inner
}
type MapNul struct {
	Keys   []string
	Values map[string]*string
}

// struct values with an optional field and a list: what one entry holds must not reach the next entry
type OptIn struct {
	Name string
	Tag  *string
	L    []string
}
type MapSO struct {
	Keys   []string
	Values map[string]OptIn
}
type MapOuter struct {
	Keys   []string
	Values map[string]Outer
}
type MapAny struct {
	Keys   []string
	Values map[string]datamodel.Node
}
type HasMap struct {
	M MapSI
	N string
}
type UKeyed struct {
	Str *string
	Num *int64
	In  *Inner
}
type UKinded struct {
	Str *string
	Num *int64
	Lst *[]string
	Mp  *MapSI
}
type HasU struct {
	U  UKeyed
	K  UKinded
	OU *UKeyed
}
type EnumS struct{ E string }
type EnumIS struct{ E string }
type EnumII struct{ E int }
type Renamed struct {
	A int64
	B string
	C *int64
}
type Tuple struct {
	A int64
	B string
	C bool
}
type TupleOpt struct {
	A int64
	B *string
}
type NulU8 struct{ V *uint8 }
type OptU64 struct{ V *uint64 }
type OptSlice struct{ L []string }
type BigU struct {
	U uint
	V uint64
}
type Deep struct {
	A Outer
	B []Outer
	C MapSS
}
type Bytes2 struct {
	A []byte
	B []byte
}
type ReqPtr struct {
	P *int64
	S *string
}
type Narrow struct {
	A int8
	B uint8
	C int16
	D uint32
	E int64
	F uint64
}

// renames that land on the names of sibling fields: a chain, a swap, a cycle with optionals
type RenChain struct {
	Id    int64
	Name  string
	Title string
}
type RenSwap struct {
	A int64
	B string
}
type RenCycle struct {
	Id    *int64
	Name  *string
	Title string
}

// nullable / optional bytes and lists behind pointers (empty is not null, empty is not absent)
type NulBytes struct {
	B *[]byte
	L *[]string
	O *[]byte
}

// unions of every representation in every slot that commits through a finish callback or a copy
type USP struct {
	Str *string
	Col *string
}
type MapUK struct {
	Keys   []string
	Values map[string]UKeyed
}
type MapUD struct {
	Keys   []string
	Values map[string]UKinded
}
type MapUS struct {
	Keys   []string
	Values map[string]USP
}
type MapUKP struct {
	Keys   []string
	Values map[string]*UKeyed
}
type MapUKN struct {
	Keys   []string
	Values map[string]*UKeyed
}
type MapUDN struct {
	Keys   []string
	Values map[string]*UKinded
}
type MapUSN struct {
	Keys   []string
	Values map[string]*USP
}
type UU struct {
	K *UKeyed
	D *UKinded
	P *USP
	S *string
}
type UKO struct {
	K *UKeyed
	P *USP
	N *int64
}
type ListU struct {
	K  []UKeyed
	D  []UKinded
	P  []USP
	KN []*UKeyed
	DN []*UKinded
	PN []*USP
}
type FldU struct {
	K  UKeyed
	D  UKinded
	P  USP
	Ok *UKeyed
	Od *UKinded
	Op *USP
	Nk *UKeyed
	Nd *UKinded
	Np *USP
}
type ListMapU struct {
	L []MapUK
	S []MapUS
}
type NulKind struct{ N *UKinded }

// inferred-schema witnesses
type DupLists struct {
	X []string
	Y []string
}
type InfA struct{ X []string }
type InfB struct{ Y []string }
type InfInt struct{ N int }
type InfPtr struct{ P *int64 }
type InfNest struct {
	A Inner
	B Prims
}

const schemaSrc = `
type Ints struct { A Int B Int C Int D Int E Int F Int G Int H Int I Int J Int }
type Prims struct { B Bool I Int F Float S String Y Bytes }
type Floats struct { F32 Float F64 Float }
type Links struct { L Link C Link CL Link }
type AnyBox struct { A Any }
type Opt struct { A optional Int B optional String C optional Bool }
type Nul struct { A nullable Int B nullable String }
type OptNul struct { A optional nullable Int B optional nullable String }
type OptAny struct { A optional Any L optional Link }
type NulAny struct { A nullable Any }
type Inner struct { X Int Y String }
type Outer struct { In Inner P optional Inner Name String }
type OuterInf struct { In Inner Name String Tags [String] }
type ListS struct { L [String] }
type Names [String]
type ListNul struct { L [nullable Int] }
type ListStruct struct { L [Inner] }
type ListList struct { L [[String]] }
type MapSI {String:Int}
type MapSS {String:Inner}
type MapNul {String:nullable String}
type OptIn struct { Name String Tag optional String L [String] }
type MapSO {String:OptIn}
type MapOuter {String:Outer}
type MapAny {String:Any}
type HasMap struct { M MapSI N String }
type UKeyed union { | String "s" | Int "i" | Inner "in" } representation keyed
type StrList [String]
type UKinded union { | String string | Int int | StrList list | MapSI map } representation kinded
type HasU struct { U UKeyed K UKinded OU optional UKeyed }
type ColS enum { | Red ("r") | Green | Blue ("b") }
type ColI enum { | Red ("1") | Green ("2") | Blue ("7") } representation int
type EnumS struct { E ColS }
type EnumIS struct { E ColI }
type EnumII struct { E ColI }
type Renamed struct { A Int (rename "a") B String (rename "bee") C optional Int (rename "c") }
type Tuple struct { A Int B String C Bool } representation tuple
type TupleOpt struct { A Int B optional String } representation tuple
type NulU8 struct { V nullable Int }
type OptU64 struct { V optional Int }
type OptSlice struct { L optional [String] }
type BigU struct { U Int V Int }
type Deep struct { A Outer B [Outer] C MapSS }
type Bytes2 struct { A Bytes B Bytes }
type ReqPtr struct { P Int S String }
type Narrow struct { A Int B Int C Int D Int E Int F Int }
type RenChain struct { Id Int (rename "Name") Name String (rename "Title") Title String (rename "t") }
type RenSwap struct { A Int (rename "B") B String (rename "A") }
type RenCycle struct { Id optional Int (rename "Name") Name optional String (rename "Title") Title String (rename "Id") }
type NulBytes struct { B nullable Bytes L nullable [String] O optional Bytes }
type USP union { | String "s:" | ColS "c:" } representation stringprefix
type MapUK {String:UKeyed}
type MapUD {String:UKinded}
type MapUS {String:USP}
type MapUKP {String:UKeyed}
type MapUKN {String:nullable UKeyed}
type MapUDN {String:nullable UKinded}
type MapUSN {String:nullable USP}
type UU union { | UKeyed "k" | UKinded "d" | USP "p" | String "s" } representation keyed
type UKO union { | UKeyed map | USP string | Int int } representation kinded
type LKN [nullable UKeyed]
type LDN [nullable UKinded]
type LPN [nullable USP]
type ListU struct { K [UKeyed] D [UKinded] P [USP] KN LKN DN LDN PN LPN }
type FldU struct { K UKeyed D UKinded P USP Ok optional UKeyed Od optional UKinded Op optional USP Nk nullable UKeyed Nd nullable UKinded Np nullable USP }
type ListMapU struct { L [MapUK] S [MapUS] }
type NulKind struct { N nullable UKinded }
type DupLists struct { X [String] Y [String] }
type InfA struct { X [String] }
type InfB struct { Y [String] }
type InfInt struct { N Int }
type InfPtr struct { P Int }
type InfNest struct { A Inner B Prims }
type RootString string
type RootInt int
`

type typeEntry struct {
	id     string
	ptr    interface{} // typed nil pointer
	schema string      // schema type name ("" = none: inferred mode only)
}

var typeTable = []typeEntry{
	{"Ints", (*Ints)(nil), "Ints"},
	{"Prims", (*Prims)(nil), "Prims"},
	{"Floats", (*Floats)(nil), "Floats"},
	{"Links", (*Links)(nil), "Links"},
	{"AnyBox", (*AnyBox)(nil), "AnyBox"},
	{"Opt", (*Opt)(nil), "Opt"},
	{"Nul", (*Nul)(nil), "Nul"},
	{"OptNul", (*OptNul)(nil), "OptNul"},
	{"OptAny", (*OptAny)(nil), "OptAny"},
	{"NulAny", (*NulAny)(nil), "NulAny"},
	{"Inner", (*Inner)(nil), "Inner"},
	{"Outer", (*Outer)(nil), "Outer"},
	{"OuterInf", (*OuterInf)(nil), "OuterInf"},
	{"ListS", (*ListS)(nil), "ListS"},
	{"Names", (*Names)(nil), "Names"},
	{"ListNul", (*ListNul)(nil), "ListNul"},
	{"ListStruct", (*ListStruct)(nil), "ListStruct"},
	{"ListList", (*ListList)(nil), "ListList"},
	{"MapSI", (*MapSI)(nil), "MapSI"},
	{"MapSS", (*MapSS)(nil), "MapSS"},
	{"MapNul", (*MapNul)(nil), "MapNul"},
	{"OptIn", (*OptIn)(nil), "OptIn"},
	{"MapSO", (*MapSO)(nil), "MapSO"},
	{"MapOuter", (*MapOuter)(nil), "MapOuter"},
	{"MapAny", (*MapAny)(nil), "MapAny"},
	{"HasMap", (*HasMap)(nil), "HasMap"},
	{"UKeyed", (*UKeyed)(nil), "UKeyed"},
	{"UKinded", (*UKinded)(nil), "UKinded"},
	{"HasU", (*HasU)(nil), "HasU"},
	{"EnumS", (*EnumS)(nil), "EnumS"},
	{"EnumIS", (*EnumIS)(nil), "EnumIS"},
	{"EnumII", (*EnumII)(nil), "EnumII"},
	{"Renamed", (*Renamed)(nil), "Renamed"},
	{"Tuple", (*Tuple)(nil), "Tuple"},
	{"TupleOpt", (*TupleOpt)(nil), "TupleOpt"},
	{"NulU8", (*NulU8)(nil), "NulU8"},
	{"OptU64", (*OptU64)(nil), "OptU64"},
	{"OptSlice", (*OptSlice)(nil), "OptSlice"},
	{"BigU", (*BigU)(nil), "BigU"},
	{"Deep", (*Deep)(nil), "Deep"},
	{"Bytes2", (*Bytes2)(nil), "Bytes2"},
	{"ReqPtr", (*ReqPtr)(nil), "ReqPtr"},
	{"Narrow", (*Narrow)(nil), "Narrow"},
	{"RenChain", (*RenChain)(nil), "RenChain"},
	{"RenSwap", (*RenSwap)(nil), "RenSwap"},
	{"RenCycle", (*RenCycle)(nil), "RenCycle"},
	{"NulBytes", (*NulBytes)(nil), "NulBytes"},
	{"USP", (*USP)(nil), "USP"},
	{"MapUK", (*MapUK)(nil), "MapUK"},
	{"MapUD", (*MapUD)(nil), "MapUD"},
	{"MapUS", (*MapUS)(nil), "MapUS"},
	{"MapUKP", (*MapUKP)(nil), "MapUKP"},
	{"MapUKN", (*MapUKN)(nil), "MapUKN"},
	{"MapUDN", (*MapUDN)(nil), "MapUDN"},
	{"MapUSN", (*MapUSN)(nil), "MapUSN"},
	{"UU", (*UU)(nil), "UU"},
	{"UKO", (*UKO)(nil), "UKO"},
	{"ListU", (*ListU)(nil), "ListU"},
	{"FldU", (*FldU)(nil), "FldU"},
	{"ListMapU", (*ListMapU)(nil), "ListMapU"},
	{"NulKind", (*NulKind)(nil), "NulKind"},
	{"DupLists", (*DupLists)(nil), "DupLists"},
	{"InfA", (*InfA)(nil), "InfA"},
	{"InfB", (*InfB)(nil), "InfB"},
	{"InfInt", (*InfInt)(nil), "InfInt"},
	{"InfPtr", (*InfPtr)(nil), "InfPtr"},
	{"InfNest", (*InfNest)(nil), "InfNest"},
	{"string", (*string)(nil), "RootString"},
	{"int64", (*int64)(nil), "RootInt"},
	{"strs", (*[]string)(nil), "StrList"},
}

// types whose inferred schema is meaningful (bool/int64/float64/string/[]byte/links/Node, named
// structs and slices of those) plus the ones inferSchema refuses or trips over
var inferIds = []string{"Prims", "Links", "AnyBox", "Inner", "OuterInf", "ListS", "Names", "ListStruct", "ListList",
	"InfNest", "DupLists", "InfA", "InfB", "InfInt", "InfPtr", "string", "int64", "strs", "Tuple", "Bytes2"}

var (
	typeSystem *schema.TypeSystem
	typeByID   = map[string]*typeEntry{}
)

func initTypes() {
	ts, err := ipld.LoadSchemaBytes([]byte(schemaSrc))
	if err != nil {
		panic(err)
	}
	typeSystem = ts
	for i := range typeTable {
		e := &typeTable[i]
		typeByID[e.id] = e
		if e.schema != "" && ts.TypeByName(e.schema) == nil {
			panic("schema type missing: " + e.schema)
		}
	}
}

func (e *typeEntry) goType() reflect.Type { return reflect.TypeOf(e.ptr).Elem() }
func (e *typeEntry) schemaType() schema.Type {
	if e.schema == "" {
		return nil
	}
	return typeSystem.TypeByName(e.schema)
}
