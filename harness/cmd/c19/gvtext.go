package main

// Canonical text form of Go values (driven by reflection only), its parser, and a dumper of typed
// nodes that leaves out absent struct fields.
//
//   z nil (pointer, slice, map, interface)   p <v> non-nil pointer   t f bool   i<hex> integer
//   d<hexbits>|dnan float (binary64 of the widened value)   s<hex> string   b<hex> []byte
//   l<hex> link (binary CID)   A <dm tokens> datamodel.Node   L<n> <v>.. slice   S<n> <v>.. struct
//   G<n> <k> <v>.. Go map, entries sorted by the rendered key

import (
	"fmt"
	"math"
	"math/big"
	"reflect"
	"sort"
	"strconv"
	"strings"

	cid "github.com/ipfs/go-cid"
	"github.com/ipld/go-ipld-prime/datamodel"
	cidlink "github.com/ipld/go-ipld-prime/linking/cid"

	"verifharness/lib"
)

func gvText(v reflect.Value) string {
	var sb strings.Builder
	gvTo(&sb, v)
	return sb.String()
}

func floatTok(bits uint64) string {
	f := math.Float64frombits(bits)
	if f != f {
		return "dnan"
	}
	return "d" + strconv.FormatUint(bits, 16)
}

func gvTo(sb *strings.Builder, v reflect.Value) {
	t := v.Type()
	switch {
	case t == tLink:
		if v.IsNil() {
			tok(sb, "z")
		} else {
			tok(sb, "l"+lib.Hex(v.Interface().(datamodel.Link).Binary()))
		}
		return
	case t == tNode:
		if v.IsNil() {
			tok(sb, "z")
		} else {
			tok(sb, "A")
			tok(sb, lib.Dump(v.Interface().(datamodel.Node)))
		}
		return
	case t == tCidLink:
		tok(sb, "l"+lib.Hex(string(v.Interface().(cidlink.Link).Cid.Bytes())))
		return
	case t == tCid:
		tok(sb, "l"+lib.Hex(string(v.Interface().(cid.Cid).Bytes())))
		return
	}
	switch t.Kind() {
	case reflect.Bool:
		if v.Bool() {
			tok(sb, "t")
		} else {
			tok(sb, "f")
		}
	case reflect.Int8, reflect.Int16, reflect.Int32, reflect.Int64, reflect.Int:
		tok(sb, "i"+big.NewInt(v.Int()).Text(16))
	case reflect.Uint8, reflect.Uint16, reflect.Uint32, reflect.Uint64, reflect.Uint:
		tok(sb, "i"+strconv.FormatUint(v.Uint(), 16))
	case reflect.Float32, reflect.Float64:
		tok(sb, floatTok(math.Float64bits(v.Float())))
	case reflect.String:
		tok(sb, "s"+lib.Hex(v.String()))
	case reflect.Ptr:
		if v.IsNil() {
			tok(sb, "z")
		} else {
			tok(sb, "p")
			gvTo(sb, v.Elem())
		}
	case reflect.Slice:
		if v.IsNil() {
			tok(sb, "z")
			return
		}
		if t.Elem().Kind() == reflect.Uint8 {
			if v.Len() == 0 {
				// the empty []byte and the nil []byte are one value in this text form (which
				// of the two a decoder hands to AssignBytes is the codec's business)
				tok(sb, "z")
				return
			}
			tok(sb, "b"+lib.Hex(string(v.Bytes())))
			return
		}
		tok(sb, fmt.Sprintf("L%d", v.Len()))
		for i := 0; i < v.Len(); i++ {
			gvTo(sb, v.Index(i))
		}
	case reflect.Struct:
		tok(sb, fmt.Sprintf("S%d", v.NumField()))
		for i := 0; i < v.NumField(); i++ {
			gvTo(sb, v.Field(i))
		}
	case reflect.Map:
		if v.IsNil() {
			tok(sb, "z")
			return
		}
		type kv struct{ k, v string }
		var es []kv
		it := v.MapRange()
		for it.Next() {
			es = append(es, kv{gvText(it.Key()), gvText(it.Value())})
		}
		sort.Slice(es, func(i, j int) bool { return es[i].k < es[j].k })
		tok(sb, fmt.Sprintf("G%d", len(es)))
		for _, e := range es {
			tok(sb, e.k)
			tok(sb, e.v)
		}
	default:
		tok(sb, "?"+t.Kind().String())
	}
}

// ---- parser ----------------------------------------------------------------------------------

type toks struct {
	t []string
	i int
}

func (p *toks) next() string {
	if p.i >= len(p.t) {
		panic("gv parse: eof")
	}
	s := p.t[p.i]
	p.i++
	return s
}

// parseDmToks consumes one data-model value in lib's token language.
func (p *toks) parseDm() *lib.Val {
	start := p.i
	var skip func()
	skip = func() {
		t := p.next()
		switch t[0] {
		case 'a':
			n, _ := strconv.Atoi(t[1:])
			for i := 0; i < n; i++ {
				skip()
			}
		case 'm':
			n, _ := strconv.Atoi(t[1:])
			for i := 0; i < n; i++ {
				p.next() // key
				skip()
			}
		}
	}
	skip()
	v, err := lib.ParseVal(strings.Join(p.t[start:p.i], " "))
	if err != nil {
		panic(err)
	}
	return v
}

func parseGv(text string, t reflect.Type) reflect.Value {
	p := &toks{t: strings.Fields(text)}
	v := reflect.New(t).Elem()
	p.parseInto(v)
	if p.i != len(p.t) {
		panic("gv parse: trailing tokens")
	}
	return v
}

func cidOf(bin string) cid.Cid {
	if bin == "" {
		return cid.Undef
	}
	c, err := cid.Cast([]byte(bin))
	if err != nil {
		panic(err)
	}
	return c
}

func (p *toks) parseInto(v reflect.Value) {
	t := v.Type()
	switch {
	case t == tLink:
		tk := p.next()
		if tk != "z" {
			v.Set(reflect.ValueOf(cidlink.Link{Cid: cidOf(lib.UnHex(tk[1:]))}))
		}
		return
	case t == tNode:
		tk := p.next()
		if tk != "z" {
			n, err := lib.BuildBasic(p.parseDm())
			if err != nil {
				panic(err)
			}
			v.Set(reflect.ValueOf(n))
		}
		return
	case t == tCidLink:
		v.Set(reflect.ValueOf(cidlink.Link{Cid: cidOf(lib.UnHex(p.next()[1:]))}))
		return
	case t == tCid:
		v.Set(reflect.ValueOf(cidOf(lib.UnHex(p.next()[1:]))))
		return
	}
	switch t.Kind() {
	case reflect.Bool:
		v.SetBool(p.next() == "t")
	case reflect.Int8, reflect.Int16, reflect.Int32, reflect.Int64, reflect.Int:
		i, ok := new(big.Int).SetString(p.next()[1:], 16)
		if !ok {
			panic("bad int")
		}
		v.SetInt(i.Int64())
	case reflect.Uint8, reflect.Uint16, reflect.Uint32, reflect.Uint64, reflect.Uint:
		u, err := strconv.ParseUint(p.next()[1:], 16, 64)
		if err != nil {
			panic(err)
		}
		v.SetUint(u)
	case reflect.Float32, reflect.Float64:
		tk := p.next()
		if tk == "dnan" {
			v.SetFloat(math.NaN())
		} else {
			b, err := strconv.ParseUint(tk[1:], 16, 64)
			if err != nil {
				panic(err)
			}
			v.SetFloat(math.Float64frombits(b))
		}
	case reflect.String:
		v.SetString(lib.UnHex(p.next()[1:]))
	case reflect.Ptr:
		if p.next() == "z" {
			return
		}
		nv := reflect.New(t.Elem())
		p.parseInto(nv.Elem())
		v.Set(nv)
	case reflect.Slice:
		tk := p.next()
		if tk == "z" {
			return
		}
		if t.Elem().Kind() == reflect.Uint8 {
			b := []byte(lib.UnHex(tk[1:]))
			if b == nil {
				b = []byte{}
			}
			v.SetBytes(b)
			return
		}
		n, _ := strconv.Atoi(tk[1:])
		s := reflect.MakeSlice(t, n, n)
		for i := 0; i < n; i++ {
			p.parseInto(s.Index(i))
		}
		v.Set(s)
	case reflect.Struct:
		p.next()
		for i := 0; i < t.NumField(); i++ {
			p.parseInto(v.Field(i))
		}
	case reflect.Map:
		tk := p.next()
		if tk == "z" {
			return
		}
		n, _ := strconv.Atoi(tk[1:])
		m := reflect.MakeMapWithSize(t, n)
		for i := 0; i < n; i++ {
			k := reflect.New(t.Key()).Elem()
			p.parseInto(k)
			e := reflect.New(t.Elem()).Elem()
			p.parseInto(e)
			m.SetMapIndex(k, e)
		}
		v.Set(m)
	default:
		panic("gv parse: kind " + t.Kind().String())
	}
}

// ---- typed dumper ----------------------------------------------------------------------------

// dumpTyped is lib.Dump except that map entries whose value IsAbsent() are left out (a typed
// struct node iterates its absent optional fields), and the entry count is the number of entries
// actually yielded.  API errors show as "!what" tokens.
func dumpTyped(n datamodel.Node) string {
	var sb strings.Builder
	dumpT(&sb, n)
	return sb.String()
}

func dumpT(sb *strings.Builder, n datamodel.Node) {
	if n == nil {
		tok(sb, "!nil")
		return
	}
	switch n.Kind() {
	case datamodel.Kind_List:
		it := n.ListIterator()
		if it == nil {
			tok(sb, "!nolistiter")
			return
		}
		var parts []string
		for !it.Done() {
			_, v, err := it.Next()
			if err != nil {
				parts = append(parts, "!listnext")
				break
			}
			parts = append(parts, dumpTyped(v))
		}
		tok(sb, fmt.Sprintf("a%d", len(parts)))
		for _, p := range parts {
			tok(sb, p)
		}
	case datamodel.Kind_Map:
		it := n.MapIterator()
		if it == nil {
			tok(sb, "!nomapiter")
			return
		}
		var parts []string
		cnt := 0
		for !it.Done() {
			k, v, err := it.Next()
			if err != nil {
				parts = append(parts, "!mapnext")
				break
			}
			if v != nil && v.IsAbsent() {
				continue
			}
			ks, err := k.AsString()
			if err != nil {
				parts = append(parts, "!keystring")
				break
			}
			cnt++
			parts = append(parts, "k"+lib.Hex(ks), dumpTyped(v))
		}
		tok(sb, fmt.Sprintf("m%d", cnt))
		for _, p := range parts {
			tok(sb, p)
		}
	default:
		tok(sb, lib.Dump(n))
	}
}

// dumpLive is dumpTyped plus consistency reads of the same node: Length() against what the
// iterator yields, and a lookup (by key / by index) of every entry against the iterated value.
// typed = a type-level node (a struct's Length counts its absent optional fields too).
func dumpLive(n datamodel.Node, typed bool) string {
	var sb strings.Builder
	dumpL(&sb, n, typed)
	return sb.String()
}

func dumpL(sb *strings.Builder, n datamodel.Node, typed bool) {
	if n == nil {
		tok(sb, "!nil")
		return
	}
	switch n.Kind() {
	case datamodel.Kind_List:
		it := n.ListIterator()
		if it == nil {
			tok(sb, "!nolistiter")
			return
		}
		var parts []string
		i := int64(0)
		for !it.Done() {
			_, v, err := it.Next()
			if err != nil {
				parts = append(parts, "!listnext")
				break
			}
			d := dumpLive(v, typed)
			if lv, err := n.LookupByIndex(i); err != nil || dumpLive(lv, typed) != d {
				d += " !lookup"
			}
			parts = append(parts, d)
			i++
		}
		if n.Length() != i {
			parts = append(parts, "!len")
		}
		tok(sb, fmt.Sprintf("a%d", i))
		for _, p := range parts {
			tok(sb, p)
		}
	case datamodel.Kind_Map:
		it := n.MapIterator()
		if it == nil {
			tok(sb, "!nomapiter")
			return
		}
		var parts []string
		cnt, yielded := 0, int64(0)
		for !it.Done() {
			k, v, err := it.Next()
			if err != nil {
				parts = append(parts, "!mapnext")
				break
			}
			yielded++
			if v != nil && v.IsAbsent() {
				continue
			}
			ks, err := k.AsString()
			if err != nil {
				parts = append(parts, "!keystring")
				break
			}
			cnt++
			d := dumpLive(v, typed)
			if lv, err := n.LookupByString(ks); err != nil || dumpLive(lv, typed) != d {
				d += " !lookup"
			}
			parts = append(parts, "k"+lib.Hex(ks), d)
		}
		want := int64(cnt)
		if typed {
			want = yielded
		}
		if n.Length() != want {
			parts = append(parts, "!len")
		}
		tok(sb, fmt.Sprintf("m%d", cnt))
		for _, p := range parts {
			tok(sb, p)
		}
	default:
		tok(sb, lib.Dump(n))
	}
}
