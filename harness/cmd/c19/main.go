// c19: binding Go values with bindnode is faithful, reversible and a pure function of its inputs.
//
// Records (tab separated, last field = what the implementation did):
//   id probe  <name>                                                        obs
//   id compat <go type id> <schema type name> <shape> <sty>                 ok | panic:compat | ..
//   id gotype <schema type name> <T|R|C> <sty> <dm>                         ok:<shape>|<gv>|<dump> | ..
//   id wrap   <type id> <shape> <sty> <gv>                                  ok:<type dump>|<repr dump>|same
//   id build  <type id> <T|R> <shape> <sty> <dm>                            ok:<gv>|<dump> | err:..
//   id rt     <type id> <cbor|json> <shape> <sty> <gv>                      ok:<gv> | ..
//   id live   <type id> <cbor|json> <shape> <sty> <gv1> <gv2>                 ok:<reads of gv1>;<reads of the same node after *ptr = gv2>
//   id hist   <step>;<step>;...                                              obs;obs;...
//        step = op,type id,x|i,codec|-,T|R|-,shape,sty|-,payload
// A history is one record and runs in a child process of its own (the inferred-schema registry is
// process-global state); op is wrap | build | marshal | unmarshal, mode x = explicit schema,
// i = inferred (nil).
package main

import (
	"bufio"
	"flag"
	"fmt"
	"os"
	"os/exec"
	"reflect"
	"sort"
	"strings"
	"sync"

	"verifharness/lib"
)

var childSpec string

func runLine(f []string) []string {
	// returns the record with the observation appended (input: fields without observation)
	switch f[1] {
	case "probe":
		return append(f[:3], probe(f[2]))
	case "compat":
		g := typeByID[f[2]]
		st := typeSystem.TypeByName(f[3])
		return []string{f[0], "compat", f[2], f[3], shapeText(g.goType()), styText(st), opCompat(g, st)}
	case "gotype":
		st := typeSystem.TypeByName(f[2])
		return []string{f[0], "gotype", f[2], f[3], styText(st), f[5], opBuildGo(st, f[3], f[5])}
	case "wrap":
		e := typeByID[f[2]]
		return []string{f[0], "wrap", f[2], shapeText(e.goType()), styText(e.schemaType()), f[5], opWrap(e, "x", f[5])}
	case "build":
		e := typeByID[f[2]]
		return []string{f[0], "build", f[2], f[3], shapeText(e.goType()), styText(e.schemaType()), f[6], opBuild(e, "x", f[3], f[6])}
	case "rt":
		e := typeByID[f[2]]
		return []string{f[0], "rt", f[2], f[3], shapeText(e.goType()), styText(e.schemaType()), f[6], opRt(e, f[3], f[6])}
	case "live":
		e := typeByID[f[2]]
		return []string{f[0], "live", f[2], f[3], shapeText(e.goType()), styText(e.schemaType()), f[6], f[7], opLive(e, f[3], f[6], f[7])}
	case "hist":
		// only ever executed in a child process
		var steps, obss []string
		for _, st := range strings.Split(f[2], ";") {
			sf := strings.Split(st, ",")
			op, tyid, mode, cdc, level, payload := sf[0], sf[1], sf[2], sf[3], sf[4], sf[len(sf)-1]
			e := typeByID[tyid]
			sty := "-"
			if mode == "x" {
				sty = styText(e.schemaType())
			}
			var obs string
			switch op {
			case "wrap":
				obs = opWrap(e, mode, payload)
			case "build":
				obs = opBuild(e, mode, level, payload)
			case "marshal":
				obs = opMarshal(e, mode, cdc, payload)
			case "unmarshal":
				obs = opUnmarshal(e, mode, cdc, payload)
			default:
				panic("hist op " + op)
			}
			steps = append(steps, strings.Join([]string{op, tyid, mode, cdc, level, shapeText(e.goType()), sty, payload}, ","))
			obss = append(obss, obs)
		}
		return []string{f[0], "hist", strings.Join(steps, ";"), strings.Join(obss, ";")}
	}
	panic("unknown record kind " + f[1])
}

// probes: the witnesses of the known findings, run in this process before anything else touches
// the registry (the driver sets the model's quirk switches from what they observe)
func probe(name string) string {
	switch name {
	case "narrowing":
		return opBuild(typeByID["Narrow"], "x", "T", "m6 k41 i12c k42 i12c k43 i0 k44 i0 k45 i0 k46 i0")
	case "rewrap":
		e := typeByID["Inner"]
		first := opWrap(e, "i", "S2 i1 s61")
		second := opWrap(e, "i", "S2 i1 s61")
		if strings.HasPrefix(first, "ok:") && strings.HasPrefix(second, "ok:") {
			return "ok"
		}
		if strings.HasPrefix(first, "ok:") {
			return second
		}
		return "first:" + first
	case "unionptr":
		return opBuild(typeByID["NulKind"], "x", "R", "m1 k4e i5")
	case "ptruint":
		return opBuild(typeByID["NulU8"], "x", "T", "m1 k56 i5")
	case "uintkind":
		return opWrap(typeByID["BigU"], "x", "S2 i8000000000000005 i8000000000000005")
	}
	panic("probe " + name)
}

// runHistories executes each hist line in a child process of its own.
func runHistories(lines [][]string) map[string][]string {
	out := map[string][]string{}
	var mu sync.Mutex
	sem := make(chan struct{}, 6)
	var wg sync.WaitGroup
	exe, err := os.Executable()
	if err != nil {
		panic(err)
	}
	for _, f := range lines {
		f := f
		wg.Add(1)
		sem <- struct{}{}
		go func() {
			defer wg.Done()
			defer func() { <-sem }()
			cmd := exec.Command(exe, "-child", "-")
			cmd.Env = append(os.Environ(), "GOMAXPROCS=1", "GOGC=off")
			cmd.Stdin = strings.NewReader(strings.Join(f[:3], "\t") + "\n")
			cmd.Stderr = os.Stderr
			res, err := cmd.Output()
			r := []string{f[0], "hist", f[2], "crash"}
			if err == nil {
				for _, l := range strings.Split(string(res), "\n") {
					fs := strings.Split(l, "\t")
					if len(fs) == 4 && fs[0] == f[0] {
						r = fs
					}
				}
			}
			mu.Lock()
			out[f[0]] = r
			mu.Unlock()
		}()
	}
	wg.Wait()
	return out
}

func childMain() {
	sc := bufio.NewScanner(os.Stdin)
	sc.Buffer(make([]byte, 1<<20), 1<<26)
	w := bufio.NewWriter(os.Stdout)
	defer w.Flush()
	for sc.Scan() {
		l := sc.Text()
		if strings.TrimSpace(l) == "" {
			continue
		}
		f := strings.Split(l, "\t")
		w.WriteString(strings.Join(runLine(f), "\t"))
		w.WriteByte('\n')
	}
}

// emit runs all pending lines (hist lines through children) and writes them in order.
func emit(out *lib.Out, pending [][]string) {
	var hist [][]string
	for _, f := range pending {
		if f[1] == "hist" {
			hist = append(hist, f)
		}
	}
	hres := runHistories(hist)
	for _, f := range pending {
		if f[1] == "hist" {
			out.Case(hres[f[0]]...)
		} else {
			out.Case(runLine(f)...)
		}
	}
}

func main() {
	flag.StringVar(&childSpec, "child", "", "internal: run history lines from stdin")
	fl := lib.ParseFlags()
	initTypes()
	if childSpec != "" {
		childMain()
		return
	}
	out := lib.OpenOut(fl.Out)
	defer out.Close()
	if fl.Replay != "" {
		// the probes always run first: the driver sets the model's quirk switches from them
		pending := [][]string{{"q1", "probe", "narrowing"}, {"q2", "probe", "uintkind"}, {"q3", "probe", "rewrap"}, {"q4", "probe", "ptruint"}, {"q5", "probe", "unionptr"}}
		for _, line := range lib.ReadLines(fl.Replay) {
			f := strings.Split(line, "\t")
			if len(f) < 3 {
				continue
			}
			// drop the recorded observation so that every kind has its input arity
			ar := map[string]int{"probe": 3, "compat": 6, "gotype": 6, "wrap": 6, "build": 7, "rt": 7, "live": 8, "hist": 3}[f[1]]
			if ar == 0 || len(f) < ar || f[1] == "probe" {
				continue
			}
			pending = append(pending, f[:ar])
		}
		emit(out, pending)
		return
	}
	n := fl.N
	if n == 0 {
		n = 400
		if fl.Tier == "thorough" {
			n = 6000
		}
	}
	emit(out, generate(lib.NewRng(fl.Seed), n, fl.Tier))
}

// ---- generation -------------------------------------------------------------------------------

type gen struct {
	rng *lib.Rng
	id  int
	out [][]string
}

func (g *gen) next(prefix string) string { g.id++; return fmt.Sprintf("%s%d", prefix, g.id) }

func (g *gen) add(f ...string) { g.out = append(g.out, f) }

func (g *gen) value(e *typeEntry, jsonSafe bool, withSchema bool) reflect.Value {
	cfg := &genCfg{rng: g.rng, jsonSafe: jsonSafe, maxLen: 3}
	v := reflect.New(e.goType()).Elem()
	if withSchema {
		cfg.gen(v, e.schemaType(), 0)
	} else {
		cfg.gen(v, nil, 0)
	}
	return v
}

// types left out of random value generation for an operation class, with the reason
var skipValues = map[string]bool{
	"InfInt": false, "InfPtr": false,
}

func generate(rng *lib.Rng, n int, tier string) [][]string {
	g := &gen{rng: rng}
	// probes first
	g.add("q1", "probe", "narrowing")
	g.add("q2", "probe", "uintkind")
	g.add("q3", "probe", "rewrap")
	g.add("q4", "probe", "ptruint")
	g.add("q5", "probe", "unionptr")
	corpus(g)
	var withSchema []*typeEntry
	for i := range typeTable {
		if typeTable[i].schema != "" {
			withSchema = append(withSchema, &typeTable[i])
		}
	}
	// compatibility matrix: the diagonal, then random pairs
	for _, e := range withSchema {
		g.add(g.next("v"), "compat", e.id, e.schema, "", "")
	}
	names := typeSystem.Names()
	for i := 0; i < n; i++ {
		e := withSchema[rng.Intn(len(withSchema))]
		g.add(g.next("v"), "compat", e.id, names[rng.Intn(len(names))], "", "")
	}
	// Go types inferred from schema types
	for _, e := range withSchema {
		for _, lvl := range []string{"T", "R", "C"} {
			v := g.value(e, false, true)
			src := lvl
			if lvl == "C" {
				src = "R"
			}
			if d, ok := viewOf(e, v, src); ok {
				g.add(g.next("g"), "gotype", e.schema, lvl, "", d.Text())
			}
		}
	}
	// wrap / build / round trip per type
	per := n / len(withSchema)
	if per < 2 {
		per = 2
	}
	for _, e := range withSchema {
		for i := 0; i < per; i++ {
			v := g.value(e, false, true)
			g.add(g.next("w"), "wrap", e.id, "", "", gvText(v))
			for _, lvl := range []string{"T", "R"} {
				d, ok := viewOf(e, v, lvl)
				if !ok {
					continue
				}
				if rng.Intn(3) == 0 {
					d = mutate(rng, d)
				}
				g.add(g.next("b"), "build", e.id, lvl, "", "", d.Text())
			}
			g.add(g.next("r"), "rt", e.id, "cbor", "", "", gvText(v))
			vj := g.value(e, true, true)
			g.add(g.next("r"), "rt", e.id, "json", "", "", gvText(vj))
			// a live node: read, change the value behind the pointer, read the same node again
			g.add(g.next("l"), "live", e.id, "cbor", "", "", gvText(v), gvText(g.value(e, false, true)))
			g.add(g.next("l"), "live", e.id, "json", "", "", gvText(vj), gvText(g.value(e, true, true)))
		}
	}
	// histories
	nh := n / 12
	if nh < 20 {
		nh = 20
	}
	for h := 0; h < nh; h++ {
		history(g, fmt.Sprintf("h%d", h+100), withSchema)
	}
	return g.out
}

// mutate damages a data tree in one place: an integer far out of any narrow range, a dropped or
// extra map entry, or a scalar of another kind.
func mutate(rng *lib.Rng, d *lib.Val) *lib.Val {
	c := *d
	switch d.Kind {
	case lib.KInt:
		wide := []string{"12c", "-12c", "10000", "100000000", "-80000001", "ffffffffffffffff", "8000000000000000", "ff", "80", "-81", "7fffffffffffffff"}
		v, _ := lib.ParseVal("i" + wide[rng.Intn(len(wide))])
		return v
	case lib.KList:
		if len(d.L) == 0 {
			return lib.Int(5)
		}
		c.L = append([]*lib.Val{}, d.L...)
		i := rng.Intn(len(c.L))
		c.L[i] = mutate(rng, c.L[i])
		return &c
	case lib.KMap:
		c.M = append([]lib.Entry{}, d.M...)
		switch {
		case len(c.M) == 0 || rng.Intn(6) == 0:
			c.M = append(c.M, lib.Entry{K: "Zz", V: lib.Int(1)})
		case rng.Intn(6) == 0:
			c.M = c.M[:len(c.M)-1]
		default:
			i := rng.Intn(len(c.M))
			c.M[i] = lib.Entry{K: c.M[i].K, V: mutate(rng, c.M[i].V)}
		}
		return &c
	case lib.KString:
		if rng.Bool() {
			return lib.Int(3)
		}
		return lib.Str(d.S + "x")
	case lib.KBool:
		return lib.Str("true")
	}
	return d
}

// history: 3-9 calls over a few types, explicit and inferred schemas mixed, repeats likely
func history(g *gen, hid string, withSchema []*typeEntry) {
	rng := g.rng
	var pool []*typeEntry
	k := 1 + rng.Intn(3)
	for i := 0; i < k; i++ {
		pool = append(pool, typeByID[inferIds[rng.Intn(len(inferIds))]])
	}
	if rng.Bool() {
		pool = append(pool, withSchema[rng.Intn(len(withSchema))])
	}
	n := 3 + rng.Intn(12)
	var steps []string
	add := func(op string, e *typeEntry, mode, cdc, lvl, payload string) {
		steps = append(steps, strings.Join([]string{op, e.id, mode, cdc, lvl, payload}, ","))
	}
	for s := 0; s < n; s++ {
		e := pool[rng.Intn(len(pool))]
		mode := "i"
		inferrable := false
		for _, id := range inferIds {
			if id == e.id {
				inferrable = true
			}
		}
		if !inferrable || rng.Intn(4) == 0 {
			mode = "x"
		}
		cdc := []string{"cbor", "json"}[rng.Intn(2)]
		v := g.value(e, true, mode == "x")
		switch rng.Intn(6) {
		case 0, 1, 2:
			add("wrap", e, mode, "-", "-", gvText(v))
		case 3:
			add("marshal", e, mode, cdc, "-", gvText(v))
		case 4:
			lvl := []string{"T", "R"}[rng.Intn(2)]
			d, ok := viewOf(e, g.value(e, true, true), lvl)
			if !ok {
				add("wrap", e, mode, "-", "-", gvText(v))
				continue
			}
			add("build", e, mode, "-", lvl, d.Text())
		default:
			d, ok := viewOf(e, g.value(e, true, true), "R")
			if !ok {
				add("wrap", e, mode, "-", "-", gvText(v))
				continue
			}
			add("unmarshal", e, mode, cdc, "-", d.Text())
		}
	}
	g.add(hid, "hist", strings.Join(steps, ";"))
}

var _ = sort.Strings

// corpus: boundary cases and the witnesses of the known findings
func corpus(g *gen) {
	h := func(hid string, steps ...[]string) {
		var ss []string
		for _, s := range steps {
			// s = op, type id, mode, codec, level, payload
			ss = append(ss, strings.Join(s, ","))
		}
		g.add(hid, "hist", strings.Join(ss, ";"))
	}
	inner := "S2 i7 s6162"
	innerRepr := "m2 k58 i7 k59 s6162"
	// the same named type wrapped twice with an inferred schema
	h("h1", []string{"wrap", "Inner", "i", "-", "-", inner}, []string{"wrap", "Inner", "i", "-", "-", inner},
		[]string{"wrap", "Inner", "x", "-", "-", inner}, []string{"build", "Inner", "i", "-", "T", innerRepr})
	// two different types sharing the inferred name List_String
	h("h2", []string{"wrap", "InfA", "i", "-", "-", "S1 L1 s61"}, []string{"wrap", "InfB", "i", "-", "-", "S1 L1 s62"},
		[]string{"wrap", "InfA", "i", "-", "-", "S1 z"})
	// one struct with two []string fields: the first call already collides
	h("h3", []string{"wrap", "DupLists", "i", "-", "-", "S2 L1 s61 z"}, []string{"wrap", "DupLists", "x", "-", "-", "S2 L1 s61 z"})
	// Unmarshal with a nil schema resolves the schema twice in one call
	h("h4", []string{"unmarshal", "Inner", "i", "json", "-", innerRepr}, []string{"marshal", "Inner", "i", "json", "-", inner})
	// explicit schemas never touch the registry; roots that register nothing
	h("h5", []string{"wrap", "Inner", "x", "-", "-", inner}, []string{"wrap", "Inner", "x", "-", "-", inner},
		[]string{"wrap", "string", "i", "-", "-", "s6869"}, []string{"wrap", "string", "i", "-", "-", "s6869"},
		[]string{"wrap", "int64", "i", "-", "-", "i-5"}, []string{"marshal", "Prims", "i", "cbor", "-", "S5 t i-1 d3ff8000000000000 s78 b00ff"},
		[]string{"marshal", "Prims", "x", "cbor", "-", "S5 t i-1 d3ff8000000000000 s78 b00ff"})
	h("h6", []string{"wrap", "strs", "i", "-", "-", "L2 s61 s62"}, []string{"wrap", "strs", "i", "-", "-", "z"},
		[]string{"wrap", "Names", "i", "-", "-", "L1 s61"}, []string{"wrap", "Names", "i", "-", "-", "L1 s61"})
	// types inferSchema refuses
	h("h7", []string{"wrap", "InfInt", "i", "-", "-", "S1 i5"}, []string{"wrap", "InfPtr", "i", "-", "-", "S1 z"},
		[]string{"wrap", "InfInt", "i", "-", "-", "S1 i5"}, []string{"wrap", "Tuple", "i", "-", "-", "S3 i1 s78 t"})
	// nested named structs: the inner type is registered by the outer call
	h("h8", []string{"wrap", "InfNest", "i", "-", "-", "S2 S2 i1 s61 S5 f i2 d0 s z"}, []string{"wrap", "Inner", "i", "-", "-", inner},
		[]string{"wrap", "Prims", "i", "-", "-", "S5 f i2 d0 s z"})

	// maps of struct values: an optional field / a list set by one entry and omitted / shorter in the next
	// (each entry is assembled into its own Go value: nothing carries over, in either order, at either level)
	ea := "m3 k4e616d65 s78 k546167 s74 k4c a2 s71 s72"
	eb := "m2 k4e616d65 s79 k4c a0"
	ec := "m3 k4e616d65 s7a k546167 s75 k4c a1 s73"
	g.add("mo1", "build", "MapSO", "T", "", "", "m2 k61 "+ea+" k62 "+eb)
	g.add("mo2", "build", "MapSO", "R", "", "", "m3 k61 "+ea+" k62 "+eb+" k63 "+ec)
	g.add("mo3", "build", "MapSO", "T", "", "", "m3 k62 "+eb+" k61 "+ea+" k63 "+eb)
	g.add("mo4", "build", "MapSO", "R", "", "", "m2 k63 "+ec+" k62 "+eb)
	oa := "m3 k496e m2 k58 i1 k59 s61 k50 m2 k58 i2 k59 s62 k4e616d65 s6e"
	ob := "m2 k496e m2 k58 i3 k59 s63 k4e616d65 s6d"
	g.add("mo5", "build", "MapOuter", "T", "", "", "m2 k61 "+oa+" k62 "+ob)
	g.add("mo6", "build", "MapOuter", "R", "", "", "m3 k61 "+oa+" k62 "+ob+" k63 "+oa)
	h("h9", []string{"unmarshal", "MapSO", "x", "json", "-", "m2 k61 " + ea + " k62 " + eb},
		[]string{"unmarshal", "MapSO", "x", "cbor", "-", "m3 k61 " + ea + " k62 " + eb + " k63 " + ec},
		[]string{"unmarshal", "MapOuter", "x", "json", "-", "m2 k61 " + oa + " k62 " + ob})

	// integer narrowing on assembly
	g.add("n1", "build", "Narrow", "T", "", "", "m6 k41 i12c k42 i0 k43 i0 k44 i0 k45 i0 k46 i0")
	g.add("n2", "build", "Narrow", "T", "", "", "m6 k41 i0 k42 i12c k43 i0 k44 i0 k45 i0 k46 i0")
	g.add("n3", "build", "Narrow", "R", "", "", "m6 k41 i0 k42 i0 k43 i-8001 k44 i100000000 k45 i0 k46 i0")
	g.add("n4", "build", "Narrow", "T", "", "", "m6 k41 i0 k42 i0 k43 i0 k44 i0 k45 i8000000000000001 k46 i0")
	g.add("n5", "build", "Narrow", "T", "", "", "m6 k41 i7f k42 iff k43 i-8000 k44 iffffffff k45 i-8000000000000000 k46 iffffffffffffffff")
	g.add("n6", "build", "Narrow", "T", "", "", "m6 k41 i0 k42 i-1 k43 i0 k44 i0 k45 i0 k46 i0")
	// Go uint holding a value beyond int64
	g.add("u1", "wrap", "BigU", "", "", "S2 i8000000000000005 i8000000000000005")
	g.add("u2", "wrap", "BigU", "", "", "S2 i7fffffffffffffff iffffffffffffffff")
	g.add("u3", "rt", "BigU", "cbor", "", "", "S2 i8000000000000000 i1")
	// nullable field bound to a pointer to an unsigned integer
	g.add("p1", "build", "NulU8", "T", "", "", "m1 k56 i5")
	g.add("p2", "build", "NulU8", "T", "", "", "m1 k56 n")
	g.add("p3", "wrap", "NulU8", "", "", "S1 p i5")
	g.add("p4", "build", "OptU64", "T", "", "", "m1 k56 iffffffffffffffff")
	// optional field bound to a slice: present-and-empty vs absent
	g.add("o1", "rt", "OptSlice", "json", "", "", "S1 L0")
	g.add("o2", "rt", "OptSlice", "cbor", "", "", "S1 z")
	g.add("o3", "rt", "OptSlice", "cbor", "", "", "S1 L1 s61")
	g.add("o4", "build", "OptSlice", "T", "", "", "m1 k4c a0")
	// enum with an int representation bound to a Go int
	g.add("e1", "wrap", "EnumII", "", "", "S1 i2")
	g.add("e2", "build", "EnumII", "T", "", "", "m1 k45 s477265656e")
	g.add("e3", "build", "EnumII", "R", "", "", "m1 k45 i7")
	g.add("e4", "rt", "EnumII", "json", "", "", "S1 i1")
	// ill-formed Go values
	g.add("x1", "wrap", "UKeyed", "", "", "S3 z z z")
	g.add("x2", "wrap", "ReqPtr", "", "", "S2 z z")
	g.add("x3", "wrap", "MapSI", "", "", "S2 L1 s61 G0")
	g.add("x4", "wrap", "UKeyed", "", "", "S3 p s61 p i2 z")
	g.add("x5", "wrap", "EnumS", "", "", "S1 s507572706c65")
	g.add("x6", "wrap", "AnyBox", "", "", "S1 z")
	// renames landing on sibling field names: the representation key "Name" belongs to field Id
	g.add("k1", "wrap", "RenChain", "", "", "S3 i5 s6e s74")
	g.add("k2", "build", "RenChain", "R", "", "", "m3 k4e616d65 i5 k5469746c65 s6e k74 s74")
	g.add("k3", "rt", "RenChain", "json", "", "", "S3 i5 s6e s74")
	g.add("k4", "rt", "RenSwap", "cbor", "", "", "S2 i7 s62")
	g.add("k5", "build", "RenSwap", "R", "", "", "m2 k42 i7 k41 s62")
	g.add("k6", "rt", "RenCycle", "cbor", "", "", "S3 z p s6e s74")
	g.add("k7", "build", "RenCycle", "R", "", "", "m2 k5469746c65 s6e k4964 s74")
	g.add("k8", "gotype", "RenChain", "C", "", "m3 k4e616d65 i5 k5469746c65 s6e k74 s74")
	// empty is not null, empty is not absent
	g.add("z1", "gotype", "NulBytes", "C", "", "m3 k42 b k4c a0 k4f b")
	g.add("z2", "gotype", "NulBytes", "R", "", "m2 k42 b k4c a0")
	g.add("z3", "rt", "NulBytes", "cbor", "", "", "S3 p z p z p z")
	g.add("z4", "rt", "NulBytes", "json", "", "", "S3 z z z")
	// unions as values of ordered-map structs, as members of unions, in lists of maps
	g.add("m1", "build", "MapUK", "T", "", "", "m2 k61 m1 k537472696e67 s78 k62 m1 k496e74 i7")
	g.add("m2", "build", "MapUK", "R", "", "", "m2 k61 m1 k73 s78 k62 m1 k696e m2 k58 i1 k59 s79")
	g.add("m3", "rt", "MapUK", "cbor", "", "", "S2 L2 s62 s61 G2 s61 S3 p s78 z z s62 S3 z p i7 z")
	g.add("m4", "rt", "MapUK", "json", "", "", "S2 L1 s61 G1 s61 S3 z z p S2 i1 s79")
	g.add("m5", "build", "MapUD", "R", "", "", "m2 k61 s78 k62 a2 s70 s71")
	g.add("m6", "build", "MapUS", "R", "", "", "m2 k61 s733a78 k62 s633a52656400")
	g.add("m7", "build", "MapUS", "R", "", "", "m1 k61 s633a526564")
	g.add("m8", "build", "MapUKN", "R", "", "", "m2 k61 n k62 m1 k69 i3")
	g.add("m9", "build", "MapUDN", "R", "", "", "m2 k61 n k62 i3")
	g.add("m10", "build", "MapUSN", "R", "", "", "m2 k61 n k62 s733a")
	g.add("m11", "build", "UU", "R", "", "", "m1 k6b m1 k73 s78")
	g.add("m12", "build", "UU", "R", "", "", "m1 k64 a1 s70")
	g.add("m13", "build", "UU", "R", "", "", "m1 k70 s633a477265656e")
	g.add("m14", "build", "UKO", "R", "", "", "m1 k69 i3")
	g.add("m15", "build", "UKO", "R", "", "", "s733a68")
	g.add("m16", "rt", "UU", "cbor", "", "", "S4 z z p S2 z p s426c7565 z")
	g.add("m17", "build", "ListMapU", "R", "", "", "m2 k4c a2 m1 k61 m1 k73 s78 m0 k53 a1 m1 k62 s733a79")
	g.add("m18", "build", "USP", "R", "", "", "s783a")
	g.add("m19", "build", "USP", "R", "", "", "m0")
	g.add("m20", "build", "USP", "R", "", "", "m1 k733a s78")
	// a wrapped node is a live view: optional fields set / cleared behind the pointer
	g.add("lv1", "live", "Opt", "cbor", "", "", "S3 z z z", "S3 p i1 p s62 p t")
	g.add("lv2", "live", "Opt", "json", "", "", "S3 p i1 p s62 p t", "S3 z z z")
	g.add("lv3", "live", "Opt", "cbor", "", "", "S3 p i1 z z", "S3 z z p f")
	g.add("lv4", "live", "TupleOpt", "cbor", "", "", "S2 i1 z", "S2 i2 p s78")
	g.add("lv5", "live", "TupleOpt", "json", "", "", "S2 i1 p s78", "S2 i2 z")
	g.add("lv6", "live", "RenCycle", "cbor", "", "", "S3 z z s74", "S3 p i5 p s6e s75")
	g.add("lv7", "live", "Outer", "cbor", "", "", "S3 S2 i1 s61 z s6e", "S3 S2 i2 s62 p S2 i3 s63 s6d")
	g.add("lv8", "live", "MapSI", "cbor", "", "", "S2 L1 s61 G1 s61 i1", "S2 L2 s62 s61 G2 s61 i1 s62 i2")
	g.add("lv9", "live", "UKeyed", "json", "", "", "S3 p s61 z z", "S3 z p i7 z")
	g.add("lv10", "live", "ListS", "cbor", "", "", "S1 L3 s61 s62 s63", "S1 z")
	// float32 rounding and overflow on assembly
	g.add("f1", "build", "Floats", "T", "", "", "m2 k463332 d3fb999999999999a k463634 d3fb999999999999a")
	g.add("f2", "build", "Floats", "T", "", "", "m2 k463332 d7e37e43c8800759c k463634 d0")
}
