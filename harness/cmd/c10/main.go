// c10: parsers of untrusted data are total and bounded.
// Records:
//   id, "dec", codec, target, opts, hex-input, obs      obs = ok|d<depth>  /  err:<class>  /  panic:<site>
//   id, "alloc", codec, opts, hex-input, obs            obs = alloc:<bytes>|<class>
//   id, "path", hex-input, obs                          obs = <n>:<hexseg>,<hexseg>,...
// Side file <out>.j (dag-json tie, read by the json cluster's driver from extra() in vlib/props/c10.py): one
//   id, "j", codec, opts, hex-input, ptab, obs          for every dagjson/json "dec" record into the basic target;
//   ptab = cid.Decode of every string token of the input (as in c04), obs = the dec record's observation
// codec in dagcbor|cbor|dagjson|json|raw ; target in basic|bind:<Type>|gen:<Type>
// opts for the cbor family as in c03 (s l e b d) plus p<prealloc>; for json: l<0|1>y<0|1>e<0|1>d<depth>
package main

import (
	"bytes"
	"fmt"
	"os"
	"os/exec"
	"syscall"
	"runtime"
	"runtime/debug"
	"strconv"
	"strings"

	"verifharness/lib"

	ipld "github.com/ipld/go-ipld-prime"
	"github.com/ipld/go-ipld-prime/codec/dagcbor"
	"github.com/ipld/go-ipld-prime/codec/dagjson"
	"github.com/ipld/go-ipld-prime/codec/raw"
	"github.com/ipld/go-ipld-prime/datamodel"
	"github.com/ipld/go-ipld-prime/node/basicnode"
	"github.com/ipld/go-ipld-prime/node/bindnode"
	"github.com/ipld/go-ipld-prime/node/gendemo"
	"github.com/ipld/go-ipld-prime/schema"
)

const typedSchema = `
type Root struct {
  name String
  count Int (rename "n")
  opt optional String
  nul nullable Int
  both optional nullable Bool
  tup Tup
  sj SJ
  lp LP
  ku KU
  kind KindU
  sp SPU
  en En
  ien IEn
  m {String:Int}
  l [nullable String]
  lnk &Any
  any Any
  flt Float
  byt Bytes
}
type Tup struct { a Int  b String  c optional Bool } representation tuple
type SJ struct { x String  y String } representation stringjoin { join ":" }
type LP struct { p Int  q optional String } representation listpairs
type KU union { | String "s" | Int "i" | Tup "t" } representation keyed
type KindU union { | String string | Int int | Tup list | SJm map | Bool bool } representation kinded
type SJm struct { z Int }
type SPU union { | String "a:" | Bytes2 "b:" } representation stringprefix
type Bytes2 string
type En enum { | Yes ("y") | No ("n") | Maybe }
type IEn enum { | One ("1") | Two ("2") } representation int
type KL [nullable KindU]
type MM {String:Root2}
type Root2 struct { v optional KU  w [Tup] }
`

var (
	ts        *schema.TypeSystem
	bindTypes = []string{"Root", "Tup", "SJ", "LP", "KU", "KindU", "SPU", "En", "IEn", "KL", "MM", "Root2"}
	genProtos = map[string]datamodel.NodePrototype{
		"Msg3":             gendemo.Type.Msg3__Repr,
		"Map__String__Msg3": gendemo.Type.Map__String__Msg3__Repr,
		"UnionKinded":      gendemo.Type.UnionKinded__Repr,
		"Int":              gendemo.Type.Int__Repr,
		"String":           gendemo.Type.String__Repr,
		"Bar":              gendemo.Type.Bar__Repr,
		"Foo":              gendemo.Type.Foo__Repr,
	}
)

func protoFor(target string) (datamodel.NodePrototype, error) {
	switch {
	case target == "basic":
		return basicnode.Prototype.Any, nil
	case strings.HasPrefix(target, "bind:"):
		typ := ts.TypeByName(target[5:])
		if typ == nil {
			return nil, fmt.Errorf("no type")
		}
		return bindnode.Prototype(nil, typ).Representation(), nil
	case strings.HasPrefix(target, "gen:"):
		p, ok := genProtos[target[4:]]
		if !ok {
			return nil, fmt.Errorf("no gen type")
		}
		return p, nil
	}
	return nil, fmt.Errorf("bad target")
}

type cborOpts struct {
	strict, links, beyond  bool
	budget, depth, prealloc int64
}

func (o cborOpts) String() string {
	b := func(x bool) string {
		if x {
			return "1"
		}
		return "0"
	}
	return fmt.Sprintf("s%sl%se%sb%dd%dp%d", b(o.strict), b(o.links), b(o.beyond), o.budget, o.depth, o.prealloc)
}

func parseCborOpts(s string) cborOpts {
	var o cborOpts
	o.strict, o.links, o.beyond = s[1] == '1', s[3] == '1', s[5] == '1'
	rest := s[7:]
	i, j := strings.IndexByte(rest, 'd'), strings.IndexByte(rest, 'p')
	o.budget, _ = strconv.ParseInt(rest[:i], 10, 64)
	o.depth, _ = strconv.ParseInt(rest[i+1:j], 10, 64)
	o.prealloc, _ = strconv.ParseInt(rest[j+1:], 10, 64)
	return o
}

type jsonOpts struct {
	links, bytes, beyond bool
	depth                int64
}

func (o jsonOpts) String() string {
	b := func(x bool) string {
		if x {
			return "1"
		}
		return "0"
	}
	return fmt.Sprintf("l%sy%se%sd%d", b(o.links), b(o.bytes), b(o.beyond), o.depth)
}

func parseJsonOpts(s string) jsonOpts {
	var o jsonOpts
	o.links, o.bytes, o.beyond = s[1] == '1', s[3] == '1', s[5] == '1'
	o.depth, _ = strconv.ParseInt(s[7:], 10, 64)
	return o
}

func depthOf(n datamodel.Node) int {
	switch n.Kind() {
	case datamodel.Kind_List:
		d := 0
		it := n.ListIterator()
		for !it.Done() {
			_, v, err := it.Next()
			if err != nil {
				break
			}
			if x := depthOf(v); x > d {
				d = x
			}
		}
		return d + 1
	case datamodel.Kind_Map:
		d := 0
		it := n.MapIterator()
		for !it.Done() {
			_, v, err := it.Next()
			if err != nil {
				break
			}
			if x := depthOf(v); x > d {
				d = x
			}
		}
		return d + 1
	}
	return 0
}

// panicSite maps a panic message to a short stable site name
func panicSite(msg string) string {
	switch {
	case strings.Contains(msg, "_errorAssembler"):
		return "bind_listpairs_unknown_field"
	case strings.Contains(msg, "reflect.Value.Field on ptr"), strings.Contains(msg, "reflect: call of reflect.Value.Field"):
		return "bind_kinded_union_in_nullable"
	case strings.Contains(msg, "reflect"):
		return "reflect_other"
	case strings.Contains(msg, "nil pointer"):
		return "nilptr"
	case strings.Contains(msg, "index out of range"), strings.Contains(msg, "slice bounds"):
		return "bounds"
	}
	return "other"
}

func decode(codec, target, opts string, in []byte) (obs string) {
	proto, err := protoFor(target)
	if err != nil {
		return "skip"
	}
	var nb datamodel.NodeBuilder
	rd := bytes.NewReader(in)
	derr := lib.Safely(func() error {
		nb = proto.NewBuilder()
		switch codec {
		case "dagcbor", "cbor":
			o := parseCborOpts(opts)
			if codec == "cbor" {
				o.links = false
			}
			return dagcbor.DecodeOptions{AllowLinks: o.links, RelaxedDecode: !o.strict, DontParseBeyondEnd: o.beyond,
				AllocationBudget: o.budget, MaxDepth: o.depth, MaxCollectionPrealloc: o.prealloc}.Decode(nb, rd)
		case "dagjson", "json":
			o := parseJsonOpts(opts)
			if codec == "json" {
				o.links, o.bytes = false, false
			}
			return dagjson.DecodeOptions{ParseLinks: o.links, ParseBytes: o.bytes, DontParseBeyondEnd: o.beyond, MaxDepth: o.depth}.Decode(nb, rd)
		case "raw":
			return raw.Decode(nb, struct{ *bytes.Reader }{rd})
		}
		return fmt.Errorf("bad codec")
	})
	if derr != nil {
		if lib.IsPanic(derr) {
			return "panic:" + panicSite(derr.Error())
		}
		if codec == "dagcbor" || codec == "cbor" {
			return "err:" + lib.CborErrClass(derr)
		}
		if strings.Contains(derr.Error(), "depth") {
			return "err:depth"
		}
		return "err:other"
	}
	var d int
	rerr := lib.Safely(func() error {
		n := nb.Build()
		if tn, ok := n.(schema.TypedNode); ok {
			n = tn.Representation()
		}
		d = depthOf(n)
		_ = lib.Dump(n)
		return nil
	})
	if rerr != nil {
		return "panic:read_" + panicSite(rerr.Error())
	}
	return fmt.Sprintf("ok|d%d", d)
}

func allocOf(codec, opts string, in []byte) string {
	runtime.GC()
	var m0, m1 runtime.MemStats
	old := debug.SetGCPercent(-1)
	runtime.ReadMemStats(&m0)
	obs := decode(codec, "basic", opts, in)
	runtime.ReadMemStats(&m1)
	debug.SetGCPercent(old)
	cls := obs
	if i := strings.IndexByte(obs, '|'); i >= 0 {
		cls = obs[:i]
	}
	return fmt.Sprintf("alloc:%d|%s", m1.TotalAlloc-m0.TotalAlloc, cls)
}

func pathObs(s string) string {
	var out string
	err := lib.Safely(func() error {
		p := datamodel.ParsePath(s)
		segs := p.Segments()
		parts := make([]string, len(segs))
		for i, sg := range segs {
			parts[i] = lib.Hex(sg.String())
			_, _ = sg.Index()
		}
		out = fmt.Sprintf("%d:%s", len(segs), strings.Join(parts, ","))
		_ = p.String()
		return nil
	})
	if err != nil {
		return "panic:path"
	}
	return out
}

// seeds for the typed targets: data-model texts that conform (mostly) to the schema types
var seeds = map[string][]string{
	"Root": {`{"name":"x","n":3,"nul":null,"tup":[1,"a"],"sj":"p:q","lp":[["p",1]],"ku":{"s":"v"},"kind":5,"sp":"a:zz","en":"y","ien":1,"m":{"a":1},"l":["s",null],"lnk":{"/":"bafkqaaa"},"any":[1,{"k":null}],"flt":1.5,"byt":{"/":{"bytes":"AAEC"}}}`},
	"Tup":   {`[1,"a"]`, `[1,"a",true]`, `[1]`, `[1,"a",true,4]`},
	"SJ":    {`"p:q"`, `"pq"`, `":"`, `"a:b:c"`},
	"LP":    {`[["p",1]]`, `[["p",1],["q","x"]]`, `[["a",1],["&","x"]]`, `[["p",1],["p",2]]`, `[["q","x"]]`, `[[1,2]]`, `[["p"]]`},
	"KU":    {`{"s":"v"}`, `{"i":4}`, `{"t":[1,"a"]}`, `{"s":"v","i":4}`, `{}`, `{"zz":1}`},
	"KindU": {`"str"`, `5`, `[1,"a"]`, `{"z":1}`, `true`, `null`, `1.5`},
	"SPU":   {`"a:zz"`, `"b:yy"`, `"c:zz"`, `""`},
	"En":    {`"y"`, `"n"`, `"Maybe"`, `"Yes"`, `"zz"`, `1`},
	"IEn":   {`1`, `2`, `3`, `"1"`, `-1`},
	"KL":    {`[1,null,"x",[2,"b"]]`, `[null]`, `[]`, `[{"z":1},true]`},
	"MM":    {`{"k":{"w":[[1,"a"]]}}`, `{"k":{"v":{"s":"x"},"w":[]}}`, `{}`},
	"Root2": {`{"w":[]}`, `{"v":{"i":1},"w":[[1,"a",false]]}`},
	"Msg3":  {`{"whee":1,"woot":2,"waga":3}`, `{"whee":1,"woot":2}`, `{"whee":1,"whee":2,"woot":2,"waga":3}`, `{"whee":"x","woot":2,"waga":3}`},
	"Map__String__Msg3": {`{"a":{"whee":1,"woot":2,"waga":3}}`, `{}`},
	"UnionKinded": {`"x"`, `{"whee":1,"woot":2,"waga":3}`, `5`},
	"Int":    {`5`, `"x"`},
	"String": {`"x"`, `5`},
	"Bar":    {`true`, `{"x":1}`},
	"Foo":    {`{"f":1}`, `1`},
}

func seedVals(rng *lib.Rng, name string) []*lib.Val {
	var out []*lib.Val
	for _, js := range seeds[name] {
		nb := basicnode.Prototype.Any.NewBuilder()
		if err := dagjson.Decode(nb, strings.NewReader(js)); err != nil {
			// duplicate keys etc. cannot be built as basicnode: skip (the byte-level mutations cover them)
			continue
		}
		v, err := lib.ParseVal(lib.Dump(nb.Build()))
		if err == nil {
			out = append(out, v)
		}
	}
	return out
}

// treeMutate applies one local mutation somewhere in the tree
func treeMutate(rng *lib.Rng, v *lib.Val, cfg *lib.GenCfg) *lib.Val {
	c := *v
	switch v.Kind {
	case lib.KList:
		c.L = append([]*lib.Val{}, v.L...)
		if len(c.L) > 0 && rng.Intn(3) > 0 {
			i := rng.Intn(len(c.L))
			c.L[i] = treeMutate(rng, c.L[i], cfg)
			return &c
		}
		switch rng.Intn(4) {
		case 0:
			c.L = append(c.L, rng.GenVal(cfg, 2))
		case 1:
			if len(c.L) > 0 {
				c.L = c.L[:len(c.L)-1]
			}
		case 2:
			if len(c.L) > 0 {
				c.L[rng.Intn(len(c.L))] = lib.Null()
			}
		default:
			return rng.GenVal(cfg, 2)
		}
		return &c
	case lib.KMap:
		c.M = append([]lib.Entry{}, v.M...)
		if len(c.M) > 0 && rng.Intn(3) > 0 {
			i := rng.Intn(len(c.M))
			c.M[i] = lib.Entry{K: c.M[i].K, V: treeMutate(rng, c.M[i].V, cfg)}
			return &c
		}
		switch rng.Intn(5) {
		case 0:
			c.M = append(c.M, lib.Entry{K: rng.GenStr(cfg), V: rng.GenVal(cfg, 2)})
		case 1:
			if len(c.M) > 0 {
				i := rng.Intn(len(c.M))
				c.M = append(c.M[:i], c.M[i+1:]...)
			}
		case 2:
			if len(c.M) > 0 {
				i := rng.Intn(len(c.M))
				c.M[i] = lib.Entry{K: rng.GenStr(cfg), V: c.M[i].V}
			}
		case 3:
			if len(c.M) > 0 {
				c.M[rng.Intn(len(c.M))].V = lib.Null()
			}
		default:
			return rng.GenVal(cfg, 2)
		}
		return &c
	}
	if rng.Intn(2) == 0 {
		return rng.GenVal(cfg, 3)
	}
	return v
}

func encodeCbor(v *lib.Val, rng *lib.Rng, rate int) []byte {
	m := &lib.CborMut{R: rng, Rate: rate}
	m.Emit(v)
	return m.Buf
}

func encodeJSON(v *lib.Val) []byte {
	n, err := lib.BuildBasic(v)
	if err != nil {
		return []byte("null")
	}
	var buf bytes.Buffer
	if err := lib.Safely(func() error { return dagjson.Encode(n, &buf) }); err != nil {
		return []byte("null")
	}
	return buf.Bytes()
}

func textMutate(rng *lib.Rng, b []byte, k int) []byte {
	out := append([]byte{}, b...)
	toks := []string{"{", "}", "[", "]", ",", ":", "\"", "\\", "\\u", "\\ud800", "null", "true", "1e999", "-", "0x1", "1.", ".5", "{\"/\":", "{\"/\":{\"bytes\":\"", " ", "\n", "\x00", "\xff", "1e400", "123456789012345678901234567890", "-0", "[[[[[[[["}
	for i := 0; i < k; i++ {
		if len(out) == 0 {
			out = append(out, toks[rng.Intn(len(toks))]...)
			continue
		}
		p := rng.Intn(len(out))
		switch rng.Intn(5) {
		case 0:
			out = append(out[:p], append([]byte(toks[rng.Intn(len(toks))]), out[p:]...)...)
		case 1:
			out = out[:p]
		case 2:
			out = append(out[:p], out[p+1:]...)
		case 3:
			out[p] = byte(rng.U64())
		default:
			out = append(out, toks[rng.Intn(len(toks))]...)
		}
	}
	return out
}

// allocChild runs one allocation probe in a child process with an address-space limit, so that a
// fatal out-of-memory (which recover() cannot catch) is an observation instead of a harness crash.
func allocChild(codec, opts string, in []byte) string {
	cmd := exec.Command(os.Args[0], "-child-alloc", codec, opts, lib.Hex(string(in)))
	cmd.Env = append(os.Environ(), "GOMEMLIMIT=3GiB")
	out, err := cmd.Output()
	if err != nil {
		return "alloc:-1|crash"
	}
	return strings.TrimSpace(string(out))
}

func main() {
	if len(os.Args) >= 5 && os.Args[1] == "-child-alloc" {
		var rl syscall.Rlimit
		rl.Cur, rl.Max = 6<<30, 6<<30
		_ = syscall.Setrlimit(syscall.RLIMIT_AS, &rl)
		fmt.Println(allocOf(os.Args[2], os.Args[3], []byte(lib.UnHex(os.Args[4]))))
		return
	}
	fl := lib.ParseFlags()
	var err error
	ts, err = ipld.LoadSchemaBytes([]byte(typedSchema))
	if err != nil {
		fmt.Fprintln(os.Stderr, "schema:", err)
		os.Exit(2)
	}
	out := lib.OpenOut(fl.Out)
	defer out.Close()
	var jout *lib.Out
	if fl.Out != "" {
		jout = lib.OpenOut(fl.Out + ".j")
		defer jout.Close()
	}
	emitDec := func(id, codec, target, opts string, in []byte) {
		obs := decode(codec, target, opts, in)
		out.Case(id, "dec", codec, target, opts, lib.Hex(string(in)), obs)
		if jout != nil && target == "basic" && (codec == "dagjson" || codec == "json") {
			jout.Case(id, "j", codec, opts, lib.Hex(string(in)), lib.JsonParseTable(in), obs)
		}
	}
	emitAlloc := func(id, codec, opts string, in []byte) {
		out.Case(id, "alloc", codec, opts, lib.Hex(string(in)), allocChild(codec, opts, in))
	}
	emitPath := func(id, s string) { out.Case(id, "path", lib.Hex(s), pathObs(s)) }
	if fl.Replay != "" {
		for _, line := range lib.ReadLines(fl.Replay) {
			f := strings.Split(line, "\t")
			switch f[1] {
			case "dec":
				emitDec(f[0], f[2], f[3], f[4], []byte(lib.UnHex(f[5])))
			case "j": // a dag-json tie record replays as the dec record it was derived from
				emitDec(f[0], f[2], "basic", f[3], []byte(lib.UnHex(f[4])))
			case "alloc":
				emitAlloc(f[0], f[2], f[3], []byte(lib.UnHex(f[4])))
			case "path":
				emitPath(f[0], lib.UnHex(f[2]))
			}
		}
		return
	}
	n := fl.N
	if n == 0 {
		n = 2500
	}
	rng := lib.NewRng(fl.Seed)
	id := 0
	next := func(p string) string { id++; return fmt.Sprintf("%s%d", p, id) }
	cfg := &lib.GenCfg{MaxDepth: 4, MaxWidth: 4, Links: true, UintBeyond: true, BadUTF8: true, NaNInf: true}
	jcfg := &lib.GenCfg{MaxDepth: 4, MaxWidth: 4, Links: true}
	defC := cborOpts{strict: true, links: true}.String()
	defJ := jsonOpts{links: true, bytes: true}.String()

	// --- typed targets: seeds, tree mutations of seeds, byte mutations of their encodings
	targets := []string{}
	for _, t := range bindTypes {
		targets = append(targets, "bind:"+t)
	}
	for t := range genProtos {
		targets = append(targets, "gen:"+t)
	}
	// deterministic order
	for i := 0; i < len(targets); i++ {
		for j := i + 1; j < len(targets); j++ {
			if targets[j] < targets[i] {
				targets[i], targets[j] = targets[j], targets[i]
			}
		}
	}
	rounds := 12
	if fl.Tier == "thorough" {
		rounds = 400
	}
	for _, tg := range targets {
		name := tg[strings.IndexByte(tg, ':')+1:]
		vals := seedVals(rng, name)
		for _, js := range seeds[name] {
			emitDec(next("s"), "dagjson", tg, defJ, []byte(js))
		}
		for _, v := range vals {
			emitDec(next("s"), "dagcbor", tg, defC, encodeCbor(v, rng, 0))
			for r := 0; r < rounds; r++ {
				mv := v
				for k := 0; k <= rng.Intn(3); k++ {
					mv = treeMutate(rng, mv, cfg)
				}
				cb := encodeCbor(mv, rng, []int{0, 0, 5, 15}[rng.Intn(4)])
				emitDec(next("t"), "dagcbor", tg, cborOpts{strict: rng.Intn(4) > 0, links: true}.String(), cb)
				if r%3 == 0 {
					emitDec(next("t"), "dagcbor", tg, defC, rng.ByteMutate(cb, 1+rng.Intn(2)))
					jb := encodeJSON(mv)
					emitDec(next("t"), "dagjson", tg, defJ, jb)
					emitDec(next("t"), "dagjson", tg, defJ, textMutate(rng, jb, 1+rng.Intn(2)))
				}
			}
		}
	}
	// --- generic target, all codecs, option lattice
	budgets := []int64{0, 0, 1, 7, 50, 300, -1}
	depths := []int64{0, 0, 1, 2, 4}
	preallocs := []int64{0, 0, 1, 16, 1 << 40}
	wides := []int{13, 25, 257, 1023, 1024, 1025, 1100}
	for i := 0; i < n; i++ {
		v := rng.GenVal(cfg, 0)
		if i < 2*len(wides) { // wide containers first: depth / budget bookkeeping must not depend on sibling position
			v = rng.GenWide(cfg, i%2, wides[i/2])
		}
		co := cborOpts{strict: rng.Intn(4) > 0, links: rng.Intn(5) > 0, beyond: rng.Intn(6) == 0,
			budget: budgets[rng.Intn(len(budgets))], depth: depths[rng.Intn(len(depths))], prealloc: preallocs[rng.Intn(len(preallocs))]}
		cb := encodeCbor(v, rng, []int{0, 5, 15}[rng.Intn(3)])
		codec := "dagcbor"
		if i%5 == 0 {
			codec = "cbor"
		}
		base := next("g")
		emitDec(base, codec, "basic", co.String(), cb)
		emitDec(base+".m", codec, "basic", co.String(), rng.ByteMutate(cb, 1+rng.Intn(3)))
		if i%4 == 0 {
			jv := rng.GenVal(jcfg, 0)
			jo := jsonOpts{links: rng.Intn(4) > 0, bytes: rng.Intn(4) > 0, beyond: rng.Intn(6) == 0, depth: depths[rng.Intn(len(depths))]}
			jb := encodeJSON(jv)
			jc := "dagjson"
			if i%8 == 0 {
				jc = "json"
			}
			emitDec(base+".j", jc, "basic", jo.String(), jb)
			emitDec(base+".jm", jc, "basic", jo.String(), textMutate(rng, jb, 1+rng.Intn(3)))
			emitDec(base+".r", "raw", "basic", "-", cb)
			emitDec(base+".rb", "raw", "bind:Root", "-", cb)
		}
	}
	// --- hostile length claims: allocation must stay within a fixed multiple of budget + input
	hostile := []string{
		"9b0000000000ffffff", "bb0000000000ffffff", "9a000fffff", "ba000fffff", "5a00ffffff", "7a00ffffff", "5a01ffffff00", "7a01ffffff00",
		"9a00100000" + strings.Repeat("00", 40), "ba00100000" + strings.Repeat("6100", 20), "5b0000000001ffffff", "7b0000000001ffffff",
		"9b7fffffffffffffff", "bb7fffffffffffffff", "5b7fffffffffffffff", "9a0009fffe", "ba0009fffe", "99ffff", "b9ffff", "59ffff", "79ffff",
		strings.Repeat("81", 2000), strings.Repeat("a161", 1500), strings.Repeat("9a00001000", 50),
	}
	for _, h := range hostile {
		in := []byte(lib.UnHex(h))
		for _, b := range []int64{0, 1000, 100000} {
			for _, p := range []int64{0, 1 << 40} {
				o := cborOpts{strict: true, links: true, budget: b, prealloc: p}
				emitAlloc(next("a"), "dagcbor", o.String(), in)
			}
		}
	}
	for i := 0; i < 30; i++ {
		deep := strings.Repeat("[", 10+i*200) + strings.Repeat("]", 10+i*200)
		emitAlloc(next("a"), "dagjson", defJ, []byte(deep))
		emitDec(next("a"), "dagjson", "basic", defJ, []byte(deep))
		emitDec(next("a"), "dagcbor", "basic", defC, []byte(strings.Repeat("\x81", 10+i*200)+"\x00"))
	}
	// --- the look-ahead for {"/": ...}: every way the link / bytes shape can stop matching, at every number of
	// buffered tokens (the replay of up to six tokens must never panic), each also truncated at every position
	for _, doc := range []string{
		`{"/":1}`, `{"/":null,"x":1}`, `{"/":"bafkqaaa"}`, `{"/":"bafkqaaa","x":1}`, `{"/":"nocid"}`, `{"/":"nocid","x":1}`,
		`{"/":[]}`, `{"/":{}}`, `{"/":{},"x":1}`, `{"/":{"x":1}}`, `{"/":{"bytes":1}}`, `{"/":{"bytes":"aGVsbG8"}}`,
		`{"/":{"bytes":"aGVsbG8","y":2}}`, `{"/":{"bytes":"aGVsbG8"},"x":1}`, `{"/":{"bytes":"aGVsbG8"},"x":{"/":{"bytes":"AA"},"y":[1]}}`,
		`{"/":{"bytes":"!!"}}`, `{"/":{"bytes":"!!"},"x":1}`, `[{"/":{"bytes":"aGVsbG8"},"x":1},{"/":{"bytes":"aGVsbG8"}}]`,
	} {
		for _, o := range []jsonOpts{{links: true, bytes: true}, {links: true, bytes: false}, {links: false, bytes: true}, {links: false, bytes: false}} {
			emitDec(next("la"), "dagjson", "basic", o.String(), []byte(doc))
		}
		for cut := 1; cut < len(doc); cut++ {
			emitDec(next("la"), "dagjson", "basic", defJ, []byte(doc[:cut]))
		}
	}
	// --- depth accounting must not be influenced by scalars seen earlier in the document: k links /
	// bytes / strings / empty containers first, then a part nested exactly at and just beyond the limit
	for _, maxd := range []int64{1, 2, 3, 5} {
		for k := 0; k <= 3; k++ {
			for over := 0; over <= 3; over++ {
				depth := int(maxd) - 1 + over // nesting inside the outer list
				if depth < 0 {
					continue
				}
				pre := strings.Repeat(`{"/":"bafkqaaa"},{"/":{"bytes":"AAEC"}},`, k)
				for _, inner := range []string{"1", `{"a":1}`, `{"/":"bafkqaaa"}`} {
					doc := "[" + pre + strings.Repeat("[", depth) + inner + strings.Repeat("]", depth) + "]"
					for _, o := range []jsonOpts{{links: true, bytes: true, depth: maxd}, {links: false, bytes: false, depth: maxd}} {
						emitDec(next("q"), "dagjson", "basic", o.String(), []byte(doc))
					}
				}
				// the dag-cbor twin: tagged links first, then nesting
				var cb []byte
				cb = append(cb, 0x80|byte(1+2*k))
				for i := 0; i < 2*k; i++ {
					cb = append(cb, 0xd8, 0x2a, 0x45, 0x00, 0x01, 0x55, 0x00, 0x00)
				}
				for i := 0; i < depth; i++ {
					cb = append(cb, 0x81)
				}
				cb = append(cb, 0x01)
				emitDec(next("q"), "dagcbor", "basic", cborOpts{strict: true, links: true, depth: maxd}.String(), cb)
			}
		}
	}
	// --- paths
	for _, s := range []string{"", "/", "//", "a", "a/b", "/a/b/", "a//b", "0/1/2", "é/€", "\xff/\xfe", "a/\x00/b", "-", "..", "./..", strings.Repeat("/", 1000), strings.Repeat("a/", 5000)} {
		emitPath(next("p"), s)
	}
	for i := 0; i < n/2; i++ {
		var sb strings.Builder
		for k := rng.Intn(6); k >= 0; k-- {
			if rng.Intn(3) > 0 {
				sb.WriteString(rng.GenStr(cfg))
			}
			if rng.Intn(4) > 0 {
				sb.WriteByte('/')
			}
		}
		emitPath(next("p"), sb.String())
	}
}
