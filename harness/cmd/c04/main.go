// c04: DAG-JSON encoding round-trips with kinds preserved and is deterministic.
//
// Records (tab separated):
//   id, "enc", codec, holder, value-as-inserted, ftab, ctab, ptab, observation
//       codec  = dagjson | dagjson:none | dagjson:rfc | json | opt:l<0|1>b<0|1>:<none|lex|rfc>
//                (opt: dagjson.EncodeOptions{EncodeLinks, EncodeBytes, MapSortMode}.Encode, decoded back with
//                 DecodeOptions{ParseLinks, ParseBytes} of the same two switches; its encode errors are classed:
//                 err:link | err:bytes | err:other)
//       ftab   = <float bits hex>=<emitted text hex>,...   (emitFloat's text for every float in the value)
//       ctab   = <binary cid hex>=<Cid.String() hex>,...
//       ptab   = <string hex>=<binary cid hex | !>,...       (cid.Decode of every string a decoder may meet)
//       observation = <ok:hex | err> "|" <dec:dump | decerr:class | ->
//   id, "dec", opts, input-hex, ptab, observation
//       opts   = l<0|1>b<0|1>e<0|1>d<maxdepth>   (ParseLinks, ParseBytes, DontParseBeyondEnd, MaxDepth)
//       observation = ok:<dump>[|rest:<unread bytes>] | err:<class>
package main

import (
	"bytes"
	"fmt"
	"strconv"
	"strings"

	"verifharness/lib"

	"github.com/ipld/go-ipld-prime/codec"
	"github.com/ipld/go-ipld-prime/codec/dagjson"
	cjson "github.com/ipld/go-ipld-prime/codec/json"
	"github.com/ipld/go-ipld-prime/datamodel"
	"github.com/ipld/go-ipld-prime/node/basicnode"
)

func encodeWith(codecName string, n datamodel.Node, buf *bytes.Buffer) error {
	switch codecName {
	case "dagjson":
		return dagjson.Encode(n, buf)
	case "dagjson:none":
		return dagjson.EncodeOptions{EncodeLinks: true, EncodeBytes: true, MapSortMode: codec.MapSortMode_None}.Encode(n, buf)
	case "dagjson:rfc":
		return dagjson.EncodeOptions{EncodeLinks: true, EncodeBytes: true, MapSortMode: codec.MapSortMode_RFC7049}.Encode(n, buf)
	case "json":
		return cjson.Encode(n, buf)
	}
	if l, b, sm, ok := parseOptCodec(codecName); ok {
		return dagjson.EncodeOptions{EncodeLinks: l, EncodeBytes: b, MapSortMode: sm}.Encode(n, buf)
	}
	return fmt.Errorf("unknown codec")
}

// opt:l<0|1>b<0|1>:<none|lex|rfc>
func parseOptCodec(name string) (links, bts bool, sm codec.MapSortMode, ok bool) {
	if !strings.HasPrefix(name, "opt:l") || len(name) < 10 {
		return
	}
	links, bts = name[5] == '1', name[7] == '1'
	switch name[9:] {
	case "none":
		sm = codec.MapSortMode_None
	case "lex":
		sm = codec.MapSortMode_Lexical
	case "rfc":
		sm = codec.MapSortMode_RFC7049
	default:
		return
	}
	return links, bts, sm, true
}

func optCodec(links, bts bool, sort string) string {
	b := func(x bool) string {
		if x {
			return "1"
		}
		return "0"
	}
	return "opt:l" + b(links) + "b" + b(bts) + ":" + sort
}

func decodeWith(codecName string, nb datamodel.NodeAssembler, b []byte) error {
	if codecName == "json" {
		return cjson.Decode(nb, bytes.NewReader(b))
	}
	if l, bt, _, ok := parseOptCodec(codecName); ok {
		return dagjson.DecodeOptions{ParseLinks: l, ParseBytes: bt}.Decode(nb, bytes.NewReader(b))
	}
	return dagjson.Decode(nb, bytes.NewReader(b))
}

// observeEnc returns the observation and the encoded bytes (nil when encoding failed)
func observeEnc(codecName string, n datamodel.Node) (string, []byte) {
	var sb strings.Builder
	var buf bytes.Buffer
	err := lib.Safely(func() error { return encodeWith(codecName, n, &buf) })
	if err != nil {
		if lib.IsPanic(err) {
			sb.WriteString("panic|-")
		} else if _, _, _, opt := parseOptCodec(codecName); opt {
			switch {
			case strings.Contains(err.Error(), "cannot marshal IPLD links"):
				sb.WriteString("err:link|-")
			case strings.Contains(err.Error(), "cannot marshal IPLD bytes"):
				sb.WriteString("err:bytes|-")
			default:
				sb.WriteString("err:other|-")
			}
		} else {
			sb.WriteString("err|-")
		}
		return sb.String(), nil
	}
	sb.WriteString("ok:" + lib.Hex(buf.String()))
	sb.WriteByte('|')
	nb := basicnode.Prototype.Any.NewBuilder()
	derr := lib.Safely(func() error { return decodeWith(codecName, nb, buf.Bytes()) })
	if derr != nil {
		sb.WriteString("decerr:" + lib.JsonErrClass(derr))
	} else {
		sb.WriteString("dec:" + lib.Dump(nb.Build()))
	}
	return sb.String(), buf.Bytes()
}

func runEnc(out *lib.Out, id, codecName, holder string, v *lib.Val) {
	var n datamodel.Node
	err := lib.Safely(func() error {
		var e error
		n, e = lib.JsonBuildHolder(holder, v)
		return e
	})
	if err != nil {
		ftab, ctab, ptab := lib.JsonTables(v, nil)
		out.Case(id, "enc", codecName, holder, v.Text(), ftab, ctab, ptab, "builderr")
		return
	}
	obs, encoded := observeEnc(codecName, n)
	// the tables cover the strings of the value AND the strings of the text the decoder is given
	ftab, ctab, ptab := lib.JsonTables(v, encoded)
	out.Case(id, "enc", codecName, holder, v.Text(), ftab, ctab, ptab, obs)
}

type decOpts struct {
	links, bts, beyond bool
	depth              int64
}

func (o decOpts) String() string {
	b := func(x bool) string {
		if x {
			return "1"
		}
		return "0"
	}
	return "l" + b(o.links) + "b" + b(o.bts) + "e" + b(o.beyond) + "d" + strconv.FormatInt(o.depth, 10)
}

func parseDecOpts(s string) decOpts {
	var o decOpts
	if len(s) >= 7 {
		o.links = s[1] == '1'
		o.bts = s[3] == '1'
		o.beyond = s[5] == '1'
		o.depth, _ = strconv.ParseInt(s[7:], 10, 64)
	}
	return o
}

func runDec(out *lib.Out, id string, o decOpts, input string) {
	ptab := lib.JsonParseTable([]byte(input))
	nb := basicnode.Prototype.Any.NewBuilder()
	rd := bytes.NewReader([]byte(input))
	err := lib.Safely(func() error {
		return dagjson.DecodeOptions{ParseLinks: o.links, ParseBytes: o.bts, DontParseBeyondEnd: o.beyond, MaxDepth: o.depth}.Decode(nb, rd)
	})
	var obs string
	if err != nil {
		obs = "err:" + lib.JsonErrClass(err)
	} else {
		obs = "ok:" + lib.Dump(nb.Build())
		if o.beyond {
			obs += fmt.Sprintf("|rest:%d", rd.Len())
		}
	}
	out.Case(id, "dec", o.String(), lib.Hex(input), ptab, obs)
}

var defOpts = decOpts{links: true, bts: true}

// hand-made decoder inputs: whitespace variants, escapes, number texts, the reserved forms with
// extra keys / wrong kinds / padding variants, trailing data, structural near misses
var handInputs = []string{
	"1x", "1xy", "1.x", "1. ", "01", "[01]", "1 2", "1\x00", "1 \x00", "[1,]", "{\"a\":1,}", "[,1]", "[,]", "{,}", "{\"a\":1,,}", "[1,,2]",
	"{\"a\":1,\"a\":2}", "{\"a\":{\"b\":1,\"b\":2}}", "-", "-0", "-0.0", "0", "00", "-01", "1e5", "1E5", "1e+5", "1e-5", "1E+05", "1e", "1e+", "1e-", "1.5e", "0.5", ".5", "+1", "1.5.5", "1e5e5", "--1", "-a",
	"9223372036854775807", "9223372036854775808", "-9223372036854775808", "-9223372036854775809", "18446744073709551616", "100000000000000000000", "1e999", "-1e999", "1e-999", "1e308", "1.7976931348623157e308", "1.7976931348623159e308", "4.9e-324", "2e-324",
	"0.1", "0.30000000000000004", "123456789012345678901234567890.5", "1.0", "1.00", "10.0e-1", "1e0", "1e00", "1e+00", "-1.5E-3",
	"\"\\ud83d\\ude00\"", "\"\\ud83d\"", "\"\\ude00x\"", "\"\\ud83d\\u0041\"", "\"\\ud83dx\"", "\"\\ud83d\\ud83d\\ude00\"", "\"\\uDBFF\\uDFFF\"", "\"\\ud800\\udc00\"", "\"\\udc00\\ud800\"", "\"\\'\"", "\"\\x\"", "\"\\u12\"", "\"\\u12g4\"", "\"\\uABCD\"", "\"\\uabcd\"", "\"\\u0000\"", "\"\\u001f\"", "\"\\u007f\"", "\"\\u0080\"", "\"\\u07ff\"", "\"\\u0800\"", "\"\\uffff\"", "\"\\ufffd\"", "\"\\u2028\\u2029\"",
	"\"\\b\\f\\n\\r\\t\\\\\\/\\\"\"", "\"\xff\"", "\"\xc3\"", "\"\xc3\xa9\"", "\"\xe2\x82\"", "\"\xe2\x82\xac\"", "\"\xed\xa0\x80\"", "\"\xf0\x9f\x98\x80\"", "\"\xf4\x90\x80\x80\"", "\"\xc0\xaf\"", "\"\xe0\x80\xaf\"", "\"a\x01\"", "\"a\x1f\"", "\"a\x7f\"", "\"a\tb\"", "\"a\nb\"", "\"abc", "\"abc\\", "\"abc\\u00", "\"\\", "\"",
	"{\"/\":\"x\"}", "{\"/\":\"\"}", "{\"/\":\"bafkqaaa\"}", "{\"/\": \"bafkqaaa\"}", " { \"/\" : \"bafkqaaa\" } ", "{\"/\":\"bafkqaaa\",}", "{\"/\":\"bafkqaaa\",\"x\":1}", "{\"x\":1,\"/\":\"bafkqaaa\"}", "{\"/\":\"bafkqaaa\",\"/\":\"bafkqaaa\"}",
	"{\"/\":\"QmYwAPJzv5CZsnA625s3Xf2nemtYgPpHdWEz79ojWnPbdG\"}", "{\"/\":\"zb2rhe5P4gXftAwvA4eXQ5HJwsER2owDyS9sKaQRRVQPn93bA\"}", "{\"/\":\"f01550000\"}", "{\"/\":\"F01550000\"}", "{\"/\":\"mAVUAAA\"}", "{\"/\":\"uAVUAAA\"}", "{\"/\":\"bafkqaaa \"}", "{\"\\/\":\"bafkqaaa\"}", "{\"\\u002f\":\"bafkqaaa\"}",
	"{\"/\":{\"bytes\":\"YQ==\"}}", "{\"/\":{\"bytes\":\"YQ\"}}", "{\"/\":{\"bytes\":\"YQ=\"}}", "{\"/\":{\"bytes\":\"YQ===\"}}", "{\"/\":{\"bytes\":\"Y_-Q\"}}", "{\"/\":{\"bytes\":\"YR\"}}", "{\"/\":{\"bytes\":\"Y\"}}", "{\"/\":{\"bytes\":\"\"}}", "{\"/\":{\"bytes\":\"=\"}}", "{\"/\":{\"bytes\":\"==\"}}", "{\"/\":{\"bytes\":\"YQ\\n\"}}", "{\"/\":{\"bytes\":\"Y\\nQ\\r=\\n=\\n\"}}", "{\"/\":{\"bytes\":\"YQ==YQ==\"}}", "{\"/\":{\"bytes\":\"YWJj\"}}", "{\"/\":{\"bytes\":\"YWJjZA\"}}", "{\"/\":{\"bytes\":\"YWJjZA==\"}}", "{\"/\":{\"bytes\":\"YWJjZGU=\"}}", "{\"/\":{\"bytes\":\"YWJjZGU\"}}", "{\"/\":{\"bytes\":\"YWJjZGVmZ2hpamtsbW5vcA\"}}", "{\"/\":{\"bytes\":\"YWJj ZA\"}}", "{\"/\":{\"bytes\":\"YWJ=\"}}", "{\"/\":{\"bytes\":\"YW=j\"}}", "{\"/\":{\"bytes\":\"+/+/\"}}", "{\"/\":{\"bytes\":\"-_-_\"}}",
	"{\"/\":{\"bytes\":\"YWJj\"},\"x\":1}", "{\"/\":{\"bytes\":\"YWJj\",\"x\":1}}", "{\"/\":{\"bytes\":\"YWJj\",}}", "{\"/\":{\"bytes\":\"YWJj\"},}", "{\"/\":{\"bytes\":1}}", "{\"/\":{\"bytes\":null}}", "{\"/\":{\"bytes\":[\"YQ\"]}}", "{\"/\":{\"bytes\":{\"/\":\"bafkqaaa\"}}}", "{\"/\":{\"Bytes\":\"YQ\"}}", "{\"/\":{\"/\":\"bafkqaaa\"}}", "{\"/\":{\"/\":{\"bytes\":\"YQ\"}}}", "{\"/\":[{\"bytes\":\"YQ\"}]}", "{\"/\":1}", "{\"/\":null}", "{\"/\":[]}", "{\"/\":{}}",
	"[{\"/\":\"bafkqaaa\"},{\"/\":{\"bytes\":\"YQ\"}}]", "{\"a\":{\"/\":\"bafkqaaa\"},\"b\":{\"/\":{\"bytes\":\"YQ\"}}}", "{\"/\":{\"bytes\":\"YQ\"}]", "{\"/\":{\"bytes\":\"YQ\"}", "{\"/\":{\"bytes\":\"YQ\"", "{\"/\":{\"bytes\":", "{\"/\":{\"bytes\"", "{\"/\":{", "{\"/\":", "{\"/\"", "{", "{\"/\":\"bafkqaaa\"", "{\"/\":\"bafkqaaa\"]", "{\"/\":\"bafkqaaa\" 1}",
	" \t\n1", "", " ", "\n\n", "nul", "null", "nullx", "null x", "truefalse", "true", "false", "tru", "fals", "nil", "True", "NULL", "[1 2]", "{\"a\" 1}", "{\"a\":}", "{\"a\"}", "{\"a\":1 \"b\":2}", "{1:2}", "{null:1}", "{true:1}", "{1.5:1}", "{{}:1}", "{[]:1}", "{[1]:2}", "{{\"a\":1}:2}", "{\"a\":1,2:3}",
	"[[[", "[[[]]]", "[[[]]]]", "]", "}", "[}", "{]", "[1}", "{\"a\":1]", ":", ",", "[:]", "[\"a\"\"b\"]", "[\"a\",\"b\"]", " [ 1 , 2 , [ ] , { } , { \"a\" : [ ] } ] ", "[1,2,3]\n", "[1,2,3]\n\n  \t\r\n", "{}x", "{} x", "[]\x00\x00", "[] \x00 \x00", "[]\x01", "{}{}", "[][]", "1,2", "\"a\"\"b\"", "\"a\" x", "null\x00", "\xef\xbb\xbf1", "\xef\xbb\xbf[]",
	"[1.5,-2,3e2,\"x\",null,true,false,{\"k\":[]},[{}]]", "{\"\":1}", "{\"\":{\"\":{\"\":[]}}}", "{\"a\":1,\"b\":2,\"c\":3}", "{\"c\":3,\"b\":2,\"a\":1}", "{\"a\\u0000b\":1}", "{\"a\":1,\"\\u0061\":2}", "{\"\\ud83d\\ude00\":1,\"\xf0\x9f\x98\x80\":2}",
}

func main() {
	fl := lib.ParseFlags()
	out := lib.OpenOut(fl.Out)
	defer out.Close()
	if fl.Replay != "" {
		for _, line := range lib.ReadLines(fl.Replay) {
			f := strings.Split(line, "\t")
			if len(f) >= 5 && f[1] == "enc" {
				v, err := lib.ParseVal(f[4])
				if err != nil {
					panic(err)
				}
				runEnc(out, f[0], f[2], f[3], v)
			} else if len(f) >= 4 && f[1] == "dec" {
				runDec(out, f[0], parseDecOpts(f[2]), lib.UnHex(f[3]))
			}
		}
		return
	}
	n := fl.N
	if n == 0 {
		n = 2500
		if fl.Tier == "thorough" {
			n = 120000
		}
	}
	rng := lib.NewRng(fl.Seed).Fork() // Fork: NewRng(s) and NewRng(s+1) are the same splitmix stream shifted by one step
	id := 0
	next := func() string { id++; return fmt.Sprintf("c%d", id) }

	// ---- corpus: floats at the text cut-offs (each alone, in a list, as a map value)
	for _, f := range lib.JsonFloatPool {
		runEnc(out, next(), "dagjson", "basic", lib.Float(f))
		runEnc(out, next(), "dagjson", "basic", lib.Float(-f))
	}
	for _, b := range lib.FloatPool {
		runEnc(out, next(), "dagjson", "basic", lib.FloatBits(b))
	}
	runEnc(out, next(), "dagjson", "basic", lib.List(lib.Float(1), lib.Float(1.5), lib.Float(1e20), lib.Float(1e21)))
	runEnc(out, next(), "dagjson", "basic", lib.Map(lib.Entry{K: "f", V: lib.Float(2)}, lib.Entry{K: "g", V: lib.Float(2.5)}))
	runEnc(out, next(), "dagjson", "basic", lib.FloatBits(0x7ff8000000000001))
	runEnc(out, next(), "dagjson", "basic", lib.FloatBits(0x7ff0000000000000))
	runEnc(out, next(), "dagjson", "basic", lib.FloatBits(0xfff0000000000000))
	for _, i := range lib.IntPool {
		runEnc(out, next(), "dagjson", "basic", &lib.Val{Kind: lib.KInt, I: i})
	}
	// ---- corpus: strings and keys
	for _, s := range lib.JsonStrPool {
		runEnc(out, next(), "dagjson", "basic", lib.Str(s))
		runEnc(out, next(), "dagjson", "basic", lib.Map(lib.Entry{K: s, V: lib.Int(1)}, lib.Entry{K: s + "x", V: lib.Str(s)}))
		runEnc(out, next(), "dagjson", "basic", lib.Bytes(s))
	}
	for _, s := range lib.StrPool {
		runEnc(out, next(), "dagjson", "basic", lib.Str(s))
		runEnc(out, next(), "dagjson", "basic", lib.Map(lib.Entry{K: s, V: lib.Null()}))
	}
	for c := 0; c < 256; c++ { // every byte value alone and after an 'a' (invalid UTF-8 above 0x7f: observed, not judged)
		runEnc(out, next(), "dagjson", "basic", lib.Str(string([]byte{byte(c)})))
		runEnc(out, next(), "dagjson", "basic", lib.Map(lib.Entry{K: "a" + string([]byte{byte(c)}), V: lib.Bool(true)}))
	}
	for _, ln := range []int{0, 1, 2, 3, 4, 5, 6, 7, 8, 9, 10, 11, 12, 13, 31, 32, 33, 300} {
		runEnc(out, next(), "dagjson", "basic", lib.Bytes(rng.BytesN(ln)))
	}
	// ---- corpus: bytes values in every bytes holder (streaming nodes with short reads, bindnode []byte),
	//      at the root and nested in a map / list, at lengths around base64 quanta and chunk sizes
	for _, ln := range []int{0, 1, 2, 3, 4, 5, 6, 7, 8, 9, 10, 11, 12, 13, 31, 32, 33, 100, 300, 3071, 3072, 3073, 3074, 7000} {
		b := lib.Bytes(rng.BytesN(ln))
		shapes := []*lib.Val{b,
			lib.Map(lib.Entry{K: "b", V: b}, lib.Entry{K: "a", V: lib.Bytes(rng.BytesN(5))}),
			lib.List(lib.Bytes("ab"), b, lib.Bytes("cdefg")),
			lib.Map(lib.Entry{K: "/", V: b}),
			lib.Map(lib.Entry{K: "x", V: lib.List(b, lib.Int(1))}, lib.Entry{K: "/", V: lib.Map(lib.Entry{K: "bytes", V: b})})}
		for _, sh := range shapes {
			base := next()
			runEnc(out, base, "dagjson", "basic", sh)
			for i, h := range lib.JsonBytesHolders(rng, sh) {
				runEnc(out, fmt.Sprintf("%s.h%d", base, i), "dagjson", h, sh)
			}
		}
	}
	runEnc(out, next(), "dagjson", "lbmulti1", lib.Bytes("abcdefg"))
	runEnc(out, next(), "json", "lbshort1", lib.List(lib.Bytes("abc")))
	// ---- corpus: the encoder's two switches varied independently: EncodeLinks x EncodeBytes x MapSortMode on values
	//      with links, with bytes, with both (in both emission orders) and with neither
	{
		lk, bt := lib.Link(rng.GenCid()), lib.Bytes("abc")
		e := func(k string, v *lib.Val) lib.Entry { return lib.Entry{K: k, V: v} }
		vals := []*lib.Val{lk, bt, lib.Int(1), lib.Str("s"),
			lib.List(lk), lib.List(bt), lib.List(lk, bt), lib.List(bt, lk), lib.List(lib.Int(1), lib.Str("x")),
			lib.Map(e("a", lk), e("b", bt)), lib.Map(e("b", lk), e("a", bt)), lib.Map(e("bb", lk), e("c", bt)), lib.Map(e("c", lk), e("bb", bt)),
			lib.Map(e("k", lib.List(lib.Null(), lk))), lib.Map(e("k", lib.Map(e("/", bt)))), lib.Map(e("x", lib.Int(1)), e("y", lib.List())),
			lib.Map(e("/", lib.Str("x")), e("l", lk)), lib.Map(e("f", lib.FloatBits(0x7ff8000000000001)), e("g", lk), e("h", bt))}
		for _, v := range vals {
			base := next()
			i := 0
			for _, l := range []bool{true, false} {
				for _, b := range []bool{true, false} {
					for _, sm := range []string{"lex", "none", "rfc"} {
						i++
						runEnc(out, fmt.Sprintf("%s.o%d", base, i), optCodec(l, b, sm), "basic", v)
					}
				}
			}
		}
	}
	// ---- corpus: the neighbourhood of the reserved shapes, in several holders and orders
	for _, v := range lib.JsonReservedNeighbourhood(rng) {
		base := next()
		runEnc(out, base, "dagjson", "basic", v)
		runEnc(out, base+".p", "dagjson", "basic", rng.Permuted(v))
		hs := append(lib.HoldersFor(v), lib.JsonBytesHolders(rng, v)...)
		runEnc(out, base+".h", "dagjson", hs[rng.Intn(len(hs))], v)
		if rng.Intn(4) == 0 {
			runEnc(out, base+".j", "json", "basic", v)
		}
	}
	// ---- corpus: hand-made decoder inputs under several option sets
	for _, s := range handInputs {
		base := next()
		runDec(out, base, defOpts, s)
		runDec(out, base+".e", decOpts{links: true, bts: true, beyond: true}, s)
		runDec(out, base+".d1", decOpts{links: true, bts: true, depth: 1}, s)
		runDec(out, base+".d2", decOpts{links: true, bts: true, depth: 2}, s)
		runDec(out, base+".j", decOpts{}, s)
		runDec(out, base+".l", decOpts{links: true}, s)
		runDec(out, base+".b", decOpts{bts: true}, s)
	}
	for _, d := range []int{1, 2, 3, 1023, 1024, 1025} { // the depth limit itself
		runDec(out, next(), defOpts, strings.Repeat("[", d)+strings.Repeat("]", d))
		runDec(out, next(), defOpts, strings.Repeat("{\"a\":", d)+"1"+strings.Repeat("}", d))
		runDec(out, next(), defOpts, strings.Repeat("[", d)+"{\"/\":{\"bytes\":\"YQ\"}}"+strings.Repeat("]", d))
		runDec(out, next(), defOpts, strings.Repeat("[", d)+"{\"/\":\"bafkqaaa\"}"+strings.Repeat("]", d))
	}

	// ---- generated values
	safe := &lib.GenCfg{MaxDepth: 4, MaxWidth: 5, Links: true}
	loose := &lib.GenCfg{MaxDepth: 3, MaxWidth: 4, Links: true, UintBeyond: true, BadUTF8: true, NaNInf: true}
	plain := &lib.GenCfg{MaxDepth: 3, MaxWidth: 4, NoBytes: true}
	var encodings [][]byte
	for i := 0; i < n; i++ {
		cfg := safe
		if i%10 == 9 {
			cfg = loose
		}
		v := rng.GenVal(cfg, 0)
		switch i % 7 {
		case 0: // a map at the root: key order is half of C04
			v = &lib.Val{Kind: lib.KMap}
			cnt := rng.Intn(8)
			seen := map[string]bool{}
			for j := 0; j < cnt; j++ {
				k := rng.GenStr(cfg)
				if rng.Intn(3) == 0 {
					k = lib.JsonStrPool[rng.Intn(len(lib.JsonStrPool))]
				}
				if seen[k] {
					continue
				}
				seen[k] = true
				v.M = append(v.M, lib.Entry{K: k, V: rng.GenVal(cfg, 2)})
			}
		case 1: // a list of floats and strings from the JSON pools
			v = &lib.Val{Kind: lib.KList}
			for j := rng.Intn(5); j >= 0; j-- {
				if rng.Bool() {
					v.L = append(v.L, lib.Float(lib.JsonFloatPool[rng.Intn(len(lib.JsonFloatPool))]))
				} else {
					v.L = append(v.L, lib.Str(lib.JsonStrPool[rng.Intn(len(lib.JsonStrPool))]+rng.GenStr(cfg)))
				}
			}
		case 2: // wrap in a reserved-looking map
			nb := lib.JsonReservedNeighbourhood(rng)
			w := nb[rng.Intn(len(nb))]
			k := rng.GenStr(safe)
			if k == "/" {
				k = "k"
			}
			v = lib.Map(lib.Entry{K: k, V: v}, lib.Entry{K: "/", V: w})
		}
		base := next()
		holders := lib.HoldersFor(v)
		if bh := lib.JsonBytesHolders(rng, v); len(bh) > 0 {
			// a value with bytes: the plain holders plus each kind of bytes holder, equally likely
			holders = append(holders, bh...)
		}
		for p := 0; p < 3; p++ {
			pv := v
			if p > 0 {
				pv = rng.Permuted(v)
			}
			runEnc(out, fmt.Sprintf("%s.%d", base, p), "dagjson", holders[rng.Intn(len(holders))], pv)
		}
		switch rng.Intn(8) {
		case 0:
			runEnc(out, base+".none", "dagjson:none", "basic", rng.Permuted(v))
		case 1:
			runEnc(out, base+".rfc", "dagjson:rfc", "basic", rng.Permuted(v))
		case 2:
			runEnc(out, base+".json", "json", "basic", v)
		case 3:
			runEnc(out, base+".jsonp", "json", "basic", rng.GenVal(plain, 0))
		}
		// the encoder's switches, independently, on every second generated value (which may hold links, bytes, both, neither)
		if i%2 == 0 {
			runEnc(out, base+".opt", optCodec(rng.Bool(), rng.Bool(), []string{"lex", "none", "rfc"}[rng.Intn(3)]), "basic", rng.Permuted(v))
		}
		if len(encodings) < 4000 || rng.Intn(4) == 0 {
			if nd, err := lib.BuildBasic(v); err == nil {
				var buf bytes.Buffer
				if lib.Safely(func() error { return dagjson.Encode(nd, &buf) }) == nil && buf.Len() > 0 && buf.Len() < 600 {
					encodings = append(encodings, append([]byte(nil), buf.Bytes()...))
				}
			}
		}
	}

	// ---- malformed / near-miss stream through Decode
	optSets := []decOpts{defOpts, defOpts, defOpts, {links: true, bts: true, beyond: true}, {links: true, bts: true, depth: 1},
		{links: true, bts: true, depth: 2}, {links: true, bts: true, depth: 3}, {}, {links: true}, {bts: true}}
	alphabet := []byte("{}[],:\"\\/ \t\n0123456789-+.eEautrfnlsby=_xYQ")
	for i := 0; i < n; i++ {
		var in []byte
		if i%3 != 0 && len(encodings) > 0 {
			in = append([]byte(nil), encodings[rng.Intn(len(encodings))]...)
			for k := 1 + rng.Intn(2); k > 0 && len(in) > 0; k-- {
				pos := rng.Intn(len(in))
				switch rng.Intn(8) {
				case 0:
					in[pos] = alphabet[rng.Intn(len(alphabet))]
				case 1:
					in[pos] = byte(rng.U64())
				case 2:
					in = append(in[:pos], in[pos+1:]...)
				case 3:
					in = append(in[:pos], append([]byte{alphabet[rng.Intn(len(alphabet))]}, in[pos:]...)...)
				case 4:
					in = in[:pos]
				case 5:
					end := pos + rng.Intn(len(in)-pos+1)
					in = append(in[:end], append(append([]byte(nil), in[pos:end]...), in[end:]...)...)
				case 6:
					ws := []string{" ", "\n", "\t", "\r\n", "  "}[rng.Intn(5)]
					in = append(in[:pos], append([]byte(ws), in[pos:]...)...)
				case 7:
					in = append(in, alphabet[rng.Intn(len(alphabet))])
				}
			}
		} else {
			in = []byte(genTokenSoup(rng))
		}
		runDec(out, next(), optSets[rng.Intn(len(optSets))], string(in))
	}
}

// genTokenSoup: a mostly well-formed JSON text built from a small token alphabet that is dense in
// the reserved forms, with random whitespace and occasional structural damage.
func genTokenSoup(r *lib.Rng) string {
	strs := []string{"\"/\"", "\"bytes\"", "\"YQ\"", "\"YWJj\"", "\"bafkqaaa\"", "\"x\"", "\"\"", "\"\\/\"", "\"a\\u0041\\n\"", "\"QmYwAPJzv5CZsnA625s3Xf2nemtYgPpHdWEz79ojWnPbdG\"", "\"YQ==\""}
	scalars := []string{"1", "-1", "0", "1.5", "1e3", "null", "true", "false", "12345678901234567890", "-0", "1.0"}
	ws := func() string {
		if r.Intn(5) == 0 {
			return []string{" ", "\n", "\t", "  "}[r.Intn(4)]
		}
		return ""
	}
	var gen func(d int) string
	gen = func(d int) string {
		k := r.Intn(10)
		if d >= 5 && k >= 4 {
			k = r.Intn(4)
		}
		switch {
		case k < 2:
			return strs[r.Intn(len(strs))]
		case k < 4:
			return scalars[r.Intn(len(scalars))]
		case k < 6:
			n := r.Intn(4)
			var sb strings.Builder
			sb.WriteString("[" + ws())
			for i := 0; i < n; i++ {
				if i > 0 {
					sb.WriteString("," + ws())
				}
				sb.WriteString(gen(d + 1))
			}
			if r.Intn(25) == 0 {
				sb.WriteString(",")
			}
			sb.WriteString(ws() + "]")
			return sb.String()
		default:
			n := r.Intn(3)
			if r.Intn(3) == 0 {
				n = 1
			}
			var sb strings.Builder
			sb.WriteString("{" + ws())
			for i := 0; i < n; i++ {
				if i > 0 {
					sb.WriteString("," + ws())
				}
				key := strs[r.Intn(len(strs))]
				if i == 0 && r.Intn(2) == 0 {
					key = "\"/\""
				}
				if r.Intn(40) == 0 {
					key = scalars[r.Intn(len(scalars))]
				}
				if r.Intn(60) == 0 {
					key = gen(d + 1)
				}
				sb.WriteString(key + ws() + ":" + ws())
				if key == "\"/\"" && r.Intn(2) == 0 {
					inner := strs[r.Intn(len(strs))]
					if r.Intn(3) == 0 {
						inner = gen(d + 2)
					}
					switch r.Intn(4) {
					case 0:
						sb.WriteString("{\"bytes\":" + ws() + inner + "}")
					case 1:
						sb.WriteString("{\"bytes\":" + inner + ",\"x\":1}")
					case 2:
						sb.WriteString(inner)
					default:
						sb.WriteString("{" + strs[r.Intn(len(strs))] + ":" + inner + "}")
					}
				} else {
					sb.WriteString(gen(d + 1))
				}
			}
			if r.Intn(25) == 0 {
				sb.WriteString(",")
			}
			sb.WriteString(ws() + "}")
			return sb.String()
		}
	}
	s := gen(0)
	switch r.Intn(12) {
	case 0:
		s += " "
	case 1:
		s += "\n"
	case 2:
		s += "x"
	case 3:
		s = " " + s
	case 4:
		if len(s) > 1 {
			s = s[:r.Intn(len(s))]
		}
	}
	return s
}
