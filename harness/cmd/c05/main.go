// c05: links are a function of value and prototype; store then load returns the value.
//
// One record = one history of operations on ONE LinkSystem and ONE store:
//
//	id, "hist", storekind (mem = storage/memstore via SetRead/WriteStorage | cid = cidlink.Memory),
//	trusted (0|1), registry, ops, tables, observation
//
// registry: "G" = cidlink.DefaultLinkSystem() (the global multicodec registry), or
// "R:<code>=<impl>[:e|:d],..." = cidlink.LinkSystemUsingMulticodecRegistry over a private registry
// binding each code (hex) to the implementation whose canonical code is <impl> (71 dag-cbor, 51
// cbor, 129 dag-json, 200 json, 55 raw), for both directions or only for encoding / decoding.
//
// ops (";"-separated):  S:<proto>:<holder>:<value>   Store
//
//	W:<proto>:<holder>:<sched>:<value>   Store whose storage writer misbehaves on its i-th Write
//	                             (sched = ","-separated o | f fail this call | s<n> short write)
//
//	N:<sys>:<inner op>           NESTED: the storage opener (read opener of a load, write opener of a
//	                             store) of the NEXT op performs <inner op> (C:... or G:...) before it
//	                             returns the reader / writer — on the same link system (sys=1) or on a
//	                             second one sharing registry, storage and trust flag (sys=2).  Its
//	                             observation comes first; "notrun" when the opener was never reached.
//	C:<proto>:<holder>:<value>   ComputeLink
//	MC:.. MS:.. MG:<l|f>:..      MustComputeLink / MustStore / MustLoad / MustFill: as C / S / G, status
//	                             "panic" exactly when the plain call returns an error
//	P:S:<proto>:<holder>:<value> (only at the start) Store through a DefaultLinkSystem (global
//	                             registry) on the same storage — blocks for a private registry that
//	                             can only decode
//	G:<form>:<link binary hex>[:<holder>]   form l=Load r=LoadRaw p=LoadPlusRaw f=Fill; with a holder:
//	                             into that holder's (schema-typed) node prototype instead of Prototype.Any
//
// holder: basic | bindmap | bindlist | tpoint | tjoin | trename | tkunion | gmsg3 (the t*/g* holders
// are schema-typed nodes whose representation differs from the type-level view: lib/link_holders.go)
//
// proto = version.codec(hex).mhtype(hex).mhlength
// tables (","-separated): what the real hashers / JSON codecs give on the byte strings and values
//
//	involved: H<mhtype>.<data>=<digest>  E<codec>.<value>=c<chunk>+<chunk>|!  D<codec>.<data>=v<dump>~<pulled>~<sawend>|!
//
// observation (";"-separated, one per op, then the store contents):
//
//	store/compute: <status>/<link hex | ->      load: <status>/<node dump | ->/<x raw hex | ->
//	#<key>=<block>,...  (sorted)
//	R:ok | R:<node|raw>@<slot>><slot>,...   every node returned by Load / Fill / LoadPlusRaw and every
//	    byte slice returned by LoadRaw / LoadPlusRaw is RETAINED (not copied) and dumped again after
//	    later loads and at the end of the history: node@3>7 = the node loaded by op 3 no longer reads
//	    as it did, first noticed after op 7
//	status = ok | err.<class> | panic
package main

import (
	"crypto/sha256"
	"fmt"
	"io"
	"os"
	"sort"
	"strings"

	"verifharness/lib"

	"github.com/ipld/go-ipld-prime/datamodel"
	"github.com/ipld/go-ipld-prime/linking"
	cidlink "github.com/ipld/go-ipld-prime/linking/cid"
	"github.com/ipld/go-ipld-prime/storage/memstore"
)

type op struct {
	kind   byte // S W C G N
	must   bool // the Must* variant of C / S / G(l, f)
	global bool // S through the global-registry link system on the same storage
	inner  *op  // N: the nested operation
	sys    int  // N: 1 = same link system, 2 = the second one
	sched  string
	proto  lib.LkProto
	holder string
	val    *lib.Val
	form   byte
	link   string // binary
}

func (o *op) text() string {
	if o.must {
		c := *o
		c.must = false
		return "M" + c.text()
	}
	if o.global {
		c := *o
		c.global = false
		return "P:" + c.text()
	}
	switch o.kind {
	case 'S', 'C':
		return fmt.Sprintf("%c:%s:%s:%s", o.kind, o.proto.Spec(), o.holder, o.val.Text())
	case 'W':
		return fmt.Sprintf("W:%s:%s:%s:%s", o.proto.Spec(), o.holder, o.sched, o.val.Text())
	case 'N':
		return fmt.Sprintf("N:%d:%s", o.sys, o.inner.text())
	}
	if o.holder != "" {
		return fmt.Sprintf("G:%c:%s:%s", o.form, lib.LkHex(o.link), o.holder)
	}
	return fmt.Sprintf("G:%c:%s", o.form, lib.LkHex(o.link))
}

func parseOp(s string) (*op, error) {
	if strings.HasPrefix(s, "P:") {
		o, err := parseOp(s[2:])
		if err == nil {
			o.global = true
		}
		return o, err
	}
	if strings.HasPrefix(s, "MC:") || strings.HasPrefix(s, "MS:") || strings.HasPrefix(s, "MG:") {
		o, err := parseOp(s[1:])
		if err == nil {
			o.must = true
		}
		return o, err
	}
	f := strings.SplitN(s, ":", 4)
	if len(f) < 3 {
		return nil, fmt.Errorf("bad op %q", s)
	}
	switch f[0] {
	case "N":
		g := strings.SplitN(s, ":", 3)
		if len(g) != 3 {
			return nil, fmt.Errorf("bad op %q", s)
		}
		in, err := parseOp(g[2])
		if err != nil {
			return nil, err
		}
		sys := 1
		if g[1] == "2" {
			sys = 2
		}
		return &op{kind: 'N', inner: in, sys: sys}, nil
	case "W":
		g := strings.SplitN(s, ":", 5)
		if len(g) != 5 {
			return nil, fmt.Errorf("bad op %q", s)
		}
		p, err := lib.LkParseProto(g[1])
		if err != nil {
			return nil, err
		}
		v, err := lib.ParseVal(g[4])
		if err != nil {
			return nil, err
		}
		return &op{kind: 'W', proto: p, holder: g[2], sched: g[3], val: v}, nil
	case "S", "C":
		if len(f) != 4 {
			return nil, fmt.Errorf("bad op %q", s)
		}
		p, err := lib.LkParseProto(f[1])
		if err != nil {
			return nil, err
		}
		v, err := lib.ParseVal(f[3])
		if err != nil {
			return nil, err
		}
		return &op{kind: f[0][0], proto: p, holder: f[2], val: v}, nil
	case "G":
		o := &op{kind: 'G', form: f[1][0], link: lib.UnHex(f[2])}
		if len(f) == 4 {
			o.holder = f[3]
		}
		return o, nil
	}
	return nil, fmt.Errorf("bad op %q", s)
}

type world struct {
	sched []string // write faults of the store in progress (nil: honest writer)
	hook  func()   // nested operation to perform inside the next storage opener call
	reg   *lib.LkReg
	lsys  linking.LinkSystem
	lsys2 linking.LinkSystem // a second link system on the same registry, storage and trust flag
	lsysG linking.LinkSystem // a DefaultLinkSystem (global registry) on the same storage
	mem   *memstore.Store
	cid   *cidlink.Memory
}

func newWorld(kind string, trusted bool, reg *lib.LkReg) *world {
	w := &world{lsys: reg.LinkSystem(), reg: reg}
	w.lsys.TrustedStorage = trusted
	if kind == "cid" {
		w.cid = &cidlink.Memory{}
		w.lsys.StorageReadOpener = w.cid.OpenRead
		w.lsys.StorageWriteOpener = w.cid.OpenWrite
	} else {
		w.mem = &memstore.Store{}
		w.lsys.SetReadStorage(w.mem)
		w.lsys.SetWriteStorage(w.mem)
	}
	w.lsysG = cidlink.DefaultLinkSystem()
	w.lsysG.StorageReadOpener = w.lsys.StorageReadOpener
	w.lsysG.StorageWriteOpener = w.lsys.StorageWriteOpener
	w.lsys2 = reg.LinkSystem()
	w.lsys2.TrustedStorage = trusted
	w.lsys2.StorageReadOpener = w.lsys.StorageReadOpener
	w.lsys2.StorageWriteOpener = w.lsys.StorageWriteOpener
	runHook := func() {
		if h := w.hook; h != nil {
			w.hook = nil
			h()
		}
	}
	origR := w.lsys.StorageReadOpener
	w.lsys.StorageReadOpener = func(lc linking.LinkContext, l datamodel.Link) (io.Reader, error) {
		runHook() // e.g. a read-through cache consulting its origin while the outer load is in progress
		return origR(lc, l)
	}
	orig := w.lsys.StorageWriteOpener
	w.lsys.StorageWriteOpener = func(lc linking.LinkContext) (io.Writer, linking.BlockWriteCommitter, error) {
		runHook()
		wr, commit, err := orig(lc)
		if err != nil || w.sched == nil {
			return wr, commit, err
		}
		return &lib.LkFaultWriter{W: wr, Sched: w.sched}, commit, nil
	}
	return w
}

func (w *world) bag() map[string][]byte {
	if w.cid != nil {
		return w.cid.Bag
	}
	return w.mem.Bag
}

func (w *world) keyOf(l datamodel.Link) string {
	if w.cid != nil {
		return string(l.(cidlink.Link).Hash())
	}
	return l.Binary()
}

func linkObs(status string, l datamodel.Link) string {
	if l == nil {
		return status + "/-"
	}
	return status + "/" + lib.LkHex(l.Binary())
}

func loadObs(status string, n datamodel.Node, raw []byte, rawReturned bool) string {
	ns, rs := "-", "-"
	if n != nil {
		ns = lib.LkDump(n)
	}
	if rawReturned {
		rs = "x" + lib.LkHexBytes(raw)
	}
	return status + "/" + ns + "/" + rs
}

// runner executes ops one at a time against the real code, collecting observations and tables.
type kept struct {
	slot    int
	node    datamodel.Node
	raw     []byte // the very slice the library returned
	hasRaw  bool
	nodeWas string
	rawWas  string
	done    bool // a change was already reported
	big     bool
}

type runner struct {
	dead    bool // building the link system over the registry panicked
	w       *world
	tab     *lib.LkTables
	obs     []string
	links   []string
	kept    []*kept
	changed []string
	cur     int // slot of the operation in progress
}

// rawPrint: the slice itself when small, its digest when large (no multi-MiB copies)
func rawPrint(b []byte) string {
	if len(b) <= 1<<14 {
		return string(b)
	}
	d := sha256.Sum256(b)
	return string(d[:])
}

// retain keeps what a load handed out, with its dump at that moment.
func (rn *runner) retain(n datamodel.Node, raw []byte, hasRaw bool) {
	k := &kept{slot: rn.cur, node: n, raw: raw, hasRaw: hasRaw}
	if n != nil {
		k.nodeWas = lib.LkDump(n)
	}
	if hasRaw {
		k.rawWas = rawPrint(raw)
	}
	k.big = len(raw) > 1<<14 || len(k.nodeWas) > 1<<15 || strings.Contains(k.nodeWas, "f5424947")
	rn.kept = append(rn.kept, k)
}

// recheck dumps retained nodes / slices again (the last few after every load, all at the end).
func (rn *runner) recheck(all bool) {
	from := 0
	if !all && len(rn.kept) > 8 {
		from = len(rn.kept) - 8
	}
	for _, k := range rn.kept[from:] {
		if k.done || (k.big && !all) { // multi-MiB items are re-read once, at the end
			continue
		}
		if k.node != nil {
			now := ""
			if err := lib.Safely(func() error { now = lib.LkDump(k.node); return nil }); err != nil {
				now = "!panic"
			}
			if now != k.nodeWas {
				rn.changed = append(rn.changed, fmt.Sprintf("node@%d>%d", k.slot, rn.cur))
				k.done = true
			}
		}
		if k.hasRaw && rawPrint(k.raw) != k.rawWas {
			rn.changed = append(rn.changed, fmt.Sprintf("raw@%d>%d", k.slot, rn.cur))
			k.done = true
		}
	}
}

func newRunner(kind string, trusted bool, reg *lib.LkReg) *runner {
	rn := &runner{tab: lib.NewLkTables()}
	if err := lib.Safely(func() error { rn.w = newWorld(kind, trusted, reg); return nil }); err != nil {
		rn.dead = true
	}
	return rn
}

// exec performs one S/W/C/G operation on the given link system and returns its observation.
func (rn *runner) exec(o *op, lsys *linking.LinkSystem) string {
	w, tab := rn.w, rn.tab
	switch o.kind {
	case 'S', 'C', 'W':
		n, err := lib.LkBuildHolder(o.holder, o.val)
		if err != nil {
			return "builderr/-"
		}
		w.sched = nil
		if o.kind == 'W' {
			w.sched = strings.Split(o.sched, ",")
		}
		// tables: encoding (JSON codecs) and digest of the encoding under this prototype's hash
		tab.Hasher(o.proto.MhType)
		encTab := w.reg.Enc
		if o.global {
			encTab = lib.LkGlobalReg().Enc
		}
		if impl, ok := encTab[o.proto.Codec]; ok {
			if o.kind == 'W' {
				tab.EncodeChunks(impl, o.val, n) // the schedule counts the real Write calls
			} else {
				tab.Encode(impl, o.val, n)
			}
			if chunks, eerr := lib.LkEncode(impl, n); eerr == nil {
				var all []byte
				for _, c := range chunks {
					all = append(all, c...)
				}
				tab.Hash(o.proto.MhType, all)
			}
		}
		var l datamodel.Link
		err = lib.Safely(func() error {
			var e error
			switch {
			case o.must && o.kind == 'S':
				l = lsys.MustStore(linking.LinkContext{}, o.proto.LP(), n)
			case o.must:
				l = lsys.MustComputeLink(o.proto.LP(), n)
			case o.kind == 'S' || o.kind == 'W':
				l, e = lsys.Store(linking.LinkContext{}, o.proto.LP(), n)
			default:
				l, e = lsys.ComputeLink(o.proto.LP(), n)
			}
			if o.must && l == nil {
				return fmt.Errorf("Must* returned a nil link")
			}
			return e
		})
		if lib.IsPanic(err) {
			l = nil
		}
		w.sched = nil
		if err == nil && l != nil {
			rn.links = append(rn.links, l.Binary())
		}
		return linkObs(lib.LkErrClass(err, "encode"), l)
	case 'G':
		l, err := lib.LkLinkFromBinary(o.link)
		if err != nil {
			return "badlink/-/-"
		}
		cl := l.(cidlink.Link)
		pfx := cl.Prefix()
		// tables: digest of the block the store holds for this link, and its decoding
		tab.Hasher(pfx.MhType)
		if blk, ok := w.bag()[w.keyOf(l)]; ok {
			tab.Hash(pfx.MhType, blk)
			if impl, ok := w.reg.Dec[pfx.Codec]; ok {
				tab.Decode(impl, blk)
			}
		}
		var n datamodel.Node
		var raw []byte
		rawReturned := false
		np := lib.LkProtoFor(o.holder)
		err = lib.Safely(func() error {
			var e error
			switch {
			case o.must && o.form == 'l':
				n = lsys.MustLoad(linking.LinkContext{}, l, np)
				if n == nil {
					return fmt.Errorf("MustLoad returned a nil node")
				}
				return nil
			case o.must:
				nb := np.NewBuilder()
				lsys.MustFill(linking.LinkContext{}, l, nb)
				n = nb.Build()
				return nil
			}
			switch o.form {
			case 'l':
				n, e = lsys.Load(linking.LinkContext{}, l, np)
			case 'f':
				nb := np.NewBuilder()
				e = lsys.Fill(linking.LinkContext{}, l, nb)
				if e == nil {
					n = nb.Build()
				}
			case 'r':
				raw, e = lsys.LoadRaw(linking.LinkContext{}, l)
				rawReturned = e == nil || len(raw) > 0
			case 'p':
				n, raw, e = lsys.LoadPlusRaw(linking.LinkContext{}, l, np)
				rawReturned = e == nil || len(raw) > 0
			}
			return e
		})
		if lib.IsPanic(err) {
			n, raw, rawReturned = nil, nil, false
		}
		if n != nil || rawReturned {
			rn.recheck(false) // before the new arrival joins: has this load disturbed earlier ones?
			rn.retain(n, raw, rawReturned)
		}
		return loadObs(lib.LkErrClass(err, "decode"), n, raw, rawReturned)
	}
	return "badop"
}

// do executes the next op of the history.  An N op only arms the hook: its inner operation runs
// inside the storage opener of the following op and its observation slot is filled in then.
func (rn *runner) do(o *op) {
	if rn.dead {
		rn.obs = append(rn.obs, "regpanic/-")
		return
	}
	if o.global {
		rn.cur = len(rn.obs)
		rn.obs = append(rn.obs, rn.exec(o, &rn.w.lsysG))
		return
	}
	if o.kind == 'N' {
		slot := len(rn.obs)
		rn.obs = append(rn.obs, "notrun")
		inner, sys := o.inner, o.sys
		rn.w.hook = func() {
			outerSlot := rn.cur
			rn.cur = slot
			defer func() { rn.cur = outerSlot }()
			ls := &rn.w.lsys
			if sys == 2 {
				ls = &rn.w.lsys2
			}
			savedSched := rn.w.sched
			rn.obs[slot] = rn.exec(inner, ls)
			rn.w.sched = savedSched
		}
		return
	}
	rn.cur = len(rn.obs)
	r := rn.exec(o, &rn.w.lsys)
	rn.w.hook = nil // an opener that was never reached: the nested operation did not run
	rn.obs = append(rn.obs, r)
}

func (rn *runner) finish() (string, string) {
	if rn.dead {
		return strings.Join(append(append([]string{}, rn.obs...), "#", "R:ok"), ";"), rn.tab.Text()
	}
	var ents []string
	for k, b := range rn.w.bag() {
		ents = append(ents, lib.LkHex(k)+"="+lib.LkHexBytes(b))
	}
	sort.Strings(ents)
	rn.cur = len(rn.obs)
	rn.recheck(true)
	ret := "R:ok"
	if len(rn.changed) > 0 {
		ret = "R:" + strings.Join(rn.changed, ",")
	}
	obs := append(append([]string{}, rn.obs...), "#"+strings.Join(ents, ","), ret)
	return strings.Join(obs, ";"), rn.tab.Text()
}

// runHistory executes the ops against the real code; returns the observation and the tables.
func runHistory(kind string, trusted bool, reg *lib.LkReg, ops []*op) (string, string, []string) {
	rn := newRunner(kind, trusted, reg)
	for _, o := range ops {
		rn.do(o)
	}
	o, t := rn.finish()
	return o, t, rn.links
}

func uniq(l []string) []string {
	seen := map[string]bool{}
	var out []string
	for _, x := range l {
		if !seen[x] {
			seen[x] = true
			out = append(out, x)
		}
	}
	return out
}

func emit(out *lib.Out, id, kind string, trusted bool, reg *lib.LkReg, ops []*op) {
	o, t, _ := runHistory(kind, trusted, reg, ops)
	parts := make([]string, len(ops))
	for i, x := range ops {
		parts[i] = x.text()
	}
	tr := "0"
	if trusted {
		tr = "1"
	}
	out.Case(id, "hist", kind, tr, reg.Text(), strings.Join(parts, ";"), t, o)
}

// ---- generation

var digestLen = map[uint64]int{0x12: 32, 0x13: 64, 0x16: 32}

func genProto(r *lib.Rng, codec uint64) lib.LkProto {
	if codec == lib.LkDagPb {
		ln := 32
		if r.Bool() {
			ln = -1
		}
		return lib.LkProto{Version: 0, Codec: lib.LkDagPb, MhType: 0x12, MhLen: ln}
	}
	mhts := []uint64{0x12, 0x12, 0x13, 0x16, 0x00}
	mht := mhts[r.Intn(len(mhts))]
	ln := -1
	if mht == 0 {
		// identity: MhLength is ignored by BuildLink; vary it anyway
		switch r.Intn(3) {
		case 0:
			ln = r.Intn(40)
		case 1:
			ln = 0
		}
	} else {
		full := digestLen[mht]
		switch r.Intn(6) {
		case 0:
			ln = full
		case 1:
			ln = full - 1
		case 2:
			ln = r.Intn(full)
		case 3:
			ln = []int{0, 1, 2, 20}[r.Intn(4)]
		}
	}
	return lib.LkProto{Version: 1, Codec: codec, MhType: mht, MhLen: ln}
}

type made struct {
	codec uint64 // code number
	val   *lib.Val
}

var implsAll = []uint64{lib.LkDagCbor, lib.LkDagCbor, lib.LkDagJson, lib.LkDagJson, lib.LkCbor, lib.LkJson, lib.LkRaw}

// genReg: a private registry — standard numbers bound to their own or to ANOTHER implementation,
// private numbers, numbers bound for one direction only.
func genReg(r *lib.Rng) *lib.LkReg {
	rg := &lib.LkReg{Enc: map[uint64]uint64{}, Dec: map[uint64]uint64{}}
	bind := func(code, impl uint64) { rg.Enc[code] = impl; rg.Dec[code] = impl }
	for _, std := range []uint64{lib.LkDagCbor, lib.LkDagJson, lib.LkCbor, lib.LkJson, lib.LkRaw} {
		switch r.Intn(5) {
		case 0: // absent
		case 1, 2: // re-bound to a different implementation than the global registry has
			impl := implsAll[r.Intn(len(implsAll))]
			bind(std, impl)
		default:
			bind(std, std)
		}
	}
	if r.Intn(3) != 0 {
		bind(lib.LkDagPb, lib.LkDagCbor)
	}
	for i, n := 0, 1+r.Intn(3); i < n; i++ {
		bind(uint64(0x300001+r.Intn(6)), implsAll[r.Intn(len(implsAll))])
	}
	if r.Intn(2) == 0 {
		rg.Enc[uint64(0x300010+r.Intn(2))] = implsAll[r.Intn(len(implsAll))]
	}
	if r.Intn(2) == 0 {
		rg.Dec[uint64(0x300020+r.Intn(2))] = implsAll[r.Intn(len(implsAll))]
	}
	// how the zero-value Registry gets populated: encoders first, decoders first, a Lookup/List first
	rg.Order = []string{"", "d", "l"}[r.Intn(3)]
	switch r.Intn(8) {
	case 0: // a registry that can only encode
		rg.Dec = map[uint64]uint64{}
	case 1, 2: // a registry that can only decode (blocks come from another link system: P ops)
		rg.Enc = map[uint64]uint64{}
		if len(rg.Dec) == 0 {
			rg.Dec[lib.LkDagCbor] = lib.LkDagCbor
		}
	}
	return rg
}

func regCodes(rg *lib.LkReg) []uint64 {
	seen := map[uint64]bool{}
	var out []uint64
	for _, m := range []map[uint64]uint64{rg.Enc, rg.Dec} {
		for c := range m {
			if !seen[c] {
				seen[c] = true
				out = append(out, c)
			}
		}
	}
	sort.Slice(out, func(i, j int) bool { return out[i] < out[j] })
	return out
}

// implFor: the implementation whose value domain a store under this code should respect.
func implFor(rg *lib.LkReg, code uint64) uint64 {
	if impl, ok := rg.Enc[code]; ok {
		return impl
	}
	if impl, ok := rg.Dec[code]; ok {
		return impl
	}
	return lib.LkDagCbor
}

func genHistory(r *lib.Rng, maxOps int) (string, bool, *lib.LkReg, []*op) {
	kind := "mem"
	if r.Intn(3) == 0 {
		kind = "cid"
	}
	trusted := r.Intn(8) == 0
	reg := lib.LkGlobalReg()
	if r.Intn(5) < 2 {
		reg = genReg(r)
	}
	codes := regCodes(reg)
	pick := func() uint64 {
		c := codes[r.Intn(len(codes))]
		if c == lib.LkDagPb && r.Intn(3) != 0 { // v0 prototypes: now and then
			c = codes[r.Intn(len(codes))]
		}
		return c
	}
	nops := 2 + r.Intn(maxOps-1)
	var ops []*op
	var pool []made // values made so far
	var protos []lib.LkProto
	live := newRunner(kind, trusted, reg) // runs alongside, to learn the links
	// nest: the next op's storage opener first performs another operation — mostly with the SAME
	// hash function as the outer one (a hasher shared between overlapping operations would be
	// corrupted), on the same or on the second link system
	nest := func(mht uint64) {
		var in *op
		if len(live.links) > 0 && r.Intn(2) == 0 {
			// prefer a link with the same hash function
			cands := live.links
			var same []string
			for _, l := range cands {
				if cl, err := lib.LkLinkFromBinary(l); err == nil && cl.(cidlink.Link).Prefix().MhType == mht {
					same = append(same, l)
				}
			}
			if len(same) > 0 && r.Intn(4) != 0 {
				cands = same
			}
			in = &op{kind: 'G', form: "rlpf"[r.Intn(4)], link: cands[r.Intn(len(cands))]}
		} else {
			c := pick()
			if c == lib.LkDagPb {
				c = lib.LkDagCbor
			}
			v := r.LkGenVal(implFor(reg, c))
			p := lib.LkProto{Version: 1, Codec: c, MhType: mht, MhLen: -1}
			if r.Intn(4) == 0 {
				p = genProto(r, c)
			}
			in = &op{kind: 'C', proto: p, holder: "basic", val: v}
		}
		n := &op{kind: 'N', inner: in, sys: 1 + r.Intn(2)}
		ops = append(ops, n)
		live.do(n)
	}
	// typed: a schema-typed node (representation != type-level view) given to ComputeLink and Store,
	// the same value in basicnode, and loads of the stored link into the typed prototype and into
	// Prototype.Any.  Full-length digests only: a colliding block of another shape would not fit the type.
	typed := func() {
		var cands []uint64
		for _, c := range codes {
			impl, ok := reg.Enc[c]
			d, okd := reg.Dec[c]
			if ok && okd && impl == d && impl != lib.LkRaw && c != lib.LkDagPb {
				cands = append(cands, c)
			}
		}
		if len(cands) == 0 {
			return
		}
		code := cands[r.Intn(len(cands))]
		h := lib.LkTypedHolders[r.Intn(len(lib.LkTypedHolders))]
		v := r.LkTypedVal(h)
		mht := []uint64{0x12, 0x13, 0x16}[r.Intn(3)]
		p := lib.LkProto{Version: 1, Codec: code, MhType: mht, MhLen: -1}
		seq := []*op{
			{kind: 'C', proto: p, holder: h, val: v},
			{kind: 'S', proto: p, holder: h, val: v},
			{kind: 'C', proto: p, holder: "basic", val: v},
		}
		if r.Bool() {
			seq[0], seq[1] = seq[1], seq[0]
		}
		if r.Intn(3) == 0 {
			seq[2].kind = 'S'
		}
		for _, o := range seq {
			ops = append(ops, o)
			live.do(o)
		}
		if len(live.links) == 0 {
			return
		}
		l := live.links[len(live.links)-1]
		for _, f := range "lfp" {
			if r.Intn(3) != 0 {
				o := &op{kind: 'G', form: byte(f), link: l, holder: h}
				ops = append(ops, o)
				live.do(o)
			}
		}
		o := &op{kind: 'G', form: "lrpf"[r.Intn(4)], link: l}
		ops = append(ops, o)
		live.do(o)
	}
	// rawrun: several raw-codec blocks of different sizes (0, 1, small, 4 KiB+) stored and then loaded
	// in a row through every load function, longer before shorter and back: a loaded bytes node (or
	// returned slice) that shares memory with something a later load reuses would change
	rawrun := func() {
		var cands []uint64
		for _, c := range codes {
			if reg.Enc[c] == lib.LkRaw && reg.Dec[c] == lib.LkRaw {
				cands = append(cands, c)
			}
		}
		if len(cands) == 0 {
			return
		}
		code := cands[r.Intn(len(cands))]
		p := lib.LkProto{Version: 1, Codec: code, MhType: []uint64{0x12, 0x13, 0x00}[r.Intn(3)], MhLen: -1}
		sizes := []int{0, 1, 2, 7, 31, 32, 33, 100, 500}
		big := []int{4096, 4097, 5000}
		var mine []string
		cnt := 3 + r.Intn(4)
		for i := 0; i < cnt; i++ {
			n := sizes[r.Intn(len(sizes))]
			if i == 0 && r.Intn(3) == 0 && p.MhType != 0 {
				n = big[r.Intn(len(big))]
			}
			b := make([]byte, n)
			fill := byte('A' + r.Intn(26))
			for j := range b {
				b[j] = fill + byte(j%3)
			}
			before := len(live.links)
			o := &op{kind: 'S', proto: p, holder: "basic", val: lib.Bytes(string(b))}
			ops = append(ops, o)
			live.do(o)
			if len(live.links) > before {
				mine = append(mine, live.links[len(live.links)-1])
			}
		}
		for round := 0; round < 2 && len(mine) > 0; round++ {
			form := "lfpr"[r.Intn(4)]
			for _, i := range r.Perm(len(mine)) {
				f := form
				if r.Intn(3) == 0 {
					f = "lfpr"[r.Intn(4)]
				}
				o := &op{kind: 'G', form: f, link: mine[i]}
				ops = append(ops, o)
				live.do(o)
			}
		}
	}
	// blocks stored through a DefaultLinkSystem on the same storage before the history proper: what a
	// private registry (possibly decode-only) then loads
	if !reg.Global && (len(reg.Enc) == 0 || r.Intn(3) == 0) {
		for i, n := 0, 1+r.Intn(3); i < n; i++ {
			std := []uint64{lib.LkDagCbor, lib.LkDagJson, lib.LkCbor, lib.LkJson, lib.LkRaw}
			c := std[r.Intn(len(std))]
			for try := 0; try < 6; try++ { // prefer a code this registry can decode
				if _, ok := reg.Dec[c]; ok {
					break
				}
				c = std[r.Intn(len(std))]
			}
			mht := []uint64{0x12, 0x13, 0x16}[r.Intn(3)]
			o := &op{kind: 'S', global: true, proto: lib.LkProto{Version: 1, Codec: c, MhType: mht, MhLen: -1}, holder: "basic", val: r.LkGenVal(c)}
			ops = append(ops, o)
			live.do(o)
		}
	}
	// must: the Must* variant right after the plain call on the same input
	must := func(o *op) {
		if o.kind == 'W' || (o.kind == 'G' && o.form != 'l' && o.form != 'f') || r.Intn(6) != 0 {
			return
		}
		m := *o
		m.must = true
		ops = append(ops, &m)
		live.do(&m)
	}
	for len(ops) < nops {
		if r.Intn(14) == 0 {
			typed()
			continue
		}
		if r.Intn(16) == 0 {
			rawrun()
			continue
		}
		switch k := r.Intn(20); {
		case k < 11 || len(live.links) == 0: // store / compute
			var codec uint64
			var v *lib.Val
			if len(pool) > 0 && r.Intn(3) == 0 {
				// the same value again: other insertion order, other holder, maybe other prototype
				m := pool[r.Intn(len(pool))]
				codec, v = m.codec, r.Permuted(m.val)
				if r.Intn(4) == 0 {
					c2 := pick()
					if lib.LkInDomain(implFor(reg, c2), v) {
						codec = c2
					}
				}
			} else {
				codec = pick()
				impl := implFor(reg, codec)
				v = r.LkGenVal(impl)
				if r.Intn(25) == 0 {
					// outside the codec's domain on purpose: the encoder must refuse, nothing is stored
					switch impl {
					case lib.LkRaw:
						v = lib.Int(7)
					case lib.LkCbor, lib.LkJson:
						v = lib.List(lib.Int(1), lib.Link(r.GenCid()))
					}
				}
				pool = append(pool, made{codec, v})
			}
			var p lib.LkProto
			if len(protos) > 0 && r.Intn(3) == 0 {
				p = protos[r.Intn(len(protos))]
				if (p.Version == 0) != (codec == lib.LkDagPb) {
					p = genProto(r, codec)
				} else {
					p.Codec = codec
				}
			} else {
				p = genProto(r, codec)
			}
			if p.Version == 1 && r.Intn(60) == 0 {
				p.MhType = 0x99 // no such hasher: setup error, nothing else happens
			}
			if p.Version == 1 && r.Intn(80) == 0 {
				p.Codec = 0x3fffff // a code nobody registered
			}
			protos = append(protos, p)
			hs := lib.HoldersFor(v)
			o := &op{kind: 'S', proto: p, holder: hs[r.Intn(len(hs))], val: v}
			switch r.Intn(9) {
			case 0, 1, 2:
				o.kind = 'C'
			case 3:
				// the storage writer misbehaves on one or two of the first writes (not combined with a
				// value the encoder refuses half-way: which error wins is not modelled)
				if !lib.LkInDomain(implFor(reg, p.Codec), v) {
					break
				}
				o.kind = 'W'
				k := r.Intn(12)
				sc := make([]string, k+1)
				for i := range sc {
					sc[i] = "o"
				}
				sc[k] = []string{"f", "f", "s0", "s1", "s3"}[r.Intn(5)]
				if r.Intn(3) == 0 {
					sc = append(sc, "o", "f")
				}
				o.sched = strings.Join(sc, ",")
			}
			if o.kind != 'C' && r.Intn(6) == 0 {
				nest(o.proto.MhType)
			}
			ops = append(ops, o)
			live.do(o)
			must(o)
		default:
			l := live.links[r.Intn(len(live.links))]
			if r.Intn(15) == 0 {
				// a well-formed link nobody stored: flip one digest bit
				b := []byte(l)
				b[len(b)-1] ^= 1
				if _, err := lib.LkLinkFromBinary(string(b)); err == nil {
					l = string(b)
				}
			}
			o := &op{kind: 'G', form: "lrpf"[r.Intn(4)], link: l}
			if r.Intn(5) == 0 {
				mht := uint64(0x12)
				if cl, err := lib.LkLinkFromBinary(l); err == nil {
					mht = cl.(cidlink.Link).Prefix().MhType
				}
				nest(mht)
			}
			ops = append(ops, o)
			live.do(o)
			must(o)
		}
	}
	return kind, trusted, reg, ops
}

func main() {
	lib.LkInit()
	fl := lib.ParseFlags()
	out := lib.OpenOut(fl.Out)
	defer out.Close()
	if fl.Replay != "" {
		for _, line := range lib.ReadLines(fl.Replay) {
			f := strings.Split(line, "\t")
			if len(f) < 6 || f[1] != "hist" {
				continue
			}
			reg, err := lib.LkParseReg(f[4])
			if err != nil {
				panic(err)
			}
			var ops []*op
			for _, s := range strings.Split(f[5], ";") {
				o, err := parseOp(s)
				if err != nil {
					panic(err)
				}
				ops = append(ops, o)
			}
			emit(out, f[0], f[2], f[3] == "1", reg, ops)
		}
		return
	}
	n := fl.N
	maxOps := 30
	if fl.Tier == "thorough" {
		maxOps = 300
	}
	if n == 0 {
		n = 400
		if fl.Tier == "thorough" {
			n = 4000
		}
	}
	id := 0
	next := func(p string) string { id++; return fmt.Sprintf("%s%d", p, id) }

	// ---- fixed corpus: every codec x hash x digest length, store = compute = compute again, all
	// four loads; the same map in two insertion orders; the collision witness (digest length 0)
	G := lib.LkGlobalReg()
	m1 := lib.Map(lib.Entry{K: "b", V: lib.Int(1)}, lib.Entry{K: "a", V: lib.Str("x")}, lib.Entry{K: "cc", V: lib.List(lib.Bool(true), lib.Null())})
	m2 := lib.Map(lib.Entry{K: "cc", V: lib.List(lib.Bool(true), lib.Null())}, lib.Entry{K: "a", V: lib.Str("x")}, lib.Entry{K: "b", V: lib.Int(1)})
	for _, kind := range []string{"mem", "cid"} {
		for _, codec := range []uint64{lib.LkDagCbor, lib.LkDagJson, lib.LkCbor, lib.LkJson, lib.LkRaw, lib.LkDagPb} {
			for _, mh := range [][2]int{{0x12, -1}, {0x12, 32}, {0x12, 31}, {0x12, 20}, {0x12, 0}, {0x13, -1}, {0x13, 64}, {0x13, 10}, {0x16, -1}, {0x16, 16}, {0x00, -1}, {0x00, 3}} {
				p := lib.LkProto{Version: 1, Codec: codec, MhType: uint64(mh[0]), MhLen: mh[1]}
				if codec == lib.LkDagPb {
					if mh[0] != 0x12 || (mh[1] != -1 && mh[1] != 32) {
						continue
					}
					p.Version = 0
				}
				va, vb := m1, m2
				if codec == lib.LkRaw {
					va, vb = lib.Bytes("hello"), lib.Bytes("hello")
				}
				ops := []*op{
					{kind: 'C', proto: p, holder: "basic", val: va},
					{kind: 'S', proto: p, holder: "basic", val: va},
					{kind: 'C', proto: p, holder: "basic", val: vb},
					{kind: 'S', proto: p, holder: lib.HoldersFor(vb)[1%len(lib.HoldersFor(vb))], val: vb},
				}
				_, _, ls := runHistory(kind, false, G, ops)
				for _, l := range uniq(ls) {
					for _, f := range "lrpf" {
						ops = append(ops, &op{kind: 'G', form: byte(f), link: l})
					}
				}
				emit(out, next("k"), kind, false, G, ops)
			}
		}
		// collision by truncation to nothing: two values, one key
		p0 := lib.LkProto{Version: 1, Codec: lib.LkDagCbor, MhType: 0x12, MhLen: 0}
		ops := []*op{{kind: 'S', proto: p0, holder: "basic", val: lib.Int(1)}, {kind: 'S', proto: p0, holder: "basic", val: lib.Int(2)}}
		_, _, ls := runHistory(kind, false, G, ops)
		for _, f := range "lrpf" {
			ops = append(ops, &op{kind: 'G', form: byte(f), link: ls[0]})
		}
		emit(out, next("k"), kind, false, G, ops)
	}
	// configurations outside the property's space (still run, reported as skip by the oracle):
	// CIDv0 prototype naming another codec; digest length beyond the hash output; bad version
	for _, p := range []lib.LkProto{
		{Version: 0, Codec: lib.LkDagCbor, MhType: 0x12, MhLen: 32},
		{Version: 0, Codec: lib.LkDagPb, MhType: 0x13, MhLen: 64},
		{Version: 0, Codec: lib.LkDagPb, MhType: 0x12, MhLen: 20},
		{Version: 1, Codec: lib.LkDagCbor, MhType: 0x12, MhLen: 65},
		{Version: 1, Codec: lib.LkDagCbor, MhType: 0x12, MhLen: -2},
		{Version: 2, Codec: lib.LkDagCbor, MhType: 0x12, MhLen: 32},
	} {
		ops := []*op{{kind: 'C', proto: p, holder: "basic", val: m1}, {kind: 'S', proto: p, holder: "basic", val: m1}}
		_, _, ls := runHistory("mem", false, G, ops)
		for _, l := range ls {
			ops = append(ops, &op{kind: 'G', form: 'l', link: l})
		}
		emit(out, next("oos"), "mem", false, G, ops)
	}

	// private registries: a standard number re-bound to another implementation than the global
	// registry has (0x71 -> raw, 0x55 -> dag-cbor, 0x129 -> json), private numbers, a number bound
	// for encoding only and one for decoding only
	custom, err := lib.LkParseReg("R:71=55,55=71,129=200,300001=129,300002=71,300003=55,300010=71:e,300020=129:d,70=71")
	if err != nil {
		panic(err)
	}
	for _, kind := range []string{"mem", "cid"} {
		for _, code := range regCodes(custom) {
			impl := implFor(custom, code)
			p := lib.LkProto{Version: 1, Codec: code, MhType: 0x12, MhLen: -1}
			if code == lib.LkDagPb {
				p.Version, p.MhLen = 0, 32
			}
			va, vb := m1, m2
			if impl == lib.LkRaw {
				va, vb = lib.Bytes("hello"), lib.Bytes("hello")
			}
			ops := []*op{
				{kind: 'C', proto: p, holder: "basic", val: va},
				{kind: 'S', proto: p, holder: "basic", val: va},
				{kind: 'S', proto: p, holder: "basic", val: vb},
			}
			_, _, ls := runHistory(kind, false, custom, ops)
			for _, l := range uniq(ls) {
				for _, f := range "lrpf" {
					ops = append(ops, &op{kind: 'G', form: byte(f), link: l})
				}
			}
			emit(out, next("r"), kind, false, custom, ops)
		}
	}

	// zero-value registries populated decoders-first / after a Lookup and List / with decoders only,
	// loading blocks that a DefaultLinkSystem stored on the same storage; Must* variants
	for _, spec := range []string{"Rd:71=71,55=55,300001=129", "Rl:71=71,129=129", "Rd:71=71:d,55=55:d,129=129:d", "R:71=71:e,55=55:e", "Rl:300020=71:d"} {
		rg, err := lib.LkParseReg(spec)
		if err != nil {
			panic(err)
		}
		var ops []*op
		pc := lib.LkProto{Version: 1, Codec: lib.LkDagCbor, MhType: 0x12, MhLen: -1}
		pr := lib.LkProto{Version: 1, Codec: lib.LkRaw, MhType: 0x13, MhLen: -1}
		ops = append(ops, &op{kind: 'S', global: true, proto: pc, holder: "basic", val: m1},
			&op{kind: 'S', global: true, proto: pr, holder: "basic", val: lib.Bytes("stored elsewhere")})
		ops = append(ops, &op{kind: 'C', proto: pc, holder: "basic", val: m2}, &op{kind: 'C', must: true, proto: pc, holder: "basic", val: m2},
			&op{kind: 'S', proto: pc, holder: "basic", val: m2}, &op{kind: 'S', must: true, proto: pc, holder: "basic", val: m2})
		_, _, ls := runHistory("mem", false, rg, ops)
		for _, l := range uniq(ls) {
			for _, f := range "lrpf" {
				ops = append(ops, &op{kind: 'G', form: byte(f), link: l})
			}
			ops = append(ops, &op{kind: 'G', must: true, form: 'l', link: l}, &op{kind: 'G', must: true, form: 'f', link: l})
		}
		emit(out, next("z"), "mem", false, rg, ops)
	}
	// maps of the shapes dag-json reserves ({"/": string}, {"/": {"bytes": string}}) are ordinary data for
	// json, cbor and dag-cbor: stored and loaded back as the maps they are, through every load function
	for _, codec := range []uint64{lib.LkJson, lib.LkCbor, lib.LkDagCbor} {
		p := lib.LkProto{Version: 1, Codec: codec, MhType: 0x12, MhLen: -1}
		var ops []*op
		for _, v := range []*lib.Val{
			lib.Map(lib.Entry{K: "/", V: lib.Map(lib.Entry{K: "bytes", V: lib.Str("AP8")})}),
			lib.Map(lib.Entry{K: "/", V: lib.Str("bafyreigdyrzt5sfp7udm7hu76uh7y26nf3efuylqabf3oclgtqy55fbzdi")}),
			lib.Map(lib.Entry{K: "/", V: lib.Map(lib.Entry{K: "bytes", V: lib.Str("aGVsbG8")})}, lib.Entry{K: "x", V: lib.Int(1)}),
			lib.List(lib.Map(lib.Entry{K: "/", V: lib.Map(lib.Entry{K: "bytes", V: lib.Str("")})}), lib.Map(lib.Entry{K: "/", V: lib.Str("x")})),
		} {
			ops = append(ops, &op{kind: 'C', proto: p, holder: "basic", val: v}, &op{kind: 'S', proto: p, holder: "basic", val: v})
		}
		_, _, ls := runHistory("mem", false, G, ops)
		for _, l := range uniq(ls) {
			for _, f := range "lfpr" {
				ops = append(ops, &op{kind: 'G', form: byte(f), link: l})
			}
		}
		emit(out, next("j"), "mem", false, G, ops)
	}
	// LARGE blocks: one store-then-load round trip per size (1 / 2 / 4 MiB, each -1 / exact / +1; the
	// thorough tier adds 8 and 16 MiB for raw) and codec: raw, and dag-cbor holding a bytes node of
	// that size (modelled through tables: impl 7100).  Byte strings travel under names (lib/link_big.go).
	bigReg, err := lib.LkParseReg("R:55=55,71=7100")
	if err != nil {
		panic(err)
	}
	mibs := []int{1, 2, 4}
	if fl.Tier == "thorough" {
		mibs = append(mibs, 8, 16)
	}
	if os.Getenv("LKBIG") == "0" { // (timing aid: leave the large blocks out)
		mibs = nil
	}
	for _, m := range mibs {
		for _, d := range []int{-1, 0, 1} {
			size := m<<20 + d
			var ops []*op
			for _, codec := range []uint64{lib.LkRaw, lib.LkDagCbor} {
				body := size
				if codec == lib.LkDagCbor {
					if m > 4 {
						continue // beyond the dag-cbor decoder's default allocation budget
					}
					body = size - 5 // so that the BLOCK has the size
				}
				p := lib.LkProto{Version: 1, Codec: codec, MhType: 0x12, MhLen: -1}
				v := lib.Bytes(lib.LkRun(byte(0xA0+m), body))
				ops = append(ops, &op{kind: 'C', proto: p, holder: "big", val: v}, &op{kind: 'S', proto: p, holder: "big", val: v})
			}
			var learn []*op
			for _, o := range ops {
				if o.kind == 'C' {
					learn = append(learn, o)
				}
			}
			_, _, ls := runHistory("mem", false, bigReg, learn)
			fs := "lfpr"
			if d != 0 && fl.Tier != "thorough" {
				fs = "lr"
			}
			for _, l := range uniq(ls) {
				for _, f := range fs {
					ops = append(ops, &op{kind: 'G', form: byte(f), link: l})
				}
			}
			emit(out, next("big"), "mem", false, bigReg, ops)
		}
	}
	// raw blocks of descending and ascending sizes loaded in a row through each load function; what
	// every load returned is retained and read again at the end
	for _, kind := range []string{"mem", "cid"} {
		for _, trusted := range []bool{false, true} {
			for _, form := range "lfpr" {
				p := lib.LkProto{Version: 1, Codec: lib.LkRaw, MhType: 0x12, MhLen: -1}
				var ops []*op
				for _, n := range []int{4100, 64, 64, 32, 1, 0, 33, 5000} {
					ops = append(ops, &op{kind: 'S', proto: p, holder: "basic", val: lib.Bytes(strings.Repeat(string(rune('a'+n%26)), n))})
				}
				_, _, ls := runHistory(kind, trusted, G, ops)
				for rep := 0; rep < 2; rep++ {
					for _, l := range uniq(ls) {
						ops = append(ops, &op{kind: 'G', form: byte(form), link: l})
					}
				}
				emit(out, next("w"), kind, trusted, G, ops)
			}
		}
	}
	// schema-typed holders: every holder x codec, typed ComputeLink / Store / basicnode ComputeLink,
	// loads into the typed prototype (Load, Fill, LoadPlusRaw) and into Prototype.Any
	crng := lib.NewRng(7)
	for _, h := range lib.LkTypedHolders {
		for _, codec := range []uint64{lib.LkDagCbor, lib.LkDagJson, lib.LkCbor, lib.LkJson} {
			for rep := 0; rep < 2; rep++ {
				v := crng.LkTypedVal(h)
				p := lib.LkProto{Version: 1, Codec: codec, MhType: 0x12, MhLen: 32}
				ops := []*op{
					{kind: 'C', proto: p, holder: h, val: v},
					{kind: 'S', proto: p, holder: h, val: v},
					{kind: 'C', proto: p, holder: "basic", val: v},
				}
				_, _, ls := runHistory("mem", false, G, ops)
				for _, l := range uniq(ls) {
					for _, f := range "lfp" {
						ops = append(ops, &op{kind: 'G', form: byte(f), link: l, holder: h})
					}
					ops = append(ops, &op{kind: 'G', form: 'l', link: l}, &op{kind: 'G', form: 'r', link: l})
				}
				emit(out, next("t"), []string{"mem", "cid"}[rep], false, G, ops)
			}
		}
	}

	rng := lib.NewRng(fl.Seed)
	for i := 0; i < n; i++ {
		kind, trusted, reg, ops := genHistory(rng.Fork(), maxOps)
		emit(out, next("h"), kind, trusted, reg, ops)
	}
}
