// c10sel: selector compilation and selector walks are total (the selector clause of C10).
// Record: id, "c10s", selector declaration (any data-model value), root, blocks, observation
//
//	observation = <compile class>                         when compilation did not succeed
//	            | ok|A:<class>:<visits>:<loads>|M:<class>:<visits>:<loads>
//	compile class: ok | err | panic:<site> | huge:<oom|makeslice|...>   (huge: the declaration holds an ExploreRange wider
//	               than 2^20 and compiling it in a child process with a 4 GiB address-space limit died or panicked)
//	walk class:    ok | load | other | panic:<edge|other>; visits / loads counted for WalkAdv (A) and WalkMatching (M).
//
// Declarations: the grammar generator of the traversal cluster, then mutations (wrong kinds, missing / extra keys,
// unknown clause names), extreme integers in every integer position, degenerate recursion.
package main

import (
	"bytes"
	"fmt"
	"math/big"
	"os"
	"os/exec"
	"strings"
	"syscall"

	"verifharness/lib"

	"github.com/ipld/go-ipld-prime/traversal/selector"
)

const visitCap = 20000

func panicSite(err error) string {
	m := err.Error()
	switch {
	case strings.Contains(m, "Traversed Explore Recursive Edge"):
		return "panic:edge"
	case strings.Contains(m, "makeslice"):
		return "panic:makeslice"
	}
	return "panic:other"
}

// wideRange: the declaration contains {"^": a, "$": b} with a < b and b - a > 2^20 (true difference).
func wideRange(v *lib.Val) bool {
	if v.Kind == lib.KMap {
		var a, b *big.Int
		for _, e := range v.M {
			if e.K == "^" && e.V.Kind == lib.KInt {
				a = e.V.I
			}
			if e.K == "$" && e.V.Kind == lib.KInt {
				b = e.V.I
			}
		}
		if a != nil && b != nil {
			d := new(big.Int).Sub(b, a)
			if d.Cmp(big.NewInt(1<<20)) > 0 {
				return true
			}
		}
	}
	for _, x := range v.L {
		if wideRange(x) {
			return true
		}
	}
	for _, e := range v.M {
		if wideRange(e.V) {
			return true
		}
	}
	return false
}

// child mode: compile the declaration given on stdin under an address-space limit and report the class.
func childMain() {
	lim := syscall.Rlimit{Cur: 4 << 30, Max: 4 << 30}
	syscall.Setrlimit(syscall.RLIMIT_AS, &lim)
	var sb strings.Builder
	buf := make([]byte, 1<<16)
	for {
		n, err := os.Stdin.Read(buf)
		sb.Write(buf[:n])
		if err != nil {
			break
		}
	}
	v, err := lib.ParseVal(strings.TrimSpace(sb.String()))
	if err != nil {
		fmt.Println("childerr")
		return
	}
	n, err := lib.BuildBasic(v)
	if err != nil {
		fmt.Println("childerr")
		return
	}
	cerr := lib.Safely(func() error {
		_, e := selector.CompileSelector(n)
		return e
	})
	switch {
	case cerr == nil:
		fmt.Println("ok")
	case lib.IsPanic(cerr):
		fmt.Println(panicSite(cerr))
	default:
		fmt.Println("err")
	}
}

func compileInChild(v *lib.Val) string {
	cmd := exec.Command(os.Args[0])
	cmd.Env = append(os.Environ(), "C10SEL_CHILD=1")
	cmd.Stdin = strings.NewReader(v.Text())
	var out, errb bytes.Buffer
	cmd.Stdout, cmd.Stderr = &out, &errb
	err := cmd.Run()
	res := strings.TrimSpace(out.String())
	if err != nil || res == "" {
		if strings.Contains(errb.String(), "out of memory") || strings.Contains(errb.String(), "cannot allocate") {
			return "huge:oom"
		}
		return "huge:died"
	}
	if strings.HasPrefix(res, "panic:makeslice") {
		return "huge:makeslice"
	}
	return res
}

func walkObs(env *lib.TravEnv, matching bool) (string, bool) {
	evs, cls := env.RunCapped(matching, visitCap)
	if cls == "cap" {
		return "", false
	}
	nv, nl := 0, 0
	for _, e := range evs {
		if e.Load {
			nl++
		} else {
			nv++
		}
	}
	return fmt.Sprintf("%s:%d:%d", cls, nv, nl), true
}

// runCase returns false when the case is unusable (walk longer than the cap).
func runCase(out *lib.Out, id string, tc *lib.TravCase) bool {
	emit := func(obs string) {
		out.Case(id, "c10s", tc.Sel.Text(), tc.Root.Text(), tc.BlocksText(), obs)
	}
	if wideRange(tc.Sel) {
		if r := compileInChild(tc.Sel); r != "ok" {
			emit(r)
			return true
		}
	}
	env, err := tc.Open()
	if err != nil {
		// the declaration itself cannot be built as a node (not a data-model value): not a case
		return false
	}
	if env.SelErr != nil {
		if lib.IsPanic(env.SelErr) {
			emit(panicSite(env.SelErr))
		} else {
			emit("err")
		}
		return true
	}
	a, ok := walkObs(env, false)
	if !ok {
		return false
	}
	m, ok := walkObs(env, true)
	if !ok {
		return false
	}
	emit("ok|A:" + a + "|M:" + m)
	return true
}

func mustVal(s string) *lib.Val {
	v, err := lib.ParseVal(s)
	if err != nil {
		panic(err)
	}
	return v
}

var extremes = []string{"0", "1", "-1", "2", "9223372036854775807", "-9223372036854775808", "9223372036854775806",
	"-9223372036854775807", "1099511627776", "-1099511627776", "4294967296", "9223372036854775808", "18446744073709551615", "1048577", "-3"}

func bigInt(s string) *lib.Val {
	i, _ := new(big.Int).SetString(s, 10)
	return &lib.Val{Kind: lib.KInt, I: i}
}

// extremeInts replaces integers of the declaration by extreme values (each with probability pct).
func extremeInts(r *lib.Rng, v *lib.Val, pct int) *lib.Val {
	c := *v
	switch v.Kind {
	case lib.KInt:
		if r.Chance(pct) {
			return bigInt(extremes[r.Intn(len(extremes))])
		}
	case lib.KList:
		c.L = make([]*lib.Val, len(v.L))
		for i, x := range v.L {
			c.L[i] = extremeInts(r, x, pct)
		}
	case lib.KMap:
		c.M = make([]lib.Entry, len(v.M))
		for i, e := range v.M {
			c.M[i] = lib.Entry{K: e.K, V: extremeInts(r, e.V, pct)}
		}
	}
	return &c
}

var junk = []func() *lib.Val{
	func() *lib.Val { return lib.Null() }, func() *lib.Val { return lib.Bool(true) }, func() *lib.Val { return lib.Int(7) },
	func() *lib.Val { return lib.Str("a") }, func() *lib.Val { return lib.Bytes("x") }, func() *lib.Val { return lib.Float(1.5) },
	func() *lib.Val { return lib.List() }, func() *lib.Val { return lib.Map() }, func() *lib.Val { return lib.List(lib.Map()) },
	func() *lib.Val { return lib.Map(lib.Entry{K: ".", V: lib.Map()}) }, func() *lib.Val { return lib.Map(lib.Entry{K: "@", V: lib.Map()}) },
}

var clauseKeys = []string{".", "a", "f", "i", "r", "R", "|", "@", "&", "?", ">", "f>", "^", "$", ":>", "l", "depth", "none", "!", "/", "subset", "[", "]", "as", ""}

// mutate applies one structural mutation somewhere in the declaration.
func mutate(r *lib.Rng, v *lib.Val) *lib.Val {
	// pick a random node by walking down
	c := *v
	descend := r.Chance(70)
	switch v.Kind {
	case lib.KList:
		if descend && len(v.L) > 0 {
			c.L = append([]*lib.Val{}, v.L...)
			i := r.Intn(len(v.L))
			c.L[i] = mutate(r, v.L[i])
			return &c
		}
	case lib.KMap:
		if descend && len(v.M) > 0 {
			c.M = append([]lib.Entry{}, v.M...)
			i := r.Intn(len(v.M))
			c.M[i] = lib.Entry{K: v.M[i].K, V: mutate(r, v.M[i].V)}
			return &c
		}
	}
	switch r.Intn(7) {
	case 0: // wrong kind / junk
		return junk[r.Intn(len(junk))]()
	case 1: // drop a key / an element
		if v.Kind == lib.KMap && len(v.M) > 0 {
			i := r.Intn(len(v.M))
			c.M = append(append([]lib.Entry{}, v.M[:i]...), v.M[i+1:]...)
			return &c
		}
		if v.Kind == lib.KList && len(v.L) > 0 {
			i := r.Intn(len(v.L))
			c.L = append(append([]*lib.Val{}, v.L[:i]...), v.L[i+1:]...)
			return &c
		}
	case 2: // extra key
		if v.Kind == lib.KMap {
			k := clauseKeys[r.Intn(len(clauseKeys))]
			for _, e := range v.M {
				if e.K == k {
					return junk[r.Intn(len(junk))]()
				}
			}
			c.M = append(append([]lib.Entry{}, v.M...), lib.Entry{K: k, V: junk[r.Intn(len(junk))]()})
			return &c
		}
	case 3: // rename a key
		if v.Kind == lib.KMap && len(v.M) > 0 {
			i := r.Intn(len(v.M))
			k := clauseKeys[r.Intn(len(clauseKeys))]
			for _, e := range v.M {
				if e.K == k {
					return &c
				}
			}
			c.M = append([]lib.Entry{}, v.M...)
			c.M[i] = lib.Entry{K: k, V: v.M[i].V}
			return &c
		}
	case 4: // wrap in a list / map
		if r.Bool() {
			return lib.List(v)
		}
		return lib.Map(lib.Entry{K: clauseKeys[r.Intn(len(clauseKeys))], V: v})
	case 5: // an edge here
		return lib.SelEdge()
	default: // duplicate an element
		if v.Kind == lib.KList && len(v.L) > 0 {
			c.L = append(append([]*lib.Val{}, v.L...), v.L[r.Intn(len(v.L))])
			return &c
		}
	}
	return junk[r.Intn(len(junk))]()
}

func ints(xs ...int64) *lib.Val {
	v := lib.List()
	for _, x := range xs {
		v.L = append(v.L, lib.Int(x))
	}
	return v
}

func corpus(out *lib.Out) {
	for i, tc := range lib.TravWitnesses() {
		runCase(out, fmt.Sprintf("k%d", i), tc)
	}
	M, A, E, U := lib.SelMatcher, lib.SelAll, lib.SelEdge, lib.SelUnion
	none := lib.SelNoLimit
	two := lib.Map(lib.Entry{K: "a", V: lib.List(lib.Map(lib.Entry{K: "b", V: ints(1, 2)}), ints(3))}, lib.Entry{K: "c", V: lib.List(ints(4))})
	deep := lib.List(lib.List(lib.List(lib.List(lib.List(lib.Int(1))))))
	big := func(s string) *lib.Val { return bigInt(s) }
	rng := func(a, b string, next *lib.Val) *lib.Val {
		return lib.Map(lib.Entry{K: "r", V: lib.Map(lib.Entry{K: "^", V: big(a)}, lib.Entry{K: "$", V: big(b)}, lib.Entry{K: ">", V: next})})
	}
	idx := func(i string, next *lib.Val) *lib.Val {
		return lib.Map(lib.Entry{K: "i", V: lib.Map(lib.Entry{K: "i", V: big(i)}, lib.Entry{K: ">", V: next})})
	}
	recd := func(d string, seq *lib.Val) *lib.Val {
		return lib.Map(lib.Entry{K: "R", V: lib.Map(lib.Entry{K: "l", V: lib.Map(lib.Entry{K: "depth", V: big(d)})}, lib.Entry{K: ":>", V: seq})})
	}
	sub := func(a, b string) *lib.Val {
		return lib.Map(lib.Entry{K: ".", V: lib.Map(lib.Entry{K: "subset", V: lib.Map(lib.Entry{K: "[", V: big(a)}, lib.Entry{K: "]", V: big(b)})})})
	}
	strs := lib.List(lib.Str("hello"), lib.Bytes("hello"), lib.Str(""), lib.Int(1))
	cases := []struct{ sel, root *lib.Val }{
		// an edge inside a union nested in a union must still be replaced (hasRecursiveEdge / replaceRecursiveEdge recurse)
		{lib.SelRec(5, U(A(U(E(), M())), A(A(M()))), ""), two},
		{lib.SelRec(5, U(A(U(U(E(), M()), M())), A(A(M()))), ""), two},
		{lib.SelRec(none, A(U(U(E(), E()), U(E()))), ""), deep},
		// degenerate recursion
		{E(), two}, {lib.SelRec(none, E(), ""), two}, {lib.SelRec(none, U(E(), E()), ""), two},
		{lib.SelRec(none, U(U(E()), U(U(E()))), ""), two}, {lib.SelRec(none, U(), ""), two}, {A(U()), two},
		{lib.SelRec(none, U(E(), A(E())), ""), two}, {lib.SelRec(0, A(E()), ""), deep}, {lib.SelRec(1, A(E()), ""), deep},
		{lib.SelRec(none, A(lib.SelRec(none, A(E()), "")), ""), deep}, {lib.SelRec(2, A(lib.SelRec(1, A(E()), "")), ""), deep},
		{lib.SelRec(none, A(lib.SelRec(none, E(), "")), ""), deep}, {U(E(), M()), two}, {A(E()), two},
		{lib.SelRec(none, lib.SelFields(lib.Entry{K: "a", V: E()}, lib.Entry{K: "0", V: E()}), ""), two},
		// extreme integers
		{recd("9223372036854775807", A(E())), deep}, {recd("-9223372036854775808", A(E())), deep}, {recd("9223372036854775808", A(E())), deep},
		{idx("9223372036854775807", M()), ints(1, 2)}, {idx("-9223372036854775808", M()), ints(1, 2)}, {idx("18446744073709551615", M()), ints(1, 2)},
		{rng("9223372036854775806", "9223372036854775807", M()), ints(1, 2)}, {rng("-9223372036854775808", "-9223372036854775806", M()), ints(1, 2)},
		{rng("-2", "2", M()), ints(1, 2, 3)}, {rng("5", "5", M()), ints(1)}, {rng("6", "5", M()), ints(1)},
		{rng("9223372036854775807", "-9223372036854775808", M()), ints(1)},
		{A(sub("-9223372036854775808", "9223372036854775807")), strs}, {A(sub("9223372036854775807", "-9223372036854775808")), strs},
		{A(sub("-9223372036854775808", "-9223372036854775808")), strs}, {A(sub("9223372036854775807", "9223372036854775807")), strs},
		{A(sub("0", "9223372036854775808")), strs}, {A(sub("3", "1")), strs}, {A(sub("3", "-1")), strs},
		// ranges whose interests cannot be materialised (compiled in a child process)
		{rng("0", "1099511627776", M()), ints(1, 2)}, {rng("-9223372036854775808", "9223372036854775807", M()), ints(1, 2)},
		{rng("0", "9223372036854775807", M()), ints(1, 2)}, {rng("0", "4294967296", M()), ints(1, 2)},
		{U(lib.Map(lib.Entry{K: "?", V: lib.Map()}), rng("0", "1099511627776", M())), ints(1)}, // an error before the range is reached
		{U(rng("0", "1099511627776", M()), lib.Map(lib.Entry{K: "?", V: lib.Map()})), ints(1)}, // ... and after it
		// not selectors at all
		{lib.Null(), two}, {lib.Int(1), two}, {lib.List(), two}, {lib.Map(), two}, {lib.Str("a"), two},
		{lib.Map(lib.Entry{K: "a", V: lib.Map()}, lib.Entry{K: ".", V: lib.Map()}), two},
		{lib.Map(lib.Entry{K: "R", V: lib.Map(lib.Entry{K: "l", V: lib.Map()}, lib.Entry{K: ":>", V: A(E())})}), two},
		{lib.Map(lib.Entry{K: "R", V: lib.Map(lib.Entry{K: "l", V: lib.Map(lib.Entry{K: "none", V: lib.Int(3)})}, lib.Entry{K: ":>", V: A(E())})}), two},
		{lib.Map(lib.Entry{K: "R", V: lib.Map(lib.Entry{K: "l", V: lib.Map(lib.Entry{K: "none", V: lib.Map()})}, lib.Entry{K: ":>", V: A(E())}, lib.Entry{K: "!", V: lib.Map(lib.Entry{K: "/", V: lib.Int(1)})})}), two},
	}
	for i, c := range cases {
		runCase(out, fmt.Sprintf("k%d", 10+i), &lib.TravCase{Sel: c.sel, Root: c.root})
	}
}

func main() {
	if os.Getenv("C10SEL_CHILD") == "1" {
		childMain()
		return
	}
	fl := lib.ParseFlags()
	out := lib.OpenOut(fl.Out)
	defer out.Close()
	if fl.Replay != "" {
		for i, tc := range lib.TravWitnesses() {
			runCase(out, fmt.Sprintf("k%d", i), tc)
		}
		for _, line := range lib.ReadLines(fl.Replay) {
			f := strings.Split(line, "\t")
			if len(f) < 6 || f[1] != "c10s" {
				continue
			}
			tc := &lib.TravCase{Sel: mustVal(f[2]), Root: mustVal(f[3])}
			var err error
			if tc.Blocks, err = lib.ParseBlocks(f[4]); err != nil {
				panic(err)
			}
			runCase(out, f[0], tc)
		}
		return
	}
	n := fl.N
	if n == 0 {
		n = 1200
		if fl.Tier == "thorough" {
			n = 60000
		}
	}
	rng := lib.NewRng(fl.Seed)
	corpus(out)
	wide := 0
	for i := 0; i < n; i++ {
		for {
			if rng.Chance(4) {
				if runCase(out, fmt.Sprintf("p%d", i), lib.GenSharedClauseCase(rng)) {
					break
				}
				continue
			}
			tc := lib.GenTravGraph(rng)
			sg := &lib.SelGen{R: rng, Cids: tc.AllCids(), Keys: tc.AllKeys(), MaxDepth: 1 + rng.Intn(5), BadPct: 3, BareEdgePct: 8}
			tc.Sel = sg.Top()
			if lib.SelTooWild(tc.Sel, 0) {
				continue
			}
			switch rng.Intn(10) {
			case 0, 1, 2: // structural mutations (1-3)
				for k := 1 + rng.Intn(3); k > 0; k-- {
					tc.Sel = mutate(rng, tc.Sel)
				}
			case 3, 4: // extreme integers
				tc.Sel = extremeInts(rng, tc.Sel, 40)
			case 5: // both
				tc.Sel = extremeInts(rng, mutate(rng, tc.Sel), 30)
			}
			if lib.SelTooWild(tc.Sel, 0) {
				continue
			}
			if wideRange(tc.Sel) {
				// child processes are slow: a bounded number per run
				if wide >= 12+n/100 {
					continue
				}
				wide++
			}
			if runCase(out, fmt.Sprintf("p%d", i), tc) {
				break
			}
		}
	}
}
