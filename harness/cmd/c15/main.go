// c15: traversal controls only restrict a walk.
// Record: id, "c15", selector, root, blocks, control, observation
//
//	selector / root: values in the token language; blocks: cidhex=value;...  (as the loader returns them)
//	control: u | nb=N | lb=N | st=<.hex segments> | once | skip=cid+cid | '&'-joined combinations
//	observation: "compile:<err|panic>" or  U<trace>#R<trace>  where U is the unrestricted WalkAdv trace of
//	the same selector and graph and R the trace under the control (node contents as FNV-32 digests).
package main

import (
	"fmt"
	"strings"

	"verifharness/lib"
)

type pair struct {
	tc  *lib.TravCase
	env *lib.TravEnv
}

func emit(out *lib.Out, id string, tc *lib.TravCase, env *lib.TravEnv, ctl lib.TravCtl, utext string) {
	revs, rclass := env.Run(ctl, false)
	out.Case(id, "c15", tc.Sel.Text(), tc.Root.Text(), tc.BlocksText(), ctl.Text(),
		"U"+utext+"#R"+lib.TraceText(revs, rclass, true))
}

func distinctLoads(evs []lib.TravEvent) []string {
	seen := map[string]bool{}
	var out []string
	for _, e := range evs {
		if e.Load && !seen[e.Cid] {
			seen[e.Cid] = true
			out = append(out, e.Cid)
		}
	}
	return out
}

// pick returns the values 0..n, all of them when there are at most max, else max of them spread evenly
// (always including 0, n-1 and n).
func pick(n, max int) []int {
	var out []int
	if n+1 <= max {
		for i := 0; i <= n; i++ {
			out = append(out, i)
		}
		return out
	}
	last := -1
	for k := 0; k < max-2; k++ {
		i := k * (n - 1) / (max - 3)
		if i != last {
			out = append(out, i)
			last = i
		}
	}
	return append(out, n)
}

// runPair returns false when the unrestricted walk is too long to be used (the caller draws another pair).
func runPair(out *lib.Out, rng *lib.Rng, base string, tc *lib.TravCase, thorough bool) bool {
	env, err := tc.Open()
	if err != nil {
		panic(fmt.Sprintf("%s: %v", base, err))
	}
	if env.SelErr != nil {
		out.Case(base+".u", "c15", tc.Sel.Text(), tc.Root.Text(), tc.BlocksText(), "u", "compile:"+env.CompileClass())
		return true
	}
	uevs, uclass := env.Run(lib.NoCtl(), false)
	if len(uevs) > 250 {
		return false
	}
	// every setting for walks of up to 40 events; an evenly spread sample of settings beyond that
	maxSet := 1 << 30
	if len(uevs) > 40 {
		maxSet = 10
	}
	utext := lib.TraceText(uevs, uclass, true)
	out.Case(base+".u", "c15", tc.Sel.Text(), tc.Root.Text(), tc.BlocksText(), "u", "U"+utext+"#R"+utext)
	nv, nl := 0, 0
	for _, e := range uevs {
		if e.Load {
			nl++
		} else {
			nv++
		}
	}
	// every node budget 0 .. |U|+1, every link budget 0 .. loads+1
	for _, n := range pick(nv+1, maxSet) {
		c := lib.NoCtl()
		c.NodeBudget = int64(n)
		emit(out, fmt.Sprintf("%s.nb%d", base, n), tc, env, c, utext)
	}
	for _, n := range pick(nl+1, maxSet) {
		c := lib.NoCtl()
		c.LinkBudget = int64(n)
		emit(out, fmt.Sprintf("%s.lb%d", base, n), tc, env, c, utext)
	}
	// every start path of U (distinct paths; at most 16 in the quick tier, spread evenly)
	var starts [][]string
	seen := map[string]bool{}
	for _, e := range uevs {
		if !e.Load && !seen[lib.SegsText(e.Path)] {
			seen[lib.SegsText(e.Path)] = true
			starts = append(starts, e.Path)
		}
	}
	step := 1
	if len(starts) > 16 || maxSet < len(starts) {
		lim := 16
		if maxSet < lim {
			lim = maxSet
		}
		step = (len(starts) + lim - 1) / lim
	}
	for i := 0; i < len(starts); i += step {
		c := lib.NoCtl()
		c.HasStart, c.Start = true, starts[i]
		emit(out, fmt.Sprintf("%s.st%d", base, i), tc, env, c, utext)
	}
	// a start path that U never visits (correspondence only)
	if rng.Chance(30) {
		c := lib.NoCtl()
		c.HasStart, c.Start = true, []string{lib.TravKeys[rng.Intn(4)], "zz"}
		emit(out, base+".stx", tc, env, c, utext)
	}
	// visit-once
	c := lib.NoCtl()
	c.Once = true
	emit(out, base+".once", tc, env, c, utext)
	// skip: every subset of the distinct links U loads (up to 3 links: 8 subsets), else 8 random subsets
	dl := distinctLoads(uevs)
	if len(dl) > 0 {
		var masks []int
		if len(dl) <= 3 {
			for m := 1; m < 1<<len(dl); m++ {
				masks = append(masks, m)
			}
		} else {
			for i := 0; i < 8 && i < maxSet; i++ {
				masks = append(masks, 1+rng.Intn((1<<len(dl))-1))
			}
		}
		for i, m := range masks {
			c := lib.NoCtl()
			for j, l := range dl {
				if m&(1<<j) != 0 {
					c.Skip = append(c.Skip, l)
				}
			}
			emit(out, fmt.Sprintf("%s.sk%d", base, i), tc, env, c, utext)
		}
	}
	// a few combinations (model correspondence only; the property speaks about each control alone)
	if nv > 2 {
		c := lib.NoCtl()
		c.Once = true
		c.NodeBudget = int64(1 + rng.Intn(nv))
		emit(out, base+".x1", tc, env, c, utext)
		c = lib.NoCtl()
		c.HasStart, c.Start = true, starts[rng.Intn(len(starts))]
		c.NodeBudget = int64(rng.Intn(nv + 1))
		c.LinkBudget = int64(rng.Intn(nl + 2))
		if len(dl) > 0 {
			c.Skip = []string{dl[rng.Intn(len(dl))]}
		}
		emit(out, base+".x2", tc, env, c, utext)
	}
	// config reuse: ONE Config value serves 2-4 consecutive walks whose controls differ (start path changed or
	// cleared, visit-once switched, budgets, skips); each walk must be the walk a Config of its own would give
	if nv > 1 {
		for h := 0; h < 2; h++ {
			var hist []lib.TravCtl
			steps := 2 + rng.Intn(3)
			for k := 0; k < steps; k++ {
				c := lib.NoCtl()
				switch rng.Intn(6) {
				case 0, 1:
					c.HasStart, c.Start = true, starts[rng.Intn(len(starts))]
				case 2:
					c.Once = true
				case 3:
					c.NodeBudget = int64(rng.Intn(nv + 1))
				case 4:
					if len(dl) > 0 {
						c.Skip = []string{dl[rng.Intn(len(dl))]}
					}
				}
				hist = append(hist, c)
			}
			if h == 0 { // always: a start path first, then another one or none
				hist[0] = lib.NoCtl()
				hist[0].HasStart, hist[0].Start = true, starts[len(starts)-1-rng.Intn((len(starts)+1)/2)]
				if rng.Bool() {
					hist[1] = lib.NoCtl()
				}
			}
			emitHistory(out, fmt.Sprintf("%s.h%d", base, h), tc, env, hist)
		}
	}
	return true
}

func emitHistory(out *lib.Out, id string, tc *lib.TravCase, env *lib.TravEnv, hist []lib.TravCtl) {
	sh := env.NewShared()
	var texts, shared, fresh []string
	for _, c := range hist {
		texts = append(texts, c.Text())
		evs, cls := sh.Run(c, false)
		shared = append(shared, lib.TraceText(evs, cls, true))
		evs, cls = env.Run(c, false)
		fresh = append(fresh, lib.TraceText(evs, cls, true))
	}
	out.Case(id, "c15h", tc.Sel.Text(), tc.Root.Text(), tc.BlocksText(), strings.Join(texts, "!"),
		"H"+strings.Join(shared, "#")+";F"+strings.Join(fresh, "#"))
}

func mustVal(s string) *lib.Val {
	v, err := lib.ParseVal(s)
	if err != nil {
		panic(err)
	}
	return v
}

// fixed corpus: a 3-block graph with a repeated link, walked by the usual selectors
func witnesses(out *lib.Out) {
	for i, tc := range lib.TravWitnesses() {
		env, err := tc.Open()
		if err != nil || env.SelErr != nil {
			panic("witness")
		}
		uevs, uclass := env.Run(lib.NoCtl(), false)
		utext := lib.TraceText(uevs, uclass, true)
		out.Case(fmt.Sprintf("k%d.u", i), "c15", tc.Sel.Text(), tc.Root.Text(), tc.BlocksText(), "u", "U"+utext+"#R"+utext)
	}
}

func corpus(out *lib.Out, rng *lib.Rng, thorough bool) {
	witnesses(out)
	gen := func() *lib.TravCase {
		tc := &lib.TravCase{}
		store := lib.NewTravStore()
		leaf := lib.Map(lib.Entry{K: "v", V: lib.Int(7)}, lib.Entry{K: "w", V: lib.List(lib.Str("hello"), lib.Bytes("xyz"))})
		c1, l1 := store.Put(leaf)
		mid := lib.Map(lib.Entry{K: "a", V: lib.Link(c1)}, lib.Entry{K: "b", V: lib.List(lib.Link(c1), lib.Int(1))})
		c2, l2 := store.Put(mid)
		tc.Blocks = []lib.TravBlock{{Cid: c1, Val: l1}, {Cid: c2, Val: l2}}
		tc.Root = lib.Map(lib.Entry{K: "x", V: lib.Link(c2)}, lib.Entry{K: "a", V: lib.Link(c1)}, lib.Entry{K: "l", V: lib.List(lib.Int(10), lib.Int(11), lib.Link(c2))})
		return tc
	}
	sels := []string{
		// R(none, |[., a>@])  : walk everything, match everything
		"m1 k52 m2 k6c m1 k6e6f6e65 m0 k3a3e m1 k7c a2 m1 k2e m0 m1 k61 m1 k3e m1 k40 m0",
		// R(depth 2, a>@)
		"m1 k52 m2 k6c m1 k6465707468 i2 k3a3e m1 k61 m1 k3e m1 k40 m0",
		// a > .
		"m1 k61 m1 k3e m1 k2e m0",
		// f{x: a>., l: r[0,2)>.}
		"m1 k66 m1 k663e m2 k78 m1 k61 m1 k3e m1 k2e m0 k6c m1 k72 m3 k5e i0 k24 i2 k3e m1 k2e m0",
		// |[ i1>., r[0,3)>. ] under f{l}
		"m1 k66 m1 k663e m1 k6c m1 k7c a2 m1 k69 m2 k69 i1 k3e m1 k2e m0 m1 k72 m3 k5e i0 k24 i3 k3e m1 k2e m0",
		// R(none, |[@, a>@]) : bare edge in a union (panics in the walk)
		"m1 k52 m2 k6c m1 k6e6f6e65 m0 k3a3e m1 k7c a2 m1 k40 m0 m1 k61 m1 k3e m1 k40 m0",
	}
	for i, s := range sels {
		tc := gen()
		tc.Sel = mustVal(s)
		runPair(out, rng, fmt.Sprintf("k%d", 10+i), tc, thorough)
	}
}

func main() {
	fl := lib.ParseFlags()
	out := lib.OpenOut(fl.Out)
	defer out.Close()
	thorough := fl.Tier == "thorough"
	if fl.Replay != "" {
		witnesses(out)
		for _, line := range lib.ReadLines(fl.Replay) {
			f := strings.Split(line, "\t")
			if len(f) >= 6 && f[1] == "c15h" {
				tc := &lib.TravCase{Sel: mustVal(f[2]), Root: mustVal(f[3])}
				var err error
				if tc.Blocks, err = lib.ParseBlocks(f[4]); err != nil {
					panic(err)
				}
				env, err := tc.Open()
				if err != nil || env.SelErr != nil {
					panic("history replay")
				}
				var hist []lib.TravCtl
				for _, t := range strings.Split(f[5], "!") {
					c, err := lib.ParseCtl(t)
					if err != nil {
						panic(err)
					}
					hist = append(hist, c)
				}
				emitHistory(out, f[0], tc, env, hist)
				continue
			}
			if len(f) < 6 || f[1] != "c15" {
				continue
			}
			tc := &lib.TravCase{Sel: mustVal(f[2]), Root: mustVal(f[3])}
			var err error
			if tc.Blocks, err = lib.ParseBlocks(f[4]); err != nil {
				panic(err)
			}
			env, err := tc.Open()
			if err != nil {
				panic(err)
			}
			if env.SelErr != nil {
				out.Case(f[0], "c15", f[2], f[3], f[4], f[5], "compile:"+env.CompileClass())
				continue
			}
			ctl, err := lib.ParseCtl(f[5])
			if err != nil {
				panic(err)
			}
			uevs, uclass := env.Run(lib.NoCtl(), false)
			emit(out, f[0], tc, env, ctl, lib.TraceText(uevs, uclass, true))
		}
		return
	}
	n := fl.N
	if n == 0 {
		n = 150
		if thorough {
			n = 15000
		}
	}
	rng := lib.NewRng(fl.Seed)
	corpus(out, rng, thorough)
	for i := 0; i < n; i++ {
		for {
			if rng.Chance(5) { // one compiled fields clause shared by unions formed at different depths
				tc := lib.GenSharedClauseCase(rng)
				if runPair(out, rng, fmt.Sprintf("p%d", i), tc, thorough) {
					break
				}
				continue
			}
			tc := lib.GenTravGraph(rng)
			sg := &lib.SelGen{R: rng, Cids: tc.AllCids(), Keys: tc.AllKeys(), MaxDepth: 1 + rng.Intn(5), BadPct: 1, BareEdgePct: 3}
			tc.Sel = sg.Top()
			if !lib.TravInteresting(rng, tc) {
				continue
			}
			if runPair(out, rng, fmt.Sprintf("p%d", i), tc, thorough) {
				break
			}
		}
	}
}
