// c18: fsstore writes are atomic — system-call trace, crash and fault enumeration on the real binary.
//
// Modes (first argument):
//   (none)   generate records: for every scenario x fault, run `c18 helper` under strace with the
//            fault injected, then run `c18 verify` (a NEW process) on the resulting directory.
//   helper   <base> <shard> <op> <keyhex> <chunkhex,...>   one Put / PutVec / PutStream+commit("")
//            between two marker system calls; prints the result class.
//   verify   <parent> <base> <shard> <keyhex>...           lists the tree, reads every key, then puts
//            and gets one more key.
//
// Config "<shard>,q<abc>[,x]": ",x" = the staging directory <base>/.temp is a symbolic link into ANOTHER
//         file system (renames out of it are refused by the kernel with EXDEV).
// Record: id, "<shard>,q<ab>", pre ("keyhex:contenthex" ...), op (put|vec|abort), keyhex,
//         chunks (hex,hex,..), fault (none | kill@j | err:<errno>@j), observation
// observation: <result> "|" <trace> "|" <verify>
//   result : ok | e:<errno> | killed
//   trace  : the file system calls the operation made, in order, e.g.
//            creat:B/2e74656d70/*:ok;write:5:ok;close:ok;lstat:B/6465/616263646566:enoent;rename:...
//   verify : init=<r>;<listing>;<keyhex>=<absent|b:hex|e:errno>...;put=<r>;get=<r>
//   op putc<n> = Put under a context whose Err() reports cancellation from its (n+1)-th call on (n >= 1:
//            PutStream's own check has passed; the tree under test does not look at the context again, so
//            the put completes — a Put that does look must still publish nothing or everything)
// Concurrency records: id, config, "conc", writers, keys, rounds, "-", observation = readers_ok | <what was seen>
// Two-store records:   id, config, "two", variant, "-", "-", "-", observation = two_ok | <what was seen>:
//            two Store values on ONE directory with streams open at the same time (another process
//            sharing the directory looks the same to the file system)
package main

import (
	"bytes"
	"context"
	"fmt"
	"os"
	"os/exec"
	"path/filepath"
	"regexp"
	"runtime"
	"strconv"
	"strings"
	"sync"

	"verifharness/lib"

	"github.com/ipld/go-ipld-prime/storage"
	"github.com/ipld/go-ipld-prime/storage/fsstore"
)

var ctx = context.Background()

func init() {
	if len(os.Args) > 1 && os.Args[1] == "helper" {
		runtime.LockOSThread() // every file system call of the operation comes from the main thread
	}
}

func splitChunks(s string) [][]byte {
	if s == "" {
		return nil
	}
	var out [][]byte
	for _, h := range strings.Split(s, ",") {
		out = append(out, []byte(lib.UnHex(h)))
	}
	return out
}

// cancelAfter is a context that starts to report cancellation after n calls of Err.
type cancelAfter struct {
	context.Context
	calls, n int
}

func (c *cancelAfter) Err() error {
	c.calls++
	if c.calls > c.n {
		return context.Canceled
	}
	return nil
}

func resTok(err error) string {
	if err == nil {
		return "ok"
	}
	return "e:" + lib.StoreErrClass(err)
}

func helper(args []string) {
	base, shard, op, key := args[0], args[1], args[2], lib.UnHex(args[3])
	chunks := splitChunks(args[4])
	st, err := lib.OpenFsStore(base, shard)
	if err != nil {
		fmt.Println("initfail")
		os.Exit(3)
	}
	os.Lstat("/c18-marker-begin")
	var res error
	switch {
	case strings.HasPrefix(op, "putc"):
		var c []byte
		if len(chunks) > 0 {
			c = chunks[0]
		}
		n, _ := strconv.Atoi(op[4:])
		res = st.Put(&cancelAfter{Context: ctx, n: n}, key, c)
	}
	switch op {
	case "put":
		var c []byte
		if len(chunks) > 0 {
			c = chunks[0]
		}
		res = st.Put(ctx, key, c)
	case "vec":
		res = storage.PutVec(ctx, st, key, chunks)
	case "abort":
		var w interface{ Write([]byte) (int, error) }
		var commit func(string) error
		w, commit, res = st.PutStream(ctx)
		if res == nil {
			for _, c := range chunks {
				if _, res = w.Write(c); res != nil {
					break
				}
			}
			if res == nil {
				res = commit("")
			}
		}
	}
	os.Lstat("/c18-marker-end")
	fmt.Println(resTok(res))
}

func verify(args []string) {
	parent, base, shard := args[0], args[1], args[2]
	var sb strings.Builder
	st := &fsstore.Store{}
	var err error
	st, err = lib.OpenFsStore(base, shard)
	sb.WriteString("init=" + resTok(err))
	sb.WriteString(";" + lib.ListTree(parent))
	for _, kh := range args[3:] {
		b, err := st.Get(ctx, lib.UnHex(kh))
		switch {
		case err == nil:
			sb.WriteString(";" + kh + "=b:" + lib.Hex(string(b)))
		case lib.StoreErrClass(err) == "enoent":
			sb.WriteString(";" + kh + "=absent")
		default:
			sb.WriteString(";" + kh + "=e:" + lib.StoreErrClass(err))
		}
	}
	perr := st.Put(ctx, "afterwards", []byte("AFTER"))
	sb.WriteString(";put=" + resTok(perr))
	b, gerr := st.Get(ctx, "afterwards")
	if gerr == nil {
		sb.WriteString(";get=b:" + lib.Hex(string(b)))
	} else {
		sb.WriteString(";get=e:" + lib.StoreErrClass(gerr))
	}
	fmt.Println(sb.String())
}

// ------------------------------------------------------------------ strace parsing

type sysEv struct {
	name string // raw system call name
	text string // canonical event ("" = not part of the model's trace)
}

var (
	reLine   = regexp.MustCompile(`^(\d+)\s+(\w+)\((.*)\)\s+= (\S+)(.*)$`)
	reUnfin  = regexp.MustCompile(`^(\d+)\s+(\w+)\((.*)$`)
	reStr    = regexp.MustCompile(`"((?:[^"\\]|\\.)*)"`)
	errNames = map[string]string{"ENOENT": "enoent", "ENOTDIR": "enotdir", "EISDIR": "eisdir", "EEXIST": "eexist",
		"ENOTEMPTY": "enotempty", "ENAMETOOLONG": "enametoolong", "EINVAL": "einval", "EIO": "eio", "ENOSPC": "enospc", "EACCES": "eacces", "EXDEV": "exdev"}
)

func unescape(s string) string {
	// strace -x is not used; paths of our scenarios are plain ASCII. Handle \\ and \" only.
	s = strings.ReplaceAll(s, `\"`, `"`)
	return strings.ReplaceAll(s, `\\`, `\`)
}

func relPath(base, p string) string {
	if p == base {
		return "B"
	}
	if !strings.HasPrefix(p, base+"/") {
		return "OUT:" + lib.Hex(p)
	}
	comps := strings.Split(p[len(base)+1:], "/")
	out := []string{"B"}
	for i, c := range comps {
		if i == 1 && comps[0] == ".temp" && len(c) == 16 {
			out = append(out, "*")
		} else {
			out = append(out, lib.Hex(c))
		}
	}
	return strings.Join(out, "/")
}

func retTok(ret, rest string) string {
	if ret == "-1" {
		f := strings.Fields(rest)
		if len(f) > 0 {
			if n, ok := errNames[f[0]]; ok {
				return n
			}
		}
		return "eother"
	}
	return "ok"
}

// parseTrace returns the events of the main thread between the two markers; complete=false if the
// end marker was not reached (the process was killed).
func parseTrace(path, base string) (evs []sysEv, before []string, complete bool) {
	b, err := os.ReadFile(path)
	if err != nil {
		return nil, nil, false
	}
	mainPid := ""
	in := false
	staging := map[string]bool{} // descriptors of staging files
	for _, line := range strings.Split(string(b), "\n") {
		m := reLine.FindStringSubmatch(line)
		if m == nil {
			if u := reUnfin.FindStringSubmatch(line); u != nil && mainPid == "" {
				mainPid = u[1]
			}
			continue
		}
		pid, name, args, ret, rest := m[1], m[2], m[3], m[4], m[5]
		if mainPid == "" {
			mainPid = pid
		}
		if pid != mainPid {
			continue
		}
		strs := reStr.FindAllStringSubmatch(args, -1)
		arg := func(i int) string {
			if i < len(strs) {
				return unescape(strs[i][1])
			}
			return ""
		}
		if name == "newfstatat" && arg(0) == "/c18-marker-begin" {
			in = true
			before = append(before, name) // the marker is itself an invocation of newfstatat
			continue
		}
		if name == "newfstatat" && arg(0) == "/c18-marker-end" {
			return evs, before, true
		}
		if !in {
			before = append(before, name)
			continue
		}
		if ret == "?" {
			continue // the call during whose entry the process was killed: not executed
		}
		r := retTok(ret, rest)
		ev := sysEv{name: name}
		switch name {
		case "openat":
			if strings.Contains(args, "O_EXCL") {
				ev.text = "creat:" + relPath(base, arg(0)) + ":" + r
				if r == "ok" {
					staging[ret] = true
				}
			} else {
				ev.text = "open:" + relPath(base, arg(0)) + ":" + r
			}
		case "write":
			fd := strings.SplitN(args, ",", 2)[0]
			if staging[fd] {
				n := strings.TrimSpace(args[strings.LastIndex(args, ",")+1:])
				ev.text = "write:" + n + ":" + r
			}
		case "close":
			fd := strings.TrimSpace(args)
			if staging[fd] {
				ev.text = "close:" + r
				if r == "ok" {
					delete(staging, fd)
				}
			}
		case "newfstatat":
			if strings.Contains(args, "AT_SYMLINK_NOFOLLOW") {
				ev.text = "lstat:" + relPath(base, arg(0)) + ":" + r
			} else {
				ev.text = "stat:" + relPath(base, arg(0)) + ":" + r
			}
		case "renameat", "renameat2":
			ev.text = "rename:" + relPath(base, arg(0)) + ":" + relPath(base, arg(1)) + ":" + r
		case "mkdirat":
			ev.text = "mkdir:" + relPath(base, arg(0)) + ":" + r
		case "unlinkat":
			if strings.Contains(args, "AT_REMOVEDIR") {
				ev.text = "" // os.Remove's second attempt (rmdir) after a failed unlink: same model step
			} else {
				ev.text = "unlink:" + relPath(base, arg(0)) + ":" + r
			}
		default:
			// anything else the operation does to the file system is not in the model: show it
			ev.text = "sys:" + name + ":" + r
		}
		evs = append(evs, ev)
	}
	return evs, before, false
}

func traceText(evs []sysEv) string {
	var out []string
	for _, e := range evs {
		if e.text != "" {
			out = append(out, e.text)
		}
	}
	return strings.Join(out, ";")
}

const traceSet = "trace=openat,write,close,renameat,renameat2,mkdirat,unlinkat,newfstatat,copy_file_range,sendfile,splice,linkat,symlinkat,ftruncate,truncate,pwrite64,writev"

type scenario struct {
	xdev     bool // staging directory on another file system
	noFaults bool // only the fault-free run
	shard    string
	pre    [][2]string // key, content (stored by the harness itself before the traced operation)
	op     string
	key    string
	chunks []string
}

func (sc *scenario) chunkHex() string {
	h := make([]string, len(sc.chunks))
	for i, c := range sc.chunks {
		h[i] = lib.Hex(c)
	}
	return strings.Join(h, ",")
}

func (sc *scenario) preText() string {
	var out []string
	for _, p := range sc.pre {
		out = append(out, lib.Hex(p[0])+":"+lib.Hex(p[1]))
	}
	return strings.Join(out, " ")
}

// runOne sets up a sandbox with the pre-state, runs the helper under strace with the fault, then the
// verifier; returns the observation and the parsed baseline events (for fault enumeration).
func runOne(self string, sc *scenario, inject string) (string, []sysEv, []string) {
	parent, base := lib.NewSandbox("c18")
	defer os.RemoveAll(parent)
	st, err := lib.OpenFsStore(base, sc.shard)
	if err != nil {
		panic(err)
	}
	for _, p := range sc.pre {
		if err := st.Put(ctx, p[0], []byte(p[1])); err != nil {
			panic(err)
		}
	}
	if sc.xdev {
		shm := crossStaging(base)
		defer os.RemoveAll(shm)
	}
	tr := filepath.Join(parent, "strace.out")
	args := []string{"-f", "-qq", "-e", traceSet, "-e", "signal=none", "-o", tr}
	if inject != "" {
		args = append(args, "-e", "inject="+inject)
	}
	args = append(args, self, "helper", base, sc.shard, sc.op, lib.Hex(sc.key), sc.chunkHex())
	var stdout bytes.Buffer
	cmd := exec.Command("strace", args...)
	cmd.Stdout = &stdout
	cmd.Run()
	evs, before, complete := parseTrace(tr, base)
	os.Remove(tr)
	result := strings.TrimSpace(stdout.String())
	if !complete || result == "" {
		result = "killed"
	}
	keys := []string{}
	seen := map[string]bool{}
	for _, p := range sc.pre {
		if !seen[p[0]] {
			seen[p[0]] = true
			keys = append(keys, lib.Hex(p[0]))
		}
	}
	if sc.op != "abort" && !seen[sc.key] {
		keys = append(keys, lib.Hex(sc.key))
	}
	vargs := append([]string{"verify", parent, base, sc.shard}, keys...)
	vout, _ := exec.Command(self, vargs...).Output()
	return result + "|" + traceText(evs) + "|" + strings.TrimSpace(string(vout)), evs, before
}

var secondFs string

// crossStaging replaces the (empty) staging directory by a symbolic link to a fresh directory on
// another file system and returns that directory.
func crossStaging(base string) string {
	shm, err := os.MkdirTemp(secondFs, "c18x")
	if err != nil {
		panic(err)
	}
	if err := os.Remove(filepath.Join(base, ".temp")); err != nil {
		panic(err)
	}
	if err := os.Symlink(shm, filepath.Join(base, ".temp")); err != nil {
		panic(err)
	}
	return shm
}

func (sc *scenario) config(quirks string) string {
	c := sc.shard + ",q" + quirks
	if sc.xdev {
		c += ",x"
	}
	return c
}

// whenFor: the invocation count (1-based, main thread) of the j-th in-scope system call
func whenFor(evs []sysEv, before []string, j int) (string, int) {
	name := evs[j].name
	n := 0
	for _, b := range before {
		if b == name {
			n++
		}
	}
	for i := 0; i <= j; i++ {
		if evs[i].name == name {
			n++
		}
	}
	return name, n
}

type job struct {
	id     string
	sc     *scenario
	fault  string
	inject string
	obs    string
}

func scenarios(tier string, n int) []*scenario {
	var out []*scenario
	content := "hello, block"
	big := strings.Repeat("0123456789abcdef", 64)
	shards := []string{"r12", "r122", "r133"}
	for si, sh := range shards {
		key := "abcdefgh"
		sameShard := "XXXdefgh" // shares every shard directory with key
		pres := [][][2]string{
			nil,                          // empty store: mkdir-on-ENOENT path
			{{sameShard, "neighbour"}},   // shard directories exist
			{{key, content}},             // the key is already stored with this content
			{{"zzzzzzzz", "other"}},      // an unrelated key
		}
		for pi, pre := range pres {
			ops := []struct {
				op     string
				chunks []string
			}{
				{"put", []string{content}},
				{"vec", []string{content[:5], content[5:7], content[7:]}},
				{"abort", []string{content[:5], content[5:]}},
				{"put", []string{""}},
				{"put", []string{big}},
			}
			for oi, o := range ops {
				if tier != "thorough" {
					// quick: everything for r12; the other sharding functions on the empty store + one more
					if si > 0 && !(pi == 0 && oi <= 1 || pi == 1 && oi == 0) {
						continue
					}
					if oi >= 3 && pi != 0 {
						continue
					}
				}
				k := key
				if o.op == "put" && o.chunks[0] == "" {
					k = "emptyblk"
				}
				if o.op == "put" && o.chunks[0] == big {
					k = "bigblock"
				}
				c := content
				if k != key {
					c = o.chunks[0]
				}
				p2 := pre
				if pi == 2 {
					p2 = [][2]string{{k, c}}
				}
				out = append(out, &scenario{shard: sh, pre: p2, op: o.op, key: k, chunks: o.chunks})
			}
		}
	}
	if n > 0 && n < len(out) {
		out = out[:n]
	}
	// the staging directory on another file system: every fault again
	if secondFs != "" {
		key := "abcdefgh"
		for si, sh := range shards {
			if tier != "thorough" && si > 0 {
				break
			}
			out = append(out,
				&scenario{xdev: true, shard: sh, op: "put", key: key, chunks: []string{content}},
				&scenario{xdev: true, shard: sh, pre: [][2]string{{"XXXdefgh", "neighbour"}}, op: "put", key: key, chunks: []string{big}},
				&scenario{xdev: true, shard: sh, pre: [][2]string{{key, content}}, op: "vec", key: key, chunks: []string{content[:5], content[5:]}})
			if tier == "thorough" {
				out = append(out,
					&scenario{xdev: true, shard: sh, op: "abort", key: key, chunks: []string{content}},
					&scenario{xdev: true, shard: sh, pre: [][2]string{{"zzzzzzzz", "other"}}, op: "vec", key: key, chunks: []string{big, content}})
			}
		}
	}
	// Put under a context that is cancelled while the put is under way (fault-free runs only)
	for _, sh := range shards {
		for _, op := range []string{"putc1", "putc2", "putc5"} {
			for _, c := range []string{content, big} {
				out = append(out, &scenario{noFaults: true, shard: sh, op: op, key: "cancelled", chunks: []string{c}})
			}
			if tier != "thorough" {
				break
			}
		}
	}
	return out
}

// runTwo: two Store values on one directory, their writes interleaved in one goroutine.
func runTwo(out *lib.Out, id, config, variant string) {
	shard := strings.Split(config, ",")[0]
	parent, base := lib.NewSandbox("c18")
	defer os.RemoveAll(parent)
	obs := "two_ok"
	err := lib.Safely(func() error {
		st1, e1 := lib.OpenFsStore(base, shard)
		st2, e2 := lib.OpenFsStore(base, shard)
		if e1 != nil || e2 != nil {
			return fmt.Errorf("init")
		}
		a := []byte(strings.Repeat("AAAAaaaa", 40))
		b := []byte(strings.Repeat("Bb", 300))
		ka, kb := "twokey-a", "twokey-b"
		if variant == "samekey" {
			kb = ka
		}
		var ea, eb error
		switch variant {
		case "streams", "samekey":
			w1, c1, err := st1.PutStream(ctx)
			if err != nil {
				return err
			}
			w2, c2, err := st2.PutStream(ctx)
			if err != nil {
				return err
			}
			w1.Write(a[:100])
			w2.Write(b[:100])
			w1.Write(a[100:])
			w2.Write(b[100:])
			ea = c1(ka)
			eb = c2(kb)
		case "abort-then-put":
			// an aborted stream must leave nothing behind that a later put could pick up
			w2, c2, err := st2.PutStream(ctx)
			if err != nil {
				return err
			}
			w2.Write(b[:100])
			w2.Write(b[100:])
			if err := c2(""); err != nil && lib.StoreErrClass(err) != "eemptykey" {
				return err
			}
			ea = st1.Put(ctx, ka, a)
			eb = st2.Put(ctx, kb, b)
		case "put-inside-stream":
			w2, c2, err := st2.PutStream(ctx)
			if err != nil {
				return err
			}
			w2.Write(b[:100])
			ea = st1.Put(ctx, ka, a)
			w2.Write(b[100:])
			eb = c2(kb)
		}
		rd, _ := lib.OpenFsStore(base, shard)
		check := func(k string, want [][]byte, acked bool) string {
			got, err := rd.Get(ctx, k)
			if err != nil {
				if acked {
					return "acked_lost"
				}
				return ""
			}
			for _, w := range want {
				if bytes.Equal(got, w) {
					return ""
				}
			}
			return fmt.Sprintf("mixed_block:len%d", len(got))
		}
		var bad []string
		if variant == "samekey" {
			if s := check(ka, [][]byte{a, b}, ea == nil || eb == nil); s != "" {
				bad = append(bad, s)
			}
		} else {
			if s := check(ka, [][]byte{a}, ea == nil); s != "" {
				bad = append(bad, s)
			}
			if s := check(kb, [][]byte{b}, eb == nil); s != "" {
				bad = append(bad, s)
			}
		}
		if ea != nil {
			bad = append(bad, "first_writer_failed:"+lib.StoreErrClass(ea))
		}
		if eb != nil {
			bad = append(bad, "second_writer_failed:"+lib.StoreErrClass(eb))
		}
		if len(bad) > 0 {
			obs = strings.Join(bad, ",")
		}
		return nil
	})
	if err != nil {
		obs = "two_error:" + lib.StoreErrClass(err)
	}
	out.Case(id, config, "two", variant, "-", "-", "-", obs)
}

func runConc(out *lib.Out, id, config string, writers, nkeys, rounds int) {
	shard := strings.Split(config, ",")[0]
	parent, base := lib.NewSandbox("c18")
	defer os.RemoveAll(parent)
	st, err := lib.OpenFsStore(base, shard)
	if err != nil {
		panic(err)
	}
	xdev := strings.HasSuffix(config, ",x")
	if xdev {
		if secondFs == "" {
			return
		}
		shm := crossStaging(base)
		defer os.RemoveAll(shm)
	}
	contentOf := func(k int) []byte {
		return []byte(strings.Repeat(fmt.Sprintf("block-%04d|", k), 4000+k)) // ~44 KB: several write() calls would be needed to tear it
	}
	keyOf := func(k int) string { return fmt.Sprintf("conckey%04d", k) }
	var mu sync.Mutex
	bad := ""
	report := func(s string) {
		mu.Lock()
		if bad == "" {
			bad = s
		}
		mu.Unlock()
	}
	stop := make(chan struct{})
	var wg, rg sync.WaitGroup
	for r := 0; r < 4; r++ {
		rg.Add(1)
		go func(r int) {
			defer rg.Done()
			for i := 0; ; i++ {
				select {
				case <-stop:
					return
				default:
				}
				k := (i + r) % nkeys
				b, err := st.Get(ctx, keyOf(k))
				if err != nil {
					if c := lib.StoreErrClass(err); c != "enoent" {
						report("reader_error:" + c)
					}
					continue
				}
				if !bytes.Equal(b, contentOf(k)) {
					report(fmt.Sprintf("partial_read:key%d:len%d", k, len(b)))
				}
			}
		}(r)
	}
	for w := 0; w < writers; w++ {
		wg.Add(1)
		go func(w int) {
			defer wg.Done()
			for i := 0; i < rounds; i++ {
				k := (i*7 + w) % nkeys
				var err error
				if (i+w)%2 == 0 {
					err = st.Put(ctx, keyOf(k), contentOf(k))
				} else {
					c := contentOf(k)
					err = storage.PutVec(ctx, st, keyOf(k), [][]byte{c[:100], c[100:20000], c[20000:]})
				}
				if err != nil {
					// two first writers of one shard directory: the loser's mkdir reports EEXIST and its
					// put fails (observed; the key is then simply not stored by that writer)
					// (with the staging directory on another file system every put is refused with EXDEV)
					if c := lib.StoreErrClass(err); c != "eexist" && !(xdev && c == "exdev") {
						report("writer_error:" + c)
					}
				}
			}
		}(w)
	}
	wg.Wait()
	close(stop)
	rg.Wait()
	// afterwards every key that exists is complete
	for k := 0; k < nkeys; k++ {
		b, err := st.Get(ctx, keyOf(k))
		if err == nil && !bytes.Equal(b, contentOf(k)) {
			report(fmt.Sprintf("partial_after:key%d", k))
		}
	}
	obs := "readers_ok"
	if bad != "" {
		obs = bad
	}
	out.Case(id, config, "conc", strconv.Itoa(writers), strconv.Itoa(nkeys), strconv.Itoa(rounds), "-", obs)
}

func main() {
	if len(os.Args) > 1 && os.Args[1] == "helper" {
		helper(os.Args[2:])
		return
	}
	if len(os.Args) > 1 && os.Args[1] == "verify" {
		verify(os.Args[2:])
		return
	}
	fl := lib.ParseFlags()
	out := lib.OpenOut(fl.Out)
	defer out.Close()
	self, err := os.Executable()
	if err != nil {
		panic(err)
	}
	if wd, err := os.Getwd(); err == nil {
		os.MkdirAll(filepath.Join(wd, "build"), 0777)
		secondFs = lib.SecondFs(filepath.Join(wd, "build"))
	}
	quirks := lib.ProbeQuirks() + probeMkdirExist(self)
	emit := func(j *job) {
		out.Case(j.id, j.sc.config(quirks), j.sc.preText(), j.sc.op, lib.Hex(j.sc.key), j.sc.chunkHex(), j.fault, j.obs)
	}
	if fl.Replay != "" {
		for _, line := range lib.ReadLines(fl.Replay) {
			f := strings.Split(line, "\t")
			if len(f) < 7 {
				continue
			}
			if f[2] == "two" {
				runTwo(out, f[0], f[1], f[3])
				continue
			}
			if f[2] == "conc" {
				w, _ := strconv.Atoi(f[3])
				k, _ := strconv.Atoi(f[4])
				r, _ := strconv.Atoi(f[5])
				runConc(out, f[0], f[1], w, k, r)
				continue
			}
			sc := &scenario{shard: strings.Split(f[1], ",")[0], op: f[3], key: lib.UnHex(f[4]), xdev: strings.HasSuffix(f[1], ",x")}
			if sc.xdev && secondFs == "" {
				continue
			}
			for _, p := range strings.Fields(f[2]) {
				kv := strings.SplitN(p, ":", 2)
				sc.pre = append(sc.pre, [2]string{lib.UnHex(kv[0]), lib.UnHex(kv[1])})
			}
			for _, c := range splitChunks(f[5]) {
				sc.chunks = append(sc.chunks, string(c))
			}
			if f[5] != "" && len(sc.chunks) == 0 {
				sc.chunks = []string{""}
			}
			inject := ""
			if f[6] != "none" {
				_, evs, before := runOne(self, sc, "")
				at := strings.LastIndex(f[6], "@")
				j, _ := strconv.Atoi(f[6][at+1:])
				if j < len(evs) {
					name, when := whenFor(evs, before, j)
					if strings.HasPrefix(f[6], "kill") {
						inject = fmt.Sprintf("%s:signal=SIGKILL:when=%d", name, when)
					} else {
						inject = fmt.Sprintf("%s:error=%s:when=%d", name, strings.ToUpper(f[6][4:at]), when)
					}
				}
			}
			obs, _, _ := runOne(self, sc, inject)
			emit(&job{id: f[0], sc: sc, fault: f[6], obs: obs})
		}
		return
	}
	if os.Getenv("C18_MODE") == "conc" {
		// only the concurrent part (run from a -race build by vlib/props/c18.py)
		n := 6
		rounds := 80
		if fl.Tier == "thorough" {
			n, rounds = 18, 400
		}
		for i := 0; i < n; i++ {
			sh := []string{"r12", "r122", "r133"}[i%3]
			runConc(out, fmt.Sprintf("race%d", i), sh+",q"+quirks, 4+i%4, 3+i%4, rounds)
		}
		return
	}
	var jobs []*job
	scs := scenarios(fl.Tier, fl.N)
	// baselines first (sequentially cheap), then all faults in parallel
	type base struct {
		evs    []sysEv
		before []string
	}
	bases := make([]base, len(scs))
	parallel(len(scs), func(i int) {
		obs, evs, before := runOne(self, scs[i], "")
		bases[i] = base{evs, before}
		_ = obs
	})
	for i, sc := range scs {
		jobs = append(jobs, &job{id: fmt.Sprintf("s%d.none", i), sc: sc, fault: "none"})
		if sc.noFaults {
			continue
		}
		evs := bases[i].evs
		for j := range evs {
			if evs[j].text == "" {
				continue
			}
			// index in the model's numbering = position among the events that have a text
			mj := 0
			for x := 0; x < j; x++ {
				if evs[x].text != "" {
					mj++
				}
			}
			name, when := whenFor(evs, bases[i].before, j)
			jobs = append(jobs, &job{id: fmt.Sprintf("s%d.kill%d", i, mj), sc: sc, fault: fmt.Sprintf("kill@%d", mj),
				inject: fmt.Sprintf("%s:signal=SIGKILL:when=%d", name, when)})
			errs := []string{"eio"}
			switch name {
			case "write", "renameat", "mkdirat", "openat":
				errs = []string{"eio", "enospc", "eacces"}
			}
			if name == "openat" {
				errs = append(errs, "eexist")
			}
			if name == "renameat" {
				errs = append(errs, "enoent")
			}
			if name == "mkdirat" {
				errs = append(errs, "eexist") // what the loser of two racing first writers sees
			}
			for _, e := range errs {
				jobs = append(jobs, &job{id: fmt.Sprintf("s%d.%s%d", i, e, mj), sc: sc, fault: fmt.Sprintf("err:%s@%d", e, mj),
					inject: fmt.Sprintf("%s:error=%s:when=%d", name, strings.ToUpper(e), when)})
			}
		}
	}
	parallel(len(jobs), func(i int) {
		j := jobs[i]
		j.obs, _, _ = runOne(self, j.sc, j.inject)
	})
	for _, j := range jobs {
		emit(j)
	}
	// two stores on one directory
	for i, v := range []string{"streams", "samekey", "put-inside-stream", "abort-then-put"} {
		for j, sh := range []string{"r12", "r122", "r133"} {
			runTwo(out, fmt.Sprintf("two%d.%d", i, j), sh+",q"+quirks, v)
		}
	}
	// concurrent writers and readers
	nconc := 3
	rounds := 60
	if fl.Tier == "thorough" {
		nconc, rounds = 12, 300
	}
	for i := 0; i < nconc; i++ {
		sh := []string{"r12", "r122", "r133"}[i%3]
		runConc(out, fmt.Sprintf("conc%d", i), sh+",q"+quirks, 6, 5+i%3, rounds)
	}
	if secondFs != "" {
		for i := 0; i < nconc; i++ {
			sh := []string{"r12", "r122", "r133"}[i%3]
			runConc(out, fmt.Sprintf("concx%d", i), sh+",q"+quirks+",x", 6, 3, rounds)
		}
	}
}

// probeMkdirExist: does a Put fail when os.Mkdir of the shard directory reports EEXIST (another
// writer made it first)?  "1" = yes (the tree as pinned), "0" = haveDir accepts an existing directory.
func probeMkdirExist(self string) string {
	sc := &scenario{shard: "r12", op: "put", key: "probekey", chunks: []string{"x"}}
	_, evs, before := runOne(self, sc, "")
	for j := range evs {
		if evs[j].name == "mkdirat" {
			name, when := whenFor(evs, before, j)
			obs, _, _ := runOne(self, sc, fmt.Sprintf("%s:error=EEXIST:when=%d", name, when))
			// pinned: the put fails with that EEXIST. Repaired: haveDir accepts it and the rename is
			// tried again (and, the directory not really being there under injection, reports ENOENT).
			if strings.HasPrefix(obs, "e:eexist|") {
				return "1"
			}
			return "0"
		}
	}
	return "1"
}

func parallel(n int, f func(i int)) {
	workers := runtime.NumCPU()
	if workers > 12 {
		workers = 12
	}
	var wg sync.WaitGroup
	ch := make(chan int)
	for w := 0; w < workers; w++ {
		wg.Add(1)
		go func() {
			defer wg.Done()
			for i := range ch {
				f(i)
			}
		}()
	}
	for i := 0; i < n; i++ {
		ch <- i
	}
	close(ch)
	wg.Wait()
}
