// c03: DAG-CBOR decoding is strict and denotes exactly the bytes it accepts.
// Record: id, "dec", opts, hex-input, observation
//   opts = s<0|1 strict> l<0|1 links> e<0|1 dontParseBeyondEnd> b<budget> d<maxdepth>
//   observation = ok:<dump>|rest:<n>   or   err:<class>
package main

import (
	"bytes"
	"fmt"
	"io"
	"testing/iotest"
	"strconv"
	"strings"

	"verifharness/lib"

	"github.com/ipld/go-ipld-prime/codec/cbor"
	"github.com/ipld/go-ipld-prime/codec/dagcbor"
	"github.com/ipld/go-ipld-prime/multicodec"
	"github.com/ipld/go-ipld-prime/datamodel"
	"github.com/ipld/go-ipld-prime/node/basicnode"
)

type opts struct {
	strict, links, beyond, perm bool
	budget, depth         int64
}

func (o opts) String() string {
	b := func(x bool) string {
		if x {
			return "1"
		}
		return "0"
	}
	return fmt.Sprintf("s%sl%se%sb%dd%dt%s", b(o.strict), b(o.links), b(o.beyond), o.budget, o.depth, b(o.perm))
}

func parseOpts(s string) opts {
	var o opts
	o.strict = s[1] == '1'
	o.links = s[3] == '1'
	o.beyond = s[5] == '1'
	rest := s[7:]
	i := strings.IndexByte(rest, 'd')
	j := strings.IndexByte(rest, 't')
	o.budget, _ = strconv.ParseInt(rest[:i], 10, 64)
	o.depth, _ = strconv.ParseInt(rest[i+1:j], 10, 64)
	o.perm = rest[j+1:] == "1"
	return o
}

func observe(o opts, in []byte) string {
	nb := basicnode.Prototype.Any.NewBuilder()
	pb := lib.NewPermBuilder()
	var na datamodel.NodeAssembler = nb
	if o.perm {
		// a permissive assembler that refuses nothing (in particular not repeated keys): what is
		// accepted here is accepted by the decoder itself
		na = pb.Assembler()
	}
	rd := bytes.NewReader(in)
	var src io.Reader = rd
	switch readerKind {
	case 1:
		src = struct{ io.Reader }{rd} // not an io.ByteReader / ByteScanner
	case 2:
		src = iotest.OneByteReader(rd)
	case 3:
		src = iotest.DataErrReader(struct{ io.Reader }{rd}) // last data arrives together with EOF
	case 4:
		src = io.MultiReader(bytes.NewReader(in[:len(in)/2]), struct{ io.Reader }{bytes.NewReader(in[len(in)/2:])})
	}
	err := lib.Safely(func() error {
		switch entryKind {
		case 1: // the package-level functions that are registered as the codecs
			if o.links {
				return dagcbor.Decode(na, src)
			}
			return cbor.Decode(na, src)
		case 2: // whatever the default multicodec registry hands out for 0x71 / 0x51
			code := uint64(0x71)
			if !o.links {
				code = 0x51
			}
			dec, err := multicodec.LookupDecoder(code)
			if err != nil {
				return err
			}
			return dec(na, src)
		}
		return dagcbor.DecodeOptions{AllowLinks: o.links, RelaxedDecode: !o.strict, DontParseBeyondEnd: o.beyond,
			AllocationBudget: o.budget, MaxDepth: o.depth}.Decode(na, src)
	})
	if err != nil {
		return "err:" + lib.CborErrClass(err)
	}
	var dump string
	perr := lib.Safely(func() error {
		if o.perm {
			if pb.Value() == nil {
				return fmt.Errorf("no value")
			}
			dump = pb.Value().Text()
		} else {
			dump = lib.Dump(nb.Build())
		}
		return nil
	})
	if perr != nil {
		return "err:panic-on-read"
	}
	rest := rd.Len()
	if readerKind == 4 || (o.beyond && readerKind != 0) {
		rest = -1 // not observable through these wrappers
	}
	return fmt.Sprintf("ok:%s|rest:%d", dump, rest)
}

// readerKind selects how the input reaches the decoder (0 = *bytes.Reader). Only used where the number
// of bytes left is either 0 by contract (stop-at-end off) or not observed.
var readerKind int

// entryKind selects the entry point: 0 = DecodeOptions{...}.Decode, 1 = dagcbor.Decode / cbor.Decode, 2 = the decoder
// registered in the default multicodec registry under 0x71 / 0x51.  1 and 2 are only used with the option settings
// those entry points stand for (strict, no stop-at-end, default budget and depth; links on = dag-cbor, off = cbor);
// the record then carries the suffix .e1 / .e2 on its id, which is all a replay needs.
var entryKind int

func entryOpts(o opts) bool {
	return o.strict && !o.beyond && o.budget == 0 && o.depth == 0 && !o.perm
}

var defaultOpts = opts{strict: true, links: true}

func main() {
	fl := lib.ParseFlags()
	out := lib.OpenOut(fl.Out)
	defer out.Close()
	nEntry := 0
	emit := func(id string, o opts, in []byte) {
		if strings.HasSuffix(id, ".e1") || strings.HasSuffix(id, ".e2") { // replayed entry-point record
			entryKind = int(id[len(id)-1] - '0')
			out.Case(id, "dec", o.String(), lib.Hex(string(in)), observe(o, in))
			entryKind = 0
			return
		}
		out.Case(id, "dec", o.String(), lib.Hex(string(in)), observe(o, in))
		if fl.Replay == "" && entryOpts(o) && readerKind == 0 {
			nEntry++
			if strings.HasPrefix(id, "k") || nEntry%5 == 0 {
				// the same input through the registered entry points, as dag-cbor and as plain cbor (links refused)
				for _, lk := range []bool{true, false} {
					o2 := o
					o2.links = lk
					for ek := 1; ek <= 2; ek++ {
						entryKind = ek
						l := "1"
						if !lk {
							l = "0"
						}
						out.Case(fmt.Sprintf("%s.l%s.e%d", id, l, ek), "dec", o2.String(), lib.Hex(string(in)), observe(o2, in))
					}
				}
				entryKind = 0
			}
		}
	}
	if fl.Replay != "" {
		for _, line := range lib.ReadLines(fl.Replay) {
			f := strings.Split(line, "\t")
			if len(f) < 4 || f[1] != "dec" {
				continue
			}
			emit(f[0], parseOpts(f[2]), []byte(lib.UnHex(f[3])))
		}
		return
	}
	n := fl.N
	if n == 0 {
		n = 6000
	}
	id := 0
	next := func(p string) string { id++; return fmt.Sprintf("%s%d", p, id) }
	// corpus: witnesses of past findings and rule-by-rule probes
	for _, h := range []string{"c101", "d82a01", "c1a0", "c180", "c16161", "c1f6", "c1f5", "c1fb3ff0000000000000", "a1c1616101", "d82a4100",
		"3bffffffffffffffff", "3b8000000000000000", "3b7fffffffffffffff", "1bffffffffffffffff", "1b8000000000000000",
		"f97e00", "f97c00", "fa7fc00000", "fb7ff8000000000000", "fb7ff0000000000000", "f93c00", "fa3f800000", "f90001", "f98001", "f903ff", "f90400",
		"1817", "1818", "190000", "1900ff", "190100", "1a0000ffff", "1a00010000", "1b00000000ffffffff", "1b0000000100000000",
		"5f4101ff", "7f6161ff", "9f01ff", "bf616101ff", "ff", "f7", "f6", "f8", "f800", "f820", "e0", "f0", "f3",
		"a2616101616102", "a2616201616101", "a10101", "a1410101", "8201", "820102", "82010203", "a1616101ff", "00ff", "0000",
		"d82a582500017112200000000000000000000000000000000000000000000000000000000000000000", "d82a5825000171122000",
		"d82a58250101711220" + strings.Repeat("00", 32), "d82a4400017100", "d82a450001710000", "d82a6400017100", "d9002a4400017100", "d82ad82a4400017100",
		"7b0000000004000000", "5b0000000002000001", "9b0000000010000000", "bb7fffffffffffffff", "9b8000000000000000", "1c", "1f", "3f", "dc", "df",
		"", "81", "a1", "a16161", "6261", "4261", "d8", "d82a", "c1"} {
		emit(next("k"), defaultOpts, []byte(lib.UnHex(h)))
		emit(next("k"), opts{strict: false, links: true}, []byte(lib.UnHex(h)))
		emit(next("k"), opts{strict: true, links: false}, []byte(lib.UnHex(h)))
		emit(next("k"), opts{strict: true, links: true, perm: true}, []byte(lib.UnHex(h)))
	}
	// duplicate keys in every position pattern, into the permissive assembler (strict mode must refuse all)
	for _, h := range []string{"a2616101616102", "a3616101616202616103", "a3616201616102616203", "a3616101616101616202", "a3616101616202616202",
		"a46161016162026163036161 04", "a4616301616201616101616302", "a26001600 2", "a2616101a2616201616202", "a1616181a2616101616102", "a36162016161026162 03"} {
		emit(next("d"), opts{strict: true, links: true, perm: true}, []byte(lib.UnHex(strings.ReplaceAll(h, " ", ""))))
		emit(next("d"), opts{strict: true, links: true}, []byte(lib.UnHex(strings.ReplaceAll(h, " ", ""))))
	}
	// exhaustive short strings (strict default; every 7th also relaxed)
	for a := 0; a < 256; a++ {
		emit(next("x"), defaultOpts, []byte{byte(a)})
		emit(next("x"), opts{strict: false, links: true}, []byte{byte(a)})
	}
	for a := 0; a < 65536; a++ {
		in := []byte{byte(a >> 8), byte(a)}
		emit(next("x"), defaultOpts, in)
		if a%7 == 0 {
			emit(next("x"), opts{strict: false, links: true}, in)
		}
	}
	// every binary16 pattern (ties the half->double widening of the model to Go exhaustively), relaxed so NaN/Inf pass
	for a := 0; a < 65536; a++ {
		emit(next("h"), opts{strict: false, links: true}, []byte{0xf9, byte(a >> 8), byte(a)})
	}
	rng := lib.NewRng(fl.Seed)
	// a sample of binary32 patterns, with the exponent extremes over-represented
	for i := 0; i < 20000; i++ {
		w := uint32(rng.U64())
		switch rng.Intn(4) {
		case 0:
			w &^= 0x7f800000 // subnormals / zero
		case 1:
			w |= 0x7f800000 // inf / nan
		}
		emit(next("s"), opts{strict: i%2 == 0, links: true}, []byte{0xfa, byte(w >> 24), byte(w >> 16), byte(w >> 8), byte(w)})
	}
	if fl.Tier == "thorough" {
		// a large sample of all 3- and 4-byte strings
		for i := 0; i < 1500000; i++ {
			in := []byte(rng.BytesN(3 + rng.Intn(2)))
			emit(next("y"), defaultOpts, in)
		}
		n *= 20
	}
	cfg := &lib.GenCfg{MaxDepth: 4, MaxWidth: 4, Links: true, UintBeyond: true, BadUTF8: true, NaNInf: true}
	budgets := []int64{0, 0, 0, 1, 5, 20, 60, 200, -3}
	depths := []int64{0, 0, 0, 1, 2, 3}
	wides := []int{13, 25, 257, 1023, 1024, 1025, 1100}
	for i := 0; i < n; i++ {
		v := rng.GenVal(cfg, 0)
		if i < 2*len(wides) { // wide containers first: per-position bookkeeping (depth, budget, seen keys)
			v = rng.GenWide(cfg, i%2, wides[i/2])
		}
		if v.Kind < lib.KList && i%3 != 0 {
			v = lib.List(v, rng.GenVal(cfg, 1))
		}
		// 1. structured near-valid encodings
		rate := []int{0, 3, 8, 20}[rng.Intn(4)]
		m := &lib.CborMut{R: rng, Rate: rate}
		m.Emit(v)
		in := m.Buf
		o := defaultOpts
		switch rng.Intn(8) {
		case 0:
			o.strict = false
		case 1:
			o.links = false
		case 2:
			o.beyond = true
			in = append(in, []byte(rng.BytesN(rng.Intn(3)))...)
		case 3:
			o.budget = budgets[rng.Intn(len(budgets))]
		case 4:
			o.depth = depths[rng.Intn(len(depths))]
		case 5:
			o.budget = budgets[rng.Intn(len(budgets))]
			o.depth = depths[rng.Intn(len(depths))]
			o.strict = rng.Bool()
		}
		base := next("g")
		emit(base, o, in)
		if o.strict {
			po := o
			po.perm = true
			emit(base+".p", po, in)
		}
		if !o.beyond {
			// the same input through other kinds of io.Reader: the verdict must not depend on the reader
			readerKind = 1 + rng.Intn(3)
			emit(fmt.Sprintf("%s.r%d", base, readerKind), o, in)
			ext := append(append([]byte{}, in...), byte(rng.U64()))
			emit(fmt.Sprintf("%s.rx%d", base, readerKind), o, ext)
			readerKind = 0
		}
		// 2. byte-level mutations of it
		for k := 0; k < 3; k++ {
			emit(fmt.Sprintf("%s.m%d", base, k), o, rng.ByteMutate(in, 1+rng.Intn(2)))
		}
		// 3. every truncation (short inputs) and an extension
		if len(in) <= 40 && i%4 == 0 {
			for t := 0; t < len(in); t++ {
				emit(fmt.Sprintf("%s.t%d", base, t), o, in[:t])
			}
			emit(base+".x", o, append(append([]byte{}, in...), byte(rng.U64())))
		}
	}
}
