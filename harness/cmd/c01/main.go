// c01: what is built through the builder API is exactly what the node API reads back.
// Record: id, "c01", proto, value, script, mutants (';'-separated values), observation
// observation = tr=<per-call letters>|b=<ok|P|->|t=<Dump>|r=<all read forms>|e=<DeepEqual twin+mutants>|c=<Copy targets>|y=<2nd AsBytes>
package main

import (
	"fmt"
	"math/big"
	"strings"

	"verifharness/lib"

	"github.com/ipld/go-ipld-prime/datamodel"
)

func kindProto(v *lib.Val) string {
	return [...]string{"any", "bool", "int", "float", "string", "bytes", "link", "list", "map"}[v.Kind]
}

// CopyTargets: the prototypes Copy is tried into, a function of the value alone (the drivers
// compute the same list).
func copyTargets(v *lib.Val) []string {
	ts := []string{"any"}
	if v.Kind != lib.KNull {
		ts = append(ts, kindProto(v))
	}
	if v.Kind == lib.KString {
		ts = append(ts, "int")
	} else {
		ts = append(ts, "string")
	}
	nullChild := false
	for _, x := range v.L {
		nullChild = nullChild || x.Kind == lib.KNull
	}
	for _, e := range v.M {
		nullChild = nullChild || e.V.Kind == lib.KNull
	}
	if v.Kind == lib.KMap && !nullChild {
		ts = append(ts, "bindmap")
	}
	if v.Kind == lib.KList && !nullChild {
		ts = append(ts, "bindlist")
	}
	return ts
}

func observe(proto string, v *lib.Val, ops []*lib.Op, mutants []*lib.Val) string {
	nb := lib.BuilderFor(proto)
	tr, ok := lib.Exec(nb, ops, false)
	if !ok {
		return "tr=" + tr + "|b=-|t=-|r=-|e=-|c=-|y=-"
	}
	var n datamodel.Node
	if err := lib.Safely(func() error { n = nb.Build(); return nil }); err != nil || n == nil {
		return "tr=" + tr + "|b=P|t=-|r=-|e=-|c=-|y=-"
	}
	var sb strings.Builder
	sb.WriteString("tr=" + tr + "|b=ok|t=")
	var dump string
	if err := lib.Safely(func() error { dump = lib.Dump(n); return nil }); err != nil {
		dump = "!P"
	}
	sb.WriteString(dump)
	if proto == "bytes" && len(ops) > 0 && ops[0].Code == "XN" {
		// the node may be a one-shot stream (known finding): read it exactly once more
		sb.WriteString("|r=-|e=-|c=-|y=")
		var second string
		if err := lib.Safely(func() error { second = lib.Dump(n); return nil }); err != nil {
			second = "!P"
		}
		sb.WriteString(second)
		return sb.String()
	}
	sb.WriteString("|r=" + lib.Reads(n))
	// DeepEqual against an independently built twin and against mutants
	sb.WriteString("|e=")
	for _, o := range append([]*lib.Val{v}, mutants...) {
		twin, err := lib.BuildBasic(o)
		if err != nil {
			sb.WriteString("B")
			continue
		}
		var eq bool
		if err := lib.Safely(func() error { eq = datamodel.DeepEqual(n, twin); return nil }); err != nil {
			sb.WriteString("P")
		} else if eq {
			sb.WriteString("T")
		} else {
			sb.WriteString("F")
		}
	}
	sb.WriteString("|c=")
	for _, t := range copyTargets(v) {
		tb := lib.BuilderFor(t)
		err := lib.Safely(func() error { return datamodel.Copy(n, tb) })
		sb.WriteString(t + ">")
		if err != nil {
			sb.WriteString("!" + lib.ErrLetter(err))
		} else {
			var d string
			if err := lib.Safely(func() error { d = lib.Dump(tb.Build()); return nil }); err != nil {
				d = "!P"
			}
			sb.WriteString("=" + d)
		}
		sb.WriteString(";")
	}
	sb.WriteString("|y=-")
	return sb.String()
}

// core: Build's node as Dump + every read form
func core(n datamodel.Node) string {
	var d string
	if err := lib.Safely(func() error { d = lib.Dump(n); return nil }); err != nil {
		d = "!P"
	}
	return "t=" + d + "|r=" + lib.Reads(n)
}

// observeReset: build v1, Reset() the SAME builder, build v2 with it, then read the FIRST node again.
// Record: id, "c01r", proto, v1, script1, v2, script2, observation
// observation = tr=..|b=..|t=..|r=..#rs=<letter>#tr=..|b=..|t=..|r=..#again:t=..|r=..#eq=<T|F|P>
func observeReset(proto string, ops1, ops2 []*lib.Op) string {
	nb := lib.BuilderFor(proto)
	var sb strings.Builder
	build := func(ops []*lib.Op) datamodel.Node {
		tr, ok := lib.Exec(nb, ops, false)
		if !ok {
			sb.WriteString("tr=" + tr + "|b=-|t=-|r=-")
			return nil
		}
		var n datamodel.Node
		if err := lib.Safely(func() error { n = nb.Build(); return nil }); err != nil || n == nil {
			sb.WriteString("tr=" + tr + "|b=P|t=-|r=-")
			return nil
		}
		sb.WriteString("tr=" + tr + "|b=ok|" + core(n))
		return n
	}
	n1 := build(ops1)
	if n1 == nil {
		return sb.String()
	}
	rerr := lib.Safely(func() error { nb.Reset(); return nil })
	sb.WriteString("#rs=" + lib.ErrLetter(rerr) + "#")
	if rerr != nil {
		return sb.String()
	}
	n2 := build(ops2)
	if n2 == nil {
		return sb.String()
	}
	sb.WriteString("#again:" + core(n1) + "#eq=")
	var eq bool
	if err := lib.Safely(func() error { eq = datamodel.DeepEqual(n1, n2); return nil }); err != nil {
		sb.WriteString("P")
	} else if eq {
		sb.WriteString("T")
	} else {
		sb.WriteString("F")
	}
	return sb.String()
}

func runReset(out *lib.Out, id, proto string, v1 *lib.Val, ops1 []*lib.Op, v2 *lib.Val, ops2 []*lib.Op) {
	out.Case(id, "c01r", proto, v1.Text(), lib.ScriptText(ops1), v2.Text(), lib.ScriptText(ops2), observeReset(proto, ops1, ops2))
}

func runCase(out *lib.Out, id, proto string, v *lib.Val, ops []*lib.Op, mutants []*lib.Val) {
	ms := make([]string, len(mutants))
	for i, m := range mutants {
		ms[i] = m.Text()
	}
	out.Case(id, "c01", proto, v.Text(), lib.ScriptText(ops), strings.Join(ms, ";"), observe(proto, v, ops, mutants))
}

func replay(out *lib.Out, path string) {
	for _, line := range lib.ReadLines(path) {
		f := strings.Split(line, "\t")
		if len(f) >= 7 && f[1] == "c01r" {
			v1, err := lib.ParseVal(f[3])
			if err != nil {
				panic(err)
			}
			ops1, err := lib.ParseScript(f[4])
			if err != nil {
				panic(err)
			}
			v2, err := lib.ParseVal(f[5])
			if err != nil {
				panic(err)
			}
			ops2, err := lib.ParseScript(f[6])
			if err != nil {
				panic(err)
			}
			runReset(out, f[0], f[2], v1, ops1, v2, ops2)
			continue
		}
		if len(f) < 6 || f[1] != "c01" {
			continue
		}
		v, err := lib.ParseVal(f[3])
		if err != nil {
			panic(err)
		}
		ops, err := lib.ParseScript(f[4])
		if err != nil {
			panic(err)
		}
		var mutants []*lib.Val
		if f[5] != "" {
			for _, m := range strings.Split(f[5], ";") {
				mv, err := lib.ParseVal(m)
				if err != nil {
					panic(err)
				}
				mutants = append(mutants, mv)
			}
		}
		runCase(out, f[0], f[2], v, ops, mutants)
	}
}

func main() {
	fl := lib.ParseFlags()
	out := lib.OpenOut(fl.Out)
	defer out.Close()
	lib.ProbeC01(out)
	if fl.Replay != "" {
		replay(out, fl.Replay)
		return
	}
	n := fl.N
	if n == 0 {
		n = 1500
		if fl.Tier == "thorough" {
			n = 60000
		}
	}
	rng := lib.NewRng(fl.Seed)
	id := 0
	next := func() string { id++; return fmt.Sprintf("c%d", id) }

	// ---- fixed corpus: boundary scalars through every route, witnesses of the known findings
	for _, i := range lib.IntPool {
		v := &lib.Val{Kind: lib.KInt, I: i}
		ops := lib.DirectScript(v)
		runCase(out, next(), "any", v, ops, []*lib.Val{lib.Int(7)})
		if i.Cmp(lib.Two63) < 0 {
			runCase(out, next(), "int", v, ops, nil)
		}
		runCase(out, next(), "any", lib.List(v), lib.DirectScript(lib.List(v)), []*lib.Val{lib.List()})
	}
	for _, f := range lib.FloatPool {
		v := lib.FloatBits(f)
		runCase(out, next(), "any", v, lib.DirectScript(v), []*lib.Val{lib.FloatBits(f ^ (1 << 63)), lib.FloatBits(0x7ff8000000000001)})
		runCase(out, next(), "float", v, lib.DirectScript(v), nil)
	}
	for _, f := range []uint64{0x7ff8000000000001, 0x7ff0000000000000, 0xfff0000000000000} {
		v := lib.FloatBits(f)
		runCase(out, next(), "any", v, lib.DirectScript(v), []*lib.Val{v})
	}
	for _, s := range lib.StrPool {
		v := lib.Map(lib.Entry{K: s, V: lib.Str(s)}, lib.Entry{K: s + "x", V: lib.Bytes(s)})
		runCase(out, next(), "any", v, lib.DirectScript(v), []*lib.Val{lib.Map(lib.Entry{K: s + "x", V: lib.Bytes(s)}, lib.Entry{K: s, V: lib.Str(s)})})
		runCase(out, next(), "map", v, lib.KeyValueScript(v), nil)
	}
	{ // list whose segments "01" / "1" address the same element; 12 elements for two-digit indices
		var l []*lib.Val
		for i := 0; i < 12; i++ {
			l = append(l, lib.Int(int64(i)*3))
		}
		v := lib.List(l...)
		runCase(out, next(), "any", v, lib.DirectScript(v), nil)
		runCase(out, next(), "list", v, lib.DirectScript(v), nil)
	}
	{ // known findings
		m := lib.Map(lib.Entry{K: "a", V: lib.Int(1)}, lib.Entry{K: "b", V: lib.Str("x")})
		runCase(out, next(), "map", m, []*lib.Op{{Code: "XN", N: &lib.NSpec{Tag: 'M', K: []string{"a", "b"}, L: []*lib.NSpec{lib.PlainSpec(lib.Int(1)), lib.PlainSpec(lib.Str("x"))}}}}, nil)
		runCase(out, next(), "map", lib.Map(), []*lib.Op{{Code: "XN", N: &lib.NSpec{Tag: 'M'}}}, nil)
		runCase(out, next(), "map", m, []*lib.Op{{Code: "XN", N: lib.PlainSpec(m)}}, nil)
		b := lib.Bytes("abc")
		runCase(out, next(), "bytes", b, []*lib.Op{{Code: "XN", N: lib.PlainSpec(b)}}, nil)
		runCase(out, next(), "bytes", b, lib.DirectScript(b), nil)
		u := lib.Uint(1 << 63)
		runCase(out, next(), "any", u, []*lib.Op{{Code: "XN", N: lib.PlainSpec(u)}}, []*lib.Val{lib.Uint(1<<63 + 1)})
		lu := lib.List(lib.Int(1), u)
		runCase(out, next(), "any", lu, lib.DirectScript(lu), []*lib.Val{lib.List(lib.Int(2), u), lib.List(lib.Int(1), lib.Uint(1<<63+1))})
	}

	{ // Build, Reset the same builder, build something else, read the first node again
		l3 := lib.List(lib.Int(1), lib.Str("two"), lib.List(lib.Int(3)))
		l1 := lib.List(lib.Bool(true))
		l2 := lib.List(lib.Int(8), lib.Int(9))
		small := func(v *lib.Val) []*lib.Op { o := lib.DirectScript(v); o[0] = &lib.Op{Code: o[0].Code, Hint: 0}; return o }
		for _, p := range []string{"list", "any"} {
			runReset(out, next(), p, l3, lib.DirectScript(l3), l1, small(l1))
			runReset(out, next(), p, l3, lib.DirectScript(l3), l2, lib.DirectScript(l2))
			runReset(out, next(), p, l1, lib.DirectScript(l1), l3, small(l3))
			runReset(out, next(), p, lib.List(), lib.DirectScript(lib.List()), l3, lib.DirectScript(l3))
		}
		m2 := lib.Map(lib.Entry{K: "a", V: lib.Int(1)}, lib.Entry{K: "b", V: l3})
		m1 := lib.Map(lib.Entry{K: "a", V: lib.Str("other")})
		for _, p := range []string{"map", "any"} {
			runReset(out, next(), p, m2, lib.DirectScript(m2), m1, lib.KeyValueScript(m1))
			runReset(out, next(), p, m1, lib.KeyValueScript(m1), m2, small(m2))
		}
		runReset(out, next(), "any", m2, lib.DirectScript(m2), l1, lib.DirectScript(l1))
		runReset(out, next(), "any", lib.Int(5), lib.DirectScript(lib.Int(5)), l3, lib.DirectScript(l3))
		runReset(out, next(), "int", lib.Int(5), lib.DirectScript(lib.Int(5)), lib.Int(-6), lib.DirectScript(lib.Int(-6)))
		runReset(out, next(), "string", lib.Str("a"), lib.DirectScript(lib.Str("a")), lib.Str("bb"), lib.DirectScript(lib.Str("bb")))
		runReset(out, next(), "bytes", lib.Bytes("a"), lib.DirectScript(lib.Bytes("a")), lib.Bytes("bb"), lib.DirectScript(lib.Bytes("bb")))
	}

	{ // every non-negative int held by a basicnode.NewUint node: as root, list element, map value, and as
		// the argument of AssignNode into other builders; read back like any int (AsInt within int64)
		bigv := func(s string) *lib.Val { i, _ := new(big.Int).SetString(s, 10); return &lib.Val{Kind: lib.KInt, I: i} }
		var pool []*lib.Val
		for _, i := range lib.IntPool {
			if i.Sign() >= 0 {
				pool = append(pool, &lib.Val{Kind: lib.KInt, I: i})
			}
		}
		for _, sv := range []string{"4294967294", "9007199254740990", "9223372036854775806", "9223372036854775809", "2", "127", "128", "32767", "32768"} {
			pool = append(pool, bigv(sv))
		}
		urng := lib.NewRng(fl.Seed + 99)
		for k := 0; k < 12; k++ {
			pool = append(pool, lib.Uint(urng.U64()>>uint(urng.Intn(64))))
		}
		for _, v := range pool {
			u := lib.UintSpec(v)
			plus := &lib.Val{Kind: lib.KInt, I: new(big.Int).Add(v.I, big.NewInt(1))}
			if plus.I.BitLen() > 64 {
				plus = lib.Int(0)
			}
			muts := []*lib.Val{plus, lib.Float(1)}
			runCase(out, next(), "any", v, []*lib.Op{{Code: "XN", N: u}}, muts)
			l := lib.List(v)
			runCase(out, next(), "any", l, lib.UintScript(l), []*lib.Val{lib.List(plus)})
			runCase(out, next(), "list", l, []*lib.Op{{Code: "XN", N: lib.UintSpec(l)}}, nil)
			runCase(out, next(), "bindlist", l, lib.UintScript(l), nil)
			m := lib.Map(lib.Entry{K: "u", V: v}, lib.Entry{K: "l", V: l})
			runCase(out, next(), "any", m, lib.UintScript(m), []*lib.Val{lib.Map(lib.Entry{K: "u", V: plus}, lib.Entry{K: "l", V: l})})
			runCase(out, next(), "map", m, []*lib.Op{{Code: "XN", N: lib.UintSpec(m)}}, nil)
			if v.I.Cmp(lib.Two63) < 0 {
				runCase(out, next(), "int", v, []*lib.Op{{Code: "XN", N: u}}, nil)
			}
		}
	}

	{ // nodes of the generated code (gendemo Msg3, Map__String__Msg3) as roots and as children: the whole
		// read-back (incl. retained iterator keys) runs on them too
		grng := lib.NewRng(fl.Seed + 77)
		msg3 := func() *lib.Val {
			v := &lib.Val{Kind: lib.KMap}
			for _, f := range lib.Msg3Fields {
				v.M = append(v.M, lib.Entry{K: f, V: lib.Int(int64(grng.Intn(2000)) - 1000)})
			}
			return v
		}
		for i := 0; i < 16; i++ {
			s := msg3()
			q := &lib.Val{Kind: lib.KMap}
			for j, n := 0, grng.Intn(4); j < n; j++ {
				q.M = append(q.M, lib.Entry{K: fmt.Sprintf("key%d", j), V: msg3()})
			}
			sspec := grng.GenSpec(s, true)
			for sspec.Tag != 'S' {
				sspec = grng.GenSpec(s, true)
			}
			qspec := &lib.NSpec{Tag: 'Q'}
			for _, e := range q.M {
				c := grng.GenSpec(e.V, true)
				for c.Tag != 'S' {
					c = grng.GenSpec(e.V, true)
				}
				qspec.K = append(qspec.K, e.K)
				qspec.L = append(qspec.L, c)
			}
			muts := []*lib.Val{grng.Mutant(s)}
			runCase(out, next(), "any", s, []*lib.Op{{Code: "XN", N: sspec}}, muts)
			runCase(out, next(), "any", q, []*lib.Op{{Code: "XN", N: qspec}}, []*lib.Val{grng.Mutant(q)})
			both := lib.List(s, q)
			runCase(out, next(), "any", both, []*lib.Op{{Code: "BL", Hint: 2}, {Code: "AV"}, {Code: "XN", N: sspec}, {Code: "AV"}, {Code: "XN", N: qspec}, {Code: "FI"}}, nil)
			// nodes looked up from gendemo / bindnode containers, and keys their iterators yield, as arguments
			for _, eng := range []string{"tgen", "tbind"} {
				sty, qty := lib.TypedFamily()[6].Text(), lib.TypedFamily()[5].Text()
				fld := lib.Msg3Fields[grng.Intn(3)]
				fnode := &lib.NSpec{Tag: 'F', Eng: eng, Ty: sty, Key: fld, V: s}
				runCase(out, next(), "any", fnode.Val(), []*lib.Op{{Code: "XN", N: fnode}}, nil)
				runCase(out, next(), "int", fnode.Val(), []*lib.Op{{Code: "XN", N: fnode}}, nil)
				if len(q.M) > 0 {
					e := q.M[grng.Intn(len(q.M))]
					vnode := &lib.NSpec{Tag: 'F', Eng: eng, Ty: qty, Key: e.K, V: q}
					knode := &lib.NSpec{Tag: 'K', Eng: eng, Ty: qty, Key: e.K, V: q}
					one := lib.Map(lib.Entry{K: e.K, V: e.V})
					runCase(out, next(), "map", one, []*lib.Op{{Code: "BM", Hint: 1}, {Code: "AK"}, {Code: "XN", N: knode}, {Code: "AV"}, {Code: "XN", N: vnode}, {Code: "FI"}}, nil)
					runCase(out, next(), "string", lib.Str(e.K), []*lib.Op{{Code: "XN", N: knode}}, nil)
				}
			}
			inmap := lib.Map(lib.Entry{K: "s", V: s}, lib.Entry{K: "q", V: q})
			runCase(out, next(), "map", inmap, []*lib.Op{{Code: "BM", Hint: 0}, {Code: "AE", Key: "s"}, {Code: "XN", N: sspec}, {Code: "AK"}, {Code: "X", V: lib.Str("q")}, {Code: "AV"}, {Code: "XN", N: qspec}, {Code: "FI"}}, nil)
		}
	}

	// ---- generated: values x scripts
	cfg := &lib.GenCfg{MaxDepth: 3, MaxWidth: 4, Links: true, UintBeyond: true, BadUTF8: true, NaNInf: true}
	for i := 0; i < n; i++ {
		v := rng.GenVal(cfg, 0)
		if i%3 == 0 { // containers at the root more often: they are the heart of C01
			for v.Kind != lib.KMap && v.Kind != lib.KList {
				v = rng.GenVal(cfg, 0)
			}
		}
		base := next()
		if i%10 == 7 && v.KindMask()&(1<<lib.KInt) != 0 { // the same value with its non-negative ints in UintNodes
			runCase(out, base+".u", "any", v, lib.UintScript(v), []*lib.Val{rng.Mutant(v)})
			runCase(out, base+".un", "any", v, []*lib.Op{{Code: "XN", N: lib.UintSpec(v)}}, nil)
		}
		for s := 0; s < 3; s++ {
			ops := rng.GenScript(v, s == 0)
			proto := "any"
			if rng.Chance(30) {
				proto = kindProto(v)
				if v.Kind == lib.KInt && v.I.Cmp(lib.Two63) >= 0 {
					proto = "any"
				}
			} else if (v.Kind == lib.KMap || v.Kind == lib.KList) && ops[0].Code != "XN" && rng.Chance(15) {
				// the same script against a bindnode builder ({String:Any} / [Any]): a typed
				// implementation within its schema's value space
				ts := copyTargets(v)
				if last := ts[len(ts)-1]; last == "bindmap" || last == "bindlist" {
					proto = last
				}
			}
			var mutants []*lib.Val
			for k := 0; k < 3; k++ {
				mutants = append(mutants, rng.Mutant(v))
			}
			mutants = append(mutants, rng.Permuted(v))
			runCase(out, fmt.Sprintf("%s.%d", base, s), proto, v, ops, mutants)
			// Reset-and-reuse of the builder is a legal way of making the calls (bindnode's Reset
			// panics: C12's bind_reset_panics; a possibly one-shot bytes node is left to C11)
			if s == 0 && rng.Chance(35) && proto != "bindmap" && proto != "bindlist" &&
				!(proto == "bytes" && ops[0].Code == "XN") {
				v2 := rng.GenVal(cfg, 0)
				for tries := 0; proto != "any" && (v2.Kind != v.Kind || (v2.Kind == lib.KInt && v2.I.Cmp(lib.Two63) >= 0)) && tries < 2000; tries++ {
					v2 = rng.GenVal(cfg, 0)
				}
				if proto == "any" && rng.Chance(60) { // mostly the same kind: that is where storage could be reused
					for tries := 0; v2.Kind != v.Kind && tries < 2000; tries++ {
						v2 = rng.GenVal(cfg, 0)
					}
				}
				if proto == "any" || v2.Kind == v.Kind {
					ops2 := rng.GenScript(v2, rng.Bool())
					if rng.Chance(50) && (ops2[0].Code == "BL" || ops2[0].Code == "BM") {
						ops2[0] = &lib.Op{Code: ops2[0].Code, Hint: int64(rng.Intn(2))} // a hint the old storage could satisfy
					}
					if !(proto == "bytes" && ops2[0].Code == "XN") {
						runReset(out, fmt.Sprintf("%s.r", base), proto, v, ops, v2, ops2)
					}
				}
			}
		}
	}
}
