// c13: generated code compiles and behaves like the reflection binding.
// Record: id, "both", schema (prefix text), level (t|r), route, tree, <bindnode observation>#<generated-code observation>
// Each observation = ok|T=<type view>|R=<repr view> | err | panic;  "nobuild" when the generated package
// of the batch did not generate or compile.
//
// The code generator is the one compiled into this binary from the working tree (schema/gen/go); for
// every batch of schemas it emits a fresh package into build/gen/<run>/b<k>/, which is built with
// `go build` together with a small driver main and run on the same inputs as bindnode.
package main

import (
	"fmt"
	"os"
	"path/filepath"
	"strings"

	"verifharness/lib"
	"verifharness/schgen"

	"github.com/ipld/go-ipld-prime/schema"
)

type caseRec struct {
	id    string
	si    int
	level byte
	route string
	v     *lib.Val
	bind  string
	gen   string
}

func runBind(schemas []*lib.SchTy, cases []*caseRec) {
	protos := make([]schema.TypedPrototype, len(schemas))
	bad := make([]string, len(schemas))
	for i, t := range schemas {
		typ, _, err := lib.SchLoad(t)
		if err != nil {
			bad[i] = "schemaerr"
			continue
		}
		p, err := lib.SchBindProto(t, typ)
		if err != nil {
			bad[i] = "protoerr"
			continue
		}
		protos[i] = p
	}
	for _, c := range cases {
		if bad[c.si] != "" {
			c.bind = bad[c.si]
			continue
		}
		c.bind, _ = lib.SchBuild(protos[c.si], string(c.level), c.route, c.v)
	}
}

func main() {
	fl := lib.ParseFlags()
	out := lib.OpenOut(fl.Out)
	defer out.Close()
	rng := lib.NewRng(fl.Seed)
	var schemas []*lib.SchTy
	var cases []*caseRec
	run := fmt.Sprintf("%s-s%d", fl.Tier, fl.Seed)
	if fl.Replay != "" {
		run = "replay"
		idx := map[string]int{}
		for i, line := range lib.ReadLines(fl.Replay) {
			f := strings.Split(line, "\t")
			if len(f) < 6 || f[1] != "both" {
				continue
			}
			si, ok := idx[f[2]]
			if !ok {
				t, err := lib.SchParse(f[2])
				if err != nil {
					panic(err)
				}
				lib.SchAssignNames(t, fmt.Sprintf("Rp%d", i))
				si = len(schemas)
				idx[f[2]] = si
				schemas = append(schemas, t)
			}
			v, err := lib.ParseVal(f[5])
			if err != nil {
				panic(err)
			}
			cases = append(cases, &caseRec{id: f[0], si: si, level: f[3][0], route: f[4], v: v})
		}
	} else {
		n := fl.N
		if n == 0 {
			n = 40
			if fl.Tier == "thorough" {
				n = 600
			}
		}
		for i, c := range lib.SchCorpus() {
			if !c.T.GenSupported() {
				continue
			}
			lib.SchAssignNames(c.T, fmt.Sprintf("C%d", i))
			lib.SchPatchMemberKeys(c.T, c.Level, c.V)
			si := len(schemas)
			schemas = append(schemas, c.T)
			for _, route := range lib.SchRoutes(c.V) {
				if route == "node" && !c.T.AssignNodeSafe() {
					continue // schemas hit by the known AssignNode defect: checked separately (nodeDiffs)
				}
				cases = append(cases, &caseRec{id: fmt.Sprintf("c%d.%s", i, route), si: si, level: c.Level, route: route, v: c.V})
			}
		}
		// the shape zoo: every (slot, flags, value kind) combination compiled in every run; values stay
		// on the routes the unchanged generated code supports (no AssignNode of foreign data here)
		for i, t := range lib.SchShapeZoo() {
			lib.SchAssignNames(t, fmt.Sprintf("Z%d", i))
			si := len(schemas)
			schemas = append(schemas, t)
			for _, level := range []byte{'t', 'r'} {
				for j := 0; j < 4; j++ {
					var mut *lib.SchMut
					if j >= 2 {
						mut = &lib.SchMut{R: rng, Budget: 1, Rate: 25}
					}
					v := rng.SchValue(t, level, mut)
					base := fmt.Sprintf("z%d.%c%d", i, level, j)
					cases = append(cases, &caseRec{id: base + ".direct", si: si, level: level, route: "direct", v: v})
					if !v.HasDupKeys() {
						cases = append(cases, &caseRec{id: base + ".cbor", si: si, level: level, route: "cbor", v: v})
					}
				}
			}
		}
		cfg := &lib.SchGenCfg{MaxDepth: 4, ForGen: true}
		for i := 0; i < n; i++ {
			t := rng.SchGen(cfg)
			lib.SchAssignNames(t, fmt.Sprintf("G%d", i))
			si := len(schemas)
			schemas = append(schemas, t)
			for _, level := range []byte{'t', 'r'} {
				for j := 0; j < 16; j++ {
					var mut *lib.SchMut
					if j >= 3 {
						mut = &lib.SchMut{R: rng, Budget: 1 + rng.Intn(2), Rate: 25}
					}
					v := rng.SchValue(t, level, mut)
					var routes []string
					for _, r := range lib.SchRoutes(v) {
						if r != "node" || t.AssignNodeSafe() {
							routes = append(routes, r)
						}
					}
					base := fmt.Sprintf("g%d.%c%d", i, level, j)
					cases = append(cases, &caseRec{id: base + ".direct", si: si, level: level, route: "direct", v: v})
					r := routes[1+rng.Intn(len(routes)-1)]
					cases = append(cases, &caseRec{id: base + "." + r, si: si, level: level, route: r, v: v})
				}
			}
		}
	}
	// the adjunct-configuration variant: the shape zoo, the keyword zoo and every fourth random schema are
	// generated a second time with every AdjunctCfg override in use; their cases run there as well
	// (ids ending in .adj), under the same predictions
	if fl.Replay == "" {
		adjSchema := map[int]bool{}
		for si, t := range schemas {
			if strings.HasPrefix(t.Name, "Z") || (strings.HasPrefix(t.Name, "G") && si%4 == 0) {
				adjSchema[si] = true
			}
		}
		for _, c := range append([]*caseRec(nil), cases...) {
			if adjSchema[c.si] {
				cases = append(cases, &caseRec{id: c.id + ".adj", si: c.si, level: c.level, route: c.route, v: c.v})
			}
		}
		for i, t := range lib.SchKeywordZoo() {
			lib.SchAssignNames(t, fmt.Sprintf("K%d", i))
			si := len(schemas)
			schemas = append(schemas, t)
			for _, level := range []byte{'t', 'r'} {
				for j := 0; j < 6; j++ {
					var mut *lib.SchMut
					if j >= 3 {
						mut = &lib.SchMut{R: rng, Budget: 1, Rate: 25}
					}
					v := rng.SchValue(t, level, mut)
					base := fmt.Sprintf("k%d.%c%d", i, level, j)
					for _, r := range []string{"direct", "cbor", "node"} {
						if r == "node" && (!t.AssignNodeSafe() || v.HasDupKeys()) {
							continue
						}
						cases = append(cases, &caseRec{id: base + "." + r + ".adj", si: si, level: level, route: r, v: v})
					}
				}
			}
		}
	}
	runBind(schemas, cases)

	// one generated package per batch of schemas (harness/schgen); cases .adj go to the variant's packages
	isAdj := func(c *caseRec) bool { return strings.HasSuffix(c.id, ".adj") }
	var gc, ga []*schgen.Case
	var schemasA []*lib.SchTy
	mapA := map[int]int{}
	for _, c := range cases {
		g := &schgen.Case{ID: c.id, SI: c.si, Op: "build", Level: c.level, Route: c.route, V: c.v}
		if isAdj(c) {
			if _, ok := mapA[c.si]; !ok {
				mapA[c.si] = len(schemasA)
				schemasA = append(schemasA, schemas[c.si])
			}
			g.SI = mapA[c.si]
			ga = append(ga, g)
		} else {
			gc = append(gc, g)
		}
	}
	// the main packages hold every schema that is not variant-only
	var schemasM []*lib.SchTy
	mapM := map[int]int{}
	for _, g := range gc {
		if _, ok := mapM[g.SI]; !ok {
			mapM[g.SI] = len(schemasM)
			schemasM = append(schemasM, schemas[g.SI])
		}
		g.SI = mapM[g.SI]
	}
	if len(gc) > 0 || len(ga) == 0 {
		schgen.Run("c13-"+run, schemasM, gc, rng, true)
	} else {
		os.Remove(filepath.Join("build", "gen", "status-c13-"+run+".json"))
	}
	if len(ga) > 0 {
		schgen.RunAdj("c13-"+run, schemasA, ga, rng)
	}
	gi, ai := 0, 0
	for _, c := range cases {
		if isAdj(c) {
			c.gen = ga[ai].Obs
			ai++
		} else {
			c.gen = gc[gi].Obs
			gi++
		}
	}

	for _, c := range cases {
		obs := c.bind + "#" + c.gen
		if c.gen == "nobuild" {
			obs = "nobuild"
		}
		out.Case(c.id, "both", schemas[c.si].Text(), string(c.level), c.route, c.v.Text(), obs)
	}
}
