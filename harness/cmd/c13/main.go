// c13: generated code compiles and behaves like the reflection binding.
// Record: id, "both", schema (prefix text), level (t|r), route, tree, <bindnode observation>#<generated-code observation>
// Each observation = ok|T=<type view>|R=<repr view> | err | panic;  "nobuild" when the generated package
// of the batch did not generate or compile.
//
// The code generator is the one compiled into this binary from the working tree (schema/gen/go); for
// every batch of schemas it emits a fresh package into build/gen/<run>/b<k>/, which is built with
// `go build` together with a small driver main and run on the same inputs as bindnode.
package main

import (
	"bufio"
	"bytes"
	"encoding/json"
	"fmt"
	"os"
	"os/exec"
	"path/filepath"
	"sort"
	"strings"
	"time"

	"verifharness/lib"

	"github.com/ipld/go-ipld-prime/schema"
	gengo "github.com/ipld/go-ipld-prime/schema/gen/go"
)

type caseRec struct {
	id    string
	si    int
	level byte
	route string
	v     *lib.Val
	bind  string
	gen   string
}

type batchStatus struct {
	Dir       string  `json:"dir"`
	Schemas   int     `json:"schemas"`
	Cases     int     `json:"cases"`
	Generated bool    `json:"generated"`
	Compiled  bool    `json:"compiled"`
	Lines     int     `json:"lines"`
	GenSec    float64 `json:"gen_s"`
	BuildSec  float64 `json:"build_s"`
	Log       string  `json:"log"`
	NodeRuns  int     `json:"node_runs"`
}

type nodeDiff struct {
	Case   []string `json:"case"`
	Direct string   `json:"direct"`
	Node   string   `json:"node"`
}

var nodeDiffs []nodeDiff

const driverSrc = `package main

import (
	"bufio"
	"fmt"
	"os"
	"strings"

	"verifharness/lib"
	"zzgen/gen"

	"github.com/ipld/go-ipld-prime/datamodel"
)

func main() {
	sc := bufio.NewScanner(os.Stdin)
	sc.Buffer(make([]byte, 1<<20), 1<<28)
	w := bufio.NewWriterSize(os.Stdout, 1<<20)
	defer w.Flush()
	for sc.Scan() {
		f := strings.Split(sc.Text(), "\t") // id, type name, level, route, tree
		if len(f) < 5 {
			continue
		}
		v, err := lib.ParseVal(f[4])
		if err != nil {
			panic(err)
		}
		np := gen.ZzProto(f[1], f[2] == "r")
		obs := "noproto"
		if np != nil {
			obs, _ = lib.SchBuildWith(func() datamodel.NodeBuilder { return np.NewBuilder() }, f[3], v)
		}
		fmt.Fprintf(w, "%s\t%s\n", f[0], obs)
	}
}
`

func repoDir() string {
	if r := os.Getenv("VERIF_REPO"); r != "" {
		return r
	}
	return "/repo"
}

// generate + build one batch; returns the path of the built driver ("" on failure)
func buildBatch(dir string, schemas []*lib.SchTy, rng *lib.Rng, st *batchStatus) string {
	os.RemoveAll(dir)
	if err := os.MkdirAll(filepath.Join(dir, "gen"), 0o755); err != nil {
		st.Log = err.Error()
		return ""
	}
	t0 := time.Now()
	var names []string
	err := lib.Safely(func() error {
		tsp, err := lib.SchTypeSystem(schemas, false)
		if err != nil {
			return err
		}
		ts := *tsp
		adj := &gengo.AdjunctCfg{CfgUnionMemlayout: map[schema.TypeName]string{}}
		types := ts.GetTypes()
		for name := range types {
			names = append(names, name)
		}
		sort.Strings(names) // map order must not leak into the generated code or the PRNG stream
		for _, name := range names {
			if types[name].TypeKind() == schema.TypeKind_Union && rng.Chance(40) {
				adj.CfgUnionMemlayout[name] = "interface"
			}
		}
		gengo.Generate(filepath.Join(dir, "gen"), "gen", ts, adj)
		return nil
	})
	st.GenSec = time.Since(t0).Seconds()
	if err != nil {
		st.Log = "generate: " + err.Error()
		return ""
	}
	st.Generated = true
	// prototype getter + driver + module files
	var g strings.Builder
	g.WriteString("package gen\n\nimport \"github.com/ipld/go-ipld-prime/datamodel\"\n\nfunc ZzProto(name string, repr bool) datamodel.NodePrototype {\n\tswitch name {\n")
	for _, n := range names {
		fmt.Fprintf(&g, "\tcase %q:\n\t\tif repr {\n\t\t\treturn _%s__ReprPrototype{}\n\t\t}\n\t\treturn _%s__Prototype{}\n", n, n, n)
	}
	g.WriteString("\t}\n\treturn nil\n}\n")
	os.WriteFile(filepath.Join(dir, "gen", "zz_getter.go"), []byte(g.String()), 0o644)
	os.WriteFile(filepath.Join(dir, "zz_main.go"), []byte(driverSrc), 0o644)
	harnessDir, _ := filepath.Abs("harness")
	repo, _ := filepath.Abs(repoDir())
	gomod := fmt.Sprintf("module zzgen\n\ngo 1.25.7\n\nrequire (\n\tgithub.com/ipld/go-ipld-prime v0.0.0\n\tverifharness v0.0.0\n)\n\nreplace github.com/ipld/go-ipld-prime => %s\n\nreplace verifharness => %s\n", repo, harnessDir)
	os.WriteFile(filepath.Join(dir, "go.mod"), []byte(gomod), 0o644)
	if sum, err := os.ReadFile(filepath.Join(repo, "go.sum")); err == nil {
		os.WriteFile(filepath.Join(dir, "go.sum"), sum, 0o644)
	}
	files, _ := filepath.Glob(filepath.Join(dir, "gen", "ipldsch_*.go"))
	for _, f := range files {
		b, _ := os.ReadFile(f)
		st.Lines += bytes.Count(b, []byte("\n"))
	}
	t1 := time.Now()
	cmd := exec.Command("go", "build", "-o", "zzdrv", ".")
	cmd.Dir = dir
	env := []string{}
	for _, e := range os.Environ() {
		if strings.HasPrefix(e, "GOSUMDB=") || strings.HasPrefix(e, "GOTOOLCHAIN=") || strings.HasPrefix(e, "GOFLAGS=") || strings.HasPrefix(e, "GOPROXY=") {
			continue
		}
		env = append(env, e)
	}
	cmd.Env = append(env, "GOFLAGS=-mod=mod", "GOPROXY=off")
	outp, err := cmd.CombinedOutput()
	st.BuildSec = time.Since(t1).Seconds()
	if err != nil {
		lg := string(outp)
		if len(lg) > 3000 {
			lg = lg[:3000]
		}
		st.Log = "go build: " + err.Error() + "\n" + lg
		return ""
	}
	st.Compiled = true
	return filepath.Join(dir, "zzdrv")
}

func runGen(drv string, schemas []*lib.SchTy, cases []*caseRec) error {
	var in bytes.Buffer
	for _, c := range cases {
		fmt.Fprintf(&in, "%s\t%s\t%c\t%s\t%s\n", c.id, schemas[c.si].Name, c.level, c.route, c.v.Text())
	}
	cmd := exec.Command(drv)
	cmd.Stdin = &in
	var out, errb bytes.Buffer
	cmd.Stdout = &out
	cmd.Stderr = &errb
	if err := cmd.Run(); err != nil {
		return fmt.Errorf("%v: %s", err, errb.String())
	}
	res := map[string]string{}
	sc := bufio.NewScanner(&out)
	sc.Buffer(make([]byte, 1<<20), 1<<28)
	for sc.Scan() {
		f := strings.SplitN(sc.Text(), "\t", 2)
		if len(f) == 2 {
			res[f[0]] = f[1]
		}
	}
	for _, c := range cases {
		if o, ok := res[c.id]; ok {
			c.gen = o
		} else {
			c.gen = "noresult"
		}
	}
	return nil
}

func runBind(schemas []*lib.SchTy, cases []*caseRec) {
	protos := make([]schema.TypedPrototype, len(schemas))
	bad := make([]string, len(schemas))
	for i, t := range schemas {
		typ, _, err := lib.SchLoad(t)
		if err != nil {
			bad[i] = "schemaerr"
			continue
		}
		p, err := lib.SchBindProto(t, typ)
		if err != nil {
			bad[i] = "protoerr"
			continue
		}
		protos[i] = p
	}
	for _, c := range cases {
		if bad[c.si] != "" {
			c.bind = bad[c.si]
			continue
		}
		c.bind, _ = lib.SchBuild(protos[c.si], string(c.level), c.route, c.v)
	}
}

func main() {
	fl := lib.ParseFlags()
	out := lib.OpenOut(fl.Out)
	defer out.Close()
	rng := lib.NewRng(fl.Seed)
	var schemas []*lib.SchTy
	var cases []*caseRec
	run := fmt.Sprintf("%s-s%d", fl.Tier, fl.Seed)
	if fl.Replay != "" {
		run = "replay"
		idx := map[string]int{}
		for i, line := range lib.ReadLines(fl.Replay) {
			f := strings.Split(line, "\t")
			if len(f) < 6 || f[1] != "both" {
				continue
			}
			si, ok := idx[f[2]]
			if !ok {
				t, err := lib.SchParse(f[2])
				if err != nil {
					panic(err)
				}
				lib.SchAssignNames(t, fmt.Sprintf("Rp%d", i))
				si = len(schemas)
				idx[f[2]] = si
				schemas = append(schemas, t)
			}
			v, err := lib.ParseVal(f[5])
			if err != nil {
				panic(err)
			}
			cases = append(cases, &caseRec{id: f[0], si: si, level: f[3][0], route: f[4], v: v})
		}
	} else {
		n := fl.N
		if n == 0 {
			n = 40
			if fl.Tier == "thorough" {
				n = 600
			}
		}
		for i, c := range lib.SchCorpus() {
			if !c.T.GenSupported() {
				continue
			}
			lib.SchAssignNames(c.T, fmt.Sprintf("C%d", i))
			lib.SchPatchMemberKeys(c.T, c.Level, c.V)
			si := len(schemas)
			schemas = append(schemas, c.T)
			for _, route := range lib.SchRoutes(c.V) {
				if route == "node" {
					continue // AssignNode of a foreign node is checked separately (nodeDiffs)
				}
				cases = append(cases, &caseRec{id: fmt.Sprintf("c%d.%s", i, route), si: si, level: c.Level, route: route, v: c.V})
			}
		}
		cfg := &lib.SchGenCfg{MaxDepth: 4, ForGen: true}
		for i := 0; i < n; i++ {
			t := rng.SchGen(cfg)
			lib.SchAssignNames(t, fmt.Sprintf("G%d", i))
			si := len(schemas)
			schemas = append(schemas, t)
			for _, level := range []byte{'t', 'r'} {
				for j := 0; j < 16; j++ {
					var mut *lib.SchMut
					if j >= 3 {
						mut = &lib.SchMut{R: rng, Budget: 1 + rng.Intn(2), Rate: 25}
					}
					v := rng.SchValue(t, level, mut)
					var routes []string
					for _, r := range lib.SchRoutes(v) {
						if r != "node" {
							routes = append(routes, r)
						}
					}
					base := fmt.Sprintf("g%d.%c%d", i, level, j)
					cases = append(cases, &caseRec{id: base + ".direct", si: si, level: level, route: "direct", v: v})
					r := routes[1+rng.Intn(len(routes)-1)]
					cases = append(cases, &caseRec{id: base + "." + r, si: si, level: level, route: r, v: v})
				}
			}
		}
	}
	runBind(schemas, cases)

	// batches of schemas -> one generated package each
	const perBatch = 60
	var status []batchStatus
	root := filepath.Join("build", "gen", run)
	os.RemoveAll(root)
	for b := 0; b*perBatch < len(schemas); b++ {
		lo, hi := b*perBatch, (b+1)*perBatch
		if hi > len(schemas) {
			hi = len(schemas)
		}
		var bc []*caseRec
		for _, c := range cases {
			if c.si >= lo && c.si < hi {
				bc = append(bc, c)
			}
		}
		st := batchStatus{Dir: filepath.Join(root, fmt.Sprintf("b%d", b)), Schemas: hi - lo, Cases: len(bc)}
		drv := buildBatch(st.Dir, schemas[lo:hi], rng, &st)
		if drv == "" {
			for _, c := range bc {
				c.gen = "nobuild"
			}
		} else if err := runGen(drv, schemas, bc); err != nil {
			st.Log = "run: " + err.Error()
			for _, c := range bc {
				c.gen = "norun"
			}
		} else {
			// AssignNode of a foreign (basicnode) tree must behave like the plain call sequence
			var nc []*caseRec
			for _, c := range bc {
				if c.route == "direct" && !c.v.HasDupKeys() {
					nc = append(nc, &caseRec{id: c.id, si: c.si, level: c.level, route: "node", v: c.v, bind: c.gen})
				}
			}
			if err := runGen(drv, schemas, nc); err == nil {
				for _, c := range nc {
					st.NodeRuns++
					if c.gen != c.bind {
						nodeDiffs = append(nodeDiffs, nodeDiff{Case: []string{c.id, "gennode", schemas[c.si].Text(), string(c.level), "node", c.v.Text(), c.bind + "#" + c.gen}, Direct: c.bind, Node: c.gen})
					}
				}
			}
		}
		status = append(status, st)
	}
	if len(nodeDiffs) > 400 {
		nodeDiffs = nodeDiffs[:400]
	}
	nd, _ := json.Marshal(nodeDiffs)
	os.MkdirAll(filepath.Join("build", "gen"), 0o755)
	os.WriteFile(filepath.Join("build", "gen", "nodediff-"+run+".json"), nd, 0o644)
	js, _ := json.MarshalIndent(status, "", " ")
	os.MkdirAll(filepath.Join("build", "gen"), 0o755)
	os.WriteFile(filepath.Join("build", "gen", "status-"+run+".json"), js, 0o644)

	for _, c := range cases {
		obs := c.bind + "#" + c.gen
		if c.gen == "nobuild" || c.gen == "norun" || c.gen == "noresult" || c.gen == "noproto" {
			obs = "nobuild"
		}
		out.Case(c.id, "both", schemas[c.si].Text(), string(c.level), c.route, c.v.Text(), obs)
	}
}
