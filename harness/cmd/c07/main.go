// c07: a selector walk visits exactly what the selector denotes.
// Record: id, "c07", selector, root, blocks, observation
//
//	observation: "compile:<err|panic>" or  A<trace>#M<trace>  — the full WalkAdv trace (path, reason, last
//	block link, node dump; storage reads) and the WalkMatching trace of the same selector and graph.
package main

import (
	"fmt"
	"strings"

	"verifharness/lib"
)

func runCase(out *lib.Out, id string, tc *lib.TravCase) bool {
	env, err := tc.Open()
	if err != nil {
		panic(fmt.Sprintf("%s: %v", id, err))
	}
	if env.SelErr != nil {
		out.Case(id, "c07", tc.Sel.Text(), tc.Root.Text(), tc.BlocksText(), "compile:"+env.CompileClass())
		return true
	}
	aevs, acls := env.Run(lib.NoCtl(), false)
	if len(aevs) > 400 {
		return false
	}
	mevs, mcls := env.Run(lib.NoCtl(), true)
	out.Case(id, "c07", tc.Sel.Text(), tc.Root.Text(), tc.BlocksText(),
		"A"+lib.TraceText(aevs, acls, false)+"#M"+lib.TraceText(mevs, mcls, false))
	return true
}

func mustVal(s string) *lib.Val {
	v, err := lib.ParseVal(s)
	if err != nil {
		panic(err)
	}
	return v
}

func ints(xs ...int64) *lib.Val {
	v := lib.List()
	for _, x := range xs {
		v.L = append(v.L, lib.Int(x))
	}
	return v
}

func corpus(out *lib.Out) {
	M, A, E := lib.SelMatcher, lib.SelAll, lib.SelEdge
	none := lib.SelNoLimit
	deep := lib.List(lib.List(lib.List(lib.List(lib.List(lib.List(lib.List(lib.Int(1))))))))
	xa := lib.Map(lib.Entry{K: "x", V: lib.Map(lib.Entry{K: "a", V: lib.Map(lib.Entry{K: "a", V: lib.Int(1)})})})
	_ = xa
	for i, tc := range lib.TravWitnesses() {
		runCase(out, fmt.Sprintf("k%d", i), tc)
	}
	// one compiled fields clause (3 fields) as first member of two unions formed at different depths: the interest
	// list handed to the walk must not alias the clause (k/g1 is visited after k/a/l/g2)
	F3 := lib.SelFields(lib.Entry{K: "a", V: E()}, lib.Entry{K: "b", V: E()}, lib.Entry{K: "c", V: E()})
	sharedSel := lib.SelRec(none, lib.SelUnion(A(F3), lib.SelFields(
		lib.Entry{K: "k", V: lib.SelFields(lib.Entry{K: "g1", V: M()})},
		lib.Entry{K: "l", V: lib.SelFields(lib.Entry{K: "g2", V: M()})})), "")
	sharedData := lib.Map(lib.Entry{K: "k", V: lib.Map(
		lib.Entry{K: "a", V: lib.Map(lib.Entry{K: "l", V: lib.Map(lib.Entry{K: "g2", V: lib.Str("under-l")})})},
		lib.Entry{K: "g1", V: lib.Str("under-k")})})
	cases := []struct {
		sel, root *lib.Val
	}{
		{sharedSel, sharedData},
		// an empty union next to an edge at exhaustion (replaceRecursiveEdge drops it) and its neighbours
		{lib.SelRec(1, A(lib.SelUnion(E(), lib.SelUnion())), ""), lib.List(ints(1))},
		{lib.SelRec(2, A(lib.SelUnion(E(), lib.SelUnion())), ""), lib.List(lib.List(ints(1)))},
		{lib.SelRec(1, A(lib.SelUnion(lib.SelUnion(), M())), ""), lib.List(ints(1))},
		{lib.SelRec(3, A(E()), ""), deep},
		// neighbours that must be fine
		{lib.SelUnion(lib.SelIndex(1, M()), lib.SelRange(2, 3, M())), ints(10, 11, 12)},
		{lib.SelUnion(lib.SelIndex(1, M()), A(M())), ints(10, 11, 12)},
		{lib.SelRec(none, lib.SelUnion(M(), A(E())), ""), lib.List(ints(1), ints(2))},
		{lib.SelRec(2, lib.SelUnion(M(), A(E())), ""), deep},
		{lib.SelRec(0, lib.SelUnion(M(), A(E())), ""), deep},
		{lib.SelRec(-3, lib.SelUnion(M(), A(E())), ""), deep},
		{lib.SelRec(none, E(), ""), deep},
		{A(lib.SelRec(none, E(), "")), deep},
		{A(lib.SelUnion()), deep},
		{lib.SelRec(none, A(lib.SelUnion()), ""), deep},
		{lib.SelRec(2, A(lib.SelRec(2, A(E()), "")), ""), deep},
		// subset matchers (matched bytes nodes are views over the original; each is read three times when dumped)
		{A(lib.SelSubset(4, 8)), lib.List(lib.Bytes("0123456789abcdefghij"), lib.Bytes("0123456789abcdefghijk"), lib.Str("0123456789abcdefghij"))},
		{A(lib.SelSubset(2, 5)), lib.List(lib.Bytes("hello world"), lib.Bytes("hello world!"))},
		{lib.SelUnion(A(lib.SelSubset(1, 2)), A(lib.SelSubset(4, 8))), lib.List(lib.Bytes("0123456789abcdefghijk"))},
		{A(lib.SelSubset(1, 3)), lib.List(lib.Str("hello"), lib.Bytes("hello"), lib.Int(5), lib.Str(""), lib.Str("é€"))},
		{A(lib.SelSubset(-3, -1)), lib.List(lib.Str("hello"), lib.Bytes("hello"), lib.Str("ab"))},
		{A(lib.SelSubset(2, 100)), lib.List(lib.Str("hello"), lib.Bytes("h"), lib.Str("ab"))},
		{A(lib.SelSubset(-100, 2)), lib.List(lib.Str("hello"), lib.Bytes("h"), lib.Str(""))},
		{lib.SelUnion(lib.SelSubset(1, 2), M()), lib.Str("hello")},
		// the recursion edge only inside an inner union of a nested union that is reached through a non-union clause
		// (hasRecursiveEdge must look into nested unions, however the union was formed)
		{lib.SelRec(none, A(lib.SelUnion(lib.SelUnion(M(), E()), lib.SelFields(lib.Entry{K: "q", V: M()}))), ""), deep},
		{lib.SelRec(4, A(lib.SelUnion(lib.SelUnion(M(), E()), lib.SelFields(lib.Entry{K: "q", V: M()}))), ""), deep},
		{lib.SelRec(none, lib.SelIndex(0, lib.SelUnion(lib.SelUnion(M(), E()), lib.SelIndex(5, M()))), ""), deep},
		{lib.SelRec(none, lib.SelRange(0, 2, lib.SelUnion(lib.SelUnion(lib.SelUnion(E(), M())), lib.SelIndex(5, M()))), ""), deep},
		{lib.SelRec(none, lib.SelFields(lib.Entry{K: "x", V: lib.SelUnion(lib.SelUnion(M(), E()), lib.SelIndex(5, M()))},
			lib.Entry{K: "a", V: lib.SelUnion(lib.SelUnion(E(), M()))}), ""), xa},
		{lib.SelRec(none, A(lib.SelUnion(lib.SelUnion(M(), E()), lib.SelFields(lib.Entry{K: "y", V: M()}))), ""),
			lib.Map(lib.Entry{K: "x", V: lib.Map(lib.Entry{K: "y", V: lib.Map(lib.Entry{K: "z", V: lib.Int(1)})})},
				lib.Entry{K: "w", V: lib.List(lib.Map(lib.Entry{K: "v", V: lib.Int(2)}))})},
		// fields on lists, negative index, range on a map
		{lib.SelFields(lib.Entry{K: "1", V: M()}, lib.Entry{K: "01", V: M()}, lib.Entry{K: "x", V: M()}), ints(10, 11, 12)},
		{lib.SelIndex(-1, M()), ints(10, 11, 12)},
		{lib.SelRange(-1, 2, M()), ints(10, 11, 12)},
		{lib.SelRange(0, 2, M()), lib.Map(lib.Entry{K: "0", V: lib.Int(1)}, lib.Entry{K: "1", V: lib.Int(2)})},
		{lib.SelIndex(0, M()), lib.Map(lib.Entry{K: "0", V: lib.Int(1)})},
	}
	for i, c := range cases {
		runCase(out, fmt.Sprintf("k%d", 10+i), &lib.TravCase{Sel: c.sel, Root: c.root})
	}
}

func main() {
	fl := lib.ParseFlags()
	out := lib.OpenOut(fl.Out)
	defer out.Close()
	if fl.Replay != "" {
		for i, tc := range lib.TravWitnesses() {
			runCase(out, fmt.Sprintf("k%d", i), tc)
		}
		for _, line := range lib.ReadLines(fl.Replay) {
			f := strings.Split(line, "\t")
			if len(f) < 6 || f[1] != "c07" {
				continue
			}
			tc := &lib.TravCase{Sel: mustVal(f[2]), Root: mustVal(f[3])}
			var err error
			if tc.Blocks, err = lib.ParseBlocks(f[4]); err != nil {
				panic(err)
			}
			runCase(out, f[0], tc)
		}
		return
	}
	n := fl.N
	if n == 0 {
		n = 4000
		if fl.Tier == "thorough" {
			n = 250000
		}
	}
	rng := lib.NewRng(fl.Seed)
	corpus(out)
	for i := 0; i < n; i++ {
		for {
			if rng.Chance(8) { // one compiled fields clause shared by unions formed at different depths
				tc := lib.GenSharedClauseCase(rng)
				if runCase(out, fmt.Sprintf("p%d", i), tc) {
					break
				}
				continue
			}
			tc := lib.GenTravGraph(rng)
			sg := &lib.SelGen{R: rng, Cids: tc.AllCids(), Keys: tc.AllKeys(), MaxDepth: 1 + rng.Intn(5), BadPct: 2, BareEdgePct: 3}
			tc.Sel = sg.Top()
			if !lib.TravInteresting(rng, tc) {
				continue
			}
			if runCase(out, fmt.Sprintf("p%d", i), tc) {
				break
			}
		}
	}
}
