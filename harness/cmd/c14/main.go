// c14: paths address what was visited.
// Records:
//
//	id, "c14v", selector, root, blocks, observation
//	     the unrestricted WalkAdv of the selector; for every visit the reported path is re-resolved with
//	     traversal.Get, traversal.Focus and one-segment-at-a-time lookups (loading links through the link
//	     system).  observation = visits joined by ',' then "|" + walk error class, each visit
//	     <path>;<reason>;<visited node>;<get>;<focus>;<stepwise>   with get = "ok <node>" | "err <class>",
//	     focus / stepwise = "=" when identical to get (and Focus reports the same path), else their text.
//	id, "c14p", root, blocks, path, observation
//	     an arbitrary path (existing, partially existing, odd segments): <get>;<focus>;<stepwise>
//	id, "c14r", segments, observation
//	     datamodel path round trip: the segments of ParsePath(NewPath(segments).String())
package main

import (
	"context"
	"errors"
	"fmt"
	"io"
	"strings"

	"verifharness/lib"

	"github.com/ipld/go-ipld-prime/datamodel"
	"github.com/ipld/go-ipld-prime/linking"
	"github.com/ipld/go-ipld-prime/node/basicnode"
	"github.com/ipld/go-ipld-prime/traversal"
)

func getClass(err error) string {
	if err == nil {
		return "ok"
	}
	if lib.IsPanic(err) {
		return "panic"
	}
	var ne datamodel.ErrNotExists
	switch {
	case strings.Contains(err.Error(), "cannot traverse terminals"):
		return "terminal"
	case strings.Contains(err.Error(), "cannot be parsed as a number"):
		return "badindex"
	case strings.Contains(err.Error(), "could not load link"):
		return "load"
	case errors.As(err, &ne):
		return "notexists"
	}
	return "other"
}

// ctxLog collects, for every link a traversal dereferences, the LinkContext handed to the prototype chooser:
// <LinkPath>~<dump of LinkNode>~<kind of ParentNode>.  The chooser's ANSWER depends on the context too: it refuses
// unless LinkNode is the very link node being dereferenced (as a chooser for typed link nodes would).
var ctxLog []string

func kindLetter(n datamodel.Node) string {
	if n == nil {
		return "-"
	}
	switch n.Kind() {
	case datamodel.Kind_Map:
		return "m"
	case datamodel.Kind_List:
		return "a"
	case datamodel.Kind_Link:
		return "l"
	}
	return "s"
}

func recordingChooser(lnk datamodel.Link, lc linking.LinkContext) (datamodel.NodePrototype, error) {
	d := "-"
	if lc.LinkNode != nil {
		d = strings.ReplaceAll(lib.Dump(lc.LinkNode), " ", "_")
	}
	ctxLog = append(ctxLog, lib.SegsText(lib.PathSegs(lc.LinkPath))+"~"+d+"~"+kindLetter(lc.ParentNode))
	if lc.LinkNode == nil || lc.LinkNode.Kind() != datamodel.Kind_Link {
		return nil, fmt.Errorf("chooser: LinkNode is not a link node")
	}
	if l2, err := lc.LinkNode.AsLink(); err != nil || l2.Binary() != lnk.Binary() {
		return nil, fmt.Errorf("chooser: LinkNode is another link")
	}
	return basicnode.Prototype.Any, nil
}

func progFor(env *lib.TravEnv) traversal.Progress {
	return traversal.Progress{Cfg: &traversal.Config{
		Ctx:                            context.Background(),
		LinkSystem:                     env.LSys,
		LinkTargetNodePrototypeChooser: recordingChooser,
	}}
}

// ---------------------------------------------------------------------------- nested use of a handed-in Progress
// A script is a chain of steps, each started on the Progress (and node) the previous step's callback was handed:
//
//	F:<segs>  prog.Focus(n, path, fn)        G:<segs>  prog.Get(n, path)  (last step only)
//	W:-       prog.WalkAdv(n, sel, fn), last step: every visit is reported
//	W:<k>     prog.WalkAdv(n, sel, fn); the rest of the script runs inside the k-th visit (0-based), then the walk stops
//
// Reports: f;<Progress.Path>;<LastBlock>;<node>   g;<result>   v;<path>;<reason>;<LastBlock.Link>;<digest>
//
//	<LastBlock> = "^" when the focus loaded no block (LastBlock must then be what the outer Progress had),
//	else <LastBlock.Path>@<last 6 hex of LastBlock.Link>.
type nstep struct {
	kind byte
	segs []string
	k    int
}

func scriptText(steps []nstep) string {
	var ps []string
	for _, st := range steps {
		switch {
		case st.kind == 'W' && st.k < 0:
			ps = append(ps, "W:-")
		case st.kind == 'W':
			ps = append(ps, fmt.Sprintf("W:%d", st.k))
		default:
			ps = append(ps, string(st.kind)+":"+lib.SegsText(st.segs))
		}
	}
	return strings.Join(ps, ">")
}

func parseScript(s string) []nstep {
	var out []nstep
	for _, p := range strings.Split(s, ">") {
		st := nstep{kind: p[0], k: -1}
		arg := p[2:]
		if st.kind == 'W' {
			if arg != "-" {
				fmt.Sscanf(arg, "%d", &st.k)
			}
		} else {
			st.segs = lib.ParseSegs(arg)
		}
		out = append(out, st)
	}
	return out
}

var loadCount int

func countingProg(env *lib.TravEnv) traversal.Progress {
	lsys := env.LSys
	inner := lsys.StorageReadOpener
	lsys.StorageReadOpener = func(lc linking.LinkContext, l datamodel.Link) (io.Reader, error) {
		loadCount++
		return inner(lc, l)
	}
	return traversal.Progress{Cfg: &traversal.Config{
		Ctx:        context.Background(),
		LinkSystem: lsys,
		LinkTargetNodePrototypeChooser: func(datamodel.Link, linking.LinkContext) (datamodel.NodePrototype, error) {
			return basicnode.Prototype.Any, nil
		},
	}}
}

var errStop = errors.New("stop")

func shortLink(l datamodel.Link) string {
	if l == nil {
		return "-"
	}
	h := lib.Hex(l.Binary())
	return h[len(h)-6:]
}

func sameLastBlock(a, b traversal.Progress) bool {
	if lib.SegsText(lib.PathSegs(a.LastBlock.Path)) != lib.SegsText(lib.PathSegs(b.LastBlock.Path)) {
		return false
	}
	return shortLink(a.LastBlock.Link) == shortLink(b.LastBlock.Link) && (a.LastBlock.Link == nil) == (b.LastBlock.Link == nil)
}

func execScript(env *lib.TravEnv, prog traversal.Progress, n datamodel.Node, steps []nstep, rep *[]string) error {
	st := steps[0]
	switch st.kind {
	case 'F':
		before := loadCount
		return prog.Focus(n, lib.SegsPath(st.segs), func(p2 traversal.Progress, n2 datamodel.Node) error {
			lb := "^"
			if loadCount > before {
				lb = lib.SegsText(lib.PathSegs(p2.LastBlock.Path)) + "@" + shortLink(p2.LastBlock.Link)
			} else if !sameLastBlock(prog, p2) {
				lb = "!changed"
			}
			*rep = append(*rep, "f;"+lib.SegsText(lib.PathSegs(p2.Path))+";"+lb+";"+lib.Dump(n2))
			if len(steps) == 1 {
				return nil
			}
			return execScript(env, p2, n2, steps[1:], rep)
		})
	case 'G':
		gn, err := prog.Get(n, lib.SegsPath(st.segs))
		*rep = append(*rep, "g;"+resText(gn, err))
		return nil
	case 'W':
		i := 0
		err := prog.WalkAdv(n, env.Sel, func(p2 traversal.Progress, n2 datamodel.Node, r traversal.VisitReason) error {
			defer func() { i++ }()
			if st.k < 0 {
				*rep = append(*rep, "v;"+lib.SegsText(lib.PathSegs(p2.Path))+";"+string(byte(r))+";"+shortLink(p2.LastBlock.Link)+";"+lib.Digest(lib.Dump(n2)))
				return nil
			}
			if i != st.k {
				return nil
			}
			if len(steps) > 1 {
				if err := execScript(env, p2, n2, steps[1:], rep); err != nil {
					return err
				}
			}
			return errStop
		})
		if errors.Is(err, errStop) {
			return nil
		}
		return err
	}
	return fmt.Errorf("bad step")
}

func nestedClass(err error) string {
	if err == nil {
		return "ok"
	}
	if c := getClass(err); c != "other" {
		return c
	}
	return lib.WalkErrClass(err)
}

func runNested(out *lib.Out, id string, tc *lib.TravCase, steps []nstep) {
	env, err := tc.Open()
	if err != nil || env.SelErr != nil {
		return
	}
	var rep []string
	werr := lib.Safely(func() error { return execScript(env, countingProg(env), env.RootNode, steps, &rep) })
	if len(rep) > 150 {
		return
	}
	out.Case(id, "c14n", tc.Sel.Text(), tc.Root.Text(), tc.BlocksText(), scriptText(steps), strings.Join(rep, ",")+"|"+nestedClass(werr))
}

// nestedScripts derives scripts from the visited paths: a visited path cut into two or three focuses, a walk started
// inside a focus, a focus started inside a visit of a walk (towards another visited path when one lies beneath).
func nestedScripts(r *lib.Rng, paths [][]string, keys []string) [][]nstep {
	if len(paths) == 0 {
		return nil
	}
	pick := func() []string { return paths[r.Intn(len(paths))] }
	cut := func(p []string) ([]string, []string) {
		i := 0
		if len(p) > 0 {
			i = r.Intn(len(p) + 1)
		}
		return append([]string{}, p[:i]...), append([]string{}, p[i:]...)
	}
	beneath := func(k int) []string { // a visited path strictly beneath visit k, relative to it
		base := paths[k]
		var c [][]string
		for _, q := range paths {
			if len(q) > len(base) && lib.SegsText(q[:len(base)]) == lib.SegsText(base) {
				c = append(c, q[len(base):])
			}
		}
		if len(c) == 0 || r.Chance(20) {
			if len(keys) > 0 {
				return []string{keys[r.Intn(len(keys))]}
			}
			return []string{"0"}
		}
		return c[r.Intn(len(c))]
	}
	var out [][]nstep
	a, b := cut(pick())
	out = append(out, []nstep{{kind: 'F', segs: a}, {kind: 'F', segs: b}})
	a, b = cut(pick())
	b1, b2 := cut(b)
	out = append(out, []nstep{{kind: 'F', segs: a}, {kind: 'F', segs: b1}, {kind: 'F', segs: b2}})
	a, b = cut(pick())
	out = append(out, []nstep{{kind: 'F', segs: a}, {kind: 'G', segs: b}})
	a, _ = cut(pick())
	out = append(out, []nstep{{kind: 'F', segs: a}, {kind: 'W', k: -1}})
	k := r.Intn(len(paths))
	out = append(out, []nstep{{kind: 'W', k: k}, {kind: 'F', segs: beneath(k)}})
	a, _ = cut(pick())
	out = append(out, []nstep{{kind: 'F', segs: a}, {kind: 'W', k: r.Intn(3)}, {kind: 'F', segs: []string{oddSegs[r.Intn(6)]}}})
	k = r.Intn(len(paths))
	bn := beneath(k)
	c1, c2 := cut(bn)
	out = append(out, []nstep{{kind: 'W', k: k}, {kind: 'F', segs: c1}, {kind: 'F', segs: c2}})
	return out
}

func resText(n datamodel.Node, err error) string {
	if err != nil {
		return "err " + getClass(err)
	}
	return "ok " + lib.Dump(n)
}

// stepwise resolves the path one segment at a time through the node API, loading links itself.
func stepwise(env *lib.TravEnv, root datamodel.Node, p datamodel.Path) string {
	n := root
	var res string
	err := lib.Safely(func() error {
		for _, seg := range p.Segments() {
			switch n.Kind() {
			case datamodel.Kind_Map, datamodel.Kind_List:
				next, err := n.LookupBySegment(seg)
				if err != nil {
					var il datamodel.ErrInvalidSegmentForList
					var ne datamodel.ErrNotExists
					switch {
					case errors.As(err, &il):
						res = "err badindex"
					case errors.As(err, &ne):
						res = "err notexists"
					default:
						res = "err other"
					}
					return nil
				}
				n = next
			default:
				res = "err terminal"
				return nil
			}
			for n.Kind() == datamodel.Kind_Link {
				lnk, _ := n.AsLink()
				next, err := env.LSys.Load(linking.LinkContext{Ctx: context.Background()}, lnk, basicnode.Prototype.Any)
				if err != nil {
					res = "err load"
					return nil
				}
				n = next
			}
		}
		res = "ok " + lib.Dump(n)
		return nil
	})
	if err != nil {
		return "err panic"
	}
	return res
}

// resolve runs Get, Focus and the stepwise lookup for one path.
// cleanSegs: no segment is empty or contains a slash (the condition under which a path survives its text form).
func cleanSegs(segs []string) bool {
	for _, s := range segs {
		if s == "" || strings.Contains(s, "/") {
			return false
		}
	}
	return true
}

// reparse renders the path, parses the text again and resolves the result: "=" when that gives what Get of the
// path itself gave, "-" when the path has an empty segment or a slash in a segment.
func reparse(env *lib.TravEnv, p datamodel.Path, get string) string {
	if !cleanSegs(lib.PathSegs(p)) {
		return "-"
	}
	var gn datamodel.Node
	var back datamodel.Path
	err := lib.Safely(func() error {
		back = datamodel.ParsePath(p.String())
		var e error
		gn, e = progFor(env).Get(env.RootNode, back)
		return e
	})
	res := resText(gn, err)
	if lib.SegsText(lib.PathSegs(back)) != lib.SegsText(lib.PathSegs(p)) {
		res += " path=" + lib.SegsText(lib.PathSegs(back))
	}
	if res == get {
		return "="
	}
	return res
}

func resolve(env *lib.TravEnv, p datamodel.Path) (get, focus, step string) {
	get, focus, step, _ = resolveCtx(env, p)
	return
}

// resolveCtx also returns the link contexts Get handed to the chooser (Focus must hand out the same ones).
func resolveCtx(env *lib.TravEnv, p datamodel.Path) (get, focus, step, ctx string) {
	var gn datamodel.Node
	ctxLog = nil
	gerr := lib.Safely(func() error {
		var e error
		gn, e = progFor(env).Get(env.RootNode, p)
		return e
	})
	get = resText(gn, gerr)
	ctx = strings.Join(ctxLog, "+")
	ctxLog = nil
	var fn datamodel.Node
	var fpath datamodel.Path
	ferr := lib.Safely(func() error {
		return progFor(env).Focus(env.RootNode, p, func(pr traversal.Progress, n datamodel.Node) error {
			fn, fpath = n, pr.Path
			return nil
		})
	})
	focus = resText(fn, ferr)
	if ferr == nil && lib.SegsText(lib.PathSegs(fpath)) != lib.SegsText(lib.PathSegs(p)) {
		focus += " path=" + lib.SegsText(lib.PathSegs(fpath))
	}
	if fctx := strings.Join(ctxLog, "+"); fctx != ctx {
		focus += " ctx=" + fctx
	}
	if focus == get {
		focus = "="
	}
	step = stepwise(env, env.RootNode, p)
	if step == get {
		step = "="
	}
	return
}

func runVisits(out *lib.Out, id string, tc *lib.TravCase) (paths [][]string, ok bool) {
	env, err := tc.Open()
	if err != nil {
		panic(err)
	}
	if env.SelErr != nil {
		out.Case(id, "c14v", tc.Sel.Text(), tc.Root.Text(), tc.BlocksText(), "compile:"+env.CompileClass())
		return nil, true
	}
	// the walk, keeping the reported Path values themselves
	var visits []string
	var reported []datamodel.Path
	ctxLog = nil
	werr := lib.Safely(func() error {
		return progFor(env).WalkAdv(env.RootNode, env.Sel, func(p traversal.Progress, n datamodel.Node, r traversal.VisitReason) error {
			reported = append(reported, p.Path)
			visits = append(visits, lib.SegsText(lib.PathSegs(p.Path))+";"+string(byte(r))+";"+lib.Dump(n))
			return nil
		})
	})
	wctx := strings.Join(ctxLog, "+")
	if len(visits) > 120 {
		return nil, false
	}
	for i, p := range reported {
		g, f, s := resolve(env, p)
		visits[i] += ";" + g + ";" + f + ";" + s + ";" + reparse(env, p, g)
		paths = append(paths, lib.PathSegs(p))
	}
	out.Case(id, "c14v", tc.Sel.Text(), tc.Root.Text(), tc.BlocksText(), strings.Join(visits, ",")+"|"+lib.WalkErrClass(werr)+"|ctx:"+wctx)
	runTransforming(out, id+".t", tc, env)
	return paths, true
}

func runPath(out *lib.Out, id string, tc *lib.TravCase, segs []string) {
	env, err := tc.Open()
	if err != nil {
		panic(err)
	}
	g, f, s, ctx := resolveCtx(env, lib.SegsPath(segs))
	out.Case(id, "c14p", tc.Root.Text(), tc.BlocksText(), lib.SegsText(segs), g+";"+f+";"+s+";"+reparse(env, lib.SegsPath(segs), g)+";"+ctx)
}

// c14t: WalkTransforming with a TransformFn that changes nothing; every (path, node) it is handed is resolved with Get.
// Not modelled (the transforming walk belongs to C16): the record is judged by the oracle only.
func runTransforming(out *lib.Out, id string, tc *lib.TravCase, env *lib.TravEnv) {
	var paths []datamodel.Path
	var dumps []string
	lib.Safely(func() error {
		_, err := progFor(env).WalkTransforming(env.RootNode, env.Sel, func(p traversal.Progress, n datamodel.Node) (datamodel.Node, error) {
			paths = append(paths, p.Path)
			dumps = append(dumps, lib.Dump(n))
			return n, nil
		})
		return err
	})
	if len(paths) == 0 || len(paths) > 60 {
		return
	}
	var rep []string
	for i, p := range paths {
		var gn datamodel.Node
		gerr := lib.Safely(func() error {
			var e error
			gn, e = progFor(env).Get(env.RootNode, p)
			return e
		})
		rep = append(rep, lib.SegsText(lib.PathSegs(p))+";"+dumps[i]+";"+resText(gn, gerr))
	}
	out.Case(id, "c14t", tc.Sel.Text(), tc.Root.Text(), tc.BlocksText(), strings.Join(rep, ","))
}

// c14l: traversal.WalkLocal over the root (links are not followed); the path of every visit is resolved segment by
// segment (LookupBySegment, never through a string).
func runLocal(out *lib.Out, id string, root *lib.Val) {
	rn, err := lib.BuildRoot(root)
	if err != nil {
		return
	}
	var rep []string
	werr := lib.Safely(func() error {
		return traversal.WalkLocal(rn, func(p traversal.Progress, n datamodel.Node) error {
			d := lib.Dump(n)
			cur := rn
			res := "="
			for _, seg := range p.Path.Segments() {
				next, err := cur.LookupBySegment(seg)
				if err != nil {
					res = "unresolvable"
					break
				}
				cur = next
			}
			if res == "=" && lib.Dump(cur) != d {
				res = "other:" + lib.Digest(lib.Dump(cur))
			}
			rep = append(rep, lib.SegsText(lib.PathSegs(p.Path))+";"+lib.Digest(d)+";"+res)
			return nil
		})
	})
	if len(rep) > 300 {
		return
	}
	out.Case(id, "c14l", root.Text(), strings.Join(rep, ",")+"|"+nestedClass(werr))
}

// c14a: the Path API the walks build their paths with, called directly.
//
//	ops: as:<hex> AppendSegmentString  ap:<hex> AppendSegment(PathSegmentOfString)  ai:<int> AppendSegmentInt
//	     j:<segs> Join  t:<i> Truncate(i mod (Len+1))  pop Pop  par Parent  sh Shift (continues with the rest)  last Last  len Len
func runPathAPI(out *lib.Out, id string, start []string, ops []string) {
	p := lib.SegsPath(start)
	var rep []string
	for _, op := range ops {
		var r string
		err := lib.Safely(func() error {
			switch {
			case strings.HasPrefix(op, "as:"):
				p = p.AppendSegmentString(lib.UnHex(op[3:]))
			case strings.HasPrefix(op, "ap:"):
				p = p.AppendSegment(datamodel.PathSegmentOfString(lib.UnHex(op[3:])))
			case strings.HasPrefix(op, "ai:"):
				var i int64
				fmt.Sscanf(op[3:], "%d", &i)
				p = p.AppendSegmentInt(i)
			case strings.HasPrefix(op, "j:"):
				p = p.Join(lib.SegsPath(lib.ParseSegs(op[2:])))
			case strings.HasPrefix(op, "t:"):
				var i int
				fmt.Sscanf(op[2:], "%d", &i)
				p = p.Truncate(i % (p.Len() + 1)) // within 0..Len (beyond Len the result depends on the slice capacity)
			case op == "pop":
				p = p.Pop()
			case op == "par":
				p = p.Parent()
			case op == "sh":
				var h datamodel.PathSegment
				h, p = p.Shift()
				r = "h" + lib.Hex(h.String()) + "/"
			case op == "last":
				r = "h" + lib.Hex(p.Last().String()) + "/"
			case op == "len":
				r = fmt.Sprintf("n%d/", p.Len())
			}
			return nil
		})
		if err != nil {
			rep = append(rep, "panic")
			break
		}
		rep = append(rep, r+lib.SegsText(lib.PathSegs(p))+"="+lib.Hex(p.String()))
	}
	out.Case(id, "c14a", lib.SegsText(start), strings.Join(ops, ","), strings.Join(rep, ","))
}

func genPathOps(r *lib.Rng) ([]string, []string) {
	seg := func() string { return oddSegs[r.Intn(len(oddSegs))] }
	var start []string
	for i := r.Intn(4); i > 0; i-- {
		start = append(start, seg())
	}
	if start == nil {
		start = []string{}
	}
	var ops []string
	for i := 2 + r.Intn(6); i > 0; i-- {
		switch r.Intn(11) {
		case 0, 1:
			ops = append(ops, "as:"+lib.Hex(seg()))
		case 2:
			ops = append(ops, "ap:"+lib.Hex(seg()))
		case 3:
			ops = append(ops, fmt.Sprintf("ai:%d", []int64{0, 1, 7, -1, 1 << 40, -9223372036854775808, 9223372036854775807}[r.Intn(7)]))
		case 4:
			ops = append(ops, "j:"+lib.SegsText([]string{seg(), seg()}))
		case 5:
			ops = append(ops, fmt.Sprintf("t:%d", r.Intn(4)))
		case 6:
			ops = append(ops, "pop")
		case 7:
			ops = append(ops, "par")
		case 8:
			ops = append(ops, "sh")
		case 9:
			ops = append(ops, "last")
		default:
			ops = append(ops, "len")
		}
	}
	return start, ops
}

func runRoundTrip(out *lib.Out, id string, segs []string) {
	str := lib.SegsPath(segs).String()
	back := datamodel.ParsePath(str)
	out.Case(id, "c14r", lib.SegsText(segs), lib.Hex(str)+";"+lib.SegsText(lib.PathSegs(back)))
}

var oddSegs = []string{"", "0", "1", "2", "01", "+1", "-1", "-0", "1x", "x", "a", "b", "zz", "9223372036854775807",
	"9223372036854775808", "18446744073709551616", "00000000000000000000001", "1.0", " 1", "a/b", "/", "é", "1_0", "0x1",
	"\xff", "caf\xe9", "\xe2\x82", "a\xffb", "€\xe2", "\xc0\xaf", "\xed\xa0\x80",
	"~", "~0", "~1", "~01", "a~1b", "PROGRA~1", "notes.txt~0", "~~", "~2"}

func mutatePath(r *lib.Rng, base []string, keys []string) []string {
	p := append([]string{}, base...)
	pickSeg := func() string {
		if len(keys) > 0 && r.Chance(40) {
			return keys[r.Intn(len(keys))]
		}
		return oddSegs[r.Intn(len(oddSegs))]
	}
	switch r.Intn(6) {
	case 0: // extend
		p = append(p, pickSeg())
	case 1: // extend twice
		p = append(p, pickSeg(), pickSeg())
	case 2: // truncate and extend
		if len(p) > 0 {
			p = append(p[:r.Intn(len(p))], pickSeg())
		} else {
			p = append(p, pickSeg())
		}
	case 3: // replace one segment
		if len(p) > 0 {
			p[r.Intn(len(p))] = pickSeg()
		} else {
			p = append(p, pickSeg())
		}
	case 4: // re-spell a numeric segment
		for i, s := range p {
			if len(s) > 0 && s[0] >= '0' && s[0] <= '9' && r.Bool() {
				p[i] = []string{"0" + s, "+" + s, s + " ", "00" + s}[r.Intn(4)]
			}
		}
	default: // unrelated
		n := 1 + r.Intn(3)
		p = nil
		for i := 0; i < n; i++ {
			p = append(p, pickSeg())
		}
	}
	return p
}

func mustVal(s string) *lib.Val {
	v, err := lib.ParseVal(s)
	if err != nil {
		panic(err)
	}
	return v
}

func witnesses(out *lib.Out) {
	for i, tc := range lib.TravWitnesses() {
		runVisits(out, fmt.Sprintf("k%d", i), tc)
	}
}

func corpus(out *lib.Out) {
	witnesses(out)
	// a block whose root is itself a link: the walk visits the link node, Get follows it further
	store := lib.NewTravStore()
	c1, l1 := store.Put(lib.Map(lib.Entry{K: "v", V: lib.Int(7)}))
	c2, l2 := store.Put(lib.Link(c1))
	tc := &lib.TravCase{
		Blocks: []lib.TravBlock{{Cid: c1, Val: l1}, {Cid: c2, Val: l2}},
		Root:   lib.Map(lib.Entry{K: "p", V: lib.Link(c2)}, lib.Entry{K: "q", V: lib.Link(c1)}),
		Sel:    mustVal("m1 k52 m2 k6c m1 k6e6f6e65 m0 k3a3e m1 k7c a2 m1 k2e m0 m1 k61 m1 k3e m1 k40 m0"),
	}
	runVisits(out, "k10", tc)
	runPath(out, "k10.p", tc, []string{"p"})
	runPath(out, "k10.pv", tc, []string{"p", "v"})
	// fields selecting list elements by odd spellings: the reported path keeps the spelling
	tc2 := &lib.TravCase{
		Root: lib.List(lib.Int(10), lib.Int(11), lib.Int(12)),
		// f{ "01": ., "+1": ., "1": ., "x": . }
		Sel: mustVal("m1 k66 m1 k663e m4 k3031 m1 k2e m0 k2b31 m1 k2e m0 k31 m1 k2e m0 k78 m1 k2e m0"),
	}
	runVisits(out, "k11", tc2)
	for i, p := range [][]string{{"1"}, {"01"}, {"+1"}, {"-1"}, {"x"}, {""}, {"3"}, {"1", "0"}, {"9223372036854775808"}} {
		runPath(out, fmt.Sprintf("k11.p%d", i), tc2, p)
	}
	slashy := lib.Map(lib.Entry{K: "", V: lib.Int(1)}, lib.Entry{K: "/", V: lib.Int(2)}, lib.Entry{K: "a/b", V: lib.Map(lib.Entry{K: "a//b", V: lib.Int(3)})},
		lib.Entry{K: "a", V: lib.Map(lib.Entry{K: "b", V: lib.Int(4)}, lib.Entry{K: "", V: lib.List(lib.Int(5))})}, lib.Entry{K: "/x", V: lib.Int(6)}, lib.Entry{K: "x/", V: lib.List(lib.Map(lib.Entry{K: "", V: lib.Int(7)}))})
	runLocal(out, "k13.l", slashy)
	runPathAPI(out, "k13.a0", []string{"a"}, []string{"as:", "as:" + lib.Hex("a/b"), "as:" + lib.Hex("/"), "ai:-1", "ai:5", "len", "last", "t:2", "sh", "pop", "par", "t:9", "t:0"})
	runPathAPI(out, "k13.a1", []string{}, []string{"pop", "par", "sh", "last", "j:" + lib.SegsText([]string{"", "x/"}), "t:1", "as:" + lib.Hex("~1")})
	for i, segs := range [][]string{{}, {"a"}, {"a", "b"}, {""}, {"a", ""}, {"a/b"}, {"/"}, {"", ""}, {"é", "0"}, {"a", "", "b"},
		{"PROGRA~1"}, {"notes.txt~0", "~1"}, {"~"}, {"a~1b", "~01"}, {"caf\xe9"}, {"\xff", "\xe2\x82"}} {
		runRoundTrip(out, fmt.Sprintf("k12.r%d", i), segs)
	}
}

func main() {
	fl := lib.ParseFlags()
	out := lib.OpenOut(fl.Out)
	defer out.Close()
	if fl.Replay != "" {
		witnesses(out)
		for _, line := range lib.ReadLines(fl.Replay) {
			f := strings.Split(line, "\t")
			switch {
			case len(f) >= 6 && f[1] == "c14v":
				tc := &lib.TravCase{Sel: mustVal(f[2]), Root: mustVal(f[3])}
				var err error
				if tc.Blocks, err = lib.ParseBlocks(f[4]); err != nil {
					panic(err)
				}
				runVisits(out, f[0], tc)
			case len(f) >= 7 && f[1] == "c14n":
				tc := &lib.TravCase{Sel: mustVal(f[2]), Root: mustVal(f[3])}
				var err error
				if tc.Blocks, err = lib.ParseBlocks(f[4]); err != nil {
					panic(err)
				}
				runNested(out, f[0], tc, parseScript(f[5]))
			case len(f) >= 6 && f[1] == "c14p":
				tc := &lib.TravCase{Sel: lib.Map(), Root: mustVal(f[2])}
				var err error
				if tc.Blocks, err = lib.ParseBlocks(f[3]); err != nil {
					panic(err)
				}
				runPath(out, f[0], tc, lib.ParseSegs(f[4]))
			case len(f) >= 4 && f[1] == "c14l":
				runLocal(out, f[0], mustVal(f[2]))
			case len(f) >= 5 && f[1] == "c14a":
				var ops []string
				if f[3] != "" {
					ops = strings.Split(f[3], ",")
				}
				runPathAPI(out, f[0], lib.ParseSegs(f[2]), ops)
			case len(f) >= 6 && f[1] == "c14t":
				// re-run through its c14v record
			case len(f) >= 4 && f[1] == "c14r":
				runRoundTrip(out, f[0], lib.ParseSegs(f[2]))
			}
		}
		return
	}
	n := fl.N
	if n == 0 {
		n = 600
		if fl.Tier == "thorough" {
			n = 50000
		}
	}
	rng := lib.NewRng(fl.Seed)
	corpus(out)
	for i := 0; i < n; i++ {
		var tc *lib.TravCase
		var paths [][]string
		for {
			if rng.Chance(4) {
				tc = lib.GenSharedClauseCase(rng)
				var ok bool
				if paths, ok = runVisits(out, fmt.Sprintf("p%d", i), tc); ok {
					break
				}
				continue
			}
			tc = lib.GenTravGraph(rng)
			sg := &lib.SelGen{R: rng, Cids: tc.AllCids(), Keys: tc.AllKeys(), MaxDepth: 1 + rng.Intn(5), BadPct: 1, BareEdgePct: 2}
			tc.Sel = sg.Top()
			if !lib.TravInteresting(rng, tc) {
				continue
			}
			var ok bool
			if paths, ok = runVisits(out, fmt.Sprintf("p%d", i), tc); ok {
				break
			}
		}
		// arbitrary paths around the visited ones
		keys := tc.AllKeys()
		for j, sc := range nestedScripts(rng, paths, keys) {
			runNested(out, fmt.Sprintf("p%d.n%d", i, j), tc, sc)
		}
		runLocal(out, fmt.Sprintf("p%d.l", i), tc.Root)
		for j := 0; j < 2; j++ {
			st, ops := genPathOps(rng)
			runPathAPI(out, fmt.Sprintf("p%d.a%d", i, j), st, ops)
		}
		np := 6
		for j := 0; j < np; j++ {
			var base []string
			if len(paths) > 0 {
				base = paths[rng.Intn(len(paths))]
			}
			runPath(out, fmt.Sprintf("p%d.q%d", i, j), tc, mutatePath(rng, base, keys))
		}
		// path text round trips
		for j := 0; j < 3; j++ {
			k := rng.Intn(4)
			var segs []string
			for x := 0; x < k; x++ {
				if rng.Chance(75) {
					segs = append(segs, []string{"a", "b", "0", "1", "01", "é", "key", "x y", "-", "\xff", "caf\xe9", "\xe2\x82", "a\xffb",
						"~", "~0", "~1", "~01", "a~1b", "PROGRA~1"}[rng.Intn(19)])
				} else {
					segs = append(segs, oddSegs[rng.Intn(len(oddSegs))])
				}
			}
			if segs == nil {
				segs = []string{}
			}
			runRoundTrip(out, fmt.Sprintf("p%d.r%d", i, j), segs)
		}
	}
}
