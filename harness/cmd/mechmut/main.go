// mechmut: mechanical single-site mutants of one Go source file (classical mutation operators), for measuring
// which of them the checks detect.  Standard library only.
//
//	mechmut -file path.go -list            prints "<k>\t<line>\t<operator>\t<detail>" for every mutation site
//	mechmut -file path.go -k N -o out.go   writes the file with site N mutated
//
// Operators: relational/equality/logical/arithmetic operator swaps, integer literal +1, condition negation,
// `return …, err` -> `return …, nil` is NOT done (changes types rarely compile); statement deletion for
// expression statements, assignments (non-defining), inc/dec, and `break`<->`continue`; `true`<->`false`.
package main

import (
	"flag"
	"fmt"
	"go/ast"
	"go/parser"
	"go/printer"
	"go/token"
	"os"
	"strconv"
)

type site struct {
	line   int
	op     string
	detail string
	apply  func()
}

var swaps = map[token.Token][]token.Token{
	token.EQL: {token.NEQ}, token.NEQ: {token.EQL},
	token.LSS: {token.LEQ, token.GEQ}, token.LEQ: {token.LSS, token.GTR},
	token.GTR: {token.GEQ, token.LEQ}, token.GEQ: {token.GTR, token.LSS},
	token.LAND: {token.LOR}, token.LOR: {token.LAND},
	token.ADD: {token.SUB}, token.SUB: {token.ADD},
	token.MUL: {token.QUO}, token.SHL: {token.SHR}, token.SHR: {token.SHL},
	token.AND: {token.OR}, token.OR: {token.AND},
}

func main() {
	file := flag.String("file", "", "Go source file")
	list := flag.Bool("list", false, "list mutation sites")
	k := flag.Int("k", -1, "site to mutate")
	out := flag.String("o", "", "output file")
	flag.Parse()
	fset := token.NewFileSet()
	f, err := parser.ParseFile(fset, *file, nil, parser.ParseComments)
	if err != nil {
		fmt.Fprintln(os.Stderr, err)
		os.Exit(2)
	}
	var sites []site
	add := func(pos token.Pos, op, detail string, apply func()) {
		sites = append(sites, site{fset.Position(pos).Line, op, detail, apply})
	}
	// statement lists, for deletions
	delFrom := func(list *[]ast.Stmt) {
		for i := range *list {
			i := i
			st := (*list)[i]
			switch s := st.(type) {
			case *ast.ExprStmt:
				add(st.Pos(), "del-call", "", func() { (*list)[i] = &ast.EmptyStmt{Semicolon: st.Pos(), Implicit: false} })
			case *ast.AssignStmt:
				if s.Tok != token.DEFINE {
					add(st.Pos(), "del-assign", s.Tok.String(), func() { (*list)[i] = &ast.EmptyStmt{Semicolon: st.Pos()} })
				}
			case *ast.IncDecStmt:
				add(st.Pos(), "del-incdec", s.Tok.String(), func() { (*list)[i] = &ast.EmptyStmt{Semicolon: st.Pos()} })
			case *ast.BranchStmt:
				if s.Label == nil && (s.Tok == token.BREAK || s.Tok == token.CONTINUE) {
					to := token.CONTINUE
					if s.Tok == token.CONTINUE {
						to = token.BREAK
					}
					add(st.Pos(), "branch", s.Tok.String()+"->"+to.String(), func() { s.Tok = to })
				}
			}
		}
	}
	ast.Inspect(f, func(n ast.Node) bool {
		switch x := n.(type) {
		case *ast.BinaryExpr:
			for _, to := range swaps[x.Op] {
				to := to
				from := x.Op
				add(x.OpPos, "binop", from.String()+"->"+to.String(), func() { x.Op = to })
			}
		case *ast.BasicLit:
			if x.Kind == token.INT {
				if v, err := strconv.ParseInt(x.Value, 0, 64); err == nil && v < 1<<40 {
					old := x.Value
					add(x.Pos(), "int+1", old, func() { x.Value = strconv.FormatInt(v+1, 10) })
					if v > 0 {
						add(x.Pos(), "int-1", old, func() { x.Value = strconv.FormatInt(v-1, 10) })
					}
				}
			}
		case *ast.Ident:
			if x.Name == "true" || x.Name == "false" {
				to := "false"
				if x.Name == "false" {
					to = "true"
				}
				add(x.Pos(), "bool", x.Name+"->"+to, func() { x.Name = to })
			}
		case *ast.IfStmt:
			c := x.Cond
			add(x.Cond.Pos(), "neg-cond", "", func() { x.Cond = &ast.UnaryExpr{Op: token.NOT, X: &ast.ParenExpr{X: c}} })
		case *ast.UnaryExpr:
			if x.Op == token.NOT {
				// handled by replacing in parent is awkward; turn !e into !!e
				inner := x.X
				add(x.OpPos, "drop-not", "", func() { x.X = &ast.UnaryExpr{Op: token.NOT, X: &ast.ParenExpr{X: inner}} })
			}
		case *ast.BlockStmt:
			delFrom(&x.List)
		case *ast.CaseClause:
			delFrom(&x.Body)
		case *ast.CommClause:
			delFrom(&x.Body)
		}
		return true
	})
	if *list {
		for i, s := range sites {
			fmt.Printf("%d\t%d\t%s\t%s\n", i, s.line, s.op, s.detail)
		}
		return
	}
	if *k < 0 || *k >= len(sites) {
		fmt.Fprintln(os.Stderr, "no such site")
		os.Exit(2)
	}
	sites[*k].apply()
	w := os.Stdout
	if *out != "" {
		w, err = os.Create(*out)
		if err != nil {
			fmt.Fprintln(os.Stderr, err)
			os.Exit(2)
		}
		defer w.Close()
	}
	if err := (&printer.Config{Mode: printer.UseSpaces | printer.TabIndent, Tabwidth: 8}).Fprint(w, fset, f); err != nil {
		fmt.Fprintln(os.Stderr, err)
		os.Exit(2)
	}
}
