// c08: type-level and representation views of a typed node obey the schema's strategy.
// Record: id, "val", schema (prefix text), "t", "direct", type-level tree, observation
// observation = T=<type view>|R=<repr view>|RB=<two routes>|B=<dag-cbor of repr>|RT=<bytes round trip>
package main

import (
	"fmt"
	"strings"

	"verifharness/lib"
	"verifharness/schgen"
)

// the same observation on freshly generated code (op "valg"): schemas within the generator's feature
// set, one generated package per run (harness/schgen)
func runGenVals(out *lib.Out, run string, schemas []*lib.SchTy, gc []*schgen.Case, rng *lib.Rng) {
	if len(gc) == 0 {
		return
	}
	schgen.Run(run, schemas, gc, rng, false)
	for _, c := range gc {
		out.Case(c.ID, "valg", schemas[c.SI].Text(), "t", "direct", c.V.Text(), c.Obs)
	}
}

func runVal(out *lib.Out, id string, t *lib.SchTy, v *lib.Val) {
	typ, _, err := lib.SchLoad(t)
	if err != nil {
		out.Case(id, "val", t.Text(), "t", "direct", v.Text(), "schemaerr")
		return
	}
	proto, err := lib.SchBindProto(t, typ)
	if err != nil {
		out.Case(id, "val", t.Text(), "t", "direct", v.Text(), "protoerr")
		return
	}
	out.Case(id, "val", t.Text(), "t", "direct", v.Text(), lib.SchObserveVal(proto, v))
}

func main() {
	fl := lib.ParseFlags()
	out := lib.OpenOut(fl.Out)
	defer out.Close()
	if fl.Replay != "" {
		var gs []*lib.SchTy
		var gc []*schgen.Case
		for i, line := range lib.ReadLines(fl.Replay) {
			f := strings.Split(line, "\t")
			if len(f) >= 6 && f[1] == "valg" {
				t, err := lib.SchParse(f[2])
				if err != nil {
					panic(err)
				}
				lib.SchAssignNames(t, fmt.Sprintf("Rg%d", i))
				v, err := lib.ParseVal(f[5])
				if err != nil {
					panic(err)
				}
				gs = append(gs, t)
				gc = append(gc, &schgen.Case{ID: f[0], SI: len(gs) - 1, Op: "val", Level: 't', Route: "direct", V: v})
				continue
			}
			if len(f) < 6 || f[1] != "val" {
				continue
			}
			t, err := lib.SchParse(f[2])
			if err != nil {
				panic(err)
			}
			lib.SchAssignNames(t, fmt.Sprintf("Rp%d", i))
			v, err := lib.ParseVal(f[5])
			if err != nil {
				panic(err)
			}
			runVal(out, f[0], t, v)
		}
		runGenVals(out, "c08-replay", gs, gc, lib.NewRng(fl.Seed))
		return
	}
	n := fl.N
	if n == 0 {
		n = 300
		if fl.Tier == "thorough" {
			n = 6000
		}
	}
	perSchema := 12
	rng := lib.NewRng(fl.Seed)
	for i, c := range lib.SchCorpus() {
		if c.Level != 't' || !c.Conf {
			continue
		}
		lib.SchAssignNames(c.T, fmt.Sprintf("C%d", i))
		lib.SchPatchMemberKeys(c.T, 't', c.V)
		runVal(out, fmt.Sprintf("c%d", i), c.T, c.V)
	}
	cfg := &lib.SchGenCfg{MaxDepth: 4}
	for i := 0; i < n; i++ {
		t := rng.SchGen(cfg)
		lib.SchAssignNames(t, fmt.Sprintf("G%d", i))
		for j := 0; j < perSchema; j++ {
			v := rng.SchValue(t, 't', nil)
			runVal(out, fmt.Sprintf("g%d.%d", i, j), t, v)
		}
		// a twin schema under the SAME type names (other discriminants / renames), used in alternation:
		// nothing may be remembered per type name across type systems
		if tw := lib.SchTwin(t, fmt.Sprintf("G%d", i)); tw != nil {
			for j := 0; j < 3; j++ {
				runVal(out, fmt.Sprintf("g%d.w%d", i, j), tw, rng.SchValue(tw, 't', nil))
				runVal(out, fmt.Sprintf("g%d.v%d", i, j), t, rng.SchValue(t, 't', nil))
			}
		}
	}
	// fixed twins: one keyed union name, two discriminant tables
	{
		mk := func(d1, d2 string) *lib.SchTy {
			u := lib.SchUnion('k', lib.SchMember{Name: "TwA", Disc: d1, Kind: 'm', T: lib.SchScalar('I')},
				lib.SchMember{Name: "TwB", Disc: d2, Kind: 'm', T: lib.SchScalar('S')})
			lib.SchAssignNames(u, "Tw")
			return u
		}
		a, b := mk("i", "s"), mk("s", "other")
		va := lib.Map(lib.Entry{K: "TwA", V: lib.Int(1)})
		vb := lib.Map(lib.Entry{K: "TwB", V: lib.Str("x")})
		for j, c := range []struct {
			t *lib.SchTy
			v *lib.Val
		}{{a, va}, {b, va}, {a, vb}, {b, vb}, {a, va}} {
			runVal(out, fmt.Sprintf("tw%d", j), c.t, c.v)
		}
	}
	// generated code: the conforming corpus values in the generator's feature set + dedicated schemas
	var gs []*lib.SchTy
	var gc []*schgen.Case
	for i, c := range lib.SchCorpus() {
		if c.Level != 't' || !c.Conf || !c.T.GenSupported() {
			continue
		}
		lib.SchAssignNames(c.T, fmt.Sprintf("K%d", i))
		lib.SchPatchMemberKeys(c.T, 't', c.V)
		gs = append(gs, c.T)
		gc = append(gc, &schgen.Case{ID: fmt.Sprintf("c%d.gen", i), SI: len(gs) - 1, Op: "val", Level: 't', Route: "direct", V: c.V})
	}
	ng := 14
	if fl.Tier == "thorough" {
		ng = 240
	}
	gcfg := &lib.SchGenCfg{MaxDepth: 4, ForGen: true}
	for i := 0; i < ng; i++ {
		t := rng.SchGen(gcfg)
		lib.SchAssignNames(t, fmt.Sprintf("H%d", i))
		gs = append(gs, t)
		for j := 0; j < perSchema; j++ {
			gc = append(gc, &schgen.Case{ID: fmt.Sprintf("h%d.%d.gen", i, j), SI: len(gs) - 1, Op: "val", Level: 't', Route: "direct", V: rng.SchValue(t, 't', nil)})
		}
	}
	runGenVals(out, fmt.Sprintf("c08-%s-s%d", fl.Tier, fl.Seed), gs, gc, rng)
}
