// c08: type-level and representation views of a typed node obey the schema's strategy.
// Record: id, "val", schema (prefix text), "t", "direct", type-level tree, observation
// observation = T=<type view>|R=<repr view>|RB=<two routes>|B=<dag-cbor of repr>|RT=<bytes round trip>
package main

import (
	"fmt"
	"strings"

	"verifharness/lib"
)

func runVal(out *lib.Out, id string, t *lib.SchTy, v *lib.Val) {
	typ, _, err := lib.SchLoad(t)
	if err != nil {
		out.Case(id, "val", t.Text(), "t", "direct", v.Text(), "schemaerr")
		return
	}
	proto, err := lib.SchBindProto(t, typ)
	if err != nil {
		out.Case(id, "val", t.Text(), "t", "direct", v.Text(), "protoerr")
		return
	}
	out.Case(id, "val", t.Text(), "t", "direct", v.Text(), lib.SchObserveVal(proto, v))
}

func main() {
	fl := lib.ParseFlags()
	out := lib.OpenOut(fl.Out)
	defer out.Close()
	if fl.Replay != "" {
		for i, line := range lib.ReadLines(fl.Replay) {
			f := strings.Split(line, "\t")
			if len(f) < 6 || f[1] != "val" {
				continue
			}
			t, err := lib.SchParse(f[2])
			if err != nil {
				panic(err)
			}
			lib.SchAssignNames(t, fmt.Sprintf("Rp%d", i))
			v, err := lib.ParseVal(f[5])
			if err != nil {
				panic(err)
			}
			runVal(out, f[0], t, v)
		}
		return
	}
	n := fl.N
	if n == 0 {
		n = 300
		if fl.Tier == "thorough" {
			n = 6000
		}
	}
	perSchema := 12
	rng := lib.NewRng(fl.Seed)
	for i, c := range lib.SchCorpus() {
		if c.Level != 't' || !c.Conf {
			continue
		}
		lib.SchAssignNames(c.T, fmt.Sprintf("C%d", i))
		lib.SchPatchMemberKeys(c.T, 't', c.V)
		runVal(out, fmt.Sprintf("c%d", i), c.T, c.V)
	}
	cfg := &lib.SchGenCfg{MaxDepth: 4}
	for i := 0; i < n; i++ {
		t := rng.SchGen(cfg)
		lib.SchAssignNames(t, fmt.Sprintf("G%d", i))
		for j := 0; j < perSchema; j++ {
			v := rng.SchValue(t, 't', nil)
			runVal(out, fmt.Sprintf("g%d.%d", i, j), t, v)
		}
	}
}
