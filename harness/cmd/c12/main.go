// c12: assemblers enforce their protocol — legal sequences succeed and yield exactly the accepted
// entries; a repeated key / an assignment of an unacceptable kind is reported by that call and the
// assembler stays usable.
// Record: id, "c12", engine, value(s), annotated script, observation
//   engine: basic:<proto> | enum:any | bind:S | bind:M | gen:S | gen:M | tbind[r]:<type> | tgen[r]:<type>
//           (the "r" engines assemble through the representation-level prototype and are read back at that level)
//           (tbind/tgen: the typed family — bindnode over inferred Go types, gendemo where the type
//           exists; <type> in the text form of harness/lib/schema_ty.go; value = the expected
//           type-level read-back with "z" for an absent optional field; a call annotated !E<T> must
//           return an error of any class at a position of type T)
//   script: segments separated by " RS " (NodeBuilder.Reset between them); a call token may carry the
//           class the contract demands after '!' (none = ok)
//   value(s): the value each segment must build, ';'-separated
//   observation: per segment tr=<letters>|b=<ok|P|->|t=<Dump>, joined by "#rs=<letter>#"; after a later
//                segment "#again=<Dump of the FIRST node>" (a built node must not change when its builder is reused)
package main

import (
	"fmt"
	"math/big"
	"strings"

	"verifharness/lib"

	ipld "github.com/ipld/go-ipld-prime"
	"github.com/ipld/go-ipld-prime/datamodel"
	"github.com/ipld/go-ipld-prime/node/bindnode"
	"github.com/ipld/go-ipld-prime/node/gendemo"
	"github.com/ipld/go-ipld-prime/schema"
)

type bMsg3 struct {
	Whee int64
	Woot int64
	Waga int64
}
type bMapMsg3 struct {
	Keys   []string
	Values map[string]bMsg3
}

var typedTS *schema.TypeSystem

func typedInit() {
	if typedTS != nil {
		return
	}
	ts, err := ipld.LoadSchemaBytes([]byte(`
type Msg3 struct {
	whee Int
	woot Int
	waga Int
}
type MapMsg3 {String:Msg3}
`))
	if err != nil {
		panic(err)
	}
	typedTS = ts
}

func isTyped(engine string) bool {
	return strings.HasPrefix(engine, "tbind") || strings.HasPrefix(engine, "tgen")
}

func builderFor(engine string) datamodel.NodeBuilder {
	switch engine {
	case "bind:S":
		typedInit()
		return bindnode.Prototype((*bMsg3)(nil), typedTS.TypeByName("Msg3")).NewBuilder()
	case "bind:M":
		typedInit()
		return bindnode.Prototype((*bMapMsg3)(nil), typedTS.TypeByName("MapMsg3")).NewBuilder()
	case "gen:MS":
		return gendemo.Type.Map__String__Msg3.NewBuilder()
	case "gen:S":
		return gendemo.Type.Msg3.NewBuilder()
	case "gen:M":
		return gendemo.Type.Map__String__Msg3.NewBuilder()
	}
	if strings.HasPrefix(engine, "bind:") { // bind:LMS = [{String:Msg3}] ... over inferred Go types
		nb, err := lib.TypedBuilder("tbind", shapeTy(engine[5:]))
		if err != nil || nb == nil {
			panic(fmt.Sprintf("no builder for %s: %v", engine, err))
		}
		return nb
	}
	if strings.HasPrefix(engine, "basic:") {
		return lib.BuilderFor(engine[6:])
	}
	if isTyped(engine) {
		i := strings.IndexByte(engine, ':')
		t, err := lib.SchParse(engine[i+1:])
		if err != nil {
			panic(err)
		}
		nb, err := lib.TypedBuilder(engine[:i], t)
		if err != nil || nb == nil {
			panic(fmt.Sprintf("no builder for %s: %v", engine, err))
		}
		return nb
	}
	if engine == "enum:any" {
		return lib.BuilderFor("any")
	}
	panic("unknown engine " + engine)
}

func observe(engine string, script string) string {
	var sb strings.Builder
	nb := builderFor(engine)
	var first datamodel.Node
	for i, seg := range strings.Split(script, " RS ") {
		ops, err := lib.ParseScript(seg)
		if err != nil {
			panic(err)
		}
		if i > 0 {
			rerr := lib.Safely(func() error { nb.Reset(); return nil })
			sb.WriteString("#rs=" + lib.ErrLetter(rerr) + "#")
			if rerr != nil {
				break
			}
		}
		tr, ok := lib.Exec(nb, ops, true)
		sb.WriteString("tr=" + tr)
		if !ok {
			sb.WriteString("|b=-|t=-")
			break
		}
		var n datamodel.Node
		if err := lib.Safely(func() error { n = nb.Build(); return nil }); err != nil || n == nil {
			sb.WriteString("|b=P|t=-")
			continue
		}
		var d string
		typed := isTyped(engine)
		if err := lib.Safely(func() error {
			if typed {
				if lib.TypedRepr(engine[:strings.IndexByte(engine, ':')]) {
					// builders of the representation prototype hand back the type-level node
					if tn, ok := n.(schema.TypedNode); ok {
						n = tn.Representation()
					}
				}
				d = lib.DumpTyped(n)
			} else {
				d = lib.Dump(n)
			}
			return nil
		}); err != nil {
			d = "!P"
		}
		sb.WriteString("|b=ok|t=" + d)
		if i == 0 {
			first = n
		} else if first != nil {
			// the node built before Reset must still read as it did
			var again string
			if err := lib.Safely(func() error { again = lib.Dump(first); return nil }); err != nil {
				again = "!P"
			}
			sb.WriteString("#again=" + again)
		}
	}
	return sb.String()
}

func runCase(out *lib.Out, id, engine string, vals []*lib.Val, script string) {
	vs := make([]string, len(vals))
	for i, v := range vals {
		vs[i] = v.Text()
	}
	// same-engine AssignNode arguments of scripts shared by both engines
	for _, tag := range []string{"T", "F", "K"} {
		switch {
		case strings.HasPrefix(engine, "bind:"):
			script = strings.ReplaceAll(script, " "+tag+lib.Hex("SAME:"), " "+tag+lib.Hex("tbind:"))
			script = strings.ReplaceAll(script, " "+tag+lib.Hex("SAMER:"), " "+tag+lib.Hex("tbindr:"))
		case strings.HasPrefix(engine, "gen:"):
			script = strings.ReplaceAll(script, " "+tag+lib.Hex("SAME:"), " "+tag+lib.Hex("tgen:"))
			script = strings.ReplaceAll(script, " "+tag+lib.Hex("SAMER:"), " "+tag+lib.Hex("tgenr:"))
		}
	}
	out.Case(id, "c12", engine, strings.Join(vs, ";"), script, observe(engine, script))
}

// ---------------------------------------------------------------- grammar-driven generation

// injGen produces an annotated script for a value; every place where the grammar allows a
// rejection is an "injection point"; target selects which points fire (-1: none, -2: all).
type injGen struct {
	r      *lib.Rng
	target int
	count  int
	typed  bool // typed engines: values at int / struct positions, wrong-kind injections at values
	eng    string // typed family: the engine the script is for (same-engine AssignNode arguments)
	genOnly bool  // the script runs on generated code only: unknown field names may be injected
	ctxTy  string   // type text and value of the typed container being assembled: source of same-engine
	ctxV   *lib.Val // key nodes (K) and looked-up children (F)
	depth  int
}

func (g *injGen) point() bool {
	g.count++
	return g.target == -2 || g.count-1 == g.target
}

func op(code string) *lib.Op { return &lib.Op{Code: code} }

func want(o *lib.Op, w string) *lib.Op { c := *o; c.Want = w; return &c }

var keyTries = []*lib.Op{
	{Code: "X", V: lib.Int(5)}, {Code: "X", V: lib.Null()}, {Code: "X", V: lib.Bool(true)}, {Code: "X", V: lib.Bytes("k")},
	{Code: "X", V: lib.Float(1.5)}, {Code: "BM", Hint: 0}, {Code: "BL", Hint: 1},
}

func (g *injGen) keyTries() []*lib.Op {
	var ops []*lib.Op
	if g.point() {
		n := 1 + g.r.Intn(2)
		for i := 0; i < n; i++ {
			if !g.typed && g.r.Chance(25) {
				ops = append(ops, &lib.Op{Code: "XN", N: lib.PlainSpec(lib.Int(3)), Want: "o"})
			} else {
				ops = append(ops, want(keyTries[g.r.Intn(len(keyTries))], "w"))
			}
		}
	}
	return ops
}

// dup: the calls by which an already accepted key reaches the map assembler again
func (g *injGen) dup(accepted []string) []*lib.Op {
	if len(accepted) == 0 || !g.point() {
		return nil
	}
	k := accepted[g.r.Intn(len(accepted))]
	switch g.r.Intn(3) {
	case 0:
		return []*lib.Op{{Code: "AE", Key: k, Want: "r"}}
	case 1:
		ops := []*lib.Op{op("AK")}
		ops = append(ops, g.keyTries()...)
		return append(ops, &lib.Op{Code: "X", V: lib.Str(k), Want: "r"})
	default:
		ops := []*lib.Op{op("AK")}
		return append(ops, &lib.Op{Code: "XN", N: lib.PlainSpec(lib.Str(k)), Want: "r"})
	}
}

// the engine whose own nodes serve as AssignNode arguments: fixed for the per-engine scripts of the
// typed family, "SAME" (replaced per engine when the case is run) for scripts shared by the engines
func (g *injGen) engName() string {
	if g.eng != "" {
		return g.eng
	}
	return "SAME"
}

func (g *injGen) entryHead(k string) []*lib.Op {
	if g.ctxTy != "" && g.r.Chance(15) { // the key as the node the engine's own map iterator yields
		ops := []*lib.Op{op("AK")}
		ops = append(ops, g.keyTries()...)
		return append(ops, &lib.Op{Code: "XN", N: &lib.NSpec{Tag: 'K', Eng: g.engName(), Ty: g.ctxTy, Key: k, V: g.ctxV}}, op("AV"))
	}
	switch g.r.Intn(3) {
	case 0:
		return []*lib.Op{{Code: "AE", Key: k}}
	case 1:
		ops := []*lib.Op{op("AK")}
		ops = append(ops, g.keyTries()...)
		return append(ops, &lib.Op{Code: "X", V: lib.Str(k)}, op("AV"))
	default:
		ops := []*lib.Op{op("AK")}
		ops = append(ops, g.keyTries()...)
		return append(ops, &lib.Op{Code: "XN", N: lib.PlainSpec(lib.Str(k))}, op("AV"))
	}
}

// untyped: any value at an any-kind position
func (g *injGen) value(v *lib.Val) []*lib.Op {
	switch v.Kind {
	case lib.KList:
		ops := []*lib.Op{{Code: "BL", Hint: int64(g.r.Intn(5)) - 2}}
		for _, x := range v.L {
			ops = append(ops, op("AV"))
			ops = append(ops, g.value(x)...)
		}
		return append(ops, op("FI"))
	case lib.KMap:
		ops := []*lib.Op{{Code: "BM", Hint: int64(g.r.Intn(5)) - 2}}
		var acc []string
		for _, e := range v.M {
			ops = append(ops, g.dup(acc)...)
			ops = append(ops, g.entryHead(e.K)...)
			ops = append(ops, g.value(e.V)...)
			acc = append(acc, e.K)
		}
		ops = append(ops, g.dup(acc)...)
		return append(ops, op("FI"))
	case lib.KInt:
		if v.I.Cmp(lib.Two63) >= 0 {
			return []*lib.Op{{Code: "XN", N: lib.PlainSpec(v)}}
		}
	}
	if g.r.Chance(15) {
		return []*lib.Op{{Code: "XN", N: lib.PlainSpec(v)}}
	}
	return []*lib.Op{{Code: "X", V: v}}
}

var intTries = []*lib.Op{
	{Code: "X", V: lib.Str("x")}, {Code: "X", V: lib.Bool(false)}, {Code: "BM", Hint: 0}, {Code: "BL", Hint: 0},
	{Code: "X", V: lib.Bytes("")}, {Code: "XN", N: lib.PlainSpec(lib.Str("7"))},
}
var structTries = []*lib.Op{
	{Code: "X", V: lib.Int(1)}, {Code: "X", V: lib.Str("x")}, {Code: "BL", Hint: 0}, {Code: "X", V: lib.Bool(true)},
}

// typed: a Msg3 struct (fields in a random order)
func (g *injGen) msg3(v *lib.Val) []*lib.Op {
	ops := []*lib.Op{{Code: "BM", Hint: 3}}
	var acc []string
	saveTy, saveV := g.ctxTy, g.ctxV
	g.ctxTy, g.ctxV = lib.TypedFamily()[6].Text(), v
	defer func() { g.ctxTy, g.ctxV = saveTy, saveV }()
	for _, i := range g.r.Perm(3) {
		e := v.M[i]
		ops = append(ops, g.dup(acc)...)
		if g.point() { // Finish before every field is there: refused, nothing changes
			ops = append(ops, &lib.Op{Code: "FI", Want: "m"})
		}
		if g.genOnly && g.point() { // a name that is not a field (generated code: invalid key)
			if g.r.Bool() {
				ops = append(ops, &lib.Op{Code: "AE", Key: "nope", Want: "k"})
			} else {
				ops = append(ops, op("AK"), &lib.Op{Code: "X", V: lib.Str("whe"), Want: "k"}, &lib.Op{Code: "X", V: lib.Str(e.K)}, op("AV"))
				goto value
			}
		}
		ops = append(ops, g.entryHead(e.K)...)
	value:
		if g.point() {
			ops = append(ops, want(intTries[g.r.Intn(len(intTries))], "w"))
		}
		switch c := g.r.Intn(100); {
		case c < 15:
			ops = append(ops, &lib.Op{Code: "XN", N: lib.PlainSpec(e.V)})
		case c < 27: // a gendemo Int node: the generated code's own scalar type, a foreign node for bindnode
			ops = append(ops, &lib.Op{Code: "XN", N: &lib.NSpec{Tag: 'I', V: e.V}})
		case c < 42: // the field looked up from another Msg3 of the same engine
			ops = append(ops, &lib.Op{Code: "XN", N: &lib.NSpec{Tag: 'F', Eng: g.engName(), Ty: g.ctxTy, Key: e.K, V: v}})
		default:
			ops = append(ops, &lib.Op{Code: "X", V: e.V})
		}
		acc = append(acc, e.K)
	}
	ops = append(ops, g.dup(acc)...)
	return append(ops, op("FI"))
}

// a Msg3 at a struct position: assembled, or a whole node of the same engine
func (g *injGen) msg3pos(v *lib.Val) []*lib.Op {
	if g.r.Chance(12) {
		return []*lib.Op{{Code: "XN", N: &lib.NSpec{Tag: 'T', Eng: g.engName(), Ty: lib.TypedFamily()[6].Text(), V: v}}}
	}
	return g.msg3(v)
}

func (g *injGen) mapMsg3(v *lib.Val) []*lib.Op {
	ops := []*lib.Op{{Code: "BM", Hint: int64(len(v.M))}}
	var acc []string
	mty := lib.TypedFamily()[5].Text()
	for _, e := range v.M {
		ops = append(ops, g.dup(acc)...)
		g.ctxTy, g.ctxV = mty, v
		ops = append(ops, g.entryHead(e.K)...)
		g.ctxTy, g.ctxV = "", nil
		if g.point() {
			ops = append(ops, want(structTries[g.r.Intn(len(structTries))], "w"))
		}
		if g.r.Chance(15) { // the value looked up from another map of the same engine
			ops = append(ops, &lib.Op{Code: "XN", N: &lib.NSpec{Tag: 'F', Eng: g.engName(), Ty: mty, Key: e.K, V: v}})
			acc = append(acc, e.K)
			continue
		}
		ops = append(ops, g.msg3pos(e.V)...)
		acc = append(acc, e.K)
	}
	ops = append(ops, g.dup(acc)...)
	return append(ops, op("FI"))
}

// ---- the modelled typed family (coq/Node/Typed.v): Msg3 (S), {String:T} (M), [T] (L), spelled
// outside-in: LMS = [{String:Msg3}]

func shapeTy(spec string) *lib.SchTy {
	switch spec[0] {
	case 'M':
		return lib.SchMapOf(false, shapeTy(spec[1:]))
	case 'L':
		return lib.SchList(false, shapeTy(spec[1:]))
	}
	return lib.TypedFamily()[6]
}

func genShape(r *lib.Rng, spec string) *lib.Val {
	switch spec[0] {
	case 'M':
		v := &lib.Val{Kind: lib.KMap}
		for i, n := 0, r.Intn(4); i < n; i++ {
			key := lib.StrPool[r.Intn(len(lib.StrPool))]
			dup := false
			for _, e := range v.M {
				dup = dup || e.K == key
			}
			if !dup {
				v.M = append(v.M, lib.Entry{K: key, V: genShape(r, spec[1:])})
			}
		}
		return v
	case 'L':
		v := &lib.Val{Kind: lib.KList}
		for i, n := 0, r.Intn(4); i < n; i++ {
			v.L = append(v.L, genShape(r, spec[1:]))
		}
		return v
	}
	return genMsg3(r)
}

var listTries = []*lib.Op{
	{Code: "X", V: lib.Int(1)}, {Code: "X", V: lib.Str("x")}, {Code: "BM", Hint: 0}, {Code: "X", V: lib.Bool(true)},
	{Code: "XN", N: lib.PlainSpec(lib.Map())},
}
var mapTries = append(append([]*lib.Op{}, structTries...), &lib.Op{Code: "XN", N: lib.PlainSpec(lib.List())}, &lib.Op{Code: "XN", N: lib.PlainSpec(lib.Int(3))})

func (g *injGen) shape(spec string, v *lib.Val, root bool) []*lib.Op {
	var ops []*lib.Op
	if g.point() {
		tr := mapTries
		if spec[0] == 'L' {
			tr = listTries
		}
		for i, n := 0, 1+g.r.Intn(2); i < n; i++ {
			ops = append(ops, want(tr[g.r.Intn(len(tr))], "w"))
		}
	}
	p := 25
	if root {
		p = 8
	}
	if g.r.Chance(p) { // the whole value as a node of another implementation
		return append(ops, &lib.Op{Code: "XN", N: lib.PlainSpec(v)})
	}
	if g.r.Chance(p / 2) { // ... or of the same engine and type
		return append(ops, &lib.Op{Code: "XN", N: &lib.NSpec{Tag: 'T', Eng: g.engName(), Ty: shapeTy(spec).Text(), V: v}})
	}
	if g.r.Chance(p / 2) { // ... or the representation VIEW of one: not the assembler's own type, ranged over
		return append(ops, &lib.Op{Code: "XN", N: &lib.NSpec{Tag: 'T', Eng: g.engName() + "R", Ty: shapeTy(spec).Text(), V: v}})
	}
	switch spec[0] {
	case 'M':
		ops = append(ops, &lib.Op{Code: "BM", Hint: int64(len(v.M)) + int64(g.r.Intn(3)) - 1})
		var acc []string
		mty := shapeTy(spec).Text()
		for _, e := range v.M {
			ops = append(ops, g.dup(acc)...)
			g.ctxTy, g.ctxV = mty, v
			ops = append(ops, g.entryHead(e.K)...)
			g.ctxTy, g.ctxV = "", nil
			if g.r.Chance(12) { // the value looked up from another map of the same engine
				ops = append(ops, &lib.Op{Code: "XN", N: &lib.NSpec{Tag: 'F', Eng: g.engName(), Ty: mty, Key: e.K, V: v}})
			} else {
				ops = append(ops, g.shape(spec[1:], e.V, false)...)
			}
			acc = append(acc, e.K)
		}
		ops = append(ops, g.dup(acc)...)
		return append(ops, op("FI"))
	case 'L':
		ops = append(ops, &lib.Op{Code: "BL", Hint: int64(len(v.L)) + int64(g.r.Intn(3)) - 1})
		for _, x := range v.L {
			ops = append(ops, op("AV"))
			ops = append(ops, g.shape(spec[1:], x, false)...)
		}
		return append(ops, op("FI"))
	}
	return append(ops, g.msg3(v)...)
}

// ---- the typed family: every assign form, at every typed position

type form struct {
	op  *lib.Op
	cls string // what the call carries: n b i U(int above MaxInt64) d s y k L M
}

var sampleCid = lib.NewRng(1).GenCid()

func uspec(u uint64) *lib.NSpec { return &lib.NSpec{Tag: 'u', V: lib.Uint(u)} }

var allForms = []form{
	{&lib.Op{Code: "X", V: lib.Null()}, "n"}, {&lib.Op{Code: "X", V: lib.Bool(true)}, "b"},
	{&lib.Op{Code: "X", V: lib.Int(7)}, "i"}, {&lib.Op{Code: "X", V: lib.Float(1.5)}, "d"},
	{&lib.Op{Code: "X", V: lib.Str("7")}, "s"}, {&lib.Op{Code: "X", V: lib.Bytes("7")}, "y"},
	{&lib.Op{Code: "X", V: lib.Link(sampleCid)}, "k"},
	{&lib.Op{Code: "BM", Hint: 1}, "M"}, {&lib.Op{Code: "BL", Hint: 1}, "L"},
	{&lib.Op{Code: "XN", N: lib.PlainSpec(lib.Null())}, "n"}, {&lib.Op{Code: "XN", N: lib.PlainSpec(lib.Bool(false))}, "b"},
	{&lib.Op{Code: "XN", N: lib.PlainSpec(lib.Int(-3))}, "i"}, {&lib.Op{Code: "XN", N: uspec(5)}, "i"},
	{&lib.Op{Code: "XN", N: uspec(1 << 63)}, "U"}, {&lib.Op{Code: "XN", N: uspec(1<<64 - 1)}, "U"},
	{&lib.Op{Code: "XN", N: lib.PlainSpec(lib.Float(0.5))}, "d"}, {&lib.Op{Code: "XN", N: lib.PlainSpec(lib.Str("s"))}, "s"},
	{&lib.Op{Code: "XN", N: lib.PlainSpec(lib.Bytes("b"))}, "y"}, {&lib.Op{Code: "XN", N: lib.PlainSpec(lib.Link(sampleCid))}, "k"},
	{&lib.Op{Code: "XN", N: lib.PlainSpec(lib.List())}, "L"}, {&lib.Op{Code: "XN", N: lib.PlainSpec(lib.List(lib.Int(1)))}, "L"},
	{&lib.Op{Code: "XN", N: lib.PlainSpec(lib.Map())}, "M"}, {&lib.Op{Code: "XN", N: lib.PlainSpec(lib.Map(lib.Entry{K: "k", V: lib.Int(1)}))}, "M"},
}

var acceptCls = map[byte]string{'B': "b", 'I': "i", 'D': "d", 'S': "s", 'Y': "y", 'K': "k", 'L': "L", 'M': "M", 'R': "M"}

// the calls a position of type t (nullable or not) must refuse
func refused(t *lib.SchTy, nul bool) []form {
	if t.K == 'A' {
		return nil
	}
	var out []form
	for _, f := range allForms {
		switch {
		case f.cls == "n":
			if !nul {
				out = append(out, f)
			}
		case f.cls == acceptCls[t.K]:
		default:
			out = append(out, f)
		}
	}
	return out
}

func (g *injGen) tries(t *lib.SchTy, nul bool) []*lib.Op {
	fs := refused(t, nul)
	if len(fs) == 0 || !g.point() {
		return nil
	}
	var ops []*lib.Op
	w := "E" + string(t.K)
	if g.target == -2 {
		for _, f := range fs {
			ops = append(ops, want(f.op, w))
		}
		return ops
	}
	for i, n := 0, 1+g.r.Intn(3); i < n; i++ {
		ops = append(ops, want(fs[g.r.Intn(len(fs))].op, w))
	}
	return ops
}

// a type-level value v of type t at a typed position
func (g *injGen) typedValue(t *lib.SchTy, nul bool, v *lib.Val) []*lib.Op {
	ops := g.tries(t, nul)
	if t.K == 'A' {
		return append(ops, g.value(v)...)
	}
	if v.Kind == lib.KNull {
		if g.r.Bool() {
			return append(ops, &lib.Op{Code: "X", V: v})
		}
		return append(ops, &lib.Op{Code: "XN", N: lib.PlainSpec(v)})
	}
	if t.K == 'L' || t.K == 'M' || t.K == 'R' {
		// a container of the schema can arrive built call by call, as a node of ANOTHER
		// implementation (basicnode; the assembler ranges over it), or as a node of the SAME engine
		// (same-type shortcut).  Children of one parent mix the three, often several foreign ones in a row.
		pForeign, pSame := 35, 15
		if g.depth == 0 {
			pForeign, pSame = 8, 4
		}
		switch c := g.r.Intn(100); {
		case c < pForeign:
			return append(ops, &lib.Op{Code: "XN", N: lib.PlainSpec(v)})
		case c < pForeign+pSame:
			if nb, _ := lib.TypedBuilder(g.eng, t); nb != nil {
				return append(ops, &lib.Op{Code: "XN", N: &lib.NSpec{Tag: 'T', Eng: g.eng, Ty: t.Text(), V: v}})
			}
		}
	}
	g.depth++
	defer func() { g.depth-- }()
	switch t.K {
	case 'L':
		ops = append(ops, &lib.Op{Code: "BL", Hint: int64(len(v.L)) + int64(g.r.Intn(3)) - 1})
		for _, x := range v.L {
			ops = append(ops, op("AV"))
			ops = append(ops, g.typedValue(t.Elem, t.Nul, x)...)
		}
		return append(ops, op("FI"))
	case 'M':
		ops = append(ops, &lib.Op{Code: "BM", Hint: int64(len(v.M))})
		for _, e := range v.M {
			g.ctxTy, g.ctxV = t.Text(), v
			ops = append(ops, g.entryHead(e.K)...)
			g.ctxTy, g.ctxV = "", nil
			if g.r.Chance(12) { // the value looked up from another map of the same engine and type
				ops = append(ops, &lib.Op{Code: "XN", N: &lib.NSpec{Tag: 'F', Eng: g.eng, Ty: t.Text(), Key: e.K, V: v}})
				continue
			}
			ops = append(ops, g.typedValue(t.Elem, t.Nul, e.V)...)
		}
		return append(ops, op("FI"))
	case 'R':
		ops = append(ops, &lib.Op{Code: "BM", Hint: int64(len(v.M))})
		for _, i := range g.r.Perm(len(v.M)) {
			e := v.M[i]
			var ft *lib.SchField
			for j := range t.Fields {
				if t.Fields[j].Name == e.K {
					ft = &t.Fields[j]
				}
			}
			g.ctxTy, g.ctxV = t.Text(), v
			ops = append(ops, g.entryHead(e.K)...)
			g.ctxTy, g.ctxV = "", nil
			if g.r.Chance(15) { // the field looked up from another struct of the same engine and type
				ops = append(ops, &lib.Op{Code: "XN", N: &lib.NSpec{Tag: 'F', Eng: g.eng, Ty: t.Text(), Key: e.K, V: v}})
				continue
			}
			ops = append(ops, g.typedValue(ft.T, ft.Nul, e.V)...)
		}
		return append(ops, op("FI"))
	}
	if t.K == 'I' && v.I.Sign() >= 0 && g.r.Chance(15) {
		// an int that arrives as a datamodel.UintNode within the int64 range is acceptable
		return append(ops, &lib.Op{Code: "XN", N: &lib.NSpec{Tag: 'u', V: v}})
	}
	if g.r.Chance(25) {
		return append(ops, &lib.Op{Code: "XN", N: lib.PlainSpec(v)})
	}
	return append(ops, &lib.Op{Code: "X", V: v})
}

// the typed family on every engine that has the type: per engine its own variants (the scripts
// differ only in same-engine AssignNode arguments)
func runTyped(out *lib.Out, base string, t *lib.SchTy, v *lib.Val, seed uint64, fixed [][]*lib.Op) {
	for _, e := range lib.TypedEngines {
		nb, err := lib.TypedBuilder(e, t)
		if nb == nil {
			if e == "tbind" {
				panic(fmt.Sprintf("bindnode cannot bind %s: %v", t.Text(), err))
			}
			continue
		}
		engine := e + ":" + t.Text()
		want := lib.TypedExpect(t, v, lib.TypedRepr(e))
		scripts := fixed
		if scripts == nil {
			e := e
			scripts = variants(seed, func(g *injGen) []*lib.Op { g.eng = e; return g.typedValue(t, false, v) }, true, 4)
		}
		for j, s := range scripts {
			script := strings.ReplaceAll(lib.ScriptText(s), "T"+lib.Hex("SAME:"), "T"+lib.Hex(e+":"))
			out.Case(fmt.Sprintf("%s.%d.%s", base, j, e[1:]), "c12", engine, want, script, observe(engine, script))
		}
	}
}

func genMsg3(r *lib.Rng) *lib.Val {
	v := &lib.Val{Kind: lib.KMap}
	for _, f := range lib.Msg3Fields {
		var i int64
		switch r.Intn(3) {
		case 0:
			i = int64(r.Intn(10))
		case 1:
			i = lib.IntPool[r.Intn(len(lib.IntPool))].Int64()
			if lib.IntPool[r.Intn(len(lib.IntPool))].Cmp(lib.Two63) >= 0 {
				i = -7
			}
		default:
			i = int64(r.U64())
		}
		v.M = append(v.M, lib.Entry{K: f, V: &lib.Val{Kind: lib.KInt, I: big.NewInt(i)}})
	}
	return v
}

var rootTries = map[string][]*lib.Op{
	"map":    {{Code: "X", V: lib.Int(1)}, {Code: "BL", Hint: 0}, {Code: "X", V: lib.Str("m")}, {Code: "XN", N: lib.PlainSpec(lib.List())}, {Code: "X", V: lib.Null()}},
	"list":   {{Code: "X", V: lib.Int(1)}, {Code: "BM", Hint: 0}, {Code: "X", V: lib.Bytes("m")}, {Code: "XN", N: lib.PlainSpec(lib.Map())}},
	"bool":   {{Code: "X", V: lib.Int(1)}, {Code: "BM", Hint: 0}, {Code: "XN", N: lib.PlainSpec(lib.Str("true"))}},
	"int":    {{Code: "X", V: lib.Str("1")}, {Code: "BL", Hint: 0}, {Code: "X", V: lib.Float(1)}, {Code: "XN", N: lib.PlainSpec(lib.Float(1))}},
	"float":  {{Code: "X", V: lib.Int(1)}, {Code: "BL", Hint: 0}},
	"string": {{Code: "X", V: lib.Bytes("s")}, {Code: "BM", Hint: 0}, {Code: "XN", N: lib.PlainSpec(lib.Bytes("s"))}},
	"bytes":  {{Code: "X", V: lib.Str("b")}, {Code: "X", V: lib.Null()}},
	"link":   {{Code: "X", V: lib.Str("l")}, {Code: "X", V: lib.Bytes("l")}},
}

func kindProto(v *lib.Val) string {
	return [...]string{"any", "bool", "int", "float", "string", "bytes", "link", "list", "map"}[v.Kind]
}

// variants: the clean script, one script per injection point, and one with every point firing
func variants(seed uint64, gen func(g *injGen) []*lib.Op, typed bool, maxSingles int) [][]*lib.Op {
	run := func(target int) (*injGen, []*lib.Op) {
		g := &injGen{r: lib.NewRng(seed), target: target, typed: typed}
		return g, gen(g)
	}
	g0, clean := run(-1)
	out := [][]*lib.Op{clean}
	step := 1
	if g0.count > maxSingles {
		step = (g0.count + maxSingles - 1) / maxSingles
	}
	for i := 0; i < g0.count; i += step {
		_, s := run(i)
		if lib.ScriptText(s) != lib.ScriptText(clean) {
			out = append(out, s)
		}
	}
	if g0.count > 1 {
		_, s := run(-2)
		out = append(out, s)
	}
	return out
}

// ---------------------------------------------------------------- exhaustive prefixes

var alphabet = []string{"BM0", "BL0", "AK", "AV", "AE61", "AE62", "Xs61", "Xi1", "FI"}

func enumerate(out *lib.Out, next func() string, depth int, budget *int) {
	var rec func(prefix []string)
	rec = func(prefix []string) {
		for _, a := range alphabet {
			if *budget <= 0 {
				return
			}
			seq := append(append([]string{}, prefix...), a)
			script := strings.Join(seq, " ")
			obs := observe("enum:any", script)
			*budget--
			out.Case(next(), "c12", "enum:any", "", script, obs)
			tr := obs[3:strings.IndexByte(obs, '|')]
			if len(seq) < depth && !strings.ContainsAny(tr, "PX") {
				rec(seq)
			}
		}
	}
	rec(nil)
}

func main() {
	fl := lib.ParseFlags()
	out := lib.OpenOut(fl.Out)
	defer out.Close()
	probes(out)
	if fl.Replay != "" {
		for _, line := range lib.ReadLines(fl.Replay) {
			f := strings.Split(line, "\t")
			if len(f) < 5 || f[1] != "c12" {
				continue
			}
			out.Case(f[0], "c12", f[2], f[3], f[4], observe(f[2], f[4]))
		}
		return
	}
	n := fl.N
	if n == 0 {
		n = 400
		if fl.Tier == "thorough" {
			n = 20000
		}
	}
	rng := lib.NewRng(fl.Seed)
	id := 0
	next := func() string { id++; return fmt.Sprintf("c%d", id) }

	// ---- fixed corpus: the witnesses of the findings, the smallest rollback scenarios
	m3 := lib.Map(lib.Entry{K: "whee", V: lib.Int(1)}, lib.Entry{K: "woot", V: lib.Int(2)}, lib.Entry{K: "waga", V: lib.Int(3)})
	for _, e := range []string{"bind:S", "gen:S"} {
		runCase(out, next(), e, []*lib.Val{m3}, hexScript("BM3 AE:whee Xi1 AE:whee!r AE:woot Xi2 AE:waga Xi3 FI"))
		runCase(out, next(), e, []*lib.Val{m3}, hexScript("BM3 AE:whee Xi1 AK Xs:whee!r AE:woot Xi2 AE:waga Xi3 FI"))
		runCase(out, next(), e, []*lib.Val{m3}, hexScript("BM3 AE:whee Xi1 AK Xs:whee!r AK Xs:woot AV Xi2 AE:waga Xi3 FI"))
		runCase(out, next(), e, []*lib.Val{m3, m3}, hexScript("BM3 AE:whee Xi1 AE:woot Xi2 AE:waga Xi3 FI RS BM3 AE:waga Xi3 AE:woot Xi2 AE:whee Xi1 FI"))
	}
	mm := lib.Map(lib.Entry{K: "a", V: m3})
	for _, e := range []string{"bind:M", "gen:M"} {
		one := "BM3 AE:whee Xi1 AE:woot Xi2 AE:waga Xi3 FI"
		runCase(out, next(), e, []*lib.Val{mm}, hexScript("BM1 AE:a "+one+" AE:a!r FI"))
		runCase(out, next(), e, []*lib.Val{mm}, hexScript("BM1 AE:a "+one+" AK Xs:a!r FI"))
		runCase(out, next(), e, []*lib.Val{mm, lib.Map()}, hexScript("BM1 AE:a "+one+" FI RS BM0 FI"))
	}
	ab := lib.Map(lib.Entry{K: "a", V: lib.Int(1)}, lib.Entry{K: "b", V: lib.List(lib.Null())})
	for _, p := range []string{"basic:any", "basic:map"} {
		runCase(out, next(), p, []*lib.Val{ab}, hexScript("BM2 AE:a Xi1 AE:a!r AK Xi5!w Xs:a!r AK Xs:b AV BL-4 AV Xn FI AE:b!r FI"))
		runCase(out, next(), p, []*lib.Val{ab, lib.Map()}, hexScript("BM2 AE:a Xi1 AE:b BL0 AV Xn FI FI RS BM0 FI"))
	}

	l3 := lib.List(lib.Int(1), lib.Int(2), lib.Int(3))
	l1 := lib.List(lib.Int(9))
	for _, p := range []string{"basic:any", "basic:list"} {
		runCase(out, next(), p, []*lib.Val{l3, l1}, "BL3 AV Xi1 AV Xi2 AV Xi3 FI RS BL0 AV Xi9 FI")
		runCase(out, next(), p, []*lib.Val{l1, l3}, "BL1 AV Xi9 FI RS BL-1 AV Xi1 AV Xi2 AV Xi3 FI")
	}

	// ---- exhaustive call sequences over a small alphabet (anyBuilder), live prefixes only
	budget := 6000
	depth := 6
	if fl.Tier == "thorough" {
		budget, depth = 400000, 8
	}
	enumerate(out, next, depth, &budget)

	{ // a container of structs whose children arrive, several in a row, as nodes of another implementation
		mk := func(a, b, c int64) *lib.Val {
			return lib.Map(lib.Entry{K: "whee", V: lib.Int(a)}, lib.Entry{K: "woot", V: lib.Int(b)}, lib.Entry{K: "waga", V: lib.Int(c)})
		}
		mt := lib.TypedFamily()[5] // {String:Msg3}
		st := lib.TypedFamily()[6] // Msg3
		vs := []*lib.Val{mk(1, 2, 3), mk(4, 5, 6), mk(7, 8, 9), mk(10, 11, 12), mk(13, 14, 15)}
		v := &lib.Val{Kind: lib.KMap}
		for i, x := range vs {
			v.M = append(v.M, lib.Entry{K: fmt.Sprintf("k%d", i), V: x})
		}
		foreign := func(x *lib.Val) []*lib.Op { return []*lib.Op{{Code: "XN", N: lib.PlainSpec(x)}} }
		same := func(x *lib.Val) []*lib.Op {
			return []*lib.Op{{Code: "XN", N: &lib.NSpec{Tag: 'T', Eng: "SAME", Ty: st.Text(), V: x}}}
		}
		begin := func(x *lib.Val) []*lib.Op { return lib.DirectScript(x) }
		for _, modes := range [][]func(*lib.Val) []*lib.Op{
			{foreign, foreign, foreign, foreign, foreign},
			{begin, foreign, foreign, same, foreign},
			{same, foreign, begin, foreign, foreign},
			{foreign, same, same, begin, begin},
		} {
			ops := []*lib.Op{{Code: "BM", Hint: 5}}
			for i, e := range v.M {
				ops = append(ops, &lib.Op{Code: "AE", Key: e.K})
				ops = append(ops, modes[i](e.V)...)
			}
			ops = append(ops, op("FI"))
			runTyped(out, next(), mt, v, 0, [][]*lib.Op{ops})
		}
	}

	// ---- the typed family (bindnode over inferred Go types; gendemo where the type exists):
	// legal scripts with every refused assign form injected at every typed position
	fam := lib.TypedFamily()
	nfam := n / 2
	for i := 0; i < len(fam)*2+nfam; i++ {
		var t *lib.SchTy
		if i < len(fam)*2 {
			t = fam[i%len(fam)]
		} else {
			// (a root of type Any is left out: bindnode's node for it reports Kind Invalid, cf. union_any of C08)
			t = rng.GenTypedTy(0)
			for t.K == 'A' || (t.K != 'L' && t.K != 'M' && t.K != 'R' && rng.Chance(80)) {
				t = rng.GenTypedTy(0)
			}
		}
		v := rng.GenTypedVal(t)
		runTyped(out, next(), t, v, rng.U64(), nil)
	}
	for i := 0; i < 12; i++ { // the one container-of-structs type both engines have: more rounds
		t := fam[5]
		runTyped(out, next(), t, rng.GenTypedVal(t), rng.U64(), nil)
	}

	// ---- generated: values x legal scripts x injections at every position
	cfg := &lib.GenCfg{MaxDepth: 3, MaxWidth: 3, Links: true, UintBeyond: true, BadUTF8: true}
	for i := 0; i < n; i++ {
		base := next()
		seed := rng.U64()
		switch i % 4 {
		case 0, 1: // basicnode
			v := rng.GenVal(cfg, 0)
			if i%8 < 6 {
				for v.Kind != lib.KMap || len(v.M) == 0 {
					v = rng.GenVal(cfg, 0)
				}
			}
			proto := "any"
			if rng.Chance(40) && !(v.Kind == lib.KInt && v.I.Cmp(lib.Two63) >= 0) {
				proto = kindProto(v)
			}
			gen := func(g *injGen) []*lib.Op {
				var ops []*lib.Op
				if tries, ok := rootTries[proto]; ok && g.point() {
					k := 1 + g.r.Intn(2)
					for j := 0; j < k; j++ {
						ops = append(ops, want(tries[g.r.Intn(len(tries))], "w"))
					}
				}
				return append(ops, g.value(v)...)
			}
			for j, s := range variants(seed, gen, false, 6) {
				runCase(out, fmt.Sprintf("%s.%d", base, j), "basic:"+proto, []*lib.Val{v}, lib.ScriptText(s))
			}
		case 2: // Msg3 in both typed engines: the same script
			v := genMsg3(rng)
			for j, s := range variants(seed, func(g *injGen) []*lib.Op { return g.msg3(v) }, true, 5) {
				for _, e := range []string{"bind:S", "gen:S"} {
					runCase(out, fmt.Sprintf("%s.%d.%s", base, j, e[:1]), e, []*lib.Val{v}, lib.ScriptText(s))
				}
			}
			for j, s := range variants(seed+1, func(g *injGen) []*lib.Op { g.genOnly = true; return g.msg3(v) }, true, 3) {
				runCase(out, fmt.Sprintf("%s.u%d.g", base, j), "gen:S", []*lib.Val{v}, lib.ScriptText(s))
			}
		case 3: // deeper shapes of the modelled family: bindnode over inferred Go types; gendemo for S and MS
			if i%8 == 3 {
				specs := []string{"LS", "LMS", "MMS", "MLS", "LLS", "MS", "S", "MS"}
				spec := specs[rng.Intn(len(specs))]
				v := genShape(rng, spec)
				for j, s := range variants(seed, func(g *injGen) []*lib.Op { return g.shape(spec, v, true) }, true, 5) {
					runCase(out, fmt.Sprintf("%s.%d.b", base, j), "bind:"+spec, []*lib.Val{v}, lib.ScriptText(s))
					if spec == "S" || spec == "MS" {
						runCase(out, fmt.Sprintf("%s.%d.g", base, j), "gen:"+spec, []*lib.Val{v}, lib.ScriptText(s))
					}
				}
				continue
			}
			fallthrough
		default: // {String:Msg3}
			v := &lib.Val{Kind: lib.KMap}
			cnt := rng.Intn(4)
			seen := map[string]bool{}
			for k := 0; k < cnt; k++ {
				key := rng.GenStr(cfg)
				if seen[key] {
					continue
				}
				seen[key] = true
				v.M = append(v.M, lib.Entry{K: key, V: genMsg3(rng)})
			}
			for j, s := range variants(seed, func(g *injGen) []*lib.Op { return g.mapMsg3(v) }, true, 5) {
				for _, e := range []string{"bind:M", "gen:M"} {
					runCase(out, fmt.Sprintf("%s.%d.%s", base, j, e[:1]), e, []*lib.Val{v}, lib.ScriptText(s))
				}
			}
		}
	}
}

// probes of the known defects of the typed engines (see harness/lib/node_probe.go)
func probes(out *lib.Out) {
	letterAt := func(engine, script string, i int) byte {
		obs := observe(engine, hexScript(script))
		tr := obs[3:strings.IndexByte(obs, '|')]
		if i < len(tr) {
			return tr[i]
		}
		return '?'
	}
	bit := func(b bool) string {
		if b {
			return "1"
		}
		return "0"
	}
	out.Case("p1", "probe", "bind_struct_nodup", bit(letterAt("bind:S", "BM3 AE:whee Xi1 AE:whee", 3) == '.'))
	one := "BM3 AE:whee Xi1 AE:woot Xi2 AE:waga Xi3 FI"
	out.Case("p2", "probe", "bind_map_nodup", bit(letterAt("bind:M", "BM1 AE:a "+one+" AE:a", 10) == '.'))
	out.Case("p3", "probe", "bind_reset_panics", bit(strings.Contains(observe("bind:M", "BM0 FI RS BM0 FI"), "rs=P")))
	out.Case("p4", "probe", "gen_struct_stuck", bit(letterAt("gen:S", "BM3 AE:whee Xi1 AK Xs:whee AK", 5) == 'P'))
	out.Case("p6", "probe", "gen_map_node_panics", bit(letterAt("gen:M", "XN m1 k61 m3 k:whee i1 k:woot i2 k:waga i3", 0) == 'P'))
	out.Case("p5", "probe", "gen_map_key_nodup", bit(letterAt("gen:M", "BM1 AE:a "+one+" AK Xs:a", 11) == '.'))
}

// hexScript: "AE:whee" / "Xs:whee" spelled with readable keys -> hex tokens
func hexScript(s string) string {
	toks := strings.Fields(s)
	for i, t := range toks {
		if j := strings.IndexByte(t, ':'); j >= 0 {
			rest := t[j+1:]
			w := ""
			if k := strings.IndexByte(rest, '!'); k >= 0 {
				w = rest[k:]
				rest = rest[:k]
			}
			toks[i] = t[:j] + lib.Hex(rest) + w
		}
	}
	return strings.Join(toks, " ")
}
