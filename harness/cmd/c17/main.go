// c17: block storage is a faithful key-value map (memstore, cidlink.Memory, fsstore).
// Record: id, store (mem|cidmem|fs | Lmem|Lcidmem|Lfs), config, ops, observation
//   L* = the fixed LARGE-BLOCK cases (1, 2, 4, 8 MiB -1/exact/+1): same operations, no listing, plus
//        "R:" = the store is reopened (a new fsstore.Store on the same directory); their expected
//        observations are computed by the driver from the map specification on native strings
//        (sound by C17_refines / C17_refines_fs; multi-MiB Coq lists are not materialised)
//   config: "-" for the in-memory stores; "<r12|r122|r133>,q<ab>" for fsstore, where a/b are the
//           probed quirks of the tree under test (a=1: escapingFunc not applied; b=1: commit("") ok)
//           the store spec may carry ":hex" = a CUSTOM escaping function (upper-case hex) instead of base32
//   ops (space separated):  n:<hex> new slice | N:<len.seed+len.seed..> new slice with generated content | m:<h>:<hex> overwrite slice h | p:<key>:<h> Put
//           s:<key>:<h,h..> PutStream+Write*+commit | v:<key>:<h,h..> PutVec | g:<key> Get
//           r:<key> GetStream (drained) | k:<key> Peek | h:<key> Has        (keys in hex)
//           o: PutStream kept open (streams are numbered from 0) | w:<sid>:<h> Write slice h to stream sid
//           c:<sid>:<key> commit stream sid under key
//           (blocks above 2048 bytes are shown as B<len>:<md5> instead of hex, in tokens and listings)
//   observation: one token per op:  - | ok | e:<errno> | b:<hex> | se:<errno> | t | f | unsup | badh | panic
//           for fs every token whose operation changed the tree is followed by "#<listing>", and the
//           first token is "init#<listing>": the listing is of the WHOLE fresh parent directory.
package main

import (
	"bytes"
	"context"
	"crypto/sha256"
	"fmt"
	"io"
	"os"
	"runtime/pprof"
	"strconv"
	"strings"
	"time"

	"verifharness/lib"

	"github.com/ipfs/go-cid"
	"github.com/ipld/go-ipld-prime/datamodel"
	"github.com/ipld/go-ipld-prime/linking"
	cidlink "github.com/ipld/go-ipld-prime/linking/cid"
	"github.com/ipld/go-ipld-prime/storage"
	"github.com/ipld/go-ipld-prime/storage/memstore"
)

var ctx = context.Background()

// backend: what the op interpreter needs from a store
type backend interface {
	put(key string, b []byte) error
	putStream(key string, bs [][]byte) error
	putVec(key string, bs [][]byte) (error, bool)
	get(key string) ([]byte, error)
	getStream(key string) (io.ReadCloser, error, bool)
	peek(key string) ([]byte, error, bool)
	has(key string) (bool, error, bool)
	open() (io.Writer, func(key string) error, error)
}

type storageBackend struct {
	st interface {
		storage.ReadableStorage
		storage.WritableStorage
	}
}

func (s storageBackend) put(key string, b []byte) error { return storage.Put(ctx, s.st, key, b) }
func (s storageBackend) putStream(key string, bs [][]byte) error {
	w, commit, err := storage.PutStream(ctx, s.st)
	if err != nil {
		return err
	}
	for _, b := range bs {
		if _, err := w.Write(b); err != nil {
			return err
		}
	}
	return commit(key)
}
func (s storageBackend) open() (io.Writer, func(string) error, error) {
	return storage.PutStream(ctx, s.st)
}
func (m memoryBackend) open() (io.Writer, func(string) error, error) {
	w, commit, err := m.st.OpenWrite(linking.LinkContext{Ctx: ctx})
	if err != nil {
		return nil, nil, err
	}
	return w, func(key string) error {
		lnk, ok := linkOf(key)
		if !ok {
			return &lib.PanicError{Msg: "not a cid"}
		}
		return commit(lnk)
	}, nil
}
func (s storageBackend) putVec(key string, bs [][]byte) (error, bool) {
	return storage.PutVec(ctx, s.st, key, bs), true
}
func (s storageBackend) get(key string) ([]byte, error) { return storage.Get(ctx, s.st, key) }
func (s storageBackend) getStream(key string) (io.ReadCloser, error, bool) {
	r, err := storage.GetStream(ctx, s.st, key)
	return r, err, true
}
func (s storageBackend) peek(key string) ([]byte, error, bool) {
	b, c, err := storage.Peek(ctx, s.st, key)
	if c != nil {
		c.Close()
	}
	return b, err, true
}
func (s storageBackend) has(key string) (bool, error, bool) {
	h, err := storage.Has(ctx, s.st, key)
	return h, err, true
}

type memoryBackend struct{ st *cidlink.Memory }

func linkOf(key string) (datamodel.Link, bool) {
	c, err := cid.Cast([]byte(key))
	if err != nil {
		return nil, false
	}
	return cidlink.Link{Cid: c}, true
}
func (m memoryBackend) putStream(key string, bs [][]byte) error {
	lnk, ok := linkOf(key)
	if !ok {
		return &lib.PanicError{Msg: "not a cid"}
	}
	w, commit, err := m.st.OpenWrite(linking.LinkContext{Ctx: ctx})
	if err != nil {
		return err
	}
	for _, b := range bs {
		if _, err := w.Write(b); err != nil {
			return err
		}
	}
	return commit(lnk)
}
func (m memoryBackend) put(key string, b []byte) error { return m.putStream(key, [][]byte{b}) }
func (m memoryBackend) putVec(key string, bs [][]byte) (error, bool) { return nil, false }
func (m memoryBackend) get(key string) ([]byte, error) {
	lnk, ok := linkOf(key)
	if !ok {
		return nil, &lib.PanicError{Msg: "not a cid"}
	}
	r, err := m.st.OpenRead(linking.LinkContext{Ctx: ctx}, lnk)
	if err != nil {
		return nil, err
	}
	return io.ReadAll(r)
}
func (m memoryBackend) getStream(key string) (io.ReadCloser, error, bool) { return nil, nil, false }
func (m memoryBackend) peek(key string) ([]byte, error, bool)             { return nil, nil, false }
func (m memoryBackend) has(key string) (bool, error, bool)                { return false, nil, false }

type stream struct {
	w      io.Writer
	commit func(string) error
}

func errTok(err error) string { return "e:" + lib.StoreErrClass(err) }

func putTok(err error) string {
	if err == nil {
		return "ok"
	}
	if lib.IsPanic(err) {
		return "panic"
	}
	return errTok(err)
}

func parseHandles(s string) []int {
	if s == "" {
		return nil
	}
	var out []int
	for _, t := range strings.Split(s, ",") {
		i, _ := strconv.Atoi(t)
		out = append(out, i)
	}
	return out
}

// runOps interprets the op tokens against be; listing (if non-nil) is called after every op.
// Returns the ops actually run (ops refused by the sandbox guard are dropped) and the observation.
var reopen func() backend // set by runCase for the stores that can be reopened

func runOps(be backend, ops []string, guard func(key string) bool, listing func() string) ([]string, string) {
	var bufs [][]byte
	var streams []*stream
	var ran, obs []string
	last := ""
	emit := func(tok string) {
		if listing != nil {
			if l := listing(); l != last {
				last = l
				tok += "#" + l
			}
		}
		obs = append(obs, tok)
	}
	if listing != nil {
		emit("init")
	}
	gather := func(hs []int) ([][]byte, bool) {
		var out [][]byte
		for _, h := range hs {
			if h < 0 || h >= len(bufs) {
				return nil, false
			}
			out = append(out, bufs[h])
		}
		return out, true
	}
	for _, o := range ops {
		f := strings.Split(o, ":")
		if len(f) < 2 {
			continue
		}
		key := ""
		if f[0] == "c" && len(f) >= 3 {
			key = lib.UnHex(f[2])
			if key != "" && guard != nil && !guard(key) {
				continue
			}
		} else if f[0] != "n" && f[0] != "N" && f[0] != "m" && f[0] != "o" && f[0] != "w" && f[0] != "R" {
			key = lib.UnHex(f[1])
			if guard != nil && !guard(key) {
				continue
			}
		}
		ran = append(ran, o)
		var tok string
		err := lib.Safely(func() error {
			switch f[0] {
			case "n":
				bufs = append(bufs, []byte(lib.UnHex(f[1])))
				tok = "-"
			case "N":
				bufs = append(bufs, lib.BlobSpecBytes(f[1]))
				tok = "-"
			case "R":
				if reopen != nil {
					be = reopen()
				}
				tok = "-"
			case "m":
				h, _ := strconv.Atoi(f[1])
				if h < 0 || h >= len(bufs) {
					tok = "badh"
				} else {
					copy(bufs[h], lib.UnHex(f[2])) // in place: every alias of this slice sees it
					tok = "-"
				}
			case "p":
				h, _ := strconv.Atoi(f[2])
				if h < 0 || h >= len(bufs) {
					tok = "badh"
				} else {
					tok = putTok(lib.Safely(func() error { return be.put(key, bufs[h]) }))
				}
			case "s", "v":
				bs, ok := gather(parseHandles(f[2]))
				if _, isMem := be.(memoryBackend); isMem && f[0] == "v" {
					tok = "unsup"
				} else if !ok {
					tok = "badh"
				} else if f[0] == "s" {
					tok = putTok(lib.Safely(func() error { return be.putStream(key, bs) }))
				} else {
					var sup bool
					err := lib.Safely(func() error { var e error; e, sup = be.putVec(key, bs); return e })
					if !sup && err == nil {
						tok = "unsup"
					} else {
						tok = putTok(err)
					}
				}
			case "g":
				b, err := be.get(key)
				if err != nil {
					tok = putTok(err)
				} else {
					bufs = append(bufs, b)
					tok = "b:" + lib.ContentTokBytes(b)
				}
			case "k":
				b, err, sup := be.peek(key)
				if !sup {
					tok = "unsup"
				} else if err != nil {
					tok = putTok(err)
				} else {
					bufs = append(bufs, b)
					tok = "b:" + lib.ContentTokBytes(b)
				}
			case "r":
				r, err, sup := be.getStream(key)
				if !sup {
					tok = "unsup"
				} else if err != nil {
					tok = putTok(err)
				} else {
					b, rerr := io.ReadAll(r)
					r.Close()
					if rerr != nil {
						tok = "se:" + lib.StoreErrClass(rerr)
					} else {
						tok = "b:" + lib.ContentTokBytes(b)
					}
				}
			case "h":
				h, err, sup := be.has(key)
				if !sup {
					tok = "unsup"
				} else if err != nil {
					tok = putTok(err)
				} else if h {
					tok = "t"
				} else {
					tok = "f"
				}
			case "o":
				w, commit, err := be.open()
				if err != nil {
					streams = append(streams, nil)
					tok = putTok(err)
				} else {
					streams = append(streams, &stream{w, commit})
					tok = "ok"
				}
			case "w":
				sid, _ := strconv.Atoi(f[1])
				h, _ := strconv.Atoi(f[2])
				if sid < 0 || sid >= len(streams) || h < 0 || h >= len(bufs) {
					tok = "badh"
				} else if streams[sid] == nil {
					tok = "e:eother"
				} else {
					_, err := streams[sid].w.Write(bufs[h])
					tok = putTok(err)
				}
			case "c":
				sid, _ := strconv.Atoi(f[1])
				if sid < 0 || sid >= len(streams) {
					tok = "badh"
				} else if streams[sid] == nil {
					tok = "e:eother"
				} else {
					tok = putTok(lib.Safely(func() error { return streams[sid].commit(key) }))
				}
			default:
				tok = "badop"
			}
			return nil
		})
		if err != nil {
			tok = "panic"
		}
		emit(tok)
	}
	return ran, strings.Join(obs, " ")
}

var quirks string

func runCase(out *lib.Out, id, store, config string, ops []string) {
	if os.Getenv("C17_TIMING") != "" {
		t0 := time.Now()
		defer func() { fmt.Fprintf(os.Stderr, "%s %s %.2fs\n", id, store, time.Since(t0).Seconds()) }()
	}
	switch store {
	case "mem":
		ran, obs := runOps(storageBackend{&memstore.Store{}}, ops, nil, nil)
		out.Case(id, store, "-", strings.Join(ran, " "), obs)
	case "cidmem":
		ran, obs := runOps(memoryBackend{&cidlink.Memory{}}, ops, func(k string) bool { _, ok := linkOf(k); return ok }, nil)
		out.Case(id, store, "-", strings.Join(ran, " "), obs)
	case "Lmem":
		ran, obs := runOps(storageBackend{&memstore.Store{}}, ops, nil, nil)
		out.Case(id, store, "-", strings.Join(ran, " "), obs)
	case "Lcidmem":
		ran, obs := runOps(memoryBackend{&cidlink.Memory{}}, ops, nil, nil)
		out.Case(id, store, "-", strings.Join(ran, " "), obs)
	case "Lfs":
		shard := strings.Split(config, ",")[0]
		parent, base := lib.NewSandbox("c17")
		defer os.RemoveAll(parent)
		st, err := lib.OpenFsStore(base, shard)
		if err != nil {
			panic(err)
		}
		reopen = func() backend {
			st2, err := lib.OpenFsStore(base, shard)
			if err != nil {
				panic(err)
			}
			return storageBackend{st2}
		}
		defer func() { reopen = nil }()
		ran, obs := runOps(storageBackend{st}, ops, nil, nil)
		out.Case(id, store, shard+",q"+quirks, strings.Join(ran, " "), obs)
	case "fs":
		shard := strings.Split(config, ",")[0]
		parent, base := lib.NewSandbox("c17")
		defer os.RemoveAll(parent)
		st, err := lib.OpenFsStore(base, shard)
		if err != nil {
			panic(err)
		}
		ran, obs := runOps(storageBackend{st}, ops,
			func(k string) bool {
				// PATH_MAX (4096) is not in the model: a key whose whole path could reach it is left out
				// (the kernel then refuses the path before resolving anything; NAME_MAX, 255, IS modelled)
				if e := lib.EscapeOf(shard)(k); len(base)+len(e)+64 > 4000 || len(base)+len(k)+64 > 4000 {
					return false
				}
				return lib.KeyStaysInside(parent, base, shard, k)
			},
			func() string { return lib.ListTree(parent) })
		out.Case(id, store, shard+",q"+quirks, strings.Join(ran, " "), obs)
	}
}

// ------------------------------------------------------------------ generation

type gen struct {
	rng     *lib.Rng
	store   string
	esc     func(string) string   // the store's escaping function (fs only)
	specOf  map[string]string     // generated blobs: content -> compact spec of the N: token
	blobsOf map[string][]string   // big contents: content -> the blobs it is made of
	escNext map[string]string     // key -> its escaped form, when that is a key of the history too
}

var blobSizes = []int{1, 100, 4095, 4096, 4097, 8192, 65536}

// bigContent builds a block out of 2-4 generated blobs with sizes around the 4 KiB mark, in mixed order.
func (g *gen) bigContent() string {
	r := g.rng
	n := 2 + r.Intn(3)
	var blobs, specs []string
	for i := 0; i < n; i++ {
		sz := blobSizes[r.Intn(len(blobSizes))]
		if sz == 65536 && r.Chance(60) {
			sz = 4096
		}
		sd := r.Intn(1000)
		blobs = append(blobs, lib.GenBlob(sz, sd))
		specs = append(specs, fmt.Sprintf("%d.%d", sz, sd))
	}
	// every contiguous group of blobs can be named compactly
	for i := 0; i < n; i++ {
		for j := i + 1; j <= n; j++ {
			g.specOf[strings.Join(blobs[i:j], "")] = strings.Join(specs[i:j], "+")
		}
	}
	c := strings.Join(blobs, "")
	g.blobsOf[c] = blobs
	return c
}

// chunks of a content for a multi-write put: the blobs of a big content (neighbours sometimes merged),
// three random pieces otherwise
func (g *gen) chunksOf(c string) []string {
	r := g.rng
	if blobs, ok := g.blobsOf[c]; ok {
		var out []string
		for i := 0; i < len(blobs); i++ {
			if i+1 < len(blobs) && r.Chance(20) {
				out = append(out, blobs[i]+blobs[i+1])
				i++
			} else {
				out = append(out, blobs[i])
			}
		}
		return out
	}
	cut1, cut2 := r.Intn(len(c)+1), r.Intn(len(c)+1)
	if cut1 > cut2 {
		cut1, cut2 = cut2, cut1
	}
	return []string{c[:cut1], c[cut1:cut2], c[cut2:]}
}

func shortFlip(r *lib.Rng, c string) string {
	if len(c) > 512 {
		return r.BytesN(16)
	}
	return flip(c)
}

func contentFor(key string, variant int) string {
	// "each key is only ever given one content": a function of the key (variant 0)
	h := lib.Hex(key)
	if len(h) > 24 {
		h = h[:12] + h[len(h)-12:]
	}
	s := "v" + strconv.Itoa(len(key)) + ":" + h
	if variant > 0 {
		s += "/alt" + strconv.Itoa(variant)
	}
	return s
}

var cidPrefixes = [][3]uint64{{0, 0x70, 0x12}, {1, 0x55, 0x12}, {1, 0x71, 0x12}, {1, 0x0129, 0x12}, {1, 0x71, 0x13}, {1, 0x55, 0x00}}

// tiny contents: the empty block and one-byte blocks are blocks like any other
func (g *gen) shrink(c string) string {
	switch x := g.rng.Intn(100); {
	case x < 12:
		return ""
	case x < 24:
		return string([]byte{byte(g.rng.Intn(256))})
	case x < 29:
		return g.bigContent()
	}
	return c
}

func (g *gen) cidKey() (string, string) {
	content := g.shrink("blk:" + lib.Hex(g.rng.BytesN(1+g.rng.Intn(12))))
	p := cidPrefixes[g.rng.Intn(len(cidPrefixes))]
	return lib.RealCid(p[0], p[1], p[2], content), content
}

// keySet picks the keys of one history with their contents.
func (g *gen) keySet() ([]string, map[string]string) {
	r := g.rng
	n := 2 + r.Intn(6)
	var keys []string
	content := map[string]string{}
	add := func(k, c string) {
		if _, ok := content[k]; !ok {
			keys = append(keys, k)
			content[k] = c
		}
	}
	for len(keys) < n {
		switch {
		case g.store == "cidmem" && r.Chance(20):
			// links that share their digest bytes but not the hash function
			x := "blk:" + lib.Hex(r.BytesN(1+r.Intn(8)))
			sum := sha256.Sum256([]byte(x))
			d := string(sum[:])
			add(lib.RealCid(1, 0x55, 0x12, x), x)
			add(lib.RealCid(1, 0x55, 0x00, d), d)
			if r.Bool() {
				add(lib.SyntheticCid(0x55, []uint64{0x16, 0xb220, 0x1b}[r.Intn(3)], d), "labelled:"+lib.Hex(d[:4]))
			}
		case g.store == "cidmem" || r.Chance(35):
			k, c := g.cidKey()
			add(k, c)
			if r.Chance(30) { // the same content under another CID: same multihash, other codec / version
				p := cidPrefixes[r.Intn(len(cidPrefixes))]
				add(lib.RealCid(p[0], p[1], p[2], c), c)
			}
		case r.Chance(8): // two long keys that differ only in the tail
			p := lib.LongPairs[r.Intn(len(lib.LongPairs))]
			add(p[0], g.shrink(contentFor(p[0], 0)))
			add(p[1], g.shrink(contentFor(p[1], 0)))
		case r.Chance(70):
			k := lib.HostileKeys[r.Intn(len(lib.HostileKeys))]
			add(k, g.shrink(contentFor(k, 0)))
		default:
			k := r.BytesN(1 + r.Intn(40))
			add(k, g.shrink(contentFor(k, 0)))
		}
	}
	// keys that are exactly the escaped form of another key of the history (and the escaped form of that)
	if g.store == "fs" && g.esc != nil && r.Chance(40) {
		k := keys[r.Intn(len(keys))]
		if len(k) <= 60 {
			e1 := g.esc(k)
			add(e1, g.shrink(contentFor(e1, 0)))
			g.escNext[k] = e1
			if r.Chance(50) {
				e2 := g.esc(e1)
				add(e2, contentFor(e2, 0))
				g.escNext[e1] = e2
			}
		}
	}
	return keys, content
}

func (g *gen) history() []string {
	r := g.rng
	g.escNext = map[string]string{}
	keys, content := g.keySet()
	var ops []string
	type hinfo struct {
		n        int
		borrowed bool
	}
	var hs []hinfo
	newBuf := func(c string) int {
		if sp, ok := g.specOf[c]; ok && len(c) > 512 {
			ops = append(ops, "N:"+sp)
		} else {
			ops = append(ops, "n:"+lib.Hex(c))
		}
		hs = append(hs, hinfo{len(c), false})
		return len(hs) - 1
	}
	last := ""
	aliasProbe := r.Chance(15)   // writes through peeked slices: outside the contract, ties the aliasing model
	inconsistent := r.Chance(10) // a second content for a key: outside the quantifier, ties first/last-write-wins
	present := map[string]bool{}
	nops := 8 + r.Intn(30)
	for i := 0; i < nops; i++ {
		k := keys[r.Intn(len(keys))]
		if e, ok := g.escNext[last]; ok && r.Chance(60) {
			k = e // an operation on escape(k) right after one on k
		}
		last = k
		kh := lib.Hex(k)
		c := content[k]
		if inconsistent && r.Chance(30) {
			c = contentFor(k, 1+r.Intn(2))
		}
		switch x := r.Intn(100); {
		case x < 22:
			h := newBuf(c)
			ops = append(ops, fmt.Sprintf("p:%s:%d", kh, h))
			present[k] = true
			if r.Chance(50) { // the heart of "insulated": scribble over the slice just handed to put
				ops = append(ops, fmt.Sprintf("m:%d:%s", h, lib.Hex(shortFlip(r, c))))
			}
		case x < 32:
			parts := g.chunksOf(c)
			var hh []string
			for _, p := range parts {
				hh = append(hh, strconv.Itoa(newBuf(p)))
			}
			t := "s"
			if r.Bool() {
				t = "v"
			}
			ops = append(ops, fmt.Sprintf("%s:%s:%s", t, kh, strings.Join(hh, ",")))
			present[k] = true
			if r.Chance(40) {
				i := r.Intn(len(parts))
				ops = append(ops, fmt.Sprintf("m:%s:%s", hh[i], lib.Hex(shortFlip(r, parts[i]))))
			}
		case x < 50:
			ops = append(ops, "g:"+kh)
			if present[k] { // may or may not succeed (hostile keys): the model decides; track optimistically
				hs = append(hs, hinfo{-1, false})
			}
		case x < 60:
			ops = append(ops, "r:"+kh)
		case x < 70:
			ops = append(ops, "k:"+kh)
			if present[k] && g.store != "cidmem" {
				hs = append(hs, hinfo{-1, true})
			}
		case x < 85:
			ops = append(ops, "h:"+kh)
		default:
			// overwrite some slice the caller holds
			if len(hs) > 0 {
				h := r.Intn(len(hs))
				if hs[h].borrowed && !aliasProbe {
					continue
				}
				n := hs[h].n
				if n < 0 {
					n = len(content[k]) // handle numbering is only a guess after gets: any content will do
				}
				if n > 512 {
					n = 16
				}
				ops = append(ops, fmt.Sprintf("m:%d:%s", h, lib.Hex(r.BytesN(n))))
			}
		}
	}
	// two or three streams open at the same time: writes interleaved, commits in any order
	nstreams := 0
	interleave := func() {
		ns := 2 + r.Intn(2)
		type st struct {
			sid    int
			key    string
			chunks []int
			next   int
		}
		var open []*st
		for i := 0; i < ns; i++ {
			k := keys[r.Intn(len(keys))]
			c := content[k]
			ops = append(ops, "o:")
			s := &st{sid: nstreams, key: k}
			nstreams++
			for _, part := range g.chunksOf(c) {
				s.chunks = append(s.chunks, newBuf(part))
			}
			open = append(open, s)
			present[k] = true
		}
		for len(open) > 0 {
			i := r.Intn(len(open))
			s := open[i]
			if s.next < len(s.chunks) {
				ops = append(ops, fmt.Sprintf("w:%d:%d", s.sid, s.chunks[s.next]))
				s.next++
				if r.Chance(25) { // scribble over the chunk just written
					ops = append(ops, fmt.Sprintf("m:%d:%s", s.chunks[s.next-1], lib.Hex(r.BytesN(4))))
				}
				if r.Chance(20) {
					k := keys[r.Intn(len(keys))]
					ops = append(ops, []string{"h:", "r:"}[r.Intn(2)]+lib.Hex(k))
				}
				continue
			}
			if g.store == "fs" && r.Chance(12) {
				ops = append(ops, fmt.Sprintf("c:%d:", s.sid)) // abort
			} else {
				ops = append(ops, fmt.Sprintf("c:%d:%s", s.sid, lib.Hex(s.key)))
			}
			open = append(open[:i], open[i+1:]...)
		}
	}
	if r.Chance(45) {
		interleave()
	}
	// read everything back at the end
	for _, k := range keys {
		kh := lib.Hex(k)
		ops = append(ops, "h:"+kh, "g:"+kh)
		if r.Bool() {
			ops = append(ops, "r:"+kh)
		}
	}
	return ops
}

func flip(s string) string {
	b := []byte(s)
	for i := range b {
		b[i] ^= 0xff
	}
	return string(b)
}

func hexKeys(ks ...string) []string {
	out := make([]string, len(ks))
	for i, k := range ks {
		out[i] = lib.Hex(k)
	}
	return out
}

// corpus: the witnesses of the findings and the boundary cases, one short history each
func corpus(out *lib.Out) {
	id := 0
	next := func() string { id++; return fmt.Sprintf("w%d", id) }
	c := lib.Hex("CONTENT")
	c2 := lib.Hex("content-2")
	for _, sh := range []string{"r12", "r122", "r133"} {
		// path escape
		k := lib.Hex("../../x")
		runCase(out, next(), "fs", sh, []string{"n:" + c, "p:" + k + ":0", "h:" + k, "g:" + k})
		// aliasing
		a, b := lib.Hex("a/bcdefgh"), lib.Hex("a//bcdefgh")
		runCase(out, next(), "fs", sh, []string{"n:" + c, "n:" + c2, "p:" + a + ":0", "h:" + b, "g:" + b, "p:" + b + ":1", "g:" + a})
		// the empty key
		runCase(out, next(), "fs", sh, []string{"n:" + c, "h:", "p:" + lib.Hex("k") + ":0", "h:", "g:", "r:"})
		runCase(out, next(), "fs", sh, []string{"n:" + c, "h:", "p::0", "h:", "g:", "p:" + lib.Hex("k") + ":0", "h:", "g:", "r:"})
		// a key that names a directory of the store
		runCase(out, next(), "fs", sh, []string{"n:" + c, "p:" + lib.Hex("Xab/Xac") + ":0", "p:" + lib.Hex("Xab") + ":0", "h:" + lib.Hex("Xab"), "g:" + lib.Hex("Xab"), "r:" + lib.Hex("Xab")})
		runCase(out, next(), "fs", sh, []string{"n:" + c, "h:" + lib.Hex(".."), "p:" + lib.Hex("..") + ":0", "g:" + lib.Hex("..")})
		// every hostile key alone: put, has, get, get-stream, peek; then a plain key
		for _, hk := range lib.HostileKeys {
			kh := lib.Hex(hk)
			runCase(out, next(), "fs", sh, []string{"n:" + lib.Hex(contentFor(hk, 0)), "h:" + kh, "p:" + kh + ":0", "h:" + kh, "g:" + kh, "r:" + kh, "k:" + kh,
				"p:" + lib.Hex("plain") + ":0", "g:" + lib.Hex("plain"), "h:" + kh})
		}
	}
	// the empty block and a one-byte block, through every put form, on every store
	tiny := func(store, cfg string, k1, k2, k3, k4 string) {
		for _, blk := range []string{"", "\x00", "z"} {
			b := lib.Hex(blk)
			runCase(out, next(), store, cfg, []string{"n:" + b, "n:",
				"p:" + k1 + ":0", "h:" + k1, "g:" + k1, "r:" + k1, "k:" + k1,
				"s:" + k2 + ":0", "h:" + k2, "g:" + k2, "r:" + k2, "k:" + k2,
				"s:" + k3 + ":1,0,1", "h:" + k3, "g:" + k3,
				"v:" + k4 + ":0", "h:" + k4, "g:" + k4, "r:" + k4, "k:" + k4})
		}
		// a stream / vector with no chunk at all commits the empty block
		runCase(out, next(), store, cfg, []string{"s:" + k1 + ":", "h:" + k1, "g:" + k1, "v:" + k2 + ":", "h:" + k2, "g:" + k2, "r:" + k2})
	}
	for _, sh := range []string{"r12", "r122", "r133"} {
		tiny("fs", sh, lib.Hex("tiny1"), lib.Hex("tiny2"), lib.Hex("tiny3"), lib.Hex("tiny4"))
	}
	tiny("mem", "-", lib.Hex("tiny1"), lib.Hex("tiny2"), lib.Hex("tiny3"), lib.Hex("tiny4"))
	for _, blk := range []string{"", "\x00", "z"} {
		// cidlink.Memory: the key is the CID of the block
		b := lib.Hex(blk)
		k0, k1 := lib.Hex(lib.RealCid(0, 0x70, 0x12, blk)), lib.Hex(lib.RealCid(1, 0x55, 0x12, blk))
		kid := lib.Hex(lib.RealCid(1, 0x55, 0x00, blk))
		runCase(out, next(), "cidmem", "-", []string{"n:" + b, "n:", "g:" + k0, "p:" + k0 + ":0", "g:" + k0, "g:" + k1,
			"s:" + kid + ":1,0,1", "g:" + kid, "s:" + k1 + ":0", "g:" + k1})
	}
	// two streams open at once on one store: open A, open B, write A, write B, commit A, commit B
	ka, kb := lib.Hex("streamkey-A"), lib.Hex("streamkey-B")
	two := []string{"n:" + lib.Hex("AAAA-first-"), "n:" + lib.Hex("BBBBBB-second-"), "n:" + lib.Hex("tail"),
		"o:", "o:", "w:0:0", "w:1:1", "w:0:2", "w:1:2", "c:0:" + ka, "c:1:" + kb,
		"g:" + ka, "g:" + kb, "h:" + ka, "r:" + kb,
		// commits in the other order, a third stream aborted / left open
		"o:", "o:", "o:", "w:4:1", "w:2:0", "w:3:2", "w:2:0", "c:3:" + lib.Hex("streamkey-C"), "c:2:" + lib.Hex("streamkey-D"),
		"g:" + lib.Hex("streamkey-C"), "g:" + lib.Hex("streamkey-D"), "g:" + ka}
	for _, sh := range []string{"r12", "r122", "r133"} {
		runCase(out, next(), "fs", sh, append(append([]string{}, two...), "c:4:", "h:"+kb, "g:"+kb))
	}
	runCase(out, next(), "mem", "-", append(append([]string{}, two...), "c:2:"+ka, "w:2:1", "g:"+lib.Hex("streamkey-D")))
	// an aborted stream leaves nothing behind that a later put could pick up
	for _, sh := range []string{"r12", "r122", "r133"} {
		kx, ky := lib.Hex("after-abort-1"), lib.Hex("after-abort-2")
		runCase(out, next(), "fs", sh, []string{"n:" + lib.Hex("ABORTED-BYTES"), "n:" + lib.Hex("kept"), "o:", "w:0:0", "w:0:0", "c:0:",
			"p:" + kx + ":1", "g:" + kx, "o:", "w:1:1", "c:1:" + ky, "g:" + ky, "s:" + lib.Hex("after-abort-3") + ":1,1", "g:" + lib.Hex("after-abort-3")})
	}
	{
		// cidlink.Memory: streams under the CIDs of their contents
		a, b := "AAAA-first-tail", "BBBBBB-second-tail"
		ca, cb := lib.Hex(lib.RealCid(1, 0x71, 0x12, a)), lib.Hex(lib.RealCid(1, 0x55, 0x12, b))
		runCase(out, next(), "cidmem", "-", []string{"n:" + lib.Hex("AAAA-first-"), "n:" + lib.Hex("BBBBBB-second-"), "n:" + lib.Hex("tail"),
			"o:", "o:", "w:0:0", "w:1:1", "w:0:2", "w:1:2", "c:1:" + cb, "c:0:" + ca, "g:" + ca, "g:" + cb})
	}
	// cidlink.Memory keys by the WHOLE multihash: links that share digest bytes but not the hash function are different keys
	{
		x := "CONTENT"
		sum := sha256.Sum256([]byte(x))
		d := string(sum[:])
		k1 := lib.Hex(lib.RealCid(1, 0x55, 0x12, x))            // sha2-256 of x
		k2 := lib.Hex(lib.RealCid(1, 0x55, 0x00, d))            // identity "hash" of the 32-byte block d = sha2-256(x)
		k3 := lib.Hex(lib.SyntheticCid(0x55, 0x16, d))          // the same 32 bytes labelled sha3-256
		k4 := lib.Hex(lib.SyntheticCid(0x71, 0xb220, d))        // ... labelled blake2b-256, dag-cbor
		k5 := lib.Hex(lib.RealCid(1, 0x71, 0x12, x))            // same multihash as k1, other codec: documented aliasing
		runCase(out, next(), "cidmem", "-", []string{"n:" + lib.Hex(x), "n:" + lib.Hex(d), "n:" + lib.Hex("labelled-sha3"), "n:" + lib.Hex("labelled-blake2b"),
			"g:" + k2, "p:" + k1 + ":0", "g:" + k1, "g:" + k2, "g:" + k3, "g:" + k4, "g:" + k5,
			"p:" + k2 + ":1", "g:" + k1, "g:" + k2, "g:" + k3,
			"p:" + k3 + ":2", "s:" + k4 + ":3", "g:" + k1, "g:" + k2, "g:" + k3, "g:" + k4, "g:" + k5})
	}
	// vectors and streams of blobs around the 4 KiB mark, in mixed orders: the stored block is the concatenation, in order
	{
		vecs := [][]string{
			{"100.1", "4096.2"},                                   // a small blob before a large one
			{"1.5", "4095.3", "4096.2", "4097.4", "100.1", "8192.6"},
			{"4096.2", "1.5", "4096.8", "1.9", "4097.4"},
			{"100.1", "65536.7", "1.5"},
			{"65536.7", "4095.3", "8192.6", "100.1"},
			{"4095.3", "4095.4"},
		}
		big := func(store, cfg string, keyOf func(content string, i int) string) {
			for vi, v := range vecs {
				content := lib.BlobSpec(strings.Join(v, "+"))
				var ops []string
				var hs []string
				for i, sp := range v {
					ops = append(ops, "N:"+sp)
					hs = append(hs, strconv.Itoa(i))
				}
				ops = append(ops, "N:"+strings.Join(v, "+")) // the whole block as one slice
				whole := strconv.Itoa(len(v))
				k1, k2, k3 := lib.Hex(keyOf(content, 1)), lib.Hex(keyOf(content, 2)), lib.Hex(keyOf(content, 3))
				ops = append(ops, "v:"+k1+":"+strings.Join(hs, ","), "h:"+k1, "g:"+k1, "r:"+k1, "k:"+k1,
					"m:0:"+lib.Hex("scribble"),
					"s:"+k2+":"+strings.Join(hs[1:], ","), "g:"+k2,
					"p:"+k3+":"+whole, "g:"+k3, "r:"+k3,
					"o:", "w:0:"+hs[len(hs)-1], "w:0:"+hs[len(hs)-1], "c:0:"+lib.Hex(keyOf(content, 4)), "g:"+lib.Hex(keyOf(content, 4)))
				_ = vi
				runCase(out, next(), store, cfg, ops)
			}
		}
		plainKey := func(content string, i int) string { return fmt.Sprintf("bigblock-%d-%d", len(content), i) }
		for _, sh := range []string{"r12", "r133", "r122:hex"} {
			big("fs", sh, plainKey)
		}
		big("mem", "-", plainKey)
		// cidlink.Memory: keys are the CIDs of what is stored under them, so only the whole-vector puts
		for _, v := range vecs {
			content := lib.BlobSpec(strings.Join(v, "+"))
			var ops, hs []string
			for i, sp := range v {
				ops = append(ops, "N:"+sp)
				hs = append(hs, strconv.Itoa(i))
			}
			k := lib.Hex(lib.RealCid(1, 0x55, 0x12, content))
			ops = append(ops, "s:"+k+":"+strings.Join(hs, ","), "g:"+k, "o:")
			for _, h := range hs {
				ops = append(ops, "w:0:"+h)
			}
			k2 := lib.Hex(lib.RealCid(1, 0x71, 0x13, content))
			ops = append(ops, "c:0:"+k2, "g:"+k2)
			runCase(out, next(), "cidmem", "-", ops)
		}
	}
	// a key that is exactly the escaped form of another key (and the escaped form of that): different keys
	for _, sh := range []string{"r12", "r122", "r133", "r12:hex", "r133:hex"} {
		esc := lib.EscapeOf(sh)
		for _, k1 := range []string{"abc", "\x01\x55\x12\x20binary-ish-key", "MFRGG", "k"} {
			e1 := esc(k1)
			e2 := esc(e1)
			a, b, d := lib.Hex(k1), lib.Hex(e1), lib.Hex(e2)
			runCase(out, next(), "fs", sh, []string{"n:" + c, "n:" + c2, "n:" + lib.Hex("third"),
				"p:" + a + ":0", "h:" + b, "g:" + a, "g:" + b, "h:" + a, "r:" + b,
				"g:" + a, "p:" + b + ":1", "g:" + a, "g:" + b,
				"h:" + b, "h:" + d, "g:" + b, "s:" + d + ":2", "g:" + b, "g:" + d, "g:" + a})
		}
	}
	// long keys sharing a long prefix: never one answering for the other
	for _, sh := range []string{"r12", "r122", "r133"} {
		for _, p := range lib.LongPairs {
			a, b := lib.Hex(p[0]), lib.Hex(p[1])
			runCase(out, next(), "fs", sh, []string{"n:" + c, "n:" + c2, "p:" + a + ":0", "h:" + b, "g:" + b, "h:" + a, "g:" + a,
				"p:" + b + ":1", "g:" + a, "g:" + b, "r:" + a, "k:" + b})
		}
	}
	for _, p := range lib.LongPairs {
		a, b := lib.Hex(p[0]), lib.Hex(p[1])
		runCase(out, next(), "mem", "-", []string{"n:" + c, "n:" + c2, "p:" + a + ":0", "h:" + b, "g:" + b, "p:" + b + ":1", "g:" + a, "g:" + b})
	}
	for _, hk := range lib.HostileKeys {
		kh := lib.Hex(hk)
		runCase(out, next(), "mem", "-", []string{"n:" + lib.Hex(contentFor(hk, 0)), "h:" + kh, "p:" + kh + ":0", "m:0:" + lib.Hex(flip(contentFor(hk, 0))), "h:" + kh, "g:" + kh, "r:" + kh, "k:" + kh, "s:" + kh + ":0,0", "v:" + kh + ":0", "g:" + kh})
	}
	// aliasing through Peek (outside the contract; ties the model), insulation of Get
	k := lib.Hex("key")
	runCase(out, next(), "mem", "-", []string{"n:" + c, "p:" + k + ":0", "k:" + k, "m:1:" + lib.Hex("XXXXXXX"), "g:" + k, "m:2:" + lib.Hex("YYYYYYY"), "g:" + k, "r:" + k})
	// cidlink.Memory: v0 / v1 / other codec of the same content share the multihash
	v0 := lib.Hex(lib.RealCid(0, 0x70, 0x12, "CONTENT"))
	v1 := lib.Hex(lib.RealCid(1, 0x70, 0x12, "CONTENT"))
	raw := lib.Hex(lib.RealCid(1, 0x55, 0x12, "CONTENT"))
	oth := lib.Hex(lib.RealCid(1, 0x55, 0x12, "other"))
	runCase(out, next(), "cidmem", "-", []string{"n:" + c, "g:" + v0, "p:" + v0 + ":0", "m:0:" + lib.Hex("XXXXXXX"), "g:" + v0, "g:" + v1, "g:" + raw, "g:" + oth, "h:" + v0, "k:" + v0, "r:" + v0, "v:" + v0 + ":0", "s:" + oth + ":0,0", "g:" + oth})
}

// largeCorpus: blocks around the sizes people use as caps (1, 2, 4 MiB; 8 MiB + 1 in the thorough tier),
// each -1 / exact / +1, through Put, PutStream with several writes and PutVec, read back through
// Get / GetStream / Peek / Has, on fsstore (default, and a custom sharding) — also after reopening
// the store —, memstore and cidlink.Memory.
func largeCorpus(out *lib.Out, tier string) {
	const mib = 1 << 20
	var sizes []int
	for _, m := range []int{1, 2, 4} {
		sizes = append(sizes, m*mib-1, m*mib, m*mib+1)
	}
	if tier == "thorough" {
		sizes = append(sizes, 8*mib+1, 8*mib)
	}
	id := 0
	next := func() string { id++; return fmt.Sprintf("L%d", id) }
	for si, sz := range sizes {
		sd := 11 + si
		parts := []string{fmt.Sprintf("1000.%d", sd), fmt.Sprintf("65536.%d", sd+1), fmt.Sprintf("%d.%d", sz-66536, sd+2)}
		whole := strings.Join(parts, "+")
		news := []string{"N:" + parts[0], "N:" + parts[1], "N:" + parts[2], "N:" + whole} // handles 0,1,2 and 3 = the whole block
		atCap := sz >= 4*mib-1 || sz == mib // the custom sharding and cidlink.Memory only around the 4 MiB cap (and 1 MiB exactly)
		for _, cfg := range []string{"r12", "r133"} {
			if cfg != "r12" && !atCap {
				continue
			}
			k1, k2, k3 := lib.Hex(fmt.Sprintf("large-%d-put", sz)), lib.Hex(fmt.Sprintf("large-%d-stream", sz)), lib.Hex(fmt.Sprintf("large-%d-vec", sz))
			ops := append(append([]string{}, news...),
				"h:"+k1, "p:"+k1+":3", "h:"+k1, "g:"+k1, "r:"+k1, "k:"+k1,
				"s:"+k2+":0,1,2", "g:"+k2, "r:"+k2,
				"v:"+k3+":0,1,2", "g:"+k3, "k:"+k3, "h:"+k3,
				"R:", "h:"+k1, "g:"+k1, "r:"+k2, "g:"+k3)
			runCase(out, next(), "Lfs", cfg, ops)
		}
		{
			k1, k2, k3 := lib.Hex(fmt.Sprintf("large-%d-put", sz)), lib.Hex(fmt.Sprintf("large-%d-stream", sz)), lib.Hex(fmt.Sprintf("large-%d-vec", sz))
			ops := append(append([]string{}, news...),
				"p:"+k1+":3", "h:"+k1, "g:"+k1, "r:"+k1, "k:"+k1,
				"s:"+k2+":0,1,2", "g:"+k2, "v:"+k3+":0,1,2", "r:"+k3, "k:"+k3)
			runCase(out, next(), "Lmem", "-", ops)
		}
		if atCap {
			content := lib.BlobSpec(whole)
			c1, c2 := lib.Hex(lib.RealCid(1, 0x55, 0x12, content)), lib.Hex(lib.RealCid(1, 0x71, 0x13, content))
			ops := append(append([]string{}, news...), "g:"+c1, "p:"+c1+":3", "g:"+c1, "s:"+c2+":0,1,2", "g:"+c2)
			runCase(out, next(), "Lcidmem", "-", ops)
		}
	}
}

func main() {
	if pf := os.Getenv("C17_PROF"); pf != "" {
		f, _ := os.Create(pf)
		pprof.StartCPUProfile(f)
		defer pprof.StopCPUProfile()
	}
	fl := lib.ParseFlags()
	out := lib.OpenOut(fl.Out)
	defer out.Close()
	quirks = lib.ProbeQuirks()
	if fl.Replay != "" {
		for _, line := range lib.ReadLines(fl.Replay) {
			f := strings.Split(line, "\t")
			if len(f) < 4 {
				continue
			}
			runCase(out, f[0], f[1], f[2], strings.Fields(f[3]))
		}
		return
	}
	n := fl.N
	if n == 0 {
		n = 1500
		if fl.Tier == "thorough" {
			n = 60000
		}
	}
	corpus(out)
	if os.Getenv("C17_NOLARGE") == "" { // (switch for timing the large-block family on its own)
		t0 := time.Now()
		largeCorpus(out, fl.Tier)
		fmt.Fprintf(os.Stderr, "c17: large-block cases took %.1fs\n", time.Since(t0).Seconds())
	}
	rng := lib.NewRng(fl.Seed)
	stores := []string{"fs", "fs", "fs", "mem", "mem", "cidmem"}
	shards := []string{"r12", "r122", "r133", "r12:hex", "r133:hex"}
	for i := 0; i < n; i++ {
		st := stores[i%len(stores)]
		g := &gen{rng: rng.Fork(), store: st, specOf: map[string]string{}, blobsOf: map[string][]string{}}
		cfg := "-"
		if st == "fs" {
			cfg = shards[(i/len(stores))%len(shards)]
			g.esc = lib.EscapeOf(cfg)
		}
		runCase(out, fmt.Sprintf("g%d", i), st, cfg, g.history())
	}
	_ = bytes.MinRead
}
