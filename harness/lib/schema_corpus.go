package lib

import "fmt"

// Schema cluster: small constructors and the fixed corpus (boundary schemas, witnesses of findings).

func SchScalar(k byte) *SchTy                     { return &SchTy{K: k} }
func SchList(nul bool, e *SchTy) *SchTy           { return &SchTy{K: 'L', Nul: nul, Elem: e} }
func SchMapOf(nul bool, e *SchTy) *SchTy          { return &SchTy{K: 'M', Nul: nul, Elem: e} }
func SchF(name string, t *SchTy) SchField         { return SchField{Name: name, Key: name, T: t} }
func SchFOpt(name string, t *SchTy) SchField      { return SchField{Name: name, Key: name, Opt: true, T: t} }
func SchFNul(name string, t *SchTy) SchField      { return SchField{Name: name, Key: name, Nul: true, T: t} }
func SchFRen(name, key string, t *SchTy) SchField { return SchField{Name: name, Key: key, T: t} }
func SchStruct(repr byte, fs ...SchField) *SchTy  { return &SchTy{K: 'R', SRepr: repr, Fields: fs} }
func SchJoin(delim string, fs ...SchField) *SchTy {
	return &SchTy{K: 'R', SRepr: 'j', Delim: delim, Fields: fs}
}
func SchUnion(repr byte, ms ...SchMember) *SchTy      { return &SchTy{K: 'U', URepr: repr, Members: ms} }
func SchM(disc string, kind byte, t *SchTy) SchMember { return SchMember{Disc: disc, Kind: kind, T: t} }
func SchEnumS(es ...SchEnum) *SchTy                   { return &SchTy{K: 'E', Enums: es} }
func SchEnumI(es ...SchEnum) *SchTy                   { return &SchTy{K: 'E', IntRepr: true, Enums: es} }

type SchCorpusCase struct {
	T     *SchTy
	Level byte
	V     *Val
	Note  string
	Conf  bool // the tree conforms (a C08 value when Level is 't')
}

// SchCorpus: every entry is a (schema, level, tree); conforming ones double as C08 values.
func SchCorpus() []SchCorpusCase {
	I, S := SchScalar('I'), SchScalar('S')
	en := func() *SchTy {
		return SchEnumS(SchEnum{Name: "Aa", Str: "x", Int: 1}, SchEnum{Name: "Bb", Str: "Bb", Int: 2})
	}
	ei := func() *SchTy {
		return SchEnumI(SchEnum{Name: "Aa", Str: "Aa", Int: 1}, SchEnum{Name: "Bb", Str: "Bb", Int: 2})
	}
	lp := func() *SchTy { return SchStruct('p', SchFOpt("a", I), SchFOpt("b", S), SchF("c", I)) }
	sm := func() *SchTy {
		return SchStruct('m', SchFRen("a", "x", I), SchField{Name: "b", Key: "b", Opt: true, Nul: true, T: S}, SchFNul("c", I), SchFOpt("d", S))
	}
	tu := func() *SchTy {
		return SchStruct('t', SchF("a", I), SchFOpt("b", S), SchField{Name: "c", Key: "c", Opt: true, Nul: true, T: I})
	}
	uk := func() *SchTy { return SchUnion('k', SchM("i", 'm', SchScalar('I')), SchM("s", 'm', SchScalar('S'))) }
	kd := func() *SchTy {
		return SchUnion('d', SchM("", 'i', SchScalar('I')), SchM("", 's', SchScalar('S')), SchM("", 'm', sm()), SchM("", 'l', SchList(false, SchScalar('I'))))
	}
	ke := func() *SchTy { return SchUnion('d', SchM("", 'i', ei()), SchM("", 's', SchScalar('S'))) }
	ke2 := func() *SchTy { return SchUnion('d', SchM("", 'i', ei()), SchM("", 'b', SchScalar('B'))) }
	sp := func() *SchTy { return SchUnion('p', SchM("s-", 's', SchScalar('S')), SchM("e.", 's', en())) }
	sj := func() *SchTy { return SchJoin(":", SchF("a", S), SchF("b", en())) }
	ms := func() *SchTy { return SchMapOf(false, SchScalar('I')) }
	i8 := func() *SchTy { return SchStruct('m', SchF("v", &SchTy{K: 'I', W8: true})) }

	M := func(es ...Entry) *Val { return Map(es...) }
	E := func(k string, v *Val) Entry { return Entry{k, v} }
	var out []SchCorpusCase
	conf := true
	add := func(t *SchTy, level byte, v *Val, note string) {
		out = append(out, SchCorpusCase{T: t, Level: level, V: v, Note: note, Conf: conf})
	}
	// conforming values at type level
	add(lp(), 't', M(E("b", Str("q")), E("c", Int(1))), "listpairs absent first field")
	add(lp(), 't', M(E("a", Int(3)), E("c", Int(1))), "listpairs absent middle field")
	add(lp(), 't', M(E("c", Int(1))), "listpairs two absent")
	add(sm(), 't', M(E("a", Int(1)), E("c", Null())), "struct map: rename, null, absents")
	add(sm(), 't', M(E("a", Int(1)), E("b", Null()), E("c", Int(2)), E("d", Str("z"))), "struct map: all present")
	add(tu(), 't', M(E("a", Int(1))), "tuple: trailing absents")
	add(tu(), 't', M(E("a", Int(1)), E("b", Str("x")), E("c", Null())), "tuple: full with null")
	add(uk(), 't', M(E("", Int(1))), "keyed union (member name patched below)")
	add(kd(), 't', M(E("", M(E("a", Int(1)), E("c", Int(2))))), "kinded union holding a struct with absent fields")
	add(kd(), 't', M(E("", Int(7))), "kinded union holding an int")
	add(ke(), 't', M(E("", Str("Aa"))), "kinded union with int-enum member")
	add(ke2(), 't', M(E("", Str("Bb"))), "kinded union with int-enum member, no string member")
	add(sp(), 't', M(E("", Str("abc"))), "stringprefix")
	{
		u := SchUnion('p', SchM("simple", 's', SchScalar('S')), SchM("simpleton", 's', SchScalar('S')))
		u.Delim = "::"
		add(u, 't', M(E("", Str("a::b"))), "delimited stringprefix (multi-character delimiter)")
	}
	add(sj(), 't', M(E("a", Str("q")), E("b", Str("Aa"))), "stringjoin with enum")
	add(en(), 't', Str("Aa"), "string enum")
	add(ei(), 't', Str("Bb"), "int enum")
	add(ms(), 't', M(E("b", Int(1)), E("a", Int(2))), "typed map (unsorted)")
	add(SchList(true, kd()), 't', List(Null(), M(E("", Int(1)))), "nullable list of kinded unions")
	// unions as elements of lists and maps (assembler reuse; the key+value path)
	add(SchList(false, uk()), 't', List(M(E("", Int(1))), M(E("", Str("x"))), M(E("", Int(2)))), "list of keyed unions")
	add(SchMapOf(false, uk()), 't', M(E("p", M(E("", Str("x")))), E("q", M(E("", Int(7)))), E("r", M(E("", Str("y"))))), "map of keyed unions")
	add(SchList(false, kd()), 't', List(M(E("", Int(1))), M(E("", Str("x"))), M(E("", List(Int(1), Int(2))))), "list of kinded unions")
	add(SchList(false, sp()), 't', List(M(E("", Str("a"))), M(E("", Str("b")))), "list of stringprefix unions")
	// kinded unions over chosen subsets of kinds: list without map, map without list, both
	{
		kl := func() *SchTy {
			return SchUnion('d', SchM("", 'l', SchList(false, SchScalar('I'))), SchM("", 'i', SchScalar('I')))
		}
		kt := func() *SchTy { return SchUnion('d', SchM("", 'l', tu()), SchM("", 's', SchScalar('S'))) }
		klo := func() *SchTy { return SchUnion('d', SchM("", 'l', SchList(true, SchScalar('S')))) }
		km := func() *SchTy {
			return SchUnion('d', SchM("", 'm', SchMapOf(false, SchScalar('I'))), SchM("", 's', SchScalar('S')))
		}
		kmu := func() *SchTy { return SchUnion('d', SchM("", 'm', uk()), SchM("", 'b', SchScalar('B'))) }
		klm := func() *SchTy {
			return SchUnion('d', SchM("", 'l', SchList(false, SchScalar('I'))), SchM("", 'm', sm()), SchM("", 'y', SchScalar('Y')))
		}
		add(kl(), 't', M(E("", List(Int(1), Int(2), Int(3)))), "kinded {list,int}: list inhabitant")
		add(kl(), 't', M(E("", Int(5))), "kinded {list,int}: int inhabitant")
		add(kt(), 't', M(E("", M(E("a", Int(1)), E("b", Str("x"))))), "kinded {tuple struct,string}: tuple inhabitant")
		add(klo(), 't', M(E("", List(Str("a"), Null()))), "kinded {list} only")
		add(km(), 't', M(E("", M(E("k", Int(1)), E("j", Int(2))))), "kinded {map,string}: map inhabitant")
		add(km(), 't', M(E("", Str("s"))), "kinded {map,string}: string inhabitant")
		add(kmu(), 't', M(E("", M(E("", Int(3))))), "kinded {keyed union,bool}: union inhabitant")
		add(klm(), 't', M(E("", List(Int(9)))), "kinded {list,map,bytes}: list inhabitant")
		add(klm(), 't', M(E("", M(E("a", Int(1)), E("c", Null())))), "kinded {list,map,bytes}: map inhabitant")
	}
	add(SchMapOf(true, sp()), 't', M(E("k", M(E("", Str("v"))))), "nullable map of stringprefix unions")
	add(i8(), 't', M(E("v", Int(100))), "int8-bound field in range")
	add(SchList(false, tu()), 't', List(M(E("a", Int(1))), M(E("a", Int(2)), E("b", Str("x"))), M(E("a", Int(3)))), "list of tuple structs (assembler reuse)")
	add(SchMapOf(false, tu()), 't', M(E("k", M(E("a", Int(1)))), E("j", M(E("a", Int(2)), E("b", Str("x")), E("c", Null())))), "map of tuple structs (assembler reuse)")
	add(SchList(false, sm()), 't', List(M(E("a", Int(1)), E("c", Null())), M(E("a", Int(2)), E("c", Int(5)), E("d", Str("z")))), "list of map structs (assembler reuse)")
	add(SchStruct('m', SchF("a", SchScalar('A'))), 't', M(E("a", List(Null(), M(E("k", Int(1)))))), "any with nested null")

	add(SchUnion('k', SchM("a", 'm', SchScalar('A')), SchM("l", 'm', SchScalar('K'))), 't', M(E("", Str("x"))), "union with an Any member")

	// representation-level trees: conforming and witnesses
	conf = false
	add(sm(), 'r', M(E("x", Int(1)), E("c", Int(1))), "map repr ok")
	add(sm(), 'r', M(E("a", Int(1)), E("c", Int(1))), "renamed field's original name")
	add(sm(), 'r', M(E("x", Int(1)), E("x", Int(2)), E("c", Int(1))), "repeated field")
	add(sm(), 'r', M(E("x", Int(1))), "missing required")
	add(sm(), 't', M(E("a", Int(1))), "missing required nullable field, type level")
	add(sm(), 't', M(E("c", Null())), "missing required field, type level")
	add(sm(), 'r', M(E("x", Int(1)), E("c", Int(1)), E("d", Null())), "null in optional non-nullable")
	add(sm(), 't', M(E("a", Int(1)), E("a", Int(2)), E("c", Int(1))), "repeated field, type level")
	add(ms(), 'r', M(E("a", Int(1)), E("a", Int(2))), "repeated typed-map key")
	add(ms(), 't', M(E("a", Int(1)), E("b", Int(3)), E("a", Int(2))), "repeated typed-map key, type level")
	add(uk(), 'r', M(E("i", Int(1)), E("s", Str("x"))), "keyed union with two entries")
	add(uk(), 'r', M(E("", Int(1))), "keyed union addressed by member type name")
	add(uk(), 'r', M(), "keyed union with no entry")
	add(uk(), 't', M(E("", Int(1)), E("", Str("x"))), "type-level union with two entries")
	add(lp(), 'r', List(List(Str("c"), Int(1)), List(Str("c"), Int(2))), "listpairs repeated field")
	add(lp(), 'r', List(List(Str("c"), Int(1)), List(Str("a"))), "listpairs short pair")
	add(lp(), 'r', List(List(Str("c"), Int(1)), List()), "listpairs empty pair")
	add(lp(), 'r', List(List(Str("c"), Int(1)), List(Str("nOpe"), Int(1))), "listpairs unknown field")
	add(lp(), 'r', List(List(Str("c"), Int(1), Int(2))), "listpairs long pair")
	add(tu(), 'r', List(Int(1), Str("x"), Int(3), Int(4)), "tuple extra element")
	add(tu(), 'r', List(), "tuple missing required")
	add(tu(), 'r', List(Int(1), Null()), "tuple null in non-nullable")
	add(en(), 'r', Str("Aa"), "string enum member name at repr level")
	add(en(), 'r', Str("x"), "string enum repr string")
	add(en(), 't', Str("garbage"), "type-level enum non-member")
	add(ei(), 'r', Int(3), "int enum out of range")
	add(ei(), 'r', Int(2), "int enum ok")
	add(ei(), 't', Str("zzz"), "type-level int enum non-member")
	add(SchList(true, kd()), 'r', List(Int(1), Null()), "kinded union inside nullable list")
	add(SchMapOf(true, sp()), 'r', M(E("k", Str("s-v"))), "stringprefix union as nullable map value")
	add(SchStruct('m', SchFNul("k", kd())), 'r', M(E("k", Str("q"))), "kinded union in nullable field")
	add(SchStruct('m', SchFOpt("k", kd())), 'r', M(E("k", Str("q"))), "kinded union in optional field")
	add(i8(), 'r', M(E("v", Int(300))), "int8-bound field out of range")
	add(i8(), 't', M(E("v", Int(-129))), "int8-bound field out of range, type level")
	add(sj(), 'r', Str("q:x:z"), "stringjoin extra part")
	add(sj(), 'r', Str("q:Aa"), "stringjoin with enum member name")
	add(sp(), 'r', Str("zz"), "stringprefix unknown prefix")
	add(kd(), 'r', Bool(true), "kinded union without member for kind")
	spd := func() *SchTy {
		u := SchUnion('p', SchM("simple", 's', SchScalar('S')), SchM("simpleton", 's', SchScalar('S')), SchM("complex", 's', SchJoin(",", SchF("a", S), SchF("b", S))))
		u.Delim = ":"
		return u
	}
	add(spd(), 'r', Str("simple:whee"), "delimited stringprefix ok")
	add(spd(), 'r', Str("simpleton:x:y"), "delimited stringprefix, discriminant extending another, rest with delimiter")
	add(spd(), 'r', Str("complex:a,b"), "delimited stringprefix holding a stringjoin struct")
	add(spd(), 'r', Str("simple:"), "delimited stringprefix, empty rest")
	add(spd(), 'r', Str("simplewhee"), "delimited stringprefix: discriminant without delimiter")
	add(spd(), 'r', Str("simple"), "delimited stringprefix: discriminant alone")
	add(spd(), 'r', Str("complexa:b"), "delimited stringprefix: discriminant glued to the rest")
	add(spd(), 'r', Str("simpletons:x"), "delimited stringprefix: longer unknown discriminant")
	add(spd(), 'r', Str("simpl:x"), "delimited stringprefix: shorter unknown discriminant")
	add(spd(), 'r', Str(":x"), "delimited stringprefix: delimiter only")
	// containers holding >= 2 values of one struct type that differ in completeness (state left in a
	// reused child assembler must not leak into the next value)
	{
		pair := func() *SchTy { return SchStruct('t', SchF("fst", S), SchF("snd", S)) }
		sjg := func() *SchTy { return SchJoin(":", SchF("a", S), SchF("b", S)) }
		two := func() *SchTy { return SchStruct('m', SchF("p", pair()), SchF("q", pair())) }
		P := func(xs ...string) *Val {
			v := List()
			for _, x := range xs {
				v.L = append(v.L, Str(x))
			}
			return v
		}
		add(SchList(false, pair()), 'r', List(P("a", "b"), P("c", "d")), "list of tuples: complete, complete")
		add(SchList(false, pair()), 'r', List(P("a", "b"), P()), "list of tuples: complete, empty")
		add(SchList(false, pair()), 'r', List(P("a", "b"), P("c")), "list of tuples: complete, short")
		add(SchList(false, pair()), 'r', List(P(), P("c", "d")), "list of tuples: empty, complete")
		add(SchList(false, pair()), 'r', List(P("a"), P("c", "d"), P("e", "f")), "list of tuples: short, complete, complete")
		add(SchList(false, pair()), 'r', List(P("a", "b"), P("c", "d", "e")), "list of tuples: complete, too long")
		add(SchList(false, tu()), 'r', List(List(Int(1), Str("x"), Int(3)), List(Int(2))), "list of tuples with optionals: full, minimal")
		add(SchList(false, tu()), 'r', List(List(Int(1), Str("x")), List()), "list of tuples with optionals: full, empty")
		add(SchList(false, sm()), 'r', List(M(E("x", Int(1)), E("c", Null())), M(E("x", Int(2)))), "list of map structs: complete, missing required")
		add(SchList(false, sm()), 'r', List(M(E("x", Int(1))), M(E("x", Int(2)), E("c", Int(1)))), "list of map structs: missing required, complete")
		add(SchList(false, sm()), 'r', List(M(E("x", Int(1)), E("c", Int(1)), E("d", Str("z"))), M(E("x", Int(2)), E("c", Null()))), "list of map structs: with optional, without")
		add(SchList(false, sjg()), 'r', List(Str("a:b"), Str("c")), "list of stringjoin structs: complete, short")
		add(SchList(false, sjg()), 'r', List(Str("a"), Str("c:d")), "list of stringjoin structs: short, complete")
		add(SchList(false, sjg()), 'r', List(Str("a:b"), Str("c:d")), "list of stringjoin structs: complete, complete")
		add(two(), 'r', M(E("p", P("a", "b")), E("q", P())), "two tuple fields: complete, empty")
		add(two(), 'r', M(E("p", P("a")), E("q", P("c", "d"))), "two tuple fields: short, complete")
		add(two(), 'r', M(E("p", P("a", "b")), E("q", P("c", "d"))), "two tuple fields: complete, complete")
		add(SchMapOf(false, pair()), 'r', M(E("k", P("a", "b")), E("j", P())), "map of tuples: complete, empty")
		add(SchMapOf(false, pair()), 'r', M(E("k", P("a")), E("j", P("c", "d"))), "map of tuples: short, complete")
		add(SchList(false, uk()), 'r', List(M(E("i", Int(1))), M()), "list of keyed unions: one entry, none")
	}
	sp1 := func() *SchTy { return SchUnion('p', SchM("a", 's', SchScalar('S')), SchM("b", 's', SchScalar('S'))) }
	add(sp1(), 'r', Str("axyz"), "stringprefix with one-character prefixes")
	add(sp1(), 'r', Str("a"), "stringprefix with one-character prefix and empty rest")
	add(sp(), 'r', Str("s-abc"), "stringprefix ok")
	return out
}

// SchPatchMemberKeys replaces "" keys of type-level union trees by the (assigned) member name that
// fits the entry: corpus trees are written before names exist.
func SchPatchMemberKeys(t *SchTy, level byte, v *Val) {
	switch t.K {
	case 'L':
		for _, x := range v.L {
			if x.Kind != KNull {
				SchPatchMemberKeys(t.Elem, level, x)
			}
		}
	case 'M':
		for _, e := range v.M {
			if e.V.Kind != KNull {
				SchPatchMemberKeys(t.Elem, level, e.V)
			}
		}
	case 'R':
		if v.Kind != KMap {
			return
		}
		for _, e := range v.M {
			for _, f := range t.Fields {
				k := f.Name
				if level == 'r' {
					k = f.Key
				}
				if k == e.K && e.V.Kind != KNull {
					SchPatchMemberKeys(f.T, level, e.V)
				}
			}
		}
	case 'U':
		if v.Kind != KMap || (level == 'r' && t.URepr != 'k') {
			return
		}
		for i := range v.M {
			if v.M[i].K != "" {
				continue
			}
			// choose the member whose representation kind fits the entry (corpus unions are unambiguous)
			for j, m := range t.Members {
				if schFits(m.T, v.M[i].V) && (len(v.M) == 1 || j == i%len(t.Members)) {
					v.M[i].K = m.Name
					SchPatchMemberKeys(m.T, level, v.M[i].V)
					break
				}
			}
		}
	}
}

func schFits(t *SchTy, v *Val) bool {
	switch t.K {
	case 'B':
		return v.Kind == KBool
	case 'I':
		return v.Kind == KInt
	case 'D':
		return v.Kind == KFloat
	case 'S', 'E':
		return v.Kind == KString
	case 'Y':
		return v.Kind == KBytes
	case 'K':
		return v.Kind == KLink
	case 'L':
		return v.Kind == KList
	case 'M', 'R', 'U':
		return v.Kind == KMap
	}
	return true
}

// SchShapeZoo: schemas that between them put every value type kind the generator supports into every
// kind of slot under every flag combination: {map value, list element} x {plain, nullable} and
// {map-struct field, tuple-struct field} x {plain, nullable, optional, optional nullable}.  The code
// generator chooses its templates' branches by slot flags and by whether the Maybe of the value type
// holds a pointer (structs, unions) or embeds the value (scalars, lists, maps); with the zoo in every
// run each branch is instantiated and compiled, whatever the random schemas of that run look like.
func SchShapeZoo() []*SchTy {
	sc := func(k byte) func() *SchTy { return func() *SchTy { return SchScalar(k) } }
	kinds := []func() *SchTy{
		sc('I'), sc('S'), // every scalar embeds its Maybe and is treated alike by the container templates
		func() *SchTy { return SchList(false, SchScalar('I')) },
		func() *SchTy { return SchMapOf(false, SchScalar('I')) },
		func() *SchTy { return SchStruct('m', SchF("x", SchScalar('I')), SchFOpt("y", SchScalar('S'))) },
		func() *SchTy { return SchStruct('t', SchF("x", SchScalar('I')), SchF("y", SchScalar('S'))) },
		func() *SchTy { return SchJoin(":", SchF("a", SchScalar('S')), SchF("b", SchScalar('S'))) },
		func() *SchTy { return SchUnion('k', SchM("i", 'm', SchScalar('I')), SchM("s", 'm', SchScalar('S'))) },
		func() *SchTy { return SchUnion('d', SchM("", 'i', SchScalar('I')), SchM("", 's', SchScalar('S'))) },
		func() *SchTy { return SchUnion('p', SchM("a", 's', SchScalar('S')), SchM("b", 's', SchScalar('S'))) },
	}
	var out []*SchTy
	for _, nul := range []bool{false, true} {
		for _, c := range []byte{'M', 'L'} {
			var fs []SchField
			for i, k := range kinds {
				fs = append(fs, SchF(fmt.Sprintf("f%d", i), &SchTy{K: c, Nul: nul, Elem: k()}))
			}
			out = append(out, SchStruct('m', fs...))
		}
	}
	for _, repr := range []byte{'m', 't'} {
		for flags := 0; flags < 4; flags++ {
			var fs []SchField
			for i, k := range kinds {
				n := fmt.Sprintf("f%d", i)
				fs = append(fs, SchField{Name: n, Key: n, Opt: flags&1 != 0, Nul: flags&2 != 0, T: k()})
			}
			out = append(out, SchStruct(repr, fs...))
		}
	}
	return out
}

// SchKeywordZoo: structs of every representation the generator supports whose fields are named after Go
// keywords (type, func, map, range, select, var, chan, go ...), alone, as list and map values and as
// members of keyed and kinded unions.  Such schemas compile only with an AdjunctCfg that renames the Go
// field symbols (FieldSymbolLowerOverrides), which is what a user has to supply for them; they are
// generated by the adjunct-configuration variant of the pipeline (schgen.RunAdj) only.
func SchKeywordZoo() []*SchTy {
	I, S := func() *SchTy { return SchScalar('I') }, func() *SchTy { return SchScalar('S') }
	rm := func() *SchTy {
		return SchStruct('m', SchFRen("type", "t", I()), SchFOpt("func", S()), SchFNul("map", I()),
			SchField{Name: "range", Key: "range", Opt: true, Nul: true, T: S()},
			SchF("select", SchStruct('t', SchF("var", I()), SchFOpt("go", S()))))
	}
	rt := func() *SchTy { return SchStruct('t', SchF("type", I()), SchFNul("func", S()), SchFOpt("chan", I())) }
	rj := func() *SchTy { return SchJoin(":", SchF("type", S()), SchF("func", S()), SchF("default", S())) }
	return []*SchTy{
		rm(), rt(), rj(),
		SchUnion('k', SchM("m", 'm', rm()), SchM("t", 'l', rt()), SchM("j", 's', rj())),
		SchUnion('d', SchM("", 'm', rm()), SchM("", 'l', rt()), SchM("", 's', rj())),
		SchStruct('m', SchF("interface", SchList(false, rj())), SchF("struct", SchMapOf(true, rt())),
			SchFOpt("switch", rm()), SchF("case", SchList(true, rm()))),
	}
}
