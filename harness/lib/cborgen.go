package lib

import (
	"encoding/binary"
	"math"
	"math/big"
)

// CborMut writes a value as CBOR with deliberate, mostly-local departures from the canonical
// form, chosen by the Rng: longer-than-minimal heads, tags in front of items, indefinite
// lengths, narrow floats, undefined for null, duplicated / reordered keys, wrong counts.
// rate is the per-item probability (percent) of applying a departure; 0 gives canonical bytes
// (map order as given).
type CborMut struct {
	R    *Rng
	Rate int
	Buf  []byte
	Muts []string // names of departures applied (for the input distribution)
}

func (m *CborMut) note(s string) { m.Muts = append(m.Muts, s) }

func (m *CborMut) hit() bool { return m.Rate > 0 && m.R.Intn(100) < m.Rate }

func (m *CborMut) head(mj byte, v uint64) {
	w := 0
	switch {
	case v < 24:
		w = 0
	case v < 1<<8:
		w = 1
	case v < 1<<16:
		w = 2
	case v < 1<<32:
		w = 4
	default:
		w = 8
	}
	if m.hit() && w < 8 {
		// a longer form than necessary
		ws := []int{1, 2, 4, 8}
		for {
			c := ws[m.R.Intn(4)]
			if c > w {
				w = c
				break
			}
		}
		m.note("nonminimal")
	}
	switch w {
	case 0:
		m.Buf = append(m.Buf, mj<<5|byte(v))
	case 1:
		m.Buf = append(m.Buf, mj<<5|24, byte(v))
	case 2:
		m.Buf = append(m.Buf, mj<<5|25)
		m.Buf = binary.BigEndian.AppendUint16(m.Buf, uint16(v))
	case 4:
		m.Buf = append(m.Buf, mj<<5|26)
		m.Buf = binary.BigEndian.AppendUint32(m.Buf, uint32(v))
	case 8:
		m.Buf = append(m.Buf, mj<<5|27)
		m.Buf = binary.BigEndian.AppendUint64(m.Buf, v)
	}
}

func (m *CborMut) maybeTag() {
	if m.hit() {
		tags := []uint64{42, 1, 0, 2, 24, 55799, 42, 42, 256, 298, 554, 65578, 4294967338, 41, 43, 42 + 1<<32}
		m.head(6, tags[m.R.Intn(len(tags))])
		m.note("tag")
	}
}

func (m *CborMut) str(mj byte, s string) {
	if m.hit() {
		// indefinite-length string made of chunks
		m.Buf = append(m.Buf, mj<<5|31)
		if len(s) > 0 {
			cut := m.R.Intn(len(s) + 1)
			m.head(mj, uint64(cut))
			m.Buf = append(m.Buf, s[:cut]...)
			m.head(mj, uint64(len(s)-cut))
			m.Buf = append(m.Buf, s[cut:]...)
		}
		m.Buf = append(m.Buf, 0xff)
		m.note("indef-str")
		return
	}
	m.head(mj, uint64(len(s)))
	m.Buf = append(m.Buf, s...)
}

func (m *CborMut) Emit(v *Val) {
	m.maybeTag()
	switch v.Kind {
	case KNull:
		if m.hit() {
			m.Buf = append(m.Buf, 0xf7)
			m.note("undefined")
		} else {
			m.Buf = append(m.Buf, 0xf6)
		}
	case KBool:
		if v.B {
			m.Buf = append(m.Buf, 0xf5)
		} else {
			m.Buf = append(m.Buf, 0xf4)
		}
	case KInt:
		if v.I.Sign() >= 0 {
			m.head(0, v.I.Uint64())
		} else {
			n := new(big.Int).Neg(v.I)
			n.Sub(n, big.NewInt(1))
			m.head(1, n.Uint64())
		}
	case KFloat:
		f := math.Float64frombits(v.F)
		if m.hit() {
			f32 := float32(f)
			if float64(f32) == f || f != f {
				m.Buf = append(m.Buf, 0xfa)
				m.Buf = binary.BigEndian.AppendUint32(m.Buf, math.Float32bits(f32))
				m.note("float32")
				return
			}
		}
		if m.hit() {
			// a half float: pick a random half pattern instead of the value (changes the value;
			// the record carries bytes, not the value, so this is fine)
			m.Buf = append(m.Buf, 0xf9)
			m.Buf = binary.BigEndian.AppendUint16(m.Buf, uint16(m.R.U64()))
			m.note("float16")
			return
		}
		m.Buf = append(m.Buf, 0xfb)
		m.Buf = binary.BigEndian.AppendUint64(m.Buf, v.F)
	case KString:
		m.str(3, v.S)
	case KBytes:
		m.str(2, v.S)
	case KLink:
		switch {
		case m.hit():
			m.head(6, 42)
			m.str(2, v.S) // missing multibase prefix
			m.note("link-noprefix")
		case m.hit():
			m.head(6, 42)
			m.str(2, "\x01"+v.S) // wrong multibase prefix
			m.note("link-badprefix")
		case m.hit():
			m.head(6, 42)
			c := []byte("\x00" + v.S)
			if len(c) > 3 {
				c = c[:len(c)-1-m.R.Intn(3)]
			}
			m.str(2, string(c)) // truncated CID
			m.note("link-truncated")
		case m.hit():
			m.head(6, 42)
			m.str(3, "\x00"+v.S) // tag 42 on a text string
			m.note("link-on-string")
		case m.hit():
			// a tag number that is not 42 but shares its low byte(s)
			alts := []uint64{298, 554, 65578, 4294967338, 42 + 1<<16}
			m.head(6, alts[m.R.Intn(len(alts))])
			m.str(2, "\x00"+v.S)
			m.note("link-othertag")
		default:
			m.head(6, 42)
			m.str(2, "\x00"+v.S)
		}
	case KList:
		n := uint64(len(v.L))
		switch {
		case m.hit():
			m.Buf = append(m.Buf, 0x9f)
			for _, x := range v.L {
				m.Emit(x)
			}
			m.Buf = append(m.Buf, 0xff)
			m.note("indef-list")
			return
		case m.hit():
			n = uint64(int(n) + m.R.Intn(3) - 1) // wrong count
			m.note("count")
		}
		m.head(4, n)
		for _, x := range v.L {
			m.Emit(x)
		}
	case KMap:
		es := v.M
		if m.hit() && len(es) > 0 {
			// duplicate a key
			d := es[m.R.Intn(len(es))]
			es = append(append([]Entry{}, es...), d)
			m.note("dupkey")
		}
		n := uint64(len(es))
		switch {
		case m.hit():
			m.Buf = append(m.Buf, 0xbf)
			for _, e := range es {
				m.str(3, e.K)
				m.Emit(e.V)
			}
			m.Buf = append(m.Buf, 0xff)
			m.note("indef-map")
			return
		case m.hit():
			n = uint64(int(n) + m.R.Intn(3) - 1)
			m.note("count")
		}
		m.head(5, n)
		for _, e := range es {
			switch {
			case m.hit():
				m.head(0, uint64(m.R.Intn(30))) // integer key
				m.note("intkey")
			case m.hit():
				m.str(2, e.K) // bytes key
				m.note("byteskey")
			case m.hit():
				m.head(6, 42)
				m.str(3, e.K) // tagged key
				m.note("tagkey")
			default:
				m.str(3, e.K)
			}
			m.Emit(e.V)
		}
	}
}

// ByteMutate applies k random byte-level edits.
func (r *Rng) ByteMutate(b []byte, k int) []byte {
	out := append([]byte{}, b...)
	for i := 0; i < k; i++ {
		if len(out) == 0 {
			out = append(out, byte(r.U64()))
			continue
		}
		p := r.Intn(len(out))
		switch r.Intn(6) {
		case 0:
			out[p] ^= 1 << uint(r.Intn(8))
		case 1:
			out[p] = byte(r.U64())
		case 2:
			out = out[:p]
		case 3:
			out = append(out, byte(r.U64()))
		case 4:
			out = append(out[:p], out[p+1:]...)
		default:
			specials := []byte{0xff, 0x5f, 0x7f, 0x9f, 0xbf, 0xf6, 0xf7, 0xf9, 0xfa, 0xfb, 0xc1, 0xd8, 0x18, 0x19, 0x1a, 0x1b, 0x3b, 0x38, 0x1c, 0x1f}
			out[p] = specials[r.Intn(len(specials))]
		}
	}
	return out
}
