package lib

// Schema cluster: random schemas over every representation strategy (well-formed in the sense of
// coq/Schema/Types.v `wf`), values generated FROM the type at either level, and local mutations.

import (
	"math/big"
)

type SchGenCfg struct {
	MaxDepth int
	ForGen   bool // restrict to the code generator's feature set
}

var schFieldNames = []string{"a", "b", "c", "d", "foo", "bar", "baz", "qux", "x", "y", "z", "key", "val", "id", "n1", "w"}
var schRenames = []string{"r1", "r2", "R", "k-1", "the key", "q", "zz", "0"}
var schDiscs = []string{"i", "s", "k1", "k2", "m", "tag", "T", "u v", "9"}
var schPrefixes = []string{"a-", "b-", "cc.", "d_", "e-e", "f="}
var schEnumNames = []string{"Aa", "Bb", "Cc", "Dd", "Nope", "Yes"}
var schEnumStrs = []string{"x", "y", "zz", "w w", "1"}
var schDelims = []string{":", ",", ";", "|", "/"}

// stringprefix unions with a delimiter (schema API only): multi-character delimiters, and
// discriminants that are prefixes of one another
var schSPDelims = []string{"=", "->", "~~", "=>", "__"}
var schSPDiscs = []string{"s", "st", "simple", "simpleton", "e", "b", "cx", "c"}

func (r *Rng) pick(l []string) string { return l[r.Intn(len(l))] }

func (r *Rng) distinct(pool []string, n int) []string {
	p := r.Perm(len(pool))
	if n > len(pool) {
		n = len(pool)
	}
	out := make([]string, n)
	for i := 0; i < n; i++ {
		out[i] = pool[p[i]]
	}
	return out
}

// SchGen generates a well-formed schema type.
func (r *Rng) SchGen(cfg *SchGenCfg) *SchTy {
	for {
		t := r.schGen(cfg, 0, true)
		if t.Depth() >= 1 && t.WF() {
			return t
		}
	}
}

func (r *Rng) schScalar(cfg *SchGenCfg) *SchTy {
	ks := []byte{'B', 'I', 'I', 'D', 'S', 'S', 'Y', 'K', 'A', 'E'}
	for {
		k := ks[r.Intn(len(ks))]
		if cfg.ForGen && (k == 'A' || k == 'E') {
			continue
		}
		if k == 'E' {
			return r.schEnum(r.Bool())
		}
		return &SchTy{K: k}
	}
}

func (r *Rng) schEnum(intRepr bool) *SchTy {
	n := 1 + r.Intn(4)
	names := r.distinct(schEnumNames, n)
	t := &SchTy{K: 'E', IntRepr: intRepr}
	strs := r.distinct(schEnumStrs, n)
	ints := r.Perm(9)
	for i, nm := range names {
		e := SchEnum{Name: nm, Str: nm, Int: int64(ints[i]) - 2}
		if !intRepr && r.Chance(60) {
			e.Str = strs[i]
		}
		t.Enums = append(t.Enums, e)
	}
	// now and then: a representation string that is the NAME of another member (still well-formed)
	if !intRepr && n >= 2 && r.Chance(15) && t.Enums[1].Str != t.Enums[1].Name {
		t.Enums[0].Str = t.Enums[1].Name
	}
	return t
}

// a type whose representation is a string (field of a stringjoin struct, stringprefix member)
func (r *Rng) schStringTy(cfg *SchGenCfg, depth int, usedDelims string) *SchTy {
	if depth >= cfg.MaxDepth {
		if !cfg.ForGen && r.Chance(30) {
			return r.schEnum(false)
		}
		return &SchTy{K: 'S'}
	}
	switch r.Intn(8) {
	case 0:
		if !cfg.ForGen {
			return r.schEnum(false)
		}
	case 1:
		return r.schStringPrefix(cfg, depth, usedDelims)
	case 2:
		if len(usedDelims) < len(schDelims) {
			return r.schStringJoin(cfg, depth, usedDelims)
		}
	}
	return &SchTy{K: 'S'}
}

func (r *Rng) schStringPrefix(cfg *SchGenCfg, depth int, usedDelims string) *SchTy {
	n := 1 + r.Intn(3)
	t := &SchTy{K: 'U', URepr: 'p'}
	discs := schPrefixes
	if r.Chance(50) {
		t.Delim = r.pick(schSPDelims)
		discs = schSPDiscs
	}
	for _, p := range r.distinct(discs, n) {
		t.Members = append(t.Members, SchMember{Disc: p, Kind: 's', T: r.schStringTy(cfg, depth+1, usedDelims)})
	}
	return t
}

func (r *Rng) schStringJoin(cfg *SchGenCfg, depth int, usedDelims string) *SchTy {
	var d string
	for {
		d = r.pick(schDelims)
		ok := true
		for i := 0; i < len(usedDelims); i++ {
			if usedDelims[i] == d[0] {
				ok = false
			}
		}
		if ok {
			break
		}
	}
	n := 1 + r.Intn(3)
	t := &SchTy{K: 'R', SRepr: 'j', Delim: d}
	for _, nm := range r.distinct(schFieldNames, n) {
		t.Fields = append(t.Fields, SchField{Name: nm, Key: nm, T: r.schStringTy(cfg, depth+1, usedDelims+d)})
	}
	return t
}

func (r *Rng) schStruct(cfg *SchGenCfg, depth int) *SchTy {
	reprs := []byte{'m', 'm', 'm', 't', 't', 'j', 'p'}
	var sr byte
	for {
		sr = reprs[r.Intn(len(reprs))]
		if cfg.ForGen && sr == 'p' {
			continue
		}
		break
	}
	if sr == 'j' {
		return r.schStringJoin(cfg, depth, "")
	}
	n := r.Intn(5)
	if n == 0 && r.Chance(70) {
		n = 1 + r.Intn(3)
	}
	t := &SchTy{K: 'R', SRepr: sr}
	names := r.distinct(schFieldNames, n)
	renames := r.distinct(schRenames, n)
	optFrom := n // tuple: optionals only at the tail
	if sr == 't' {
		optFrom = r.Intn(n + 1)
	}
	for i, nm := range names {
		f := SchField{Name: nm, Key: nm, T: r.schGen(cfg, depth+1, false)}
		switch sr {
		case 't':
			f.Opt = i >= optFrom
		default:
			f.Opt = r.Chance(35)
		}
		f.Nul = r.Chance(25)
		if sr == 'm' && r.Chance(30) {
			f.Key = renames[i]
		}
		t.Fields = append(t.Fields, f)
	}
	// now and then: a field renamed to the NAME of another renamed field (serial keys stay distinct)
	if sr == 'm' && n >= 2 && r.Chance(10) && t.Fields[1].Key != t.Fields[1].Name {
		t.Fields[0].Key = t.Fields[1].Name
	}
	return t
}

// a type whose representation has kind k
func (r *Rng) schOfKind(cfg *SchGenCfg, depth int, k byte) *SchTy {
	leaf := depth >= cfg.MaxDepth
	switch k {
	case 'b':
		return &SchTy{K: 'B'}
	case 'i':
		if !cfg.ForGen && r.Chance(35) {
			return r.schEnum(true)
		}
		return &SchTy{K: 'I'}
	case 'd':
		return &SchTy{K: 'D'}
	case 's':
		return r.schStringTy(cfg, depth, "")
	case 'y':
		return &SchTy{K: 'Y'}
	case 'k':
		return &SchTy{K: 'K'}
	case 'l':
		for {
			switch r.Intn(3) {
			case 0:
				return &SchTy{K: 'L', Nul: r.Chance(30), Elem: r.schGenLeafOr(cfg, depth+1, leaf)}
			case 1:
				t := r.schStructOf(cfg, depth, 't', leaf)
				return t
			default:
				if cfg.ForGen {
					continue
				}
				return r.schStructOf(cfg, depth, 'p', leaf)
			}
		}
	default:
		switch r.Intn(3) {
		case 0:
			return &SchTy{K: 'M', Nul: r.Chance(30), Elem: r.schGenLeafOr(cfg, depth+1, leaf)}
		case 1:
			return r.schStructOf(cfg, depth, 'm', leaf)
		default:
			return r.schKeyed(cfg, depth, leaf)
		}
	}
}

func (r *Rng) schGenLeafOr(cfg *SchGenCfg, depth int, leaf bool) *SchTy {
	if leaf {
		return r.schScalar(cfg)
	}
	return r.schGen(cfg, depth, false)
}

func (r *Rng) schStructOf(cfg *SchGenCfg, depth int, sr byte, leaf bool) *SchTy {
	for {
		t := r.schStruct(&SchGenCfg{MaxDepth: cfg.MaxDepth, ForGen: cfg.ForGen}, depth)
		if t.SRepr == sr {
			return t
		}
	}
}

func (r *Rng) schKeyed(cfg *SchGenCfg, depth int, leaf bool) *SchTy {
	n := 1 + r.Intn(3)
	t := &SchTy{K: 'U', URepr: 'k'}
	for _, d := range r.distinct(schDiscs, n) {
		t.Members = append(t.Members, SchMember{Disc: d, Kind: 'm', T: r.schGenLeafOr(cfg, depth+1, leaf)})
	}
	return t
}

func (r *Rng) schKinded(cfg *SchGenCfg, depth int) *SchTy {
	kinds := []byte{'b', 'i', 'd', 's', 'y', 'k', 'l', 'm'}
	n := 1 + r.Intn(4)
	p := r.Perm(len(kinds))
	t := &SchTy{K: 'U', URepr: 'd'}
	for i := 0; i < n; i++ {
		k := kinds[p[i]]
		t.Members = append(t.Members, SchMember{Kind: k, T: r.schOfKind(cfg, depth+1, k)})
	}
	return t
}

func (r *Rng) schGen(cfg *SchGenCfg, depth int, root bool) *SchTy {
	if depth >= cfg.MaxDepth {
		return r.schScalar(cfg)
	}
	k := r.Intn(16)
	if root && k < 5 {
		k += 5
	}
	switch {
	case k < 5:
		return r.schScalar(cfg)
	case k < 7:
		return &SchTy{K: 'L', Nul: r.Chance(35), Elem: r.schGen(cfg, depth+1, false)}
	case k < 9:
		return &SchTy{K: 'M', Nul: r.Chance(35), Elem: r.schGen(cfg, depth+1, false)}
	case k < 13:
		return r.schStruct(cfg, depth)
	case k == 13:
		return r.schKeyed(cfg, depth, false)
	case k == 14:
		return r.schKinded(cfg, depth)
	default:
		return r.schStringPrefix(cfg, depth, "")
	}
}

// ------------------------------------------------------------------ values from the type

var schInts = []int64{0, 1, -1, 7, 23, 24, 127, 128, -128, -129, 255, 256, 300, 65536, 1 << 40, -(1 << 62), 9223372036854775807, -9223372036854775808}
var schFloats = []float64{1.5, -0.25, 3.141592653589793, 1e-7, 2.5e300, -1234.5678, 0.1}
var schStrs = []string{"", "a", "bc", "hello world", "Z9", "q", "A", "é", "x y z", "0", "Aa", "long string value 0123456789"}
var schBytes = []string{"", "\x00", "\xff\xfe", "bytes", "\x01\x02\x03"}
var schMapKeys = []string{"k", "a", "b", "zz", "key one", "", "Q", "é", "k2", "m"}

// Mut is a budget of local departures from conformance applied while a value is generated.
type SchMut struct {
	R      *Rng
	Budget int      // departures still to apply
	Rate   int      // per-node probability (percent)
	Done   []string // names of the departures applied
}

func (m *SchMut) hit() bool {
	if m == nil || m.Budget <= 0 {
		return false
	}
	if m.R.Intn(100) < m.Rate {
		m.Budget--
		return true
	}
	return false
}
func (m *SchMut) note(s string) { m.Done = append(m.Done, s) }

func (r *Rng) schOtherKind(not Kind) *Val {
	for {
		var v *Val
		switch r.Intn(8) {
		case 0:
			v = Bool(r.Bool())
		case 1:
			v = Int(schInts[r.Intn(len(schInts))])
		case 2:
			v = Float(schFloats[r.Intn(len(schFloats))])
		case 3:
			v = Str(r.pick(schStrs))
		case 4:
			v = Bytes(r.pick(schBytes))
		case 5:
			v = Link(r.GenCid())
		case 6:
			v = List(Int(1))
		default:
			v = Map(Entry{"k", Int(1)})
		}
		if v.Kind != not {
			return v
		}
	}
}

func (r *Rng) schAny(depth int) *Val {
	cfg := &GenCfg{MaxDepth: 2, MaxWidth: 3, Links: true, NoFloat: true}
	for {
		v := r.GenVal(cfg, depth)
		if v.Kind == KNull {
			continue
		}
		if !schPlain(v) {
			continue
		}
		return v
	}
}

// values every route (dag-json text included) carries unchanged
func schPlain(v *Val) bool {
	switch v.Kind {
	case KInt:
		return v.I.IsInt64()
	case KString:
		return validUTF8(v.S)
	case KList:
		for _, x := range v.L {
			if !schPlain(x) {
				return false
			}
		}
	case KMap:
		for _, e := range v.M {
			if !validUTF8(e.K) || !schPlain(e.V) {
				return false
			}
			if e.K == "/" {
				return false
			}
		}
	}
	return true
}

// SchValue generates a tree for type t at the given level ('t' type level, 'r' representation).
// With m == nil the tree conforms; otherwise up to m.Budget local departures are applied.
// noChars: characters data strings must avoid (delimiters of enclosing stringjoin structs).
func (r *Rng) SchValue(t *SchTy, level byte, m *SchMut) *Val {
	return r.schValue(t, level, m, "")
}

func (r *Rng) schStr(noChars string) string {
	for {
		s := r.pick(schStrs)
		ok := true
		for i := 0; i < len(s); i++ {
			for j := 0; j < len(noChars); j++ {
				if s[i] == noChars[j] {
					ok = false
				}
			}
		}
		if ok {
			return s
		}
	}
}

func (r *Rng) schSlot(t *SchTy, nul bool, level byte, m *SchMut, no string) *Val {
	if nul && r.Chance(30) {
		return Null()
	}
	if !nul && m.hit() {
		m.note("null")
		return Null()
	}
	return r.schValue(t, level, m, no)
}

func (r *Rng) schValue(t *SchTy, level byte, m *SchMut, no string) *Val {
	if schHook != nil && (t.K == 'R' || t.K == 'U') {
		if v := schHook(t, level); v != nil {
			return v
		}
	}
	if t.K != 'R' && t.K != 'U' && t.K != 'E' && t.K != 'L' && t.K != 'M' && t.K != 'A' && m.hit() {
		m.note("retype")
		want := map[byte]Kind{'B': KBool, 'I': KInt, 'D': KFloat, 'S': KString, 'Y': KBytes, 'K': KLink, 'A': KNull}[t.K]
		return r.schOtherKind(want)
	}
	switch t.K {
	case 'B':
		return Bool(r.Bool())
	case 'I':
		if t.W8 {
			return Int(int64(r.Intn(256)) - 128)
		}
		return Int(schInts[r.Intn(len(schInts))])
	case 'D':
		return Float(schFloats[r.Intn(len(schFloats))])
	case 'S':
		return Str(r.schStr(no))
	case 'Y':
		return Bytes(r.pick(schBytes))
	case 'K':
		return Link(r.GenCid())
	case 'A':
		return r.schAny(0)
	case 'L':
		n := r.Intn(4)
		v := &Val{Kind: KList}
		for i := 0; i < n; i++ {
			v.L = append(v.L, r.schSlot(t.Elem, t.Nul, level, m, no))
		}
		if m.hit() {
			m.note("list-as-map")
			return Map(Entry{"0", Int(1)})
		}
		return v
	case 'M':
		n := r.Intn(4)
		v := &Val{Kind: KMap}
		for _, k := range r.distinct(schMapKeys, n) {
			v.M = append(v.M, Entry{k, r.schSlot(t.Elem, t.Nul, level, m, no)})
		}
		if len(v.M) > 0 && m.hit() {
			m.note("dup-mapkey")
			e := v.M[r.Intn(len(v.M))]
			v.M = append(v.M, Entry{e.K, r.schSlot(t.Elem, t.Nul, level, nil, no)})
		}
		return v
	case 'R':
		return r.schStructValue(t, level, m, no)
	case 'U':
		return r.schUnionValue(t, level, m, no)
	case 'E':
		return r.schEnumValue(t, level, m)
	}
	panic("schValue")
}

func (r *Rng) schEnumValue(t *SchTy, level byte, m *SchMut) *Val {
	e := t.Enums[r.Intn(len(t.Enums))]
	if m.hit() {
		switch r.Intn(4) {
		case 0:
			m.note("enum-unknown")
			if level == 'r' && t.IntRepr {
				return Int(77)
			}
			return Str("NotAMember")
		case 1:
			m.note("enum-name-at-repr")
			return Str(e.Name)
		case 2:
			m.note("enum-str-at-type")
			return Str(e.Str)
		default:
			m.note("enum-kind")
			if level == 'r' && t.IntRepr {
				return Str(e.Name)
			}
			return Int(e.Int)
		}
	}
	if level == 't' {
		return Str(e.Name)
	}
	if t.IntRepr {
		return Int(e.Int)
	}
	return Str(e.Str)
}

func (r *Rng) schUnionValue(t *SchTy, level byte, m *SchMut, no string) *Val {
	i := r.Intn(len(t.Members))
	mem := t.Members[i]
	if level == 't' || t.URepr == 'k' {
		key := mem.Name
		if level == 'r' {
			key = mem.Disc
		}
		inner := r.schValue(mem.T, level, m, no)
		v := Map(Entry{key, inner})
		if m.hit() {
			switch r.Intn(5) {
			case 0:
				m.note("union-two")
				o := t.Members[r.Intn(len(t.Members))]
				k2 := o.Name
				if level == 'r' {
					k2 = o.Disc
				}
				v.M = append(v.M, Entry{k2, r.schValue(o.T, level, nil, no)})
			case 1:
				m.note("union-empty")
				v.M = nil
			case 2:
				m.note("union-unknown")
				v.M[0].K = "nOpe"
			case 3:
				m.note("union-other-level-key")
				if level == 'r' {
					v.M[0].K = mem.Name
				} else {
					v.M[0].K = mem.Disc
				}
			default:
				m.note("union-as-list")
				return List(inner)
			}
		}
		return v
	}
	if t.URepr == 'd' {
		if m.hit() {
			m.note("kinded-unknown-kind")
			// a kind no member has, if there is one
			have := map[byte]bool{}
			for _, x := range t.Members {
				have[x.Kind] = true
			}
			for _, c := range []struct {
				k byte
				v *Val
			}{{'b', Bool(true)}, {'i', Int(5)}, {'d', Float(1.5)}, {'s', Str("s")}, {'y', Bytes("y")}, {'l', List()}, {'m', Map()}} {
				if !have[c.k] {
					return c.v
				}
			}
		}
		return r.schValue(mem.T, level, m, no)
	}
	// stringprefix
	inner := r.schValue(mem.T, level, m, no)
	if inner.Kind != KString {
		return inner // a departure happened below
	}
	if m.hit() {
		d, dl := mem.Disc, t.Delim
		switch r.Intn(8) {
		case 0:
			m.note("prefix-unknown")
			return Str("??" + dl + inner.S)
		case 1:
			m.note("prefix-none")
			return Str("")
		case 2:
			m.note("prefix-disc-alone")
			return Str(d)
		case 3:
			m.note("prefix-no-delim")
			return Str(d + inner.S)
		case 4:
			m.note("prefix-longer-disc")
			return Str(d + "x" + dl + inner.S)
		case 5:
			m.note("prefix-shorter-disc")
			return Str(d[:len(d)-1] + dl + inner.S)
		case 6:
			m.note("prefix-delim-only")
			return Str(dl + inner.S)
		default:
			m.note("prefix-empty-rest")
			return Str(d + dl)
		}
	}
	return Str(mem.Disc + t.Delim + inner.S)
}

func (r *Rng) schStructValue(t *SchTy, level byte, m *SchMut, no string) *Val {
	type slot struct {
		f SchField
		v *Val // nil = absent
	}
	var slots []slot
	absentTail := false
	for _, f := range t.Fields {
		s := slot{f: f}
		inNo := no
		if t.SRepr == 'j' && level == 'r' {
			inNo = no + t.Delim
		} else if t.SRepr == 'j' {
			inNo = no + t.Delim // type-level strings of a stringjoin struct must stay delimiter-free too
		}
		switch {
		case f.Opt && (absentTail || r.Chance(40)):
			if t.SRepr == 't' {
				absentTail = true // tuple: only a suffix of fields can be absent
			}
		default:
			s.v = r.schSlot(f.T, f.Nul, level, m, inNo)
		}
		slots = append(slots, s)
	}
	if level == 't' || t.SRepr == 'm' {
		v := &Val{Kind: KMap}
		for _, s := range slots {
			if s.v == nil {
				continue
			}
			k := s.f.Name
			if level == 'r' {
				k = s.f.Key
			}
			v.M = append(v.M, Entry{k, s.v})
		}
		if r.Chance(30) {
			v = r.Permuted1(v)
		}
		if m.hit() {
			r.schMutEntries(t, level, v, m, no)
		}
		return v
	}
	switch t.SRepr {
	case 't':
		v := &Val{Kind: KList}
		for _, s := range slots {
			if s.v == nil {
				break
			}
			v.L = append(v.L, s.v)
		}
		if m.hit() {
			switch r.Intn(4) {
			case 0:
				m.note("tuple-extra")
				for len(v.L) < len(t.Fields) {
					f := t.Fields[len(v.L)]
					v.L = append(v.L, r.schValue(f.T, level, nil, no))
				}
				v.L = append(v.L, Int(1))
			case 1:
				m.note("tuple-short")
				if len(v.L) > 0 {
					v.L = v.L[:len(v.L)-1]
				}
			case 2:
				m.note("tuple-as-map")
				return Map(Entry{"a", Int(1)})
			default:
				m.note("tuple-swap")
				if len(v.L) >= 2 {
					v.L[0], v.L[1] = v.L[1], v.L[0]
				}
			}
		}
		return v
	case 'p':
		v := &Val{Kind: KList}
		for _, s := range slots {
			if s.v == nil {
				continue
			}
			v.L = append(v.L, List(Str(s.f.Name), s.v))
		}
		if r.Chance(30) {
			p := r.Perm(len(v.L))
			l2 := make([]*Val, len(v.L))
			for i, j := range p {
				l2[i] = v.L[j]
			}
			v.L = l2
		}
		if m.hit() {
			switch r.Intn(7) {
			case 0:
				m.note("listpairs-dup")
				if len(v.L) > 0 {
					e := v.L[r.Intn(len(v.L))]
					f := t.fieldByName(e.L[0].S)
					if schDupModelled(f) {
						v.L = append(v.L, List(Str(e.L[0].S), r.schSlot(f.T, f.Nul, level, nil, no)))
					}
				}
			case 1:
				m.note("listpairs-short")
				if len(v.L) > 0 {
					i := r.Intn(len(v.L))
					v.L[i] = List(v.L[i].L[0])
				} else {
					v.L = append(v.L, List())
				}
			case 2:
				m.note("listpairs-long")
				if len(v.L) > 0 {
					i := r.Intn(len(v.L))
					v.L[i] = List(v.L[i].L[0], v.L[i].L[1], Int(3))
				}
			case 3:
				m.note("listpairs-unknown")
				v.L = append(v.L, List(Str("nOpe"), Int(1)))
			case 4:
				m.note("listpairs-drop")
				if len(v.L) > 0 {
					i := r.Intn(len(v.L))
					v.L = append(v.L[:i:i], v.L[i+1:]...)
				}
			case 5:
				m.note("listpairs-entry-kind")
				v.L = append(v.L, Int(1))
			default:
				m.note("listpairs-key-kind")
				v.L = append(v.L, List(Int(1), Int(1)))
			}
		}
		return v
	default: // stringjoin
		parts := []string{}
		for _, s := range slots {
			if s.v == nil || s.v.Kind != KString {
				// a departure below produced a non-string: hand it up unchanged
				if s.v != nil {
					return s.v
				}
				continue
			}
			parts = append(parts, s.v.S)
		}
		if m.hit() {
			switch r.Intn(3) {
			case 0:
				m.note("join-extra")
				parts = append(parts, "x")
			case 1:
				m.note("join-short")
				if len(parts) > 0 {
					parts = parts[:len(parts)-1]
				}
			default:
				m.note("join-kind")
				return Int(1)
			}
		}
		out := ""
		for i, p := range parts {
			if i > 0 {
				out += t.Delim
			}
			out += p
		}
		return Str(out)
	}
}

// A repeated field whose Go value is a non-pointer slice, map-struct or struct is not reset by
// bindnode before the second assembly: the old and new contents are merged.  The model covers the
// plain "last wins" form of the defect only, so repeats are generated for the other fields.
func schDupModelled(f *SchField) bool {
	return f.Opt || f.Nul || (f.T.K != 'L' && f.T.K != 'M' && f.T.K != 'R')
}

func (t *SchTy) fieldByName(n string) *SchField {
	for i := range t.Fields {
		if t.Fields[i].Name == n {
			return &t.Fields[i]
		}
	}
	return &t.Fields[0]
}

func (t *SchTy) fieldByKey(n string) *SchField {
	for i := range t.Fields {
		if t.Fields[i].Key == n {
			return &t.Fields[i]
		}
	}
	return nil
}

// Permuted1 shuffles the entries of the top map only.
func (r *Rng) Permuted1(v *Val) *Val {
	c := *v
	p := r.Perm(len(v.M))
	c.M = make([]Entry, len(v.M))
	for i, j := range p {
		c.M[i] = v.M[j]
	}
	return &c
}

// departures on the entries of a struct read as a map
func (r *Rng) schMutEntries(t *SchTy, level byte, v *Val, m *SchMut, no string) {
	keyOf := func(f SchField) string {
		if level == 'r' {
			return f.Key
		}
		return f.Name
	}
	switch r.Intn(7) {
	case 0:
		m.note("field-drop")
		if len(v.M) > 0 {
			i := r.Intn(len(v.M))
			v.M = append(v.M[:i:i], v.M[i+1:]...)
		}
	case 1:
		m.note("field-dup")
		if len(v.M) > 0 {
			e := v.M[r.Intn(len(v.M))]
			var f *SchField
			if level == 'r' {
				f = t.fieldByKey(e.K)
			} else {
				f = t.fieldByName(e.K)
			}
			if f != nil && schDupModelled(f) {
				v.M = append(v.M, Entry{e.K, r.schSlot(f.T, f.Nul, level, nil, no)})
			}
		}
	case 2:
		m.note("field-unknown")
		v.M = append(v.M, Entry{"nOpe", Int(1)})
	case 3:
		m.note("field-other-level-key")
		for i, e := range v.M {
			for _, f := range t.Fields {
				if keyOf(f) == e.K && f.Key != f.Name {
					if level == 'r' {
						v.M[i].K = f.Name
					} else {
						v.M[i].K = f.Key
					}
					return
				}
			}
		}
	case 4:
		m.note("field-add-absent")
		for _, f := range t.Fields {
			found := false
			for _, e := range v.M {
				if e.K == keyOf(f) {
					found = true
				}
			}
			if !found {
				v.M = append(v.M, Entry{keyOf(f), r.schValue(f.T, level, nil, no)})
				return
			}
		}
	case 5:
		m.note("field-null")
		if len(v.M) > 0 {
			v.M[r.Intn(len(v.M))].V = Null()
		}
	default:
		m.note("struct-as-list")
		*v = *List(Int(1))
	}
}

// SchBigUint: a value above int64 (only meaningful through AssignNode of a UintNode)
func SchBigUint() *Val {
	return &Val{Kind: KInt, I: new(big.Int).SetUint64(1 << 63)}
}
