package lib

import (
	"errors"
	"fmt"

	ipld "github.com/ipld/go-ipld-prime"
	"github.com/ipld/go-ipld-prime/codec/dagcbor"
	"github.com/ipld/go-ipld-prime/datamodel"
	"github.com/ipld/go-ipld-prime/node/bindnode"
	"github.com/ipld/go-ipld-prime/schema"
)

// CborErrClass maps a dag-cbor decode error onto the model's small error enum.
func CborErrClass(err error) string {
	switch {
	case err == nil:
		return "ok"
	case IsPanic(err):
		return "panic"
	case errors.Is(err, dagcbor.ErrAllocationBudgetExceeded):
		return "budget"
	case errors.Is(err, dagcbor.ErrDecodeDepthExceeded):
		return "depth"
	case errors.Is(err, dagcbor.ErrTrailingBytes):
		return "trailing"
	}
	return "other"
}

type bindMapAny struct {
	Keys   []string
	Values map[string]datamodel.Node
}

var (
	holderTS      *schema.TypeSystem
	holderMapType schema.Type
	holderLstType schema.Type
)

func holderInit() {
	if holderTS != nil {
		return
	}
	ts, err := ipld.LoadSchemaBytes([]byte(`
type HMap {String:Any}
type HList [Any]
`))
	if err != nil {
		panic(err)
	}
	holderTS = ts
	holderMapType = ts.TypeByName("HMap")
	holderLstType = ts.TypeByName("HList")
}

// HoldersFor lists the node implementations able to hold v at the root.
func HoldersFor(v *Val) []string {
	// a typed {String:Any} / [Any] cannot hold a null child (not in the schema's value space)
	for _, x := range v.L {
		if x.Kind == KNull {
			return []string{"basic"}
		}
	}
	for _, e := range v.M {
		if e.V.Kind == KNull {
			return []string{"basic"}
		}
	}
	switch v.Kind {
	case KMap:
		return []string{"basic", "bindmap", "basic"}
	case KList:
		return []string{"basic", "bindlist", "basic"}
	}
	return []string{"basic"}
}

// BuildHolder builds v inside the named node implementation.
func BuildHolder(holder string, v *Val) (datamodel.Node, error) {
	switch holder {
	case "basic":
		return BuildBasic(v)
	case "basicuint":
		// same value, every non-negative int held by a UintNode
		AllUint = true
		defer func() { AllUint = false }()
		return BuildBasic(v)
	case "bindmap":
		holderInit()
		proto := bindnode.Prototype((*bindMapAny)(nil), holderMapType)
		nb := proto.NewBuilder()
		if err := Assemble(nb, v); err != nil {
			return nil, err
		}
		return nb.Build(), nil
	case "bindlist":
		holderInit()
		proto := bindnode.Prototype((*[]datamodel.Node)(nil), holderLstType)
		nb := proto.NewBuilder()
		if err := Assemble(nb, v); err != nil {
			return nil, err
		}
		return nb.Build(), nil
	}
	return nil, fmt.Errorf("unknown holder %q", holder)
}
