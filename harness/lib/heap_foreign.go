package lib

// ForeignNode: an immutable datamodel.Node of "another implementation" backed by a Val.  It is not a
// LargeBytesNode and shares nothing with basicnode, so AssignNode on a basicnode assembler takes the
// generic copy path, and an anyBuilder just carries it.  Used by the C11 / C20 harnesses (the heap
// model's RForeign).

import (
	"math"

	cid "github.com/ipfs/go-cid"
	"github.com/ipld/go-ipld-prime/datamodel"
	cidlink "github.com/ipld/go-ipld-prime/linking/cid"
	"github.com/ipld/go-ipld-prime/node/basicnode"
	"github.com/ipld/go-ipld-prime/node/mixins"
)

type ForeignNode struct{ V *Val }

var _ datamodel.Node = ForeignNode{}

func Foreign(v *Val) datamodel.Node { return ForeignNode{v} }

func (f ForeignNode) Kind() datamodel.Kind {
	switch f.V.Kind {
	case KNull:
		return datamodel.Kind_Null
	case KBool:
		return datamodel.Kind_Bool
	case KInt:
		return datamodel.Kind_Int
	case KFloat:
		return datamodel.Kind_Float
	case KString:
		return datamodel.Kind_String
	case KBytes:
		return datamodel.Kind_Bytes
	case KLink:
		return datamodel.Kind_Link
	case KList:
		return datamodel.Kind_List
	}
	return datamodel.Kind_Map
}

func (f ForeignNode) wrong(method string) error {
	return datamodel.ErrWrongKind{TypeName: "foreign", MethodName: method, ActualKind: f.Kind()}
}

func (f ForeignNode) LookupByString(key string) (datamodel.Node, error) {
	if f.V.Kind != KMap {
		return nil, f.wrong("LookupByString")
	}
	for _, e := range f.V.M {
		if e.K == key {
			return ForeignNode{e.V}, nil
		}
	}
	return nil, datamodel.ErrNotExists{Segment: datamodel.PathSegmentOfString(key)}
}
func (f ForeignNode) LookupByNode(key datamodel.Node) (datamodel.Node, error) {
	ks, err := key.AsString()
	if err != nil {
		return nil, err
	}
	return f.LookupByString(ks)
}
func (f ForeignNode) LookupByIndex(idx int64) (datamodel.Node, error) {
	if f.V.Kind != KList {
		return nil, f.wrong("LookupByIndex")
	}
	if idx < 0 || idx >= int64(len(f.V.L)) {
		return nil, datamodel.ErrNotExists{Segment: datamodel.PathSegmentOfInt(idx)}
	}
	return ForeignNode{f.V.L[idx]}, nil
}
func (f ForeignNode) LookupBySegment(seg datamodel.PathSegment) (datamodel.Node, error) {
	if f.V.Kind == KList {
		i, err := seg.Index()
		if err != nil {
			return nil, err
		}
		return f.LookupByIndex(i)
	}
	return f.LookupByString(seg.String())
}

type foreignMapItr struct {
	v *Val
	i int
}

func (it *foreignMapItr) Next() (datamodel.Node, datamodel.Node, error) {
	if it.Done() {
		return nil, nil, datamodel.ErrIteratorOverread{}
	}
	e := it.v.M[it.i]
	it.i++
	return ForeignNode{Str(e.K)}, ForeignNode{e.V}, nil
}
func (it *foreignMapItr) Done() bool { return it.i >= len(it.v.M) }

type foreignListItr struct {
	v *Val
	i int
}

func (it *foreignListItr) Next() (int64, datamodel.Node, error) {
	if it.Done() {
		return -1, nil, datamodel.ErrIteratorOverread{}
	}
	x := it.v.L[it.i]
	it.i++
	return int64(it.i - 1), ForeignNode{x}, nil
}
func (it *foreignListItr) Done() bool { return it.i >= len(it.v.L) }

func (f ForeignNode) MapIterator() datamodel.MapIterator {
	if f.V.Kind != KMap {
		return nil
	}
	return &foreignMapItr{f.V, 0}
}
func (f ForeignNode) ListIterator() datamodel.ListIterator {
	if f.V.Kind != KList {
		return nil
	}
	return &foreignListItr{f.V, 0}
}
func (f ForeignNode) Length() int64 {
	switch f.V.Kind {
	case KMap:
		return int64(len(f.V.M))
	case KList:
		return int64(len(f.V.L))
	}
	return -1
}
func (f ForeignNode) IsAbsent() bool { return false }
func (f ForeignNode) IsNull() bool   { return f.V.Kind == KNull }
func (f ForeignNode) AsBool() (bool, error) {
	if f.V.Kind != KBool {
		return false, f.wrong("AsBool")
	}
	return f.V.B, nil
}
func (f ForeignNode) AsInt() (int64, error) {
	if f.V.Kind != KInt {
		return 0, f.wrong("AsInt")
	}
	return f.V.I.Int64(), nil
}
func (f ForeignNode) AsFloat() (float64, error) {
	if f.V.Kind != KFloat {
		return 0, f.wrong("AsFloat")
	}
	return math.Float64frombits(f.V.F), nil
}
func (f ForeignNode) AsString() (string, error) {
	if f.V.Kind != KString {
		return "", f.wrong("AsString")
	}
	return f.V.S, nil
}
func (f ForeignNode) AsBytes() ([]byte, error) {
	if f.V.Kind != KBytes {
		return nil, f.wrong("AsBytes")
	}
	return []byte(f.V.S), nil // a fresh copy each time: nothing to alias
}
func (f ForeignNode) AsLink() (datamodel.Link, error) {
	if f.V.Kind != KLink {
		return nil, f.wrong("AsLink")
	}
	c, err := cid.Cast([]byte(f.V.S))
	if err != nil {
		return nil, err
	}
	return cidlink.Link{Cid: c}, nil
}
func (f ForeignNode) Prototype() datamodel.NodePrototype { return basicnode.Prototype.Any }

var _ = mixins.Map{}
