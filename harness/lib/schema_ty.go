package lib

// Schema cluster (C08, C09, C13): a Go mirror of coq/Schema/Types.v `ty`, its prefix text form
// (what the OCaml drivers parse) and its rendering as IPLD schema DSL (what the library loads).

import (
	"fmt"
	"strconv"
	"strings"
)

type SchTy struct {
	K       byte // B bool, I int, D float, S string, Y bytes, K link, A any, L list, M map, R struct, U union, E enum
	W8      bool // I: bound to a Go int8 (declared Go types only)
	Nul     bool // L, M: nullable values
	Elem    *SchTy
	SRepr   byte // R: m map, t tuple, j stringjoin, p listpairs
	Delim   string
	Fields  []SchField
	URepr   byte // U: k keyed, d kinded, p stringprefix (Delim: "" as the DSL compiler sets it, or a delimiter)
	Members []SchMember
	IntRepr bool // E
	Enums   []SchEnum

	Name string // DSL type name (assigned by SchAssignNames); not part of the text form
}

type SchField struct {
	Name, Key string
	Opt, Nul  bool
	T         *SchTy
}

type SchMember struct {
	Name string // member type name; assigned by SchAssignNames unless preset
	Disc string // keyed: key, stringprefix: prefix
	Kind byte   // kinded: b i d s y k l m
	T    *SchTy
}

type SchEnum struct {
	Name, Str string
	Int       int64
}

func b01(b bool) string {
	if b {
		return "1"
	}
	return "0"
}

// Text renders the prefix text form: tokens separated by single spaces.
func (t *SchTy) Text() string {
	var sb strings.Builder
	t.text(&sb)
	return sb.String()
}

func (t *SchTy) text(sb *strings.Builder) {
	w := func(s string) {
		if sb.Len() > 0 {
			sb.WriteByte(' ')
		}
		sb.WriteString(s)
	}
	switch t.K {
	case 'B', 'D', 'S', 'Y', 'K', 'A':
		w(string(t.K))
	case 'I':
		if t.W8 {
			w("I8")
		} else {
			w("I")
		}
	case 'L', 'M':
		w(string(t.K) + b01(t.Nul))
		t.Elem.text(sb)
	case 'R':
		w("R" + string(t.SRepr))
		w(strconv.Itoa(len(t.Fields)))
		if t.SRepr == 'j' {
			w("x" + Hex(t.Delim))
		}
		for _, f := range t.Fields {
			w("x" + Hex(f.Name))
			w("x" + Hex(f.Key))
			w(b01(f.Opt) + b01(f.Nul))
			f.T.text(sb)
		}
	case 'U':
		w("U" + string(t.URepr))
		w(strconv.Itoa(len(t.Members)))
		if t.URepr == 'p' {
			w("x" + Hex(t.Delim))
		}
		for _, m := range t.Members {
			w("x" + Hex(m.Name))
			w("x" + Hex(m.Disc))
			w(string(m.Kind))
			m.T.text(sb)
		}
	case 'E':
		if t.IntRepr {
			w("Ei")
		} else {
			w("Es")
		}
		w(strconv.Itoa(len(t.Enums)))
		for _, e := range t.Enums {
			w("x" + Hex(e.Name))
			w("x" + Hex(e.Str))
			w(strconv.FormatInt(e.Int, 10))
		}
	}
}

func SchParse(s string) (*SchTy, error) {
	toks := strings.Fields(s)
	t, rest, err := schParse(toks)
	if err != nil {
		return nil, err
	}
	if len(rest) != 0 {
		return nil, fmt.Errorf("schema text: trailing tokens")
	}
	return t, nil
}

func schParse(toks []string) (*SchTy, []string, error) {
	if len(toks) == 0 {
		return nil, nil, fmt.Errorf("schema text: eof")
	}
	tk, rest := toks[0], toks[1:]
	unx := func(s string) string { return UnHex(s[1:]) }
	switch tk[0] {
	case 'B', 'D', 'S', 'Y', 'K', 'A':
		return &SchTy{K: tk[0]}, rest, nil
	case 'I':
		return &SchTy{K: 'I', W8: tk == "I8"}, rest, nil
	case 'L', 'M':
		el, rest, err := schParse(rest)
		if err != nil {
			return nil, nil, err
		}
		return &SchTy{K: tk[0], Nul: tk[1] == '1', Elem: el}, rest, nil
	case 'R':
		t := &SchTy{K: 'R', SRepr: tk[1]}
		n, _ := strconv.Atoi(rest[0])
		rest = rest[1:]
		if t.SRepr == 'j' {
			t.Delim = unx(rest[0])
			rest = rest[1:]
		}
		for i := 0; i < n; i++ {
			f := SchField{Name: unx(rest[0]), Key: unx(rest[1]), Opt: rest[2][0] == '1', Nul: rest[2][1] == '1'}
			var err error
			f.T, rest, err = schParse(rest[3:])
			if err != nil {
				return nil, nil, err
			}
			t.Fields = append(t.Fields, f)
		}
		return t, rest, nil
	case 'U':
		t := &SchTy{K: 'U', URepr: tk[1]}
		n, _ := strconv.Atoi(rest[0])
		rest = rest[1:]
		if t.URepr == 'p' {
			t.Delim = unx(rest[0])
			rest = rest[1:]
		}
		for i := 0; i < n; i++ {
			m := SchMember{Name: unx(rest[0]), Disc: unx(rest[1]), Kind: rest[2][0]}
			var err error
			m.T, rest, err = schParse(rest[3:])
			if err != nil {
				return nil, nil, err
			}
			t.Members = append(t.Members, m)
		}
		return t, rest, nil
	case 'E':
		t := &SchTy{K: 'E', IntRepr: tk[1] == 'i'}
		n, _ := strconv.Atoi(rest[0])
		rest = rest[1:]
		for i := 0; i < n; i++ {
			iv, _ := strconv.ParseInt(rest[2], 10, 64)
			t.Enums = append(t.Enums, SchEnum{Name: unx(rest[0]), Str: unx(rest[1]), Int: iv})
			rest = rest[3:]
		}
		return t, rest, nil
	}
	return nil, nil, fmt.Errorf("schema text: bad token %q", tk)
}

var schPrelude = map[byte]string{'B': "Bool", 'I': "Int", 'D': "Float", 'S': "String", 'Y': "Bytes", 'K': "Link", 'A': "Any"}

// SchAssignNames gives every composite type (and every scalar that is a union member) a DSL type
// name "<prefix>N<k>"; union member names are the names of their types.  Member names already
// present in the tree (a replayed case) are kept, so that the text form is stable.
func SchAssignNames(t *SchTy, prefix string) {
	k := 0
	var walk func(t *SchTy, forceName string)
	walk = func(t *SchTy, forceName string) {
		k++
		switch {
		case forceName != "":
			t.Name = forceName
		case schPrelude[t.K] != "":
			t.Name = schPrelude[t.K]
		default:
			t.Name = fmt.Sprintf("%sN%d", prefix, k)
		}
		switch t.K {
		case 'L', 'M':
			walk(t.Elem, "")
		case 'R':
			for i := range t.Fields {
				walk(t.Fields[i].T, "")
			}
		case 'U':
			for i := range t.Members {
				m := &t.Members[i]
				k++ // always: a clone with preset member names must number its other types alike
				if m.Name == "" {
					m.Name = fmt.Sprintf("%sN%d", prefix, k)
				}
				walk(m.T, m.Name)
			}
		}
	}
	walk(t, "")
}

var schKindWord = map[byte]string{'b': "bool", 'i': "int", 'd': "float", 's': "string", 'y': "bytes", 'k': "link", 'l': "list", 'm': "map"}

// DSL renders the declarations of t and everything below it (names must be assigned).
func (t *SchTy) DSL() string {
	var sb strings.Builder
	seen := map[string]bool{}
	t.dsl(&sb, seen)
	return sb.String()
}

func (t *SchTy) dsl(sb *strings.Builder, seen map[string]bool) {
	isPrelude := schPrelude[t.K] == t.Name
	if seen[t.Name] {
		return
	}
	seen[t.Name] = true
	switch t.K {
	case 'B':
		if !isPrelude {
			fmt.Fprintf(sb, "type %s bool\n", t.Name)
		}
	case 'I':
		if !isPrelude {
			fmt.Fprintf(sb, "type %s int\n", t.Name)
		}
	case 'D':
		if !isPrelude {
			fmt.Fprintf(sb, "type %s float\n", t.Name)
		}
	case 'S':
		if !isPrelude {
			fmt.Fprintf(sb, "type %s string\n", t.Name)
		}
	case 'Y':
		if !isPrelude {
			fmt.Fprintf(sb, "type %s bytes\n", t.Name)
		}
	case 'K':
		if !isPrelude {
			fmt.Fprintf(sb, "type %s link\n", t.Name)
		}
	case 'A':
		if !isPrelude {
			fmt.Fprintf(sb, "type %s any\n", t.Name)
		}
	case 'L':
		t.Elem.dsl(sb, seen)
		n := ""
		if t.Nul {
			n = "nullable "
		}
		fmt.Fprintf(sb, "type %s [%s%s]\n", t.Name, n, t.Elem.Name)
	case 'M':
		t.Elem.dsl(sb, seen)
		n := ""
		if t.Nul {
			n = "nullable "
		}
		fmt.Fprintf(sb, "type %s {String:%s%s}\n", t.Name, n, t.Elem.Name)
	case 'R':
		for _, f := range t.Fields {
			f.T.dsl(sb, seen)
		}
		fmt.Fprintf(sb, "type %s struct {\n", t.Name)
		for _, f := range t.Fields {
			fmt.Fprintf(sb, "  %s ", f.Name)
			if f.Opt {
				sb.WriteString("optional ")
			}
			if f.Nul {
				sb.WriteString("nullable ")
			}
			sb.WriteString(f.T.Name)
			if t.SRepr == 'm' && f.Key != f.Name {
				fmt.Fprintf(sb, " (rename %q)", f.Key)
			}
			sb.WriteByte('\n')
		}
		switch t.SRepr {
		case 'm':
			sb.WriteString("}\n")
		case 't':
			sb.WriteString("} representation tuple\n")
		case 'j':
			fmt.Fprintf(sb, "} representation stringjoin { join %q }\n", t.Delim)
		case 'p':
			sb.WriteString("} representation listpairs\n")
		}
	case 'U':
		for _, m := range t.Members {
			m.T.dsl(sb, seen)
		}
		if t.URepr == 'p' && t.Delim != "" {
			return // not expressible in the DSL: SchSpawnDelimited adds it through the schema API
		}
		fmt.Fprintf(sb, "type %s union {\n", t.Name)
		for _, m := range t.Members {
			switch t.URepr {
			case 'k', 'p':
				fmt.Fprintf(sb, "  | %s %q\n", m.Name, m.Disc)
			case 'd':
				fmt.Fprintf(sb, "  | %s %s\n", m.Name, schKindWord[m.Kind])
			}
		}
		switch t.URepr {
		case 'k':
			sb.WriteString("} representation keyed\n")
		case 'd':
			sb.WriteString("} representation kinded\n")
		case 'p':
			sb.WriteString("} representation stringprefix\n")
		}
	case 'E':
		fmt.Fprintf(sb, "type %s enum {\n", t.Name)
		for _, e := range t.Enums {
			if t.IntRepr {
				fmt.Fprintf(sb, "  | %s (\"%d\")\n", e.Name, e.Int)
			} else if e.Str != e.Name {
				fmt.Fprintf(sb, "  | %s (%q)\n", e.Name, e.Str)
			} else {
				fmt.Fprintf(sb, "  | %s\n", e.Name)
			}
		}
		if t.IntRepr {
			sb.WriteString("} representation int\n")
		} else {
			sb.WriteString("}\n")
		}
	}
}

// ReprKind is the data model kind letter of the type's representation ('?' when it depends on the value).
func (t *SchTy) ReprKind() byte {
	switch t.K {
	case 'B':
		return 'b'
	case 'I':
		return 'i'
	case 'D':
		return 'd'
	case 'S':
		return 's'
	case 'Y':
		return 'y'
	case 'K':
		return 'k'
	case 'L':
		return 'l'
	case 'M':
		return 'm'
	case 'R':
		switch t.SRepr {
		case 'm':
			return 'm'
		case 't', 'p':
			return 'l'
		default:
			return 's'
		}
	case 'U':
		switch t.URepr {
		case 'k':
			return 'm'
		case 'p':
			return 's'
		}
		return '?'
	case 'E':
		if t.IntRepr {
			return 'i'
		}
		return 's'
	}
	return '?'
}

// GenSupported: the set schema/gen/go/generate.go can emit (no enum, any, listpairs).
func (t *SchTy) GenSupported() bool {
	switch t.K {
	case 'A', 'E':
		return false
	case 'I':
		return !t.W8
	case 'L', 'M':
		return t.Elem.GenSupported()
	case 'R':
		if t.SRepr == 'p' {
			return false
		}
		for _, f := range t.Fields {
			if !f.T.GenSupported() {
				return false
			}
		}
	case 'U':
		for _, m := range t.Members {
			if !m.T.GenSupported() {
				return false
			}
		}
	}
	return true
}

func (t *SchTy) Depth() int {
	d := 0
	switch t.K {
	case 'L', 'M':
		d = 1 + t.Elem.Depth()
	case 'R':
		for _, f := range t.Fields {
			if x := 1 + f.T.Depth(); x > d {
				d = x
			}
		}
		if d == 0 {
			d = 1
		}
	case 'U':
		for _, m := range t.Members {
			if x := 1 + m.T.Depth(); x > d {
				d = x
			}
		}
		if d == 0 {
			d = 1
		}
	}
	return d
}

// Delimited lists the stringprefix unions with a non-empty delimiter at or below t.
func (t *SchTy) Delimited(out []*SchTy) []*SchTy {
	switch t.K {
	case 'L', 'M':
		return t.Elem.Delimited(out)
	case 'R':
		for _, f := range t.Fields {
			out = f.T.Delimited(out)
		}
	case 'U':
		if t.URepr == 'p' && t.Delim != "" {
			out = append(out, t)
		}
		for _, m := range t.Members {
			out = m.T.Delimited(out)
		}
	}
	return out
}

func schDistinct(l []string) bool {
	seen := map[string]bool{}
	for _, x := range l {
		if seen[x] {
			return false
		}
		seen[x] = true
	}
	return true
}

// WF mirrors coq/Schema/Types.v `wf` (the OCaml driver evaluates the extracted one; this copy lets the
// generators refuse derived schemas — siblings — that are not well-formed).
func (t *SchTy) WF() bool {
	switch t.K {
	case 'L', 'M':
		return t.Elem.WF()
	case 'R':
		var names, keys []string
		for _, f := range t.Fields {
			names = append(names, f.Name)
			keys = append(keys, f.Key)
			if !f.T.WF() {
				return false
			}
		}
		if !schDistinct(names) {
			return false
		}
		switch t.SRepr {
		case 'm':
			return schDistinct(keys)
		case 't', 'p':
			seenOpt := false
			for _, f := range t.Fields {
				if f.Key != f.Name {
					return false
				}
				if t.SRepr == 't' && seenOpt && !f.Opt {
					return false
				}
				seenOpt = seenOpt || f.Opt
			}
		case 'j':
			if len(t.Delim) != 1 || len(t.Fields) == 0 {
				return false
			}
			for _, f := range t.Fields {
				if f.Opt || f.Nul || f.T.ReprKind() != 's' || f.Key != f.Name {
					return false
				}
			}
		}
	case 'U':
		var names, discs []string
		kinds := map[byte]bool{}
		for _, m := range t.Members {
			names = append(names, m.Name)
			discs = append(discs, m.Disc)
			if !m.T.WF() {
				return false
			}
			switch t.URepr {
			case 'd':
				if kinds[m.Kind] || m.T.ReprKind() != m.Kind {
					return false
				}
				kinds[m.Kind] = true
			case 'p':
				if m.T.ReprKind() != 's' {
					return false
				}
			}
		}
		if !schDistinct(names) {
			return false
		}
		switch t.URepr {
		case 'k':
			return schDistinct(discs)
		case 'p':
			if t.Delim != "" {
				if !schDistinct(discs) {
					return false
				}
				for _, d := range discs {
					if strings.Index(d+t.Delim, t.Delim) != len(d) {
						return false
					}
				}
			} else {
				for i, a := range discs {
					for j, b := range discs {
						if i != j && strings.HasPrefix(b, a) {
							return false
						}
					}
				}
			}
		}
	case 'E':
		var names, strs []string
		ints := map[int64]bool{}
		for _, e := range t.Enums {
			names = append(names, e.Name)
			strs = append(strs, e.Str)
			if t.IntRepr && ints[e.Int] {
				return false
			}
			ints[e.Int] = true
		}
		return schDistinct(names) && (t.IntRepr || schDistinct(strs))
	}
	return true
}

// Crossing: some field's serial key is another field's name.  Feeding the type-level keys of such a
// struct to its representation builder addresses one field twice (once by the alias leniency); when that
// field holds a slice / map / struct, bindnode merges the two values — the facet of dup_field the model
// does not cover.
func (t *SchTy) Crossing() bool {
	if t.K != 'R' {
		return false
	}
	for i, f := range t.Fields {
		for j, g := range t.Fields {
			if i != j && f.Key == g.Name {
				return true
			}
		}
	}
	return false
}

// AssignNodeSafe: the generated builders of t take AssignNode(foreign tree) exactly like the plain call
// sequence.  The generated AssignNode copies a foreign node without calling BeginMap / BeginList (known
// defect gen_assignnode_*): a typed map is then never allocated (assignment to entry in nil map) and a
// recursive value behind a Maybe (optional / nullable field, nullable list or map value) has no target
// (nil dereference, or a node that panics when read).  Schemas free of both shapes are safe, and for
// them the AssignNode route is held to the model like every other route.
func (t *SchTy) AssignNodeSafe() bool {
	scalar := func(x *SchTy) bool {
		switch x.K {
		case 'B', 'I', 'D', 'S', 'Y', 'K':
			return true
		}
		return false
	}
	switch t.K {
	case 'M':
		return false
	case 'L':
		if t.Nul && !scalar(t.Elem) {
			return false
		}
		return t.Elem.AssignNodeSafe()
	case 'R':
		for _, f := range t.Fields {
			if (f.Opt || f.Nul) && !scalar(f.T) {
				return false
			}
			if !f.T.AssignNodeSafe() {
				return false
			}
		}
	case 'U':
		for _, m := range t.Members {
			if !m.T.AssignNodeSafe() {
				return false
			}
		}
	}
	return true
}

// HasTypedMap: t contains a typed map (the nil-map half of the known AssignNode defect).
func (t *SchTy) HasTypedMap() bool {
	switch t.K {
	case 'M':
		return true
	case 'L':
		return t.Elem.HasTypedMap()
	case 'R':
		for _, f := range t.Fields {
			if f.T.HasTypedMap() {
				return true
			}
		}
	case 'U':
		for _, m := range t.Members {
			if m.T.HasTypedMap() {
				return true
			}
		}
	}
	return false
}
