package lib

// Schema-typed node holders for the link cluster (C05): node implementations whose REPRESENTATION
// differs from their type-level (data-model) view.  A LinkSystem encodes the node it is given, i.e.
// the type-level view: the link of such a node must be the link of the same data-model value held in
// basicnode, for Store as for ComputeLink, and the block loads back into the typed prototype.

import (
	"fmt"
	"strings"

	ipld "github.com/ipld/go-ipld-prime"
	"github.com/ipld/go-ipld-prime/datamodel"
	"github.com/ipld/go-ipld-prime/node/basicnode"
	"github.com/ipld/go-ipld-prime/node/bindnode"
	"github.com/ipld/go-ipld-prime/node/gendemo"
	"github.com/ipld/go-ipld-prime/schema"
)

type lkPoint struct {
	X int64
	Y int64
}
type lkPair struct {
	A string
	B string
}
type lkRen struct {
	Foo int64
	Bar string
}
type lkUnion struct {
	String *string
	Int    *int64
}

var lkTS *schema.TypeSystem

func lkTypes() *schema.TypeSystem {
	if lkTS != nil {
		return lkTS
	}
	ts, err := ipld.LoadSchemaBytes([]byte(`
type LkPoint struct {
	x Int
	y Int
} representation tuple
type LkPair struct {
	a String
	b String
} representation stringjoin {
	join ":"
}
type LkRen struct {
	foo Int (rename "f")
	bar String (rename "b")
}
type LkUnion union {
	| String "s"
	| Int "i"
} representation keyed
`))
	if err != nil {
		panic(err)
	}
	lkTS = ts
	return ts
}

// LkTypedHolders: tpoint (struct, tuple representation), tjoin (struct, stringjoin), trename
// (struct, map representation with renamed fields), tkunion (keyed union: the type-level view is
// keyed by the member TYPE name, the representation by the discriminant), gmsg3 (code-generated
// struct of node/gendemo; default representation).
var LkTypedHolders = []string{"tpoint", "tjoin", "trename", "tkunion", "gmsg3"}

func LkIsTyped(h string) bool {
	for _, t := range LkTypedHolders {
		if t == h {
			return true
		}
	}
	return false
}

// LkProtoFor returns the node prototype of a holder ("" and the untyped holders: Prototype.Any).
func LkProtoFor(h string) datamodel.NodePrototype {
	switch h {
	case "tpoint":
		return bindnode.Prototype((*lkPoint)(nil), lkTypes().TypeByName("LkPoint"))
	case "tjoin":
		return bindnode.Prototype((*lkPair)(nil), lkTypes().TypeByName("LkPair"))
	case "trename":
		return bindnode.Prototype((*lkRen)(nil), lkTypes().TypeByName("LkRen"))
	case "tkunion":
		return bindnode.Prototype((*lkUnion)(nil), lkTypes().TypeByName("LkUnion"))
	case "gmsg3":
		return gendemo.Type.Msg3
	}
	return basicnode.Prototype.Any
}

// LkBuildHolder builds v in the named holder: a typed holder assembles the value at the type level.
func LkBuildHolder(h string, v *Val) (datamodel.Node, error) {
	if h == "big" { // a large bytes node given by its name (lib/link_big.go)
		if v.Kind != KBytes {
			return nil, fmt.Errorf("holder big wants bytes")
		}
		return basicnode.NewBytes(LkRegisterBytes(v.S)), nil
	}
	if !LkIsTyped(h) {
		return BuildHolder(h, v)
	}
	nb := LkProtoFor(h).NewBuilder()
	if err := Assemble(nb, v); err != nil {
		return nil, err
	}
	n := nb.Build()
	if _, ok := n.(schema.TypedNode); !ok {
		return nil, fmt.Errorf("holder %s did not build a typed node", h)
	}
	return n, nil
}

// LkTypedVal generates a value of the holder's type, as its type-level data-model value (fields in
// declaration order).
func (r *Rng) LkTypedVal(h string) *Val {
	cfg := &GenCfg{}
	i := func() *Val {
		for {
			v := r.GenInt(cfg)
			if v.I.IsInt64() {
				return v
			}
		}
	}
	str := func() string {
		for {
			s := r.GenStr(cfg)
			if validUTF8(s) && !strings.Contains(s, ":") && s != "" {
				return s
			}
		}
	}
	switch h {
	case "tpoint":
		return Map(Entry{"x", i()}, Entry{"y", i()})
	case "tjoin":
		return Map(Entry{"a", Str(str())}, Entry{"b", Str(str())})
	case "trename":
		return Map(Entry{"foo", i()}, Entry{"bar", Str(str())})
	case "tkunion":
		if r.Bool() {
			return Map(Entry{"String", Str(str())})
		}
		return Map(Entry{"Int", i()})
	case "gmsg3":
		return Map(Entry{"whee", i()}, Entry{"woot", i()}, Entry{"waga", i()})
	}
	return Null()
}
