package lib

import (
	"fmt"
	"math"
	"math/big"

	"github.com/ipld/go-ipld-prime/datamodel"
	"github.com/ipld/go-ipld-prime/node/basicnode"
)

// PermBuilder is a deliberately permissive NodeAssembler: it accepts any call sequence a decoder
// makes and records the result as a *Val, WITHOUT refusing repeated map keys.  Decoding into it
// shows what the decoder itself accepts, independently of what basicnode would refuse.
type PermBuilder struct {
	Root *Val
}

func NewPermBuilder() *PermBuilder { return &PermBuilder{} }

func (b *PermBuilder) Value() *Val { return b.Root }

type permAsm struct {
	set func(*Val)
}

func (b *PermBuilder) Assembler() datamodel.NodeAssembler {
	return &permAsm{set: func(v *Val) { b.Root = v }}
}

type permMap struct {
	v    *Val
	done func()
	key  *string
}

type permList struct {
	v    *Val
	done func()
}

func (a *permAsm) BeginMap(sizeHint int64) (datamodel.MapAssembler, error) {
	v := &Val{Kind: KMap}
	return &permMap{v: v, done: func() { a.set(v) }}, nil
}
func (a *permAsm) BeginList(sizeHint int64) (datamodel.ListAssembler, error) {
	v := &Val{Kind: KList}
	return &permList{v: v, done: func() { a.set(v) }}, nil
}
func (a *permAsm) AssignNull() error            { a.set(Null()); return nil }
func (a *permAsm) AssignBool(x bool) error      { a.set(Bool(x)); return nil }
func (a *permAsm) AssignInt(x int64) error      { a.set(Int(x)); return nil }
func (a *permAsm) AssignFloat(x float64) error  { a.set(FloatBits(math.Float64bits(x))); return nil }
func (a *permAsm) AssignString(x string) error  { a.set(Str(x)); return nil }
func (a *permAsm) AssignBytes(x []byte) error   { a.set(Bytes(string(x))); return nil }
func (a *permAsm) AssignLink(x datamodel.Link) error {
	if x == nil {
		return fmt.Errorf("nil link")
	}
	a.set(Link(x.Binary()))
	return nil
}
func (a *permAsm) AssignNode(n datamodel.Node) error {
	if n == nil {
		return fmt.Errorf("nil node")
	}
	if un, ok := n.(datamodel.UintNode); ok && n.Kind() == datamodel.Kind_Int {
		u, err := un.AsUint()
		if err != nil {
			return err
		}
		a.set(&Val{Kind: KInt, I: new(big.Int).SetUint64(u)})
		return nil
	}
	v, err := ParseVal(Dump(n))
	if err != nil {
		return err
	}
	a.set(v)
	return nil
}
func (a *permAsm) Prototype() datamodel.NodePrototype { return basicnode.Prototype.Any }

func (m *permMap) AssembleKey() datamodel.NodeAssembler {
	return &permAsm{set: func(k *Val) { s := k.S; m.key = &s }}
}
func (m *permMap) AssembleValue() datamodel.NodeAssembler {
	k := ""
	if m.key != nil {
		k = *m.key
	}
	m.key = nil
	return &permAsm{set: func(v *Val) { m.v.M = append(m.v.M, Entry{k, v}) }}
}
func (m *permMap) AssembleEntry(k string) (datamodel.NodeAssembler, error) {
	return &permAsm{set: func(v *Val) { m.v.M = append(m.v.M, Entry{k, v}) }}, nil
}
func (m *permMap) Finish() error                                      { m.done(); return nil }
func (m *permMap) KeyPrototype() datamodel.NodePrototype              { return basicnode.Prototype.String }
func (m *permMap) ValuePrototype(k string) datamodel.NodePrototype    { return basicnode.Prototype.Any }

func (l *permList) AssembleValue() datamodel.NodeAssembler {
	return &permAsm{set: func(v *Val) { l.v.L = append(l.v.L, v) }}
}
func (l *permList) Finish() error                                    { l.done(); return nil }
func (l *permList) ValuePrototype(idx int64) datamodel.NodePrototype { return basicnode.Prototype.Any }
