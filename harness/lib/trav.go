package lib

// Traversal cases shared by the c15 / c14 / c07 harnesses: a selector (as the data-model value that
// selector.CompileSelector parses), a root node and a graph of dag-cbor blocks held in a memstore-backed
// LinkSystem; runners for Progress.WalkAdv / WalkMatching under every traversal control; the canonical
// text form of a trace.

import (
	"context"
	"errors"
	"fmt"
	"hash/fnv"
	"io"
	"math"
	"sort"
	"strings"

	cid "github.com/ipfs/go-cid"
	_ "github.com/ipld/go-ipld-prime/codec/dagcbor"
	"github.com/ipld/go-ipld-prime/datamodel"
	"github.com/ipld/go-ipld-prime/linking"
	cidlink "github.com/ipld/go-ipld-prime/linking/cid"
	"github.com/ipld/go-ipld-prime/node/basicnode"
	"github.com/ipld/go-ipld-prime/storage/memstore"
	"github.com/ipld/go-ipld-prime/traversal"
	"github.com/ipld/go-ipld-prime/traversal/selector"
)

// TravBlock is one stored block: its CID (binary) and the value as the loader returns it
// (dag-cbor decoding order, i.e. canonical key order).
type TravBlock struct {
	Cid string
	Val *Val
}

type TravCase struct {
	Sel    *Val
	Root   *Val
	Blocks []TravBlock
}

var travLP = cidlink.LinkPrototype{Prefix: cid.Prefix{Version: 1, Codec: 0x71, MhType: 0x12, MhLength: 32}}

// BlocksText renders the graph: cidhex=valtext;cidhex=valtext  ("-" when empty).
func (tc *TravCase) BlocksText() string {
	if len(tc.Blocks) == 0 {
		return "-"
	}
	var parts []string
	for _, b := range tc.Blocks {
		parts = append(parts, Hex(b.Cid)+"="+b.Val.Text())
	}
	return strings.Join(parts, ";")
}

func ParseBlocks(s string) ([]TravBlock, error) {
	if s == "-" || s == "" {
		return nil, nil
	}
	var out []TravBlock
	for _, p := range strings.Split(s, ";") {
		i := strings.IndexByte(p, '=')
		if i < 0 {
			return nil, fmt.Errorf("bad block %q", p)
		}
		v, err := ParseVal(p[i+1:])
		if err != nil {
			return nil, err
		}
		out = append(out, TravBlock{UnHex(p[:i]), v})
	}
	return out, nil
}

// TravEnv is a case made live: the stored blocks, the root node, the compiled selector.
type TravEnv struct {
	Case     *TravCase
	Store    *memstore.Store
	LSys     linking.LinkSystem
	RootNode datamodel.Node
	SelNode  datamodel.Node
	Sel      selector.Selector
	SelErr   error // compile error (or panic) if any
}

func newLSys(store *memstore.Store) linking.LinkSystem {
	lsys := cidlink.DefaultLinkSystem()
	lsys.SetReadStorage(store)
	lsys.SetWriteStorage(store)
	return lsys
}

// StoreVal stores v as a dag-cbor block and returns its CID (binary) and the value as loaded back.
func StoreVal(lsys *linking.LinkSystem, v *Val) (string, *Val, error) {
	n, err := BuildBasic(v)
	if err != nil {
		return "", nil, err
	}
	lnk, err := lsys.Store(linking.LinkContext{Ctx: context.Background()}, travLP, n)
	if err != nil {
		return "", nil, err
	}
	back, err := lsys.Load(linking.LinkContext{Ctx: context.Background()}, lnk, basicnode.Prototype.Any)
	if err != nil {
		return "", nil, err
	}
	lv, err := ParseVal(Dump(back))
	if err != nil {
		return "", nil, err
	}
	return lnk.Binary(), lv, nil
}

// Open stores the blocks of the case (checking that each gets the recorded CID), builds the root and
// compiles the selector with the real selector.CompileSelector.
func (tc *TravCase) Open() (*TravEnv, error) {
	env := &TravEnv{Case: tc, Store: &memstore.Store{}}
	env.LSys = newLSys(env.Store)
	for _, b := range tc.Blocks {
		c, _, err := StoreVal(&env.LSys, b.Val)
		if err != nil {
			return nil, fmt.Errorf("store block: %w", err)
		}
		if c != b.Cid {
			return nil, fmt.Errorf("block cid differs from the recorded one")
		}
	}
	var err error
	env.RootNode, err = BuildRoot(tc.Root)
	if err != nil {
		return nil, err
	}
	env.SelNode, err = BuildBasic(tc.Sel)
	if err != nil {
		return nil, err
	}
	env.SelErr = Safely(func() error {
		var e error
		env.Sel, e = selector.CompileSelector(env.SelNode)
		return e
	})
	return env, nil
}

// BuildRoot builds the (unstored) root like BuildBasic, except that every bytes leaf of odd length is held in a
// stream-backed node (basicnode.NewBytesFromReader, a datamodel.LargeBytesNode over an io.ReadSeeker) instead of a
// plain one — a rule that depends on the value only, so a record replays the same holders.
func BuildRoot(v *Val) (datamodel.Node, error) {
	nb := basicnode.Prototype.Any.NewBuilder()
	if err := assembleRoot(nb, v); err != nil {
		return nil, err
	}
	return nb.Build(), nil
}

func assembleRoot(na datamodel.NodeAssembler, v *Val) error {
	switch v.Kind {
	case KBytes:
		if len(v.S)%2 == 1 {
			return na.AssignNode(basicnode.NewBytesFromReader(strings.NewReader(v.S)))
		}
		return Assemble(na, v)
	case KList:
		la, err := na.BeginList(int64(len(v.L)))
		if err != nil {
			return err
		}
		for _, x := range v.L {
			if err := assembleRoot(la.AssembleValue(), x); err != nil {
				return err
			}
		}
		return la.Finish()
	case KMap:
		ma, err := na.BeginMap(int64(len(v.M)))
		if err != nil {
			return err
		}
		for _, e := range v.M {
			va, err := ma.AssembleEntry(e.K)
			if err != nil {
				return err
			}
			if err := assembleRoot(va, e.V); err != nil {
				return err
			}
		}
		return ma.Finish()
	}
	return Assemble(na, v)
}

// DumpStable dumps a node and, for bytes, reads the content again (AsBytes a second time, then AsLargeBytes +
// ReadAll): a node handed to a visitor must read the same every time (subset matches are stream-backed views).
func DumpStable(n datamodel.Node) string {
	d := Dump(n)
	if n != nil && n.Kind() == datamodel.Kind_Bytes {
		first, err1 := n.AsBytes()
		again, err2 := n.AsBytes()
		if err1 != nil || err2 != nil || string(first) != string(again) || "b"+Hex(string(first)) != d {
			d += " !reread:b" + Hex(string(again))
		}
		if lbn, ok := n.(datamodel.LargeBytesNode); ok {
			rs, err := lbn.AsLargeBytes()
			if err != nil {
				d += " !aslargebytes"
			} else if all, err := io.ReadAll(rs); err != nil || string(all) != string(first) {
				d += " !largebytes:b" + Hex(string(all))
			}
		}
	}
	return d
}

// CompileClass is the observation of compilation: ok | err | panic.
func (env *TravEnv) CompileClass() string {
	switch {
	case env.SelErr == nil:
		return "ok"
	case IsPanic(env.SelErr):
		return "panic"
	}
	return "err"
}

// ---------------------------------------------------------------------------- controls

type TravCtl struct {
	NodeBudget int64    // -1: none
	LinkBudget int64    // -1: none
	Start      []string // start-at path segments (strings); nil: none
	HasStart   bool
	Once       bool
	Skip       []string // CIDs (binary) for which the opener answers SkipMe
}

func NoCtl() TravCtl { return TravCtl{NodeBudget: -1, LinkBudget: -1} }

// Text: "u" or '&'-joined settings: nb=N lb=N st=.hex.hex once skip=hex+hex
func (c TravCtl) Text() string {
	var ps []string
	if c.NodeBudget >= 0 {
		ps = append(ps, fmt.Sprintf("nb=%d", c.NodeBudget))
	}
	if c.LinkBudget >= 0 {
		ps = append(ps, fmt.Sprintf("lb=%d", c.LinkBudget))
	}
	if c.HasStart {
		ps = append(ps, "st="+SegsText(c.Start))
	}
	if c.Once {
		ps = append(ps, "once")
	}
	if len(c.Skip) > 0 {
		var hs []string
		for _, s := range c.Skip {
			hs = append(hs, Hex(s))
		}
		ps = append(ps, "skip="+strings.Join(hs, "+"))
	}
	if len(ps) == 0 {
		return "u"
	}
	return strings.Join(ps, "&")
}

func ParseCtl(s string) (TravCtl, error) {
	c := NoCtl()
	if s == "u" {
		return c, nil
	}
	for _, p := range strings.Split(s, "&") {
		switch {
		case strings.HasPrefix(p, "nb="):
			fmt.Sscanf(p[3:], "%d", &c.NodeBudget)
		case strings.HasPrefix(p, "lb="):
			fmt.Sscanf(p[3:], "%d", &c.LinkBudget)
		case strings.HasPrefix(p, "st="):
			c.HasStart = true
			c.Start = ParseSegs(p[3:])
		case p == "once":
			c.Once = true
		case strings.HasPrefix(p, "skip="):
			for _, h := range strings.Split(p[5:], "+") {
				c.Skip = append(c.Skip, UnHex(h))
			}
		default:
			return c, fmt.Errorf("bad control %q", p)
		}
	}
	return c, nil
}

// SegsText renders path segments as ".hex.hex" (the empty path is "").
func SegsText(segs []string) string {
	var sb strings.Builder
	for _, s := range segs {
		sb.WriteByte('.')
		sb.WriteString(Hex(s))
	}
	return sb.String()
}

func ParseSegs(s string) []string {
	out := []string{}
	if s == "" {
		return out
	}
	for _, h := range strings.Split(s[1:], ".") {
		out = append(out, UnHex(h))
	}
	return out
}

func PathSegs(p datamodel.Path) []string {
	out := []string{}
	for _, s := range p.Segments() {
		out = append(out, s.String())
	}
	return out
}

func SegsPath(segs []string) datamodel.Path {
	ps := make([]datamodel.PathSegment, len(segs))
	for i, s := range segs {
		ps[i] = datamodel.PathSegmentOfString(s)
	}
	return datamodel.NewPath(ps)
}

// ---------------------------------------------------------------------------- traces

type TravEvent struct {
	Load   bool
	Path   []string
	Reason byte   // 'm' | 'x'
	Node   string // dump of the visited node
	Last   string // Progress.LastBlock.Link (binary) or ""
	Cid    string // loads: the link requested
}

func short(c string) string {
	if c == "" {
		return "-"
	}
	h := Hex(c)
	return h[len(h)-6:]
}

func Digest(s string) string {
	h := fnv.New32a()
	h.Write([]byte(s))
	return fmt.Sprintf("%08x", h.Sum32())
}

// TraceText: events joined by ','; visit = v:<path>:<m|x>:<last6 of LastBlock.Link>:<node or digest>;
// load = l:<path>:<cidhex>; then "|" and the error class.
func TraceText(evs []TravEvent, class string, digest bool) string {
	var sb strings.Builder
	for i, e := range evs {
		if i > 0 {
			sb.WriteByte(',')
		}
		if e.Load {
			sb.WriteString("l:" + SegsText(e.Path) + ":" + Hex(e.Cid))
		} else {
			nd := e.Node
			if digest {
				nd = Digest(nd)
			}
			sb.WriteString("v:" + SegsText(e.Path) + ":" + string(e.Reason) + ":" + short(e.Last) + ":" + nd)
		}
	}
	sb.WriteByte('|')
	sb.WriteString(class)
	return sb.String()
}

// WalkErrClass maps the error of a walk onto ok | budget_node | budget_link | load | panic | other.
func WalkErrClass(err error) string {
	if err == nil {
		return "ok"
	}
	if IsPanic(err) {
		return "panic"
	}
	var be *traversal.ErrBudgetExceeded
	if errors.As(err, &be) {
		return "budget_" + be.BudgetKind
	}
	if strings.Contains(err.Error(), "could not load link") {
		return "load"
	}
	return "other"
}

// SharedRun is ONE fully initialised traversal.Config (Ctx and LinkTargetNodePrototypeChooser set, so that
// Progress.init() uses the caller's value instead of a copy) used for any number of consecutive walks: what a walk
// does must depend only on the controls in force when it starts.
type SharedRun struct {
	env  *TravEnv
	cfg  *traversal.Config
	evs  []TravEvent
	skip map[string]bool
}

func (env *TravEnv) NewShared() *SharedRun {
	sh := &SharedRun{env: env, skip: map[string]bool{}}
	lsys := env.LSys
	inner := lsys.StorageReadOpener
	lsys.StorageReadOpener = func(lc linking.LinkContext, l datamodel.Link) (io.Reader, error) {
		sh.evs = append(sh.evs, TravEvent{Load: true, Path: PathSegs(lc.LinkPath), Cid: l.Binary()})
		if sh.skip[l.Binary()] {
			return nil, traversal.SkipMe{}
		}
		return inner(lc, l)
	}
	sh.cfg = &traversal.Config{
		Ctx:        context.Background(),
		LinkSystem: lsys,
		LinkTargetNodePrototypeChooser: func(datamodel.Link, linking.LinkContext) (datamodel.NodePrototype, error) {
			return basicnode.Prototype.Any, nil
		},
	}
	return sh
}

// Run sets the controls on the shared Config (a fresh Budget each time: a Budget is consumed by design) and walks.
func (sh *SharedRun) Run(ctl TravCtl, matching bool) ([]TravEvent, string) {
	sh.evs = nil
	sh.skip = map[string]bool{}
	for _, s := range ctl.Skip {
		sh.skip[s] = true
	}
	sh.cfg.LinkVisitOnlyOnce = ctl.Once
	if ctl.HasStart {
		sh.cfg.StartAtPath = SegsPath(ctl.Start)
	} else {
		sh.cfg.StartAtPath = datamodel.Path{}
	}
	prog := traversal.Progress{Cfg: sh.cfg}
	if ctl.NodeBudget >= 0 || ctl.LinkBudget >= 0 {
		b := &traversal.Budget{NodeBudget: math.MaxInt64, LinkBudget: math.MaxInt64}
		if ctl.NodeBudget >= 0 {
			b.NodeBudget = ctl.NodeBudget
		}
		if ctl.LinkBudget >= 0 {
			b.LinkBudget = ctl.LinkBudget
		}
		prog.Budget = b
	}
	record := func(p traversal.Progress, n datamodel.Node, r traversal.VisitReason) {
		last := ""
		if p.LastBlock.Link != nil {
			last = p.LastBlock.Link.Binary()
		}
		sh.evs = append(sh.evs, TravEvent{Path: PathSegs(p.Path), Reason: byte(r), Node: DumpStable(n), Last: last})
	}
	err := Safely(func() error {
		if matching {
			return prog.WalkMatching(sh.env.RootNode, sh.env.Sel, func(p traversal.Progress, n datamodel.Node) error {
				record(p, n, traversal.VisitReason_SelectionMatch)
				return nil
			})
		}
		return prog.WalkAdv(sh.env.RootNode, sh.env.Sel, func(p traversal.Progress, n datamodel.Node, r traversal.VisitReason) error {
			record(p, n, r)
			return nil
		})
	})
	return sh.evs, WalkErrClass(err)
}

// Run performs Progress.WalkAdv (or WalkMatching) over the case under the given controls, with a Config of its own,
// and returns the events in order (visits and storage reads) and the error class.
func (env *TravEnv) Run(ctl TravCtl, matching bool) ([]TravEvent, string) {
	return env.NewShared().Run(ctl, matching)
}

// ---------------------------------------------------------------------------- generators

// the last entries are not valid UTF-8: a lone 0xff, latin-1 "café", a multi-byte sequence cut short,
// and an invalid byte in the middle (Go strings, map keys and path segments are byte strings)
var TravKeys = []string{"a", "b", "c", "x", "0", "1", "2", "01", "+1", "-1", "", "a/b", "é",
	"\xff", "caf\xe9", "\xe2\x82", "a\xffb", "€\xe2",
	// JSON-Pointer look-alikes: a path segment is taken verbatim, "~0" / "~1" are not escapes
	"~", "~0", "~1", "~01", "a~1b", "PROGRA~1",
	// slashes: a map key is ONE path segment whatever it contains
	"/", "a//b", "/x", "x/"}
var travStrs = []string{"", "a", "hello", "hello world", "é€x", "0123456789", "\xff\xfe", "/", "0123456789abcdefghij", "0123456789abcdefghijk"}

type TravGen struct {
	Exp      map[string]int // link-expanded size of each stored block (bounds the length of a full walk)
	cur      int            // link-expanded size of the value being generated
	R        *Rng
	Cids     []string // stored blocks
	Missing  []string // CIDs of blocks that were not stored
	MaxDepth int
}

func (g *TravGen) key() string {
	if g.R.Chance(70) {
		return TravKeys[g.R.Intn(7)]
	}
	return TravKeys[g.R.Intn(len(TravKeys))]
}

func (g *TravGen) scalar() *Val {
	switch g.R.Intn(9) {
	case 0:
		return Null()
	case 1:
		return Bool(g.R.Bool())
	case 2, 3:
		return Int(int64(g.R.Intn(40)) - 5)
	case 4:
		return FloatBits(math.Float64bits([]float64{1.5, 0, -2.25, 1e10}[g.R.Intn(4)]))
	case 5, 6:
		return Str(travStrs[g.R.Intn(len(travStrs))])
	case 7:
		return Bytes(travStrs[g.R.Intn(len(travStrs))])
	default:
		return Int(int64(g.R.Intn(3)))
	}
}

func (g *TravGen) link() *Val {
	if len(g.Missing) > 0 && g.R.Chance(6) {
		return Link(g.Missing[g.R.Intn(len(g.Missing))])
	}
	if len(g.Cids) == 0 {
		return g.scalar()
	}
	// favour recent blocks so that chains form, but repeat older ones too
	c := g.Cids[g.R.Intn(len(g.Cids))]
	if g.R.Chance(50) {
		c = g.Cids[len(g.Cids)-1]
	}
	if g.cur+g.Exp[c] > 120 {
		return g.scalar()
	}
	g.cur += g.Exp[c]
	return Link(c)
}

// Value generates a block / root value: maps and lists with small key and index spaces, scalars, links.
func (g *TravGen) Value(depth int, linkPct int) *Val {
	g.cur++
	if depth >= g.MaxDepth || (depth > 0 && g.R.Chance(30)) {
		if g.R.Chance(linkPct) {
			return g.link()
		}
		return g.scalar()
	}
	if g.R.Bool() {
		n := g.R.Intn(5)
		if n == 0 && g.R.Chance(70) {
			n = 2
		}
		v := &Val{Kind: KList, L: []*Val{}}
		for i := 0; i < n; i++ {
			v.L = append(v.L, g.Value(depth+1, linkPct))
		}
		return v
	}
	n := g.R.Intn(5)
	if n == 0 && g.R.Chance(70) {
		n = 2
	}
	v := &Val{Kind: KMap, M: []Entry{}}
	seen := map[string]bool{}
	for i := 0; i < n; i++ {
		k := g.key()
		if seen[k] {
			continue
		}
		seen[k] = true
		v.M = append(v.M, Entry{k, g.Value(depth+1, linkPct)})
	}
	return v
}

// Graph generates 1..6 blocks bottom-up (a block links only to earlier blocks, so the graph is a DAG
// with shared and repeated links) and a root; with rootLoaded the root is the last block as loaded.
func GenTravGraph(r *Rng) *TravCase {
	store := &memstore.Store{}
	lsys := newLSys(store)
	g := &TravGen{R: r, MaxDepth: 3, Exp: map[string]int{}}
	tc := &TravCase{}
	// a block that is never stored: links to it fail to load
	if r.Chance(15) {
		tmp := newLSys(&memstore.Store{})
		c, _, err := StoreVal(&tmp, Map(Entry{"missing", Int(int64(r.Intn(1000)))}))
		if err == nil {
			g.Missing = append(g.Missing, c)
		}
	}
	nblocks := 1 + r.Intn(6)
	if r.Chance(6) {
		nblocks = 0
	}
	for i := 0; i < nblocks; i++ {
		var v *Val
		g.cur = 0
		switch {
		case r.Chance(6):
			v = g.scalar()
		case r.Chance(4) && len(g.Cids) > 0:
			v = g.link() // a block whose root is itself a link
		default:
			v = g.Value(0, 45)
			if v.Kind != KMap && v.Kind != KList && r.Chance(70) {
				v = List(v, g.Value(1, 45))
			}
		}
		c, lv, err := StoreVal(&lsys, v)
		if err != nil {
			continue
		}
		dup := false
		for _, x := range g.Cids {
			if x == c {
				dup = true
			}
		}
		if dup {
			continue
		}
		g.Cids = append(g.Cids, c)
		g.Exp[c] = g.cur + 1
		tc.Blocks = append(tc.Blocks, TravBlock{c, lv})
	}
	g.MaxDepth = 4
	g.cur = 0
	if len(tc.Blocks) > 0 && r.Chance(20) {
		tc.Root = tc.Blocks[len(tc.Blocks)-1].Val
	} else {
		tc.Root = g.Value(0, 55)
		if tc.Root.Kind != KMap && tc.Root.Kind != KList && r.Chance(85) {
			tc.Root = List(tc.Root, g.Value(1, 60), g.Value(1, 60))
		}
	}
	return tc
}

// AllCids lists the CIDs a selector may mention (stop-at conditions): stored and linked ones.
func (tc *TravCase) AllCids() []string {
	set := map[string]bool{}
	var walk func(v *Val)
	walk = func(v *Val) {
		if v.Kind == KLink {
			set[v.S] = true
		}
		for _, x := range v.L {
			walk(x)
		}
		for _, e := range v.M {
			walk(e.V)
		}
	}
	walk(tc.Root)
	for _, b := range tc.Blocks {
		set[b.Cid] = true
		walk(b.Val)
	}
	var out []string
	for c := range set {
		out = append(out, c)
	}
	sort.Strings(out)
	return out
}

// AllKeys lists the map keys occurring anywhere in the case's graph.
func (tc *TravCase) AllKeys() []string {
	set := map[string]bool{}
	var walk func(v *Val)
	walk = func(v *Val) {
		for _, x := range v.L {
			walk(x)
		}
		for _, e := range v.M {
			set[e.K] = true
			walk(e.V)
		}
	}
	walk(tc.Root)
	for _, b := range tc.Blocks {
		walk(b.Val)
	}
	var out []string
	for k := range set {
		out = append(out, k)
	}
	sort.Strings(out)
	return out
}

func m1(k string, v *Val) *Val { return Map(Entry{k, v}) }

// SelGen generates selector declarations (the data-model encoding that CompileSelector parses).
type SelGen struct {
	R        *Rng
	Cids     []string
	Keys     []string // map keys occurring in the graph (so that field selectors hit)
	MaxDepth int
	// rates (percent) of deliberately odd shapes
	BadPct      int // malformed clause (compile error expected)
	BareEdgePct int // a recursion edge placed directly inside a union (walk panics)
}

var selLimits = []int64{0, 1, 2, 5, -3}

// number of fields of a generated ExploreFields clause: 1-9, biased to 3, 5, 6, 7 (a slice grown by append to such a
// length has spare capacity, which is what makes an aliased interest list observable)
var fieldCounts = []int{1, 1, 2, 2, 3, 3, 3, 4, 5, 5, 6, 6, 7, 7, 8, 9}
var selBounds = []int64{-7, -2, -1, 0, 1, 2, 3, 4, 5, 8, 100}

func (g *SelGen) matcher() *Val {
	if g.R.Chance(35) {
		from := selBounds[g.R.Intn(len(selBounds))]
		to := selBounds[g.R.Intn(len(selBounds))]
		if to >= 0 && from > to && !g.R.Chance(g.BadPct) {
			from, to = to, from
		}
		return m1(".", m1("subset", Map(Entry{"[", Int(from)}, Entry{"]", Int(to)})))
	}
	return m1(".", Map())
}

func (g *SelGen) edge() *Val { return m1("@", Map()) }

func (g *SelGen) fieldKey() string {
	if len(g.Keys) > 0 && g.R.Chance(65) {
		return g.Keys[g.R.Intn(len(g.Keys))]
	}
	if g.R.Chance(60) {
		return TravKeys[g.R.Intn(7)]
	}
	return TravKeys[g.R.Intn(len(TravKeys))]
}

// wideFields: a fields clause with 3, 5, 6 or 7 fields whose continuations are mostly leaves (edge / matcher).
func (g *SelGen) wideFields(depth int, inRec bool) *Val {
	n := []int{3, 5, 6, 7}[g.R.Intn(4)]
	fm := &Val{Kind: KMap, M: []Entry{}}
	seen := map[string]bool{}
	for i := 0; i < 3*n && len(fm.M) < n; i++ {
		key := g.fieldKey()
		if seen[key] {
			continue
		}
		seen[key] = true
		var next *Val
		switch {
		case inRec && g.R.Chance(70):
			next = g.edge()
		case g.R.Chance(70) || depth >= g.MaxDepth:
			next = g.matcher()
		default:
			next = g.Gen(depth+1, inRec)
		}
		fm.M = append(fm.M, Entry{key, next})
	}
	return m1("f", m1("f>", fm))
}

// Top generates a whole selector: mostly from the grammar, sometimes one of the common idioms
// (walk everything / walk to a depth) wrapped around or unioned with a grammar-generated part.
func (g *SelGen) Top() *Val {
	lim := func() *Val {
		if g.R.Chance(40) {
			return m1("none", Map())
		}
		return m1("depth", Int(selLimits[g.R.Intn(len(selLimits))]))
	}
	all := func(x *Val) *Val { return m1("a", m1(">", x)) }
	switch g.R.Intn(10) {
	case 0: // R(lim, |[., a>@])
		return m1("R", Map(Entry{"l", lim()}, Entry{":>", m1("|", List(g.matcher(), all(g.edge())))}))
	case 1: // R(lim, a>@)
		return m1("R", Map(Entry{"l", lim()}, Entry{":>", all(g.edge())}))
	case 2: // R(lim, |[S, a>@]) with S from the grammar
		return m1("R", Map(Entry{"l", lim()}, Entry{":>", m1("|", List(g.Gen(2, true), all(g.edge())))}))
	case 3: // a > a > S
		return all(all(g.Gen(2, false)))
	case 4: // R(lim, |[a>F, f{x: f{y: .}, ...}]): one compiled fields clause F shared by unions formed at different depths
		if g.R.Chance(50) {
			extra := &Val{Kind: KMap, M: []Entry{}}
			seen := map[string]bool{}
			for i := 0; i < 2+g.R.Intn(2); i++ {
				x := g.fieldKey()
				if seen[x] {
					continue
				}
				seen[x] = true
				extra.M = append(extra.M, Entry{x, m1("f", m1("f>", Map(Entry{g.fieldKey(), g.matcher()})))})
			}
			first := all(g.wideFields(2, true))
			if g.R.Chance(30) {
				first = m1("f", m1("f>", Map(Entry{g.fieldKey(), g.wideFields(2, true)})))
			}
			return m1("R", Map(Entry{"l", lim()}, Entry{":>", m1("|", List(first, m1("f", m1("f>", extra))))}))
		}
		return g.Gen(0, false)
	default:
		return g.Gen(0, false)
	}
}

// Gen produces a selector; inRec says whether an enclosing ExploreRecursive exists.
func (g *SelGen) Gen(depth int, inRec bool) *Val {
	if depth >= g.MaxDepth {
		if inRec && g.R.Chance(50) {
			return g.edge()
		}
		return g.matcher()
	}
	if g.R.Chance(g.BadPct) {
		switch g.R.Intn(6) {
		case 0:
			return m1("?", Map())
		case 1:
			return m1("a", Map()) // next missing
		case 2:
			return m1("r", Map(Entry{"^", Int(2)}, Entry{"$", Int(2)}, Entry{">", g.matcher()}))
		case 3:
			return m1("i", Map(Entry{"i", Str("1")}, Entry{">", g.matcher()}))
		case 4:
			return Map(Entry{"a", m1(">", g.matcher())}, Entry{".", Map()}) // two keys
		default:
			if !inRec {
				return g.edge() // edge without recursion
			}
			return m1("R", Map(Entry{"l", m1("none", Map())}, Entry{":>", g.matcher()})) // no edge
		}
	}
	k := g.R.Intn(100)
	if depth < 2 && k < 12 && !g.R.Chance(15) {
		k = 12 + g.R.Intn(84) // an exploring clause near the top, so that the walk gets somewhere
	}
	switch {
	case k < 12:
		return g.matcher()
	case k < 30:
		return m1("a", m1(">", g.Gen(depth+1, inRec)))
	case k < 46:
		n := fieldCounts[g.R.Intn(len(fieldCounts))]
		fm := &Val{Kind: KMap, M: []Entry{}}
		seen := map[string]bool{}
		for i := 0; i < n; i++ {
			key := g.fieldKey()
			if seen[key] {
				continue
			}
			seen[key] = true
			fm.M = append(fm.M, Entry{key, g.Gen(depth+1, inRec)})
		}
		return m1("f", m1("f>", fm))
	case k < 56:
		idx := []int64{0, 1, 2, 3, -1, 7}[g.R.Intn(6)]
		return m1("i", Map(Entry{"i", Int(idx)}, Entry{">", g.Gen(depth+1, inRec)}))
	case k < 66:
		a := []int64{-1, 0, 0, 1, 2}[g.R.Intn(5)]
		b := a + 1 + int64(g.R.Intn(4))
		return m1("r", Map(Entry{"^", Int(a)}, Entry{"$", Int(b)}, Entry{">", g.Gen(depth+1, inRec)}))
	case k < 82:
		n := 2 + g.R.Intn(2)
		if g.R.Chance(5) {
			n = g.R.Intn(2)
		}
		u := &Val{Kind: KList, L: []*Val{}}
		for i := 0; i < n; i++ {
			if i == 0 && g.R.Chance(30) {
				u.L = append(u.L, g.wideFields(depth+1, inRec))
				continue
			}
			u.L = append(u.L, g.Gen(depth+1, inRec))
		}
		if inRec && g.R.Chance(g.BareEdgePct) {
			u.L = append(u.L, g.edge())
		}
		return m1("|", u)
	case k < 96:
		var lim *Val
		if g.R.Chance(30) {
			lim = m1("none", Map())
		} else {
			lim = m1("depth", Int(selLimits[g.R.Intn(len(selLimits))]))
		}
		seq := g.GenSeq(depth + 1)
		body := Map(Entry{"l", lim}, Entry{":>", seq})
		if len(g.Cids) > 0 && g.R.Chance(30) {
			body.M = append(body.M, Entry{"!", m1("/", Link(g.Cids[g.R.Intn(len(g.Cids))]))})
		}
		return m1("R", body)
	default:
		if inRec {
			return g.edge()
		}
		return g.matcher()
	}
}

func hasEdge(v *Val) bool {
	if v.Kind == KMap && len(v.M) == 1 {
		switch v.M[0].K {
		case "@":
			return true
		case "R":
			return false // edges inside bind to the inner recursion
		}
	}
	for _, x := range v.L {
		if hasEdge(x) {
			return true
		}
	}
	for _, e := range v.M {
		if hasEdge(e.V) {
			return true
		}
	}
	return false
}

// GenSeq generates the sequence of an ExploreRecursive: a selector that (almost always) contains an
// edge bound to this recursion and not directly inside a union.
func (g *SelGen) GenSeq(depth int) *Val {
	seq := g.Gen(depth, true)
	if isEdge(seq) && !g.R.Chance(10) {
		seq = m1("a", m1(">", seq))
	}
	if !hasEdge(seq) && !g.R.Chance(g.BadPct) {
		tail := m1("a", m1(">", g.edge()))
		if g.R.Chance(40) {
			tail = m1("f", m1("f>", Map(Entry{TravKeys[g.R.Intn(4)], g.edge()})))
		}
		seq = m1("|", List(seq, tail))
	}
	return seq
}

// edgesOf counts the edges bound to the recursion whose sequence v is (not those of nested recursions).
func edgesOf(v *Val) int {
	if v.Kind == KMap && len(v.M) == 1 {
		switch v.M[0].K {
		case "@":
			return 1
		case "R":
			return 0
		}
	}
	n := 0
	for _, x := range v.L {
		n += edgesOf(x)
	}
	for _, e := range v.M {
		n += edgesOf(e.V)
	}
	return n
}

// SelTooWild: some recursion's sequence holds more than two edges, or recursions nest deeper than two.
// Each edge multiplies the size of the rewritten selector at every level of the walk (the real code
// has the same growth), so such selectors are left to the C10 harness.
func SelTooWild(v *Val, nest int) bool {
	if v.Kind == KMap && len(v.M) == 1 && v.M[0].K == "R" {
		nest++
		if nest > 2 {
			return true
		}
		for _, e := range v.M[0].V.M {
			if e.K == ":>" && edgesOf(e.V) > 2 {
				return true
			}
		}
	}
	for _, x := range v.L {
		if SelTooWild(x, nest) {
			return true
		}
	}
	for _, e := range v.M {
		if SelTooWild(e.V, nest) {
			return true
		}
	}
	return false
}

func isEdge(v *Val) bool { return v.Kind == KMap && len(v.M) == 1 && v.M[0].K == "@" }

// TravStore is a small helper for hand-built graphs.
type TravStore struct {
	lsys linking.LinkSystem
}

func NewTravStore() *TravStore {
	return &TravStore{lsys: newLSys(&memstore.Store{})}
}

// Put stores v and returns its CID (binary) and the value as loaded back.
func (s *TravStore) Put(v *Val) (string, *Val) {
	c, lv, err := StoreVal(&s.lsys, v)
	if err != nil {
		panic(err)
	}
	return c, lv
}

// TravInteresting steers the generators by rejection: pairs whose unrestricted walk is short (fewer
// than 5 events) or crosses no link are kept only occasionally, so that most cases exercise the walk.
func TravInteresting(r *Rng, tc *TravCase) bool {
	if SelTooWild(tc.Sel, 0) {
		return false
	}
	env, err := tc.Open()
	if err != nil {
		return false
	}
	if env.SelErr != nil {
		return r.Chance(15)
	}
	evs, cls := env.Run(NoCtl(), false)
	if cls != "ok" && len(evs) <= 250 {
		return r.Chance(50)
	}
	loads := 0
	for _, e := range evs {
		if e.Load {
			loads++
		}
	}
	switch {
	case len(evs) > 250:
		return false
	case len(evs) < 5:
		return r.Chance(8)
	case loads == 0:
		return r.Chance(25)
	}
	return true
}

// ---- selector declaration helpers (the data-model encoding)
func SelMatcher() *Val { return m1(".", Map()) }
func SelSubset(from, to int64) *Val {
	return m1(".", m1("subset", Map(Entry{"[", Int(from)}, Entry{"]", Int(to)})))
}
func SelAll(next *Val) *Val { return m1("a", m1(">", next)) }
func SelEdge() *Val         { return m1("@", Map()) }
func SelIndex(i int64, next *Val) *Val {
	return m1("i", Map(Entry{"i", Int(i)}, Entry{">", next}))
}
func SelRange(a, b int64, next *Val) *Val {
	return m1("r", Map(Entry{"^", Int(a)}, Entry{"$", Int(b)}, Entry{">", next}))
}
func SelUnion(ms ...*Val) *Val { return m1("|", &Val{Kind: KList, L: append([]*Val{}, ms...)}) }
func SelFields(es ...Entry) *Val {
	return m1("f", m1("f>", &Val{Kind: KMap, M: append([]Entry{}, es...)}))
}

// SelRec: depth < -1000 means limit "none"
func SelRec(depth int64, seq *Val, stop string) *Val {
	lim := m1("depth", Int(depth))
	if depth < -1000 {
		lim = m1("none", Map())
	}
	body := Map(Entry{"l", lim}, Entry{":>", seq})
	if stop != "" {
		body.M = append(body.M, Entry{"!", m1("/", Link(stop))})
	}
	return m1("R", body)
}

const SelNoLimit = int64(-1 << 40)

// TravWitnesses: one (selector, tree) per confirmed deviation of the selector code plus the neighbouring
// selector that behaves as specified.  Every harness of the traversal cluster emits them first (ids k...): the
// model driver uses these records to find out which deviations the tree under test still has.
func TravWitnesses() []*TravCase {
	M, A, E := SelMatcher, SelAll, SelEdge
	ints := func(xs ...int64) *Val {
		v := List()
		for _, x := range xs {
			v.L = append(v.L, Int(x))
		}
		return v
	}
	deep := List(List(List(List(List(List(List(Int(1))))))))
	xa := Map(Entry{"x", Map(Entry{"a", Map(Entry{"a", Int(1)})})})
	return []*TravCase{
		{Sel: SelUnion(SelIndex(1, M()), SelRange(0, 3, M())), Root: ints(10, 11, 12)},     // union_dup
		{Sel: SelRec(1, A(SelUnion(E(), SelFields(Entry{"a", E()}))), ""), Root: xa},       // exhausted_unwrap
		{Sel: SelRec(1, A(E()), ""), Root: xa},                                             //   neighbour
		{Sel: SelRec(SelNoLimit, SelUnion(E(), A(E())), ""), Root: List(ints(1), ints(2))}, // bare_edge_panic
		{Sel: SelRec(3, SelUnion(A(E()), A(A(E()))), ""), Root: deep},                      // shared_depth (+unwrap)
		{Sel: SelRec(3, A(A(E())), ""), Root: deep},                                        //   neighbour
		{Sel: SelRec(2, SelUnion(A(M()), A(E())), ""), Root: deep},                         // shared_depth alone
	}
}

// RunCapped is Run without controls that gives up (class "cap") after max events: selectors with several
// edges per sequence can make a walk exponentially long.
func (env *TravEnv) RunCapped(matching bool, max int) ([]TravEvent, string) {
	var evs []TravEvent
	lsys := env.LSys
	inner := lsys.StorageReadOpener
	capped := errors.New("cap")
	lsys.StorageReadOpener = func(lc linking.LinkContext, l datamodel.Link) (io.Reader, error) {
		evs = append(evs, TravEvent{Load: true, Cid: l.Binary()})
		if len(evs) > max {
			return nil, capped
		}
		return inner(lc, l)
	}
	cfg := &traversal.Config{
		Ctx:        context.Background(),
		LinkSystem: lsys,
		LinkTargetNodePrototypeChooser: func(datamodel.Link, linking.LinkContext) (datamodel.NodePrototype, error) {
			return basicnode.Prototype.Any, nil
		},
	}
	prog := traversal.Progress{Cfg: cfg}
	visit := func() error {
		evs = append(evs, TravEvent{})
		if len(evs) > max {
			return capped
		}
		return nil
	}
	err := Safely(func() error {
		if matching {
			return prog.WalkMatching(env.RootNode, env.Sel, func(traversal.Progress, datamodel.Node) error { return visit() })
		}
		return prog.WalkAdv(env.RootNode, env.Sel, func(traversal.Progress, datamodel.Node, traversal.VisitReason) error { return visit() })
	})
	if err != nil && (errors.Is(err, capped) || strings.Contains(err.Error(), "cap")) && len(evs) > max {
		return evs, "cap"
	}
	if IsPanic(err) {
		if strings.Contains(err.Error(), "Traversed Explore Recursive Edge") {
			return evs, "panic:edge"
		}
		return evs, "panic:other"
	}
	return evs, WalkErrClass(err)
}

// GenSharedClauseCase builds a (selector, tree) pair in which one compiled ExploreFields clause F (3, 5, 6 or 7 fields,
// each continuing with a recursion edge) becomes the first member of two different unions, the second one formed for a
// descendant while the children of the first node are still being walked:
//
//	R(none, union(all(F), fields{x1: fields{y1: match}, x2: fields{y2: match}}))  over  {x1: {f: {x2: {y2: ..}}, y1: ..}}
//
// (f one of F's fields).  Interests() must hand out a list nobody else writes to; an interest list that aliases the
// compiled clause loses the visit of x1/y1.  Noise entries and links are mixed in.
func GenSharedClauseCase(r *Rng) *TravCase {
	pool := append([]string{}, TravKeys...)
	perm := r.Perm(len(pool))
	next := 0
	key := func() string {
		for {
			k := pool[perm[next%len(perm)]]
			next++
			if k != "" {
				return k
			}
		}
	}
	nf := []int{3, 5, 6, 7}[r.Intn(4)]
	var fkeys []string
	F := &Val{Kind: KMap, M: []Entry{}}
	for i := 0; i < nf; i++ {
		k := key()
		fkeys = append(fkeys, k)
		F.M = append(F.M, Entry{k, SelEdge()})
	}
	x1, x2, y1, y2 := key(), key(), key(), key()
	sel := SelRec(SelNoLimit, SelUnion(
		SelAll(m1("f", m1("f>", F))),
		SelFields(Entry{x1, SelFields(Entry{y1, SelMatcher()})}, Entry{x2, SelFields(Entry{y2, SelMatcher()})})), "")
	if r.Chance(30) {
		sel = SelRec(5, SelUnion(
			SelAll(m1("f", m1("f>", F))),
			SelFields(Entry{x1, SelFields(Entry{y1, SelMatcher()})}, Entry{x2, SelFields(Entry{y2, SelMatcher()})}),
			SelMatcher()), "")
	}
	store := NewTravStore()
	tc := &TravCase{Sel: sel}
	put := func(v *Val) *Val { // sometimes behind a link
		if r.Chance(25) {
			c, lv := store.Put(v)
			dup := false
			for _, b := range tc.Blocks {
				if b.Cid == c {
					dup = true
				}
			}
			if !dup {
				tc.Blocks = append(tc.Blocks, TravBlock{c, lv})
			}
			return Link(c)
		}
		return v
	}
	leaf := func() *Val { return Str([]string{"under", "x", "", "leaf"}[r.Intn(4)]) }
	f := fkeys[r.Intn(len(fkeys))]
	inner := Map(Entry{y2, leaf()})
	if r.Chance(40) {
		inner.M = append(inner.M, Entry{fkeys[r.Intn(len(fkeys))], Map(Entry{x1, Map(Entry{y1, leaf()})})})
	}
	mid := Map(Entry{x2, put(inner)})
	if r.Chance(40) {
		mid.M = append(mid.M, Entry{x1, Map(Entry{y1, leaf()})})
	}
	under := Map(Entry{f, put(mid)}, Entry{y1, leaf()})
	if r.Chance(50) { // a second field of F below x1, walked after the first
		g := fkeys[r.Intn(len(fkeys))]
		if g != f {
			under.M = append(under.M, Entry{g, Map(Entry{x2, Map(Entry{y2, leaf()})})})
		}
	}
	root := Map(Entry{x1, put(under)})
	if r.Chance(50) {
		root.M = append(root.M, Entry{x2, Map(Entry{y2, leaf()}, Entry{fkeys[0], Map(Entry{x1, Map(Entry{y1, leaf()})})})})
	}
	if r.Chance(30) {
		root = List(root, Map(Entry{x1, Map(Entry{y1, leaf()})}))
	}
	tc.Root = root
	return tc
}
