package lib

// Schema cluster: "AssignNode of a typed node built under a sibling schema type".
// A sibling of a type has the same inferred Go type (reflect.StructOf yields identical types for
// schema types that differ only in optional/nullable, representation strategy, renames, or struct
// versus union of the same members) but a different schema.  A bindnode node of the sibling handed to
// AssignNode must be taken for its data-model content — which conforms to the target type or not —
// and never for its Go value.

import (
	"fmt"
	"strconv"
	"strings"
	"unicode"

	"github.com/ipld/go-ipld-prime/datamodel"
	"github.com/ipld/go-ipld-prime/schema"
)

func schClone(t *SchTy) *SchTy {
	c, err := SchParse(t.Text())
	if err != nil {
		panic(err)
	}
	return c
}

func lowerFirst(s string) string {
	r := []rune(s)
	r[0] = unicode.ToLower(r[0])
	return string(r)
}

func upperFirst(s string) string {
	r := []rune(s)
	r[0] = unicode.ToUpper(r[0])
	return string(r)
}

// SchSibling derives a sibling of t (a struct or a union), or nil.
func (r *Rng) SchSibling(t *SchTy) *SchTy {
	s := schClone(t)
	switch t.K {
	case 'R':
		var opts []func() bool
		// optional <-> nullable on a field that has exactly one of the two
		opts = append(opts, func() bool {
			var idx []int
			for i, f := range s.Fields {
				if f.Opt != f.Nul && s.SRepr != 'j' {
					idx = append(idx, i)
				}
			}
			if len(idx) == 0 {
				return false
			}
			i := idx[r.Intn(len(idx))]
			if s.SRepr == 't' && i != len(s.Fields)-1 {
				return false // tuples: optionals only at the tail
			}
			s.Fields[i].Opt, s.Fields[i].Nul = s.Fields[i].Nul, s.Fields[i].Opt
			if s.SRepr == 't' && s.Fields[i].Opt {
				for _, f := range s.Fields[:i] {
					_ = f
				}
			}
			return true
		})
		// another representation strategy over the same fields
		opts = append(opts, func() bool {
			want := []byte{'m', 't', 'p'}[r.Intn(3)]
			if want == s.SRepr {
				return false
			}
			if want == 't' {
				seenOpt := false
				for _, f := range s.Fields {
					if seenOpt && !f.Opt {
						return false
					}
					seenOpt = seenOpt || f.Opt
				}
			}
			s.SRepr, s.Delim = want, ""
			for i := range s.Fields {
				s.Fields[i].Key = s.Fields[i].Name
			}
			return true
		})
		// renames dropped / added
		opts = append(opts, func() bool {
			if s.SRepr != 'm' || len(s.Fields) == 0 {
				return false
			}
			i := r.Intn(len(s.Fields))
			if s.Fields[i].Key != s.Fields[i].Name {
				s.Fields[i].Key = s.Fields[i].Name
			} else {
				s.Fields[i].Key = "sib" + s.Fields[i].Name
			}
			return true
		})
		// every field optional and not nullable: the keyed union over the same members
		opts = append(opts, func() bool {
			if s.SRepr == 'j' || len(s.Fields) == 0 {
				return false
			}
			for _, f := range s.Fields {
				if !f.Opt || f.Nul {
					return false
				}
			}
			u := &SchTy{K: 'U', URepr: 'k'}
			for _, f := range s.Fields {
				u.Members = append(u.Members, SchMember{Name: upperFirst(f.Name), Disc: f.Name, Kind: 'm', T: f.T})
			}
			s = u
			return true
		})
		for _, i := range r.Perm(len(opts)) {
			if opts[i]() {
				return s
			}
		}
	case 'U':
		// the struct with one optional field per member
		st := &SchTy{K: 'R', SRepr: 'm'}
		for _, m := range s.Members {
			n := lowerFirst(m.Name)
			st.Fields = append(st.Fields, SchField{Name: n, Key: n, Opt: true, T: m.T})
		}
		return st
	}
	return nil
}

// SchInjection: a typed node standing for the subtree Content of a value tree.
type SchInjection struct {
	Content *Val           // what datamodel.Copy of the node carries (goes into the record's tree)
	Node    datamodel.Node // the node handed to AssignNode
	Sib     *SchTy         // the sibling type the node was built under
	SibTree *Val           // the type-level tree it was built from
	View    byte           // 't' the typed node itself, 'r' its Representation()
}

// schCopyContent reads a node as datamodel.Copy does: iterators, absent values skipped.
func schCopyContent(n datamodel.Node) (*Val, error) {
	if n == nil || n.IsAbsent() {
		return nil, fmt.Errorf("absent")
	}
	switch n.Kind() {
	case datamodel.Kind_List:
		v := &Val{Kind: KList}
		for it := n.ListIterator(); !it.Done(); {
			_, x, err := it.Next()
			if err != nil {
				return nil, err
			}
			if x.IsAbsent() {
				continue
			}
			xv, err := schCopyContent(x)
			if err != nil {
				return nil, err
			}
			v.L = append(v.L, xv)
		}
		return v, nil
	case datamodel.Kind_Map:
		v := &Val{Kind: KMap}
		for it := n.MapIterator(); !it.Done(); {
			k, x, err := it.Next()
			if err != nil {
				return nil, err
			}
			if x.IsAbsent() {
				continue
			}
			ks, err := k.AsString()
			if err != nil {
				return nil, err
			}
			xv, err := schCopyContent(x)
			if err != nil {
				return nil, err
			}
			v.M = append(v.M, Entry{ks, xv})
		}
		return v, nil
	}
	return schToVal(n)
}

// SchBuildInjection builds a node of sib from its type-level tree and reads its content.
func SchBuildInjection(sib *SchTy, tree *Val, view byte) (inj *SchInjection, err error) {
	err = Safely(func() error {
		typ, _, e := SchLoad(sib)
		if e != nil {
			return e
		}
		proto, e := SchBindProto(sib, typ)
		if e != nil {
			return e
		}
		nb := proto.NewBuilder()
		if e := Assemble(nb, tree); e != nil {
			return e
		}
		var n datamodel.Node = nb.Build()
		if view == 'r' {
			n = n.(schema.TypedNode).Representation()
		}
		c, e := schCopyContent(n)
		if e != nil {
			return e
		}
		inj = &SchInjection{Content: c, Node: n, Sib: sib, SibTree: tree, View: view}
		return nil
	})
	return
}

// the hook the value generator consults at every struct / union position
var schHook func(t *SchTy, level byte) *Val

// SchValueWithSibling generates a conforming tree of t at the level in which (at most) one struct or
// union position holds the content of a node built under a sibling type.
func (r *Rng) SchValueWithSibling(t *SchTy, level byte, prefix string) (*Val, *SchInjection) {
	var inj *SchInjection
	tries := 0
	schHook = func(u *SchTy, lv byte) *Val {
		if inj != nil || tries >= 3 || !r.Chance(35) {
			return nil
		}
		tries++
		if u.Crossing() {
			return nil
		}
		sib := r.SchSibling(u)
		if sib == nil || !sib.WF() || sib.Crossing() {
			return nil
		}
		SchAssignNames(sib, prefix+"S"+strconv.Itoa(tries))
		saved := schHook
		schHook = nil
		tree := r.SchValue(sib, 't', nil)
		schHook = saved
		view := byte('t')
		if r.Bool() {
			view = 'r'
		}
		x, err := SchBuildInjection(sib, tree, view)
		if err != nil {
			return nil
		}
		inj = x
		return x.Content
	}
	v := r.SchValue(t, level, nil)
	schHook = nil
	if inj != nil && schPathOf(v, inj.Content) == nil {
		inj = nil // the content was folded into a string (stringjoin / stringprefix parent)
	}
	return v, inj
}

// schPathOf: child indices from root to the target (pointer identity), nil if absent.
func schPathOf(root, target *Val) []int {
	if root == target {
		return []int{}
	}
	for i, x := range root.L {
		if p := schPathOf(x, target); p != nil {
			return append([]int{i}, p...)
		}
	}
	for i, e := range root.M {
		if p := schPathOf(e.V, target); p != nil {
			return append([]int{i}, p...)
		}
	}
	return nil
}

func schAt(root *Val, path []int) *Val {
	v := root
	for _, i := range path {
		switch {
		case v.Kind == KList && i < len(v.L):
			v = v.L[i]
		case v.Kind == KMap && i < len(v.M):
			v = v.M[i].V
		default:
			return nil
		}
	}
	return v
}

// SchSibRoute renders the replay information: sib|<path>|<view>|<sibling schema>|<sibling tree>
func SchSibRoute(root *Val, inj *SchInjection) string {
	p := schPathOf(root, inj.Content)
	parts := make([]string, len(p))
	for i, x := range p {
		parts[i] = strconv.Itoa(x)
	}
	return "sib|" + strings.Join(parts, ".") + "|" + string(inj.View) + "|" + inj.Sib.Text() + "|" + inj.SibTree.Text()
}

// SchParseSibRoute rebuilds the injection of a replayed record.
func SchParseSibRoute(route string, root *Val, prefix string) (*SchInjection, error) {
	f := strings.SplitN(route, "|", 5)
	if len(f) != 5 || f[0] != "sib" {
		return nil, fmt.Errorf("not a sibling route")
	}
	var path []int
	if f[1] != "" {
		for _, s := range strings.Split(f[1], ".") {
			i, err := strconv.Atoi(s)
			if err != nil {
				return nil, err
			}
			path = append(path, i)
		}
	}
	sib, err := SchParse(f[3])
	if err != nil {
		return nil, err
	}
	SchAssignNames(sib, prefix)
	tree, err := ParseVal(f[4])
	if err != nil {
		return nil, err
	}
	inj, err := SchBuildInjection(sib, tree, f[2][0])
	if err != nil {
		return nil, err
	}
	at := schAt(root, path)
	if at == nil {
		return nil, fmt.Errorf("bad path")
	}
	inj.Content = at // the node stands for this subtree of the replayed tree
	return inj, nil
}

// SchAssembleInj is Assemble with one subtree replaced by AssignNode of the injected node.
func SchAssembleInj(na datamodel.NodeAssembler, v *Val, inj *SchInjection) error {
	if inj != nil && v == inj.Content {
		return na.AssignNode(inj.Node)
	}
	switch v.Kind {
	case KList:
		la, err := na.BeginList(int64(len(v.L)))
		if err != nil {
			return err
		}
		for _, x := range v.L {
			if err := SchAssembleInj(la.AssembleValue(), x, inj); err != nil {
				return err
			}
		}
		return la.Finish()
	case KMap:
		ma, err := na.BeginMap(int64(len(v.M)))
		if err != nil {
			return err
		}
		for _, e := range v.M {
			va, err := ma.AssembleEntry(e.K)
			if err != nil {
				return err
			}
			if err := SchAssembleInj(va, e.V, inj); err != nil {
				return err
			}
		}
		return ma.Finish()
	}
	return Assemble(na, v)
}

// SchBuildInj: SchBuild over the direct route with the injection.
func SchBuildInj(proto schema.TypedPrototype, level string, v *Val, inj *SchInjection) string {
	var nb datamodel.NodeBuilder
	err := Safely(func() error {
		if level == "r" {
			nb = proto.Representation().NewBuilder()
		} else {
			nb = proto.NewBuilder()
		}
		return SchAssembleInj(nb, v, inj)
	})
	if err != nil {
		if IsPanic(err) {
			return "panic"
		}
		return "err"
	}
	var n datamodel.Node
	if err := Safely(func() error { n = nb.Build(); return nil }); err != nil {
		return "panic"
	}
	return "ok|" + SchViews(n)
}

// SchTwin: the same schema under the SAME type names with different serial details — keyed-union
// discriminants rotated (or altered), struct renames altered.  Two schemas of one process that share
// type names must not influence each other (no per-name caches); nil if nothing can differ.
func SchTwin(t *SchTy, prefix string) *SchTy {
	tw := schClone(t)
	changed := false
	var walk func(x *SchTy)
	walk = func(x *SchTy) {
		switch x.K {
		case 'L', 'M':
			walk(x.Elem)
		case 'R':
			for i := range x.Fields {
				if x.SRepr == 'm' && x.Fields[i].Key != x.Fields[i].Name {
					x.Fields[i].Key += "2"
					changed = true
				}
				walk(x.Fields[i].T)
			}
		case 'U':
			if x.URepr == 'k' {
				n := len(x.Members)
				if n >= 2 {
					first := x.Members[0].Disc
					for i := 0; i < n-1; i++ {
						x.Members[i].Disc = x.Members[i+1].Disc
					}
					x.Members[n-1].Disc = first
				} else if n == 1 {
					x.Members[0].Disc += "2"
				}
				changed = changed || n >= 1
			}
			for i := range x.Members {
				walk(x.Members[i].T)
			}
		}
	}
	walk(tw)
	if !changed || !tw.WF() {
		return nil
	}
	SchAssignNames(tw, prefix)
	return tw
}
