package lib

import (
	"crypto/sha256"
	"crypto/sha512"
	"fmt"
	"math"
	"math/big"
	"unicode/utf8"
)

// Rng is a splitmix64 generator: every random choice of a harness run derives from one state.
type Rng struct{ s uint64 }

// NewRng mixes the seed thoroughly: consecutive seeds must give unrelated streams (a plain
// splitmix state of seed*golden is the same stream shifted by one draw per seed step).
func NewRng(seed uint64) *Rng {
	z := seed + 0x9E3779B97F4A7C15
	z = (z ^ (z >> 30)) * 0xBF58476D1CE4E5B9
	z = (z ^ (z >> 27)) * 0x94D049BB133111EB
	z = z ^ (z >> 31)
	z = (z ^ (z >> 33)) * 0xff51afd7ed558ccd
	z = z ^ (z >> 29)
	return &Rng{s: z*0xD6E8FEB86659FD93 + 0x1234567}
}

func (r *Rng) U64() uint64 {
	r.s += 0x9E3779B97F4A7C15
	z := r.s
	z = (z ^ (z >> 30)) * 0xBF58476D1CE4E5B9
	z = (z ^ (z >> 27)) * 0x94D049BB133111EB
	return z ^ (z >> 31)
}
func (r *Rng) Intn(n int) int {
	if n <= 0 {
		return 0
	}
	return int(r.U64() % uint64(n))
}
func (r *Rng) Bool() bool         { return r.U64()&1 == 1 }
func (r *Rng) Chance(pct int) bool { return r.Intn(100) < pct }
func (r *Rng) Fork() *Rng         { return &Rng{s: r.U64()} }

func (r *Rng) BytesN(n int) string {
	b := make([]byte, n)
	for i := range b {
		b[i] = byte(r.U64())
	}
	return string(b)
}

// Perm returns a random permutation of 0..n-1.
func (r *Rng) Perm(n int) []int {
	p := make([]int, n)
	for i := range p {
		p[i] = i
	}
	for i := n - 1; i > 0; i-- {
		j := r.Intn(i + 1)
		p[i], p[j] = p[j], p[i]
	}
	return p
}

var IntPool = func() []*big.Int {
	var out []*big.Int
	add := func(s string) {
		i, _ := new(big.Int).SetString(s, 10)
		out = append(out, i)
	}
	for _, s := range []string{"0", "1", "-1", "23", "24", "25", "255", "256", "257", "65535", "65536", "65537",
		"4294967295", "4294967296", "4294967297", "9007199254740991", "9007199254740992", "9007199254740993",
		"9223372036854775807", "-9223372036854775808", "-9223372036854775807",
		"9223372036854775808", "18446744073709551615", "18446744073709551614",
		"-24", "-25", "-26", "-256", "-257", "-258", "-65536", "-65537", "-4294967296", "-4294967297",
		"10", "100", "1000", "-10", "-100"} {
		add(s)
	}
	return out
}()

var FloatPool = []uint64{
	0, 0x8000000000000000, // +-0
	math.Float64bits(1), math.Float64bits(-3), math.Float64bits(0.5), math.Float64bits(1.5),
	math.Float64bits(1e20), math.Float64bits(1e21), math.Float64bits(1e22), math.Float64bits(1e-6), math.Float64bits(1e-7),
	math.Float64bits(9007199254740992), math.Float64bits(9007199254740993), math.Float64bits(123456789.125),
	math.Float64bits(math.MaxFloat64), math.Float64bits(math.SmallestNonzeroFloat64), 0x000fffffffffffff,
	math.Float64bits(3.141592653589793), math.Float64bits(-2.5e-300), math.Float64bits(65504), math.Float64bits(float64(float32(0.1))),
	math.Float64bits(100), math.Float64bits(1e15), math.Float64bits(123456789012345680000),
}

var StrPool = []string{"", "a", "b", "aa", "ab", "ba", "abc", "/", "bytes", "key", "\x00", "\xff", "é", "€", "\U0001F600",
	" ", " ", "aé", "ab\xff", "aa\x80", "z", "zz", "Z", "0", "1", "01", "10", "-", "..", "a/b", "\"", "\\", "\n", "\t\r", "<>&", "\x7f", "\x1f",
	"abé", "acé", "éa", "éb", "long-ish key with spaces"}

// GenCfg tunes the structured value generator.
type GenCfg struct {
	MaxDepth    int
	MaxWidth    int
	Links       bool
	UintBeyond  bool // ints in [2^63, 2^64)
	BadUTF8     bool // allow strings that are not valid UTF-8
	NaNInf      bool
	BigStrings  bool // occasionally strings/bytes at head-length boundaries (255, 256, 65535, 65536)
	NoFloat     bool
	NoBytes     bool
	NoNull      bool
}

func (r *Rng) GenInt(cfg *GenCfg) *Val {
	for {
		var i *big.Int
		switch r.Intn(4) {
		case 0, 1:
			i = IntPool[r.Intn(len(IntPool))]
		case 2:
			i = big.NewInt(int64(r.U64()))
		default:
			i = big.NewInt(int64(r.Intn(2000)) - 1000)
		}
		if !cfg.UintBeyond && i.Cmp(two63) >= 0 {
			continue
		}
		return &Val{Kind: KInt, I: new(big.Int).Set(i)}
	}
}

func (r *Rng) GenFloat(cfg *GenCfg) *Val {
	for {
		var b uint64
		switch r.Intn(3) {
		case 0, 1:
			b = FloatPool[r.Intn(len(FloatPool))]
			if r.Bool() {
				b ^= 1 << 63
			}
		default:
			b = r.U64()
		}
		f := math.Float64frombits(b)
		if !cfg.NaNInf && (f != f || math.IsInf(f, 0)) {
			continue
		}
		return FloatBits(b)
	}
}

func validUTF8(s string) bool { return utf8.ValidString(s) }
func validUTF8old(s string) bool {
	for _, c := range s {
		if c == 0xFFFD {
			// could be a genuine U+FFFD; treat as invalid to stay conservative
			return false
		}
	}
	return true
}

func (r *Rng) GenStr(cfg *GenCfg) string {
	for {
		var s string
		switch r.Intn(6) {
		case 0, 1, 2:
			s = StrPool[r.Intn(len(StrPool))]
		case 3:
			s = StrPool[r.Intn(len(StrPool))] + StrPool[r.Intn(len(StrPool))]
		case 4:
			n := r.Intn(12)
			b := make([]byte, n)
			for i := range b {
				b[i] = byte(32 + r.Intn(95))
			}
			s = string(b)
		default:
			s = r.BytesN(r.Intn(10))
		}
		if cfg.BigStrings && r.Intn(60) == 0 {
			lens := []int{23, 24, 255, 256, 257, 65535, 65536}
			n := lens[r.Intn(len(lens))]
			b := make([]byte, n)
			for i := range b {
				b[i] = byte(97 + (i % 26))
			}
			s = string(b)
		}
		if !cfg.BadUTF8 && !validUTF8(s) {
			continue
		}
		return s
	}
}

// GenCid returns the binary form of a structurally valid CID.
func (r *Rng) GenCid() string {
	data := r.BytesN(r.Intn(20))
	codecs := []uint64{0x55, 0x70, 0x71, 0x0129, 0x51, 0x0200}
	switch r.Intn(8) {
	case 0: // v0
		d := sha256.Sum256([]byte(data))
		return "\x12\x20" + string(d[:])
	case 1: // identity
		return "\x01" + varint(codecs[r.Intn(len(codecs))]) + "\x00" + varint(uint64(len(data))) + data
	case 2: // sha2-512
		d := sha512.Sum512([]byte(data))
		return "\x01" + varint(codecs[r.Intn(len(codecs))]) + "\x13\x40" + string(d[:])
	case 3: // truncated sha2-256
		d := sha256.Sum256([]byte(data))
		n := r.Intn(32)
		return "\x01" + varint(codecs[r.Intn(len(codecs))]) + "\x12" + varint(uint64(n)) + string(d[:n])
	default:
		d := sha256.Sum256([]byte(data))
		return "\x01" + varint(codecs[r.Intn(len(codecs))]) + "\x12\x20" + string(d[:])
	}
}

func varint(v uint64) string {
	var b []byte
	for v >= 0x80 {
		b = append(b, byte(v)|0x80)
		v >>= 7
	}
	return string(append(b, byte(v)))
}

// GenVal generates a structured data-model value.
func (r *Rng) GenVal(cfg *GenCfg, depth int) *Val {
	leafOnly := depth >= cfg.MaxDepth
	for {
		k := r.Intn(12)
		switch {
		case k == 0:
			if cfg.NoNull {
				continue
			}
			return Null()
		case k == 1:
			return Bool(r.Bool())
		case k == 2 || k == 3:
			return r.GenInt(cfg)
		case k == 4:
			if cfg.NoFloat {
				continue
			}
			return r.GenFloat(cfg)
		case k == 5:
			return Str(r.GenStr(cfg))
		case k == 6:
			if cfg.NoBytes {
				continue
			}
			c := *cfg
			c.BadUTF8 = true
			return Bytes(r.GenStr(&c))
		case k == 7:
			if !cfg.Links {
				continue
			}
			return Link(r.GenCid())
		case k == 8 || k == 9:
			if leafOnly {
				continue
			}
			n := r.Intn(cfg.MaxWidth + 1)
			if r.Intn(40) == 0 {
				n = 24 + r.Intn(3) // head boundary for counts
			}
			v := &Val{Kind: KList}
			for i := 0; i < n; i++ {
				v.L = append(v.L, r.GenVal(cfg, depth+1))
			}
			return v
		default:
			if leafOnly {
				continue
			}
			n := r.Intn(cfg.MaxWidth + 1)
			if r.Intn(40) == 0 {
				n = 24 + r.Intn(3)
			}
			v := &Val{Kind: KMap}
			seen := map[string]bool{}
			for i := 0; i < n; i++ {
				k := r.GenStr(cfg)
				if i >= len(StrPool)/2 || seen[k] {
					k = k + "#" + string(rune('a'+i%26)) + string(rune('a'+(i/26)%26))
				}
				if seen[k] {
					continue
				}
				seen[k] = true
				v.M = append(v.M, Entry{k, r.GenVal(cfg, depth+1)})
			}
			return v
		}
	}
}

// Permuted returns a deep copy of v with every map's entries shuffled.
func (r *Rng) Permuted(v *Val) *Val {
	c := *v
	switch v.Kind {
	case KList:
		c.L = make([]*Val, len(v.L))
		for i, x := range v.L {
			c.L[i] = r.Permuted(x)
		}
	case KMap:
		p := r.Perm(len(v.M))
		c.M = make([]Entry, len(v.M))
		for i, j := range p {
			c.M[i] = Entry{v.M[j].K, r.Permuted(v.M[j].V)}
		}
	}
	return &c
}

// Size counts the nodes of a value.
func (v *Val) Size() int {
	n := 1
	for _, x := range v.L {
		n += x.Size()
	}
	for _, e := range v.M {
		n += e.V.Size()
	}
	return n
}

// KindMask returns a bitmask of the kinds occurring in v.
func (v *Val) KindMask() int {
	m := 1 << v.Kind
	for _, x := range v.L {
		m |= x.KindMask()
	}
	for _, e := range v.M {
		m |= e.V.KindMask()
	}
	return m
}

// GenWide returns a container that is wide rather than deep: a map or list of n entries whose children are
// mostly scalars, with containers planted at late positions (so that anything that depends on the *position*
// of an entry among its siblings — depth or budget bookkeeping, sort stability, buffer reuse — is exercised).
// Keys come from a small alphabet in a few lengths, so many keys have equal length and share prefixes.
// shape: 0 = map, 1 = list.  n is the number of entries (keys are distinct by construction).
func (r *Rng) GenWide(cfg *GenCfg, shape int, n int) *Val {
	child := func(i int) *Val {
		late := i >= n-3 || i == n/2 || r.Intn(97) == 0
		if late {
			switch r.Intn(3) {
			case 0:
				return &Val{Kind: KList, L: []*Val{Int(int64(i)), Str("z")}}
			case 1:
				return &Val{Kind: KMap, M: []Entry{{"k", Int(int64(i))}, {"", &Val{Kind: KList}}}}
			default:
				return &Val{Kind: KList, L: []*Val{&Val{Kind: KMap, M: []Entry{{"d", Null()}}}}}
			}
		}
		switch r.Intn(4) {
		case 0:
			return Int(int64(i))
		case 1:
			return Str(string(rune('a' + i%26)))
		case 2:
			return Bool(i%2 == 0)
		default:
			return Null()
		}
	}
	if shape == 1 {
		v := &Val{Kind: KList}
		for i := 0; i < n; i++ {
			v.L = append(v.L, child(i))
		}
		return v
	}
	v := &Val{Kind: KMap}
	seen := map[string]bool{}
	alpha := "abAB\x7f\xc3\x00z"
	for i := 0; len(v.M) < n; i++ {
		ln := 1 + r.Intn(3)
		if i%5 == 0 {
			ln = 2
		}
		k := ""
		for j := 0; j < ln; j++ {
			k += string(alpha[r.Intn(len(alpha))])
		}
		if !cfg.BadUTF8 && !validUTF8(k) {
			k = fmt.Sprintf("k%d", i)
		}
		if seen[k] {
			k = fmt.Sprintf("%s%d", k[:1], i)
		}
		if seen[k] {
			continue
		}
		seen[k] = true
		v.M = append(v.M, Entry{k, child(len(v.M))})
	}
	return v
}
