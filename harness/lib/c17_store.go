package lib

// Shared between cmd/c17 and cmd/c18: error canonicaliser, directory listing, sandbox layout,
// quirk probes and key pools for the storage checks.

import (
	"context"
	"crypto/md5"
	"encoding/hex"
	"strconv"
	"encoding/base32"
	"errors"
	"io/fs"
	"os"
	"path/filepath"
	"regexp"
	"sort"
	"strings"
	"syscall"

	"github.com/ipfs/go-cid"
	"github.com/ipld/go-ipld-prime/storage/fsstore"
	"github.com/ipld/go-ipld-prime/storage/sharding"
)

// StoreErrClass maps an error of a storage call to the model's errno enum.
func StoreErrClass(err error) string {
	if err == nil {
		return "ok"
	}
	if IsPanic(err) {
		return "panic"
	}
	var en syscall.Errno
	if errors.As(err, &en) {
		switch en {
		case syscall.ENOENT:
			return "enoent"
		case syscall.ENOTDIR:
			return "enotdir"
		case syscall.EISDIR:
			return "eisdir"
		case syscall.EEXIST:
			return "eexist"
		case syscall.ENOTEMPTY:
			return "enotempty"
		case syscall.ENAMETOOLONG:
			return "enametoolong"
		case syscall.EINVAL:
			return "einval"
		case syscall.EXDEV:
			return "exdev"
		case syscall.EIO:
			return "eio"
		case syscall.ENOSPC:
			return "enospc"
		case syscall.EACCES:
			return "eacces"
		}
		return "eother"
	}
	if errors.Is(err, fs.ErrNotExist) || err.Error() == "404" {
		return "e404"
	}
	if strings.Contains(err.Error(), "incompatible link type") {
		return "ebadlink"
	}
	if strings.Contains(err.Error(), "WriteCommitter already used") {
		return "eused"
	}
	if strings.Contains(err.Error(), "empty key") {
		return "eemptykey"
	}
	return "eother"
}

var stagingName = regexp.MustCompile(`^[0-9a-f]{16}$`)

// ListTree lists everything below root (not root itself): "d:<path>" / "f:<path>=<contenthex>",
// path = hex of each component joined by '/', sorted bytewise. Files directly inside a directory
// called ".temp" whose name is 16 hex digits (fsstore's random staging names) are shown as "*".
// The hex of the sandbox' base directory d1/d2/d3/d4/d5/s is abbreviated to "B".
func ListTree(root string) string {
	basePrefix := ""
	for i, d := range SandboxDirs {
		if i > 0 {
			basePrefix += "/"
		}
		basePrefix += Hex(d)
	}
	var ents []string
	// symbolic links are followed (a staging directory may be a link into another file system)
	var rec func(abs string, comps []string)
	rec = func(abs string, comps []string) {
		des, err := os.ReadDir(abs)
		if err != nil {
			return
		}
		for _, de := range des {
			p := filepath.Join(abs, de.Name())
			fi, err := os.Stat(p)
			if err != nil {
				continue
			}
			cs := append(append([]string{}, comps...), de.Name())
			hx := make([]string, len(cs))
			for i, c := range cs {
				hx[i] = Hex(c)
			}
			n := len(cs)
			if !fi.IsDir() && n >= 2 && cs[n-2] == ".temp" && stagingName.MatchString(cs[n-1]) {
				hx[n-1] = "*"
			}
			ps := strings.Join(hx, "/")
			if ps == basePrefix {
				ps = "B"
			} else if strings.HasPrefix(ps, basePrefix+"/") {
				ps = "B" + ps[len(basePrefix):]
			}
			if fi.IsDir() {
				ents = append(ents, "d:"+ps)
				rec(p, cs)
			} else {
				b, _ := os.ReadFile(p)
				ents = append(ents, "f:"+ps+"="+ContentTokBytes(b))
			}
		}
	}
	rec(root, nil)
	sort.Strings(ents)
	return strings.Join(ents, ",")
}

// SecondFs returns a writable directory on a file system other than the one of dir, or "".
func SecondFs(dir string) string {
	st, err := os.Stat(dir)
	if err != nil {
		return ""
	}
	here, ok := st.Sys().(*syscall.Stat_t)
	if !ok {
		return ""
	}
	for _, cand := range []string{"/dev/shm", "/run/shm", os.TempDir()} {
		cs, err := os.Stat(cand)
		if err != nil || !cs.IsDir() {
			continue
		}
		if there, ok := cs.Sys().(*syscall.Stat_t); ok && there.Dev != here.Dev {
			if d, err := os.MkdirTemp(cand, "verifprobe"); err == nil {
				os.Remove(d)
				return cand
			}
		}
	}
	return ""
}

// SandboxDepth directories lie between the fresh parent and the store's base directory, so that
// keys with a few ".." components escape the base but stay inside the parent, where they are seen.
var SandboxDirs = []string{"d1", "d2", "d3", "d4", "d5", "s"}

// NewSandbox creates <cwd>/build/run/<tag>/<random>/d1/.../s and returns (parent, base).
func NewSandbox(tag string) (string, string) {
	wd, err := os.Getwd()
	if err != nil {
		panic(err)
	}
	top := filepath.Join(wd, "build", "run", tag)
	if err := os.MkdirAll(top, 0777); err != nil {
		panic(err)
	}
	parent, err := os.MkdirTemp(top, "sb")
	if err != nil {
		panic(err)
	}
	base := filepath.Join(append([]string{parent}, SandboxDirs...)...)
	if err := os.MkdirAll(base, 0777); err != nil {
		panic(err)
	}
	return parent, base
}

var b32 = base32.StdEncoding.WithPadding(base32.NoPadding)

// B32 is the escaping function handed to fsstore.Init (the same as fsstore's own default).
func B32(s string) string { return b32.EncodeToString([]byte(s)) }

var ShardFns = map[string]func(string, *[]string){
	"r12": sharding.Shard_r12, "r122": sharding.Shard_r122, "r133": sharding.Shard_r133,
}

// HexUp is a CUSTOM escaping function (upper-case hex), as a user of fsstore.Init might pass.
func HexUp(s string) string { return strings.ToUpper(Hex(s)) }

// EscapeOf returns the escaping function of a store spec "<shard>[:hex]" (default: base32).
func EscapeOf(spec string) func(string) string {
	if strings.HasSuffix(spec, ":hex") {
		return HexUp
	}
	return B32
}

// ShardOf strips the escaping suffix of a store spec.
func ShardOf(spec string) string { return strings.SplitN(spec, ":", 2)[0] }

// OpenFsStore opens a store for spec "<r12|r122|r133>[:hex]": "r12" alone is InitDefaults, everything
// else goes through Init with the sharding and escaping functions named.
func OpenFsStore(base, spec string) (*fsstore.Store, error) {
	st := &fsstore.Store{}
	if spec == "r12" {
		return st, st.InitDefaults(base)
	}
	return st, st.Init(base, EscapeOf(spec), ShardFns[ShardOf(spec)])
}

// ContentTok prints a block for an observation: hex up to 2048 bytes, length and MD5 above.
func ContentTok(b string) string {
	if len(b) <= 2048 {
		return Hex(b)
	}
	sum := md5.Sum([]byte(b))
	return "B" + strconv.Itoa(len(b)) + ":" + hex.EncodeToString(sum[:])
}

// ContentTokBytes is ContentTok without copying the block.
func ContentTokBytes(b []byte) string {
	if len(b) <= 2048 {
		return hex.EncodeToString(b)
	}
	sum := md5.Sum(b)
	return "B" + strconv.Itoa(len(b)) + ":" + hex.EncodeToString(sum[:])
}

// BlobSpecBytes expands "len.seed+len.seed+..." into one freshly allocated slice.
func BlobSpecBytes(spec string) []byte {
	type part struct{ n, sd int }
	var parts []part
	total := 0
	for _, p := range strings.Split(spec, "+") {
		f := strings.SplitN(p, ".", 2)
		if len(f) != 2 {
			continue
		}
		n, _ := strconv.Atoi(f[0])
		sd, _ := strconv.Atoi(f[1])
		parts = append(parts, part{n, sd})
		total += n
	}
	out := make([]byte, total)
	off := 0
	for _, p := range parts {
		b := out[off : off+p.n]
		for i := range b {
			b[i] = byte(p.sd*31 + i*7 + (i>>8)*13)
		}
		off += p.n
	}
	return out
}

// GenBlob: the deterministic blob "len.seed" of the compact new-slice token N:<len.seed>+<len.seed>...
func GenBlob(n, seed int) string {
	b := make([]byte, n)
	for i := range b {
		b[i] = byte(seed*31 + i*7 + (i>>8)*13)
	}
	return string(b)
}

// BlobSpec expands "len.seed+len.seed+..." .
func BlobSpec(spec string) string {
	var sb strings.Builder
	for _, part := range strings.Split(spec, "+") {
		f := strings.SplitN(part, ".", 2)
		if len(f) != 2 {
			continue
		}
		n, _ := strconv.Atoi(f[0])
		sd, _ := strconv.Atoi(f[1])
		sb.WriteString(GenBlob(n, sd))
	}
	return sb.String()
}

// KeyStaysInside: would the pinned pathForKey (no escaping) keep this key's path inside parent?
// A safety guard of the harness only: hostile keys must not touch anything outside the sandbox.
func KeyStaysInside(parent, base, shard, key string) bool {
	shards := []string{base}
	shard = ShardOf(shard)
	if Safely(func() error { ShardFns[shard](key, &shards); return nil }) != nil {
		return false
	}
	if strings.IndexByte(key, 0) >= 0 {
		return true // refused by package os before any system call
	}
	p := filepath.Join(shards...)
	return strings.HasPrefix(p, parent+"/")
}

// ProbeQuirks reports which of the two confirmed fsstore defects the tree under test has:
// "1"/"0" for (escapingFunc is not applied, commit("") reports success).
func ProbeQuirks() string {
	parent, base := NewSandbox("probe")
	defer os.RemoveAll(parent)
	st, err := OpenFsStore(base, "r12")
	if err != nil {
		panic(err)
	}
	ctx := context.Background()
	q := ""
	st.Put(ctx, "ab", []byte("x"))
	if _, err := os.Stat(filepath.Join(base, "00", "ab")); err == nil {
		q += "1"
	} else {
		q += "0"
	}
	if st.Put(ctx, "", []byte("x")) == nil {
		q += "1"
	} else {
		q += "0"
	}
	return q
}

// RealCid builds the binary form of a real CID for content (what Link.Binary() returns and what a
// LinkSystem hands to storage as the key).
func RealCid(version, codec, mhType uint64, content string) string {
	p := cid.Prefix{Version: version, Codec: codec, MhType: mhType, MhLength: -1}
	c, err := p.Sum([]byte(content))
	if err != nil {
		panic(err)
	}
	return c.KeyString()
}

// SyntheticCid: a structurally valid CIDv1 with the given multihash function code over the given digest
// bytes (not the hash of anything: for pairs of links that share digest bytes but not the hash function).
func SyntheticCid(codec, mhCode uint64, digest string) string {
	return "\x01" + varint(codec) + varint(mhCode) + varint(uint64(len(digest))) + digest
}

// HostileKeys: the byte strings the property text names, and the witnesses of the findings.
var HostileKeys = []string{
	"", ".", "..", "/", "a/b", "a//b", "a/./b", "a/bcdefgh", "a//bcdefgh", "a/./bcdefgh", "../x", "../../x", "../../../x",
	"x\x00y", "\x00", strings.Repeat("L", 300), strings.Repeat("M", 255), strings.Repeat("N", 256),
	"ABC", "abc", "Abc", "ab", "abcd", "abcde", "abcdefg", "abcdefgh", "a",
	"Xab", "Xab/Xac", "../.temp", "../.temp/zz", "abc/", "/abc", ".temp", "..a", "a..", "...",
	"00", "000", "k\xff\xfe", "\xff", "a b", "a\nb", "a\tb", "0/..", "00/.", "x/../y", "y",
	strings.Repeat("ab/", 100), strings.Repeat("\xe2\x82\xac", 20),
	// long keys around the point where the base32 form stops fitting a file name (159 raw bytes -> 255),
	// in pairs that share a long prefix and differ only in the tail
	LongPrefix, LongPrefix[:158] + "R", LongPrefix + "tailA", LongPrefix + "tailB",
	strings.Repeat("Q", 299) + "a", strings.Repeat("Q", 299) + "b",
}

// LongPrefix: 159 bytes, the longest key whose base32 form (255 characters) is still a valid file name.
var LongPrefix = strings.Repeat("Q", 159)

// LongPairs: distinct keys with a common prefix of at least 158 bytes.
var LongPairs = [][2]string{
	{LongPrefix, LongPrefix[:158] + "R"},
	{LongPrefix + "tailA", LongPrefix + "tailB"},
	{LongPrefix + "x", LongPrefix + "y"},
	{strings.Repeat("Q", 299) + "a", strings.Repeat("Q", 299) + "b"},
	{strings.Repeat("\x00", 200) + "1", strings.Repeat("\x00", 200) + "2"},
}
