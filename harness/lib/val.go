// Package lib: shared pieces of the verification harness — an implementation-independent value
// tree (Val), its text form (the same token language the OCaml drivers read), builders into the
// node implementations, a dumper that reads a node back through the public node API only, a
// deterministic PRNG and structured generators.
package lib

import (
	"fmt"
	"math"
	"math/big"
	"strconv"
	"strings"

	cid "github.com/ipfs/go-cid"
	"github.com/ipld/go-ipld-prime/datamodel"
	cidlink "github.com/ipld/go-ipld-prime/linking/cid"
	"github.com/ipld/go-ipld-prime/node/basicnode"
)

type Kind byte

const (
	KNull Kind = iota
	KBool
	KInt
	KFloat
	KString
	KBytes
	KLink
	KList
	KMap
)

type Entry struct {
	K string
	V *Val
}

type Val struct {
	Kind Kind
	B    bool
	I    *big.Int // KInt: any value in [-2^63, 2^64)
	F    uint64   // KFloat: bits
	S    string   // KString, KBytes, KLink (binary CID)
	L    []*Val
	M    []Entry
}

func Null() *Val            { return &Val{Kind: KNull} }
func Bool(b bool) *Val      { return &Val{Kind: KBool, B: b} }
func Int(i int64) *Val      { return &Val{Kind: KInt, I: big.NewInt(i)} }
func Uint(u uint64) *Val    { return &Val{Kind: KInt, I: new(big.Int).SetUint64(u)} }
func Float(f float64) *Val  { return &Val{Kind: KFloat, F: math.Float64bits(f)} }
func FloatBits(b uint64) *Val { return &Val{Kind: KFloat, F: b} }
func Str(s string) *Val     { return &Val{Kind: KString, S: s} }
func Bytes(s string) *Val   { return &Val{Kind: KBytes, S: s} }
func Link(c string) *Val    { return &Val{Kind: KLink, S: c} }
func List(l ...*Val) *Val   { return &Val{Kind: KList, L: l} }
func Map(m ...Entry) *Val   { return &Val{Kind: KMap, M: m} }

const hexdigits = "0123456789abcdef"

func Hex(s string) string {
	b := make([]byte, 2*len(s))
	for i := 0; i < len(s); i++ {
		b[2*i] = hexdigits[s[i]>>4]
		b[2*i+1] = hexdigits[s[i]&15]
	}
	return string(b)
}

func UnHex(h string) string {
	b := make([]byte, len(h)/2)
	for i := range b {
		v, err := strconv.ParseUint(h[2*i:2*i+2], 16, 8)
		if err != nil {
			panic(err)
		}
		b[i] = byte(v)
	}
	return string(b)
}

func floatTok(bits uint64) string {
	f := math.Float64frombits(bits)
	if f != f {
		return "dnan"
	}
	return "d" + strconv.FormatUint(bits, 16)
}

// Text renders v in the token language.
func (v *Val) Text() string {
	var sb strings.Builder
	v.text(&sb)
	return sb.String()
}

func (v *Val) text(sb *strings.Builder) {
	if sb.Len() > 0 {
		sb.WriteByte(' ')
	}
	switch v.Kind {
	case KNull:
		sb.WriteByte('n')
	case KBool:
		if v.B {
			sb.WriteByte('t')
		} else {
			sb.WriteByte('f')
		}
	case KInt:
		sb.WriteByte('i')
		sb.WriteString(v.I.Text(16))
	case KFloat:
		sb.WriteString(floatTok(v.F))
	case KString:
		sb.WriteByte('s')
		sb.WriteString(Hex(v.S))
	case KBytes:
		sb.WriteByte('b')
		sb.WriteString(Hex(v.S))
	case KLink:
		sb.WriteByte('l')
		sb.WriteString(Hex(v.S))
	case KList:
		fmt.Fprintf(sb, "a%d", len(v.L))
		for _, x := range v.L {
			x.text(sb)
		}
	case KMap:
		fmt.Fprintf(sb, "m%d", len(v.M))
		for _, e := range v.M {
			sb.WriteString(" k")
			sb.WriteString(Hex(e.K))
			e.V.text(sb)
		}
	}
}

// ParseVal parses the token language.
func ParseVal(s string) (*Val, error) {
	toks := strings.Fields(s)
	v, rest, err := parseVal(toks)
	if err != nil {
		return nil, err
	}
	if len(rest) != 0 {
		return nil, fmt.Errorf("trailing tokens")
	}
	return v, nil
}

func parseVal(toks []string) (*Val, []string, error) {
	if len(toks) == 0 {
		return nil, nil, fmt.Errorf("eof")
	}
	t, rest := toks[0], toks[1:]
	body := t[1:]
	switch t[0] {
	case 'n':
		return Null(), rest, nil
	case 't':
		return Bool(true), rest, nil
	case 'f':
		return Bool(false), rest, nil
	case 'i':
		i, ok := new(big.Int).SetString(body, 16)
		if !ok {
			return nil, nil, fmt.Errorf("bad int %q", t)
		}
		return &Val{Kind: KInt, I: i}, rest, nil
	case 'd':
		if body == "nan" {
			return FloatBits(0x7ff8000000000001), rest, nil
		}
		b, err := strconv.ParseUint(body, 16, 64)
		if err != nil {
			return nil, nil, err
		}
		return FloatBits(b), rest, nil
	case 's':
		return Str(UnHex(body)), rest, nil
	case 'b':
		return Bytes(UnHex(body)), rest, nil
	case 'l':
		return Link(UnHex(body)), rest, nil
	case 'a':
		n, err := strconv.Atoi(body)
		if err != nil {
			return nil, nil, err
		}
		v := &Val{Kind: KList}
		for i := 0; i < n; i++ {
			var x *Val
			x, rest, err = parseVal(rest)
			if err != nil {
				return nil, nil, err
			}
			v.L = append(v.L, x)
		}
		return v, rest, nil
	case 'm':
		n, err := strconv.Atoi(body)
		if err != nil {
			return nil, nil, err
		}
		v := &Val{Kind: KMap}
		for i := 0; i < n; i++ {
			if len(rest) == 0 || rest[0][0] != 'k' {
				return nil, nil, fmt.Errorf("expected key")
			}
			k := UnHex(rest[0][1:])
			var x *Val
			x, rest, err = parseVal(rest[1:])
			if err != nil {
				return nil, nil, err
			}
			v.M = append(v.M, Entry{k, x})
		}
		return v, rest, nil
	}
	return nil, nil, fmt.Errorf("bad token %q", t)
}

var two63 = new(big.Int).Lsh(big.NewInt(1), 63)

// ScalarNode builds the basicnode for a scalar Val.
func ScalarNode(v *Val) (datamodel.Node, error) {
	switch v.Kind {
	case KNull:
		return datamodel.Null, nil
	case KBool:
		return basicnode.NewBool(v.B), nil
	case KInt:
		if v.I.Cmp(two63) >= 0 {
			return basicnode.NewUint(v.I.Uint64()), nil
		}
		return basicnode.NewInt(v.I.Int64()), nil
	case KFloat:
		return basicnode.NewFloat(math.Float64frombits(v.F)), nil
	case KString:
		return basicnode.NewString(v.S), nil
	case KBytes:
		return basicnode.NewBytes([]byte(v.S)), nil
	case KLink:
		c, err := cid.Cast([]byte(v.S))
		if err != nil {
			return nil, err
		}
		return basicnode.NewLink(cidlink.Link{Cid: c}), nil
	}
	return nil, fmt.Errorf("not a scalar")
}

// AllUint makes Assemble hand every non-negative integer over as a basicnode UintNode (the data model
// value is the same; the node implementation differs).
var AllUint bool

// Assemble feeds v into any NodeAssembler using the plainest call sequence
// (BeginMap/AssembleEntry/Finish, Assign* for scalars).
func Assemble(na datamodel.NodeAssembler, v *Val) error {
	switch v.Kind {
	case KNull:
		return na.AssignNull()
	case KBool:
		return na.AssignBool(v.B)
	case KInt:
		if v.I.Cmp(two63) >= 0 || (AllUint && v.I.Sign() >= 0) {
			return na.AssignNode(basicnode.NewUint(v.I.Uint64()))
		}
		return na.AssignInt(v.I.Int64())
	case KFloat:
		return na.AssignFloat(math.Float64frombits(v.F))
	case KString:
		return na.AssignString(v.S)
	case KBytes:
		return na.AssignBytes([]byte(v.S))
	case KLink:
		c, err := cid.Cast([]byte(v.S))
		if err != nil {
			return err
		}
		return na.AssignLink(cidlink.Link{Cid: c})
	case KList:
		la, err := na.BeginList(int64(len(v.L)))
		if err != nil {
			return err
		}
		for _, x := range v.L {
			if err := Assemble(la.AssembleValue(), x); err != nil {
				return err
			}
		}
		return la.Finish()
	case KMap:
		ma, err := na.BeginMap(int64(len(v.M)))
		if err != nil {
			return err
		}
		for _, e := range v.M {
			va, err := ma.AssembleEntry(e.K)
			if err != nil {
				return err
			}
			if err := Assemble(va, e.V); err != nil {
				return err
			}
		}
		return ma.Finish()
	}
	return fmt.Errorf("bad kind")
}

// BuildBasic builds v as a basicnode (Prototype.Any).
func BuildBasic(v *Val) (datamodel.Node, error) {
	nb := basicnode.Prototype.Any.NewBuilder()
	if err := Assemble(nb, v); err != nil {
		return nil, err
	}
	return nb.Build(), nil
}

// Dump reads a node back through the public node API only and renders it in the token language.
// Any API error or inconsistency is rendered as a "!<what>" token so that it shows up in diffs.
func Dump(n datamodel.Node) string {
	var sb strings.Builder
	dump(&sb, n)
	return sb.String()
}

func dump(sb *strings.Builder, n datamodel.Node) {
	if sb.Len() > 0 {
		sb.WriteByte(' ')
	}
	if n == nil {
		sb.WriteString("!nil")
		return
	}
	// a data-model node is null exactly when its kind is null, and never absent
	// (datamodel.Absent, which typed nodes yield for missing optional fields, has kind null, IsAbsent and not IsNull)
	isNullKind := n.Kind() == datamodel.Kind_Null
	if (n.IsNull() && !isNullKind) || (isNullKind && !n.IsNull() && !n.IsAbsent()) {
		sb.WriteString("!isnull ")
	}
	if n.IsAbsent() && !isNullKind {
		sb.WriteString("!isabsent ")
	}
	switch n.Kind() {
	case datamodel.Kind_Null:
		sb.WriteByte('n')
	case datamodel.Kind_Bool:
		b, err := n.AsBool()
		if err != nil {
			sb.WriteString("!asbool")
			return
		}
		if b {
			sb.WriteByte('t')
		} else {
			sb.WriteByte('f')
		}
	case datamodel.Kind_Int:
		if un, ok := n.(datamodel.UintNode); ok {
			u, err := un.AsUint()
			if err != nil {
				sb.WriteString("!asuint")
				return
			}
			// AsInt of a uint node: the value when it fits int64, an error above
			if i, err := n.AsInt(); (u <= math.MaxInt64) != (err == nil) || (err == nil && uint64(i) != u) {
				sb.WriteString("!uint-asint ")
			}
			sb.WriteByte('i')
			sb.WriteString(strconv.FormatUint(u, 16))
			return
		}
		i, err := n.AsInt()
		if err != nil {
			sb.WriteString("!asint")
			return
		}
		sb.WriteByte('i')
		sb.WriteString(big.NewInt(i).Text(16))
	case datamodel.Kind_Float:
		f, err := n.AsFloat()
		if err != nil {
			sb.WriteString("!asfloat")
			return
		}
		sb.WriteString(floatTok(math.Float64bits(f)))
	case datamodel.Kind_String:
		s, err := n.AsString()
		if err != nil {
			sb.WriteString("!asstring")
			return
		}
		sb.WriteByte('s')
		sb.WriteString(Hex(s))
	case datamodel.Kind_Bytes:
		s, err := n.AsBytes()
		if err != nil {
			sb.WriteString("!asbytes")
			return
		}
		sb.WriteByte('b')
		sb.WriteString(Hex(string(s)))
	case datamodel.Kind_Link:
		l, err := n.AsLink()
		if err != nil || l == nil {
			sb.WriteString("!aslink")
			return
		}
		sb.WriteByte('l')
		sb.WriteString(Hex(l.Binary()))
	case datamodel.Kind_List:
		fmt.Fprintf(sb, "a%d", n.Length())
		it := n.ListIterator()
		for !it.Done() {
			_, v, err := it.Next()
			if err != nil {
				sb.WriteString(" !listnext")
				return
			}
			dump(sb, v)
		}
	case datamodel.Kind_Map:
		fmt.Fprintf(sb, "m%d", n.Length())
		it := n.MapIterator()
		for !it.Done() {
			k, v, err := it.Next()
			if err != nil {
				sb.WriteString(" !mapnext")
				return
			}
			ks, err := k.AsString()
			if err != nil {
				sb.WriteString(" !keystring")
				return
			}
			sb.WriteString(" k")
			sb.WriteString(Hex(ks))
			dump(sb, v)
		}
	default:
		sb.WriteString("!kind")
	}
}
