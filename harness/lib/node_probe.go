package lib

// node_probe.go (cluster "node"): probes of the known defects, run first on every harness run.  Each
// writes a record  id, "probe", name, "1"|"0"  (1 = the defect is present on this tree).  The drivers
// set the corresponding quirk of the model to what the tree actually does (DESIGN.md §7); the oracle
// does not look at probes.
import (
	"github.com/ipld/go-ipld-prime/datamodel"
	"github.com/ipld/go-ipld-prime/node/basicnode"
)

func bit(b bool) string {
	if b {
		return "1"
	}
	return "0"
}

func ProbeC01(out *Out) {
	// Prototype.Map + AssignNode of a foreign non-empty map
	fm, _ := BuildHolder("bindmap", Map(Entry{K: "a", V: Int(1)}))
	err := Safely(func() error { return basicnode.Prototype.Map.NewBuilder().AssignNode(fm) })
	out.Case("p1", "probe", "pmap_nilmap", bit(IsPanic(err)))
	u := basicnode.NewUint(1 << 63)
	err = Safely(func() error { datamodel.DeepEqual(u, basicnode.NewUint(1<<63)); return nil })
	out.Case("p2", "probe", "eq_asint", bit(IsPanic(err)))
	err = Safely(func() error { return datamodel.Copy(u, basicnode.Prototype.Any.NewBuilder()) })
	out.Case("p3", "probe", "copy_asint", bit(err != nil))
	second := "?"
	_ = Safely(func() error {
		nb := basicnode.Prototype.Bytes.NewBuilder()
		if e := nb.AssignNode(basicnode.NewBytes([]byte("abc"))); e != nil {
			return e
		}
		n := nb.Build()
		if _, e := n.AsBytes(); e != nil {
			return e
		}
		b, e := n.AsBytes()
		second = string(b)
		return e
	})
	out.Case("p4", "probe", "stream_oneshot", bit(second != "abc"))
}
