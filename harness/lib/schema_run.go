package lib

// Schema cluster: loading a generated schema, feeding trees to typed builders over several routes,
// and dumping both views of a typed node through every read form.

import (
	"bytes"
	"encoding/base64"
	"encoding/binary"
	"fmt"
	"math"
	"math/big"
	"os"
	"sort"
	"strconv"
	"strings"

	cid "github.com/ipfs/go-cid"
	ipld "github.com/ipld/go-ipld-prime"
	"github.com/ipld/go-ipld-prime/codec/dagcbor"
	"github.com/ipld/go-ipld-prime/codec/dagjson"
	"github.com/ipld/go-ipld-prime/datamodel"
	"github.com/ipld/go-ipld-prime/node/bindnode"
	"github.com/ipld/go-ipld-prime/schema"
	schemadmt "github.com/ipld/go-ipld-prime/schema/dmt"
	schemadsl "github.com/ipld/go-ipld-prime/schema/dsl"
)

// SchTypeSystem builds one type system for the given roots (names assigned, distinct across roots):
// everything expressible goes through the schema DSL (parser + compiler); stringprefix unions with a
// non-empty delimiter, which the DSL cannot express, are spawned through the schema API.
// prelude: also declare Any, Map, List (the code generator cannot emit them).
func SchTypeSystem(roots []*SchTy, prelude bool) (*schema.TypeSystem, error) {
	var dsl strings.Builder
	var delimited []*SchTy
	seen := map[string]bool{}
	for _, t := range roots {
		t.dsl(&dsl, seen)
		delimited = t.Delimited(delimited)
	}
	if len(delimited) == 0 && prelude {
		return ipld.LoadSchemaBytes([]byte(dsl.String()))
	}
	sch, err := schemadsl.ParseBytes([]byte(dsl.String()))
	if err != nil {
		return nil, err
	}
	ts := &schema.TypeSystem{}
	ts.Init()
	if prelude {
		schema.SpawnDefaultBasicTypes(ts)
	} else {
		ts.Accumulate(schema.SpawnBool("Bool"))
		ts.Accumulate(schema.SpawnInt("Int"))
		ts.Accumulate(schema.SpawnFloat("Float"))
		ts.Accumulate(schema.SpawnString("String"))
		ts.Accumulate(schema.SpawnBytes("Bytes"))
		ts.Accumulate(schema.SpawnLink("Link"))
	}
	if err := schemadmt.SpawnSchemaTypes(ts, sch); err != nil {
		return nil, err
	}
	done := map[string]bool{}
	for _, u := range delimited {
		if done[u.Name] {
			continue
		}
		done[u.Name] = true
		var members []schema.TypeName
		table := map[string]schema.TypeName{}
		for _, m := range u.Members {
			members = append(members, m.Name)
			table[m.Disc] = m.Name
		}
		ts.Accumulate(schema.SpawnUnion(u.Name, members, schema.SpawnUnionRepresentationStringprefix(u.Delim, table)))
	}
	if errs := ts.ValidateGraph(); errs != nil {
		return nil, fmt.Errorf("schema graph: %v", errs)
	}
	return ts, nil
}

// SchLoad compiles t (names assigned) and returns the root type.
func SchLoad(t *SchTy) (schema.Type, *schema.TypeSystem, error) {
	var ts *schema.TypeSystem
	err := Safely(func() error {
		var e error
		ts, e = SchTypeSystem([]*SchTy{t}, true)
		return e
	})
	if err != nil {
		return nil, nil, err
	}
	typ := ts.TypeByName(t.Name)
	if typ == nil {
		return nil, nil, fmt.Errorf("type %s missing after load", t.Name)
	}
	return typ, ts, nil
}

// the fixed family with declared Go types: a struct with one Int field bound to a Go int8
type schI8 struct {
	V int8
}

// SchBindProto: bindnode over inferred Go types, or over the declared type of the fixed family.
func SchBindProto(t *SchTy, typ schema.Type) (p schema.TypedPrototype, err error) {
	err = Safely(func() error {
		if t.K == 'R' && len(t.Fields) == 1 && t.Fields[0].T.K == 'I' && t.Fields[0].T.W8 && t.Fields[0].Name == "v" {
			p = bindnode.Prototype((*schI8)(nil), typ)
			return nil
		}
		p = bindnode.Prototype(nil, typ)
		return nil
	})
	return
}

func (v *Val) HasDupKeys() bool {
	switch v.Kind {
	case KList:
		for _, x := range v.L {
			if x.HasDupKeys() {
				return true
			}
		}
	case KMap:
		seen := map[string]bool{}
		for _, e := range v.M {
			if seen[e.K] || e.V.HasDupKeys() {
				return true
			}
			seen[e.K] = true
		}
	}
	return false
}

// ---------------------------------------------------------------- encoders that keep order and repeats

func schHead(buf *bytes.Buffer, mj byte, v uint64) {
	switch {
	case v < 24:
		buf.WriteByte(mj<<5 | byte(v))
	case v < 1<<8:
		buf.WriteByte(mj<<5 | 24)
		buf.WriteByte(byte(v))
	case v < 1<<16:
		buf.WriteByte(mj<<5 | 25)
		var b [2]byte
		binary.BigEndian.PutUint16(b[:], uint16(v))
		buf.Write(b[:])
	case v < 1<<32:
		buf.WriteByte(mj<<5 | 26)
		var b [4]byte
		binary.BigEndian.PutUint32(b[:], uint32(v))
		buf.Write(b[:])
	default:
		buf.WriteByte(mj<<5 | 27)
		var b [8]byte
		binary.BigEndian.PutUint64(b[:], v)
		buf.Write(b[:])
	}
}

// SchCbor writes v as CBOR in the order given (repeated keys kept).
func SchCbor(v *Val) []byte {
	var buf bytes.Buffer
	schCbor(&buf, v)
	return buf.Bytes()
}

func schCbor(buf *bytes.Buffer, v *Val) {
	switch v.Kind {
	case KNull:
		buf.WriteByte(0xf6)
	case KBool:
		if v.B {
			buf.WriteByte(0xf5)
		} else {
			buf.WriteByte(0xf4)
		}
	case KInt:
		if v.I.Sign() >= 0 {
			schHead(buf, 0, v.I.Uint64())
		} else {
			n := new(big.Int).Neg(v.I)
			n.Sub(n, big.NewInt(1))
			schHead(buf, 1, n.Uint64())
		}
	case KFloat:
		buf.WriteByte(0xfb)
		var b [8]byte
		binary.BigEndian.PutUint64(b[:], v.F)
		buf.Write(b[:])
	case KString:
		schHead(buf, 3, uint64(len(v.S)))
		buf.WriteString(v.S)
	case KBytes:
		schHead(buf, 2, uint64(len(v.S)))
		buf.WriteString(v.S)
	case KLink:
		schHead(buf, 6, 42)
		schHead(buf, 2, uint64(len(v.S)+1))
		buf.WriteByte(0)
		buf.WriteString(v.S)
	case KList:
		schHead(buf, 4, uint64(len(v.L)))
		for _, x := range v.L {
			schCbor(buf, x)
		}
	case KMap:
		schHead(buf, 5, uint64(len(v.M)))
		for _, e := range v.M {
			schHead(buf, 3, uint64(len(e.K)))
			buf.WriteString(e.K)
			schCbor(buf, e.V)
		}
	}
}

// SchJSONable: the value can be written as DAG-JSON text without loss (valid UTF-8, floats with a
// fractional part, no "/" keys).
func SchJSONable(v *Val) bool {
	switch v.Kind {
	case KFloat:
		f := math.Float64frombits(v.F)
		return f == f && !math.IsInf(f, 0) && f != math.Trunc(f)
	case KInt:
		return v.I.IsInt64()
	case KString:
		return validUTF8(v.S)
	case KList:
		for _, x := range v.L {
			if !SchJSONable(x) {
				return false
			}
		}
	case KMap:
		for _, e := range v.M {
			if !validUTF8(e.K) || e.K == "/" || !SchJSONable(e.V) {
				return false
			}
		}
	}
	return true
}

func schJSONStr(sb *strings.Builder, s string) {
	sb.WriteByte('"')
	for _, c := range []byte(s) {
		switch {
		case c == '"' || c == '\\':
			sb.WriteByte('\\')
			sb.WriteByte(c)
		case c < 0x20 || c == 0x7f:
			fmt.Fprintf(sb, "\\u%04x", c)
		default:
			sb.WriteByte(c)
		}
	}
	sb.WriteByte('"')
}

// SchJSON writes v as DAG-JSON text in the order given (repeated keys kept).
func SchJSON(v *Val) string {
	var sb strings.Builder
	schJSON(&sb, v)
	return sb.String()
}

func schJSON(sb *strings.Builder, v *Val) {
	switch v.Kind {
	case KNull:
		sb.WriteString("null")
	case KBool:
		if v.B {
			sb.WriteString("true")
		} else {
			sb.WriteString("false")
		}
	case KInt:
		sb.WriteString(v.I.String())
	case KFloat:
		sb.WriteString(strconv.FormatFloat(math.Float64frombits(v.F), 'g', -1, 64))
	case KString:
		schJSONStr(sb, v.S)
	case KBytes:
		sb.WriteString(`{"/":{"bytes":"` + base64.RawStdEncoding.EncodeToString([]byte(v.S)) + `"}}`)
	case KLink:
		c, err := cid.Cast([]byte(v.S))
		if err != nil {
			panic(err)
		}
		sb.WriteString(`{"/":"` + c.String() + `"}`)
	case KList:
		sb.WriteByte('[')
		for i, x := range v.L {
			if i > 0 {
				sb.WriteByte(',')
			}
			schJSON(sb, x)
		}
		sb.WriteByte(']')
	case KMap:
		sb.WriteByte('{')
		for i, e := range v.M {
			if i > 0 {
				sb.WriteByte(',')
			}
			schJSONStr(sb, e.K)
			sb.WriteByte(':')
			schJSON(sb, e.V)
		}
		sb.WriteByte('}')
	}
}

// SchRoutes lists the routes a tree can take into a builder.
func SchRoutes(v *Val) []string {
	out := []string{"direct", "kv", "cbor"}
	if SchJSONable(v) {
		out = append(out, "json")
	}
	if !v.HasDupKeys() {
		out = append(out, "node")
	}
	return out
}

// SchFeed feeds v to the builder along the route; the error (or panic) is the builder's verdict.
func SchFeed(nb datamodel.NodeBuilder, v *Val, route string) error {
	return Safely(func() error {
		switch route {
		case "direct":
			return Assemble(nb, v)
		case "kv":
			return SchAssembleKV(nb, v)
		case "node":
			n, err := BuildBasic(v)
			if err != nil {
				return fmt.Errorf("harness: cannot build basicnode: %w", err)
			}
			return nb.AssignNode(n)
		case "cbor":
			return dagcbor.DecodeOptions{AllowLinks: true, RelaxedDecode: true}.Decode(nb, bytes.NewReader(SchCbor(v)))
		case "json":
			return dagjson.DecodeOptions{ParseLinks: true, ParseBytes: true}.Decode(nb, strings.NewReader(SchJSON(v)))
		}
		return fmt.Errorf("harness: unknown route %s", route)
	})
}

// SchAssembleKV is Assemble with every map entry made through AssembleKey().AssignString(k) followed
// by AssembleValue() instead of AssembleEntry(k): the path datamodel.Copy and AssignNode take.
func SchAssembleKV(na datamodel.NodeAssembler, v *Val) error {
	switch v.Kind {
	case KList:
		la, err := na.BeginList(int64(len(v.L)))
		if err != nil {
			return err
		}
		for _, x := range v.L {
			if err := SchAssembleKV(la.AssembleValue(), x); err != nil {
				return err
			}
		}
		return la.Finish()
	case KMap:
		ma, err := na.BeginMap(int64(len(v.M)))
		if err != nil {
			return err
		}
		for _, e := range v.M {
			if err := ma.AssembleKey().AssignString(e.K); err != nil {
				return err
			}
			if err := SchAssembleKV(ma.AssembleValue(), e.V); err != nil {
				return err
			}
		}
		return ma.Finish()
	}
	return Assemble(na, v)
}

// SchBuild runs one build and canonicalises the outcome: ok|T=<type view>|R=<repr view>, err, panic.
func SchBuild(proto schema.TypedPrototype, level string, route string, v *Val) (string, datamodel.Node) {
	return SchBuildWith(func() datamodel.NodeBuilder {
		if level == "r" {
			return proto.Representation().NewBuilder()
		}
		return proto.NewBuilder()
	}, route, v)
}

// SchBuildBytes: the registered strict dag-cbor decoder driving the builder directly (streaming, the way
// the library is used); canonicalised like SchBuild.
func SchBuildBytes(newBuilder func() datamodel.NodeBuilder, bs []byte) string {
	var nb datamodel.NodeBuilder
	err := Safely(func() error {
		nb = newBuilder()
		return dagcbor.Decode(nb, bytes.NewReader(bs))
	})
	if err != nil {
		if os.Getenv("SCH_DEBUG") != "" {
			fmt.Fprintln(os.Stderr, "SCH_DEBUG:", err)
		}
		if IsPanic(err) {
			return "panic"
		}
		return "err"
	}
	var n datamodel.Node
	if err := Safely(func() error { n = nb.Build(); return nil }); err != nil {
		return "panic"
	}
	return "ok|" + SchViews(n)
}

// SchEncodings renders a tree as dag-cbor bytes in several ways: "enc" the registered encoder over a
// basicnode (canonical order; only for trees without repeated keys), "raw" the order and repeats as given,
// "mut" near-valid departures (longer heads, tags, indefinite lengths, narrow floats, wrong counts, ...),
// "flip" one or two bytes of the raw form changed.
func (r *Rng) SchEncodings(v *Val) map[string][]byte {
	out := map[string][]byte{"raw": SchCbor(v)}
	if !v.HasDupKeys() {
		if n, err := BuildBasic(v); err == nil {
			var buf bytes.Buffer
			if Safely(func() error { return dagcbor.Encode(n, &buf) }) == nil {
				out["enc"] = buf.Bytes()
			}
		}
	}
	m := &CborMut{R: r, Rate: 6}
	if Safely(func() error { m.Emit(v); return nil }) == nil {
		out["mut"] = m.Buf
	}
	out["flip"] = r.ByteMutate(append([]byte{}, out["raw"]...), 1+r.Intn(2))
	return out
}

// SchBuildWith: the same over any way of obtaining a builder (generated code has separate prototypes
// per level).
func SchBuildWith(newBuilder func() datamodel.NodeBuilder, route string, v *Val) (string, datamodel.Node) {
	var nb datamodel.NodeBuilder
	err := Safely(func() error {
		nb = newBuilder()
		return nil
	})
	if err == nil {
		err = SchFeed(nb, v, route)
	}
	if err != nil {
		if os.Getenv("SCH_DEBUG") != "" {
			fmt.Fprintln(os.Stderr, "SCH_DEBUG:", err)
		}
		if IsPanic(err) {
			return "panic", nil
		}
		return "err", nil
	}
	var n datamodel.Node
	if err := Safely(func() error { n = nb.Build(); return nil }); err != nil {
		return "panic", nil
	}
	return "ok|" + SchViews(n), n
}

// SchViews dumps the type-level view and the representation view of a typed node.
func SchViews(n datamodel.Node) string {
	tn, ok := n.(schema.TypedNode)
	if !ok {
		return "T=" + SchDump(n, false) + "|R=!untyped"
	}
	var rn datamodel.Node
	if err := Safely(func() error { rn = tn.Representation(); return nil }); err != nil {
		return "T=" + SchDump(n, false) + "|R=!p"
	}
	return "T=" + SchDump(n, false) + "|R=" + SchDump(rn, false)
}

// ---------------------------------------------------------------- the dumper (every read form)

// SchDump: scalars as Val tokens; u = Absent; a<Length>(item,...) with @<idx>: in front of an item
// whose iterator index is not its position; m<Length>(k<hex>=value,...); !e a read returned an
// error, !p a read panicked, !lk a lookup disagrees with the iterator.
func SchDump(n datamodel.Node, sortMaps bool) string {
	var sb strings.Builder
	schDump(&sb, n, sortMaps, 0)
	return sb.String()
}

func schSig(n datamodel.Node) (sig string) {
	defer func() {
		if r := recover(); r != nil {
			sig = "!p"
		}
	}()
	if n == nil {
		return "!nil"
	}
	if n.IsAbsent() {
		return "u"
	}
	k := n.Kind()
	switch k {
	case datamodel.Kind_Map, datamodel.Kind_List:
		return fmt.Sprintf("%d:%d", k, n.Length())
	case datamodel.Kind_Null:
		return "n"
	}
	var sb strings.Builder
	schDump(&sb, n, false, 1000)
	return sb.String()
}

func schDump(out *strings.Builder, n datamodel.Node, sortMaps bool, depth int) {
	var sb strings.Builder
	defer func() {
		if r := recover(); r != nil {
			out.WriteString("!p")
			return
		}
		out.WriteString(sb.String())
	}()
	if n == nil {
		sb.WriteString("!nil")
		return
	}
	if n.IsAbsent() {
		sb.WriteString("u")
		return
	}
	switch n.Kind() {
	case datamodel.Kind_Null:
		sb.WriteByte('n')
	case datamodel.Kind_Bool:
		b, err := n.AsBool()
		if err != nil {
			sb.WriteString("!e")
			return
		}
		if b {
			sb.WriteByte('t')
		} else {
			sb.WriteByte('f')
		}
	case datamodel.Kind_Int:
		if un, ok := n.(datamodel.UintNode); ok {
			u, err := un.AsUint()
			if err != nil {
				sb.WriteString("!e")
				return
			}
			sb.WriteByte('i')
			sb.WriteString(strconv.FormatUint(u, 16))
			return
		}
		i, err := n.AsInt()
		if err != nil {
			sb.WriteString("!e")
			return
		}
		sb.WriteByte('i')
		sb.WriteString(big.NewInt(i).Text(16))
	case datamodel.Kind_Float:
		f, err := n.AsFloat()
		if err != nil {
			sb.WriteString("!e")
			return
		}
		sb.WriteString(floatTok(math.Float64bits(f)))
	case datamodel.Kind_String:
		s, err := n.AsString()
		if err != nil {
			sb.WriteString("!e")
			return
		}
		sb.WriteByte('s')
		sb.WriteString(Hex(s))
	case datamodel.Kind_Bytes:
		s, err := n.AsBytes()
		if err != nil {
			sb.WriteString("!e")
			return
		}
		sb.WriteByte('b')
		sb.WriteString(Hex(string(s)))
	case datamodel.Kind_Link:
		l, err := n.AsLink()
		if err != nil || l == nil {
			sb.WriteString("!e")
			return
		}
		sb.WriteByte('l')
		sb.WriteString(Hex(l.Binary()))
	case datamodel.Kind_List:
		fmt.Fprintf(&sb, "a%d(", n.Length())
		it := n.ListIterator()
		if it == nil {
			sb.WriteString("!e)")
			return
		}
		for pos := 0; !it.Done() && pos < 100000; pos++ {
			if pos > 0 {
				sb.WriteByte(',')
			}
			idx, v, err := it.Next()
			if err != nil {
				sb.WriteString("!e")
				break
			}
			if idx != int64(pos) {
				fmt.Fprintf(&sb, "@%d:", idx)
			}
			schDump(&sb, v, sortMaps, depth+1)
			if depth < 1000 {
				lv, lerr := n.LookupByIndex(int64(pos))
				if lerr != nil || schSig(lv) != schSig(v) {
					sb.WriteString("!lk")
				}
			}
		}
		sb.WriteByte(')')
	case datamodel.Kind_Map:
		fmt.Fprintf(&sb, "m%d(", n.Length())
		it := n.MapIterator()
		if it == nil {
			sb.WriteString("!e)")
			return
		}
		type ent struct{ k, s string }
		var ents []ent
		bad := ""
		for cnt := 0; !it.Done() && cnt < 100000; cnt++ {
			k, v, err := it.Next()
			if err != nil {
				bad = "!e"
				break
			}
			ks, err := k.AsString()
			if err != nil {
				bad = "!e"
				break
			}
			var es strings.Builder
			es.WriteString("k" + Hex(ks) + "=")
			schDump(&es, v, sortMaps, depth+1)
			if depth < 1000 {
				lv, lerr := n.LookupByString(ks)
				if lerr != nil || schSig(lv) != schSig(v) {
					es.WriteString("!lk")
				}
			}
			ents = append(ents, ent{ks, es.String()})
		}
		if sortMaps {
			sort.SliceStable(ents, func(i, j int) bool { return ents[i].k < ents[j].k })
		}
		for i, e := range ents {
			if i > 0 {
				sb.WriteByte(',')
			}
			sb.WriteString(e.s)
		}
		if bad != "" {
			if len(ents) > 0 {
				sb.WriteByte(',')
			}
			sb.WriteString(bad)
		}
		sb.WriteByte(')')
	default:
		sb.WriteString("!e") // Kind_Invalid: the node cannot be read
	}
}

// SchCopyOut reads a node through its iterators into a Val (what datamodel.Copy would carry).
func SchCopyOut(n datamodel.Node) (v *Val, err error) {
	err = Safely(func() error {
		var e error
		v, e = schToVal(n)
		if e == nil && v.HasDupKeys() {
			return fmt.Errorf("repeated key")
		}
		return e
	})
	return
}

func schToVal(n datamodel.Node) (*Val, error) {
	if n == nil || n.IsAbsent() {
		return nil, fmt.Errorf("absent")
	}
	switch n.Kind() {
	case datamodel.Kind_Null:
		return Null(), nil
	case datamodel.Kind_Bool:
		b, err := n.AsBool()
		return Bool(b), err
	case datamodel.Kind_Int:
		i, err := n.AsInt()
		return Int(i), err
	case datamodel.Kind_Float:
		f, err := n.AsFloat()
		return Float(f), err
	case datamodel.Kind_String:
		s, err := n.AsString()
		return Str(s), err
	case datamodel.Kind_Bytes:
		s, err := n.AsBytes()
		return Bytes(string(s)), err
	case datamodel.Kind_Link:
		l, err := n.AsLink()
		if err != nil {
			return nil, err
		}
		return Link(l.Binary()), nil
	case datamodel.Kind_List:
		v := &Val{Kind: KList}
		for it := n.ListIterator(); !it.Done(); {
			_, x, err := it.Next()
			if err != nil {
				return nil, err
			}
			xv, err := schToVal(x)
			if err != nil {
				return nil, err
			}
			v.L = append(v.L, xv)
		}
		return v, nil
	case datamodel.Kind_Map:
		v := &Val{Kind: KMap}
		for it := n.MapIterator(); !it.Done(); {
			k, x, err := it.Next()
			if err != nil {
				return nil, err
			}
			ks, err := k.AsString()
			if err != nil {
				return nil, err
			}
			xv, err := schToVal(x)
			if err != nil {
				return nil, err
			}
			v.M = append(v.M, Entry{ks, xv})
		}
		return v, nil
	}
	return nil, fmt.Errorf("invalid kind")
}

// SchObserveVal: the C08 observation of a typed value given by its type-level tree.
//   T=..|R=..|RB=<same|diff|err|panic|nocopy>|B=<ok:hex|encfail>|RT=<same|diffbytes|difftv|decerr|decpanic|encfail|->
func SchObserveVal(proto schema.TypedPrototype, v *Val) string {
	return SchObserveValP(SchProto{
		T: func() datamodel.NodeBuilder { return proto.NewBuilder() },
		R: func() datamodel.NodeBuilder { return proto.Representation().NewBuilder() }}, v)
}

// SchProto: the two builders of a typed prototype (generated code has one prototype per level).
type SchProto struct {
	T, R func() datamodel.NodeBuilder
}

func SchObserveValP(proto SchProto, v *Val) string {
	obs, n := SchBuildWith(proto.T, "direct", v)
	if n == nil {
		return "build" + obs
	}
	views := strings.TrimPrefix(obs, "ok|")
	var sb strings.Builder
	sb.WriteString(views)
	var rn datamodel.Node
	if err := Safely(func() error { rn = n.(schema.TypedNode).Representation(); return nil }); err != nil {
		sb.WriteString("|RB=nocopy|B=encfail|RT=-")
		return sb.String()
	}
	// two routes: the representation read back and fed to the representation builder
	rv, err := SchCopyOut(rn)
	if err != nil {
		sb.WriteString("|RB=nocopy")
	} else {
		obs2, _ := SchBuildWith(proto.R, "direct", rv)
		switch {
		case obs2 == "err" || obs2 == "panic":
			sb.WriteString("|RB=" + obs2)
		case obs2 == obs:
			sb.WriteString("|RB=same")
		default:
			sb.WriteString("|RB=diff")
		}
	}
	// bytes
	var buf bytes.Buffer
	if err := Safely(func() error { return dagcbor.Encode(rn, &buf) }); err != nil {
		sb.WriteString("|B=encfail|RT=-")
		return sb.String()
	}
	sb.WriteString("|B=ok:" + Hex(buf.String()))
	var nb datamodel.NodeBuilder
	if err := Safely(func() error { nb = proto.R(); return dagcbor.Decode(nb, bytes.NewReader(buf.Bytes())) }); err != nil {
		if IsPanic(err) {
			sb.WriteString("|RT=decpanic")
		} else {
			sb.WriteString("|RT=decerr")
		}
		return sb.String()
	}
	n3 := nb.Build()
	var buf3 bytes.Buffer
	if err := Safely(func() error { return dagcbor.Encode(n3.(schema.TypedNode).Representation(), &buf3) }); err != nil {
		sb.WriteString("|RT=encfail")
		return sb.String()
	}
	switch {
	case !bytes.Equal(buf.Bytes(), buf3.Bytes()):
		sb.WriteString("|RT=diffbytes")
	case SchDump(n, true) != SchDump(n3, true):
		sb.WriteString("|RT=difftv")
	default:
		sb.WriteString("|RT=same")
	}
	return sb.String()
}
