package lib

// node_gen.go (cluster "node"): script generators for C01/C12.
import (
	"math/big"
)

var Two63 = two63

var hintPool = []int64{0, 1, 2, 3, 16, 4096, -1, -2, -4096, -9223372036854775808, 1000, 255}

func (r *Rng) hint(n int) int64 {
	switch r.Intn(5) {
	case 0:
		return int64(n)
	case 1:
		return int64(n) + int64(r.Intn(3)) - 1
	case 2:
		return int64(r.Intn(4097))
	case 3:
		return -int64(r.U64() >> 1) - 1
	}
	return hintPool[r.Intn(len(hintPool))]
}

// DirectScript: entry shortcut, direct scalar assignment, exact size hints.
func DirectScript(v *Val) []*Op {
	switch v.Kind {
	case KList:
		ops := []*Op{{Code: "BL", Hint: int64(len(v.L))}}
		for _, x := range v.L {
			ops = append(ops, &Op{Code: "AV"})
			ops = append(ops, DirectScript(x)...)
		}
		return append(ops, &Op{Code: "FI"})
	case KMap:
		ops := []*Op{{Code: "BM", Hint: int64(len(v.M))}}
		for _, e := range v.M {
			ops = append(ops, &Op{Code: "AE", Key: e.K})
			ops = append(ops, DirectScript(e.V)...)
		}
		return append(ops, &Op{Code: "FI"})
	case KInt:
		if v.I.Cmp(two63) >= 0 {
			return []*Op{{Code: "XN", N: PlainSpec(v)}}
		}
	}
	return []*Op{{Code: "X", V: v}}
}

// KeyValueScript: AssembleKey + AssignString + AssembleValue everywhere.
func KeyValueScript(v *Val) []*Op {
	switch v.Kind {
	case KList:
		ops := []*Op{{Code: "BL", Hint: 0}}
		for _, x := range v.L {
			ops = append(ops, &Op{Code: "AV"})
			ops = append(ops, KeyValueScript(x)...)
		}
		return append(ops, &Op{Code: "FI"})
	case KMap:
		ops := []*Op{{Code: "BM", Hint: -1}}
		for _, e := range v.M {
			ops = append(ops, &Op{Code: "AK"}, &Op{Code: "X", V: Str(e.K)}, &Op{Code: "AV"})
			ops = append(ops, KeyValueScript(e.V)...)
		}
		return append(ops, &Op{Code: "FI"})
	}
	return DirectScript(v)
}

// GenScript draws one of the legal scripts that assemble v: per entry the shortcut or key+value
// (key as string or as node), per value direct assignment or AssignNode of an existing node of
// some implementation, any size hint.
func (r *Rng) GenScript(v *Val, plain bool) []*Op {
	return r.genScript(v, plain, true)
}

func (r *Rng) genScript(v *Val, plain bool, root bool) []*Op {
	pNode := 12
	if root {
		pNode = 8
	}
	if !plain && v.Size() <= 40 && r.Chance(pNode) {
		return []*Op{{Code: "XN", N: r.GenSpec(v, true)}}
	}
	switch v.Kind {
	case KList:
		ops := []*Op{{Code: "BL", Hint: r.hint(len(v.L))}}
		for _, x := range v.L {
			ops = append(ops, &Op{Code: "AV"})
			ops = append(ops, r.genScript(x, plain, false)...)
		}
		return append(ops, &Op{Code: "FI"})
	case KMap:
		ops := []*Op{{Code: "BM", Hint: r.hint(len(v.M))}}
		for _, e := range v.M {
			switch r.Intn(4) {
			case 0, 1:
				ops = append(ops, &Op{Code: "AE", Key: e.K})
			case 2:
				ops = append(ops, &Op{Code: "AK"}, &Op{Code: "X", V: Str(e.K)}, &Op{Code: "AV"})
			default:
				tag := byte('s')
				if r.Bool() {
					tag = 'Z'
				}
				ops = append(ops, &Op{Code: "AK"}, &Op{Code: "XN", N: &NSpec{Tag: tag, V: Str(e.K)}}, &Op{Code: "AV"})
			}
			ops = append(ops, r.genScript(e.V, plain, false)...)
		}
		return append(ops, &Op{Code: "FI"})
	case KInt:
		if v.I.Cmp(two63) >= 0 {
			return []*Op{{Code: "XN", N: PlainSpec(v)}}
		}
	}
	return []*Op{{Code: "X", V: v}}
}

func cloneVal(v *Val) *Val {
	c := *v
	if v.I != nil {
		c.I = new(big.Int).Set(v.I)
	}
	c.L = nil
	c.M = nil
	for _, x := range v.L {
		c.L = append(c.L, cloneVal(x))
	}
	for _, e := range v.M {
		c.M = append(c.M, Entry{e.K, cloneVal(e.V)})
	}
	return &c
}

// Mutant returns a copy of v with one small change somewhere (it may, rarely, still be equal).
func (r *Rng) Mutant(v *Val) *Val {
	for {
		c := cloneVal(v)
		r.mutate(c)
		if _, err := BuildBasic(c); err == nil { // e.g. a renamed key may collide: draw again
			return c
		}
	}
}

func (r *Rng) mutate(v *Val) {
	switch v.Kind {
	case KList:
		if len(v.L) > 0 && r.Chance(60) {
			r.mutate(v.L[r.Intn(len(v.L))])
			return
		}
		switch r.Intn(3) {
		case 0:
			v.L = append(v.L, Null())
		case 1:
			if len(v.L) > 0 {
				i := r.Intn(len(v.L))
				v.L = append(v.L[:i:i], v.L[i+1:]...)
				return
			}
			v.L = append(v.L, Int(0))
		default:
			if len(v.L) > 1 {
				i := r.Intn(len(v.L) - 1)
				v.L[i], v.L[i+1] = v.L[i+1], v.L[i]
				return
			}
			*v = *Map()
		}
	case KMap:
		if len(v.M) > 0 && r.Chance(50) {
			r.mutate(v.M[r.Intn(len(v.M))].V)
			return
		}
		switch r.Intn(4) {
		case 0:
			v.M = append(v.M, Entry{"mutant-key", Null()})
		case 1:
			if len(v.M) > 0 {
				i := r.Intn(len(v.M))
				v.M = append(v.M[:i:i], v.M[i+1:]...)
				return
			}
			*v = *List()
		case 2:
			if len(v.M) > 1 {
				i := r.Intn(len(v.M) - 1)
				v.M[i], v.M[i+1] = v.M[i+1], v.M[i]
				return
			}
			v.M = append(v.M, Entry{"mutant-key2", Int(1)})
		default:
			if len(v.M) > 0 {
				i := r.Intn(len(v.M))
				v.M[i].K = v.M[i].K + "\x00"
				return
			}
			*v = *Null()
		}
	case KNull:
		*v = *Bool(false)
	case KBool:
		v.B = !v.B
	case KInt:
		switch r.Intn(3) {
		case 0:
			if v.I.BitLen() < 62 {
				v.I.Add(v.I, big.NewInt(1))
			} else {
				v.I = big.NewInt(0)
			}
		case 1:
			f := Float(float64(v.I.Int64()))
			*v = *f
		default:
			v.I = new(big.Int).Neg(v.I)
			if v.I.Cmp(new(big.Int).Neg(two63)) < 0 {
				v.I = big.NewInt(-1)
			}
		}
	case KFloat:
		switch r.Intn(3) {
		case 0:
			v.F ^= 1 << 63 // +0/-0 stay equal under Go ==
		case 1:
			v.F ^= 1
		default:
			*v = *Int(0)
		}
	case KString:
		if r.Bool() {
			v.S += "x"
		} else {
			v.Kind = KBytes
		}
	case KBytes:
		if r.Bool() {
			v.S = "\x00" + v.S
		} else {
			v.Kind = KString
		}
	case KLink:
		if r.Bool() {
			*v = *Link(r.GenCid())
		} else {
			v.Kind = KBytes
		}
	}
}

// UintSpec is PlainSpec with EVERY non-negative integer held by a basicnode.NewUint node (a UintNode
// also has to behave as an int node for the values that fit int64).
func UintSpec(v *Val) *NSpec {
	switch v.Kind {
	case KInt:
		if v.I.Sign() >= 0 {
			return &NSpec{Tag: 'u', V: v}
		}
	case KList:
		s := &NSpec{Tag: 'a'}
		for _, x := range v.L {
			s.L = append(s.L, UintSpec(x))
		}
		return s
	case KMap:
		s := &NSpec{Tag: 'm'}
		for _, e := range v.M {
			s.K = append(s.K, e.K)
			s.L = append(s.L, UintSpec(e.V))
		}
		return s
	}
	return PlainSpec(v)
}

// UintScript is DirectScript with every non-negative integer assigned as a UintNode.
func UintScript(v *Val) []*Op {
	switch v.Kind {
	case KList:
		ops := []*Op{{Code: "BL", Hint: int64(len(v.L))}}
		for _, x := range v.L {
			ops = append(ops, &Op{Code: "AV"})
			ops = append(ops, UintScript(x)...)
		}
		return append(ops, &Op{Code: "FI"})
	case KMap:
		ops := []*Op{{Code: "BM", Hint: int64(len(v.M))}}
		for _, e := range v.M {
			ops = append(ops, &Op{Code: "AE", Key: e.K})
			ops = append(ops, UintScript(e.V)...)
		}
		return append(ops, &Op{Code: "FI"})
	case KInt:
		if v.I.Sign() >= 0 {
			return []*Op{{Code: "XN", N: UintSpec(v)}}
		}
	}
	return DirectScript(v)
}
