package lib

import (
	"bufio"
	"errors"
	"flag"
	"fmt"
	"os"
	"strings"
)

// Common flags of every harness command.
type Flags struct {
	Seed   uint64
	Tier   string
	N      int
	Out    string
	Replay string
}

func ParseFlags() *Flags {
	f := &Flags{}
	flag.Uint64Var(&f.Seed, "seed", 1, "PRNG seed")
	flag.StringVar(&f.Tier, "tier", "quick", "quick|thorough")
	flag.IntVar(&f.N, "n", 0, "number of generated cases (0 = tier default)")
	flag.StringVar(&f.Out, "out", "", "output file (default stdout)")
	flag.StringVar(&f.Replay, "replay", "", "file of case lines to re-run instead of generating")
	flag.Parse()
	return f
}

// Out is a buffered line writer of tab-separated case records.
type Out struct {
	w *bufio.Writer
	f *os.File
	N int
}

func OpenOut(path string) *Out {
	if path == "" {
		return &Out{w: bufio.NewWriterSize(os.Stdout, 1<<20)}
	}
	f, err := os.Create(path)
	if err != nil {
		panic(err)
	}
	return &Out{w: bufio.NewWriterSize(f, 1<<20), f: f}
}

// Case writes one record: id, then fields; tabs/newlines never occur in fields by construction.
func (o *Out) Case(fields ...string) {
	o.N++
	o.w.WriteString(strings.Join(fields, "\t"))
	o.w.WriteByte('\n')
}

func (o *Out) Close() {
	o.w.Flush()
	if o.f != nil {
		o.f.Close()
	}
}

// Safely runs f and converts a panic into an error tagged "panic".
func Safely(f func() error) (err error) {
	defer func() {
		if r := recover(); r != nil {
			err = &PanicError{fmt.Sprint(r)}
		}
	}()
	return f()
}

type PanicError struct{ Msg string }

func (p *PanicError) Error() string { return "panic: " + p.Msg }

func IsPanic(err error) bool {
	var p *PanicError
	return errors.As(err, &p)
}

// ReadLines reads a replay file.
func ReadLines(path string) []string {
	b, err := os.ReadFile(path)
	if err != nil {
		panic(err)
	}
	var out []string
	for _, l := range strings.Split(string(b), "\n") {
		if strings.TrimSpace(l) != "" {
			out = append(out, l)
		}
	}
	return out
}
