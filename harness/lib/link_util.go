package lib

// Helpers shared by the c05 and c06 harness commands (cluster `link`): link prototypes in text form,
// the codec table, real digests / encodings / decodings for the tables the OCaml driver feeds to the
// extracted (hash- and codec-parametric) LinkSystem model, error classification, adversarial readers
// and writers.

import (
	"bytes"
	"errors"
	"fmt"
	"io"
	"os"
	"sort"
	"strconv"
	"strings"

	cid "github.com/ipfs/go-cid"
	"github.com/ipld/go-ipld-prime/codec"
	"github.com/ipld/go-ipld-prime/codec/cbor"
	"github.com/ipld/go-ipld-prime/codec/dagcbor"
	"github.com/ipld/go-ipld-prime/codec/dagjson"
	"github.com/ipld/go-ipld-prime/codec/json"
	"github.com/ipld/go-ipld-prime/codec/raw"
	"github.com/ipld/go-ipld-prime/datamodel"
	"github.com/ipld/go-ipld-prime/linking"
	cidlink "github.com/ipld/go-ipld-prime/linking/cid"
	"github.com/ipld/go-ipld-prime/multicodec"
	"github.com/ipld/go-ipld-prime/node/basicnode"
	mhcore "github.com/multiformats/go-multihash/core"
)

const (
	LkDagCbor  = 0x71
	LkCbor     = 0x51
	LkRaw      = 0x55
	LkDagJson  = 0x0129
	LkJson     = 0x0200
	LkDagCborT = 0x7100 // not a multicodec: the dag-cbor functions, MODELLED through tables (large blocks)
	LkDagPb    = 0x70   // no implementation here: the global registry binds it to the dag-cbor functions (LkInit) so that CIDv0 links load
)

type lkCodec struct {
	Enc codec.Encoder
	Dec codec.Decoder
}

var LkCodecs = map[uint64]lkCodec{
	LkDagCbor:  {dagcbor.Encode, dagcbor.Decode},
	LkCbor:     {cbor.Encode, cbor.Decode},
	LkRaw:      {raw.Encode, raw.Decode},
	LkDagJson:  {dagjson.Encode, dagjson.Decode},
	LkJson:     {json.Encode, json.Decode},
	LkDagCborT: {dagcbor.Encode, dagcbor.Decode},
}

// LkReg describes a multicodec registry: which implementation (named by its canonical code in
// LkCodecs) a code number is bound to, separately for encoding and decoding.
type LkReg struct {
	Global bool // the process-wide default registry, used through cidlink.DefaultLinkSystem()
	// Order in which a private (zero-value) multicodec.Registry is populated: "" encoders first,
	// "d" decoders first, "l" a Lookup*/List* call first, then decoders first
	Order string
	Enc   map[uint64]uint64
	Dec   map[uint64]uint64
}

// LkGlobalReg is what multicodec.DefaultRegistry holds once the codec packages are linked in and
// LkInit has run.
func LkGlobalReg() *LkReg {
	m := func() map[uint64]uint64 {
		return map[uint64]uint64{LkDagCbor: LkDagCbor, LkCbor: LkCbor, LkRaw: LkRaw, LkDagJson: LkDagJson, LkJson: LkJson, LkDagPb: LkDagCbor}
	}
	return &LkReg{Global: true, Enc: m(), Dec: m()}
}

// Text: "G" for the global registry, else "R:" + sorted "<code>=<impl>[:e|:d]" (:e encoder only,
// :d decoder only), codes in hex.
func (rg *LkReg) Text() string {
	if rg.Global {
		return "G"
	}
	var ents []string
	codes := map[uint64]bool{}
	for c := range rg.Enc {
		codes[c] = true
	}
	for c := range rg.Dec {
		codes[c] = true
	}
	for c := range codes {
		e, he := rg.Enc[c]
		d, hd := rg.Dec[c]
		switch {
		case he && hd && e == d:
			ents = append(ents, fmt.Sprintf("%x=%x", c, e))
		case he && hd:
			ents = append(ents, fmt.Sprintf("%x=%x:e", c, e), fmt.Sprintf("%x=%x:d", c, d))
		case he:
			ents = append(ents, fmt.Sprintf("%x=%x:e", c, e))
		default:
			ents = append(ents, fmt.Sprintf("%x=%x:d", c, d))
		}
	}
	sort.Strings(ents)
	return "R" + rg.Order + ":" + strings.Join(ents, ",")
}

func LkParseReg(s string) (*LkReg, error) {
	if s == "G" {
		return LkGlobalReg(), nil
	}
	colon := strings.IndexByte(s, ':')
	if !strings.HasPrefix(s, "R") || colon < 1 || colon > 2 {
		return nil, fmt.Errorf("bad registry %q", s)
	}
	rg := &LkReg{Enc: map[uint64]uint64{}, Dec: map[uint64]uint64{}, Order: s[1:colon]}
	if len(s) == colon+1 {
		return rg, nil
	}
	for _, ent := range strings.Split(s[colon+1:], ",") {
		kv := strings.SplitN(ent, "=", 2)
		if len(kv) != 2 {
			return nil, fmt.Errorf("bad registry entry %q", ent)
		}
		code, err := strconv.ParseUint(kv[0], 16, 64)
		if err != nil {
			return nil, err
		}
		mode := byte(0)
		v := kv[1]
		if i := strings.IndexByte(v, ':'); i >= 0 {
			mode = v[i+1]
			v = v[:i]
		}
		impl, err := strconv.ParseUint(v, 16, 64)
		if err != nil {
			return nil, err
		}
		if _, ok := LkCodecs[impl]; !ok {
			return nil, fmt.Errorf("unknown implementation %x", impl)
		}
		if mode != 'd' {
			rg.Enc[code] = impl
		}
		if mode != 'e' {
			rg.Dec[code] = impl
		}
	}
	return rg, nil
}

// LinkSystem builds the link system this registry description stands for.
func (rg *LkReg) LinkSystem() linking.LinkSystem {
	if rg.Global {
		return cidlink.DefaultLinkSystem()
	}
	reg := multicodec.Registry{} // zero value: every entry point must cope with being the first call
	encs := func() {
		for c, impl := range rg.Enc {
			reg.RegisterEncoder(c, LkCodecs[impl].Enc)
		}
	}
	decs := func() {
		for c, impl := range rg.Dec {
			reg.RegisterDecoder(c, LkCodecs[impl].Dec)
		}
	}
	switch rg.Order {
	case "d":
		decs()
		encs()
	case "l":
		if _, err := reg.LookupDecoder(LkDagCbor); err == nil {
			panic("fresh registry knows a decoder")
		}
		if _, err := reg.LookupEncoder(LkDagCbor); err == nil {
			panic("fresh registry knows an encoder")
		}
		if len(reg.ListDecoders()) != 0 || len(reg.ListEncoders()) != 0 {
			panic("fresh registry lists codecs")
		}
		decs()
		encs()
	default:
		encs()
		decs()
	}
	if len(reg.ListEncoders()) != len(rg.Enc) || len(reg.ListDecoders()) != len(rg.Dec) {
		panic("registry lists other codecs than were registered")
	}
	return cidlink.LinkSystemUsingMulticodecRegistry(reg)
}

// LkInit makes CIDv0 links loadable: this repository registers no codec for dag-pb (0x70), so the
// dag-cbor functions are registered under that code in the default registry (DESIGN §4 C05).
func LkInit() {
	multicodec.RegisterEncoder(LkDagPb, dagcbor.Encode)
	multicodec.RegisterDecoder(LkDagPb, dagcbor.Decode)
}

// LkTableCodec: the model takes this implementation's behaviour from tables printed by the harness.
func LkTableCodec(c uint64) bool { return c == LkDagJson || c == LkJson || c == LkDagCborT }

// ---- link prototypes

type LkProto struct {
	Version, Codec, MhType uint64
	MhLen                  int
}

func (p LkProto) Spec() string {
	return fmt.Sprintf("%d.%x.%x.%d", p.Version, p.Codec, p.MhType, p.MhLen)
}

func LkParseProto(s string) (LkProto, error) {
	f := strings.Split(s, ".")
	if len(f) != 4 {
		return LkProto{}, fmt.Errorf("bad proto %q", s)
	}
	v, e1 := strconv.ParseUint(f[0], 10, 64)
	c, e2 := strconv.ParseUint(f[1], 16, 64)
	m, e3 := strconv.ParseUint(f[2], 16, 64)
	l, e4 := strconv.Atoi(f[3])
	if e1 != nil || e2 != nil || e3 != nil || e4 != nil {
		return LkProto{}, fmt.Errorf("bad proto %q", s)
	}
	return LkProto{v, c, m, l}, nil
}

func (p LkProto) LP() cidlink.LinkPrototype {
	return cidlink.LinkPrototype{Prefix: cid.Prefix{Version: p.Version, Codec: p.Codec, MhType: p.MhType, MhLength: p.MhLen}}
}

// LkLinkFromBinary rebuilds a link from Link.Binary().
func LkLinkFromBinary(b string) (datamodel.Link, error) {
	c, err := cid.Cast([]byte(b))
	if err != nil {
		return nil, err
	}
	return cidlink.Link{Cid: c}, nil
}

// ---- tables: what the real hash functions and codecs do on the byte strings / values involved

type LkTables struct {
	h map[string]string
	e map[string]string
	d map[string]string
}

func NewLkTables() *LkTables {
	return &LkTables{h: map[string]string{}, e: map[string]string{}, d: map[string]string{}}
}

// Hasher records whether a hasher is registered for mht.
func (t *LkTables) Hasher(mht uint64) bool {
	k := fmt.Sprintf("K%x", mht)
	_, err := mhcore.GetHasher(mht)
	if err != nil {
		t.h[k] = "0"
		return false
	}
	t.h[k] = "1"
	return true
}

// Hash records the digest the real hasher for mht gives for data (nothing if there is no hasher).
func (t *LkTables) Hash(mht uint64, data []byte) {
	if !t.Hasher(mht) {
		return
	}
	k := fmt.Sprintf("H%x.%s", mht, LkHexBytes(data))
	if _, ok := t.h[k]; ok {
		return
	}
	h, err := mhcore.GetHasher(mht)
	if err != nil {
		return
	}
	h.Write(data)
	t.h[k] = Hex(string(h.Sum(nil)))
}

// chunkWriter records the Write calls of an encoder.
type chunkWriter struct{ chunks [][]byte }

func (c *chunkWriter) Write(p []byte) (int, error) {
	c.chunks = append(c.chunks, append([]byte(nil), p...))
	return len(p), nil
}

// LkEncode runs the codec's encoder on n and returns the sequence of writes.
func LkEncode(code uint64, n datamodel.Node) ([][]byte, error) {
	c, ok := LkCodecs[code]
	if !ok {
		return nil, fmt.Errorf("no codec")
	}
	cw := &chunkWriter{}
	err := Safely(func() error { return c.Enc(n, cw) })
	if err != nil {
		return nil, err
	}
	return cw.chunks, nil
}

// Encode records the write sequence of a table codec on the value as inserted.
func (t *LkTables) Encode(code uint64, v *Val, n datamodel.Node) {
	if !LkTableCodec(code) {
		return
	}
	t.EncodeChunks(code, v, n)
}

// EncodeChunks records the write sequence of any implementation (for the concretely modelled
// codecs the driver takes the bytes from the model and only the write boundaries from here).
func (t *LkTables) EncodeChunks(code uint64, v *Val, n datamodel.Node) {
	k := fmt.Sprintf("E%x.%s", code, v.Text())
	if _, ok := t.e[k]; ok {
		return
	}
	chunks, err := LkEncode(code, n)
	if err != nil {
		t.e[k] = "!"
		return
	}
	parts := make([]string, len(chunks))
	for i, c := range chunks {
		parts[i] = LkHexBytes(c)
	}
	LkRegisterConcat(chunks)
	t.e[k] = "c" + strings.Join(parts, "+")
}

// countReader delivers data then EOF, counting what was pulled and whether the end was observed.
type countReader struct {
	data   []byte
	pos    int
	sawEnd bool
}

func (c *countReader) Read(p []byte) (int, error) {
	if len(p) == 0 {
		return 0, nil
	}
	if c.pos >= len(c.data) {
		c.sawEnd = true
		return 0, io.EOF
	}
	n := copy(p, c.data[c.pos:])
	c.pos += n
	return n, nil
}

// LkDecode runs the codec's decoder over a plain stream of data.
func LkDecode(code uint64, data []byte) (dump string, pulled int, sawEnd bool, err error) {
	c, ok := LkCodecs[code]
	if !ok {
		return "", 0, false, fmt.Errorf("no codec")
	}
	cr := &countReader{data: data}
	nb := basicnode.Prototype.Any.NewBuilder()
	err = Safely(func() error { return c.Dec(nb, cr) })
	if err != nil {
		return "", cr.pos, cr.sawEnd, err
	}
	return LkDump(nb.Build()), cr.pos, cr.sawEnd, nil
}

// Decode records what a table codec's decoder makes of data.
func (t *LkTables) Decode(code uint64, data []byte) {
	if !LkTableCodec(code) {
		return
	}
	k := fmt.Sprintf("D%x.%s", code, LkHexBytes(data))
	if _, ok := t.d[k]; ok {
		return
	}
	dump, pulled, sawEnd, err := LkDecode(code, data)
	if err != nil {
		t.d[k] = "!"
		return
	}
	e := "0"
	if sawEnd {
		e = "1"
	}
	if pulled == len(data) {
		if nm, ok := LkNameOfBytes(data); ok {
			pulled = len(nm) // "everything", in the units the model sees
		}
	}
	t.d[k] = fmt.Sprintf("v%s~%d~%s", dump, pulled, e)
}

func (t *LkTables) Text() string {
	var all []string
	for _, m := range []map[string]string{t.h, t.e, t.d} {
		for k, v := range m {
			all = append(all, k+"="+v)
		}
	}
	sort.Strings(all)
	return strings.Join(all, ",")
}

// ---- error classes

var (
	LkErrRead   = errors.New("injected read error")
	LkErrOpen   = errors.New("injected open error")
	LkErrWrite  = errors.New("injected write error")
	LkErrWOpen  = errors.New("injected write-open error")
	LkErrCommit = errors.New("injected commit error")
	LkErrReify  = errors.New("injected reifier error")
)

// LkErrClass maps an error of a LinkSystem call to the model's classes.  rest names the class of
// anything else: "decode" for the load functions, "encode" for store / compute.
func LkErrClass(err error, rest string) string {
	var hm linking.ErrHashMismatch
	var su linking.ErrLinkingSetup
	switch {
	case err == nil:
		return "ok"
	case IsPanic(err):
		return "panic"
	case errors.As(err, &hm):
		return "err.hash_mismatch"
	case errors.As(err, &su):
		return "err.setup"
	case err == LkErrRead || err == LkErrWrite:
		return "err.io"
	case err == io.ErrShortWrite:
		return "err.shortwrite"
	case err == LkErrOpen || err == LkErrWOpen || errors.Is(err, os.ErrNotExist) || err.Error() == "404":
		return "err.open"
	case err == LkErrCommit:
		return "err.commit"
	case err == LkErrReify:
		return "err.reify"
	}
	return "err." + rest
}

// ---- adversarial reader / writer

// LkReader delivers the chunks one Read at a time (never more than one chunk per call), then EOF or
// a sticky read error.  An EMPTY chunk is one Read that returns (0, nil) — legal for an io.Reader
// ("nothing happened", the caller retries).  EOFWithLast: the final chunk is returned together with
// io.EOF.
type LkReader struct {
	Chunks      [][]byte
	Fail        bool
	EOFWithLast bool
	i, off      int
	Closed      bool
}

func (r *LkReader) Read(p []byte) (int, error) {
	if len(p) == 0 {
		return 0, nil
	}
	if r.i >= len(r.Chunks) {
		if r.Fail {
			return 0, LkErrRead
		}
		return 0, io.EOF
	}
	c := r.Chunks[r.i]
	if len(c) == 0 {
		r.i++
		return 0, nil
	}
	n := copy(p, c[r.off:])
	r.off += n
	if r.off >= len(c) {
		r.i++
		r.off = 0
		if r.EOFWithLast && !r.Fail && r.i == len(r.Chunks) {
			return n, io.EOF
		}
	}
	return n, nil
}

func (r *LkReader) Close() error { r.Closed = true; return nil }

// LkWriter: a storage writer with faults.  Cap >= 0: it fails once more than Cap bytes would have
// been accepted, and keeps failing (sticky).  Sched[i] describes its i-th Write call (0-based;
// calls beyond the schedule succeed): "f" fails (0, error), "s<n>" accepts n bytes and returns
// (n, nil) — a short write — when n < len(p).
type LkWriter struct {
	Cap    int // < 0: unlimited
	Sched  []string
	Buf    bytes.Buffer
	Failed bool // the capacity failure happened
	calls  int
}

func (w *LkWriter) Write(p []byte) (int, error) {
	i := w.calls
	w.calls++
	if w.Failed || (w.Cap >= 0 && w.Buf.Len()+len(p) > w.Cap) {
		w.Failed = true
		return 0, LkErrWrite
	}
	if i < len(w.Sched) {
		switch a := w.Sched[i]; {
		case a == "f":
			return 0, LkErrWrite
		case strings.HasPrefix(a, "s"):
			n, _ := strconv.Atoi(a[1:])
			if n < len(p) {
				w.Buf.Write(p[:n])
				return n, nil
			}
		}
	}
	return w.Buf.Write(p)
}

// LkFaultWriter forwards to W, except that its i-th Write call follows Sched[i] as in LkWriter
// ("f": fail this call, nothing forwarded; "s<n>": forward n bytes, return (n, nil)).
type LkFaultWriter struct {
	W     io.Writer
	Sched []string
	calls int
}

func (w *LkFaultWriter) Write(p []byte) (int, error) {
	i := w.calls
	w.calls++
	if i < len(w.Sched) {
		switch a := w.Sched[i]; {
		case a == "f":
			return 0, LkErrWrite
		case strings.HasPrefix(a, "s"):
			n, _ := strconv.Atoi(a[1:])
			if n < len(p) {
				return w.W.Write(p[:n])
			}
		}
	}
	return w.W.Write(p)
}

// LkSplit cuts data at the given offsets (ascending, inside the data) into non-empty chunks.
func LkSplit(data []byte, cuts ...int) [][]byte {
	var out [][]byte
	prev := 0
	for _, c := range cuts {
		if c > prev && c < len(data) {
			out = append(out, data[prev:c])
			prev = c
		}
	}
	if prev < len(data) {
		out = append(out, data[prev:])
	}
	return out
}

// LkChunksText: chunks in hex joined by "+"; an empty chunk is "_"; no chunks at all is "".
func LkChunksText(ch [][]byte) string {
	parts := make([]string, len(ch))
	for i, c := range ch {
		if len(c) == 0 {
			parts[i] = "_"
		} else {
			parts[i] = LkHexBytes(c)
		}
	}
	return strings.Join(parts, "+")
}

func LkParseChunks(s string) [][]byte {
	if s == "" {
		return nil
	}
	var out [][]byte
	for _, p := range strings.Split(s, "+") {
		if p == "_" {
			out = append(out, []byte{})
		} else {
			out = append(out, LkRegisterBytes(UnHex(p))) // a large chunk travels under its name
		}
	}
	return out
}

// LkWithEmpty inserts an empty chunk (a (0, nil) read) before chunk number at (at == len: after
// the last chunk, i.e. right before EOF / the read error).
func LkWithEmpty(ch [][]byte, at ...int) [][]byte {
	var out [][]byte
	for i := 0; i <= len(ch); i++ {
		for _, a := range at {
			if a == i {
				out = append(out, []byte{})
			}
		}
		if i < len(ch) {
			out = append(out, ch[i])
		}
	}
	return out
}

// ---- value domains per codec

func lkWalk(v *Val, f func(*Val) bool) bool {
	if !f(v) {
		return false
	}
	for _, x := range v.L {
		if !lkWalk(x, f) {
			return false
		}
	}
	for _, e := range v.M {
		if !lkWalk(e.V, f) {
			return false
		}
	}
	return true
}

// LkInDomain: the codec encodes v and decodes it back to the same value (up to map order for the
// sorting codecs).  Deliberately conservative for the JSON codecs (C04's known limits are not C05's).
func LkInDomain(code uint64, v *Val) bool {
	switch code {
	case LkRaw:
		return v.Kind == KBytes
	case LkDagCbor, LkDagCborT:
		return true
	case LkCbor:
		return lkWalk(v, func(x *Val) bool { return x.Kind != KLink })
	case LkDagJson, LkJson:
		return lkWalk(v, func(x *Val) bool {
			switch x.Kind {
			case KFloat:
				return false
			case KInt:
				return x.I.IsInt64()
			case KString:
				return validUTF8(x.S)
			case KBytes, KLink:
				return code == LkDagJson
			case KMap:
				for _, e := range x.M {
					// a map with a "/" key is reserved syntax for dag-json, ordinary data for plain json
					if !validUTF8(e.K) || (e.K == "/" && code == LkDagJson) {
						return false
					}
				}
			}
			return true
		})
	}
	return false
}

// LkGenCfg is the generator configuration matching LkInDomain (the filter still applies).
func LkGenCfg(code uint64) *GenCfg {
	switch code {
	case LkDagCbor:
		return &GenCfg{MaxDepth: 3, MaxWidth: 4, Links: true, UintBeyond: true, BadUTF8: true}
	case LkCbor:
		return &GenCfg{MaxDepth: 3, MaxWidth: 4, UintBeyond: true, BadUTF8: true}
	case LkDagJson:
		return &GenCfg{MaxDepth: 3, MaxWidth: 4, Links: true, NoFloat: true}
	case LkJson:
		return &GenCfg{MaxDepth: 3, MaxWidth: 4, NoFloat: true, NoBytes: true}
	}
	return &GenCfg{MaxDepth: 0, MaxWidth: 0}
}

// LkGenVal generates a value in the codec's domain.
func (r *Rng) LkGenVal(code uint64) *Val {
	if code == LkRaw {
		c := &GenCfg{BadUTF8: true}
		if r.Intn(8) == 0 {
			return Bytes("")
		}
		return Bytes(r.GenStr(c) + r.GenStr(c))
	}
	if r.Intn(10) == 0 {
		if v := r.lkReservedShape(code); v != nil && LkInDomain(code, v) {
			return v
		}
	}
	cfg := LkGenCfg(code)
	for i := 0; ; i++ {
		var v *Val
		if i > 50 {
			v = Int(int64(r.Intn(100)))
		} else {
			v = r.GenVal(cfg, 0)
		}
		if LkInDomain(code, v) {
			return v
		}
	}
}

// lkReservedShape: maps of the shapes dag-json reserves for links and bytes — {"/": "<string>"} and
// {"/": {"bytes": "<string>"}}, alone, with a second entry, nested in a list or a map.  For json,
// cbor and dag-cbor these are ordinary maps and must load back as the maps they are; for dag-json
// they are outside the domain (nil).
func (r *Rng) lkReservedShape(code uint64) *Val {
	switch code {
	case LkJson, LkCbor, LkDagCbor, LkDagCborT:
	default:
		return nil
	}
	strs := []string{"bafyreigdyrzt5sfp7udm7hu76uh7y26nf3efuylqabf3oclgtqy55fbzdi", "QmYwAPJzv5CZsnA625s3Xf2nemtYgPpHdWEz79ojWnPbdG",
		"AP8", "aGVsbG8", "aGVsbG8gd29ybGQ=", "", "not base64 !", "x"}
	str := Str(strs[r.Intn(len(strs))])
	if r.Intn(4) == 0 {
		str = Str(r.GenStr(&GenCfg{}))
	}
	var m *Val
	if r.Bool() {
		m = Map(Entry{"/", str})
	} else {
		m = Map(Entry{"/", Map(Entry{"bytes", str})})
	}
	switch r.Intn(5) {
	case 0: // a second entry, after or before
		m.M = append(m.M, Entry{"x", Int(int64(r.Intn(9)))})
	case 1:
		m.M = append([]Entry{{"a", Null()}}, m.M...)
	case 2:
		return List(m, Int(1))
	case 3:
		return Map(Entry{"k", m}, Entry{"n", Int(2)})
	}
	return m
}
