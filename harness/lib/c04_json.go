package lib

// Helpers of the C04 (DAG-JSON) harness: error classes, the float/CID tables a record carries so
// that the extracted model can be run with strconv / go-cid as finite tables, and the value pools
// around the shapes DAG-JSON reserves.

import (
	"bytes"
	"errors"
	"math"
	"sort"
	"strings"

	cid "github.com/ipfs/go-cid"
	"github.com/ipld/go-ipld-prime/codec/dagjson"
	"github.com/ipld/go-ipld-prime/node/basicnode"
	rjson "github.com/polydawn/refmt/json"
	"github.com/polydawn/refmt/tok"
)

// JsonErrClass maps a dag-json decode error onto the model's error enum.
func JsonErrClass(err error) string {
	switch {
	case err == nil:
		return "ok"
	case IsPanic(err):
		return "panic"
	case errors.Is(err, dagjson.ErrDecodeDepthExceeded):
		return "depth"
	case strings.Contains(err.Error(), "unexpected content after end of json object"):
		return "trailing"
	}
	return "other"
}

// FloatText is what refmt's emitFloat writes for f (found by encoding the float alone).
func FloatText(bits uint64) (string, bool) {
	var b bytes.Buffer
	err := Safely(func() error { return dagjson.Encode(basicnode.NewFloat(math.Float64frombits(bits)), &b) })
	if err != nil {
		return "", false
	}
	return b.String(), true
}

func (v *Val) walk(f func(*Val)) {
	f(v)
	for _, x := range v.L {
		x.walk(f)
	}
	for _, e := range v.M {
		e.V.walk(f)
	}
}

func joinTab(m map[string]string) string {
	if len(m) == 0 {
		return "-"
	}
	ks := make([]string, 0, len(m))
	for k := range m {
		ks = append(ks, k)
	}
	sort.Strings(ks)
	var sb strings.Builder
	for i, k := range ks {
		if i > 0 {
			sb.WriteByte(',')
		}
		sb.WriteString(k)
		sb.WriteByte('=')
		sb.WriteString(m[k])
	}
	return sb.String()
}

// JsonTables returns, for a value and its encoding (nil when encoding failed): ftab (float bits ->
// emitted text), ctab (binary CID -> string form) and ptab (candidate string -> binary CID or "!" when
// cid.Decode refuses it) for every string a decoder can meet in link position: the CID strings, every
// string value of the tree as inserted, AND every string token of the encoded text as the real refmt
// tokenizer yields it -- that is the string the decoder sees, e.g. after emitString replaced invalid
// UTF-8 by U+FFFD.  No length cap: a missing entry is an error of the harness, never a silent skip.
func JsonTables(v *Val, encoded []byte) (ftab, ctab, ptab string) {
	fm, cm, pm := map[string]string{}, map[string]string{}, map[string]string{}
	v.walk(func(x *Val) {
		switch x.Kind {
		case KFloat:
			if t, ok := FloatText(x.F); ok {
				fm[hex64(x.F)] = Hex(t)
			}
		case KLink:
			c, err := cid.Cast([]byte(x.S))
			if err == nil {
				s := c.String()
				cm[Hex(x.S)] = Hex(s)
				pm[Hex(s)] = cidParseEntry(s)
			}
		case KString:
			pm[Hex(x.S)] = cidParseEntry(x.S)
		}
	})
	if encoded != nil {
		jsonStringTokens(encoded, pm)
	}
	return joinTab(fm), joinTab(cm), joinTab(pm)
}

func hex64(b uint64) string {
	const d = "0123456789abcdef"
	if b == 0 {
		return "0"
	}
	var out []byte
	for b > 0 {
		out = append([]byte{d[b&15]}, out...)
		b >>= 4
	}
	return string(out)
}

func cidParseEntry(s string) string {
	var c cid.Cid
	err := Safely(func() error { var e error; c, e = cid.Decode(s); return e })
	if err != nil {
		return "!"
	}
	return Hex(string(c.Bytes()))
}

// jsonStringTokens tokenizes input with the real refmt tokenizer and records the cid.Decode result of
// every string token it yields (a superset of the strings dag-json can meet in link position).
func jsonStringTokens(input []byte, pm map[string]string) {
	d := rjson.NewDecoder(bytes.NewReader(input))
	_ = Safely(func() error {
		for i := 0; i < 1000000; i++ {
			var tk tok.Token
			done, err := d.Step(&tk)
			if err != nil {
				return nil
			}
			if tk.Type == tok.TString {
				if _, ok := pm[Hex(tk.Str)]; !ok {
					pm[Hex(tk.Str)] = cidParseEntry(tk.Str)
				}
			}
			if done {
				return nil
			}
		}
		return nil
	})
}

// JsonParseTable is the ptab of a decoder input.
func JsonParseTable(input []byte) string {
	pm := map[string]string{}
	jsonStringTokens(input, pm)
	return joinTab(pm)
}

// float values at the text cut-offs of emitFloat and strconv
var JsonFloatPool = []float64{
	0, math.Copysign(0, -1), 1, -1, 2, 10, 100, 0.5, -0.5, 1.5, 0.1, 0.2, 0.3, 1e-6, 1e-7, 9.999999e-7, 0.000001234, 1.5e-10,
	1e20, 1e21, 1e22, 9.999999999999999e20, 1.0000000000000001e21, 123456789012345680000, 1e15, 1e16, 1e17,
	9007199254740991, 9007199254740992, 9007199254740993, 9007199254740994, 4503599627370496, 4503599627370496.5, 4503599627370497,
	9223372036854775807, 9223372036854775808, -9223372036854775808, 9223372036854774784, 1.8446744073709552e19,
	math.MaxFloat64, -math.MaxFloat64, math.SmallestNonzeroFloat64, -math.SmallestNonzeroFloat64, 2.2250738585072014e-308, 2.225073858507201e-308,
	3.141592653589793, 2.718281828459045, 1e100, 1e-100, 1.7976931348623157e308, 5e-324, 1e-323, 123.456, -123.456, 1e9, 1e-9, 65504, 0.30000000000000004,
	float64(float32(0.1)), 4294967296, 4294967295.5, 1e5, 1.5e300, 7e-10, 33, 1024, 1e6, 123456789.125,
}

// strings with control characters, non-BMP characters, U+2028/2029, escapes, the reserved words
var JsonStrPool = []string{
	"", "/", "bytes", "//", "/ ", "Bytes", "byte", "bytes ", "\x00", "\x01", "\x07", "\x08", "\x09", "\x0a", "\x0b", "\x0c", "\x0d", "\x0e", "\x1f", "\x20", "\x7f",
	"\"", "\\", "\\\\", "\\u0041", "\\n", "a\"b\\c/d", "\u2028", "\u2029", "\u2027", "\u202a", "a\u2028b\u2029c", "\u0080", "\u07ff", "\u0800", "\ud7ff", "\ue000", "\ufffd", "\uffff",
	"\U00010000", "\U0001F600", "\U0010FFFF", "\u00e9", "\u20ac", "\u65e5\u672c\u8a9e", "a\U0001F600b", "\x1b[0m", "tab\there", "line\nbreak", "cr\rlf\n", "<script>&amp;</script>", "'", "`",
	"bafkqaaa", "QmYwAPJzv5CZsnA625s3Xf2nemtYgPpHdWEz79ojWnPbdG", "bafyreigdyrzt5sfp7udm7hu76uh7y26nf3efuylqabf3oclgtqy55fbzdi", "YQ", "YQ==", "YWJj", "=", "-", "0", "1.5", "null", "true",
}

// JsonReservedNeighbourhood: values at and around the two shapes DAG-JSON reserves.
func JsonReservedNeighbourhood(r *Rng) []*Val {
	cids := []string{r.GenCid(), "\x01\x55\x00\x00", r.GenCid()}
	cidStr := func(b string) string {
		c, err := cid.Cast([]byte(b))
		if err != nil {
			return "x"
		}
		return c.String()
	}
	vals := []*Val{Str("x"), Str(""), Str("YQ"), Str("YWJj"), Str("not base64 !"), Str(cidStr(cids[0])), Str(cidStr(cids[1])), Int(1), Null(), Bool(true), Float(1.5),
		Bytes("abc"), Bytes(""), Link(cids[0]), Link(cids[2]), List(), List(Str("x")), Map(), Map(Entry{"x", Int(1)})}
	var out []*Val
	e := func(k string, v *Val) Entry { return Entry{k, v} }
	for _, x := range vals {
		out = append(out,
			Map(e("/", x)),
			Map(e("/", x), e("x", Int(1))),
			Map(e("a", Int(1)), e("/", x)),
			Map(e("/", x), e("", Null())),
			Map(e("/", x), e("0", Null())),
			Map(e("//", x)),
			Map(e("bytes", x)),
			Map(e("/", Map(e("bytes", x)))),
			Map(e("/", Map(e("bytes", x), e("x", Int(1))))),
			Map(e("/", Map(e("bytes", x))), e("x", Int(1))),
			Map(e("/", Map(e("Bytes", x)))),
			Map(e("/", Map(e("/", x)))),
			Map(e("/", Map(e("/", Map(e("bytes", x)))))),
			Map(e("/", Map(e("bytes", Map(e("/", x)))))),
			List(Map(e("/", x)), Map(e("/", Map(e("bytes", x))))),
			Map(e("k", Map(e("/", x))), e("l", Map(e("/", Map(e("bytes", x)))))),
		)
	}
	return out
}
