package lib

// Helpers of the C04 (DAG-JSON) harness: error classes, the float/CID tables a record carries so
// that the extracted model can be run with strconv / go-cid as finite tables, and the value pools
// around the shapes DAG-JSON reserves.

import (
	"bytes"
	"errors"
	"fmt"
	"io"
	"math"
	"sort"
	"strconv"
	"strings"

	cid "github.com/ipfs/go-cid"
	ipld "github.com/ipld/go-ipld-prime"
	"github.com/ipld/go-ipld-prime/codec/dagjson"
	"github.com/ipld/go-ipld-prime/datamodel"
	"github.com/ipld/go-ipld-prime/node/basicnode"
	"github.com/ipld/go-ipld-prime/node/bindnode"
	"github.com/ipld/go-ipld-prime/schema"
	"github.com/ipld/go-ipld-prime/testutil"
	rjson "github.com/polydawn/refmt/json"
	"github.com/polydawn/refmt/tok"
)

// JsonErrClass maps a dag-json decode error onto the model's error enum.
func JsonErrClass(err error) string {
	switch {
	case err == nil:
		return "ok"
	case IsPanic(err):
		return "panic"
	case errors.Is(err, dagjson.ErrDecodeDepthExceeded):
		return "depth"
	case strings.Contains(err.Error(), "unexpected content after end of json object"):
		return "trailing"
	}
	return "other"
}

// FloatText is what refmt's emitFloat writes for f (found by encoding the float alone).
func FloatText(bits uint64) (string, bool) {
	var b bytes.Buffer
	err := Safely(func() error { return dagjson.Encode(basicnode.NewFloat(math.Float64frombits(bits)), &b) })
	if err != nil {
		return "", false
	}
	return b.String(), true
}

func (v *Val) walk(f func(*Val)) {
	f(v)
	for _, x := range v.L {
		x.walk(f)
	}
	for _, e := range v.M {
		e.V.walk(f)
	}
}

func joinTab(m map[string]string) string {
	if len(m) == 0 {
		return "-"
	}
	ks := make([]string, 0, len(m))
	for k := range m {
		ks = append(ks, k)
	}
	sort.Strings(ks)
	var sb strings.Builder
	for i, k := range ks {
		if i > 0 {
			sb.WriteByte(',')
		}
		sb.WriteString(k)
		sb.WriteByte('=')
		sb.WriteString(m[k])
	}
	return sb.String()
}

// JsonTables returns, for a value and its encoding (nil when encoding failed): ftab (float bits ->
// emitted text), ctab (binary CID -> string form) and ptab (candidate string -> binary CID or "!" when
// cid.Decode refuses it) for every string a decoder can meet in link position: the CID strings, every
// string value of the tree as inserted, AND every string token of the encoded text as the real refmt
// tokenizer yields it -- that is the string the decoder sees, e.g. after emitString replaced invalid
// UTF-8 by U+FFFD.  No length cap: a missing entry is an error of the harness, never a silent skip.
func JsonTables(v *Val, encoded []byte) (ftab, ctab, ptab string) {
	fm, cm, pm := map[string]string{}, map[string]string{}, map[string]string{}
	v.walk(func(x *Val) {
		switch x.Kind {
		case KFloat:
			if t, ok := FloatText(x.F); ok {
				fm[hex64(x.F)] = Hex(t)
			}
		case KLink:
			c, err := cid.Cast([]byte(x.S))
			if err == nil {
				s := c.String()
				cm[Hex(x.S)] = Hex(s)
				pm[Hex(s)] = cidParseEntry(s)
			}
		case KString:
			pm[Hex(x.S)] = cidParseEntry(x.S)
		}
	})
	if encoded != nil {
		jsonStringTokens(encoded, pm)
	}
	return joinTab(fm), joinTab(cm), joinTab(pm)
}

func hex64(b uint64) string {
	const d = "0123456789abcdef"
	if b == 0 {
		return "0"
	}
	var out []byte
	for b > 0 {
		out = append([]byte{d[b&15]}, out...)
		b >>= 4
	}
	return string(out)
}

func cidParseEntry(s string) string {
	var c cid.Cid
	err := Safely(func() error { var e error; c, e = cid.Decode(s); return e })
	if err != nil {
		return "!"
	}
	return Hex(string(c.Bytes()))
}

// jsonStringTokens tokenizes input with the real refmt tokenizer and records the cid.Decode result of
// every string token it yields (a superset of the strings dag-json can meet in link position).
func jsonStringTokens(input []byte, pm map[string]string) {
	d := rjson.NewDecoder(bytes.NewReader(input))
	_ = Safely(func() error {
		for i := 0; i < 1000000; i++ {
			var tk tok.Token
			done, err := d.Step(&tk)
			if err != nil {
				return nil
			}
			if tk.Type == tok.TString {
				if _, ok := pm[Hex(tk.Str)]; !ok {
					pm[Hex(tk.Str)] = cidParseEntry(tk.Str)
				}
			}
			if done {
				return nil
			}
		}
		return nil
	})
}

// JsonParseTable is the ptab of a decoder input.
func JsonParseTable(input []byte) string {
	pm := map[string]string{}
	jsonStringTokens(input, pm)
	return joinTab(pm)
}

// float values at the text cut-offs of emitFloat and strconv
var JsonFloatPool = []float64{
	0, math.Copysign(0, -1), 1, -1, 2, 10, 100, 0.5, -0.5, 1.5, 0.1, 0.2, 0.3, 1e-6, 1e-7, 9.999999e-7, 0.000001234, 1.5e-10,
	1e20, 1e21, 1e22, 9.999999999999999e20, 1.0000000000000001e21, 123456789012345680000, 1e15, 1e16, 1e17,
	9007199254740991, 9007199254740992, 9007199254740993, 9007199254740994, 4503599627370496, 4503599627370496.5, 4503599627370497,
	9223372036854775807, 9223372036854775808, -9223372036854775808, 9223372036854774784, 1.8446744073709552e19,
	math.MaxFloat64, -math.MaxFloat64, math.SmallestNonzeroFloat64, -math.SmallestNonzeroFloat64, 2.2250738585072014e-308, 2.225073858507201e-308,
	3.141592653589793, 2.718281828459045, 1e100, 1e-100, 1.7976931348623157e308, 5e-324, 1e-323, 123.456, -123.456, 1e9, 1e-9, 65504, 0.30000000000000004,
	float64(float32(0.1)), 4294967296, 4294967295.5, 1e5, 1.5e300, 7e-10, 33, 1024, 1e6, 123456789.125,
}

// strings with control characters, non-BMP characters, U+2028/2029, escapes, the reserved words
var JsonStrPool = []string{
	"", "/", "bytes", "//", "/ ", "Bytes", "byte", "bytes ", "\x00", "\x01", "\x07", "\x08", "\x09", "\x0a", "\x0b", "\x0c", "\x0d", "\x0e", "\x1f", "\x20", "\x7f",
	"\"", "\\", "\\\\", "\\u0041", "\\n", "a\"b\\c/d", "\u2028", "\u2029", "\u2027", "\u202a", "a\u2028b\u2029c", "\u0080", "\u07ff", "\u0800", "\ud7ff", "\ue000", "\ufffd", "\uffff",
	"\U00010000", "\U0001F600", "\U0010FFFF", "\u00e9", "\u20ac", "\u65e5\u672c\u8a9e", "a\U0001F600b", "\x1b[0m", "tab\there", "line\nbreak", "cr\rlf\n", "<script>&amp;</script>", "'", "`",
	"bafkqaaa", "QmYwAPJzv5CZsnA625s3Xf2nemtYgPpHdWEz79ojWnPbdG", "bafyreigdyrzt5sfp7udm7hu76uh7y26nf3efuylqabf3oclgtqy55fbzdi", "YQ", "YQ==", "YWJj", "=", "-", "0", "1.5", "null", "true",
}

// JsonReservedNeighbourhood: values at and around the two shapes DAG-JSON reserves.
func JsonReservedNeighbourhood(r *Rng) []*Val {
	cids := []string{r.GenCid(), "\x01\x55\x00\x00", r.GenCid()}
	cidStr := func(b string) string {
		c, err := cid.Cast([]byte(b))
		if err != nil {
			return "x"
		}
		return c.String()
	}
	vals := []*Val{Str("x"), Str(""), Str("YQ"), Str("YWJj"), Str("not base64 !"), Str(cidStr(cids[0])), Str(cidStr(cids[1])), Int(1), Null(), Bool(true), Float(1.5),
		Bytes("abc"), Bytes(""), Link(cids[0]), Link(cids[2]), List(), List(Str("x")), Map(), Map(Entry{"x", Int(1)})}
	var out []*Val
	e := func(k string, v *Val) Entry { return Entry{k, v} }
	for _, x := range vals {
		out = append(out,
			Map(e("/", x)),
			Map(e("/", x), e("x", Int(1))),
			Map(e("a", Int(1)), e("/", x)),
			Map(e("/", x), e("", Null())),
			Map(e("/", x), e("0", Null())),
			Map(e("//", x)),
			Map(e("bytes", x)),
			Map(e("/", Map(e("bytes", x)))),
			Map(e("/", Map(e("bytes", x), e("x", Int(1))))),
			Map(e("/", Map(e("bytes", x))), e("x", Int(1))),
			Map(e("/", Map(e("Bytes", x)))),
			Map(e("/", Map(e("/", x)))),
			Map(e("/", Map(e("/", Map(e("bytes", x)))))),
			Map(e("/", Map(e("bytes", Map(e("/", x)))))),
			List(Map(e("/", x)), Map(e("/", Map(e("bytes", x))))),
			Map(e("k", Map(e("/", x))), e("l", Map(e("/", Map(e("bytes", x)))))),
		)
	}
	return out
}

// ---------------------------------------------------------------------------------------------
// Holders for bytes values.  C04 says the encoding is a function of the value alone, whichever node
// implementation holds it; bytes values can be held by nodes that stream their content
// (datamodel.LargeBytesNode), whose readers may return short reads.
//
//   lbreader        basicnode.NewBytesFromReader over a bytes.Reader
//   lbshort<seed>   ... over a reader whose every Read returns 1..7 bytes (length a function of seed, offset)
//   lbbig<seed>     ... over a reader returning 1..5000 bytes per Read (crosses any fixed chunk size)
//   lbone           ... over a reader returning one byte per Read
//   lbmulti<seed>   testutil.NewMultiByteNode with chunk lengths 0..7 (function of seed, chunk index)
//   bindbytes       bindnode over []byte / [][]byte / map[string][]byte (root bytes, list of bytes, map of bytes)
// In the lb* holders every bytes value of the tree (root or nested in basicnode maps/lists) is such a node.

type shortReader struct {
	data []byte
	off  int64
	seed uint64
	max  int
}

func mix(a, b uint64) uint64 {
	z := a*0x9E3779B97F4A7C15 + b + 0x632BE59BD9B4E019
	z = (z ^ (z >> 30)) * 0xBF58476D1CE4E5B9
	z = (z ^ (z >> 27)) * 0x94D049BB133111EB
	return z ^ (z >> 31)
}

func (r *shortReader) Read(p []byte) (int, error) {
	if r.off >= int64(len(r.data)) {
		return 0, io.EOF
	}
	if len(p) == 0 {
		return 0, nil
	}
	n := 1 + int(mix(r.seed, uint64(r.off))%uint64(r.max))
	if n > len(p) {
		n = len(p)
	}
	n = copy(p[:n], r.data[r.off:])
	r.off += int64(n)
	return n, nil
}

func (r *shortReader) Seek(offset int64, whence int) (int64, error) {
	switch whence {
	case io.SeekCurrent:
		offset += r.off
	case io.SeekEnd:
		offset += int64(len(r.data))
	}
	if offset < 0 {
		return 0, fmt.Errorf("negative seek")
	}
	r.off = offset
	return offset, nil
}

func bytesNodeMaker(holder string) (func(string) datamodel.Node, bool) {
	seedOf := func(prefix string) uint64 {
		u, _ := strconv.ParseUint(strings.TrimPrefix(holder, prefix), 10, 64)
		return u
	}
	switch {
	case holder == "lbreader":
		return func(b string) datamodel.Node { return basicnode.NewBytesFromReader(bytes.NewReader([]byte(b))) }, true
	case holder == "lbone":
		return func(b string) datamodel.Node {
			return basicnode.NewBytesFromReader(&shortReader{data: []byte(b), max: 1})
		}, true
	case strings.HasPrefix(holder, "lbshort"):
		sd := seedOf("lbshort")
		return func(b string) datamodel.Node {
			return basicnode.NewBytesFromReader(&shortReader{data: []byte(b), seed: sd, max: 7})
		}, true
	case strings.HasPrefix(holder, "lbbig"):
		sd := seedOf("lbbig")
		return func(b string) datamodel.Node {
			return basicnode.NewBytesFromReader(&shortReader{data: []byte(b), seed: sd, max: 5000})
		}, true
	case strings.HasPrefix(holder, "lbmulti"):
		sd := seedOf("lbmulti")
		return func(b string) datamodel.Node {
			var chunks [][]byte
			data := []byte(b)
			for i := uint64(0); len(data) > 0; i++ {
				n := int(mix(sd, i) % 8)
				if n > len(data) {
					n = len(data)
				}
				chunks = append(chunks, data[:n])
				data = data[n:]
			}
			return testutil.NewMultiByteNode(chunks...)
		}, true
	}
	return nil, false
}

func assembleBytesVia(na datamodel.NodeAssembler, v *Val, mk func(string) datamodel.Node) error {
	switch v.Kind {
	case KBytes:
		return na.AssignNode(mk(v.S))
	case KList:
		la, err := na.BeginList(int64(len(v.L)))
		if err != nil {
			return err
		}
		for _, x := range v.L {
			if err := assembleBytesVia(la.AssembleValue(), x, mk); err != nil {
				return err
			}
		}
		return la.Finish()
	case KMap:
		ma, err := na.BeginMap(int64(len(v.M)))
		if err != nil {
			return err
		}
		for _, e := range v.M {
			va, err := ma.AssembleEntry(e.K)
			if err != nil {
				return err
			}
			if err := assembleBytesVia(va, e.V, mk); err != nil {
				return err
			}
		}
		return ma.Finish()
	}
	return Assemble(na, v)
}

type bindMapBytes struct {
	Keys   []string
	Values map[string][]byte
}

var (
	bbTS                 *schema.TypeSystem
	bbRoot, bbMap, bbLst schema.Type
)

func bbInit() {
	if bbTS != nil {
		return
	}
	ts, err := ipld.LoadSchemaBytes([]byte("type BB bytes\ntype BMap {String:Bytes}\ntype BList [Bytes]\n"))
	if err != nil {
		panic(err)
	}
	bbTS, bbRoot, bbMap, bbLst = ts, ts.TypeByName("BB"), ts.TypeByName("BMap"), ts.TypeByName("BList")
}

func allBytes(vs []*Val) bool {
	for _, x := range vs {
		if x.Kind != KBytes {
			return false
		}
	}
	return true
}

// JsonBuildHolder builds v in the named holder (the shared holders plus the bytes holders above).
func JsonBuildHolder(holder string, v *Val) (datamodel.Node, error) {
	if mk, ok := bytesNodeMaker(holder); ok {
		if v.Kind == KBytes {
			return mk(v.S), nil
		}
		nb := basicnode.Prototype.Any.NewBuilder()
		if err := assembleBytesVia(nb, v, mk); err != nil {
			return nil, err
		}
		return nb.Build(), nil
	}
	if holder == "bindbytes" {
		bbInit()
		var proto datamodel.NodePrototype
		switch v.Kind {
		case KBytes:
			proto = bindnode.Prototype((*[]byte)(nil), bbRoot)
		case KList:
			proto = bindnode.Prototype((*[][]byte)(nil), bbLst)
		case KMap:
			proto = bindnode.Prototype((*bindMapBytes)(nil), bbMap)
		default:
			return nil, fmt.Errorf("bindbytes cannot hold this value")
		}
		nb := proto.NewBuilder()
		if err := Assemble(nb, v); err != nil {
			return nil, err
		}
		return nb.Build(), nil
	}
	return BuildHolder(holder, v)
}

func hasBytes(v *Val) bool {
	found := false
	v.walk(func(x *Val) {
		if x.Kind == KBytes {
			found = true
		}
	})
	return found
}

// JsonBytesHolders lists the bytes holders able to hold v (none when v has no bytes value).
func JsonBytesHolders(r *Rng, v *Val) []string {
	if !hasBytes(v) {
		return nil
	}
	hs := []string{"lbreader", "lbone", fmt.Sprintf("lbshort%d", r.Intn(1000)), fmt.Sprintf("lbbig%d", r.Intn(1000)), fmt.Sprintf("lbmulti%d", r.Intn(1000))}
	if v.Kind == KBytes || (v.Kind == KList && allBytes(v.L)) {
		hs = append(hs, "bindbytes")
	}
	if v.Kind == KMap {
		ok := true
		for _, e := range v.M {
			if e.V.Kind != KBytes {
				ok = false
			}
		}
		if ok {
			hs = append(hs, "bindbytes")
		}
	}
	return hs
}
