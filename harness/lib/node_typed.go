package lib

// node_typed.go (cluster "node", C12/C01): typed builders of both engines for a family of schema
// types (SchTy of the schema cluster; type level only): builders over inferred Go types for
// bindnode, the gendemo prototypes where the shape exists, the expected read-back of a type-level
// value and a dumper that tells "absent" from null.
import (
	"fmt"
	"strings"

	"github.com/ipld/go-ipld-prime/datamodel"
	"github.com/ipld/go-ipld-prime/node/gendemo"
)

func msg3Ty() *SchTy {
	return SchStruct('m', SchF("whee", SchScalar('I')), SchF("woot", SchScalar('I')), SchF("waga", SchScalar('I')))
}

// TypedFamily: the fixed part of the schema family C12 drives (random types are added per run).
func TypedFamily() []*SchTy {
	inner := SchStruct('m', SchF("n", SchScalar('I')), SchFOpt("s", SchScalar('S')))
	all := SchStruct('m',
		SchF("b", SchScalar('B')), SchF("i", SchScalar('I')), SchF("d", SchScalar('D')), SchF("s", SchScalar('S')),
		SchF("y", SchScalar('Y')), SchF("k", SchScalar('K')), SchF("a", SchScalar('A')),
		SchF("in", inner), SchF("l", SchList(false, SchScalar('S'))), SchF("m", SchMapOf(false, SchScalar('I'))),
		SchFOpt("oi", SchScalar('I')), SchFNul("ns", SchScalar('S')),
		SchField{Name: "on", Key: "on", Opt: true, Nul: true, T: SchScalar('B')},
		SchFOpt("ol", SchList(true, SchScalar('I'))))
	return []*SchTy{
		SchMapOf(false, SchScalar('A')),
		SchList(false, SchScalar('A')),
		SchMapOf(false, SchMapOf(false, SchScalar('I'))),
		SchList(false, SchList(false, SchScalar('S'))),
		all,
		SchMapOf(false, msg3Ty()),
		msg3Ty(),
		SchMapOf(true, inner),
		SchList(true, SchMapOf(false, SchScalar('A'))),
		SchScalar('I'), SchScalar('S'), SchScalar('B'), SchScalar('D'), SchScalar('Y'), SchScalar('K'),
	}
}

// GenTypedTy draws a type of the family: scalars, Any, lists, maps, map-representation structs with
// optional / nullable fields, nested to a small depth.
func (r *Rng) GenTypedTy(depth int) *SchTy {
	k := r.Intn(12)
	if depth >= 3 && k >= 7 {
		k = r.Intn(7)
	}
	switch k {
	case 0:
		return SchScalar('B')
	case 1:
		return SchScalar('I')
	case 2:
		return SchScalar('D')
	case 3:
		return SchScalar('S')
	case 4:
		return SchScalar('Y')
	case 5:
		return SchScalar('K')
	case 6:
		return SchScalar('A')
	case 7, 8:
		return SchList(r.Chance(25), r.GenTypedTy(depth+1))
	case 9:
		return SchMapOf(r.Chance(25), r.GenTypedTy(depth+1))
	default:
		n := 1 + r.Intn(4)
		names := r.distinct([]string{"a", "b", "c", "dd", "e5", "f", "gg", "h"}, n)
		var fs []SchField
		for _, nm := range names {
			fs = append(fs, SchField{Name: nm, Key: nm, Opt: r.Chance(25), Nul: r.Chance(20), T: r.GenTypedTy(depth + 1)})
		}
		return SchStruct('m', fs...)
	}
}

// GenTypedVal: a type-level value of t; Any positions hold arbitrary non-null data-model values
// (nested maps and lists included).
func (r *Rng) GenTypedVal(t *SchTy) *Val {
	switch t.K {
	case 'A':
		cfg := &GenCfg{MaxDepth: 3, MaxWidth: 3, Links: true, UintBeyond: true, BadUTF8: true, NaNInf: true}
		for {
			v := r.GenVal(cfg, 1)
			if r.Chance(50) {
				for v.Kind != KMap && v.Kind != KList {
					v = r.GenVal(cfg, 1)
				}
			}
			if v.Kind != KNull {
				return v
			}
		}
	case 'L':
		v := &Val{Kind: KList}
		n := r.Intn(4)
		if (t.Elem.K == 'R' || t.Elem.K == 'M' || t.Elem.K == 'L') && r.Chance(60) {
			n = 2 + r.Intn(3) // several children: repeated use of the child assembler
		}
		for i := 0; i < n; i++ {
			v.L = append(v.L, r.genTypedSlot(t.Elem, t.Nul))
		}
		return v
	case 'M':
		v := &Val{Kind: KMap}
		n := r.Intn(4)
		if (t.Elem.K == 'R' || t.Elem.K == 'M' || t.Elem.K == 'L') && r.Chance(60) {
			n = 2 + r.Intn(3)
		}
		for _, k := range r.distinct(schMapKeys, n) {
			v.M = append(v.M, Entry{k, r.genTypedSlot(t.Elem, t.Nul)})
		}
		return v
	case 'R':
		v := &Val{Kind: KMap}
		for _, f := range t.Fields {
			if f.Opt && r.Chance(40) {
				continue
			}
			v.M = append(v.M, Entry{f.Name, r.genTypedSlot(f.T, f.Nul)})
		}
		return v
	}
	return r.SchValue(t, 't', nil)
}

func (r *Rng) genTypedSlot(t *SchTy, nul bool) *Val {
	if nul && r.Chance(30) {
		return Null()
	}
	return r.GenTypedVal(t)
}

// TypedExpect: what the built node must read back as, in Dump's token language; a struct lists
// all its fields in schema order, an absent optional field reads as "z".
func TypedExpect(t *SchTy, v *Val, repr bool) string {
	var sb strings.Builder
	typedExpect(&sb, t, v, repr)
	return sb.String()
}

// repr: the representation-level view (map representation): absent optional fields are left out
func typedExpect(sb *strings.Builder, t *SchTy, v *Val, repr bool) {
	if v.Kind == KNull || (t.K != 'L' && t.K != 'M' && t.K != 'R') {
		if sb.Len() > 0 {
			sb.WriteByte(' ')
		}
		sb.WriteString(v.Text())
		return
	}
	if sb.Len() > 0 {
		sb.WriteByte(' ')
	}
	switch t.K {
	case 'L':
		fmt.Fprintf(sb, "a%d", len(v.L))
		for _, x := range v.L {
			typedExpect(sb, t.Elem, x, repr)
		}
	case 'M':
		fmt.Fprintf(sb, "m%d", len(v.M))
		for _, e := range v.M {
			sb.WriteString(" k" + Hex(e.K))
			typedExpect(sb, t.Elem, e.V, repr)
		}
	case 'R':
		if repr {
			fmt.Fprintf(sb, "m%d", len(v.M))
		} else {
			fmt.Fprintf(sb, "m%d", len(t.Fields))
		}
		for _, f := range t.Fields {
			found := false
			for _, e := range v.M {
				if e.K == f.Name {
					sb.WriteString(" k" + Hex(f.Name))
					typedExpect(sb, f.T, e.V, repr)
					found = true
				}
			}
			if !found && !repr {
				sb.WriteString(" k" + Hex(f.Name) + " z")
			}
		}
	}
}

// DumpTyped is Dump, except that an absent value (IsAbsent) is rendered "z".
func DumpTyped(n datamodel.Node) string {
	var sb strings.Builder
	dumpTyped(&sb, n)
	return sb.String()
}

func dumpTyped(sb *strings.Builder, n datamodel.Node) {
	if n == nil {
		if sb.Len() > 0 {
			sb.WriteByte(' ')
		}
		sb.WriteString("!nil")
		return
	}
	if k := n.Kind(); (n.IsNull() && k != datamodel.Kind_Null) || (n.IsAbsent() && k != datamodel.Kind_Null) {
		sb.WriteString("!nullflags ")
	}
	switch {
	case n.IsAbsent():
		if sb.Len() > 0 {
			sb.WriteByte(' ')
		}
		sb.WriteString("z")
	case n.Kind() == datamodel.Kind_List:
		if sb.Len() > 0 {
			sb.WriteByte(' ')
		}
		fmt.Fprintf(sb, "a%d", n.Length())
		it := n.ListIterator()
		for !it.Done() {
			_, v, err := it.Next()
			if err != nil {
				sb.WriteString(" !listnext")
				return
			}
			dumpTyped(sb, v)
		}
	case n.Kind() == datamodel.Kind_Map:
		if sb.Len() > 0 {
			sb.WriteByte(' ')
		}
		fmt.Fprintf(sb, "m%d", n.Length())
		it := n.MapIterator()
		for !it.Done() {
			k, v, err := it.Next()
			if err != nil {
				sb.WriteString(" !mapnext")
				return
			}
			ks, err := k.AsString()
			if err != nil {
				sb.WriteString(" !keystring")
				return
			}
			sb.WriteString(" k" + Hex(ks))
			dumpTyped(sb, v)
		}
	default:
		dump(sb, n)
	}
}

func sameShape(a, b *SchTy) bool { return a.Text() == b.Text() }

// TypedRepr: engines ending in "r" build through the representation-level prototype.
func TypedRepr(engine string) bool { return strings.HasSuffix(engine, "r") }

// TypedEngines lists the typed engines of the family.
var TypedEngines = []string{"tbind", "tbindr", "tgen", "tgenr"}

// TypedBuilder: a fresh builder of the engine ("tbind", "tgen": type level; "tbindr", "tgenr":
// representation level) for type t; nil if the engine has no such type.
func TypedBuilder(engine string, t *SchTy) (nb datamodel.NodeBuilder, err error) {
	switch engine {
	case "tbind", "tbindr":
		c := *t
		tc, perr := SchParse(c.Text()) // a private copy: names are assigned in place
		if perr != nil {
			return nil, perr
		}
		SchAssignNames(tc, "T")
		typ, _, lerr := SchLoad(tc)
		if lerr != nil {
			return nil, lerr
		}
		p, berr := SchBindProto(tc, typ)
		if berr != nil {
			return nil, berr
		}
		err = Safely(func() error {
			if engine == "tbindr" {
				nb = p.Representation().NewBuilder()
			} else {
				nb = p.NewBuilder()
			}
			return nil
		})
		return nb, err
	case "tgen", "tgenr":
		r := engine == "tgenr"
		pick := func(a, b datamodel.NodePrototype) (datamodel.NodeBuilder, error) {
			if r {
				return b.NewBuilder(), nil
			}
			return a.NewBuilder(), nil
		}
		switch {
		case sameShape(t, msg3Ty()):
			return pick(gendemo.Type.Msg3, gendemo.Type.Msg3__Repr)
		case sameShape(t, SchMapOf(false, msg3Ty())):
			return pick(gendemo.Type.Map__String__Msg3, gendemo.Type.Map__String__Msg3__Repr)
		case t.K == 'I':
			return pick(gendemo.Type.Foo, gendemo.Type.Foo__Repr)
		case t.K == 'S':
			return pick(gendemo.Type.Baz, gendemo.Type.Baz__Repr)
		case t.K == 'B':
			return pick(gendemo.Type.Bar, gendemo.Type.Bar__Repr)
		}
		return nil, nil
	}
	return nil, fmt.Errorf("unknown typed engine %q", engine)
}
