package lib

// node_spec.go (cluster "node", C01/C12): nodes handed to AssignNode, in a token language that says
// which implementation holds every container, and the assembler-call script language.
//
// Node tokens: the Val tokens (n t f i<hex> d<bits> s<hex> b<hex> l<hex>) plus
//   u<hex>            basicnode.NewUint (only used for values >= 2^63)
//   a<n> ..           basicnode list (plainList) whose children are the given nodes as they are
//   m<n> k<hex> ..    basicnode map (plainMap)
//   A<n> ..           bindnode [Any] list      (children: scalars or basicnode containers)
//   M<n> k<hex> ..    bindnode {String:Any} map
//   S3 k.. i.. ..     gendemo Msg3 (fields whee, woot, waga in that order, ints)
//   Q<n> k<hex> S3 .. gendemo Map__String__Msg3
//   I<hex> Z<hex>     gendemo Int / String
//   T<hex(engine:type)> <val..>  a node of a typed engine (node_typed.go) for the schema type, holding the value
//   F<hex(engine:type:key)> <val..>  the child looked up under key in such a node (a field of a struct, a map value)
//   K<hex(engine:type:key)> <val..>  the key node its map iterator yields for key
//   (engines ending in "r": the representation-level node of it)
import (
	"errors"
	"fmt"
	"math/big"
	"strconv"
	"strings"

	"github.com/ipld/go-ipld-prime/datamodel"
	"github.com/ipld/go-ipld-prime/node/basicnode"
	"github.com/ipld/go-ipld-prime/node/bindnode"
	"github.com/ipld/go-ipld-prime/node/gendemo"
	"github.com/ipld/go-ipld-prime/schema"
)

type NSpec struct {
	Tag byte
	Eng string // T: typed engine and schema type text
	Ty  string
	Key string // F, K
	V   *Val   // scalars; T, F, K: the value of the typed container
	L   []*NSpec
	K   []string // keys for m, M, S, Q
}

var Msg3Fields = []string{"whee", "woot", "waga"}

func (s *NSpec) Text() string {
	var sb strings.Builder
	s.text(&sb)
	return sb.String()
}

func (s *NSpec) text(sb *strings.Builder) {
	if sb.Len() > 0 {
		sb.WriteByte(' ')
	}
	switch s.Tag {
	case 'T':
		sb.WriteString("T" + Hex(s.Eng+":"+s.Ty) + " " + s.V.Text())
	case 'F', 'K':
		sb.WriteString(string(s.Tag) + Hex(s.Eng+":"+s.Ty+":"+s.Key) + " " + s.V.Text())
	case 'u':
		sb.WriteString("u" + s.V.I.Text(16))
	case 'I':
		sb.WriteString("I" + s.V.I.Text(16))
	case 'Z':
		sb.WriteString("Z" + Hex(s.V.S))
	case 'a', 'A':
		fmt.Fprintf(sb, "%c%d", s.Tag, len(s.L))
		for _, c := range s.L {
			c.text(sb)
		}
	case 'm', 'M', 'S', 'Q':
		fmt.Fprintf(sb, "%c%d", s.Tag, len(s.L))
		for i, c := range s.L {
			sb.WriteString(" k" + Hex(s.K[i]))
			c.text(sb)
		}
	default:
		sb.WriteString(s.V.Text())
	}
}

// Val returns the abstract value of the spec.
func (s *NSpec) Val() *Val {
	switch s.Tag {
	case 'K':
		return Str(s.Key)
	case 'F':
		for _, e := range s.V.M {
			if e.K == s.Key {
				return e.V
			}
		}
		return s.V
	case 'a', 'A':
		v := &Val{Kind: KList}
		for _, c := range s.L {
			v.L = append(v.L, c.Val())
		}
		return v
	case 'm', 'M', 'S', 'Q':
		v := &Val{Kind: KMap}
		for i, c := range s.L {
			v.M = append(v.M, Entry{s.K[i], c.Val()})
		}
		return v
	}
	return s.V
}

func parseNSpec(toks []string) (*NSpec, []string, error) {
	if len(toks) == 0 {
		return nil, nil, fmt.Errorf("eof")
	}
	t, rest := toks[0], toks[1:]
	body := t[1:]
	switch t[0] {
	case 'T':
		et := UnHex(body)
		i := strings.IndexByte(et, ':')
		v, rest2, err := parseVal(rest)
		if err != nil {
			return nil, nil, err
		}
		return &NSpec{Tag: 'T', Eng: et[:i], Ty: et[i+1:], V: v}, rest2, nil
	case 'F', 'K':
		et := UnHex(body)
		i := strings.IndexByte(et, ':')
		j := i + 1 + strings.IndexByte(et[i+1:], ':')
		v, rest2, err := parseVal(rest)
		if err != nil {
			return nil, nil, err
		}
		return &NSpec{Tag: t[0], Eng: et[:i], Ty: et[i+1 : j], Key: et[j+1:], V: v}, rest2, nil
	case 'u', 'I':
		i, ok := new(big.Int).SetString(body, 16)
		if !ok {
			return nil, nil, fmt.Errorf("bad int %q", t)
		}
		return &NSpec{Tag: t[0], V: &Val{Kind: KInt, I: i}}, rest, nil
	case 'Z':
		return &NSpec{Tag: 'Z', V: Str(UnHex(body))}, rest, nil
	case 'a', 'A':
		n, err := strconv.Atoi(body)
		if err != nil {
			return nil, nil, err
		}
		s := &NSpec{Tag: t[0]}
		for i := 0; i < n; i++ {
			var c *NSpec
			c, rest, err = parseNSpec(rest)
			if err != nil {
				return nil, nil, err
			}
			s.L = append(s.L, c)
		}
		return s, rest, nil
	case 'm', 'M', 'S', 'Q':
		n, err := strconv.Atoi(body)
		if err != nil {
			return nil, nil, err
		}
		s := &NSpec{Tag: t[0]}
		for i := 0; i < n; i++ {
			if len(rest) == 0 || rest[0][0] != 'k' {
				return nil, nil, fmt.Errorf("expected key")
			}
			s.K = append(s.K, UnHex(rest[0][1:]))
			var c *NSpec
			c, rest, err = parseNSpec(rest[1:])
			if err != nil {
				return nil, nil, err
			}
			s.L = append(s.L, c)
		}
		return s, rest, nil
	}
	v, rest2, err := parseVal(toks[:1])
	_ = rest2
	if err != nil {
		return nil, nil, err
	}
	return &NSpec{Tag: t[0], V: v}, rest, nil
}

// Build constructs the node.  Containers are filled through AssembleEntry/AssembleValue +
// AssignNode(child) so that children are kept as they are wherever the holder allows it.
func (s *NSpec) Build() (datamodel.Node, error) {
	switch s.Tag {
	case 'T', 'F', 'K':
		t, err := SchParse(s.Ty)
		if err != nil {
			return nil, err
		}
		nb, err := TypedBuilder(s.Eng, t)
		if err != nil || nb == nil {
			return nil, fmt.Errorf("no %s builder for %s: %v", s.Eng, s.Ty, err)
		}
		if err := Assemble(nb, s.V); err != nil {
			return nil, err
		}
		c := nb.Build()
		if TypedRepr(s.Eng) { // builders of the representation prototype hand back the type-level node
			if tn, ok := c.(schema.TypedNode); ok {
				c = tn.Representation()
			}
		}
		switch s.Tag {
		case 'F':
			return c.LookupByString(s.Key)
		case 'K':
			it := c.MapIterator()
			if it == nil {
				return nil, fmt.Errorf("K: not a map")
			}
			for !it.Done() {
				k, _, err := it.Next()
				if err != nil {
					return nil, err
				}
				if ks, err := k.AsString(); err == nil && ks == s.Key {
					return k, nil
				}
			}
			return nil, fmt.Errorf("K: key %q not yielded", s.Key)
		}
		return c, nil
	case 'u':
		return basicnode.NewUint(s.V.I.Uint64()), nil
	case 'I':
		nb := gendemo.Type.Int.NewBuilder()
		if err := nb.AssignInt(s.V.I.Int64()); err != nil {
			return nil, err
		}
		return nb.Build(), nil
	case 'Z':
		nb := gendemo.Type.String.NewBuilder()
		if err := nb.AssignString(s.V.S); err != nil {
			return nil, err
		}
		return nb.Build(), nil
	case 'a', 'A':
		var nb datamodel.NodeBuilder
		if s.Tag == 'a' {
			nb = basicnode.Prototype.Any.NewBuilder()
		} else {
			holderInit()
			nb = bindnode.Prototype((*[]datamodel.Node)(nil), holderLstType).NewBuilder()
		}
		la, err := nb.BeginList(int64(len(s.L)))
		if err != nil {
			return nil, err
		}
		for _, c := range s.L {
			cn, err := c.Build()
			if err != nil {
				return nil, err
			}
			if err := la.AssembleValue().AssignNode(cn); err != nil {
				return nil, err
			}
		}
		if err := la.Finish(); err != nil {
			return nil, err
		}
		return nb.Build(), nil
	case 'm', 'M', 'S', 'Q':
		var nb datamodel.NodeBuilder
		switch s.Tag {
		case 'm':
			nb = basicnode.Prototype.Any.NewBuilder()
		case 'M':
			holderInit()
			nb = bindnode.Prototype((*bindMapAny)(nil), holderMapType).NewBuilder()
		case 'S':
			nb = gendemo.Type.Msg3.NewBuilder()
		case 'Q':
			nb = gendemo.Type.Map__String__Msg3.NewBuilder()
		}
		ma, err := nb.BeginMap(int64(len(s.L)))
		if err != nil {
			return nil, err
		}
		for i, c := range s.L {
			cn, err := c.Build()
			if err != nil {
				return nil, err
			}
			va, err := ma.AssembleEntry(s.K[i])
			if err != nil {
				return nil, err
			}
			if err := va.AssignNode(cn); err != nil {
				return nil, err
			}
		}
		if err := ma.Finish(); err != nil {
			return nil, err
		}
		return nb.Build(), nil
	}
	return ScalarNode(s.V)
}

// PlainSpec is the all-basicnode spec of a value.
func PlainSpec(v *Val) *NSpec {
	switch v.Kind {
	case KInt:
		if v.I.Cmp(two63) >= 0 {
			return &NSpec{Tag: 'u', V: v}
		}
		return &NSpec{Tag: 'i', V: v}
	case KList:
		s := &NSpec{Tag: 'a'}
		for _, x := range v.L {
			s.L = append(s.L, PlainSpec(x))
		}
		return s
	case KMap:
		s := &NSpec{Tag: 'm'}
		for _, e := range v.M {
			s.K = append(s.K, e.K)
			s.L = append(s.L, PlainSpec(e.V))
		}
		return s
	}
	return &NSpec{Tag: v.Text()[0], V: v}
}

func hasNullChild(v *Val) bool {
	for _, x := range v.L {
		if x.Kind == KNull {
			return true
		}
	}
	for _, e := range v.M {
		if e.V.Kind == KNull {
			return true
		}
	}
	return false
}

func isMsg3(v *Val) bool {
	if v.Kind != KMap || len(v.M) != 3 {
		return false
	}
	for i, e := range v.M {
		if e.K != Msg3Fields[i] || e.V.Kind != KInt || e.V.I.Cmp(two63) >= 0 {
			return false
		}
	}
	return true
}

func msg3Spec(v *Val) *NSpec {
	s := &NSpec{Tag: 'S'}
	for _, e := range v.M {
		s.K = append(s.K, e.K)
		s.L = append(s.L, &NSpec{Tag: 'i', V: e.V})
	}
	return s
}

// GenSpec picks, per container, which implementation holds it.  foreignOK is false directly under
// a bindnode container: bindnode copies an assigned container child into a fresh basicnode one.
func (r *Rng) GenSpec(v *Val, foreignOK bool) *NSpec {
	switch v.Kind {
	case KList:
		tag := byte('a')
		if foreignOK && !hasNullChild(v) && r.Chance(40) {
			tag = 'A'
		}
		s := &NSpec{Tag: tag}
		for _, x := range v.L {
			s.L = append(s.L, r.GenSpec(x, tag == 'a'))
		}
		return s
	case KMap:
		if foreignOK && isMsg3(v) && r.Chance(70) {
			return msg3Spec(v)
		}
		if foreignOK && len(v.M) > 0 && r.Chance(50) {
			all := true
			for _, e := range v.M {
				if !isMsg3(e.V) {
					all = false
				}
			}
			if all {
				s := &NSpec{Tag: 'Q'}
				for _, e := range v.M {
					s.K = append(s.K, e.K)
					s.L = append(s.L, msg3Spec(e.V))
				}
				return s
			}
		}
		tag := byte('m')
		if foreignOK && !hasNullChild(v) && r.Chance(40) {
			tag = 'M'
		}
		s := &NSpec{Tag: tag}
		for _, e := range v.M {
			s.K = append(s.K, e.K)
			s.L = append(s.L, r.GenSpec(e.V, tag == 'm'))
		}
		return s
	case KInt:
		if v.I.Cmp(two63) < 0 && foreignOK && r.Chance(10) {
			return &NSpec{Tag: 'I', V: v}
		}
	case KString:
		if foreignOK && r.Chance(10) {
			return &NSpec{Tag: 'Z', V: v}
		}
	}
	return PlainSpec(v)
}

// ---------------------------------------------------------------- scripts

// Op is one assembler call.  Tokens:
//   BM<dec> BL<dec> AK AV AE<hex> FI  Xn Xt Xf Xi<hex> Xd<bits> Xs<hex> Xb<hex> Xl<hex>  XN <node..>
// A token may carry the expected result class after '!' (C12 annotations): AE6b!r
type Op struct {
	Code string // BM BL AK AV AE FI X XN
	Hint int64
	Key  string
	V    *Val   // X
	N    *NSpec // XN
	Want string // "" (= ok) or a class letter
}

func (o *Op) Text() string {
	var s string
	switch o.Code {
	case "BM", "BL":
		s = o.Code + strconv.FormatInt(o.Hint, 10)
	case "AE":
		s = "AE" + Hex(o.Key)
	case "X":
		s = "X" + o.V.Text()
	case "XN":
		s = "XN"
	default:
		s = o.Code
	}
	if o.Want != "" {
		s += "!" + o.Want
	}
	if o.Code == "XN" {
		s += " " + o.N.Text()
	}
	return s
}

func ScriptText(ops []*Op) string {
	parts := make([]string, len(ops))
	for i, o := range ops {
		parts[i] = o.Text()
	}
	return strings.Join(parts, " ")
}

func ParseScript(s string) ([]*Op, error) {
	toks := strings.Fields(s)
	var ops []*Op
	for len(toks) > 0 {
		t := toks[0]
		toks = toks[1:]
		want := ""
		if i := strings.IndexByte(t, '!'); i >= 0 {
			want = t[i+1:]
			t = t[:i]
		}
		if len(t) < 2 {
			return nil, fmt.Errorf("bad op %q", t)
		}
		o := &Op{Want: want}
		switch {
		case t == "AK" || t == "AV" || t == "FI":
			o.Code = t
		case strings.HasPrefix(t, "BM") || strings.HasPrefix(t, "BL"):
			o.Code = t[:2]
			h, err := strconv.ParseInt(t[2:], 10, 64)
			if err != nil {
				return nil, err
			}
			o.Hint = h
		case strings.HasPrefix(t, "AE"):
			o.Code = "AE"
			o.Key = UnHex(t[2:])
		case t == "XN":
			o.Code = "XN"
			n, rest, err := parseNSpec(toks)
			if err != nil {
				return nil, err
			}
			o.N = n
			toks = rest
		case t[0] == 'X':
			o.Code = "X"
			v, err := ParseVal(t[1:])
			if err != nil {
				return nil, err
			}
			o.V = v
		default:
			return nil, fmt.Errorf("bad op %q", t)
		}
		ops = append(ops, o)
	}
	return ops, nil
}

// ErrLetter maps an error of the node / assembler API onto the model's classes.
func ErrLetter(err error) string {
	if err == nil {
		return "."
	}
	if IsPanic(err) {
		return "P"
	}
	var wk datamodel.ErrWrongKind
	if errors.As(err, &wk) {
		return "w"
	}
	var rk datamodel.ErrRepeatedMapKey
	if errors.As(err, &rk) {
		return "r"
	}
	var prk *datamodel.ErrRepeatedMapKey
	if errors.As(err, &prk) {
		return "r"
	}
	var ne datamodel.ErrNotExists
	if errors.As(err, &ne) {
		return "e"
	}
	var is datamodel.ErrInvalidSegmentForList
	if errors.As(err, &is) {
		return "g"
	}
	var ov datamodel.ErrIteratorOverread
	if errors.As(err, &ov) {
		return "v"
	}
	var ik schema.ErrInvalidKey
	if errors.As(err, &ik) {
		return "k"
	}
	var pik *schema.ErrInvalidKey
	if errors.As(err, &pik) {
		return "k"
	}
	var nf schema.ErrNoSuchField
	if errors.As(err, &nf) {
		return "k"
	}
	var mf schema.ErrMissingRequiredField
	if errors.As(err, &mf) {
		return "m"
	}
	return "o"
}

// Exec runs a script against a builder, one call at a time, each under Safely.  The call goes to
// the handle the protocol designates: the innermost open assembler.  Returns the per-call result
// letters ('.' ok, class letters, 'P' panic, 'X' no such handle) and whether the builder may be
// asked to Build (no panic / missing handle happened).  With tolerant=false it stops at the
// first call that is not ok.
type execFrame struct {
	ma datamodel.MapAssembler
	la datamodel.ListAssembler
}

func Exec(nb datamodel.NodeBuilder, ops []*Op, tolerant bool) (string, bool) {
	var tr strings.Builder
	var stack []execFrame
	var cur datamodel.NodeAssembler = nb // the NodeAssembler handle that is current, if any
	curIsKey := false
	valueDone := func() { // the value for the innermost open position has arrived
		if len(stack) == 0 {
			cur = nb
		} else {
			cur = nil
		}
		curIsKey = false
	}
	for _, o := range ops {
		letter := "."
		switch o.Code {
		case "BM", "BL", "X", "XN":
			if cur == nil {
				tr.WriteString("X")
				return tr.String(), false
			}
			na := cur
			var err error
			switch o.Code {
			case "BM":
				var ma datamodel.MapAssembler
				err = Safely(func() error { var e error; ma, e = na.BeginMap(o.Hint); return e })
				if err == nil {
					stack = append(stack, execFrame{ma: ma})
					cur = nil
					curIsKey = false
				}
			case "BL":
				var la datamodel.ListAssembler
				err = Safely(func() error { var e error; la, e = na.BeginList(o.Hint); return e })
				if err == nil {
					stack = append(stack, execFrame{la: la})
					cur = nil
					curIsKey = false
				}
			default:
				if o.Code == "XN" {
					var n datamodel.Node
					n, err = o.N.Build()
					if err != nil {
						tr.WriteString("B") // the argument could not be built: a harness problem
						return tr.String(), false
					}
					err = Safely(func() error { return na.AssignNode(n) })
				} else {
					err = Safely(func() error { return assignScalar(na, o.V) })
				}
				if err == nil {
					if curIsKey {
						cur = nil
						curIsKey = false
					} else {
						valueDone()
					}
				}
			}
			letter = ErrLetter(err)
			if letter == "r" && curIsKey {
				// a rejected key hands control back to the map assembler
				cur = nil
				curIsKey = false
			}
		case "AK", "AV", "AE", "FI":
			if len(stack) == 0 {
				tr.WriteString("X")
				return tr.String(), false
			}
			top := stack[len(stack)-1]
			if top.la != nil && (o.Code == "AK" || o.Code == "AE") {
				tr.WriteString("X")
				return tr.String(), false
			}
			var err error
			switch o.Code {
			case "AK":
				var na datamodel.NodeAssembler
				err = Safely(func() error { na = top.ma.AssembleKey(); return nil })
				if err == nil {
					cur = na
					curIsKey = true
				}
			case "AV":
				var na datamodel.NodeAssembler
				err = Safely(func() error {
					if top.ma != nil {
						na = top.ma.AssembleValue()
					} else {
						na = top.la.AssembleValue()
					}
					return nil
				})
				if err == nil {
					cur = na
					curIsKey = false
				}
			case "AE":
				var na datamodel.NodeAssembler
				err = Safely(func() error { var e error; na, e = top.ma.AssembleEntry(o.Key); return e })
				if err == nil {
					cur = na
					curIsKey = false
				}
			case "FI":
				err = Safely(func() error {
					if top.ma != nil {
						return top.ma.Finish()
					}
					return top.la.Finish()
				})
				if err == nil {
					stack = stack[:len(stack)-1]
					valueDone()
				}
			}
			letter = ErrLetter(err)
		}
		tr.WriteString(letter)
		if letter == "P" {
			return tr.String(), false
		}
		if letter != "." && !tolerant {
			return tr.String(), false
		}
	}
	return tr.String(), true
}

func assignScalar(na datamodel.NodeAssembler, v *Val) error {
	switch v.Kind {
	case KNull, KBool, KInt, KFloat, KString, KBytes, KLink:
		if v.Kind == KInt && v.I.Cmp(two63) >= 0 {
			return fmt.Errorf("AssignInt cannot carry %s", v.I.String())
		}
		return Assemble(na, v)
	}
	return fmt.Errorf("not a scalar")
}

// BuilderFor returns a fresh builder for a prototype name.
func BuilderFor(proto string) datamodel.NodeBuilder {
	switch proto {
	case "any":
		return basicnode.Prototype.Any.NewBuilder()
	case "map":
		return basicnode.Prototype.Map.NewBuilder()
	case "list":
		return basicnode.Prototype.List.NewBuilder()
	case "bool":
		return basicnode.Prototype.Bool.NewBuilder()
	case "int":
		return basicnode.Prototype.Int.NewBuilder()
	case "float":
		return basicnode.Prototype.Float.NewBuilder()
	case "string":
		return basicnode.Prototype.String.NewBuilder()
	case "bytes":
		return basicnode.Prototype.Bytes.NewBuilder()
	case "link":
		return basicnode.Prototype.Link.NewBuilder()
	case "bindmap":
		holderInit()
		return bindnode.Prototype((*bindMapAny)(nil), holderMapType).NewBuilder()
	case "bindlist":
		holderInit()
		return bindnode.Prototype((*[]datamodel.Node)(nil), holderLstType).NewBuilder()
	}
	panic("unknown prototype " + proto)
}
