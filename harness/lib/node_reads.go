package lib

// node_reads.go (cluster "node"): dump EVERY read form of a node, recursively for every container
// below it, as ';'-separated cells.  The OCaml drivers render the same cells from the extracted
// model (and from the specification).  Result cells: "=<Dump of the node>" or "!<class letter>".
import (
	"fmt"
	"math"
	"strconv"
	"strings"

	"github.com/ipld/go-ipld-prime/datamodel"
	"github.com/ipld/go-ipld-prime/node/basicnode"
)

var kindNames = map[datamodel.Kind]string{
	datamodel.Kind_Null: "null", datamodel.Kind_Bool: "bool", datamodel.Kind_Int: "int", datamodel.Kind_Float: "float",
	datamodel.Kind_String: "string", datamodel.Kind_Bytes: "bytes", datamodel.Kind_Link: "link",
	datamodel.Kind_List: "list", datamodel.Kind_Map: "map",
}

// MapAbsentProbes / ListSegProbes are fixed probe sets (the drivers hold the same lists).
var MapAbsentProbes = []string{"", "zz", "0", "1"}
var ListSegProbes = []string{"01", "+0", "-0", "", "x", "1_0", "0x1", " 1", "9223372036854775808", "00000000000000000000001"}

func lookRes(f func() (datamodel.Node, error)) string {
	var n datamodel.Node
	err := Safely(func() error { var e error; n, e = f(); return e })
	if err != nil {
		return "!" + ErrLetter(err)
	}
	return "=" + Dump(n)
}

func asLetters(n datamodel.Node) string {
	var sb strings.Builder
	sb.WriteString(ErrLetter(Safely(func() error { _, e := n.AsBool(); return e })))
	sb.WriteString(ErrLetter(Safely(func() error { _, e := n.AsInt(); return e })))
	sb.WriteString(ErrLetter(Safely(func() error { _, e := n.AsFloat(); return e })))
	sb.WriteString(ErrLetter(Safely(func() error { _, e := n.AsString(); return e })))
	sb.WriteString(ErrLetter(Safely(func() error { _, e := n.AsBytes(); return e })))
	sb.WriteString(ErrLetter(Safely(func() error { _, e := n.AsLink(); return e })))
	return sb.String()
}

// Reads renders all read forms of n and of every container below it.
func Reads(n datamodel.Node) string {
	var sb strings.Builder
	err := Safely(func() error { reads(&sb, n); return nil })
	if err != nil {
		sb.WriteString(";!P")
	}
	return sb.String()
}

func reads(sb *strings.Builder, n datamodel.Node) {
	kind := n.Kind()
	b01 := func(b bool) string {
		if b {
			return "1"
		}
		return "0"
	}
	fmt.Fprintf(sb, "(%s;L%d;as:%s;na:%s%s;", kindNames[kind], n.Length(), asLetters(n), b01(n.IsNull()), b01(n.IsAbsent()))
	var kids []datamodel.Node
	// map iteration
	sb.WriteString("mi:")
	var keys []string
	if mi := n.MapIterator(); mi == nil {
		sb.WriteString("nil")
	} else {
		sb.WriteString("[")
		for guard := 0; !mi.Done() && guard < 100000; guard++ {
			k, v, err := mi.Next()
			if err != nil {
				sb.WriteString("!" + ErrLetter(err))
				break
			}
			ks, err := k.AsString()
			if err != nil {
				sb.WriteString("!keystring")
				break
			}
			keys = append(keys, ks)
			kids = append(kids, v)
			sb.WriteString("k" + Hex(ks) + "=" + Dump(v) + ",")
		}
		sb.WriteString("]")
		sb.WriteString(ErrLetter(Safely(func() error { _, _, e := mi.Next(); return e })))
	}
	// a second pass that first COLLECTS every (key node, value node) pair and only then reads them:
	// a key node must stay what it was when the iterator moves on
	sb.WriteString(";rk:")
	if mi2 := n.MapIterator(); mi2 == nil {
		sb.WriteString("nil")
	} else {
		var rks, rvs []datamodel.Node
		for guard := 0; !mi2.Done() && guard < 100000; guard++ {
			k, v, err := mi2.Next()
			if err != nil {
				break
			}
			rks = append(rks, k)
			rvs = append(rvs, v)
		}
		sb.WriteString("[")
		for _, k := range rks {
			k := k
			ks := "!"
			_ = Safely(func() error {
				s, err := k.AsString()
				if err == nil && k.Kind() == datamodel.Kind_String {
					ks = "k" + Hex(s)
				}
				return nil
			})
			sb.WriteString(ks + ":" + lookRes(func() (datamodel.Node, error) { return n.LookupByNode(k) }) + ",")
		}
		sb.WriteString("]rb:")
		// re-assemble a map from the collected pairs and compare it with the source
		var eq bool
		err := Safely(func() error {
			nb := basicnode.Prototype.Map.NewBuilder()
			ma, err := nb.BeginMap(int64(len(rks)))
			if err != nil {
				return err
			}
			for i := range rks {
				if err := ma.AssembleKey().AssignNode(rks[i]); err != nil {
					return err
				}
				if err := ma.AssembleValue().AssignNode(rvs[i]); err != nil {
					return err
				}
			}
			if err := ma.Finish(); err != nil {
				return err
			}
			eq = datamodel.DeepEqual(nb.Build(), n)
			return nil
		})
		switch {
		case err != nil:
			sb.WriteString("!" + ErrLetter(err))
		case eq:
			sb.WriteString("T")
		default:
			sb.WriteString("F")
		}
	}
	sb.WriteString(";li:")
	nlist := 0
	if li := n.ListIterator(); li == nil {
		sb.WriteString("nil")
	} else {
		sb.WriteString("[")
		for guard := 0; !li.Done() && guard < 100000; guard++ {
			i, v, err := li.Next()
			if err != nil {
				sb.WriteString("!" + ErrLetter(err))
				break
			}
			nlist++
			kids = append(kids, v)
			sb.WriteString(strconv.FormatInt(i, 10) + "=" + Dump(v) + ",")
		}
		sb.WriteString("]")
		sb.WriteString(ErrLetter(Safely(func() error { _, _, e := li.Next(); return e })))
	}
	sb.WriteString(";lk:;")
	switch kind {
	case datamodel.Kind_Map:
		probes := append(append([]string{}, keys...), MapAbsentProbes...)
		for _, k := range probes {
			k := k
			sb.WriteString("k" + Hex(k) + ":" + lookRes(func() (datamodel.Node, error) { return n.LookupByString(k) }) + ";")
			sb.WriteString("n:" + lookRes(func() (datamodel.Node, error) { return n.LookupByNode(basicnode.NewString(k)) }) + ";")
			sb.WriteString("g:" + lookRes(func() (datamodel.Node, error) { return n.LookupBySegment(datamodel.PathSegmentOfString(k)) }) + ";")
		}
		sb.WriteString("ni:" + lookRes(func() (datamodel.Node, error) { return n.LookupByNode(basicnode.NewInt(0)) }) + ";")
		sb.WriteString("x0:" + lookRes(func() (datamodel.Node, error) { return n.LookupByIndex(0) }) + ";")
		sb.WriteString("gi0:" + lookRes(func() (datamodel.Node, error) { return n.LookupBySegment(datamodel.PathSegmentOfInt(0)) }) + ";")
		sb.WriteString("gi-1:" + lookRes(func() (datamodel.Node, error) { return n.LookupBySegment(datamodel.PathSegmentOfInt(-1)) }) + ";")
	case datamodel.Kind_List:
		var idxs []int64
		for i := 0; i < nlist && i < 40; i++ {
			idxs = append(idxs, int64(i))
		}
		ln := int64(nlist)
		idxs = append(idxs, -1, ln, ln+1, math.MaxInt64, math.MinInt64)
		for _, i := range idxs {
			i := i
			sb.WriteString("x" + strconv.FormatInt(i, 10) + ":" + lookRes(func() (datamodel.Node, error) { return n.LookupByIndex(i) }) + ";")
			sb.WriteString("gi:" + lookRes(func() (datamodel.Node, error) { return n.LookupBySegment(datamodel.PathSegmentOfInt(i)) }) + ";")
			sb.WriteString("gs:" + lookRes(func() (datamodel.Node, error) {
				return n.LookupBySegment(datamodel.PathSegmentOfString(strconv.FormatInt(i, 10)))
			}) + ";")
			sb.WriteString("n:" + lookRes(func() (datamodel.Node, error) { return n.LookupByNode(basicnode.NewInt(i)) }) + ";")
		}
		for _, s := range ListSegProbes {
			s := s
			sb.WriteString("s" + Hex(s) + ":" + lookRes(func() (datamodel.Node, error) { return n.LookupBySegment(datamodel.PathSegmentOfString(s)) }) + ";")
		}
		sb.WriteString("ks:" + lookRes(func() (datamodel.Node, error) { return n.LookupByString("0") }) + ";")
		sb.WriteString("ns:" + lookRes(func() (datamodel.Node, error) { return n.LookupByNode(basicnode.NewString("0")) }) + ";")
	default:
		sb.WriteString("ks:" + lookRes(func() (datamodel.Node, error) { return n.LookupByString("a") }) + ";")
		sb.WriteString("x0:" + lookRes(func() (datamodel.Node, error) { return n.LookupByIndex(0) }) + ";")
		sb.WriteString("n:" + lookRes(func() (datamodel.Node, error) { return n.LookupByNode(basicnode.NewString("a")) }) + ";")
		sb.WriteString("g:" + lookRes(func() (datamodel.Node, error) { return n.LookupBySegment(datamodel.PathSegmentOfString("a")) }) + ";")
	}
	sb.WriteString(")")
	for _, c := range kids {
		if c == nil {
			continue
		}
		if k := c.Kind(); k == datamodel.Kind_Map || k == datamodel.Kind_List {
			sb.WriteString(";")
			reads(sb, c)
		}
	}
}
