package lib

// Large blocks (MiB) for the link cluster.  Writing them out in hex in every record — and running
// the extracted model (Coq lists, Peano lengths) on them — is not feasible, so a large byte string
// travels under a NAME: a byte string in which the escape  F5 'B' 'I' 'G' <fill> <count: 4 bytes BE>
// stands for a run of <count> bytes <fill>.  Expansion is a homomorphism for concatenation
// (expand(a ++ b) = expand(a) ++ expand(b)), the model is run on the names, and its parameters are
// given on names: H(name) = the real digest of expand(name), and for the table-modelled codecs
// E / D entries are keyed by names.  This is sound for the LinkSystem model because it is parametric
// in the hash and, for these cases, uses the block only through the hash, the codec tables and
// equality (raw: the bytes node is the block) — never through its individual bytes.

import (
	"crypto/sha256"
	"encoding/binary"
	"strings"

	"github.com/ipld/go-ipld-prime/datamodel"
)

const lkEsc = "\xf5BIG"

// lkBigMin: byte strings longer than this are printed by name.
const lkBigMin = 16 << 10

// LkRun is the name of n bytes b.
func LkRun(b byte, n int) string {
	var c [4]byte
	binary.BigEndian.PutUint32(c[:], uint32(n))
	return lkEsc + string([]byte{b}) + string(c[:])
}

// lkSegments walks a name: literal pieces and runs.
func lkSegments(name string, lit func(string), run func(fill byte, n int)) {
	for {
		i := strings.Index(name, lkEsc)
		if i < 0 || len(name) < i+len(lkEsc)+5 {
			lit(name)
			return
		}
		lit(name[:i])
		fill := name[i+len(lkEsc)]
		n := int(binary.BigEndian.Uint32([]byte(name[i+len(lkEsc)+1 : i+len(lkEsc)+5])))
		run(fill, n)
		name = name[i+len(lkEsc)+5:]
	}
}

// LkExpandBytes expands the escapes of a name (one allocation of the final size).
func LkExpandBytes(name string) []byte {
	total := 0
	lkSegments(name, func(l string) { total += len(l) }, func(_ byte, n int) { total += n })
	out := make([]byte, 0, total)
	lkSegments(name, func(l string) { out = append(out, l...) }, func(fill byte, n int) {
		k := len(out)
		out = out[:k+n]
		if fill != 0 {
			seg := out[k : k+n]
			for j := range seg {
				seg[j] = fill
			}
		}
	})
	return out
}

// LkExpand expands the escapes of a name.
func LkExpand(name string) string {
	if !strings.Contains(name, lkEsc) {
		return name
	}
	return string(LkExpandBytes(name))
}

var lkNames = map[[32]byte]string{}

// LkRegisterBytes expands a name and remembers it, so that the content is printed under it.
func LkRegisterBytes(name string) []byte {
	real := LkExpandBytes(name)
	if len(real) > lkBigMin {
		lkNames[sha256.Sum256(real)] = name
	}
	return real
}

// LkRegister is LkRegisterBytes for strings.
func LkRegister(name string) string {
	if !strings.Contains(name, lkEsc) {
		return name
	}
	return string(LkRegisterBytes(name))
}

// LkNameOf returns the name a byte string is printed under (itself when small).
func LkNameOf(data string) (string, bool) {
	if len(data) <= lkBigMin {
		return data, true
	}
	return LkNameOfBytes([]byte(data))
}

// LkNameOfBytes is LkNameOf without copying a large slice.
func LkNameOfBytes(data []byte) (string, bool) {
	if len(data) <= lkBigMin {
		return string(data), true
	}
	n, ok := lkNames[sha256.Sum256(data)]
	return n, ok
}

// LkHexBytes is LkHex without copying a large slice.
func LkHexBytes(data []byte) string {
	n, ok := LkNameOfBytes(data)
	if !ok {
		d := sha256.Sum256(data)
		return "!" + Hex(string(d[:]))
	}
	return Hex(n)
}

// LkRegisterConcat: a large byte string that is the concatenation of pieces (the Write calls of an
// encoder, the chunks of a stream) goes under the concatenation of their names.
func LkRegisterConcat(pieces [][]byte) {
	total := 0
	for _, p := range pieces {
		total += len(p)
	}
	if total <= lkBigMin {
		return
	}
	var name, real strings.Builder
	for _, p := range pieces {
		n, ok := LkNameOfBytes(p)
		if !ok {
			return
		}
		name.WriteString(n)
		real.Write(p)
	}
	k := sha256.Sum256([]byte(real.String()))
	if _, ok := lkNames[k]; !ok {
		lkNames[k] = name.String()
	}
}

// LkHex: hex of a byte string, by name when it is large ("!" + digest when it has no name: the
// implementation produced large bytes nobody expected).
func LkHex(data string) string {
	n, ok := LkNameOf(data)
	if !ok {
		d := sha256.Sum256([]byte(data))
		return "!" + Hex(string(d[:]))
	}
	return Hex(n)
}

// LkDump is Dump, except that a large top-level bytes / string node is printed by name.
func LkDump(n datamodel.Node) string {
	if n != nil {
		switch n.Kind() {
		case datamodel.Kind_Bytes:
			if b, err := n.AsBytes(); err == nil && len(b) > lkBigMin {
				return "b" + LkHexBytes(b)
			}
		case datamodel.Kind_String:
			if s, err := n.AsString(); err == nil && len(s) > lkBigMin {
				return "s" + LkHex(s)
			}
		}
	}
	return Dump(n)
}
