# vlib/core.py — shared machinery of ./check (python3 stdlib only).
#
# Flow per property (DESIGN.md §2.3):
#   lock -> gotrans (regenerate coq/Gen/FromGo.v from /repo) -> coq make of the property's cone
#   -> coqc Props/Cxx.v (Print Assumptions captured) -> extraction + OCaml driver build
#   -> go build of the harness against /repo -> unlock
#   -> harness run (implementation observations) -> model run (model observation + oracle)
#   -> compare -> known-findings filter -> search when a tie is broken -> evidence + verdict.
import fcntl, glob, hashlib, importlib, json, os, re, shutil, subprocess, sys, time

ROOT = os.path.dirname(os.path.dirname(os.path.abspath(__file__)))
REPO = os.environ.get("VERIF_REPO", "/repo")
BUILD = os.path.join(ROOT, "build")
COQ = os.path.join(ROOT, "coq")
BIN = os.path.join(BUILD, "bin")
NPROC = str(os.cpu_count() or 4)

FORBIDDEN = re.compile(r"\b(Admitted|admit|Axiom|Axioms|Parameter|Parameters|Conjecture|Conjectures|"
                       r"Hypothesis|Hypotheses|Variable|Variables|Admit Obligations)\b|Unset Guard|"
                       r"bypass_check|type-in-type|impredicative-set|Unset Universe|Unset Positivity")


def log(*a):
    print(*a, file=sys.stderr, flush=True)


def sh(cmd, cwd=None, timeout=1200, env=None, inp=None):
    """run a command, return (rc, stdout+stderr)"""
    e = dict(os.environ)
    if env:
        e.update(env)
    try:
        p = subprocess.run(cmd, cwd=cwd, env=e, input=inp, stdout=subprocess.PIPE,
                           stderr=subprocess.STDOUT, timeout=timeout,
                           shell=isinstance(cmd, str), text=True, errors="replace")
        return p.returncode, p.stdout
    except subprocess.TimeoutExpired as ex:
        out = ex.stdout if isinstance(ex.stdout, str) else (ex.stdout or b"").decode("utf8", "replace")
        return 124, out + "\n[timeout after %ss]" % timeout


def goenv():
    e = {"GOFLAGS": "-mod=mod", "GOPROXY": "off", "CGO_ENABLED": os.environ.get("CGO_ENABLED", "1")}
    # GOTOOLCHAIN stays as configured (auto): /repo's go.mod selects the cached toolchain.
    for k in ("GOSUMDB", "GOTOOLCHAIN"):
        if k in os.environ:
            e[k] = ""
    env = dict(os.environ)
    env.pop("GOSUMDB", None)
    env.pop("GOTOOLCHAIN", None)
    env.update({k: v for k, v in e.items() if v != ""})
    return env


class Lock:
    def __init__(self, name="build"):
        os.makedirs(BUILD, exist_ok=True)
        self.path = os.path.join(BUILD, "." + name + ".lock")

    def __enter__(self):
        self.f = open(self.path, "w")
        fcntl.flock(self.f, fcntl.LOCK_EX)
        return self

    def __exit__(self, *a):
        fcntl.flock(self.f, fcntl.LOCK_UN)
        self.f.close()


# ----------------------------------------------------------------------------- gotrans

def run_gotrans():
    """Regenerate coq/Gen/FromGo.v from /repo.  Returns (ok, message).  On failure the previous
    (committed) FromGo.v is left in place so that the models still build; the caller treats the
    failure as a broken tie."""
    gdir = os.path.join(ROOT, "gotrans")
    exe = os.path.join(BIN, "gotrans")
    os.makedirs(BIN, exist_ok=True)
    env = dict(os.environ)
    env.update({"GOFLAGS": "-mod=mod", "GOPROXY": "off", "GO111MODULE": "on"})
    env.pop("GOSUMDB", None)
    rc, out = sh(["go", "build", "-o", exe, "."], cwd=gdir, env=env, timeout=300)
    if rc != 0:
        return False, "gotrans build failed:\n" + out
    tmp = os.path.join(BUILD, "FromGo.v.new")
    rc, out = sh([exe, "-repo", REPO, "-out", tmp, "-manifest", os.path.join(BUILD, "gotrans.json")], timeout=120)
    if rc != 0:
        return False, "gotrans could not translate the current source:\n" + out
    dst = os.path.join(COQ, "Gen", "FromGo.v")
    new = open(tmp).read()
    old = open(dst).read() if os.path.exists(dst) else None
    if new != old:
        open(dst, "w").write(new)
        return True, "FromGo.v regenerated (changed)"
    return True, "FromGo.v regenerated (unchanged)"


# ----------------------------------------------------------------------------- coq

def coq_files():
    fs = []
    for p in glob.glob(os.path.join(COQ, "**", "*.v"), recursive=True):
        rel = os.path.relpath(p, COQ)
        if rel.startswith("Extract" + os.sep) or rel.startswith("Scratch" + os.sep):
            continue
        fs.append(rel)
    return sorted(fs)


def coq_project():
    files = coq_files()
    content = "-R . IP\n-arg -w -arg -notation-overridden,-deprecated-hint-without-locality,-deprecated-instance-without-locality\n" + "\n".join(files) + "\n"
    proj = os.path.join(COQ, "_CoqProject")
    mk = os.path.join(COQ, "Makefile.coq")
    if not os.path.exists(proj) or open(proj).read() != content or not os.path.exists(mk):
        open(proj, "w").write(content)
        rc, out = sh(["coq_makefile", "-f", "_CoqProject", "-o", "Makefile.coq"], cwd=COQ)
        if rc != 0:
            raise RuntimeError("coq_makefile failed: " + out)


def coq_make(targets, timeout=2400):
    coq_project()
    cmd = ["make", "-f", "Makefile.coq", "-j", NPROC] + list(targets)
    rc, out = sh(cmd, cwd=COQ, timeout=timeout)
    return rc == 0, out


def coq_deps():
    """dependency graph of .vo files from .Makefile.coq.d"""
    g = {}
    p = os.path.join(COQ, ".Makefile.coq.d")
    if not os.path.exists(p):
        return g
    for line in open(p).read().replace("\\\n", " ").split("\n"):
        if ":" not in line:
            continue
        lhs, rhs = line.split(":", 1)
        tg = [x for x in lhs.split() if x.endswith(".vo")]
        deps = [x for x in rhs.split() if x.endswith(".vo")]
        for t in tg:
            g.setdefault(t, set()).update(deps)
    return g


def coq_cone(targets):
    g = coq_deps()
    seen = set()
    todo = list(targets)
    while todo:
        t = todo.pop()
        if t in seen:
            continue
        seen.add(t)
        todo.extend(g.get(t, ()))
    return sorted(x[:-1] for x in seen)  # .vo -> .v


def coq_gate(files=None):
    """grep gate: no file in the property's cone may declare an axiom, admit a proof or switch off a
    check.  (Variable/Hypothesis are allowed only inside a Section.)"""
    bad = []
    if files is None:
        files = coq_files() + [os.path.relpath(p, COQ) for p in glob.glob(os.path.join(COQ, "Extract", "*.v"))]
    for rel in files:
        if not os.path.exists(os.path.join(COQ, rel)):
            continue
        depth = 0
        text = open(os.path.join(COQ, rel)).read()
        text = re.sub(r"\(\*.*?\*\)", lambda m: "\n" * m.group(0).count("\n"), text, flags=re.S)
        for ln, line in enumerate(text.split("\n"), 1):
            if re.match(r"\s*Section\b", line):
                depth += 1
            if re.match(r"\s*End\b", line) and depth > 0:
                depth -= 1
            for m in FORBIDDEN.finditer(line):
                w = m.group(0)
                if w in ("Variable", "Variables", "Hypothesis", "Hypotheses") and depth > 0:
                    continue
                bad.append("%s:%d: %s" % (rel, ln, w))
    return bad


ASSUME_RE = re.compile(r"^(Closed under the global context|Axioms:)", re.M)


def coq_props(pid):
    """Compile Props/<pid>.v directly (its dependencies are built) and parse theorem names and the
    Print Assumptions blocks.  Returns dict(ok, theorems=[...], axioms=[...], log)."""
    rel = os.path.join("Props", pid + ".v")
    src = open(os.path.join(COQ, rel)).read()
    src_nc = re.sub(r"\(\*.*?\*\)", "", src, flags=re.S)
    theorems = re.findall(r"^\s*(?:Theorem|Corollary)\s+([A-Za-z0-9_']+)", src_nc, flags=re.M)
    rc, out = sh(["coqc", "-R", ".", "IP", "-w", "-notation-overridden", rel], cwd=COQ, timeout=900)
    axioms = []
    closed = 0
    if rc == 0:
        blocks = re.split(r"(?=^Closed under the global context|^Axioms:)", out, flags=re.M)
        for b in blocks:
            if b.startswith("Closed under"):
                closed += 1
            elif b.startswith("Axioms:"):
                for m in re.finditer(r"^([A-Za-z0-9_.']+)\s*:", b[len("Axioms:"):], flags=re.M):
                    if m.group(1) not in axioms:
                        axioms.append(m.group(1))
    return {"ok": rc == 0, "theorems": theorems, "axioms": axioms, "closed_blocks": closed, "log": out}


# ----------------------------------------------------------------------------- extraction / ocaml

def newest(paths):
    return max([os.path.getmtime(p) for p in paths if os.path.exists(p)] or [0])


def build_model(cluster, extract_v, drivers, model_deps):
    """Extract the cluster's model to build/ml/<cluster>/model.ml and build each OCaml driver.
    model_deps: .v files (relative to coq/) whose .vo must be built first."""
    d = os.path.join(BUILD, "ml", cluster)
    os.makedirs(d, exist_ok=True)
    # everything the extraction file itself requires must be built too (not only the declared model files)
    model_deps = list(model_deps)
    try:
        txt = re.sub(r"\(\*.*?\*\)", "", open(os.path.join(COQ, "Extract", extract_v)).read(), flags=re.S)
        for m in re.finditer(r"\bIP\.([A-Za-z0-9_]+)\.([A-Za-z0-9_]+)", txt):
            f = "%s/%s.v" % (m.group(1), m.group(2))
            if os.path.exists(os.path.join(COQ, f)) and f not in model_deps:
                model_deps.append(f)
    except OSError:
        pass
    ok, out = coq_make([f[:-2] + ".vo" for f in model_deps])
    if not ok:
        return False, "model files do not compile:\n" + out[-4000:]
    ev = os.path.join(COQ, "Extract", extract_v)
    model_ml = os.path.join(d, "model.ml")
    vos = [os.path.join(COQ, f[:-2] + ".vo") for f in model_deps] + [ev]
    if not os.path.exists(model_ml) or os.path.getmtime(model_ml) < newest(vos):
        rc, out = sh(["coqc", "-R", COQ, "IP", "-w", "-extraction-opaque-accessed,-extraction-reserved-identifier,-notation-overridden", ev], cwd=d, timeout=600)
        if rc != 0:
            return False, "extraction failed:\n" + out[-4000:]
    for drv in drivers:
        exe = os.path.join(d, drv)
        srcs = [os.path.join(ROOT, "ocaml", "dmio.ml"), os.path.join(ROOT, "ocaml", drv + ".ml")]
        if not os.path.exists(exe) or os.path.getmtime(exe) < newest(srcs + [model_ml]):
            for s in srcs:
                shutil.copy(s, d)
            rc, out = sh(["ocamlfind", "ocamlopt", "-O3", "-w", "-a",
                          "model.mli", "model.ml", "dmio.ml", drv + ".ml", "-o", drv], cwd=d, timeout=600)
            if rc != 0:
                return False, "ocaml build of %s failed:\n%s" % (drv, out[-4000:])
    return True, ""


# ----------------------------------------------------------------------------- go harness

def build_harness(cmds, race=False):
    h = os.path.join(ROOT, "harness")
    shutil.copy(os.path.join(REPO, "go.sum"), os.path.join(h, "go.sum"))
    os.makedirs(BIN, exist_ok=True)
    args = ["go", "build", "-tags", "verif"]
    if os.path.realpath(REPO) != "/repo":
        # alternative source tree (mutation testing in a scratch worktree): same module, other replace
        alt = os.path.join(BUILD, "altmod")
        os.makedirs(alt, exist_ok=True)
        gm = open(os.path.join(h, "go.mod")).read().replace("=> /repo", "=> " + os.path.realpath(REPO))
        open(os.path.join(alt, "go.mod"), "w").write(gm)
        shutil.copy(os.path.join(REPO, "go.sum"), os.path.join(alt, "go.sum"))
        args.append("-modfile=" + os.path.join(alt, "go.mod"))
    if race:
        args.append("-race")
    outdir = BIN + ("-race" if race else "") + os.sep
    os.makedirs(outdir, exist_ok=True)
    args += ["-o", outdir] + ["./cmd/" + c for c in cmds]
    rc, out = sh(args, cwd=h, env=goenv(), timeout=900)
    out = "\n".join(l for l in out.split("\n") if "conda" not in l)
    return rc == 0, out


# ----------------------------------------------------------------------------- known findings

def load_known():
    p = os.path.join(ROOT, "known_findings.json")
    if not os.path.exists(p):
        return []
    return json.load(open(p))["findings"]


def merge_known():
    """known_findings.json is the committed file the checks read; it is assembled from the
    per-property files in known_findings.d/ by `./check --manifest` (never at check time)."""
    out = []
    for p in sorted(glob.glob(os.path.join(ROOT, "known_findings.d", "*.json"))):
        out.extend(json.load(open(p)))
    json.dump({"findings": out}, open(os.path.join(ROOT, "known_findings.json"), "w"), indent=1)


# ----------------------------------------------------------------------------- evidence

def write_evidence(pid, ev):
    os.makedirs(os.path.join(ROOT, "evidence"), exist_ok=True)
    p = os.path.join(ROOT, "evidence", pid + ".json")
    tmp = p + ".tmp"
    json.dump(ev, open(tmp, "w"), indent=1, sort_keys=True)
    os.replace(tmp, p)


def write_replay(pid, obj):
    d = os.path.join(ROOT, "replays")
    os.makedirs(d, exist_ok=True)
    n = 1
    while os.path.exists(os.path.join(d, "%s-%d.json" % (pid, n))):
        n += 1
    p = os.path.join(d, "%s-%d.json" % (pid, n))
    json.dump(obj, open(p, "w"), indent=1)
    return p
