# vlib/schema_gen_extra.py — the runtime obligations of the schema cluster that concern freshly generated
# code (C08, C09, C13): "the generated package compiles" is CHECKED on every run, not proved.  The
# harnesses (harness/schgen) write build/gen/status-<cmd>-<tier>-s<seed>.json; C13 also writes the
# AssignNode comparison build/gen/nodediff-<run>.json.
import json, os
from . import core


def compiles(cmd, ctx):
    run = "%s-%s-s%d" % (cmd, ctx.tier, ctx.seed)
    sp = os.path.join(core.BUILD, "gen", "status-%s.json" % run)
    name = "generated package compiles (fresh code from the working tree's generator, go build) — checked, not proved"
    try:
        st = json.load(open(sp))
    except Exception as e:
        # a replay run writes status-<cmd>-replay.json
        try:
            st = json.load(open(os.path.join(core.BUILD, "gen", "status-%s-replay.json" % cmd)))
        except Exception:
            return [], [{"name": name, "ok": False, "info": "no status file %s: %s" % (sp, e)}]
    bad = [b for b in st if not (b.get("generated") and b.get("compiled"))]
    info = {"batches": len(st), "schemas": sum(b["schemas"] for b in st), "lines": sum(b["lines"] for b in st),
            "generate_s": round(sum(b["gen_s"] for b in st), 2), "build_s": round(sum(b["build_s"] for b in st), 2)}
    adj = [b for b in st if b.get("adj")]
    if adj:
        info["adjunct_variant"] = {"batches": len(adj), "schemas": sum(b["schemas"] for b in adj), "overrides": adj[0]["adj"]}
    if bad:
        # the compiler's (or generator's) first complaint leads, so that it survives into the replay file's
        # broken_obligations; the cases of the batch come back "nobuild" and are the failing inputs
        msg = [l for l in bad[0].get("log", "").split("\n") if l and not l.startswith(("go build:", "#"))]
        info = dict([("compiler", (msg[0] if msg else bad[0].get("log", ""))[:280]), ("batch", bad[0]["dir"]), ("adjunct_cfg", bad[0].get("adj") or "union memory layouts only")] + list(info.items()))
        info["log"] = bad[0].get("log", "")[:1500]
    return st, [{"name": name, "ok": not bad, "info": info}]


def assignnode(cmd, ctx, st):
    run = "%s-%s-s%d" % (cmd, ctx.tier, ctx.seed)
    try:
        nd = json.load(open(os.path.join(core.BUILD, "gen", "nodediff-%s.json" % run))) or []
    except Exception:
        nd = []
    fails = []
    for d in nd:
        flip = d["direct"][:2] != d["node"][:2] and d["node"] != "panic"      # ok <-> err
        if d.get("safe") or flip:
            # neither a typed map nor a recursive value behind a Maybe: nothing of the known defect applies;
            # and the known defect panics or leaves an unreadable node, it never turns a verdict round
            cls = "gen_assignnode_unexplained"
        elif d["node"] == "panic":
            cls = "gen_assignnode_panic" if d.get("map") else "gen_assignnode_maybe_nil"
        else:
            cls = "gen_assignnode_differs"
        fails.append({"case": d["case"], "classes": [cls], "verdict": "fail:" + cls})
    runs = sum(b.get("node_runs", 0) for b in st)
    return [{"name": "generated builders: AssignNode(basicnode tree) == plain call sequence (%d runs) — checked, not modelled" % runs,
             # discharged = the comparison was carried out; every difference found is a failure record of
             # its own (known finding or violation), like oracle failures of the correspondence run
             "ok": runs > 0 or not any(b.get("compiled") for b in st),  # nothing compiled: that obligation reports it
              "info": {"differences": len(fails)}, "failures": fails[:50]}]
