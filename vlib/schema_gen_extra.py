# vlib/schema_gen_extra.py — the runtime obligations of the schema cluster that concern freshly generated
# code (C08, C09, C13): "the generated package compiles" is CHECKED on every run, not proved.  The
# harnesses (harness/schgen) write build/gen/status-<cmd>-<tier>-s<seed>.json; C13 also writes the
# AssignNode comparison build/gen/nodediff-<run>.json.
import json, os
from . import core


def compiles(cmd, ctx):
    run = "%s-%s-s%d" % (cmd, ctx.tier, ctx.seed)
    sp = os.path.join(core.BUILD, "gen", "status-%s.json" % run)
    name = "generated package compiles (fresh code from the working tree's generator, go build) — checked, not proved"
    try:
        st = json.load(open(sp))
    except Exception as e:
        # a replay run writes status-<cmd>-replay.json
        try:
            st = json.load(open(os.path.join(core.BUILD, "gen", "status-%s-replay.json" % cmd)))
        except Exception:
            return [], [{"name": name, "ok": False, "info": "no status file %s: %s" % (sp, e)}]
    bad = [b for b in st if not (b.get("generated") and b.get("compiled"))]
    info = {"batches": len(st), "schemas": sum(b["schemas"] for b in st), "lines": sum(b["lines"] for b in st),
            "generate_s": round(sum(b["gen_s"] for b in st), 2), "build_s": round(sum(b["build_s"] for b in st), 2)}
    if bad:
        info["log"] = bad[0].get("log", "")[:1500]
    return st, [{"name": name, "ok": not bad, "info": info,
                 "failures": [{"case": ["batch", b["dir"], b.get("log", "")[:400]], "classes": ["gen_does_not_compile"],
                               "verdict": "fail:gen_does_not_compile"} for b in bad]}]


def assignnode(cmd, ctx, st):
    run = "%s-%s-s%d" % (cmd, ctx.tier, ctx.seed)
    try:
        nd = json.load(open(os.path.join(core.BUILD, "gen", "nodediff-%s.json" % run))) or []
    except Exception:
        nd = []
    fails = []
    for d in nd:
        if d.get("safe"):
            # neither a typed map nor a recursive value behind a Maybe: nothing of the known defect applies
            cls = "gen_assignnode_unexplained"
        else:
            cls = "gen_assignnode_panic" if d["node"] == "panic" else "gen_assignnode_differs"
        fails.append({"case": d["case"], "classes": [cls], "verdict": "fail:" + cls})
    runs = sum(b.get("node_runs", 0) for b in st)
    return [{"name": "generated builders: AssignNode(basicnode tree) == plain call sequence (%d runs) — checked, not modelled" % runs,
             # discharged = the comparison was carried out; every difference found is a failure record of
             # its own (known finding or violation), like oracle failures of the correspondence run
             "ok": runs > 0 or not st, "info": {"differences": len(fails)}, "failures": fails[:50]}]
