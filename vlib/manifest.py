# vlib/manifest.py — MANIFEST.json is generated from the property modules so it never drifts.
import glob, importlib, json, os
from . import core

ALL = ["C%02d" % i for i in range(1, 21)]


def claimed():
    out = []
    for pid in ALL:
        if os.path.exists(os.path.join(core.ROOT, "vlib", "props", pid.lower() + ".py")):
            out.append(pid)
    return out


def write():
    core.merge_known()
    checks = []
    for pid in claimed():
        mod = importlib.import_module("vlib.props." + pid.lower())
        checks.append({
            "property_id": pid,
            "quick_cmd": "./check %s --tier quick" % pid,
            "thorough_cmd": "./check %s --tier thorough" % pid,
            "evidence_file": "/verif/evidence/%s.json" % pid,
            "replay_cmd_template": "./check %s --replay {path}" % pid,
            "engine": "coq-proof+correspondence",
            "level_claimed": {"category": "proof", "text": mod.LEVEL_TEXT, "design_ref": mod.DESIGN_REF},
            "level_note": mod.LEVEL_NOTE,
            "technique": mod.TECHNIQUE,
        })
    na = []
    pending = json.load(open(os.path.join(core.ROOT, "vlib", "not_applicable.json")))
    for pid in ALL:
        if pid not in claimed():
            na.append({"property_id": pid, "reason": pending.get(pid, "check not built yet in this development; not claimed")})
    m = {
        "version": 1,
        "setup_cmd": "./check --setup",
        "hooks": {"guard": "verif", "enable": "go build -tags verif (the harness is always built with the tag)",
                  "baseline_off_cmd": "cd /repo && go test -mod=mod -json -vet=off -count=1 -timeout 25m ./...",
                  "source_commits": json.load(open(os.path.join(core.ROOT, "vlib", "hook_commits.json"))),
                  "add_only": True},
        "engines": [{"name": "coq-proof+correspondence", "path": "/verif/coq, /verif/harness, /verif/ocaml, /verif/gotrans",
                     "serves_properties": claimed(),
                     "kind_free_text": "Coq 8.16 theorems about executable Gallina models; models tied to /repo on every run by gotrans regeneration and by differential execution of the extracted models against a Go harness"}],
        "checks": checks,
        "notes": "See DESIGN.md. Known findings: known_findings.json.",
        "not_applicable": na,
    }
    json.dump(m, open(os.path.join(core.ROOT, "MANIFEST.json"), "w"), indent=1)
