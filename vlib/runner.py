# vlib/runner.py — the generic per-property flow.  A property module (vlib/props/cNN.py) supplies:
#   ID, CLUSTER, EXTRACT_V, MODEL_DEPS (coq files of the model), DRIVER (ocaml driver name),
#   HARNESS (go cmd name), COUNTS {tier: n}, TRUSTED (list of strings), LEVEL_NOTE,
#   optional: nontrivial(fields) -> bool, extra(ctx) -> list of extra results, RACE (bool),
#             SEARCH_SEEDS, input_key(fields) -> hashable
import importlib, json, os, sys, time
from . import core


class Ctx:
    pass


def load_prop(pid):
    return importlib.import_module("vlib.props." + pid.lower())


def read_cases(path):
    out = {}
    order = []
    with open(path, errors="replace") as f:
        for line in f:
            line = line.rstrip("\n")
            if not line:
                continue
            fs = line.split("\t")
            out[fs[0]] = fs
            order.append(fs[0])
    return out, order


def run_harness(mod, tier, seed, outpath, n=None, replay=None, race=False):
    exe = os.path.join(core.BIN + ("-race" if race else ""), mod.HARNESS)
    cmd = [exe, "-seed", str(seed), "-tier", tier, "-out", outpath]
    if n:
        cmd += ["-n", str(n)]
    if replay:
        cmd += ["-replay", replay]
    t = getattr(mod, "HARNESS_TIMEOUT", {"quick": 1800, "thorough": 7200})[tier]
    env = dict(os.environ)
    env.update(getattr(mod, "HARNESS_ENV", {}))
    return core.sh(cmd, timeout=t, cwd=core.ROOT, env=env)


def run_model(mod, cases_path, outpath):
    exe = os.path.join(core.BUILD, "ml", mod.CLUSTER, mod.DRIVER)
    with open(cases_path, "rb") as fi, open(outpath, "wb") as fo:
        import subprocess
        try:
            def _big_stack():
                # extracted code is not tail recursive everywhere: give the driver a large stack
                import resource
                try:
                    resource.setrlimit(resource.RLIMIT_STACK, (resource.RLIM_INFINITY, resource.RLIM_INFINITY))
                except (ValueError, OSError):
                    try:
                        soft, hard = resource.getrlimit(resource.RLIMIT_STACK)
                        resource.setrlimit(resource.RLIMIT_STACK, (hard, hard))
                    except (ValueError, OSError):
                        pass
            p = subprocess.run([exe], stdin=fi, stdout=fo, stderr=subprocess.PIPE, timeout=3600, preexec_fn=_big_stack)
        except subprocess.TimeoutExpired:
            return 124, "model driver timeout"
        return p.returncode, p.stderr.decode("utf8", "replace")


def compare(mod, cases_path, model_path):
    """returns dict(agree, mismatches=[...], failures=[...], n, distinct_nontrivial, samples, dist)"""
    cases, order = read_cases(cases_path)
    model, _ = read_cases(model_path)
    res = {"n": 0, "agree": 0, "mismatches": [], "failures": [], "skipped": 0, "missing": 0}
    seen = set()
    nontriv = getattr(mod, "nontrivial", lambda fs: len("\t".join(fs[1:-1])) > 8)
    key = getattr(mod, "input_key", lambda fs: "\t".join(fs[1:-1]))
    dist = {}
    classify = getattr(mod, "classify", None)
    for cid in order:
        fs = cases[cid]
        res["n"] += 1
        k = key(fs)
        if k not in seen and nontriv(fs):
            seen.add(k)
        if classify:
            c = classify(fs)
            dist[c] = dist.get(c, 0) + 1
        m = model.get(cid)
        if m is None or len(m) < 3:
            res["missing"] += 1
            res["mismatches"].append({"id": cid, "case": fs, "model": None, "verdict": "model-missing"})
            continue
        impl_obs, model_obs, verdict = fs[-1], m[1], m[2]
        if verdict.startswith("fail:"):
            res["failures"].append({"id": cid, "case": fs, "model": model_obs, "verdict": verdict,
                                    "classes": verdict[5:].split(",")})
        elif verdict == "skip":
            res["skipped"] += 1
        elif impl_obs != model_obs:
            res["mismatches"].append({"id": cid, "case": fs, "model": model_obs, "verdict": verdict})
        else:
            res["agree"] += 1
    res["distinct_nontrivial"] = len(seen)
    res["dist"] = dist
    res["samples"] = [trunc_case(cases[c]) for c in order[:: max(1, len(order) // 5)][:5]]
    return res


def trunc_case(fs, lim=400):
    return [f if len(f) <= lim else f[:lim] + "...(%d chars)" % len(f) for f in fs]


def main(pid, tier, seed, replay=None):
    """run one property; an unexpected failure of the machinery itself is reported as a broken tie
    (the property is then no longer shown to hold), never as a silent crash"""
    try:
        return _main(pid, tier, seed, replay)
    except Exception as ex:  # noqa
        import traceback
        tb = traceback.format_exc()
        core.log(tb)
        path = core.write_replay(pid, {"property": pid, "kind": "tie-broken", "broken_obligations": ["check machinery failed: %r" % (ex,)], "traceback": tb[-4000:],
                                       "note": "no input on which the property itself fails was found; the check could not be completed"})
        print("VIOLATION property=%s replay=%s no-failing-input-found" % (pid, path))
        try:
            core.write_evidence(pid, {"property_id": pid, "tier": tier, "seed": seed, "level": "proof", "wall_s": 0.0, "violations": 1,
                                      "coverage": {"obligations": 1, "discharged": 0, "checker_cmd": "./check %s" % pid, "trusted_base": [],
                                                   "evaluations": 0, "distinct_nontrivial": 0, "samples": [["check machinery failed"]], "broken": [repr(ex)]}})
        except Exception:
            pass
        return 1


def _main(pid, tier, seed, replay=None):
    # two runs of the same property and tier share build/run/<pid>/<tier>: serialise them
    with core.Lock("run-%s-%s" % (pid, tier)):
        return _main_locked(pid, tier, seed, replay)


def _main_locked(pid, tier, seed, replay=None):
    t0 = time.time()
    mod = load_prop(pid)
    rundir = os.path.join(core.BUILD, "run", pid, tier)
    os.makedirs(rundir, exist_ok=True)
    known = [k for k in core.load_known() if k["property"] == pid]
    broken = []          # obligations that no longer check (strings)
    notes = []
    obligations = []     # (name, discharged?)

    with core.Lock():
        ok, msg = core.run_gotrans()
        obligations.append(("gotrans: regenerate coq/Gen/FromGo.v from /repo", ok))
        if not ok:
            broken.append("gotrans: " + msg.strip().split("\n")[-1])
            core.log(msg)
        core.coq_project()
        cone = core.coq_cone(["Props/%s.vo" % pid] + [f[:-2] + ".vo" for f in mod.MODEL_DEPS]) + ["Extract/" + mod.EXTRACT_V]
        gate = core.coq_gate(cone)
        obligations.append(("gate: no Admitted/admit/Axiom/Parameter/unguarded checks under coq/", not gate))
        if gate:
            broken.append("gate: " + "; ".join(gate[:5]))
        # the model must build for the correspondence to run at all
        mok, mmsg = core.build_model(mod.CLUSTER, mod.EXTRACT_V, [mod.DRIVER], mod.MODEL_DEPS)
        if not mok:
            core.log(mmsg)
            broken.append("model build: " + mmsg.strip().split("\n")[0])
        # proofs
        pok, plog = core.coq_make(["Props/%s.vo" % pid])
        props = core.coq_props(pid) if pok else {"ok": False, "theorems": [], "axioms": [], "log": plog, "closed_blocks": 0}
        if not pok:
            # which file failed?
            import re
            m = re.search(r'File "\./([^"]+)", line (\d+)', plog)
            where = ("%s:%s" % (m.group(1), m.group(2))) if m else "unknown"
            broken.append("coq proof no longer checks at " + where)
            core.log(plog[-3000:])
            # theorem names for the record
            try:
                src = open(os.path.join(core.COQ, "Props", pid + ".v")).read()
                import re as _re
                props["theorems"] = _re.findall(r"^\s*(?:Theorem|Corollary)\s+([A-Za-z0-9_']+)", src, flags=_re.M)
            except Exception:
                pass
        for th in props["theorems"]:
            obligations.append(("theorem " + th, bool(pok and props["ok"])))
        hok, hlog = core.build_harness([mod.HARNESS], race=getattr(mod, "RACE", False))
        if not hok:
            core.log(hlog)
            broken.append("harness does not build against /repo: " + hlog.strip().split("\n")[-1][:300])

    violations = []   # (replay object)
    known_hits = {}
    cmpres = None
    extra_info = {}
    if mok and hok:
        cases_path = os.path.join(rundir, "cases.txt")
        model_path = os.path.join(rundir, "model.txt")
        n = getattr(mod, "COUNTS", {}).get(tier)
        rc, out = run_harness(mod, tier, seed, cases_path, n=n, replay=replay, race=getattr(mod, "RACE", False))
        if rc != 0:
            broken.append("harness run failed rc=%d: %s" % (rc, out.strip()[-400:]))
            violations.append({"kind": "harness-crash", "detail": out[-4000:]})
        else:
            rc, err = run_model(mod, cases_path, model_path)
            if rc != 0:
                broken.append("model driver failed rc=%d: %s" % (rc, err[-400:]))
            else:
                cmpres = compare(mod, cases_path, model_path)
                obligations.append(("correspondence: %s harness vs extracted model on %d cases" % (mod.HARNESS, cmpres["n"]),
                                    not cmpres["mismatches"]))
        # property-specific extra checks (runtime ties: go build of generated code, strace, race detector...)
        if hasattr(mod, "extra"):
            ctx = Ctx()
            ctx.tier, ctx.seed, ctx.rundir, ctx.known = tier, seed, rundir, known
            for r in mod.extra(ctx):
                obligations.append((r["name"], r["ok"]))
                extra_info[r["name"]] = r.get("info")
                for f in r.get("failures", []):
                    if cmpres is None:
                        cmpres = {"n": 0, "agree": 0, "mismatches": [], "failures": [], "skipped": 0, "missing": 0,
                                  "distinct_nontrivial": 0, "dist": {}, "samples": []}
                    cmpres["failures"].append(f)
                if not r["ok"] and not r.get("failures"):
                    broken.append(r["name"] + ": " + str(r.get("info"))[:300])

    # ---- verdict
    lines = []
    if cmpres:
        known_classes = {k["class"]: k for k in known if k.get("status") == "known"}
        for f in cmpres["failures"]:
            unk = [c for c in f["classes"] if c not in known_classes]
            if unk:
                violations.append({"kind": "property-violated", "classes": f["classes"], "case": f["case"],
                                   "model": f.get("model"), "verdict": f["verdict"]})
            else:
                for c in f["classes"]:
                    known_hits.setdefault(c, f)
        if cmpres["mismatches"] and not violations:
            broken.append("correspondence: implementation and model disagree on %d case(s), e.g. %s" %
                          (len(cmpres["mismatches"]), cmpres["mismatches"][0]["id"]))
    # a broken tie with no failing input yet: search further with fresh seeds
    searched = 0
    if broken and not violations and mok and hok and not replay:
        for extra_seed in getattr(mod, "SEARCH_SEEDS", [seed + 1000003, seed + 2000003, seed + 3000017]):
            sp = os.path.join(rundir, "search.txt")
            mp = os.path.join(rundir, "search_model.txt")
            n = (getattr(mod, "COUNTS", {}).get(tier) or 0) * 3 or None
            rc, out = run_harness(mod, tier, extra_seed, sp, n=n, race=getattr(mod, "RACE", False))
            if rc != 0:
                continue
            rc, err = run_model(mod, sp, mp)
            if rc != 0:
                continue
            r2 = compare(mod, sp, mp)
            searched += r2["n"]
            known_classes = {k["class"]: k for k in known if k.get("status") == "known"}
            for f in r2["failures"]:
                if [c for c in f["classes"] if c not in known_classes]:
                    violations.append({"kind": "property-violated", "classes": f["classes"], "case": f["case"],
                                       "model": f.get("model"), "verdict": f["verdict"], "found_by": "search seed %d" % extra_seed})
                    break
            if violations:
                break

    for c, f in sorted(known_hits.items()):
        k = {k["class"]: k for k in known}[c]
        print("KNOWN-FINDING: property=%s %s [%s] e.g. case %s" % (pid, k["what"], c, f["case"][0]))

    rcode = 0
    if violations:
        v = violations[0]
        v["property"] = pid
        v["broken_obligations"] = broken
        v["replay_cmd"] = "./check %s --replay <this file>" % pid
        v["all_violations"] = len(violations)
        path = core.write_replay(pid, v)
        print("VIOLATION property=%s replay=%s" % (pid, path))
        rcode = 1
    elif broken:
        obj = {"property": pid, "kind": "tie-broken", "broken_obligations": broken,
               "mismatches": (cmpres or {}).get("mismatches", [])[:20], "searched_cases": searched,
               "note": "no input on which the property itself fails was found; the named theorem / correspondence no longer checks"}
        path = core.write_replay(pid, obj)
        print("VIOLATION property=%s replay=%s no-failing-input-found" % (pid, path))
        rcode = 1

    wall = time.time() - t0
    n_obl = len(obligations)
    n_dis = sum(1 for _, ok in obligations if ok)
    trusted = list(getattr(mod, "TRUSTED", []))
    trusted.append("Coq 8.16.1 kernel; vm_compute for closed computations; no native_compute")
    if props.get("axioms"):
        trusted.append("axioms reported by Print Assumptions: " + ", ".join(props["axioms"]))
    else:
        trusted.append("Print Assumptions: every property theorem is closed under the global context (%d blocks)" % props.get("closed_blocks", 0))
    trusted.append("extraction to OCaml (ExtrOcamlBasic only; N/Z/positive kept as Coq datatypes) + OCaml 4.13.1 driver ocaml/%s.ml + ocaml/dmio.ml" % mod.DRIVER)
    trusted.append("gotrans (Go->Gallina translator for the white-listed leaf functions/constants in coq/Gen/FromGo.v)")
    trusted.append("Go harness harness/cmd/%s and harness/lib (generators, dumper, error classifier)" % mod.HARNESS)
    ev = {
        "property_id": pid, "tier": tier, "seed": seed, "level": "proof", "wall_s": round(wall, 2),
        "violations": len(violations) + (1 if (broken and not violations) else 0),
        "coverage": {
            "obligations": n_obl, "discharged": n_dis,
            "obligation_list": [{"name": n, "discharged": ok} for n, ok in obligations],
            "checker_cmd": "cd coq && make -f Makefile.coq -j%s Props/%s.vo && coqc -R . IP Props/%s.v  (then: harness %s | extracted model %s)" % (core.NPROC, pid, pid, mod.HARNESS, mod.DRIVER),
            "trusted_base": trusted,
            "evaluations": (cmpres or {}).get("n", 0),
            "distinct_nontrivial": (cmpres or {}).get("distinct_nontrivial", 0),
            "rule": getattr(mod, "RULE", "cases generated by the Go harness from one PRNG state; distinct = distinct input fields; non-trivial = input longer than 8 characters"),
            "samples": (cmpres or {}).get("samples", []) or [["no cases ran"]],
            "agree": (cmpres or {}).get("agree", 0),
            "mismatches": len((cmpres or {}).get("mismatches", [])),
            "oracle_failures": len((cmpres or {}).get("failures", [])),
            "known_finding_hits": sorted(known_hits.keys()),
            "input_distribution": (cmpres or {}).get("dist", {}),
            "search_cases_after_broken_tie": searched,
            "broken": broken,
            "extra": extra_info,
            "explanation": getattr(mod, "EXPLANATION", ""),
        },
        "assumptions": getattr(mod, "ASSUMPTIONS", []),
    }
    core.write_evidence(pid, ev)
    core.log("%s %s: %d/%d obligations, %d cases, %d agree, %d mismatches, %d oracle failures (%d known classes), %.1fs" % (
        pid, tier, n_dis, n_obl, ev["coverage"]["evaluations"], ev["coverage"]["agree"], ev["coverage"]["mismatches"],
        ev["coverage"]["oracle_failures"], len(known_hits), wall))
    return rcode
