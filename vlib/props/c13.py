from vlib import schema_gen_extra

ID = "C13"
CLUSTER = "schema"
EXTRACT_V = "ExtractSchema.v"
MODEL_DEPS = ["Base/Bytes.v", "Base/GoSem.v", "Gen/FromGo.v", "DM/Value.v", "Codec/Cid.v", "Codec/Cbor.v",
              "Schema/Types.v", "Schema/View.v", "Schema/Conform.v", "Schema/Sem.v"]
DRIVER = "schema_driver"
HARNESS = "c13"
COUNTS = {"quick": 8, "thorough": 400}         # generated schemas (+ the corpus); 2 levels x 16 trees x 2 routes each
HARNESS_TIMEOUT = {"quick": 2400, "thorough": 10800}
DESIGN_REF = "DESIGN.md §4 C13"
TECHNIQUE = ("Coq proof (both engines are the same semantics once their deviations are switched off, and that "
             "semantics is the specification) + on every run: code generated afresh by the generator of the working "
             "tree, `go build` of the generated package, and a lock-step differential run of bindnode, the generated "
             "code and the extracted model on the same inputs")
LEVEL_TEXT = ("Theorems in coq/Props/C13.v: C13_equiv (observe Bind = observe Gen: outcome, type-level view, "
              "representation view, for every level, schema and tree, with the deviations of both engines off), "
              "C13_spec (that common behaviour is conforms_t / conforms_r), and one C13_refuted theorem per bindnode "
              "leniency and per deviation of the generated code under the pinned switches. PARTIAL BY NATURE: 'the "
              "generated package compiles' is a fact about the Go type checker applied to template output; it is not "
              "proved but CHECKED on every run (obligation 'generated package compiles') by generating from "
              "/repo/schema/gen/go as compiled into the harness at check time, for every schema of the run, and "
              "building it. The Gen model is the Bind model with bindnode's quirks masked and three Gen-specific "
              "switches; it is tied to the generated code only by the differential run.")
LEVEL_NOTE = ("Feature set = generate.go's type switch (no enum, any, listpairs; string map keys; field names that are "
              "not Go keywords). AssignNode of a foreign node is compared with the plain call sequence as a separate "
              "runtime obligation (not modelled). Deviations of the generated code are modelled up to the outcome "
              "(ok/err/panic): the content of a wrongly accepted node is not predicted.")
TRUSTED = ["generated code: modelled as the specification plus three deviation switches; tied by correspondence only",
           "go build / the Go type checker ('compiles' is checked, not proved)",
           "bindnode model as in C08/C09"]
RULE = ("corpus schemas in the generator's feature set + random well-formed schemas in it, each with conforming and "
        "mutated trees at both levels over the direct, dag-cbor and dag-json routes; all schemas of a batch are "
        "generated into one package; distinct = distinct (schema, level, route, tree)")


def classify(fs):
    o = fs[-1]
    if "#" not in o:
        return o
    b, g = o.split("#", 1)
    return fs[3] + ":" + b[:3] + "/" + g[:3]


def nontrivial(fs):
    return len(fs[2]) > 8


def extra(ctx):
    st, res = schema_gen_extra.compiles("c13", ctx)
    return res + (schema_gen_extra.assignnode("c13", ctx, st) if st else [])
