ID = "C04"
CLUSTER = "json"
EXTRACT_V = "ExtractJson.v"
MODEL_DEPS = ["Base/Bytes.v", "Base/GoSem.v", "Gen/FromGo.v", "DM/Value.v", "Codec/Utf8.v", "Codec/Base64.v", "Codec/DagJson.v"]
DRIVER = "c04_driver"
HARNESS = "c04"
COUNTS = {"quick": 2500, "thorough": 120000}
DESIGN_REF = "DESIGN.md §4 C04"
TECHNIQUE = ("Coq proof (decode . encode = sort with kinds, order-independence; strings, integers, base64, look-ahead "
             "proved concretely; float text assumed by two sampled hypotheses) + differential run of the extracted "
             "model against dagjson.Encode / Decode incl. a near-miss decoder stream")
LEVEL_TEXT = ("Theorems in coq/Props/C04.v about the executable model coq/Codec/DagJson.v (Marshal + refmt JSON encoder; "
              "refmt JSON tokenizer + dagjson unmarshal with its look-ahead window + Decode's trailing check): for every "
              "json_safe value outside the integral-float class, decode(encode v) = Ok(sort v) with identical kinds, and the "
              "encoding is invariant under permutation of map entries; the full statement is refuted on the faithful "
              "model for integral floats below 1e21 (refmt emitFloat), which is the listed known finding. The model is "
              "tied to /repo by running the extracted model against the real encoder/decoder on generated values in "
              "several holders and insertion orders, on the neighbourhood of the reserved shapes, and on a malformed / "
              "near-miss JSON stream under several DecodeOptions.")
LEVEL_NOTE = ("Trusted: Coq kernel, extraction, the Go harness and generators, the OCaml driver (float_of_string as "
              "parse_float; tables from the harness as fmt_float / cid_str / cid_parse). refmt, encoding/base64, unicode/utf8 "
              "are modelled by hand (tied by the differential run). strconv float text and go-cid string forms are "
              "Section hypotheses (A1, A2, CID round trip), sampled against the real code in every run.")
TRUSTED = [
    "A1 (hypothesis of the theorems, sampled every run): strconv.ParseFloat(emitFloat(f)) = f for every finite float64 f",
    "A2 (hypothesis, sampled every run through the extracted predicate float_text_ok): emitFloat(f) matches the JSON number "
    "grammar (refmt numscan automaton), contains '.' or 'e' iff not (f integral and |f| < 1e21), and has at most 19 digits "
    "before the '.'/'e' in that case",
    "CID law (hypothesis of the theorems, exercised on go-cid every run): cid.Decode(c.String()) = c for every defined CID",
    "refmt v0.90 JSON encoder/decoder, encoding/base64, unicode/utf8, unicode/utf16: hand-modelled in coq/Codec/{DagJson,Base64,Utf8}.v; tied by correspondence only",
    "Go sort.Slice sorts correctly w.r.t. the comparator it is given (the model uses insertion sort; uniqueness of the sorted permutation is proved); the comparator closures themselves are translated from the source by gotrans and proved equal to the model's orders (C04_source_key_order), taking Go's string < to be bytewise (GoSem.str_ltb)",
    "basicnode map assembler refuses a repeated key (modelled as the `seen` check in unm_map)",
    "dagjson defaultMaxDepth = 1024 is copied into the model (not in the gotrans white-list); the depth boundary is exercised by the harness",
]
RULE = ("enc: values from the structured generator restricted to json_safe (plus 10% unrestricted), the float text cut-off pool, "
        "control / non-BMP / U+2028 strings and keys, every single byte value, the neighbourhood of the reserved shapes; each in 3 "
        "insertion orders and basicnode/bindnode holders, bytes values also in streaming LargeBytesNode holders with short reads (NewBytesFromReader over 5 reader kinds, MultiByteNode) and bindnode []byte, plus other sort modes, the plain json codec and EncodeOptions with EncodeLinks x EncodeBytes x MapSortMode varied independently. dec: hand-made inputs "
        "under 7 option sets, mutations of valid encodings and a token soup dense in reserved forms. distinct = distinct input "
        "fields; non-trivial = input longer than 8 characters")
SEARCH_SEEDS = [1000004, 2000005]


def classify(fs):
    if fs[1] == "enc":
        v = fs[4]
        return "enc:" + fs[2] + ":" + {"m": "map", "a": "list", "d": "float", "s": "string"}.get(v[:1], "scalar")
    o = fs[-1]
    return "dec:" + fs[2][:6] + ":" + (o[:3] if o.startswith("ok") else o)


def input_key(fs):
    return "\t".join(fs[1:5])


def nontrivial(fs):
    return len(fs[4] if fs[1] == "enc" else fs[3]) > 8


EXPLANATION = ("enc records: model bytes and model decode of them must equal dagjson.Encode / Decode; the oracle checks round trip "
               "with kinds, order independence across the insertion orders of one value, canonical text, and samples A1/A2/CID. "
               "dec records: accept/reject class and value of dagjson.DecodeOptions.Decode on hand-made, mutated and soup inputs "
               "must equal the model decoder.")
