ID = "C11"
CLUSTER = "heap"
EXTRACT_V = "ExtractHeap.v"
MODEL_DEPS = ["Base/Bytes.v", "Base/GoSem.v", "Gen/FromGo.v", "DM/Value.v", "Heap/GoMem.v", "Heap/BasicHeap.v", "Heap/Script.v",
              "Heap/Footprint.v", "Heap/Conc.v"]   # the extraction file is shared with C20
DRIVER = "c11_driver"
HARNESS = "c11"
COUNTS = {"quick": 3000, "thorough": 60000}
DESIGN_REF = "DESIGN.md §4 C11"
TECHNIQUE = ("Coq proof of an ownership invariant over heap histories (every backing array / Go map / struct is owned by one "
             "unfinished assembler or frozen) + differential run of the extracted heap model against node/basicnode, "
             "datamodel.Copy, traversal.FocusedTransform, selector subset matches, dag-cbor/dag-json decoders")
LEVEL_TEXT = ("Theorems in coq/Props/C11.v about the executable heap model coq/Heap/GoMem.v + BasicHeap.v (node/basicnode builders, "
              "assemblers and nodes as heap objects with Go's slice/append/map/pointer/reader semantics, incl. the `*na.w = *v2` "
              "shortcut sharing backing arrays, value assemblers storing child pointers, plainBytes aliasing the caller's slice, "
              "streamBytes sharing a reader position): for EVERY Legal history of API calls (any length, any number of builders, "
              "any interleaving, any append growth policy), every node handed out and every accessor, the read returns the same "
              "before and after any continuation of the history (C11_stable), and twice in a row (C11_repeat) — for all accessors "
              "when streamBytes reads are position-independent (repaired tree), and for all accessors except AsBytes/AsLargeBytes "
              "of a streamBytes node on the pinned tree (C11_stable_partial), where the full statement is refuted; readers handed out "
              "by AsLargeBytes (partial Read, Seek, several alive, interleaved): on the repaired configuration no call other than a "
              "Read/Seek on the reader itself stores to its cell (C11_reader_independent, C11_reader_untouched, per call "
              "C11_reader_step_footprint), so its next read yields content[own offset:] (C11_reader_next_read); refuted on the "
              "pinned configuration (C11_readers_full_refuted_pinned) "
              "(C11_refuted_stream, C11_full_refuted_pinned). Proof: an ownership invariant preserved by every single write of "
              "every operation (so also across panics). The model is tied to /repo by running the extracted model on the "
              "histories (<= 40 calls, several builders sharing structure, misuse included) a Go harness ran against the real "
              "library, re-dumping every node twice after every step.")
LEVEL_NOTE = ("Modelled, not verified: the Go code of node/basicnode, matcher.go Slice, datamodel.Copy, FocusedTransform (as API clients "
              "in coq/Heap/Script.v), bytes.Reader / io.SectionReader / readerat (net effect of io.ReadAll). bindnode and gendemo have NO model: "
              "for them the check is the oracle alone (held children re-dumped; class typed_child_changed); C11_any_engine states the two per-call facts a model of them would have to supply (docs/C11.md). Nodes of other "
              "implementations are modelled as immutable values (RForeign). The theorems are about API-call histories; that the "
              "script-level clients (copy, transform, decoders, dump, the re-dump after every step) are such histories is "
              "C11_scripts_are_legal_histories / C11_script_stable. Uint nodes, links and huge size hints are not exercised.")
TRUSTED = ["node/basicnode, traversal/selector/matcher.go, datamodel.Copy, traversal.FocusedTransform: hand-modelled in coq/Heap/*.v; tied by correspondence only",
           "Go runtime semantics of slices (in-place append when len < cap), maps, pointers, bytes.Reader, io.SectionReader, io.ReadAll as modelled in coq/Heap/GoMem.v; the append growth policy is a parameter the theorems quantify over"]
RULE = ("histories from a stateful generator that tracks the builder contract (mostly Legal, ~1 in 6 with one misuse or caller write), "
        "over builders of every basicnode prototype, nested assemblers, AssignNode of earlier nodes (shortcut and copy paths), Reset and "
        "reuse, Copy, lookups, subset matches, FocusedTransform, dag-cbor encode, walks, AsLargeBytes readers kept alive (partial reads, "
        "seeks, interleaved with no re-dump in between), nodes from dag-cbor/dag-json decoders and a "
        "foreign node implementation; plus a fixed corpus of witnesses; plus (oracle level only, no model) bindnode and gendemo nodes of 0-100 "
        "elements whose every handed-out child is held and re-dumped while iterating, looking up, copying, encoding (also basicnode maps/lists through this route); every dump of every history retains the key and value nodes its iterators yield and re-reads them after the iteration and after later steps, incl. LookupByNode with retained keys; distinct = distinct script; non-trivial = more than 3 calls")
EXPLANATION = ("verdict per case: on a Legal history any node register whose re-dump differs from its first dump, or whose two dumps taken "
               "at one step differ, is a failure; class streambytes_second_read when the node contains a streamBytes and only bytes "
               "tokens differ, else node_changed / read_not_repeatable; iterator_node_changed when a key/value node an iterator handed out reads differently after further Next() calls or later steps. Histories after a misuse step are vacuous for the oracle but "
               "still compared with the model.")


def classify(fs):
    if fs[1] == "probe":
        return "probe"
    ops = fs[1].split(" ")
    kinds = set(o.split(":")[0] for o in ops)
    tags = []
    if "cw" in kinds:
        tags.append("callerwrite")
    if "an" in kinds:
        tags.append("assignnode")
    if "tf" in kinds:
        tags.append("transform")
    if "mt" in kinds:
        tags.append("subset")
    if "rs" in kinds:
        tags.append("reset")
    return "+".join(tags) or "plain"


def nontrivial(fs):
    return len(fs[1].split(" ")) > 3
