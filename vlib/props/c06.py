ID = "C06"
CLUSTER = "link"
EXTRACT_V = "ExtractLink.v"
MODEL_DEPS = ["Base/Bytes.v", "Base/GoSem.v", "Gen/FromGo.v", "DM/Value.v", "Codec/Cid.v", "Codec/Cbor.v", "Link/LinkSys.v"]
DRIVER = "link_driver"
HARNESS = "c06"
COUNTS = {"quick": 120, "thorough": 400}
DESIGN_REF = "DESIGN.md §4 C06"
TECHNIQUE = ("Coq proof about a LinkSystem model with adversarial storage (arbitrary reader contents, chunking, read/open "
             "errors, failing writers/committers), parametric in the hash functions and the codec registry, + exhaustive "
             "fault enumeration on a block corpus run differentially against the extracted model")
LEVEL_TEXT = ("Theorems in coq/Props/C06.v about the executable model coq/Link/LinkSys.v (Fill's tee-and-drain, LoadRaw's "
              "buffer-hash-compare, LoadPlusRaw, Load; Store's MultiWriter and commit), for EVERY hash function (no "
              "collision-freedom assumed), every codec registry whose decoders pull the whole stream on success (law "
              "proved for the dag-cbor/cbor/raw models, assumed for dag-json/json) and EVERY storage behaviour: an "
              "untrusted load that reports success was handed a complete stream whose bytes build the requested link, and "
              "returns the decoding of exactly those bytes / exactly those bytes; bytes that do not hash to the link give "
              "ErrHashMismatch from all four load functions whatever the decoder does; open/read errors never yield Ok, a "
              "node or bytes; a store that does not report success commits nothing; whatever the storage writer does "
              "(sticky or transient failures, short writes, any per-Write schedule) a store that reaches the committer has "
              "written exactly the encoder's output and returns ComputeLink's link — with Store's write-error latch (fix "
              "4c486a6) for every encoder, without it for encoders that report write errors; without the latch the "
              "statement is refuted for refmt's JSON encoder (sticky and transient witnesses). Tied to /repo by enumerating, "
              "for every block of a corpus (5 codecs + CIDv0 x sha2-256/sha2-512/sha3-256/identity/truncated digests): "
              "every single-bit flip, every truncation, appended bytes, substituted blocks, a read error at every offset, "
              "every 2-way and (small blocks: every) 3-way chunking, damaged bytes under their own link, open errors, "
              "TrustedStorage, NodeReifier scenarios (the reifier records the *LinkSystem it is handed and loads corrupted / "
              "substituted / truncated child blocks through it during and after the outer Load/LoadPlusRaw/Fill: every "
              "such load must obey the same statement with the trust the USER declared), EMPTY reads (0, nil) before every byte position, after the genuine block before appended bytes "
              "and at true EOF, across Load/LoadRaw/LoadPlusRaw/Fill; store side: a sticky writer failure at every byte "
              "offset, a TRANSIENT failure of exactly write #k (and #k..#k+j) for every k, short writes at every write, "
              "opener and committer failures, with Store's link compared to ComputeLink's and the committed bytes to the "
              "encoder's output.")
LEVEL_NOTE = ("Read errors are sticky (a reader that failed keeps failing); a decoder is assumed to behave on a stream that "
              "ends in a read error as on the same bytes followed by EOF up to the point where it looks at the end of the "
              "stream (prefix determinism), and to report the read error there. Trusted-storage Fill with a read error, "
              "a refusing encoder combined with a failing writer, and slicing a digest beyond len but within cap of the "
              "hasher's output are not generated. dag-json/json decoders are not modelled (tables + the consumes-all law, "
              "which the driver checks on every table entry).")
TRUSTED = ["hash functions: arbitrary Section variables hasher_ok/hash (no law assumed); real digests enter the extracted model as per-record tables",
           "dag-json and json codecs: law consumes_all assumed (C06_default_registry_law); checked on every decode the harness ran; their real behaviour enters the model run as per-record tables",
           "decoders are prefix-deterministic and report a read error met at the end of the stream (definition stream_dec); exercised by a read error injected at every offset",
           "an empty read (0, nil) does not change what a decoder sees (the model's reader is the concatenation of its chunks): FALSE for refmt's byte reader on the pinned tree — known finding empty_read_mid_block, flagged by the oracle; exercised at every byte position",
           "the NodeReifier is handed the link system the call was made on (definition reifier_handle); exercised by the reify records (TrustedStorage of the handle and every load through it are observed)",
           "large blocks (1-16 MiB) travel under run-length NAMES (harness/lib/link_big.go): the model is run on the names with hash tables keyed by names; sound because the model is parametric in the hash and touches such blocks only through hash, equality and codec (raw: concrete model on names; dag-cbor: tables for these records)",
           "go-cid / go-multihash / go-varint (Prefix, NewCidV0/V1, Encode, PutUvarint), io.TeeReader / io.MultiWriter / io.Copy: hand-modelled in coq/Link/LinkSys.v; tied by correspondence only",
           "refmt v0.90 CBOR encoder/tokenizer: hand-modelled in coq/Codec/Cbor.v; tied by correspondence only"]
RULE = ("corpus of encoded blocks (fixed blocks per codec x hash, then generated values in each codec's domain, <= 64 bytes "
        "quick / <= 1 KiB thorough); per block the full fault enumeration described above across the four load functions, "
        "plus store-side failures at every byte offset; distinct = distinct (function, trusted, link, stream, tail) or "
        "(prototype, value, writer behaviour); non-trivial = every case except the configuration probe")
SEARCH_SEEDS = [1000004]


def classify(fs):
    if fs[1] == "reify":
        return "reify:%s:trusted%s:%s:%s" % (fs[2], fs[3], fs[4], fs[-1].split(";")[0].split("/")[0])
    if fs[1] == "load":
        kind = fs[0].split(".")[1] if "." in fs[0] else fs[0]
        kind = kind.rstrip("0123456789")
        return "load:%s:%s:%s" % (fs[2], kind, fs[-1].split("/")[0])
    if fs[1] == "store":
        return "store:codec%s:%s" % (fs[2].split(".")[1], fs[-1].split("/")[0])
    return fs[1]


def nontrivial(fs):
    return fs[1] in ("load", "store", "reify")


def input_key(fs):
    return "\t".join(fs[1:9])
