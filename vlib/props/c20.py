ID = "C20"
CLUSTER = "heap"
EXTRACT_V = "ExtractHeap.v"
MODEL_DEPS = ["Base/Bytes.v", "Base/GoSem.v", "Gen/FromGo.v", "DM/Value.v", "Heap/GoMem.v", "Heap/BasicHeap.v",
              "Heap/Script.v", "Heap/Footprint.v", "Heap/Conc.v"]
DRIVER = "c20_driver"
HARNESS = "c20"
RACE = True
COUNTS = {"quick": 36, "thorough": 1500}
DESIGN_REF = "DESIGN.md §4 C20"
TECHNIQUE = ("Coq proof of the data-race-freedom theorem over access footprints (once, for all programs) + per-clause footprint "
             "lemmas from C11's ownership invariant + Go race detector runs of goroutines over shared objects, each scenario in "
             "a child process, classified and compared with the model's footprint-disjointness prediction")
LEVEL_TEXT = ("PARTIAL by nature. Proved (coq/Props/C20.v): C20_drf — for goroutines modelled as heap programs interleaving at single "
              "loads/stores/allocations, if no thread's writes (of its solo run) touch an address in another thread's solo footprint "
              "and the threads allocate in distinct arenas, then EVERY interleaving is race-free and every thread gets the result it "
              "gets alone (all programs, all schedules, any number of threads); C20_readers / C20_node_reads_only_load — any number of "
              "goroutines reading, comparing, encoding, walking shared basicnode nodes satisfy the premise (every accessor but "
              "streamBytes reads performs loads only); C20_legal_calls_do_not_store_to_finished_nodes (from C11's ownership "
              "invariant, with per-cell write counters: a Legal API call — copy, AssignNode, transform, fresh builders — never "
              "stores to a cell of a finished node) and C20_allocations_are_local; C20_scenarios_disjoint for the harness's scenario "
              "classes over objects outside the heap model with footprints read off the Go source; three refuted instances with an "
              "explicit racy schedule each (the defaultTypeSystem one for every synchronisation mode of the tree but full locking). Exercised, not proved: every scenario runs under the Go race detector (GOMAXPROCS 1, 2, "
              "16; Gosched injection; 2-8 goroutines) in a child process; its outcome must equal the model's prediction.")
LEVEL_NOTE = ("NOT modelled: the Go memory model (the model is sequential consistency at cell granularity), compiler and hardware "
              "reordering, the scheduler, sub-cell accesses. The footprints of the basicnode operations are those of the hand-written "
              "heap model (tied to the code by C11's correspondence run and by the race detector here); the footprints of "
              "traversal.Config.init, bindnode.inferSchema/defaultTypeSystem, selectors, link systems, bindnode/gendemo nodes and type "
              "systems are DECLARED from reading the source (coq/Heap/Conc.v) and tied to the code only dynamically by the race "
              "detector, not proved of it. The race detector finds only races on executed paths of the schedules it observes. "
              "That a thread's accesses stay within the shared heap and its own arena is checked per scenario by the model "
              "(drf_check), not proved in general.")
TRUSTED = ["the Go race detector (ThreadSanitizer runtime) and the harness's classification of its reports by stack frames",
           "footprints declared for objects outside the heap model (coq/Heap/Conc.v scen_ops), read off traversal/common.go, node/bindnode/infer.go",
           "node/basicnode as modelled in coq/Heap/BasicHeap.v (see C11)"]
RULE = ("12 scenario kinds (incl. the four {Ctx nil/set} x {chooser nil/set} shared traversal.Configs through WalkMatching/WalkAdv/Get/Focus/WalkTransforming/FocusedTransform with the Config described field by field after every call; clonets: schema.Clone / MergeTypeSystem out of a shared type system that others read, source described before/after; stopat: one compiled ExploreRecursive with a stopAt link condition walked by all) x GOMAXPROCS in {1,2,16} with 2-7 goroutines, plus generated 'basic' scenarios: 1-3 shared basicnode values, "
        "2-6 goroutines x 3-8 ops from the read-only vocabulary (dump, lookup, DeepEqual, Copy, dag-cbor/dag-json encode, walk with "
        "a shared selector+Config, FocusedTransform, fresh builds, AssignNode shortcut); distinct = distinct (kind, procs, spec); "
        "non-trivial = every scenario")
EXPLANATION = ("model observation = 'norace;same' when the footprint check of the scenario's thread programs holds, else the race class "
               "the model predicts; oracle: a reported race fails with its class (the three known classes are listed findings), "
               "'results differ' fails with results_differ, a shared object that does not describe itself as before (norace;changed) with shared_object_changed.")
HARNESS_TIMEOUT = {"quick": 2400, "thorough": 7200}


def classify(fs):
    return fs[1] + (":p" + fs[2] if len(fs) > 2 else "")


def nontrivial(fs):
    return fs[1] != "probe"
