from vlib import schema_gen_extra

ID = "C09"
CLUSTER = "schema"
EXTRACT_V = "ExtractSchema.v"
MODEL_DEPS = ["Base/Bytes.v", "Base/GoSem.v", "Gen/FromGo.v", "DM/Value.v", "Codec/Cid.v", "Codec/Cbor.v",
              "Schema/Types.v", "Schema/View.v", "Schema/Conform.v", "Schema/Sem.v"]
DRIVER = "schema_driver"
HARNESS = "c09"
COUNTS = {"quick": 300, "thorough": 8000}       # schemas; 2 levels x 12 trees x 2 routes each
DESIGN_REF = "DESIGN.md §4 C09"
TECHNIQUE = ("Coq proof (accepted <=> conforms, with the same typed value; never a panic; every rejection an error) "
             "about an executable model of the typed assemblers + differential run of the extracted model against "
             "bindnode on conforming trees and every local mutation, fed directly, as a node, through dag-cbor "
             "(relaxed, duplicates kept) and dag-json")
LEVEL_TEXT = ("Theorems in coq/Props/C09.v about coq/Schema/Sem.v (impl-model of bindnode's and the generated "
              "assemblers: struct/map/union/list state machines fed by the plain BeginMap/AssembleEntry/Finish call "
              "sequence) against coq/Schema/Conform.v (decidable conformance conforms_t / conforms_r written from "
              "the schema specification): for every well-formed schema over all strategies and every data model "
              "tree, with the leniency switches off, the builder returns Ok v exactly when the tree conforms and "
              "denotes v, never panics, and reports every rejection as an error. For each of the ten confirmed "
              "leniencies and two panics of bindnode a _refuted theorem gives a closed witness under the pinned "
              "switches. The model with the pinned switches is run against bindnode on generated inputs; the "
              "oracle is conforms_t / conforms_r evaluated on what the implementation did. C09_bytes_accept_iff composes "
              "C03's decode_iff with C09_accept_iff: fed by the strict dag-cbor decoder a typed builder accepts exactly the "
              "byte strings that are one well-formed DAG-CBOR item denoting a conforming tree; that the streaming Go decoder "
              "equals decode-then-build is tied by the bytes records (model: extracted decode followed by rbuild).")
LEVEL_NOTE = ("Trusted: Coq kernel, extraction, Go harness (generators, routes, dumper), hand-written model tied by "
              "the differential run. Schemas are finite trees; map keys are strings; ints stay within int64 except "
              "in the fixed int8 family; a repeated field of slice/map/struct Go type (bindnode merges old and new "
              "contents) is outside the modelled 'last wins' form and is not generated. Generated code: a share of the trees runs on a freshly generated package (records buildg).")
TRUSTED = ["bindnode assemblers (node.go, repr.go) hand-modelled in coq/Schema/Sem.v; tied by correspondence only",
           "dag-cbor / dag-json decoders are only a route for the same call sequence (their own behaviour is C03/C04)"]
RULE = ("random well-formed schemas x {type level, representation level} x (2 conforming + 10 mutated trees: dropped, "
        "repeated, renamed, retyped, reordered, nulled entries; wrong discriminants and kinds; extra/short tuple and "
        "listpairs entries; unknown enum members; every non-conforming stringprefix shape, with and without a "
        "delimiter) x 2 routes, plus trees in which one struct/union position is filled by AssignNode of a node built "
        "under a sibling schema type (same Go type, other schema), plus dag-cbor BYTES (registered encoder, given order with "
        "repeats, near-valid CborMut departures, flipped bytes) of conforming and mutated representation trees decoded by "
        "the strict decoder straight into the representation builder (bindnode and generated code), plus a fixed corpus "
        "of witnesses on every route; "
        "distinct = distinct (schema, level, route, tree); non-trivial = schema text longer than 8 characters")


def classify(fs):
    return fs[3] + ":" + fs[4].split("|")[0] + ":" + ("ok" if fs[-1].startswith("ok") else fs[-1][:5])


def nontrivial(fs):
    return len(fs[2]) > 8


def extra(ctx):
    # both engines: a share of the cases runs on code generated afresh from the working tree's generator
    return schema_gen_extra.compiles("c09", ctx)[1]
