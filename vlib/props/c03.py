ID = "C03"
CLUSTER = "cbor"
EXTRACT_V = "ExtractCbor.v"
MODEL_DEPS = ["Base/Bytes.v", "Base/GoSem.v", "Gen/FromGo.v", "DM/Value.v", "Codec/Cid.v", "Codec/Cbor.v", "Codec/CborSpec.v"]
DRIVER = "c03_driver"
HARNESS = "c03"
COUNTS = {"quick": 6000, "thorough": 6000}
DESIGN_REF = "DESIGN.md §4 C03"
TECHNIQUE = "Coq proof (decoder acceptance is sound w.r.t. an independent well-formedness relation; total; bounded depth) + gotrans regeneration + differential run of the extracted model over exhaustive short inputs and structured mutations"
LEVEL_TEXT = ("Theorems in coq/Props/C03.v about the executable decoder model coq/Codec/Cbor.v (dagcbor unmarshal fused with "
              "refmt's tokenizer): whenever it accepts, the consumed bytes are one well-formed DAG-CBOR item denoting exactly the "
              "built value (relation Denotes / checker chk in coq/Codec/CborSpec.v), nothing follows the item, for all byte strings. "
              "The model is tied to /repo by gotrans (cost constants, link tag, defaults) and by running the extracted model and the "
              "SPEC checker against dagcbor.Decode on all byte strings of length <= 2, rule-by-rule probes, structured near-valid "
              "encodings, byte-level mutations, truncations and extensions over the option lattice.")
LEVEL_NOTE = ("Trusted: Coq kernel, extraction, gotrans, Go harness; refmt tokenizer and go-cid are hand-modelled and tied only by "
              "the differential run. Known finding in the refmt dependency: -2^64 decodes as 0.")
TRUSTED = ["refmt v0.90 CBOR tokenizer (decodeUint/decodeNegInt/decodeLen/decodeFloat, tags) and go-cid Cast: hand-modelled; tied by correspondence only",
           "float16/float32 widening: modelled as bit functions; exhaustive for binary16 in the thorough tier, sampled for binary32"]
RULE = ("all byte strings of length <= 2 (exhaustive), rule-by-rule corpus, then per generated value: a structured near-valid "
        "encoding (non-minimal heads, tags, indefinite lengths, narrow floats, undefined, duplicate/typed keys, wrong counts, broken "
        "links), 3 byte-level mutations, all truncations and an extension, over strict/relaxed x links x stop-at-end x budget x depth; "
        "distinct = distinct (options, input); non-trivial = input of at least 2 bytes")


def nontrivial(fs):
    return len(fs[3]) >= 4


def classify(fs):
    obs = fs[-1]
    return fs[0][0] + ":" + (obs[:3] if obs.startswith("ok:") else obs)
