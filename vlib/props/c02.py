ID = "C02"
CLUSTER = "cbor"
EXTRACT_V = "ExtractCbor.v"
MODEL_DEPS = ["Base/Bytes.v", "Base/GoSem.v", "Gen/FromGo.v", "DM/Value.v", "Codec/Cid.v", "Codec/Cbor.v", "Codec/CborSpec.v"]
DRIVER = "c02_driver"
HARNESS = "c02"
COUNTS = {"quick": 3000, "thorough": 60000}
DESIGN_REF = "DESIGN.md §4 C02"
TECHNIQUE = "Coq proof (canonical form, uniqueness, order-independence, round-trip, length law) + gotrans regeneration (uintLength, constants, the sort.Slice key comparators) + differential run of the extracted model"
LEVEL_TEXT = ("Theorems in coq/Props/C02.v about the executable model coq/Codec/Cbor.v (encoder = marshal + refmt "
              "encoder; decoder = unmarshal + refmt tokenizer): the encoder output is the canonical DAG-CBOR form, "
              "that form is unique per value, independent of map insertion order, decodes back to the key-sorted "
              "value, and EncodedLength equals the produced length; for all values, no size bound. The model is tied "
              "to /repo by regenerating uintLength/constants with gotrans and by running the extracted model against "
              "dagcbor.Encode/EncodedLength/Decode on generated values in several node implementations.")
LEVEL_NOTE = ("Trusted: Coq kernel, extraction, gotrans, the Go harness and generators; refmt and go-cid are modelled by "
              "hand (tied only by the differential run). sort.Slice is assumed to sort correctly.")
TRUSTED = ["refmt v0.90 CBOR encoder/tokenizer and go-cid: hand-modelled in coq/Codec/Cbor.v, Cid.v; tied by correspondence only",
           "Go sort.Slice sorts correctly w.r.t. the comparator it is given (the model uses insertion sort; uniqueness of the sorted permutation is proved); the comparator closures themselves are translated from the source by gotrans and proved equal to the model's orders (C02_source_key_order), taking Go's string < to be bytewise (GoSem.str_ltb)"]
RULE = ("values from the structured generator (boundary pools for ints/floats/strings/lengths, CIDs v0/v1), each in 3 "
        "insertion orders and in basicnode/bindnode holders, plus other sort modes; distinct = distinct "
        "(options, holder, value-as-inserted); non-trivial = value text longer than 8 characters")


def classify(fs):
    v = fs[5]
    k = v[:1]
    return {"m": "map", "a": "list"}.get(k, "scalar") + ":" + fs[2] + ":" + fs[4]
