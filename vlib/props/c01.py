ID = "C01"
CLUSTER = "node"
EXTRACT_V = "ExtractNode.v"
MODEL_DEPS = ["Base/Bytes.v", "DM/Value.v", "Node/Basic.v"]
DRIVER = "c01_driver"
HARNESS = "c01"
COUNTS = {"quick": 3000, "thorough": 40000}
DESIGN_REF = "DESIGN.md §4 C01"
TECHNIQUE = ("Coq proof (refinement of assembler scripts to the abstract value, invariant m = t, wrong-kind table, "
             "DeepEqual/Copy laws) + differential run of the extracted model of basicnode against the real assemblers and readers")
LEVEL_TEXT = ("Theorems in coq/Props/C01.v about the executable model coq/Node/Basic.v of node/basicnode (any/map/list/scalar "
              "builders as one state machine over assembler calls, plainMap's two containers, AssignNode shortcuts and fallbacks, "
              "the whole read API incl. PathSegment string/int duality, datamodel.DeepEqual and datamodel.Copy): every legal script "
              "for a value (entry shortcut or key+value, key as string or node, scalar assignment or AssignNode of a node of any "
              "implementation, any size hint, any prototype that can hold the value) builds a node whose abstract value is that "
              "value, with insertion order; on every built node length, both iterators and all four lookup forms agree; "
              "kind-inappropriate accessors return wrong-kind and never panic; DeepEqual is Go-equality of abstract values and "
              "Copy reproduces the value; for all values and scripts, by induction. The model is tied to /repo by running the "
              "same scripts step by step against the real assemblers and dumping every read form.")
LEVEL_NOTE = ("Nodes of other implementations (bindnode {String:Any}/[Any], gendemo) enter as well-behaved foreign containers "
              "(assumption exercised by the run, not a model of their code). Size hints are functionally ignored; hints beyond "
              "4096 are not run (a huge make() is caller-requested resource exhaustion).")
TRUSTED = ["foreign nodes (bindnode holders, gendemo) behave as the Node contract says: modelled as NFMap/NFList, tied by the correspondence run only",
           "Go map semantics for plainMap.m: association list read by first match, insertion conses",
           "strconv.ParseInt/FormatInt (base 10, 64 bit) hand-modelled in parse_int/format_int; tied by segment probes in the run"]
RULE = ("values from the structured generator (all nine kinds, int64 boundaries and uint64 above, NaN/Inf/±0, arbitrary byte strings "
        "as keys) x 3 random legal scripts each (entry shortcut vs key+value, key as string or node, AssignNode of basicnode / bindnode / "
        "gendemo nodes at any depth, size hints in [-2^63, 4096]) x prototype (any or the kind's own); every read form dumped for "
        "every container of the result; plus Reset-and-reuse records (build v1, Reset the same builder, build v2, read the first node again); distinct = distinct (prototype, value, script); non-trivial = script longer than 12 characters")


def classify(fs):
    if fs[1] == "probe":
        return "probe"
    v = fs[3][:1]
    shape = {"m": "map", "a": "list"}.get(v, "scalar")
    if fs[1] == "c01r":
        return "reset:" + shape + ":" + fs[2]
    return shape + ":" + fs[2] + (":assignnode" if "XN" in fs[4] else "")


def nontrivial(fs):
    if fs[1] == "probe":
        return False
    return len(fs[4]) > 12


def input_key(fs):
    if fs[1] == "probe":
        return fs[2]
    if fs[1] == "c01r":
        return "\t".join(fs[1:7])
    return "\t".join(fs[2:5])
